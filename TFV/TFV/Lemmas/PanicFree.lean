/-
Lemmas.PanicFree — the library behind the panic-freedom properties C14p–C18p.

Part 1 (structural): well-formedness (`TwoFloat.WF`: both words are bit patterns of doubles) is preserved by
every `TwoFloat` operation the elementary functions use.  All the arithmetic operators end in a
`fast_two_sum`/`renorm3`, whose words are results of IEEE additions, so their results are WF unconditionally.
-/
import TFV.Lemmas.ArithExact
import TFV.Lemmas.Inv
import TFV.Lemmas.Conv
import TFV.Properties.C07

set_option exponentiation.threshold 3000

namespace PF
open F64 TwoFloat

/-! ## WF of every operator form (all reduce by `rfl` to the reference-reference forms) -/

instance (t : TwoFloat) : Decidable t.WF := by unfold TwoFloat.WF; infer_instance

theorem ite_WF (c : Prop) [Decidable c] {a b : TwoFloat} (ha : a.WF) (hb : b.WF) :
    (if c then a else b).WF := by
  split_ifs <;> assumption

theorem WF_mk {a b : F64} (ha : a.WF) (hb : b.WF) : (⟨a, b⟩ : TwoFloat).WF := ⟨ha, hb⟩

theorem f64lit_WF_zero : (f64lit 0x0000000000000000).WF := by decide +kernel

theorem NAN_WF : TwoFloat.NAN.WF := ⟨trivial, trivial⟩

theorem from_f64_WF {c : F64} (hc : c.WF) : (convert.impl_From_f64_for_TwoFloat.from c).WF :=
  ⟨hc, f64lit_WF_zero⟩

theorem neg_WF {t : TwoFloat} (h : t.WF) : (arithmetic.impl_Neg_for_TwoFloat.neg t).WF :=
  TwoFloat.neg_WF' h

theorem abs_WF {t : TwoFloat} (h : t.WF) : (TwoFloat.abs t).WF := by
  unfold TwoFloat.abs
  split_ifs
  · exact h
  · exact TwoFloat.neg_WF' h

theorem add_tt_WF (x y : TwoFloat) : (arithmetic.impl_Add_TwoFloat_for_TwoFloat.add x y).WF :=
  TwoFloat.add_tt_WF x y
theorem sub_tt_WF (x y : TwoFloat) : (arithmetic.impl_Sub_TwoFloat_for_TwoFloat.sub x y).WF :=
  TwoFloat.sub_tt_WF x y
theorem mul_tt_WF (x y : TwoFloat) : (arithmetic.impl_Mul_TwoFloat_for_TwoFloat.mul x y).WF :=
  TwoFloat.mul_tt_WF x y
theorem div_tt_WF (x y : TwoFloat) : (arithmetic.impl_Div_TwoFloat_for_TwoFloat.div x y).WF :=
  TwoFloat.div_tt_WF x y
theorem add_tf_WF (x : TwoFloat) (f : F64) : (arithmetic.impl_Add_f64_for_TwoFloat.add x f).WF :=
  TwoFloat.add_tf_WF x f
theorem sub_tf_WF (x : TwoFloat) (f : F64) : (arithmetic.impl_Sub_f64_for_TwoFloat.sub x f).WF :=
  TwoFloat.sub_tf_WF x f
theorem mul_tf_WF (x : TwoFloat) (f : F64) : (arithmetic.impl_Mul_f64_for_TwoFloat.mul x f).WF :=
  TwoFloat.mul_tf_WF x f
theorem div_tf_WF (x : TwoFloat) (f : F64) : (arithmetic.impl_Div_f64_for_TwoFloat.div x f).WF :=
  TwoFloat.div_tf_WF x f
theorem sub_ft_WF (f : F64) (x : TwoFloat) : (arithmetic.impl_Sub_TwoFloat_for_f64.sub f x).WF :=
  TwoFloat.sub_ft_WF f x
theorem div_ft_WF (f : F64) (x : TwoFloat) : (arithmetic.impl_Div_TwoFloat_for_f64.div f x).WF :=
  TwoFloat.div_ft_WF f x
theorem add_ft_WF (f : F64) (x : TwoFloat) : (arithmetic.impl_Add_TwoFloat_for_f64.add f x).WF :=
  fast_two_sum_WF _ _
theorem mul_ft_WF (f : F64) (x : TwoFloat) : (arithmetic.impl_Mul_TwoFloat_for_f64.mul f x).WF :=
  fast_two_sum_WF _ _
theorem add_assign_tt_WF (x y : TwoFloat) :
    (arithmetic.impl_AddAssign_TwoFloat_for_TwoFloat.add_assign x y).WF := fast_two_sum_WF _ _
theorem sub_assign_tt_WF (x y : TwoFloat) :
    (arithmetic.impl_SubAssign_TwoFloat_for_TwoFloat.sub_assign x y).WF := fast_two_sum_WF _ _
theorem recip_WF (x : TwoFloat) : (TwoFloat.recip x).WF := TwoFloat.div_ft_WF _ x

/-- `TwoFloat::sqrt`: NAN, (0, 0) or a `new_add` -/
theorem sqrt_WF (x : TwoFloat) : (TwoFloat.sqrt x).WF := by
  unfold TwoFloat.sqrt
  split_ifs
  · exact NAN_WF
  · exact ⟨f64lit_WF_zero, f64lit_WF_zero⟩
  · exact new_add_WF _ _

/-- `TwoFloat::round` -/
theorem round_WF {x : TwoFloat} (h : x.WF) : (TwoFloat.round x).WF := by
  unfold TwoFloat.round
  split_ifs
  · exact ⟨C08.WF_round h.1, h.2⟩
  · exact fast_two_sum_WF _ _
  · exact fast_two_sum_WF _ _
  · exact fast_two_sum_WF _ _
  · exact from_f64_WF (C08.WF_round h.1)
  · exact from_f64_WF (C08.WF_trunc h.1)
  · exact from_f64_WF (C08.WF_round h.1)

/-! ## the restricted kernels of the trigonometric functions: the outermost operation is an operator -/

theorem restricted_sin_WF (x : TwoFloat) : (trigonometry.restricted_sin x).WF := mul_tt_WF _ _
theorem restricted_cos_WF (x : TwoFloat) : (trigonometry.restricted_cos x).WF := add_tf_WF _ _
theorem restricted_tan_WF (x : TwoFloat) : (trigonometry.restricted_tan x).WF := mul_tt_WF _ _
theorem restricted_asin_WF (x : TwoFloat) : (trigonometry.restricted_asin x).WF := mul_tt_WF _ _
theorem restricted_atan_WF (x : TwoFloat) : (trigonometry.restricted_atan x).WF := mul_tt_WF _ _

/-! ## constants -/

theorem FRAC_PI_4_WF : consts.FRAC_PI_4.WF := by decide +kernel
theorem FRAC_PI_2_WF : consts.FRAC_PI_2.WF := by decide +kernel
theorem PI_WF : consts.PI.WF := by decide +kernel
theorem LN_2_WF : consts.LN_2.WF := by decide +kernel
theorem LN_FRAC_3_2_WF : explog.LN_FRAC_3_2.WF := by decide +kernel

/-! ## comparisons and `is_valid` -/

theorem is_valid_pf {t : TwoFloat} (h : t.WF) : TwoFloat.is_valid.pf t = true := C07.is_valid_pf t h

theorem tcmp_pf {a b : TwoFloat} (ha : a.WF) (hb : b.WF) :
    base.impl_PartialOrd_TwoFloat_for_TwoFloat.partial_cmp.pf a b = true := Conv.tcmp_pf_of_WF a b ha hb

end PF
