/-
Lemmas.PanicFree — the library behind the panic-freedom properties C14p–C18p (namespace `PF`).

Part 1 (structural): well-formedness (`TwoFloat.WF`: both words are bit patterns of doubles) is preserved by
  every `TwoFloat` operation the elementary functions use.  All the arithmetic operators end in a
  `fast_two_sum`/`renorm3`, whose words are results of IEEE additions, so their results are WF unconditionally.
Part 2: machine-integer facts — `exp_half_pf` (`|n| ≤ 1439`), `expm1_128th_pf` (`|n| ≤ 32`), `mul_pow2_pf` (every
  in-range `i32`: the loop of `mul_pow2` ends within its fuel of 2 100 000 iterations).
Part 3: casts and roundings of doubles (`x as i32` saturates; `round`/`trunc`/`as i32` of a bounded double).
Part 4: the exponential family — `expm1_quarter_pf`, `exp2_pf` (ALL arguments), the argument reduction `exp_reduce`,
  and `exp_pf` (valid arguments) / `exp_pf_inv` (C01 invariant).
Part 5: the invariant `Good = Inv ∧ WF` through `expm1_quarter`, `exp_half`, `exp` (relative to the closed fact
  `ExpHalfRecipInv`, proved in `C14p.expHalfRecipInv`).
Part 6: logarithms — `libm` seeds are WF, `ln_pf`, `good_ln`, `log_pf`, `log10_pf`, `log2_pf` (ALL arguments),
  `exp_m1_pf`.
Part 7: `cosh_pf`, `sinh_pf`, `tanh_pf`, `powf_pf`.
-/
import TFV.Lemmas.ArithExact
import TFV.Lemmas.Inv
import TFV.Lemmas.Conv
import TFV.Properties.C07
import TFV.Properties.C08
import TFV.Properties.C01
import TFV.Lemmas.LnScale

set_option exponentiation.threshold 3000

namespace PF
open F64 TwoFloat

/-! ## WF of every operator form (all reduce by `rfl` to the reference-reference forms) -/

instance (t : TwoFloat) : Decidable t.WF := by unfold TwoFloat.WF; infer_instance

theorem ite_WF (c : Prop) [Decidable c] {a b : TwoFloat} (ha : a.WF) (hb : b.WF) :
    (if c then a else b).WF := by
  split_ifs <;> assumption

theorem WF_mk {a b : F64} (ha : a.WF) (hb : b.WF) : (⟨a, b⟩ : TwoFloat).WF := ⟨ha, hb⟩

theorem f64lit_WF_zero : (f64lit 0x0000000000000000).WF := by decide +kernel

theorem NAN_WF : TwoFloat.NAN.WF := ⟨trivial, trivial⟩

theorem from_f64_WF {c : F64} (hc : c.WF) : (convert.impl_From_f64_for_TwoFloat.from c).WF :=
  ⟨hc, f64lit_WF_zero⟩

theorem neg_WF {t : TwoFloat} (h : t.WF) : (arithmetic.impl_Neg_for_TwoFloat.neg t).WF :=
  TwoFloat.neg_WF' h

theorem abs_WF {t : TwoFloat} (h : t.WF) : (TwoFloat.abs t).WF := by
  unfold TwoFloat.abs
  split_ifs
  · exact h
  · exact TwoFloat.neg_WF' h

theorem add_tt_WF (x y : TwoFloat) : (arithmetic.impl_Add_TwoFloat_for_TwoFloat.add x y).WF :=
  TwoFloat.add_tt_WF x y
theorem sub_tt_WF (x y : TwoFloat) : (arithmetic.impl_Sub_TwoFloat_for_TwoFloat.sub x y).WF :=
  TwoFloat.sub_tt_WF x y
theorem mul_tt_WF (x y : TwoFloat) : (arithmetic.impl_Mul_TwoFloat_for_TwoFloat.mul x y).WF :=
  TwoFloat.mul_tt_WF x y
theorem div_tt_WF (x y : TwoFloat) : (arithmetic.impl_Div_TwoFloat_for_TwoFloat.div x y).WF :=
  TwoFloat.div_tt_WF x y
theorem add_tf_WF (x : TwoFloat) (f : F64) : (arithmetic.impl_Add_f64_for_TwoFloat.add x f).WF :=
  TwoFloat.add_tf_WF x f
theorem sub_tf_WF (x : TwoFloat) (f : F64) : (arithmetic.impl_Sub_f64_for_TwoFloat.sub x f).WF :=
  TwoFloat.sub_tf_WF x f
theorem mul_tf_WF (x : TwoFloat) (f : F64) : (arithmetic.impl_Mul_f64_for_TwoFloat.mul x f).WF :=
  TwoFloat.mul_tf_WF x f
theorem div_tf_WF (x : TwoFloat) (f : F64) : (arithmetic.impl_Div_f64_for_TwoFloat.div x f).WF :=
  TwoFloat.div_tf_WF x f
theorem sub_ft_WF (f : F64) (x : TwoFloat) : (arithmetic.impl_Sub_TwoFloat_for_f64.sub f x).WF :=
  TwoFloat.sub_ft_WF f x
theorem div_ft_WF (f : F64) (x : TwoFloat) : (arithmetic.impl_Div_TwoFloat_for_f64.div f x).WF :=
  TwoFloat.div_ft_WF f x
theorem add_ft_WF (f : F64) (x : TwoFloat) : (arithmetic.impl_Add_TwoFloat_for_f64.add f x).WF :=
  fast_two_sum_WF _ _
theorem mul_ft_WF (f : F64) (x : TwoFloat) : (arithmetic.impl_Mul_TwoFloat_for_f64.mul f x).WF :=
  fast_two_sum_WF _ _
theorem add_assign_tt_WF (x y : TwoFloat) :
    (arithmetic.impl_AddAssign_TwoFloat_for_TwoFloat.add_assign x y).WF := fast_two_sum_WF _ _
theorem sub_assign_tt_WF (x y : TwoFloat) :
    (arithmetic.impl_SubAssign_TwoFloat_for_TwoFloat.sub_assign x y).WF := fast_two_sum_WF _ _
theorem recip_WF (x : TwoFloat) : (TwoFloat.recip x).WF := TwoFloat.div_ft_WF _ x

/-- `TwoFloat::sqrt`: NAN, (0, 0) or a `new_add` -/
theorem sqrt_WF (x : TwoFloat) : (TwoFloat.sqrt x).WF := by
  unfold TwoFloat.sqrt
  split_ifs
  · exact NAN_WF
  · exact ⟨f64lit_WF_zero, f64lit_WF_zero⟩
  · exact new_add_WF _ _

/-- `TwoFloat::round` -/
theorem round_WF {x : TwoFloat} (h : x.WF) : (TwoFloat.round x).WF := by
  unfold TwoFloat.round
  split_ifs
  · exact ⟨C08.WF_round h.1, h.2⟩
  · exact fast_two_sum_WF _ _
  · exact fast_two_sum_WF _ _
  · exact fast_two_sum_WF _ _
  · exact from_f64_WF (C08.WF_round h.1)
  · exact from_f64_WF (C08.WF_trunc h.1)
  · exact from_f64_WF (C08.WF_round h.1)

/-! ## the restricted kernels of the trigonometric functions: the outermost operation is an operator -/

theorem restricted_sin_WF (x : TwoFloat) : (trigonometry.restricted_sin x).WF := mul_tt_WF _ _
theorem restricted_cos_WF (x : TwoFloat) : (trigonometry.restricted_cos x).WF := add_tf_WF _ _
theorem restricted_tan_WF (x : TwoFloat) : (trigonometry.restricted_tan x).WF := mul_tt_WF _ _
theorem restricted_asin_WF (x : TwoFloat) : (trigonometry.restricted_asin x).WF := mul_tt_WF _ _
theorem restricted_atan_WF (x : TwoFloat) : (trigonometry.restricted_atan x).WF := mul_tt_WF _ _

/-! ## constants -/

theorem FRAC_PI_4_WF : consts.FRAC_PI_4.WF := by decide +kernel
theorem FRAC_PI_2_WF : consts.FRAC_PI_2.WF := by decide +kernel
theorem PI_WF : consts.PI.WF := by decide +kernel
theorem LN_2_WF : consts.LN_2.WF := by decide +kernel
theorem LN_FRAC_3_2_WF : explog.LN_FRAC_3_2.WF := by decide +kernel

/-! ## comparisons and `is_valid` -/

theorem is_valid_pf {t : TwoFloat} (h : t.WF) : TwoFloat.is_valid.pf t = true := C07.is_valid_pf t h

theorem tcmp_pf {a b : TwoFloat} (ha : a.WF) (hb : b.WF) :
    base.impl_PartialOrd_TwoFloat_for_TwoFloat.partial_cmp.pf a b = true := Conv.tcmp_pf_of_WF a b ha hb

/-! ## Part 2: machine-integer facts -/

theorem ilt_iff {s : Bool} {b : Nat} (x y : IntN s b) : (x <. y) = true ↔ x.v < y.v := by
  show (match (some (if x.v < y.v then ROrdering.Less else if x.v = y.v then .Equal else .Greater) :
      Option ROrdering) with | some .Less => true | _ => false) = true ↔ _
  by_cases h1 : x.v < y.v
  · rw [if_pos h1]; simp [h1]
  · by_cases h2 : x.v = y.v
    · rw [if_neg h1, if_pos h2]; simp [h1]
    · rw [if_neg h1, if_neg h2]; simp [h1]

theorem igt_iff {s : Bool} {b : Nat} (x y : IntN s b) : (x >. y) = true ↔ y.v < x.v := by
  show (match (some (if x.v < y.v then ROrdering.Less else if x.v = y.v then .Equal else .Greater) :
      Option ROrdering) with | some .Greater => true | _ => false) = true ↔ _
  by_cases h1 : x.v < y.v
  · rw [if_pos h1]; simp; omega
  · by_cases h2 : x.v = y.v
    · rw [if_neg h1, if_pos h2]; simp; omega
    · rw [if_neg h1, if_neg h2]; simp; omega

theorem ile_iff {s : Bool} {b : Nat} (x y : IntN s b) : (x <=. y) = true ↔ x.v ≤ y.v := by
  show (match (some (if x.v < y.v then ROrdering.Less else if x.v = y.v then .Equal else .Greater) :
      Option ROrdering) with | some .Less => true | some .Equal => true | _ => false) = true ↔ _
  by_cases h1 : x.v < y.v
  · rw [if_pos h1]; simp; omega
  · by_cases h2 : x.v = y.v
    · rw [if_neg h1, if_pos h2]; simp; omega
    · rw [if_neg h1, if_neg h2]; simp; omega

theorem inRange_i32 (z : Int) (h0 : -2147483648 ≤ z) (h1 : z ≤ 2147483647) :
    IntN.inRange (⟨z⟩ : I32) = true := by
  show IntN.fits true 32 z = true
  rw [IntN.fits_iff, IntN.minV_eq, IntN.maxV_eq]
  have : ((2 ^ IntN.K true 32 : Nat) : Int) = 2147483648 := by decide
  rw [this]; simp only [if_true]; omega

theorem inRange_usize (z : Int) (h0 : 0 ≤ z) (h1 : z ≤ 18446744073709551615) :
    IntN.inRange (⟨z⟩ : Usize) = true := by
  show IntN.fits false 64 z = true
  rw [IntN.fits_iff, IntN.minV_eq, IntN.maxV_eq]
  have : ((2 ^ IntN.K false 64 : Nat) : Int) = 18446744073709551616 := by decide
  rw [this]; simp only [Bool.false_eq_true, if_false]; omega

theorem cast_i32_usize (z : Int) (h0 : 0 ≤ z) (h1 : z ≤ 2147483647) :
    (RCast.cast (⟨z⟩ : I32) : Usize) = ⟨z⟩ := by
  show (⟨IntN.wrapV false 64 z⟩ : Usize) = ⟨z⟩
  unfold IntN.wrapV
  have : ((2 ^ 64 : Nat) : Int) = 18446744073709551616 := by decide
  simp only [this, Bool.false_and, Bool.false_eq_true, if_false]
  congr 1; omega

theorem inBounds_list {α : Type} [Inhabited α] (l : List α) (i : Usize) (h0 : 0 ≤ i.v)
    (h1 : i.v < (l.length : Int)) : RIndex.inBounds l i = true := by
  show (decide (0 ≤ i.v) && decide (i.v.toNat < l.length)) = true
  simp only [Bool.and_eq_true, decide_eq_true_eq]
  omega

theorem go_pf_nonneg (fuel : Nat) (v : Int) (h0 : 0 ≤ v) (h1 : v < 1440) :
    explog.exp_half.go.pf (fuel+1) (⟨v⟩ : I32) = true := by
  simp only [explog.exp_half.go.pf]
  have hlt : ((⟨v⟩ : I32) <. (1440 : I32)) = true := (ilt_iff _ _).2 h1
  have hneg : (⟨v⟩ : I32).is_negative = false := by
    show decide (v < 0) = false
    simp; omega
  have hd : ((⟨v⟩ : I32) /. (32 : I32)) = ⟨v / 32⟩ := by
    show (⟨Int.tdiv v 32⟩ : I32) = _
    rw [Int.tdiv_eq_ediv_of_nonneg h0]
  have hm : ((⟨v⟩ : I32) %. (32 : I32)) = ⟨v % 32⟩ := by
    show (⟨Int.tmod v 32⟩ : I32) = _
    rw [Int.tmod_eq_emod_of_nonneg h0]
  have hA0 : 0 ≤ v / 32 := by omega
  have hA1 : v / 32 ≤ 44 := by omega
  have hB0 : 0 ≤ v % 32 := by omega
  have hB1 : v % 32 ≤ 31 := by omega
  rw [hlt, hneg]
  simp only [Bool.true_and]
  rw [hd, hm, cast_i32_usize _ hA0 (by omega), cast_i32_usize _ hB0 (by omega),
    inRange_i32 (v / 32) (by omega) (by omega), inRange_i32 (v % 32) (by omega) (by omega)]
  generalize v / 32 = A at *
  generalize v % 32 = B at *
  have h32 : ((32 : I32) !=. (0 : I32)) = true := by decide
  rw [h32]
  simp only [Bool.true_and, Bool.false_eq_true, if_false]
  have l16 : (explog.exp_half.EXP_16_N.length : Int) = 44 := by decide
  have lh : (explog.exp_half.EXP_HALF_N.length : Int) = 31 := by decide
  have pa : (0 : Int) < A →
      ((((⟨A⟩ : Usize) -. (1 : Usize)).inRange && RIndex.inBounds explog.exp_half.EXP_16_N ((⟨A⟩ : Usize) -. (1 : Usize)))
        && ((⟨A⟩ : Usize) -. (1 : Usize)).inRange) = true := by
    intro hA
    have e : ((⟨A⟩ : Usize) -. (1 : Usize)) = ⟨A - 1⟩ := rfl
    rw [e, inRange_usize _ (by omega) (by omega), inBounds_list _ _ (by show 0 ≤ A - 1; omega)
      (by rw [l16]; show A - 1 < 44; omega)]
    rfl
  have pb : (0 : Int) < B →
      ((((⟨B⟩ : Usize) -. (1 : Usize)).inRange && RIndex.inBounds explog.exp_half.EXP_HALF_N ((⟨B⟩ : Usize) -. (1 : Usize)))
        && ((⟨B⟩ : Usize) -. (1 : Usize)).inRange) = true := by
    intro hB
    have e : ((⟨B⟩ : Usize) -. (1 : Usize)) = ⟨B - 1⟩ := rfl
    rw [e, inRange_usize _ (by omega) (by omega), inBounds_list _ _ (by show 0 ≤ B - 1; omega)
      (by rw [lh]; show B - 1 < 31; omega)]
    rfl
  cases hA : ((⟨A⟩ : Usize) >. (0 : Usize)) <;> cases hB : ((⟨B⟩ : Usize) >. (0 : Usize))
  · rfl
  · exact pb ((igt_iff _ _).1 hB)
  · exact pa ((igt_iff _ _).1 hA)
  · show (_ && _) = true
    rw [pa ((igt_iff _ _).1 hA), pb ((igt_iff _ _).1 hB)]; rfl

theorem exp_half_pf (n : I32) (h : n.v.natAbs ≤ 1439) : explog.exp_half.pf n = true := by
  obtain ⟨v⟩ := n
  have h' : v.natAbs ≤ 1439 := h
  by_cases hv : 0 ≤ v
  · exact go_pf_nonneg 1 v hv (by omega)
  · show explog.exp_half.go.pf 2 (⟨v⟩ : I32) = true
    simp only [explog.exp_half.go.pf]
    have hlt : ((⟨v⟩ : I32) <. (1440 : I32)) = true := (ilt_iff _ _).2 (by show v < 1440; omega)
    have hneg : (⟨v⟩ : I32).is_negative = true := by
      show decide (v < 0) = true
      simp; omega
    have e : (⟨v⟩ : I32).neg = ⟨-v⟩ := rfl
    rw [hlt, hneg, e, inRange_i32 _ (by omega) (by omega)]
    simp only [Bool.true_and, if_true]
    have := go_pf_nonneg 0 (-v) (by omega) (by omega)
    simpa [explog.exp_half.go.pf] using this
theorem expm1_128th_pf (n : I32) (h : n.v.natAbs ≤ 32) : explog.expm1_128th.pf n = true := by
  obtain ⟨v⟩ := n
  have h' : v.natAbs ≤ 32 := h
  unfold explog.expm1_128th.pf
  have e1 : IntN.abs (⟨v⟩ : I32) = ⟨(v.natAbs : Int)⟩ := rfl
  have e2 : ((⟨v⟩ : I32) +. (32 : I32)) = ⟨v + 32⟩ := rfl
  have hl : (explog.expm1_128th.EXPM1_128TH.length : Int) = 65 := by decide
  rw [e1, e2, inRange_i32 _ (by omega) (by omega), inRange_i32 _ (by omega) (by omega),
    (ile_iff _ _).2 (by show (v.natAbs : Int) ≤ 32; omega), cast_i32_usize _ (by omega) (by omega),
    inBounds_list _ _ (by show 0 ≤ v + 32; omega) (by rw [hl]; show v + 32 < 65; omega)]
  rfl

/-- `mul_pow2`'s loop: enough fuel for every `i32` exponent -/
theorem mul_pow2_loop_pf : ∀ (fuel : Nat) (x : F64) (v : Int), -2147483648 ≤ v → v ≤ 2147483647 →
    v.natAbs / 1023 + 1 ≤ fuel → explog.mul_pow2.loop1.pf fuel x (⟨v⟩ : I32) = true := by
  intro fuel
  induction fuel with
  | zero => intro x v _ _ h; omega
  | succ fuel ih =>
    intro x v h0 h1 hf
    simp only [explog.mul_pow2.loop1.pf]
    by_cases c1 : v < -1074
    · rw [if_pos ((ilt_iff (⟨v⟩ : I32) (-1074 : I32)).2 c1)]
      have e : ((⟨v⟩ : I32) +. (1074 : I32)) = ⟨v + 1074⟩ := rfl
      rw [e, inRange_i32 _ (by omega) (by omega), ih _ _ (by omega) (by omega) (by omega)]
      rfl
    · have n1 : ¬ ((⟨v⟩ : I32) <. (-1074 : I32)) = true := fun hc => c1 ((ilt_iff _ _).1 hc)
      rw [if_neg n1]
      by_cases c2 : v < -1022
      · rw [if_pos ((ilt_iff (⟨v⟩ : I32) (-1022 : I32)).2 c2)]
        have e : ((⟨v⟩ : I32) +. (1074 : I32)) = ⟨v + 1074⟩ := rfl
        rw [e, inRange_i32 _ (by omega) (by omega),
          (ile_iff (0 : I32) ⟨v + 1074⟩).2 (by show (0 : Int) ≤ v + 1074; omega),
          (ilt_iff (⟨v + 1074⟩ : I32) (64 : I32)).2 (by show v + 1074 < 64; omega)]
        rfl
      · have n2 : ¬ ((⟨v⟩ : I32) <. (-1022 : I32)) = true := fun hc => c2 ((ilt_iff _ _).1 hc)
        rw [if_neg n2]
        by_cases c3 : v < 1024
        · rw [if_pos ((ilt_iff (⟨v⟩ : I32) (1024 : I32)).2 c3)]
          have e : ((⟨v⟩ : I32) +. (1023 : I32)) = ⟨v + 1023⟩ := rfl
          rw [e, inRange_i32 _ (by omega) (by omega)]
        · have n3 : ¬ ((⟨v⟩ : I32) <. (1024 : I32)) = true := fun hc => c3 ((ilt_iff _ _).1 hc)
          rw [if_neg n3]
          have e : ((⟨v⟩ : I32) -. (1023 : I32)) = ⟨v - 1023⟩ := rfl
          rw [e, inRange_i32 _ (by omega) (by omega), ih _ _ (by omega) (by omega) (by omega)]
          rfl

/-- `mul_pow2` never panics: the loop terminates within its fuel for every in-range `i32` exponent -/
theorem mul_pow2_pf (x : F64) (y : I32) (h : IntN.inRange y = true) : explog.mul_pow2.pf x y = true := by
  obtain ⟨v⟩ := y
  have h' : IntN.fits true 32 v = true := h
  rw [IntN.fits_iff, IntN.minV_eq, IntN.maxV_eq] at h'
  have : ((2 ^ IntN.K true 32 : Nat) : Int) = 2147483648 := by decide
  rw [this] at h'
  simp only [if_true] at h'
  exact mul_pow2_loop_pf 2100000 x v (by omega) (by omega) (by omega)
/-! ## Part 3: casts and roundings of doubles -/

/-- `x as i32` saturates: the result is always in range -/
theorem cast_f64_i32_inRange (x : F64) : IntN.inRange (RCast.cast x : I32) = true := by
  show IntN.fits true 32 (F64.toIntSat true 32 x) = true
  rw [IntN.fits_iff, IntN.minV_eq, IntN.maxV_eq]
  have e : ((2 ^ IntN.K true 32 : Nat) : Int) = 2147483648 := by decide
  simp only [if_true, e]
  cases x with
  | nan => show _ ≤ (0 : Int) ∧ (0 : Int) ≤ _; omega
  | inf s =>
    show _ ≤ (if s then IntN.minV true 32 else IntN.maxV true 32) ∧ (if s then IntN.minV true 32 else IntN.maxV true 32) ≤ _
    rw [IntN.minV_eq, IntN.maxV_eq]; simp only [if_true, e]
    cases s <;> simp
  | fin s n =>
    show _ ≤ (let t : Int := ((n / F64.unit : Nat) : Int)
        let z := if s then -t else t
        if z < IntN.minV true 32 then IntN.minV true 32 else if z > IntN.maxV true 32 then IntN.maxV true 32 else z) ∧
      (let t : Int := ((n / F64.unit : Nat) : Int)
        let z := if s then -t else t
        if z < IntN.minV true 32 then IntN.minV true 32 else if z > IntN.maxV true 32 then IntN.maxV true 32 else z) ≤ _
    simp only [IntN.minV_eq, IntN.maxV_eq, if_true, e]
    split_ifs <;> omega

/-- `x as i32` for an integer-valued double in range -/
theorem cast_f64_i32 {x : F64} (hx : x.is_finite = true) {q : Int}
    (hq : x.toInt = q * ((F64.unit : Nat) : Int)) (h : q.natAbs ≤ 2147483647) :
    (RCast.cast x : I32) = ⟨q⟩ := by
  show (⟨F64.toIntSat true 32 x⟩ : I32) = ⟨q⟩
  have e : ((2 ^ IntN.K true 32 : Nat) : Int) = 2147483648 := by decide
  rw [toIntSat_of_toInt true 32 hx hq (by rw [IntN.minV_eq]; simp only [if_true, e]; omega)
    (by rw [IntN.maxV_eq, e]; omega)]

/-- `round` then `trunc` then `as i32` of a double of magnitude at most `K` is an integer of magnitude at most `K` -/
theorem round_trunc_cast (p : F64) (K : Nat) (hf : p.is_finite = true)
    (hp : p.toInt.natAbs ≤ K * F64.unit) (hK : K ≤ 2147483647) :
    ((RCast.cast (F64.trunc (F64.round p)) : I32).v).natAbs ≤ K := by
  obtain ⟨s, n, rfl⟩ := is_finite_iff.mp hf
  rw [natAbs_toInt_fin] at hp
  obtain ⟨m, e, hm⟩ := C08.round_fin s n
  rw [e]
  have hU := F64.unit_pos
  have hmK : m ≤ K * F64.unit := by
    rcases hm with rfl | ⟨rfl, hne⟩
    · exact le_trans (Nat.div_mul_le_self n _) hp
    · have hlt : n / F64.unit < K := by
        by_contra hc
        have h1 : K * F64.unit ≤ n / F64.unit * F64.unit := Nat.mul_le_mul_right _ (by omega)
        have h2 := Nat.div_mul_le_self n F64.unit
        have h3 : n = K * F64.unit := by omega
        apply hne
        rw [h3, Nat.mul_div_cancel _ hU]
      calc n / F64.unit * F64.unit + F64.unit = (n / F64.unit + 1) * F64.unit := by ring
        _ ≤ K * F64.unit := Nat.mul_le_mul_right _ hlt
  have hd : m / F64.unit ≤ K := Nat.div_le_of_le_mul (by rwa [Nat.mul_comm] at hmK)
  show ((RCast.cast (fin s (m / F64.unit * F64.unit)) : I32).v).natAbs ≤ K
  generalize m / F64.unit = d at hd ⊢
  have hq : (fin s (d * F64.unit)).toInt
      = (if s then -((d : Nat) : Int) else ((d : Nat) : Int)) * ((F64.unit : Nat) : Int) := by
    rw [toInt_fin]; cases s <;> simp
  rw [cast_f64_i32 rfl hq (by cases s <;> simp <;> omega)]
  show (if s then -((d : Nat) : Int) else ((d : Nat) : Int)).natAbs ≤ K
  cases s <;> simp <;> omega

/-! ## Part 4: the exponential family -/

theorem rle_eq (x y : F64) : (x <=. y) = F64.le x y := by
  show (match F64.partial_cmp x y with | some .Less => true | some .Equal => true | _ => false) = _
  unfold F64.le
  rcases F64.partial_cmp x y with _ | o
  · rfl
  · cases o <;> rfl

theorem rge_eq' (x y : F64) : (x >=. y) = F64.ge x y := by
  show (match F64.partial_cmp x y with | some .Greater => true | some .Equal => true | _ => false) = _
  unfold F64.ge
  rcases F64.partial_cmp x y with _ | o
  · rfl
  · cases o <;> rfl

theorem lit_quarter : f64lit 0x3fd0000000000000 = fin false (2 ^ 1072) := by decide +kernel
theorem lit_128 : f64lit 0x4060000000000000 = fin false (128 * F64.unit) := by decide +kernel
theorem lit_two : f64lit 0x4000000000000000 = fin false (2 * F64.unit) := by decide +kernel

theorem unit_eq_4q : F64.unit = 4 * 2 ^ 1072 := by
  rw [F64.unit_eq]; norm_num

theorem maxFin_ge : 2 ^ 1090 ≤ maxFin := by
  rw [maxFin_eq]
  calc 2 ^ 1090 ≤ 1 * 2 ^ 2045 := by rw [one_mul]; exact Nat.pow_le_pow_right (by decide) (by decide)
    _ ≤ (2 ^ 53 - 1) * 2 ^ 2045 := Nat.mul_le_mul_right _ (by decide)

/-- `expm1_quarter` is panic-free when its precondition `|hi| ≤ 0.25` holds -/
theorem expm1_quarter_pf (z : TwoFloat) (hf : z.hi.is_finite = true) (hw : z.hi.WF)
    (hb : z.hi.toInt.natAbs ≤ 2 ^ 1072) : TwoFloat.expm1_quarter.pf z = true := by
  unfold TwoFloat.expm1_quarter.pf TwoFloat.hi_m
  have h1 : ((F64.abs z.hi) <=. (f64lit 0x3fd0000000000000)) = true := by
    rw [rle_eq, lit_quarter, le_iff_toInt (by rw [is_finite_abs]; exact hf) rfl, toInt_abs]
    show |z.hi.toInt| ≤ ((2 ^ 1072 : Nat) : Int)
    exact abs_le_of_natAbs_le hb
  rw [h1, Bool.true_and]
  dsimp only
  apply expm1_128th_pf
  have hU : (F64.unit : Int) = 4 * 2 ^ 1072 := by exact_mod_cast unit_eq_4q
  have hbI : |z.hi.toInt| ≤ 2 ^ 1072 := by
    have := abs_le_of_natAbs_le hb; exact_mod_cast this
  have hm : IsVal (F64.mul (f64lit 0x4060000000000000) z.hi) (z.hi.toInt * 2 ^ 7) := by
    rw [lit_128]
    have h128 : IsVal (fin false (128 * F64.unit)) (128 * (F64.unit : Int)) :=
      ⟨rfl, by show ((128 * F64.unit : Nat) : Int) = _; push_cast; rfl⟩
    apply h128.mul_exact ⟨hf, rfl⟩
    · ring
    · exact repI_mul_pow2_iff.2 hw.repI
    · have hM : (2 : Int) ^ 1090 ≤ (maxFin : Int) := by exact_mod_cast maxFin_ge
      rw [abs_mul, abs_of_pos (by positivity : (0 : Int) < 2 ^ 7)]
      calc |z.hi.toInt| * 2 ^ 7 ≤ 2 ^ 1072 * 2 ^ 7 := by nlinarith
        _ ≤ 2 ^ 1090 := by norm_num
        _ ≤ _ := hM
  apply round_trunc_cast _ 32 hm.1 _ (by decide)
  show (F64.mul (f64lit 0x4060000000000000) z.hi).toInt.natAbs ≤ 32 * F64.unit
  rw [hm.2, Int.natAbs_mul, unit_eq_4q]
  have : ((2 : Int) ^ 7).natAbs = 128 := by decide
  rw [this]
  calc z.hi.toInt.natAbs * 128 ≤ 2 ^ 1072 * 128 := Nat.mul_le_mul_right _ hb
    _ = 32 * (4 * 2 ^ 1072) := by ring

/-- `exp2` is panic-free on EVERY argument: the exponent handed to `mul_pow2` is a saturating cast, and the loop of
`mul_pow2` terminates within its fuel for every `i32` -/
theorem exp2_pf (x : TwoFloat) : TwoFloat.exp2.pf x = true := by
  unfold TwoFloat.exp2.pf
  split_ifs
  · rfl
  · rfl
  · dsimp only
    split_ifs
    · rfl
    · rw [mul_pow2_pf _ _ (cast_f64_i32_inRange _), mul_pow2_pf _ _ (cast_f64_i32_inRange _)]; rfl

/-- integer core of the argument reduction of `exp`: `R` is `2V` rounded to an integer (in units `U = 4Q`),
`|V| ≤ 709`; then `R = kU` with `|k| ≤ 1418`, and `|V - R/2| ≤ 1/4` -/
theorem exp_reduce_int {Q V R : Int} (hQ : 0 < Q) (hd : (4 * Q) ∣ R)
    (hV : |V| ≤ 709 * (4 * Q))
    (h1 : 0 ≤ 2 * V → 2 * R ≤ 2 * (2 * V) + 4 * Q ∧ 2 * (2 * V) < 2 * R + 4 * Q)
    (h2 : 2 * V ≤ 0 → 2 * (2 * V) ≤ 2 * R + 4 * Q ∧ 2 * R < 2 * (2 * V) + 4 * Q) :
    ∃ k : Int, R = k * (4 * Q) ∧ k.natAbs ≤ 1418 ∧ |V - k * (2 * Q)| ≤ Q := by
  obtain ⟨k, hk⟩ := hd
  refine ⟨k, by rw [hk]; ring, ?_, ?_⟩
  · have hV' := abs_le.1 hV
    have hb : -(1419 * (4 * Q)) < k * (4 * Q) ∧ k * (4 * Q) < 1419 * (4 * Q) := by
      have e : k * (4 * Q) = R := by rw [hk]; ring
      rw [e]
      rcases le_total 0 (2 * V) with h | h
      · have := h1 h; constructor <;> omega
      · have := h2 h; constructor <;> omega
    have hk1 : k < 1419 := lt_of_mul_lt_mul_right hb.2 (by omega)
    have hk2 : -1419 < k := by
      have : (-1419) * (4 * Q) < k * (4 * Q) := by linarith [hb.1]
      exact lt_of_mul_lt_mul_right this (by omega)
    omega
  · have e : k * (2 * Q) * 2 = R := by rw [hk]; ring
    rw [abs_le]
    rcases le_total 0 (2 * V) with h | h
    · have := h1 h; constructor <;> omega
    · have := h2 h; constructor <;> omega

theorem repI_two_pow (k : Nat) : RepI ((2 : Int) ^ k) := by
  have : ((2 : Int) ^ k) = ((2 ^ k : Nat) : Int) := by push_cast; rfl
  rw [this, repI_natCast]; exact rep_two_pow k

theorem repI_small_mul_pow2 {k : Int} (m : Nat) (hk : k.natAbs < 2 ^ 53) : RepI (k * 2 ^ m) :=
  repI_mul_pow2_iff.2 (rep_of_lt hk)

theorem log2_two_pow_sub (n : Nat) : Nat.log2 (2 ^ (n + 52)) - 52 = n := by
  rw [Nat.log2_two_pow]; omega

/-- the argument reduction of `exp`: for a valid `x` with `|x.hi| < 709`, `y = round(2x)` is an integer `k`
with `|k| ≤ 1418` held exactly in one word, and the high word of `z = x - y/2` is at most `1/4` in magnitude -/
theorem exp_reduce (x : TwoFloat) (hv : x.Valid) (hw : x.WF)
    (hlo : -(709 * (F64.unit : Int)) < x.hi.toInt) (hhi : x.hi.toInt < 709 * (F64.unit : Int)) :
    let y := (TwoFloat.round (arithmetic.impl_Mul_TwoFloat_for_f64.mul (f64lit 0x4000000000000000) x)).hi
    let z := arithmetic.impl_Sub_f64_for_TwoFloat.sub x (F64.div y (f64lit 0x4000000000000000))
    (z.hi.is_finite = true ∧ z.hi.toInt.natAbs ≤ 2 ^ 1072) ∧
      (∃ k : Int, y.is_finite = true ∧ y.toInt = k * ((F64.unit : Nat) : Int) ∧ k.natAbs ≤ 1418) := by
  intro y z
  -- scale: U = 4Q, Q = 2^1072 kept abstract so that the arithmetic below is linear
  obtain ⟨Q, hQ⟩ : ∃ Q : Int, Q = 2 ^ 1072 := ⟨_, rfl⟩
  have hUQ : (F64.unit : Int) = 4 * Q := by rw [hQ]; exact_mod_cast unit_eq_4q
  have hQpos : (0 : Int) < Q := by rw [hQ]; positivity
  have hQM : 262144 * Q ≤ (maxFin : Int) := by
    have hM : (2 : Int) ^ 1090 ≤ (maxFin : Int) := by exact_mod_cast maxFin_ge
    have : 262144 * Q = 2 ^ 1090 := by rw [hQ]; norm_num
    rw [this]; exact hM
  have hrepQ : RepI Q := by rw [hQ]; exact repI_two_pow 1072
  have hrep4 : ∀ k : Int, k.natAbs < 2 ^ 53 → RepI (k * (4 * Q)) := fun k hk => by
    have : k * (4 * Q) = k * 2 ^ 1074 := by rw [hQ]; ring
    rw [this]; exact repI_small_mul_pow2 _ hk
  have hrep2 : ∀ k : Int, k.natAbs < 2 ^ 53 → RepI (k * (2 * Q)) := fun k hk => by
    have : k * (2 * Q) = k * 2 ^ 1073 := by rw [hQ]; ring
    rw [this]; exact repI_small_mul_pow2 _ hk
  have hQd : (2 : Int) ^ 1020 ∣ Q := by rw [hQ]; exact Dvd.intro_left (2 ^ 52) (by ring)
  have hQ53 : 2 * Q = 2 ^ 53 * 2 ^ 1020 := by rw [hQ]; ring
  have hQnat : Q.natAbs = 2 ^ (1020 + 52) := by rw [hQ, Int.natAbs_pow]; rfl
  -- the two words of x
  have hfix : x.hi.toInt = rnI x.V := hv.hi_toInt
  have hVe : x.V = x.hi.toInt + x.lo.toInt := rfl
  -- |V| ≤ 709 U
  have hrep709 : RepI (709 * (4 * Q)) := hrep4 709 (by decide)
  rw [hUQ] at hlo hhi
  have hVb : |x.V| ≤ 709 * (4 * Q) := by
    rw [abs_le]
    constructor
    · by_contra hc
      have h1 : x.V ≤ -(709 * (4 * Q)) := by omega
      have := rnI_mono h1
      rw [rnI_of_repI hrep709.neg, ← hfix] at this
      omega
    · by_contra hc
      have h1 : 709 * (4 * Q) ≤ x.V := by omega
      have := rnI_mono h1
      rw [rnI_of_repI hrep709, ← hfix] at this
      omega
  -- step A: t = 2 * x
  have htwo : IsVal (f64lit 0x4000000000000000) (1 * 2 ^ 1 * (F64.unit : Int)) := by
    rw [lit_two]
    exact ⟨rfl, by show ((2 * F64.unit : Nat) : Int) = _; push_cast; ring⟩
  have hov : x.hi.toInt.natAbs * 2 ^ 1 ≤ maxFin := by
    have h2 : ((x.hi.toInt.natAbs * 2 ^ 1 : Nat) : Int) ≤ (maxFin : Int) := by
      push_cast
      rcases abs_cases x.hi.toInt with ⟨e, _⟩ | ⟨e, _⟩ <;> rw [e] <;> omega
    exact_mod_cast h2
  obtain ⟨e1, e2, hn⟩ := mul_up_data hv hw (Or.inl rfl) (vf := 1 * 2 ^ 1 * (F64.unit : Int)) (m := 1) rfl hov
  have ht := mul_tf_isV_fixed (IsV.of_valid hv) htwo e1 e2 hn
  obtain ⟨t1, t2, t3, tValid, tWF⟩ := ht.package (mul_tf_WF x _) hn.2.2.2.2
  have hyt : y = (TwoFloat.round
      (arithmetic.impl_Mul_rf64_for_rTwoFloat.mul x (f64lit 0x4000000000000000))).hi := rfl
  generalize arithmetic.impl_Mul_rf64_for_rTwoFloat.mul x (f64lit 0x4000000000000000) = t at *
  have htV : t.V = 2 * x.V := by rw [t3, hVe]; ring
  -- step B: r = round t
  obtain ⟨rV, rValid⟩ := C08.round_exact tValid tWF
  have rWF := round_WF tWF
  obtain ⟨hdvd, hr1, hr2⟩ := C08.roundV_spec t.V
  have hUU : C08.U = 4 * Q := by unfold C08.U; exact hUQ
  rw [htV, hUU] at hdvd hr1 hr2
  obtain ⟨k, hk, hkb, hVW⟩ := exp_reduce_int hQpos hdvd hVb hr1 hr2
  rw [htV] at rV
  have hRrep : RepI (C08.roundV (2 * x.V)) := by rw [hk]; exact hrep4 k (by omega)
  have hy : y.toInt = k * (4 * Q) := by
    rw [hyt, rValid.hi_toInt, rV, rnI_of_repI hRrep, hk]
  have hyf : y.is_finite = true := by rw [hyt]; exact rValid.1
  refine ⟨?_, k, hyf, by rw [hy]; show _ = k * (F64.unit : Int); rw [hUQ], hkb⟩
  -- step C: w = y / 2
  have hkabs : |k| ≤ 1418 := by rw [← Int.natCast_natAbs]; exact_mod_cast hkb
  have hWrep : RepI (k * (2 * Q)) := hrep2 k (by omega)
  have hWb : |k * (2 * Q)| ≤ (maxFin : Int) := by
    rw [abs_mul, abs_of_pos (by omega : (0 : Int) < 2 * Q)]
    have : |k| * (2 * Q) ≤ 1418 * (2 * Q) := mul_le_mul_of_nonneg_right hkabs (by omega)
    omega
  have hw_val : IsVal (F64.div y (f64lit 0x4000000000000000)) (k * (2 * Q)) := by
    apply IsVal.div_exact ⟨hyf, hy⟩ htwo
    · rw [hUQ]; omega
    · rw [hUQ]; ring
    · exact hWrep
    · exact hWb
  have hwWF : (F64.div y (f64lit 0x4000000000000000)).WF := div_WF _ _
  -- step D: z = x - w
  generalize hW_def : k * (2 * Q) = W at *
  generalize hh_def : x.hi.toInt = h at *
  generalize hl_def : x.lo.toInt = l at *
  have hSum : h - W + l = x.V - W := by rw [hVe]; ring
  -- |l| ≤ Q
  have hlb : |l| ≤ Q := by
    have := rnI_nearest x.V hWrep
    rw [← hfix] at this
    have e : h - x.V = -l := by rw [hVe]; ring
    rw [e, abs_neg, abs_sub_comm] at this
    exact le_trans this hVW
  have hSb : |h - W| ≤ 2 * Q := by
    have e : h - W = (x.V - W) - l := by rw [hVe]; ring
    rw [e]
    calc |x.V - W - l| ≤ |x.V - W| + |l| := abs_sub _ _
      _ ≤ _ := by linarith
  have hhr : RepI h := by rw [← hh_def]; exact hw.1.repI
  have hlr : RepI l := by rw [← hl_def]; exact hw.2.repI
  have hlh : |l| ≤ |h| := by rw [← hh_def, ← hl_def]; exact hv.abs_lo_le
  -- representability of S = h - W and the Fast2Sum divisibility condition
  have hSrep_dvd : RepI (h - W) ∧ (2 : Int) ^ (Nat.log2 l.natAbs - 52) ∣ h - W := by
    by_cases hk0 : k = 0
    · have : W = 0 := by rw [← hW_def, hk0]; ring
      rw [this, sub_zero]
      exact ⟨hhr, hhr.ulp_dvd_of_le hlh⟩
    · -- |W| ≥ 2Q, so |V| ≥ Q, so |h| ≥ Q and 2^1020 ∣ h
      have hk1 : 1 ≤ |k| := Int.one_le_abs hk0
      have hWge : 2 * Q ≤ |W| := by
        rw [← hW_def, abs_mul, abs_of_pos (by omega : (0 : Int) < 2 * Q)]
        have := mul_le_mul_of_nonneg_right hk1 (by omega : (0 : Int) ≤ 2 * Q)
        omega
      have hVge : |Q| ≤ |x.V| := by
        rw [abs_of_pos hQpos]
        rcases abs_cases W with ⟨e1, _⟩ | ⟨e1, _⟩ <;> rcases abs_cases x.V with ⟨e2, _⟩ | ⟨e2, _⟩ <;>
          rcases abs_cases (x.V - W) with ⟨e3, _⟩ | ⟨e3, _⟩ <;> rw [e2] <;> rw [e1] at hWge <;>
          rw [e3] at hVW <;> omega
      have hhge : |Q| ≤ |h| := by rw [hfix]; exact le_abs_rnI hrepQ hVge
      have hd1 : (2 : Int) ^ 1020 ∣ h := by
        have := hhr.ulp_dvd_of_le hhge
        rwa [hQnat, log2_two_pow_sub] at this
      have hd2 : (2 : Int) ^ 1020 ∣ W := by
        rw [← hW_def]
        exact Dvd.dvd.mul_left (Dvd.dvd.mul_left hQd 2) k
      have hd : (2 : Int) ^ 1020 ∣ h - W := dvd_sub hd1 hd2
      refine ⟨rep_natAbs_of_dvd_of_le hd (by rw [← hQ53]; exact hSb), ?_⟩
      refine dvd_trans (pow_dvd_pow 2 ?_) hd
      apply log2_sub_le
      have hcast : ((2 ^ 53 * 2 ^ 1020 : Nat) : Int) = 2 * Q := by rw [hQ53]; norm_cast
      have h1 : ((l.natAbs : Nat) : Int) < ((2 ^ 53 * 2 ^ 1020 : Nat) : Int) := by
        rw [hcast, Int.natCast_natAbs]; omega
      exact_mod_cast h1
  obtain ⟨hSrep, hSdvd⟩ := hSrep_dvd
  have hSm : |h - W| ≤ (maxFin : Int) := by omega
  have hlm : |l| ≤ (maxFin : Int) := by omega
  have hzb : |rnI (h - W + l)| ≤ Q := by
    rw [hSum]
    have := abs_rnI_le hrepQ (v := x.V - W) (by rw [abs_of_pos hQpos]; exact hVW)
    rwa [abs_of_pos hQpos] at this
  have hov2 : |rnI (h - W + l)| ≤ (maxFin : Int) := by omega
  obtain ⟨c2, c3⟩ := repI_rnI_add_sub_of_dvd hSrep hlr hSdvd hSm hlm hov2
  have hxV : x.IsV h l := by rw [← hh_def, ← hl_def]; exact IsV.of_valid hv
  have hz := sub_tf_isV hxV hw_val hw hwWF hSrep hSm hov2 c2 c3
  refine ⟨hz.1.1, ?_⟩
  show z.hi.toInt.natAbs ≤ 2 ^ 1072
  have : z.hi.toInt = rnI (h - W + l) := hz.1.2
  rw [this]
  apply natAbs_le_of_abs_le
  have : ((2 ^ 1072 : Nat) : Int) = Q := by rw [hQ]; push_cast
  rw [this]; exact hzb

theorem EXP_UPPER_val : explog.EXP_UPPER_LIMIT = fin false (709 * F64.unit) := by decide +kernel
theorem EXP_LOWER_val : explog.EXP_LOWER_LIMIT = fin true (709 * F64.unit) := by decide +kernel

/-- **C14p.** `exp` never panics on a valid argument -/
theorem exp_pf (x : TwoFloat) (hv : x.Valid) (hw : x.WF) : TwoFloat.exp.pf x = true := by
  unfold TwoFloat.exp.pf
  split_ifs with c1 c2 c3 c4
  · rfl
  · rfl
  · rfl
  · rfl
  · have hf := hv.1
    have hlo : -(709 * (F64.unit : Int)) < x.hi.toInt := by
      rw [rle_eq, EXP_LOWER_val, le_iff_toInt hf rfl] at c1
      have : (fin true (709 * F64.unit)).toInt = -(709 * (F64.unit : Int)) := by
        show -((709 * F64.unit : Nat) : Int) = _; push_cast; rfl
      rw [this] at c1; omega
    have hhi : x.hi.toInt < 709 * (F64.unit : Int) := by
      rw [rge_eq', EXP_UPPER_val, ge_iff_toInt hf rfl] at c2
      have : (fin false (709 * F64.unit)).toInt = 709 * (F64.unit : Int) := by
        show ((709 * F64.unit : Nat) : Int) = _; push_cast; rfl
      rw [this] at c2; omega
    obtain ⟨⟨hzf, hzb⟩, k, hyf, hyk, hkb⟩ := exp_reduce x hv hw hlo hhi
    show (TwoFloat.expm1_quarter.pf (arithmetic.impl_Sub_f64_for_TwoFloat.sub x
        (F64.div (TwoFloat.round (arithmetic.impl_Mul_TwoFloat_for_f64.mul (f64lit 0x4000000000000000) x)).hi
          (f64lit 0x4000000000000000)))
      && explog.exp_half.pf (RCast.cast (TwoFloat.round
        (arithmetic.impl_Mul_TwoFloat_for_f64.mul (f64lit 0x4000000000000000) x)).hi : I32)) = true
    rw [expm1_quarter_pf _ hzf (sub_tf_WF _ _).1 hzb, Bool.true_and, cast_f64_i32 hyf hyk (by omega)]
    exact exp_half_pf _ (by show k.natAbs ≤ 1439; omega)

/-- the same for the invariant of C01 (valid, or a non-finite high word): this is the form in which
intermediate results reach `exp` inside `ln`, `powf`, … -/
theorem exp_pf_inv (x : TwoFloat) (hi : x.Inv) (hw : x.WF) : TwoFloat.exp.pf x = true := by
  rcases hi with hv | hnf
  · exact exp_pf x hv hw
  · unfold TwoFloat.exp.pf
    rcases x with ⟨hi, lo⟩
    cases hi with
    | nan => rfl
    | inf s => cases s <;> rfl
    | fin s n => exact absurd hnf (by simp [F64.is_finite])

/-! ## Part 5: the invariant through the elementary functions -/

/-- the invariant of C01 together with well-formedness: what every operator preserves -/
def Good (t : TwoFloat) : Prop := t.Inv ∧ t.WF

instance (t : TwoFloat) : Decidable t.Inv := by unfold TwoFloat.Inv; infer_instance
instance (t : TwoFloat) : Decidable (Good t) := by unfold Good; infer_instance

theorem Good.of_valid {t : TwoFloat} (hv : t.Valid) (hw : t.WF) : Good t := ⟨Or.inl hv, hw⟩

theorem good_NAN : Good TwoFloat.NAN := by decide +kernel
theorem good_default : Good (default : TwoFloat) := by decide +kernel
theorem good_from {c : F64} (hc : c.WF) : Good (convert.impl_From_f64_for_TwoFloat.from c) := C01.from_inv hc
theorem good_neg {t : TwoFloat} (h : Good t) : Good (arithmetic.impl_Neg_for_TwoFloat.neg t) :=
  C01.neg_inv' h.2 h.1
theorem good_abs {t : TwoFloat} (h : Good t) : Good (TwoFloat.abs t) := C01.abs_inv h.2 h.1
theorem good_add_tt {a b : TwoFloat} (ha : Good a) (hb : Good b) :
    Good (arithmetic.impl_Add_TwoFloat_for_TwoFloat.add a b) := C01.add_tt_inv ha.2 hb.2 ha.1 hb.1
theorem good_sub_tt {a b : TwoFloat} (ha : Good a) (hb : Good b) :
    Good (arithmetic.impl_Sub_TwoFloat_for_TwoFloat.sub a b) := C01.sub_tt_inv ha.2 hb.2 ha.1 hb.1
theorem good_mul_tt {a b : TwoFloat} (ha : Good a) (hb : Good b) :
    Good (arithmetic.impl_Mul_TwoFloat_for_TwoFloat.mul a b) := C01.mul_tt_inv ha.1 hb.1
theorem good_add_tf {a : TwoFloat} {c : F64} (ha : Good a) (hc : c.WF) :
    Good (arithmetic.impl_Add_f64_for_TwoFloat.add a c) := C01.add_tf_f64_inv c ha.2 hc ha.1
theorem good_sub_tf {a : TwoFloat} {c : F64} (ha : Good a) (hc : c.WF) :
    Good (arithmetic.impl_Sub_f64_for_TwoFloat.sub a c) := C01.sub_tf_f64_inv c ha.2 hc ha.1
theorem good_mul_tf {a : TwoFloat} (c : F64) (ha : Good a) :
    Good (arithmetic.impl_Mul_f64_for_TwoFloat.mul a c) := C01.mul_tf_f64_inv c ha.1
theorem good_mul_ft {a : TwoFloat} (c : F64) (ha : Good a) :
    Good (arithmetic.impl_Mul_TwoFloat_for_f64.mul c a) := C01.mul_f64_tf_inv c ha.1
theorem good_add_assign_tt {a b : TwoFloat} (ha : Good a) (hb : Good b) :
    Good (arithmetic.impl_AddAssign_TwoFloat_for_TwoFloat.add_assign a b) := C01.add_tt_inv ha.2 hb.2 ha.1 hb.1
theorem good_sub_assign_tt {a b : TwoFloat} (ha : Good a) (hb : Good b) :
    Good (arithmetic.impl_SubAssign_TwoFloat_for_TwoFloat.sub_assign a b) := C01.sub_tt_inv ha.2 hb.2 ha.1 hb.1

theorem good_ite (c : Prop) [Decidable c] {a b : TwoFloat} (ha : Good a) (hb : Good b) :
    Good (if c then a else b) := by split_ifs <;> assumption

/-- table lookups: an entry of the table or (out of bounds — excluded by the `.pf` predicates) the default -/
theorem good_index {s : Bool} {b : Nat} (l : List TwoFloat) (hl : ∀ t ∈ l, Good t) (i : IntN s b) :
    Good (RIndex.index l i) := by
  show Good (l.getD i.v.toNat default)
  rw [List.getD_eq_getElem?_getD]
  cases h : l[i.v.toNat]? with
  | none => exact good_default
  | some t => exact hl t (List.mem_of_getElem? h)

/-- Horner evaluation `polynomial!(y, table)` -/
theorem good_polyFold (l : List TwoFloat) (hl : ∀ t ∈ l, Good t) {y : TwoFloat} (hy : Good y) :
    Good (polyFold l (fun a n => arithmetic.impl_Add_rTwoFloat_for_TwoFloat.add
      (arithmetic.impl_Mul_TwoFloat_for_TwoFloat.mul y a) n)) := by
  unfold polyFold
  have hr : ∀ t ∈ l.reverse, Good t := fun t ht => hl t (List.mem_reverse.1 ht)
  generalize l.reverse = r at hr
  cases r with
  | nil => exact good_default
  | cons init rest =>
    show Good (rest.foldl _ init)
    have hi : Good init := hr init (List.mem_cons_self ..)
    have hrest : ∀ t ∈ rest, Good t := fun t ht => hr t (List.mem_cons_of_mem _ ht)
    clear hr
    induction rest generalizing init with
    | nil => exact hi
    | cons t rest ih =>
      rw [List.foldl_cons]
      apply ih
      · exact good_add_tt (good_mul_tt hy hi) (hrest t (List.mem_cons_self ..))
      · exact fun u hu => hrest u (List.mem_cons_of_mem _ hu)

theorem FRAC_FACT_good : ∀ t ∈ explog.FRAC_FACT, Good t := by decide +kernel
theorem EXPM1_128TH_good : ∀ t ∈ explog.expm1_128th.EXPM1_128TH, Good t := by decide +kernel
theorem EXP_HALF_N_good : ∀ t ∈ explog.exp_half.EXP_HALF_N, Good t := by decide +kernel
theorem EXP_16_N_good : ∀ t ∈ explog.exp_half.EXP_16_N, Good t := by decide +kernel

theorem lit_one_WF : (f64lit 0x3ff0000000000000).WF := by decide +kernel

/-- `expm1_quarter` preserves the invariant (on every argument satisfying it) -/
theorem good_expm1_quarter {z : TwoFloat} (hz : Good z) : Good (TwoFloat.expm1_quarter z) := by
  unfold TwoFloat.expm1_quarter
  dsimp only
  have hy := good_sub_tf hz (div_WF (F64.round (f64lit 0x4060000000000000 *. TwoFloat.hi_m z))
    (f64lit 0x4060000000000000))
  have hp := good_polyFold (List.take 13 (List.drop 2 explog.FRAC_FACT))
    (fun t ht => FRAC_FACT_good t (List.mem_of_mem_drop (List.mem_of_mem_take ht))) hy
  exact good_add_tt (good_index _ EXPM1_128TH_good _)
    (good_mul_tt (good_add_tf (good_index _ EXPM1_128TH_good _) lit_one_WF)
      (good_mul_tt hy (good_add_tf (good_mul_tt hy hp) lit_one_WF)))

theorem good_from_i32_one : Good (convert.impl_From_i32_for_TwoFloat.from (1 : I32)) := by decide +kernel

/-- `exp_half` on a non-negative argument: a table entry, a product of two, or 1 -/
theorem good_exp_half_go_nonneg (fuel : Nat) (v : Int) (h0 : 0 ≤ v) :
    Good (explog.exp_half.go (fuel + 1) (⟨v⟩ : I32)) := by
  simp only [explog.exp_half.go]
  have hneg : (⟨v⟩ : I32).is_negative = false := by
    show decide (v < 0) = false
    simp; omega
  rw [hneg]
  simp only [Bool.false_eq_true, if_false]
  generalize (RCast.cast ((⟨v⟩ : I32) /. (32 : I32)) : Usize) = a
  generalize (RCast.cast ((⟨v⟩ : I32) %. (32 : I32)) : Usize) = b
  cases (a >. (0 : Usize)) <;> cases (b >. (0 : Usize))
  · exact good_from_i32_one
  · exact good_index _ EXP_HALF_N_good _
  · exact good_index _ EXP_16_N_good _
  · exact good_mul_tt (good_index _ EXP_16_N_good _) (good_index _ EXP_HALF_N_good _)

/-- The one fact about this family that is not derived in this file: the reciprocals `1.0 / exp_half(m)`,
`1 ≤ m ≤ 1418` (the range `exp` reaches), taken by `exp_half` on negative arguments, satisfy the invariant.  It is a
CLOSED finite statement; it is PROVED in `C14p.expHalfRecipInv` (from the division theorem `C01d.recip_valid` for
`m ≤ 1400`, by kernel evaluation for the 18 remaining values). -/
def ExpHalfRecipInv : Prop :=
  ∀ m : Int, 1 ≤ m → m ≤ 1418 →
    (arithmetic.impl_Div_TwoFloat_for_f64.div (f64lit 0x3ff0000000000000)
      (explog.exp_half.go 1 (⟨m⟩ : I32))).Inv

theorem good_exp_half (HR : ExpHalfRecipInv) (n : I32) (h : n.v.natAbs ≤ 1418) : Good (explog.exp_half n) := by
  obtain ⟨v⟩ := n
  have h' : v.natAbs ≤ 1418 := h
  by_cases hv : 0 ≤ v
  · exact good_exp_half_go_nonneg 1 v hv
  · show Good (explog.exp_half.go 2 (⟨v⟩ : I32))
    simp only [explog.exp_half.go]
    have hneg : (⟨v⟩ : I32).is_negative = true := by
      show decide (v < 0) = true
      simp; omega
    rw [hneg]
    simp only [if_true]
    exact ⟨HR (-v) (by omega) (by omega), div_ft_WF _ _⟩

/-- `exp` preserves the invariant -/
theorem good_exp (HR : ExpHalfRecipInv) {x : TwoFloat} (hx : Good x) : Good (TwoFloat.exp x) := by
  unfold TwoFloat.exp
  split_ifs with c1 c2 c3 c4
  · exact good_from f64lit_WF_zero
  · exact ⟨Or.inr rfl, trivial, f64lit_WF_zero⟩
  · exact good_from lit_one_WF
  · exact good_NAN
  · have hf : x.hi.is_finite = true := by
      rcases x with ⟨hi, lo⟩
      cases hi with
      | nan => exact absurd rfl c4
      | inf s => cases s
                 · exact absurd (show ((inf false) >=. explog.EXP_UPPER_LIMIT) = true by decide +kernel) c2
                 · exact absurd (show ((inf true) <=. explog.EXP_LOWER_LIMIT) = true by decide +kernel) c1
      | fin s n => rfl
    have hv : x.Valid := by
      rcases hx.1 with h | h
      · exact h
      · rw [hf] at h; cases h
    have hlo : -(709 * (F64.unit : Int)) < x.hi.toInt := by
      rw [rle_eq, EXP_LOWER_val, le_iff_toInt hf rfl] at c1
      have : (fin true (709 * F64.unit)).toInt = -(709 * (F64.unit : Int)) := by
        show -((709 * F64.unit : Nat) : Int) = _; push_cast; rfl
      rw [this] at c1; omega
    have hhi : x.hi.toInt < 709 * (F64.unit : Int) := by
      rw [rge_eq', EXP_UPPER_val, ge_iff_toInt hf rfl] at c2
      have : (fin false (709 * F64.unit)).toInt = 709 * (F64.unit : Int) := by
        show ((709 * F64.unit : Nat) : Int) = _; push_cast; rfl
      rw [this] at c2; omega
    obtain ⟨-, k, hyf, hyk, hkb⟩ := exp_reduce x hv hx.2 hlo hhi
    dsimp only
    apply good_mul_tt
    · exact good_add_tf (good_expm1_quarter (good_sub_tf hx (div_WF _ _))) lit_one_WF
    · show Good (explog.exp_half (RCast.cast (TwoFloat.round
        (arithmetic.impl_Mul_TwoFloat_for_f64.mul (f64lit 0x4000000000000000) x)).hi : I32))
      rw [cast_f64_i32 hyf hyk (by omega)]
      exact good_exp_half HR _ (by show k.natAbs ≤ 1418; omega)

/-! ## Part 6: logarithms -/

theorem libm_log_go_WF (k : Int) (ui : Nat) : (Libm.log.go k ui).WF := add_WF _ _
theorem libm_log_WF {x : F64} (hx : x.WF) : (Libm.log x).WF := by
  unfold Libm.log
  dsimp only
  split_ifs
  · exact div_WF _ _
  · exact div_WF _ _
  · exact libm_log_go_WF _ _
  · exact hx
  · decide +kernel
  · exact libm_log_go_WF _ _

theorem libm_log2_go_WF (k : Int) (ui : Nat) : (Libm.log2.go k ui).WF := add_WF _ _
theorem libm_log2_WF {x : F64} (hx : x.WF) : (Libm.log2 x).WF := by
  unfold Libm.log2
  dsimp only
  split_ifs
  · exact div_WF _ _
  · exact div_WF _ _
  · exact libm_log2_go_WF _ _
  · exact hx
  · decide +kernel
  · exact libm_log2_go_WF _ _

theorem libm_log1p_tail_WF (k : Int) (c f : F64) : (Libm.log1p.tail k c f).WF := add_WF _ _
theorem libm_log1p_WF {x : F64} (hx : x.WF) : (Libm.log1p x).WF := by
  unfold Libm.log1p
  dsimp only
  split_ifs
  all_goals first
    | exact div_WF _ _
    | exact hx
    | exact libm_log1p_tail_WF _ _ _

theorem exp_pf_good {x : TwoFloat} (hx : Good x) : TwoFloat.exp.pf x = true := exp_pf_inv x hx.1 hx.2

/-- one Newton step of `ln`: `a + (x * exp(-a) - 1)` -/
theorem good_ln_step (HR : ExpHalfRecipInv) {x a : TwoFloat} (hx : Good x) (ha : Good a) :
    Good (arithmetic.impl_AddAssign_TwoFloat_for_TwoFloat.add_assign a
      (arithmetic.impl_Sub_f64_for_TwoFloat.sub
        (arithmetic.impl_Mul_TwoFloat_for_TwoFloat.mul x (TwoFloat.exp (arithmetic.impl_Neg_for_TwoFloat.neg a)))
        (f64lit 0x3ff0000000000000))) :=
  good_add_assign_tt ha (good_sub_tf (good_mul_tt hx (good_exp HR (good_neg ha))) lit_one_WF)

/-- the core of `ln` (the three tests and the Newton body) is panic-free on every argument satisfying the invariant -/
theorem lnCore_pf (HR : ExpHalfRecipInv) (x : TwoFloat) (hx : Good x) : TwoFloat.lnCore.pf x = true := by
  unfold TwoFloat.lnCore.pf
  split_ifs
  · rfl
  · rfl
  · dsimp only
    have h0 : Good (convert.impl_From_f64_for_TwoFloat.from (Libm.log x.hi)) := good_from (libm_log_WF hx.2.1)
    have h1 := good_ln_step HR hx h0
    have h2 := good_ln_step HR hx h1
    rw [exp_pf_good (good_neg h0), exp_pf_good (good_neg h1), exp_pf_good (good_neg h2)]
    rfl

theorem good_lnCore (HR : ExpHalfRecipInv) {x : TwoFloat} (hx : Good x) : Good (TwoFloat.lnCore x) := by
  unfold TwoFloat.lnCore
  split_ifs
  · exact good_from f64lit_WF_zero
  · exact good_NAN
  · dsimp only
    have h0 : Good (convert.impl_From_f64_for_TwoFloat.from (Libm.log x.hi)) := good_from (libm_log_WF hx.2.1)
    have h1 := good_ln_step HR hx h0
    have h2 := good_ln_step HR hx h1
    exact good_sub_tf (good_add_tt h2 (good_mul_tt hx (good_exp HR (good_neg h2)))) lit_one_WF

theorem good_LN_2 : Good consts.LN_2 := by decide +kernel

/-- the correction `200.0 * LN_2` of the rescaling branch -/
theorem good_ln_shift : Good LnCore.shift := good_mul_ft _ good_LN_2

/-- **`ln` is panic-free** on every argument satisfying the invariant (given `ExpHalfRecipInv`): directly (high word not
below `2^-1000`, or `== 1`, or `<= 0`) or after one rescaling by `2^200`, which is exact and lifts the high word to at
least `2^-874` -/
theorem ln_pf (HR : ExpHalfRecipInv) (x : TwoFloat) (hx : Good x) : TwoFloat.ln.pf x = true := by
  cases h3 : (x.hi <. LnCore.tinyLim)
  · rw [LnCore.ln_pf_eq_lnCore x h3]; exact lnCore_pf HR x hx
  · cases h2 : ROrd.isLe (base.impl_PartialOrd_f64_for_TwoFloat.partial_cmp x (f64lit 0x0000000000000000))
    · have hv := LnScale.valid_of_tiny hx.1 h2 h3
      rw [(LnScale.ln_tiny_eq_of_valid hv hx.2 h2 h3).2.2.1]
      exact lnCore_pf HR _ (good_mul_tf _ hx)
    · exact LnCore.ln_go_pf_succ_nonpos 7 x h2

/-- every level of the recursion of `ln` preserves the invariant (whatever the fuel) -/
theorem good_ln_go (HR : ExpHalfRecipInv) : ∀ (fuel : Nat) {x : TwoFloat}, Good x → Good (TwoFloat.ln.go fuel x)
  | 0, _, _ => good_default
  | fuel + 1, x, hx => by
    cases h3 : (x.hi <. LnCore.tinyLim)
    · rw [LnCore.ln_go_succ_of_ge fuel x h3]; exact good_lnCore HR hx
    · cases h1 : base.impl_PartialEq_f64_for_TwoFloat.eq x (f64lit 0x3ff0000000000000)
      · cases h2 : ROrd.isLe (base.impl_PartialOrd_f64_for_TwoFloat.partial_cmp x (f64lit 0x0000000000000000))
        · rw [LnCore.ln_go_succ_tiny fuel x h1 h2 h3]
          exact good_sub_tt (good_ln_go HR fuel (good_mul_tf _ hx)) good_ln_shift
        · rw [LnCore.ln_go_succ_of_nonpos fuel x h2]; exact good_lnCore HR hx
      · rw [LnCore.ln_go_succ_of_one fuel x h1]; exact good_lnCore HR hx

theorem good_ln (HR : ExpHalfRecipInv) {x : TwoFloat} (hx : Good x) : Good (TwoFloat.ln x) :=
  good_ln_go HR 8 hx

theorem log_pf (HR : ExpHalfRecipInv) (x b : TwoFloat) (hx : Good x) (hb : Good b) :
    TwoFloat.log.pf x b = true := by
  unfold TwoFloat.log.pf; rw [ln_pf HR x hx, ln_pf HR b hb]; rfl

theorem log10_pf (HR : ExpHalfRecipInv) (x : TwoFloat) (hx : Good x) : TwoFloat.log10.pf x = true :=
  ln_pf HR x hx

/-- `log2` is panic-free on EVERY argument (it only calls `exp2`) -/
theorem log2_pf (x : TwoFloat) : TwoFloat.log2.pf x = true := by
  unfold TwoFloat.log2.pf
  split_ifs
  · rfl
  · rfl
  · dsimp only
    rw [exp2_pf, exp2_pf]; rfl

/-- `exp_m1` -/
theorem exp_m1_pf (x : TwoFloat) (hx : Good x) : TwoFloat.exp_m1.pf x = true := by
  unfold TwoFloat.exp_m1.pf
  rw [tcmp_pf hx.2 (neg_WF LN_2_WF), tcmp_pf hx.2 LN_FRAC_3_2_WF, exp_pf_good hx]
  simp


/-! ## Part 7: hyperbolic functions and `powf` -/

theorem cosh_pf (x : TwoFloat) (hx : Good x) : TwoFloat.cosh.pf x = true := by
  unfold TwoFloat.cosh.pf
  rw [exp_pf_good hx, exp_pf_good (good_neg hx)]; rfl

theorem sinh_pf (x : TwoFloat) (hx : Good x) : TwoFloat.sinh.pf x = true := cosh_pf x hx

theorem tanh_pf (x : TwoFloat) (hx : Good x) : TwoFloat.tanh.pf x = true := by
  unfold TwoFloat.tanh.pf
  rw [exp_pf_good hx, exp_pf_good (good_neg hx)]; rfl

/-- `powf`: `ln` of the base (or of its absolute value) and `exp` of the product -/
theorem powf_pf (HR : ExpHalfRecipInv) (x y : TwoFloat) (hx : Good x) (hy : Good y) :
    TwoFloat.powf.pf x y = true := by
  unfold TwoFloat.powf.pf
  cases base.impl_PartialEq_f64_for_TwoFloat.eq x (f64lit 0x0000000000000000) <;>
  cases base.impl_PartialEq_f64_for_TwoFloat.eq y (f64lit 0x0000000000000000) <;>
  dsimp only
  split_ifs
  · rw [ln_pf HR x hx, exp_pf_good (good_mul_tt hy (good_ln HR hx))]; rfl
  · rfl
  · rw [ln_pf HR _ (good_abs hx), exp_pf_good (good_mul_tt hy (good_ln HR (good_abs hx)))]; rfl

end PF
