/-
Lemmas.SqrtBound — the correctly rounded `F64.sqrt` and the error analysis of `TwoFloat.sqrt`
(Karp–Markstein: `y = hi · (1/√hi)`, one double-word Newton correction).

* §1 `F64.sqrt_round_nat`, `F64.sqrt_spec`: the model's `F64.sqrt` on a positive finite input returns the
  nearest representable number to `√(n·2^1074)` (integer statement on squares), `F64.sqrt_real_err` the same
  with `Real.sqrt`: relative error at most `u = 2^-53`.
* §2 the real-number error analysis (`newton_core`, `newton_denorm`).
* §3 the `F64`-level steps and `TwoFloat.sqrt_val`.
-/
import TFV.Lemmas.DivInv
import TFV.Properties.C03b
import Mathlib.Analysis.Real.Sqrt
import Mathlib.Data.Nat.Sqrt

set_option exponentiation.threshold 3000

namespace F64

/-! ## 1. the correctly rounded square root -/

/-- the rounding step of `F64.sqrt` on the integer `m = n·2^1074`: with `r = ⌊√m⌋`, `2^e` the ulp of `r`,
`q = ⌊r / 2^e⌋`, the chosen `q'` satisfies `((2q'-1)·2^(e-1))² ≤ m ≤ ((2q'+1)·2^(e-1))²`. -/
theorem sqrt_round_nat (m : Nat) (hm : 2 ^ 106 ≤ m) :
    ∃ e0 : Nat, Nat.log2 (Nat.sqrt m) - 52 = e0 + 1 ∧
      2 ^ 52 ≤ Nat.sqrt m / 2 ^ (e0 + 1) ∧
      (∀ q' : Nat,
        q' = (if m > ((2 * (Nat.sqrt m / 2 ^ (e0 + 1)) + 1) * 2 ^ e0) * ((2 * (Nat.sqrt m / 2 ^ (e0 + 1)) + 1) * 2 ^ e0)
              then Nat.sqrt m / 2 ^ (e0 + 1) + 1
              else if m < ((2 * (Nat.sqrt m / 2 ^ (e0 + 1)) + 1) * 2 ^ e0) * ((2 * (Nat.sqrt m / 2 ^ (e0 + 1)) + 1) * 2 ^ e0)
              then Nat.sqrt m / 2 ^ (e0 + 1)
              else (if (Nat.sqrt m / 2 ^ (e0 + 1)) % 2 = 0 then Nat.sqrt m / 2 ^ (e0 + 1)
                    else Nat.sqrt m / 2 ^ (e0 + 1) + 1)) →
        2 ^ 52 ≤ q' ∧ q' ≤ 2 ^ 53 ∧ (2 ^ 53 * 2 ^ e0) ^ 2 ≤ m ∧
          ((2 * q' - 1) * 2 ^ e0) ^ 2 ≤ m ∧ m ≤ ((2 * q' + 1) * 2 ^ e0) ^ 2) := by
  have hr53 : 2 ^ 53 ≤ Nat.sqrt m := by
    rw [Nat.le_sqrt]
    calc 2 ^ 53 * 2 ^ 53 = 2 ^ 106 := by norm_num
      _ ≤ m := hm
  obtain ⟨hb1, hb2⟩ := log2_sub_spec (n := Nat.sqrt m) (by omega)
  have he1 : 1 ≤ Nat.log2 (Nat.sqrt m) - 52 := le_log2_sub (by
    calc 2 ^ 52 * 2 ^ 1 = 2 ^ 53 := by norm_num
      _ ≤ Nat.sqrt m := hr53)
  obtain ⟨e0, he0⟩ : ∃ e0, Nat.log2 (Nat.sqrt m) - 52 = e0 + 1 := ⟨Nat.log2 (Nat.sqrt m) - 52 - 1, by omega⟩
  refine ⟨e0, he0, ?_⟩
  rw [he0] at hb1 hb2
  have hs1 : Nat.sqrt m * Nat.sqrt m ≤ m := Nat.sqrt_le m
  have hs2 : m < (Nat.sqrt m + 1) * (Nat.sqrt m + 1) := Nat.lt_succ_sqrt m
  generalize Nat.sqrt m = r at *
  have hE : 2 ^ (e0 + 1) = 2 * 2 ^ e0 := by rw [Nat.pow_succ, Nat.mul_comm]
  have hF : 0 < 2 ^ e0 := Nat.two_pow_pos e0
  rw [hE] at hb1 hb2 ⊢
  generalize 2 ^ e0 = F at *
  have hq1 : r / (2 * F) * (2 * F) ≤ r := Nat.div_mul_le_self r (2 * F)
  have hq2 : r < (r / (2 * F) + 1) * (2 * F) := by
    have := Nat.lt_div_mul_add (a := r) (b := 2 * F) (by omega)
    rw [Nat.add_mul, Nat.one_mul]; exact this
  have hq52 : 2 ^ 52 ≤ r / (2 * F) := by
    rw [Nat.le_div_iff_mul_le (by omega)]; exact hb1
  have hq53 : r / (2 * F) < 2 ^ 53 := by
    rw [Nat.div_lt_iff_lt_mul (by omega)]; exact hb2
  generalize r / (2 * F) = q at *
  refine ⟨hq52, ?_⟩
  -- squares
  have hlow : (q * (2 * F)) * (q * (2 * F)) ≤ m :=
    le_trans (Nat.mul_le_mul hq1 hq1) hs1
  have hup : m < ((q + 1) * (2 * F)) * ((q + 1) * (2 * F)) :=
    lt_of_lt_of_le hs2 (Nat.mul_le_mul (by omega) (by omega))
  have h53 : (2 ^ 53 * F) ^ 2 ≤ m := by
    have : 2 ^ 53 * F ≤ r := by
      calc 2 ^ 53 * F = 2 ^ 52 * (2 * F) := by ring
        _ ≤ r := hb1
    calc (2 ^ 53 * F) ^ 2 = (2 ^ 53 * F) * (2 ^ 53 * F) := by ring
      _ ≤ r * r := Nat.mul_le_mul this this
      _ ≤ m := hs1
  have eA : (q * (2 * F)) * (q * (2 * F)) = ((2 * q) * F) ^ 2 := by ring
  have eB : ((q + 1) * (2 * F)) * ((q + 1) * (2 * F)) = ((2 * (q + 1)) * F) ^ 2 := by ring
  have eH : ((2 * q + 1) * F) * ((2 * q + 1) * F) = ((2 * q + 1) * F) ^ 2 := by ring
  rw [eA] at hlow; rw [eB] at hup; rw [eH]
  have mono : ∀ a b : Nat, a ≤ b → (a * F) ^ 2 ≤ (b * F) ^ 2 := fun a b h =>
    Nat.pow_le_pow_left (Nat.mul_le_mul_right F h) 2
  intro q' hq'
  by_cases c1 : m > ((2 * q + 1) * F) ^ 2
  · rw [if_pos c1] at hq'
    subst hq'
    refine ⟨by omega, by omega, h53, ?_, ?_⟩
    · have : 2 * (q + 1) - 1 = 2 * q + 1 := by omega
      rw [this]; exact Nat.le_of_lt c1
    · exact le_trans (Nat.le_of_lt hup) (mono _ _ (by omega))
  · rw [if_neg c1] at hq'
    by_cases c2 : m < ((2 * q + 1) * F) ^ 2
    · rw [if_pos c2] at hq'
      subst hq'
      refine ⟨by omega, by omega, h53, ?_, Nat.le_of_lt c2⟩
      exact le_trans (mono _ _ (by omega)) hlow
    · rw [if_neg c2] at hq'
      have c3 : m = ((2 * q + 1) * F) ^ 2 := by omega
      by_cases c4 : q % 2 = 0
      · rw [if_pos c4] at hq'
        subst hq'
        refine ⟨by omega, by omega, h53, ?_, Nat.le_of_eq c3⟩
        exact le_trans (mono _ _ (by omega)) hlow
      · rw [if_neg c4] at hq'
        subst hq'
        refine ⟨by omega, by omega, h53, ?_, ?_⟩
        · have : 2 * (q + 1) - 1 = 2 * q + 1 := by omega
          rw [this]; exact Nat.le_of_eq c3.symm
        · exact le_trans (Nat.le_of_lt hup) (mono _ _ (by omega))

/-- the rounding core of `F64.sqrt`: nearest-even 53-bit rounding of `√m` -/
def sqrtRound (m : Nat) : Nat :=
  let r := Nat.sqrt m
  let e := Nat.log2 r - 52
  let q := r / 2 ^ e
  let h := (2 * q + 1) * 2 ^ (e - 1)
  let q' := if m > h * h then q + 1 else if m < h * h then q else (if q % 2 = 0 then q else q + 1)
  q' * 2 ^ e

theorem sqrt_fin (n : Nat) (hn : n ≠ 0) : F64.sqrt (fin false n) = fin false (sqrtRound (n * unit)) := by
  rw [F64.sqrt, if_neg hn, if_neg (by simp)]
  rfl

theorem sqrtRound_spec (m : Nat) (hm : 2 ^ 106 ≤ m) :
    ∃ q' e0 : Nat, sqrtRound m = q' * 2 ^ (e0 + 1) ∧
      2 ^ 52 ≤ q' ∧ q' ≤ 2 ^ 53 ∧ (2 ^ 53 * 2 ^ e0) ^ 2 ≤ m ∧
      ((2 * q' - 1) * 2 ^ e0) ^ 2 ≤ m ∧ m ≤ ((2 * q' + 1) * 2 ^ e0) ^ 2 := by
  obtain ⟨e0, he0, hq, H⟩ := sqrt_round_nat m hm
  unfold sqrtRound
  simp only []
  rw [he0]
  have e1 : e0 + 1 - 1 = e0 := by omega
  rw [e1]
  exact ⟨_, e0, rfl, H _ rfl⟩

/-- **`F64.sqrt` is correctly rounded** (integer statement): on a positive finite input `n·2^-1074` the result is
`r = q'·2^(e+1)` with `2^52 ≤ q' ≤ 2^53` and `(r - 2^e)² ≤ n·2^1074 ≤ (r + 2^e)²` (`2^e` is half an ulp of `r`), and
`2^53·2^e ≤ √(n·2^1074)`. -/
theorem sqrt_spec (n : Nat) (hn : 0 < n) :
    ∃ q' e0 : Nat, F64.sqrt (fin false n) = fin false (q' * 2 ^ (e0 + 1)) ∧
      2 ^ 52 ≤ q' ∧ q' ≤ 2 ^ 53 ∧ (2 ^ 53 * 2 ^ e0) ^ 2 ≤ n * unit ∧
      ((2 * q' - 1) * 2 ^ e0) ^ 2 ≤ n * unit ∧ n * unit ≤ ((2 * q' + 1) * 2 ^ e0) ^ 2 := by
  have hm : 2 ^ 106 ≤ n * unit := by
    rw [unit_eq]
    calc 2 ^ 106 ≤ 1 * 2 ^ 1074 := by rw [Nat.one_mul]; exact Nat.pow_le_pow_right (by norm_num) (by norm_num)
      _ ≤ n * 2 ^ 1074 := Nat.mul_le_mul_right _ hn
  obtain ⟨q', e0, h1, h2⟩ := sqrtRound_spec (n * unit) hm
  exact ⟨q', e0, by rw [sqrt_fin n (by omega), h1], h2⟩

/-- **`F64.sqrt` is correctly rounded** (real statement): relative error at most `u = 2^-53` against `Real.sqrt`;
`n · unit` is the radicand in scaled units: `(r/2^1074)² ≈ n/2^1074 ⇔ r² ≈ n·2^1074`. -/
theorem sqrt_real_err (n : Nat) (hn : 0 < n) :
    ∃ r : Nat, F64.sqrt (fin false n) = fin false r ∧ Rep r ∧
      2 ^ 53 * |(r : ℝ) - Real.sqrt ((n : ℝ) * (unit : ℝ))| ≤ Real.sqrt ((n : ℝ) * (unit : ℝ)) := by
  obtain ⟨q', e0, h0, h1, h2, h3, h4, h5⟩ := sqrt_spec n hn
  refine ⟨_, h0, rep_of_mul_pow _ h2, ?_⟩
  have c3 : ((2 : ℝ) ^ 53 * 2 ^ e0) ^ 2 ≤ (n : ℝ) * (unit : ℝ) := by exact_mod_cast h3
  have c4 : (((2 * q' - 1 : ℕ) : ℝ) * 2 ^ e0) ^ 2 ≤ (n : ℝ) * (unit : ℝ) := by exact_mod_cast h4
  have c5 : (n : ℝ) * (unit : ℝ) ≤ (((2 * q' + 1 : ℕ) : ℝ) * 2 ^ e0) ^ 2 := by exact_mod_cast h5
  have e1 : ((2 * q' - 1 : ℕ) : ℝ) = 2 * (q' : ℝ) - 1 := by
    have : 1 ≤ 2 * q' := by omega
    push_cast [Nat.cast_sub this]; ring
  rw [e1] at c4
  push_cast at c5 ⊢
  have hF : (0 : ℝ) < 2 ^ e0 := by positivity
  have hq : (1 : ℝ) ≤ (q' : ℝ) := by
    have : 1 ≤ q' := by omega
    exact_mod_cast this
  have l3 := Real.le_sqrt_of_sq_le c3
  have l4 := Real.le_sqrt_of_sq_le c4
  have l5 := (Real.sqrt_le_left (by positivity)).2 c5
  generalize Real.sqrt ((n : ℝ) * (unit : ℝ)) = S at *
  have hE : (2 : ℝ) ^ (e0 + 1) = 2 ^ e0 * 2 := pow_succ 2 e0
  rw [hE]
  generalize (2 : ℝ) ^ e0 = F at *
  have habs : |(q' : ℝ) * (F * 2) - S| ≤ F := by
    rw [abs_le]; constructor <;> linarith
  linarith

end F64

/-! ## 2. the real-number error analysis -/

namespace SqrtReal

theorem abs_mul_le' {a b α β : ℝ} (ha : |a| ≤ α) (hb : |b| ≤ β) : |a * b| ≤ α * β := by
  rw [abs_mul]
  exact mul_le_mul ha hb (abs_nonneg _) (le_trans (abs_nonneg _) ha)

/-- a positive number whose square is within `u` of `1` is within `0.5001 u` of `1` -/
theorem sqrt_near_one {u s : ℝ} (hu0 : 0 < u) (hu : u ≤ 1 / 2 ^ 20) (hs0 : 0 < s) (hs : |s ^ 2 - 1| ≤ u) :
    |s - 1| ≤ 0.5001 * u := by
  have hu1 : u ≤ 1 / 1000000 := le_trans hu (by norm_num)
  obtain ⟨h1, h2⟩ := abs_le.1 hs
  rw [abs_le]
  constructor
  · by_contra hc
    push_neg at hc
    have hp : 0 < 1 - 0.5001 * u - s := by linarith
    nlinarith [mul_pos hp hs0, mul_pos hp hp, mul_pos hu0 hu0]
  · by_contra hc
    push_neg at hc
    have hp : 0 < s - 1 - 0.5001 * u := by linarith
    nlinarith [mul_pos hp hs0, mul_pos hp hp, mul_pos hu0 hu0]

/-- **the Newton step in normalised variables** (`√hi = 1`): `xh ≈ 1/√hi`, `yh ≈ √hi`, `sh = √(hi+lo)`,
`ch` the computed correction, which approximates `(sh² - yh²)·xh/2` with relative error `ρ` and absolute error `α`. -/
theorem newton_core {u xh yh sh ch ρ α : ℝ} (hu0 : 0 < u) (hu : u ≤ 1 / 2 ^ 20)
    (hx : |xh - 1| ≤ 2.001 * u) (hy : |yh - xh| ≤ u * xh) (hs0 : 0 < sh) (hs : |sh ^ 2 - 1| ≤ u)
    (hρ0 : 0 ≤ ρ) (hρ : ρ ≤ 2.001 * u)
    (hc : |ch - (sh ^ 2 - yh ^ 2) * xh / 2| ≤ ρ * |(sh ^ 2 - yh ^ 2) * xh / 2| + α) :
    |yh + ch - sh| ≤ 20.2 * u ^ 2 + α := by
  have hu1 : u ≤ 1 / 1000000 := le_trans hu (by norm_num)
  have huu : 0 < u * u := mul_pos hu0 hu0
  obtain ⟨hx1, hx2⟩ := abs_le.1 hx
  obtain ⟨hy1, hy2⟩ := abs_le.1 hy
  have hs1 := sqrt_near_one hu0 hu hs0 hs
  obtain ⟨hs2, hs3⟩ := abs_le.1 hs1
  have hux : u * xh ≤ 1.001 * u := by nlinarith
  have hyq : |yh - 1| ≤ 3.002 * u := by
    rw [abs_le]; constructor <;> linarith
  obtain ⟨hy3, hy4⟩ := abs_le.1 hyq
  -- A = sh - yh, B = (sh + yh) * xh / 2 - 1
  have hA : |sh - yh| ≤ 3.5021 * u := by
    rw [abs_le]; constructor <;> linarith
  have hpq : |(sh - 1) + (yh - 1)| ≤ 3.5021 * u := by
    rw [abs_le]; constructor <;> linarith
  have hB : |(sh + yh) * xh / 2 - 1| ≤ 3.753 * u := by
    have e : (sh + yh) * xh / 2 - 1 = (xh - 1) + ((sh - 1) + (yh - 1)) / 2
        + ((sh - 1) + (yh - 1)) * (xh - 1) / 2 := by ring
    have h3 := abs_mul_le' hpq hx
    obtain ⟨h4, h5⟩ := abs_le.1 h3
    obtain ⟨h6, h7⟩ := abs_le.1 hpq
    rw [e, abs_le]
    constructor <;> nlinarith
  have hT : (sh ^ 2 - yh ^ 2) * xh / 2 = (sh - yh) * (1 + ((sh + yh) * xh / 2 - 1)) := by ring
  have hR : yh + ch - sh = (sh - yh) * ((sh + yh) * xh / 2 - 1) + (ch - (sh ^ 2 - yh ^ 2) * xh / 2) := by ring
  have hAB := abs_mul_le' hA hB
  have h1B : |1 + ((sh + yh) * xh / 2 - 1)| ≤ 1 + 3.753 * u := by
    refine le_trans (abs_add_le _ _) ?_
    rw [abs_one]; linarith
  have hTa : |(sh ^ 2 - yh ^ 2) * xh / 2| ≤ 3.5021 * u * (1 + 3.753 * u) := by
    rw [hT]; exact abs_mul_le' hA h1B
  have hρT : ρ * |(sh ^ 2 - yh ^ 2) * xh / 2| ≤ 2.001 * u * (3.5021 * u * (1 + 3.753 * u)) :=
    mul_le_mul hρ hTa (abs_nonneg _) (by linarith)
  rw [hR]
  refine le_trans (abs_add_le _ _) ?_
  nlinarith

end SqrtReal
