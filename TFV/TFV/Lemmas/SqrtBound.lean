/-
Lemmas.SqrtBound — the correctly rounded `F64.sqrt` and the error analysis of `TwoFloat.sqrt`
(Karp–Markstein: `x' = 1/√hi`, `y = hi·x'`, one double-word Newton correction `y + (x - y²).hi·(x'/2)`), and of
`TwoFloat.hypot`.

* §1 `F64.sqrt_round_nat`, `F64.sqrtRound_spec`, `F64.sqrt_spec`: the model's `F64.sqrt` on a positive finite input
  returns the nearest representable number to `√(n·2^1074)` (integer statement on squares); `F64.sqrt_real_err`: the
  same with `Real.sqrt`, relative error at most `u = 2^-53`.
* §2 the real-number error analysis.  Normalised by `√hi`: `xh ≈ 1` (error `2.001u`: two roundings), `yh ≈ xh` (one
  rounding), `sh = √(1 + lo/hi)` (`|sh - 1| ≤ 0.5001u`).  With `A = sh - yh`, `B = (sh + yh)·xh/2 - 1` and the ideal
  correction `T = (sh² - yh²)·xh/2 = A(1 + B)`:  `yh + T - sh = A·B` (`newton_core`), `|A| ≤ 3.5021u`, `|B| ≤ 3.753u`,
  and the computed correction has relative error `2.001u` (`corr_err`: `3u²+13u³` of the double-word subtraction,
  `u` for taking the high word, `u` for the final product, halving exact) plus half a unit `2^-1075` absolute
  (underflow of the correction is harmless).  Total `13.15u² + 7.01u² + … ≤ 20.2u²`, `21u²` after denormalisation
  (`newton_denorm`).
* §3 the `F64`-level steps (`recip_pos`, `sqrt_xy`, `mul_half`, `sqrt_tail`) and `TwoFloat.sqrt_val`:
  for valid `x > 0` with `x.hi ∈ [2^-900, 2^1000]` the result is valid, well-formed and within `21u²` of `√x`.
* §4 `TwoFloat.hypot_val`: `26u²` for high words in `[2^-450, 2^450]`.
-/
import TFV.Lemmas.DivInv
import TFV.Properties.C03b
import TFV.Properties.C13
import Mathlib.Analysis.Real.Sqrt
import Mathlib.Data.Nat.Sqrt

set_option exponentiation.threshold 3300

namespace F64

/-! ## 1. the correctly rounded square root -/

/-- the rounding step of `F64.sqrt` on the integer `m = n·2^1074`: with `r = ⌊√m⌋`, `2^e` the ulp of `r`,
`q = ⌊r / 2^e⌋`, the chosen `q'` satisfies `((2q'-1)·2^(e-1))² ≤ m ≤ ((2q'+1)·2^(e-1))²`. -/
theorem sqrt_round_nat (m : Nat) (hm : 2 ^ 106 ≤ m) :
    ∃ e0 : Nat, Nat.log2 (Nat.sqrt m) - 52 = e0 + 1 ∧
      2 ^ 52 ≤ Nat.sqrt m / 2 ^ (e0 + 1) ∧
      (∀ q' : Nat,
        q' = (if m > ((2 * (Nat.sqrt m / 2 ^ (e0 + 1)) + 1) * 2 ^ e0) * ((2 * (Nat.sqrt m / 2 ^ (e0 + 1)) + 1) * 2 ^ e0)
              then Nat.sqrt m / 2 ^ (e0 + 1) + 1
              else if m < ((2 * (Nat.sqrt m / 2 ^ (e0 + 1)) + 1) * 2 ^ e0) * ((2 * (Nat.sqrt m / 2 ^ (e0 + 1)) + 1) * 2 ^ e0)
              then Nat.sqrt m / 2 ^ (e0 + 1)
              else (if (Nat.sqrt m / 2 ^ (e0 + 1)) % 2 = 0 then Nat.sqrt m / 2 ^ (e0 + 1)
                    else Nat.sqrt m / 2 ^ (e0 + 1) + 1)) →
        2 ^ 52 ≤ q' ∧ q' ≤ 2 ^ 53 ∧ (2 ^ 53 * 2 ^ e0) ^ 2 ≤ m ∧
          ((2 * q' - 1) * 2 ^ e0) ^ 2 ≤ m ∧ m ≤ ((2 * q' + 1) * 2 ^ e0) ^ 2) := by
  have hr53 : 2 ^ 53 ≤ Nat.sqrt m := by
    rw [Nat.le_sqrt]
    calc 2 ^ 53 * 2 ^ 53 = 2 ^ 106 := by norm_num
      _ ≤ m := hm
  obtain ⟨hb1, hb2⟩ := log2_sub_spec (n := Nat.sqrt m) (by omega)
  have he1 : 1 ≤ Nat.log2 (Nat.sqrt m) - 52 := le_log2_sub (by
    calc 2 ^ 52 * 2 ^ 1 = 2 ^ 53 := by norm_num
      _ ≤ Nat.sqrt m := hr53)
  obtain ⟨e0, he0⟩ : ∃ e0, Nat.log2 (Nat.sqrt m) - 52 = e0 + 1 := ⟨Nat.log2 (Nat.sqrt m) - 52 - 1, by omega⟩
  refine ⟨e0, he0, ?_⟩
  rw [he0] at hb1 hb2
  have hs1 : Nat.sqrt m * Nat.sqrt m ≤ m := Nat.sqrt_le m
  have hs2 : m < (Nat.sqrt m + 1) * (Nat.sqrt m + 1) := Nat.lt_succ_sqrt m
  generalize Nat.sqrt m = r at *
  have hE : 2 ^ (e0 + 1) = 2 * 2 ^ e0 := by rw [Nat.pow_succ, Nat.mul_comm]
  have hF : 0 < 2 ^ e0 := Nat.two_pow_pos e0
  rw [hE] at hb1 hb2 ⊢
  generalize 2 ^ e0 = F at *
  have hq1 : r / (2 * F) * (2 * F) ≤ r := Nat.div_mul_le_self r (2 * F)
  have hq2 : r < (r / (2 * F) + 1) * (2 * F) := by
    have := Nat.lt_div_mul_add (a := r) (b := 2 * F) (by omega)
    rw [Nat.add_mul, Nat.one_mul]; exact this
  have hq52 : 2 ^ 52 ≤ r / (2 * F) := by
    rw [Nat.le_div_iff_mul_le (by omega)]; exact hb1
  have hq53 : r / (2 * F) < 2 ^ 53 := by
    rw [Nat.div_lt_iff_lt_mul (by omega)]; exact hb2
  generalize r / (2 * F) = q at *
  refine ⟨hq52, ?_⟩
  -- squares
  have hlow : (q * (2 * F)) * (q * (2 * F)) ≤ m :=
    le_trans (Nat.mul_le_mul hq1 hq1) hs1
  have hup : m < ((q + 1) * (2 * F)) * ((q + 1) * (2 * F)) :=
    lt_of_lt_of_le hs2 (Nat.mul_le_mul (by omega) (by omega))
  have h53 : (2 ^ 53 * F) ^ 2 ≤ m := by
    have : 2 ^ 53 * F ≤ r := by
      calc 2 ^ 53 * F = 2 ^ 52 * (2 * F) := by ring
        _ ≤ r := hb1
    calc (2 ^ 53 * F) ^ 2 = (2 ^ 53 * F) * (2 ^ 53 * F) := by ring
      _ ≤ r * r := Nat.mul_le_mul this this
      _ ≤ m := hs1
  have eA : (q * (2 * F)) * (q * (2 * F)) = ((2 * q) * F) ^ 2 := by ring
  have eB : ((q + 1) * (2 * F)) * ((q + 1) * (2 * F)) = ((2 * (q + 1)) * F) ^ 2 := by ring
  have eH : ((2 * q + 1) * F) * ((2 * q + 1) * F) = ((2 * q + 1) * F) ^ 2 := by ring
  rw [eA] at hlow; rw [eB] at hup; rw [eH]
  have mono : ∀ a b : Nat, a ≤ b → (a * F) ^ 2 ≤ (b * F) ^ 2 := fun a b h =>
    Nat.pow_le_pow_left (Nat.mul_le_mul_right F h) 2
  intro q' hq'
  by_cases c1 : m > ((2 * q + 1) * F) ^ 2
  · rw [if_pos c1] at hq'
    subst hq'
    refine ⟨by omega, by omega, h53, ?_, ?_⟩
    · have : 2 * (q + 1) - 1 = 2 * q + 1 := by omega
      rw [this]; exact Nat.le_of_lt c1
    · exact le_trans (Nat.le_of_lt hup) (mono _ _ (by omega))
  · rw [if_neg c1] at hq'
    by_cases c2 : m < ((2 * q + 1) * F) ^ 2
    · rw [if_pos c2] at hq'
      subst hq'
      refine ⟨by omega, by omega, h53, ?_, Nat.le_of_lt c2⟩
      exact le_trans (mono _ _ (by omega)) hlow
    · rw [if_neg c2] at hq'
      have c3 : m = ((2 * q + 1) * F) ^ 2 := by omega
      by_cases c4 : q % 2 = 0
      · rw [if_pos c4] at hq'
        subst hq'
        refine ⟨by omega, by omega, h53, ?_, Nat.le_of_eq c3⟩
        exact le_trans (mono _ _ (by omega)) hlow
      · rw [if_neg c4] at hq'
        subst hq'
        refine ⟨by omega, by omega, h53, ?_, ?_⟩
        · have : 2 * (q + 1) - 1 = 2 * q + 1 := by omega
          rw [this]; exact Nat.le_of_eq c3.symm
        · exact le_trans (Nat.le_of_lt hup) (mono _ _ (by omega))

/-- the rounding core of `F64.sqrt`: nearest-even 53-bit rounding of `√m` -/
def sqrtRound (m : Nat) : Nat :=
  let r := Nat.sqrt m
  let e := Nat.log2 r - 52
  let q := r / 2 ^ e
  let h := (2 * q + 1) * 2 ^ (e - 1)
  let q' := if m > h * h then q + 1 else if m < h * h then q else (if q % 2 = 0 then q else q + 1)
  q' * 2 ^ e

theorem sqrt_fin (n : Nat) (hn : n ≠ 0) : F64.sqrt (fin false n) = fin false (sqrtRound (n * unit)) := by
  rw [F64.sqrt, if_neg hn, if_neg (by simp)]
  rfl

theorem sqrtRound_spec (m : Nat) (hm : 2 ^ 106 ≤ m) :
    ∃ q' e0 : Nat, sqrtRound m = q' * 2 ^ (e0 + 1) ∧
      2 ^ 52 ≤ q' ∧ q' ≤ 2 ^ 53 ∧ (2 ^ 53 * 2 ^ e0) ^ 2 ≤ m ∧
      ((2 * q' - 1) * 2 ^ e0) ^ 2 ≤ m ∧ m ≤ ((2 * q' + 1) * 2 ^ e0) ^ 2 := by
  obtain ⟨e0, he0, hq, H⟩ := sqrt_round_nat m hm
  unfold sqrtRound
  simp only []
  rw [he0]
  have e1 : e0 + 1 - 1 = e0 := by omega
  rw [e1]
  exact ⟨_, e0, rfl, H _ rfl⟩

/-- **`F64.sqrt` is correctly rounded** (integer statement): on a positive finite input `n·2^-1074` the result is
`r = q'·2^(e+1)` with `2^52 ≤ q' ≤ 2^53` and `(r - 2^e)² ≤ n·2^1074 ≤ (r + 2^e)²` (`2^e` is half an ulp of `r`), and
`2^53·2^e ≤ √(n·2^1074)`. -/
theorem sqrt_spec (n : Nat) (hn : 0 < n) :
    ∃ q' e0 : Nat, F64.sqrt (fin false n) = fin false (q' * 2 ^ (e0 + 1)) ∧
      2 ^ 52 ≤ q' ∧ q' ≤ 2 ^ 53 ∧ (2 ^ 53 * 2 ^ e0) ^ 2 ≤ n * unit ∧
      ((2 * q' - 1) * 2 ^ e0) ^ 2 ≤ n * unit ∧ n * unit ≤ ((2 * q' + 1) * 2 ^ e0) ^ 2 := by
  have hm : 2 ^ 106 ≤ n * unit := by
    rw [unit_eq]
    calc 2 ^ 106 ≤ 1 * 2 ^ 1074 := by rw [Nat.one_mul]; exact Nat.pow_le_pow_right (by norm_num) (by norm_num)
      _ ≤ n * 2 ^ 1074 := Nat.mul_le_mul_right _ hn
  obtain ⟨q', e0, h1, h2⟩ := sqrtRound_spec (n * unit) hm
  exact ⟨q', e0, by rw [sqrt_fin n (by omega), h1], h2⟩

/-- **`F64.sqrt` is correctly rounded** (real statement): relative error at most `u = 2^-53` against `Real.sqrt`;
`n · unit` is the radicand in scaled units: `(r/2^1074)² ≈ n/2^1074 ⇔ r² ≈ n·2^1074`. -/
theorem sqrt_real_err (n : Nat) (hn : 0 < n) :
    ∃ r : Nat, F64.sqrt (fin false n) = fin false r ∧ Rep r ∧
      2 ^ 53 * |(r : ℝ) - Real.sqrt ((n : ℝ) * (unit : ℝ))| ≤ Real.sqrt ((n : ℝ) * (unit : ℝ)) := by
  obtain ⟨q', e0, h0, h1, h2, h3, h4, h5⟩ := sqrt_spec n hn
  refine ⟨_, h0, rep_of_mul_pow _ h2, ?_⟩
  have c3 : ((2 : ℝ) ^ 53 * 2 ^ e0) ^ 2 ≤ (n : ℝ) * (unit : ℝ) := by exact_mod_cast h3
  have c4 : (((2 * q' - 1 : ℕ) : ℝ) * 2 ^ e0) ^ 2 ≤ (n : ℝ) * (unit : ℝ) := by exact_mod_cast h4
  have c5 : (n : ℝ) * (unit : ℝ) ≤ (((2 * q' + 1 : ℕ) : ℝ) * 2 ^ e0) ^ 2 := by exact_mod_cast h5
  have e1 : ((2 * q' - 1 : ℕ) : ℝ) = 2 * (q' : ℝ) - 1 := by
    have : 1 ≤ 2 * q' := by omega
    push_cast [Nat.cast_sub this]; ring
  rw [e1] at c4
  push_cast at c5 ⊢
  have hF : (0 : ℝ) < 2 ^ e0 := by positivity
  have hq : (1 : ℝ) ≤ (q' : ℝ) := by
    have : 1 ≤ q' := by omega
    exact_mod_cast this
  have l3 := Real.le_sqrt_of_sq_le c3
  have l4 := Real.le_sqrt_of_sq_le c4
  have l5 := (Real.sqrt_le_left (by positivity)).2 c5
  generalize Real.sqrt ((n : ℝ) * (unit : ℝ)) = S at *
  have hE : (2 : ℝ) ^ (e0 + 1) = 2 ^ e0 * 2 := pow_succ 2 e0
  rw [hE]
  generalize (2 : ℝ) ^ e0 = F at *
  have habs : |(q' : ℝ) * (F * 2) - S| ≤ F := by
    rw [abs_le]; constructor <;> linarith
  linarith

end F64

/-! ## 2. the real-number error analysis -/

namespace SqrtReal

theorem abs_mul_le' {a b α β : ℝ} (ha : |a| ≤ α) (hb : |b| ≤ β) : |a * b| ≤ α * β := by
  rw [abs_mul]
  exact mul_le_mul ha hb (abs_nonneg _) (le_trans (abs_nonneg _) ha)

/-- a positive number whose square is within `u` of `1` is within `0.5001 u` of `1` -/
theorem sqrt_near_one {u s : ℝ} (hu0 : 0 < u) (hu : u ≤ 1 / 2 ^ 20) (hs0 : 0 < s) (hs : |s ^ 2 - 1| ≤ u) :
    |s - 1| ≤ 0.5001 * u := by
  have hu1 : u ≤ 1 / 1000000 := le_trans hu (by norm_num)
  obtain ⟨h1, h2⟩ := abs_le.1 hs
  rw [abs_le]
  constructor
  · by_contra hc
    rw [not_le] at hc
    have hp : 0 < 1 - 0.5001 * u - s := by linarith
    nlinarith [mul_pos hp hs0, mul_pos hp hp, mul_pos hu0 hu0]
  · by_contra hc
    rw [not_le] at hc
    have hp : 0 < s - 1 - 0.5001 * u := by linarith
    nlinarith [mul_pos hp hs0, mul_pos hp hp, mul_pos hu0 hu0]

/-- intermediate bounds of the Newton step in normalised variables -/
theorem newton_aux {u xh yh sh : ℝ} (hu0 : 0 < u) (hu : u ≤ 1 / 2 ^ 20)
    (hx : |xh - 1| ≤ 2.001 * u) (hy : |yh - xh| ≤ u * xh) (hs0 : 0 < sh) (hs : |sh ^ 2 - 1| ≤ u) :
    |yh - 1| ≤ 3.002 * u ∧ |sh - yh| ≤ 3.5021 * u ∧ |(sh + yh) * xh / 2 - 1| ≤ 3.753 * u ∧
      |(sh ^ 2 - yh ^ 2) * xh / 2| ≤ 3.5021 * u * (1 + 3.753 * u) := by
  have hu1 : u ≤ 1 / 1000000 := le_trans hu (by norm_num)
  have huu : 0 < u * u := mul_pos hu0 hu0
  obtain ⟨hx1, hx2⟩ := abs_le.1 hx
  obtain ⟨hy1, hy2⟩ := abs_le.1 hy
  have hs1 := sqrt_near_one hu0 hu hs0 hs
  obtain ⟨hs2, hs3⟩ := abs_le.1 hs1
  have hux : u * xh ≤ 1.001 * u := by nlinarith
  have hyq : |yh - 1| ≤ 3.002 * u := by
    rw [abs_le]; constructor <;> linarith
  obtain ⟨hy3, hy4⟩ := abs_le.1 hyq
  -- A = sh - yh, B = (sh + yh) * xh / 2 - 1
  have hA : |sh - yh| ≤ 3.5021 * u := by
    rw [abs_le]; constructor <;> linarith
  have hpq : |(sh - 1) + (yh - 1)| ≤ 3.5021 * u := by
    rw [abs_le]; constructor <;> linarith
  have hB : |(sh + yh) * xh / 2 - 1| ≤ 3.753 * u := by
    have e : (sh + yh) * xh / 2 - 1 = (xh - 1) + ((sh - 1) + (yh - 1)) / 2
        + ((sh - 1) + (yh - 1)) * (xh - 1) / 2 := by ring
    have h3 := abs_mul_le' hpq hx
    obtain ⟨h4, h5⟩ := abs_le.1 h3
    obtain ⟨h6, h7⟩ := abs_le.1 hpq
    rw [e, abs_le]
    constructor <;> nlinarith
  have hT : (sh ^ 2 - yh ^ 2) * xh / 2 = (sh - yh) * (1 + ((sh + yh) * xh / 2 - 1)) := by ring
  have h1B : |1 + ((sh + yh) * xh / 2 - 1)| ≤ 1 + 3.753 * u := by
    refine le_trans (abs_add_le _ _) ?_
    rw [abs_one]; linarith
  have hTa : |(sh ^ 2 - yh ^ 2) * xh / 2| ≤ 3.5021 * u * (1 + 3.753 * u) := by
    rw [hT]; exact abs_mul_le' hA h1B
  exact ⟨hyq, hA, hB, hTa⟩

/-- **the Newton step in normalised variables** (`√hi = 1`): `xh ≈ 1/√hi`, `yh ≈ √hi`, `sh = √(hi+lo)`,
`ch` the computed correction, which approximates `(sh² - yh²)·xh/2` with relative error `ρ` and absolute error `α`.
`yh + ch - sh = A·B + (ch - T)` with `A = sh - yh`, `B = (sh + yh)·xh/2 - 1`, `T = A·(1 + B)` the ideal correction:
`|A| ≤ 3.5021u`, `|B| ≤ 3.753u`, so the total is `(3.5021·3.753 + 2.001·3.5021 + …) u² ≤ 20.2 u²`. -/
theorem newton_core {u xh yh sh ch ρ α : ℝ} (hu0 : 0 < u) (hu : u ≤ 1 / 2 ^ 20)
    (hx : |xh - 1| ≤ 2.001 * u) (hy : |yh - xh| ≤ u * xh) (hs0 : 0 < sh) (hs : |sh ^ 2 - 1| ≤ u)
    (hρ : ρ ≤ 2.001 * u)
    (hc : |ch - (sh ^ 2 - yh ^ 2) * xh / 2| ≤ ρ * |(sh ^ 2 - yh ^ 2) * xh / 2| + α) :
    |yh + ch - sh| ≤ 20.2 * u ^ 2 + α := by
  have hu1 : u ≤ 1 / 1000000 := le_trans hu (by norm_num)
  have huu : 0 < u * u := mul_pos hu0 hu0
  obtain ⟨-, hA, hB, hTa⟩ := newton_aux hu0 hu hx hy hs0 hs
  have hR : yh + ch - sh = (sh - yh) * ((sh + yh) * xh / 2 - 1) + (ch - (sh ^ 2 - yh ^ 2) * xh / 2) := by ring
  have hAB := abs_mul_le' hA hB
  have hρT : ρ * |(sh ^ 2 - yh ^ 2) * xh / 2| ≤ 2.001 * u * (3.5021 * u * (1 + 3.753 * u)) :=
    mul_le_mul hρ hTa (abs_nonneg _) (by linarith)
  rw [hR]
  refine le_trans (abs_add_le _ _) ?_
  nlinarith

/-- the computed correction `C` against the ideal one `Q·X2/U²` (`Q = S² - Y²`): relative `2.001u` plus half a unit -/
theorem corr_err {U Q X2 Dv Dh C : ℝ} (hU : 0 < U) (hX2 : 0 < X2)
    (h4 : 2 ^ 159 * |Dv * U - Q| ≤ (3 * 2 ^ 53 + 13) * |Q|)
    (h5 : 2 ^ 53 * |Dh - Dv| ≤ |Dv|)
    (h6 : 2 ^ 53 * |C * U - Dh * X2| ≤ 2 ^ 52 * U + |Dh * X2|) :
    |C * U ^ 2 - Q * X2| ≤ 2.001 * (1 / 2 ^ 53) * |Q * X2| + U ^ 2 / 2 := by
  have hq := abs_nonneg Q
  have hdU : |Dv| * U ≤ |Q| + |Dv * U - Q| := by
    have : |Dv| * U = |Dv * U| := by rw [abs_mul, abs_of_pos hU]
    rw [this]
    have := abs_add_le Q (Dv * U - Q)
    rwa [add_sub_cancel] at this
  have ha2U : |Dh - Dv| * U ≤ (1 / 2 ^ 53) * (|Dv| * U) := by
    have : |Dh - Dv| ≤ (1 / 2 ^ 53) * |Dv| := by linarith
    calc |Dh - Dv| * U ≤ (1 / 2 ^ 53) * |Dv| * U := mul_le_mul_of_nonneg_right this hU.le
      _ = _ := by ring
  have hdhU : |Dh| * U ≤ |Dv| * U + |Dh - Dv| * U := by
    have := abs_add_le Dv (Dh - Dv)
    rw [add_sub_cancel] at this
    nlinarith
  have e : C * U ^ 2 - Q * X2 = (C * U - Dh * X2) * U + (Dh - Dv) * U * X2 + (Dv * U - Q) * X2 := by ring
  have t1 : |(C * U - Dh * X2) * U| = |C * U - Dh * X2| * U := by rw [abs_mul, abs_of_pos hU]
  have t2 : |(Dh - Dv) * U * X2| = |Dh - Dv| * U * X2 := by
    rw [abs_mul, abs_mul, abs_of_pos hU, abs_of_pos hX2]
  have t3 : |(Dv * U - Q) * X2| = |Dv * U - Q| * X2 := by rw [abs_mul, abs_of_pos hX2]
  have t4 : |Dh * X2| = |Dh| * X2 := by rw [abs_mul, abs_of_pos hX2]
  have t5 : |Q * X2| = |Q| * X2 := by rw [abs_mul, abs_of_pos hX2]
  rw [t4] at h6
  rw [e, t5]
  refine le_trans (abs_add_le _ _) ?_
  refine le_trans (add_le_add_left (abs_add_le _ _) _) ?_
  rw [t1, t2, t3]
  -- everything is bounded by multiples of `|Q|`, then multiplied by `X2`
  have b3 : |Dv * U - Q| ≤ ((3 * 2 ^ 53 + 13) / 2 ^ 159) * |Q| := by
    rw [div_mul_eq_mul_div, le_div_iff₀ (by positivity)]; linarith
  have b2 : |Dh - Dv| * U ≤ (1 / 2 ^ 53) * (1 + (3 * 2 ^ 53 + 13) / 2 ^ 159) * |Q| := by nlinarith
  have b1 : |Dh| * U ≤ (1 + 1 / 2 ^ 53) * (1 + (3 * 2 ^ 53 + 13) / 2 ^ 159) * |Q| := by nlinarith
  have c3 := mul_le_mul_of_nonneg_right b3 hX2.le
  have c2 := mul_le_mul_of_nonneg_right b2 hX2.le
  have c1 := mul_le_mul_of_nonneg_right b1 hX2.le
  have c0 : |C * U - Dh * X2| * U ≤ U ^ 2 / 2 + (1 / 2 ^ 53) * (|Dh| * U * X2) := by
    have : |C * U - Dh * X2| ≤ U / 2 + (1 / 2 ^ 53) * (|Dh| * X2) := by linarith
    calc |C * U - Dh * X2| * U ≤ (U / 2 + (1 / 2 ^ 53) * (|Dh| * X2)) * U :=
          mul_le_mul_of_nonneg_right this hU.le
      _ = _ := by ring
  have hqx : 0 ≤ |Q| * X2 := mul_nonneg hq hX2.le
  linarith

/-- `|Dh·X2|` against `|Q·X2|` -/
theorem dh_bound {U Q X2 Dv Dh : ℝ} (hU : 0 < U) (hX2 : 0 < X2)
    (h4 : 2 ^ 159 * |Dv * U - Q| ≤ (3 * 2 ^ 53 + 13) * |Q|)
    (h5 : 2 ^ 53 * |Dh - Dv| ≤ |Dv|) :
    |Dh * X2| * U ≤ 1.001 * |Q * X2| := by
  have hq := abs_nonneg Q
  have hdU : |Dv| * U ≤ |Q| + |Dv * U - Q| := by
    have : |Dv| * U = |Dv * U| := by rw [abs_mul, abs_of_pos hU]
    rw [this]
    have := abs_add_le Q (Dv * U - Q)
    rwa [add_sub_cancel] at this
  have ha2U : |Dh - Dv| * U ≤ (1 / 2 ^ 53) * (|Dv| * U) := by
    have : |Dh - Dv| ≤ (1 / 2 ^ 53) * |Dv| := by linarith
    calc |Dh - Dv| * U ≤ (1 / 2 ^ 53) * |Dv| * U := mul_le_mul_of_nonneg_right this hU.le
      _ = _ := by ring
  have hdhU : |Dh| * U ≤ |Dv| * U + |Dh - Dv| * U := by
    have := abs_add_le Dv (Dh - Dv)
    rw [add_sub_cancel] at this
    nlinarith
  have b3 : |Dv * U - Q| ≤ ((3 * 2 ^ 53 + 13) / 2 ^ 159) * |Q| := by
    rw [div_mul_eq_mul_div, le_div_iff₀ (by positivity)]; linarith
  have b1 : |Dh| * U ≤ 1.001 * |Q| := by nlinarith
  have c1 := mul_le_mul_of_nonneg_right b1 hX2.le
  rw [abs_mul, abs_mul, abs_of_pos hX2]
  linarith

/-- normalisation, part 1: `X·Sh ≈ U²` from `r ≈ Sh`, `X·r ≈ U²` -/
theorem norm_x {U Sh r X : ℝ} (hU : 0 < U) (hSh0 : 0 < Sh)
    (h1 : 2 ^ 53 * |r - Sh| ≤ Sh) (h2 : 2 ^ 53 * |X * r - U ^ 2| ≤ U ^ 2) :
    0 < X ∧ |X * Sh / U ^ 2 - 1| ≤ 2.001 * (1 / 2 ^ 53) := by
  have hU2 : 0 < U ^ 2 := by positivity
  have a1 : |r - Sh| ≤ (1 / 2 ^ 53) * Sh := by linarith
  obtain ⟨a1l, a1u⟩ := abs_le.1 a1
  have hr0 : 0 < r := by linarith
  have a2 : |X * r - U ^ 2| ≤ (1 / 2 ^ 53) * U ^ 2 := by linarith
  obtain ⟨a2l, a2u⟩ := abs_le.1 a2
  have hXr : 0 < X * r := by linarith
  have hX0 : 0 < X := (mul_pos_iff_of_pos_right hr0).1 hXr
  have hz : |X * Sh - U ^ 2| ≤ 2.001 * (1 / 2 ^ 53) * U ^ 2 := by
    have e : X * Sh - U ^ 2 = (X * r - U ^ 2) + X * (Sh - r) := by ring
    have t : |X * (Sh - r)| ≤ (1 / 2 ^ 53) * (X * Sh) := by
      rw [abs_mul, abs_of_pos hX0, abs_sub_comm]
      calc X * |r - Sh| ≤ X * ((1 / 2 ^ 53) * Sh) := mul_le_mul_of_nonneg_left a1 hX0.le
        _ = _ := by ring
    have h := abs_add_le (X * r - U ^ 2) (X * (Sh - r))
    rw [← e] at h
    have hb : |X * Sh - U ^ 2| ≤ (1 / 2 ^ 53) * U ^ 2 + (1 / 2 ^ 53) * (X * Sh) := by linarith
    obtain ⟨b1, b2⟩ := abs_le.1 hb
    rw [abs_le]; constructor <;> linarith
  refine ⟨hX0, ?_⟩
  have e : X * Sh / U ^ 2 - 1 = (X * Sh - U ^ 2) / U ^ 2 := by field_simp
  rw [e, abs_div, abs_of_pos hU2, div_le_iff₀ hU2]; exact hz

/-- normalisation, part 2: `Y/Sh ≈ X·Sh/U²` -/
theorem norm_y {U H Sh X Y : ℝ} (hU : 0 < U) (hSh0 : 0 < Sh) (hSh : Sh ^ 2 = H * U)
    (h3 : 2 ^ 53 * |Y * U - H * X| ≤ H * X) :
    |Y / Sh - X * Sh / U ^ 2| ≤ (1 / 2 ^ 53) * (X * Sh / U ^ 2) := by
  have hUS : 0 < U * Sh := mul_pos hU hSh0
  have hHe : H = Sh ^ 2 / U := by rw [hSh]; field_simp
  have e1 : Y / Sh - X * Sh / U ^ 2 = (Y * U - H * X) / (U * Sh) := by
    rw [hHe]; field_simp
  have e2 : X * Sh / U ^ 2 = (H * X) / (U * Sh) := by
    rw [hHe]; field_simp
  rw [e1, e2, abs_div, abs_of_pos hUS, ← mul_div_assoc, div_le_div_iff_of_pos_right hUS]
  linarith

/-- normalisation, part 3: `(S/Sh)² ≈ 1` -/
theorem norm_s {U H L Sh S : ℝ} (hU : 0 < U) (hH : 0 < H) (hSh : Sh ^ 2 = H * U)
    (hS : S ^ 2 = (H + L) * U) (hL : 2 ^ 53 * |L| ≤ H) :
    |(S / Sh) ^ 2 - 1| ≤ 1 / 2 ^ 53 := by
  have e : (S / Sh) ^ 2 - 1 = L / H := by
    rw [div_pow, hS, hSh]; field_simp; ring
  rw [e, abs_div, abs_of_pos hH, div_le_iff₀ hH]; linarith

/-- magnitude of the product `H·X`: `≈ Sh·U` -/
theorem hx_range {U H Sh X : ℝ} (hU : 0 < U) (hSh0 : 0 < Sh) (hSh : Sh ^ 2 = H * U)
    (hx : |X * Sh / U ^ 2 - 1| ≤ 2.001 * (1 / 2 ^ 53)) :
    0.999 * (Sh * U) ≤ H * X ∧ H * X ≤ 1.001 * (Sh * U) := by
  have hHe : H = Sh ^ 2 / U := by rw [hSh]; field_simp
  have e : H * X = (Sh * U) * (X * Sh / U ^ 2) := by rw [hHe]; field_simp
  obtain ⟨h1, h2⟩ := abs_le.1 hx
  have hp : 0 < Sh * U := mul_pos hSh0 hU
  rw [e]
  constructor <;> nlinarith

/-- magnitude of `Y` and of the ideal correction -/
theorem y_range {U H L Sh S r X Y : ℝ} (hU : 0 < U) (hH : 0 < H)
    (hSh0 : 0 < Sh) (hSh : Sh ^ 2 = H * U) (hS0 : 0 < S) (hS : S ^ 2 = (H + L) * U)
    (hL : 2 ^ 53 * |L| ≤ H) (h1 : 2 ^ 53 * |r - Sh| ≤ Sh) (h2 : 2 ^ 53 * |X * r - U ^ 2| ≤ U ^ 2)
    (h3 : 2 ^ 53 * |Y * U - H * X| ≤ H * X) :
    0.999 * Sh ≤ Y ∧ Y ≤ 1.001 * Sh ∧ 2 ^ 51 * |(S ^ 2 - Y ^ 2) * (X / 2)| ≤ Sh * U ^ 2 := by
  have hU2 : 0 < U ^ 2 := by positivity
  have hU2S : 0 < U ^ 2 * Sh := mul_pos hU2 hSh0
  obtain ⟨hX0, hx⟩ := norm_x hU hSh0 h1 h2
  have hy := norm_y hU hSh0 hSh h3
  have hs := norm_s hU hH hSh hS hL
  obtain ⟨k1, -, -, k4⟩ := newton_aux (u := 1 / 2 ^ 53) (by positivity) (by norm_num) hx hy (div_pos hS0 hSh0) hs
  obtain ⟨k1l, k1u⟩ := abs_le.1 k1
  have hYl : 0.999 ≤ Y / Sh := by
    have : (3.002 : ℝ) * (1 / 2 ^ 53) ≤ 0.001 := by norm_num
    linarith
  have hYu : Y / Sh ≤ 1.001 := by
    have : (3.002 : ℝ) * (1 / 2 ^ 53) ≤ 0.001 := by norm_num
    linarith
  rw [le_div_iff₀ hSh0] at hYl
  rw [div_le_iff₀ hSh0] at hYu
  refine ⟨hYl, hYu, ?_⟩
  have e1 : ((S / Sh) ^ 2 - (Y / Sh) ^ 2) * (X * Sh / U ^ 2) / 2
      = (S ^ 2 - Y ^ 2) * (X / 2) / (U ^ 2 * Sh) := by field_simp
  rw [e1, abs_div, abs_of_pos hU2S, div_le_iff₀ hU2S] at k4
  have e2 : Sh * U ^ 2 = U ^ 2 * Sh := by ring
  rw [e2]
  have hn : (2 : ℝ) ^ 51 * (3.5021 * (1 / 2 ^ 53) * (1 + 3.753 * (1 / 2 ^ 53))) ≤ 1 := by norm_num
  nlinarith

/-- **the Newton step, denormalised.**  `Sh = √(H·U)`, `S = √((H+L)·U)` (scaled square roots of the high word and
of the full argument), `r ≈ Sh`, `X ≈ U²/r`, `Y ≈ H·X/U`, `C ≈ (S² - Y²)·(X/2)/U²`.  The result `Y + C` is within
`21 u²` of `S`. -/
theorem newton_denorm {U H L Sh S r X Y C : ℝ} (hU : 0 < U) (hH : 0 < H)
    (hSh0 : 0 < Sh) (hSh : Sh ^ 2 = H * U) (hS0 : 0 < S) (hS : S ^ 2 = (H + L) * U)
    (hL : 2 ^ 53 * |L| ≤ H) (h1 : 2 ^ 53 * |r - Sh| ≤ Sh) (h2 : 2 ^ 53 * |X * r - U ^ 2| ≤ U ^ 2)
    (h3 : 2 ^ 53 * |Y * U - H * X| ≤ H * X)
    (hC : |C * U ^ 2 - (S ^ 2 - Y ^ 2) * (X / 2)| ≤ 2.001 * (1 / 2 ^ 53) * |(S ^ 2 - Y ^ 2) * (X / 2)| + U ^ 2 / 2)
    (hbig : 2 ^ 107 ≤ S) : 2 ^ 106 * |Y + C - S| ≤ 21 * S := by
  have hU2 : 0 < U ^ 2 := by positivity
  have hU2S : 0 < U ^ 2 * Sh := mul_pos hU2 hSh0
  obtain ⟨hX0, hx⟩ := norm_x hU hSh0 h1 h2
  have hy := norm_y hU hSh0 hSh h3
  have hs := norm_s hU hH hSh hS hL
  have hc : |C / Sh - ((S / Sh) ^ 2 - (Y / Sh) ^ 2) * (X * Sh / U ^ 2) / 2|
      ≤ 2.001 * (1 / 2 ^ 53) * |((S / Sh) ^ 2 - (Y / Sh) ^ 2) * (X * Sh / U ^ 2) / 2| + 1 / (2 * Sh) := by
    have e1 : ((S / Sh) ^ 2 - (Y / Sh) ^ 2) * (X * Sh / U ^ 2) / 2
        = (S ^ 2 - Y ^ 2) * (X / 2) / (U ^ 2 * Sh) := by field_simp
    have e2 : C / Sh - (S ^ 2 - Y ^ 2) * (X / 2) / (U ^ 2 * Sh)
        = (C * U ^ 2 - (S ^ 2 - Y ^ 2) * (X / 2)) / (U ^ 2 * Sh) := by field_simp
    have e3 : 1 / (2 * Sh) = (U ^ 2 / 2) / (U ^ 2 * Sh) := by field_simp
    rw [e1, e2, e3, abs_div, abs_div, abs_of_pos hU2S]
    have h := div_le_div_of_nonneg_right hC hU2S.le
    rw [add_div, mul_div_assoc] at h
    exact h
  have key := newton_core (u := 1 / 2 ^ 53) (by positivity) (by norm_num) hx hy (div_pos hS0 hSh0) hs
    (le_refl _) hc
  have hsn := sqrt_near_one (u := 1 / 2 ^ 53) (by positivity) (by norm_num) (div_pos hS0 hSh0) hs
  obtain ⟨hs2, hs3⟩ := abs_le.1 hsn
  have hSSh : 0.999 * Sh ≤ S := by
    have : 0.999 ≤ S / Sh := by
      have : (0.5001 : ℝ) * (1 / 2 ^ 53) ≤ 0.001 := by norm_num
      linarith
    rwa [le_div_iff₀ hSh0] at this
  have e : Y / Sh + C / Sh - S / Sh = (Y + C - S) / Sh := by field_simp
  rw [e, abs_div, abs_of_pos hSh0, div_le_iff₀ hSh0] at key
  have e5 : (20.2 * (1 / 2 ^ 53) ^ 2 + 1 / (2 * Sh)) * Sh = 20.2 * (1 / 2 ^ 53) ^ 2 * Sh + 1 / 2 := by
    field_simp
  rw [e5] at key
  have : (2 : ℝ) ^ 106 * (20.2 * (1 / 2 ^ 53) ^ 2 * Sh + 1 / 2) = 20.2 * Sh + 2 ^ 105 := by ring
  nlinarith

end SqrtReal

/-! ## 3. the `F64`-level steps -/

namespace F64

open TwoFloat

theorem rdI_natCast {p q : Nat} (hp : 0 < p) (hq : 0 < q) : rdI (p : Int) (q : Int) = ((roundQ p q : Nat) : Int) := by
  unfold rdI
  rw [Int.sign_eq_one_of_pos (by exact_mod_cast hp), Int.sign_eq_one_of_pos (by exact_mod_cast hq)]
  simp

theorem rqI_natCast (p q : Nat) : rqI (p : Int) q = ((roundQ p q : Nat) : Int) := by
  unfold rqI
  rw [if_neg (by omega), Int.natAbs_natCast]

theorem one_toInt : F64.one.toInt = (unit : Int) := rfl

theorem half_eq : f64lit 0x3fe0000000000000 = fin false (2 ^ 1073) := by decide +kernel

/-- the reciprocal of a positive finite double in `[2^-452, 2^502]`: value and relative error -/
theorem recip_pos {r : Nat} (h1 : 2 ^ 622 ≤ r) (h2 : r ≤ 2 ^ 1576) :
    IsVal (F64.recip (fin false r)) ((roundQ (unit * unit) r : Nat) : Int) ∧
    2 ^ 572 ≤ roundQ (unit * unit) r ∧ roundQ (unit * unit) r ≤ 2 ^ 1526 ∧
    2 ^ 53 * (roundQ (unit * unit) r * r) ≤ 2 ^ 53 * (unit * unit) + unit * unit ∧
    2 ^ 53 * (unit * unit) ≤ 2 ^ 53 * (roundQ (unit * unit) r * r) + unit * unit := by
  have hr0 : 0 < r := lt_of_lt_of_le (by positivity) h1
  have hUU : unit * unit = 2 ^ 2148 := by rw [unit_eq, ← Nat.pow_add]
  have hup : roundQ (unit * unit) r ≤ 2 ^ 1526 := by
    apply roundQ_le_of_le hr0 (rep_two_pow 1526)
    rw [hUU]
    calc 2 ^ 2148 = 2 ^ 1526 * 2 ^ 622 := by rw [← Nat.pow_add]
      _ ≤ 2 ^ 1526 * r := Nat.mul_le_mul_left _ h1
  have hlow : 2 ^ 572 ≤ roundQ (unit * unit) r := by
    apply le_roundQ_of_le hr0 (rep_two_pow 572)
    rw [hUU]
    calc 2 ^ 572 * r ≤ 2 ^ 572 * 2 ^ 1576 := Nat.mul_le_mul_left _ h2
      _ = 2 ^ 2148 := by rw [← Nat.pow_add]
  have hrel := roundQ_rel_bounds (p := unit * unit) (q := r) hr0 (by
    rw [hUU]
    calc 2 ^ 52 * r ≤ 2 ^ 52 * 2 ^ 1576 := Nat.mul_le_mul_left _ h2
      _ ≤ 2 ^ 2148 := by rw [← Nat.pow_add]; exact Nat.pow_le_pow_right (by norm_num) (by norm_num))
  refine ⟨?_, hlow, hup, hrel.1, hrel.2⟩
  have hfin : (fin false r).is_finite = true := rfl
  have hy0 : (fin false r).toInt ≠ 0 := by
    show ((r : Nat) : Int) ≠ 0
    omega
  have hd := div_spec (x := F64.one) (y := fin false r) rfl hfin hy0 (by
    rw [one_toInt]
    show roundQ ((unit : Int) * (unit : Int)).natAbs ((r : Nat) : Int).natAbs ≤ maxFin
    rw [← Int.natCast_mul, Int.natAbs_natCast, Int.natAbs_natCast]
    exact le_trans hup (le_trans (Nat.pow_le_pow_right (by norm_num) (by norm_num)) two_pow_2097_le_maxFin))
  rw [one_toInt] at hd
  have e : rdI ((unit : Int) * (unit : Int)) (fin false r).toInt = ((roundQ (unit * unit) r : Nat) : Int) := by
    show rdI ((unit : Int) * (unit : Int)) ((r : Nat) : Int) = _
    rw [← Int.natCast_mul]
    exact rdI_natCast (Nat.mul_pos unit_pos unit_pos) hr0
  rw [e] at hd
  exact hd

theorem mul_pos_val {a b : F64} {A B : Nat} (ha : IsVal a (A : Int)) (hb : IsVal b (B : Int))
    (hm : roundQ (A * B) unit ≤ maxFin) : IsVal (F64.mul a b) ((roundQ (A * B) unit : Nat) : Int) := by
  have h := mul_spec ha.1 hb.1 (by
    rw [ha.2, hb.2, ← Int.natCast_mul, Int.natAbs_natCast]; exact hm)
  rw [ha.2, hb.2, ← Int.natCast_mul, rqI_natCast] at h
  exact h

theorem unit_real : ((unit : Nat) : ℝ) = 2 ^ 1074 := by
  rw [unit_eq, Nat.cast_pow, Nat.cast_ofNat]

/-- two-sided `Nat` relative bounds as a real absolute-value bound -/
theorem abs_of_nat_bounds {a b : Nat} (h1 : 2 ^ 53 * a ≤ 2 ^ 53 * b + b) (h2 : 2 ^ 53 * b ≤ 2 ^ 53 * a + b) :
    (2 : ℝ) ^ 53 * |(a : ℝ) - (b : ℝ)| ≤ (b : ℝ) := by
  have c1 : (2 : ℝ) ^ 53 * (a : ℝ) ≤ 2 ^ 53 * (b : ℝ) + (b : ℝ) := by exact_mod_cast h1
  have c2 : (2 : ℝ) ^ 53 * (b : ℝ) ≤ 2 ^ 53 * (a : ℝ) + (b : ℝ) := by exact_mod_cast h2
  rcases abs_cases ((a : ℝ) - (b : ℝ)) with ⟨e, _⟩ | ⟨e, _⟩ <;> rw [e] <;> linarith

/-- the first half of `TwoFloat.sqrt`: `r = RN(√hi)`, `x' = RN(1/r)`, `y = RN(hi·x')` -/
theorem sqrt_xy {H : Nat} (hlo : 2 ^ 174 ≤ H) (hhi : H ≤ 2 ^ 2074) :
    ∃ r X Y : Nat,
      F64.sqrt (fin false H) = fin false r ∧
      IsVal (F64.recip (fin false r)) (X : Int) ∧
      IsVal (F64.mul (fin false H) (F64.recip (fin false r))) (Y : Int) ∧
      2 ^ 572 ≤ X ∧ X ≤ 2 ^ 1526 ∧
      (2 : ℝ) ^ 624 ≤ Real.sqrt ((H : ℝ) * (unit : ℝ)) ∧ Real.sqrt ((H : ℝ) * (unit : ℝ)) ≤ 2 ^ 1574 ∧
      2 ^ 53 * |(r : ℝ) - Real.sqrt ((H : ℝ) * (unit : ℝ))| ≤ Real.sqrt ((H : ℝ) * (unit : ℝ)) ∧
      2 ^ 53 * |(X : ℝ) * (r : ℝ) - (unit : ℝ) ^ 2| ≤ (unit : ℝ) ^ 2 ∧
      2 ^ 53 * |(Y : ℝ) * (unit : ℝ) - (H : ℝ) * (X : ℝ)| ≤ (H : ℝ) * (X : ℝ) := by
  have hH0 : 0 < H := lt_of_lt_of_le (by positivity) hlo
  obtain ⟨r, hr, -, hrerr⟩ := sqrt_real_err H hH0
  have hU : (0 : ℝ) < (unit : ℝ) := by exact_mod_cast unit_pos
  have hHr : (0 : ℝ) < (H : ℝ) := by exact_mod_cast hH0
  have hloR : (2 : ℝ) ^ 174 ≤ (H : ℝ) := by exact_mod_cast hlo
  have hhiR : (H : ℝ) ≤ 2 ^ 2074 := by exact_mod_cast hhi
  have hSh2 : Real.sqrt ((H : ℝ) * (unit : ℝ)) ^ 2 = (H : ℝ) * (unit : ℝ) := Real.sq_sqrt (by positivity)
  have hShl : (2 : ℝ) ^ 624 ≤ Real.sqrt ((H : ℝ) * (unit : ℝ)) := by
    apply Real.le_sqrt_of_sq_le
    rw [unit_real]
    calc ((2 : ℝ) ^ 624) ^ 2 = 2 ^ 174 * 2 ^ 1074 := by rw [← pow_mul, ← pow_add]
      _ ≤ (H : ℝ) * 2 ^ 1074 := mul_le_mul_of_nonneg_right hloR (by positivity)
  have hShu : Real.sqrt ((H : ℝ) * (unit : ℝ)) ≤ 2 ^ 1574 := by
    rw [Real.sqrt_le_left (by positivity), unit_real]
    calc (H : ℝ) * 2 ^ 1074 ≤ 2 ^ 2074 * 2 ^ 1074 := mul_le_mul_of_nonneg_right hhiR (by positivity)
      _ = ((2 : ℝ) ^ 1574) ^ 2 := by rw [← pow_mul, ← pow_add]
  generalize hSh : Real.sqrt ((H : ℝ) * (unit : ℝ)) = Sh at *
  have hSh0 : 0 < Sh := lt_of_lt_of_le (by positivity) hShl
  -- range of r
  have a1 : |(r : ℝ) - Sh| ≤ (1 / 2 ^ 53) * Sh := by linarith
  obtain ⟨a1l, a1u⟩ := abs_le.1 a1
  have hr1 : 2 ^ 622 ≤ r := by
    have : (2 : ℝ) ^ 622 ≤ (r : ℝ) := by
      have e : (2 : ℝ) ^ 624 = 4 * 2 ^ 622 := by rw [show (624 : ℕ) = 622 + 2 by norm_num, pow_add]; ring
      have hp : (0 : ℝ) < 2 ^ 622 := by positivity
      rw [e] at hShl
      generalize (2 : ℝ) ^ 622 = P at *
      linarith
    exact_mod_cast this
  have hr2 : r ≤ 2 ^ 1576 := by
    have : (r : ℝ) ≤ 2 ^ 1576 := by
      have e : (2 : ℝ) ^ 1576 = 4 * 2 ^ 1574 := by rw [show (1576 : ℕ) = 1574 + 2 by norm_num, pow_add]; ring
      have hp : (0 : ℝ) < 2 ^ 1574 := by positivity
      rw [e]
      generalize (2 : ℝ) ^ 1574 = P at *
      linarith
    exact_mod_cast this
  obtain ⟨hX, hX1, hX2, hXa, hXb⟩ := recip_pos hr1 hr2
  generalize roundQ (unit * unit) r = X at *
  have h2 : 2 ^ 53 * |(X : ℝ) * (r : ℝ) - (unit : ℝ) ^ 2| ≤ (unit : ℝ) ^ 2 := by
    have := abs_of_nat_bounds hXa hXb
    push_cast at this
    rw [← pow_two] at this
    exact this
  -- magnitude of H * X
  obtain ⟨hX0, hx⟩ := SqrtReal.norm_x hU hSh0 hrerr h2
  obtain ⟨hHX1, hHX2⟩ := SqrtReal.hx_range hU hSh0 hSh2 hx
  have hSU : 0 < Sh * (unit : ℝ) := mul_pos hSh0 hU
  have hn1 : 2 ^ 52 * unit ≤ H * X := by
    have : (2 : ℝ) ^ 52 * (unit : ℝ) ≤ (H : ℝ) * (X : ℝ) := by
      have h53 : (2 : ℝ) ^ 53 ≤ Sh :=
        le_trans (pow_le_pow_right₀ (by norm_num) (by norm_num)) hShl
      have h : (2 : ℝ) ^ 53 * (unit : ℝ) ≤ Sh * (unit : ℝ) := mul_le_mul_of_nonneg_right h53 hU.le
      generalize Sh * (unit : ℝ) = SU at *
      generalize (H : ℝ) * (X : ℝ) = HX at *
      generalize (unit : ℝ) = U' at *
      linarith
    exact_mod_cast this
  have hn2 : H * X ≤ 2 ^ 1575 * unit := by
    have : (H : ℝ) * (X : ℝ) ≤ 2 ^ 1575 * (unit : ℝ) := by
      have h : Sh * (unit : ℝ) ≤ 2 ^ 1574 * (unit : ℝ) := mul_le_mul_of_nonneg_right hShu hU.le
      have e : (2 : ℝ) ^ 1575 = 2 * 2 ^ 1574 := by rw [show (1575 : ℕ) = 1574 + 1 by norm_num, pow_succ]; ring
      rw [e]
      generalize Sh * (unit : ℝ) = SU at *
      generalize (H : ℝ) * (X : ℝ) = HX at *
      have hp : (0 : ℝ) < 2 ^ 1574 * (unit : ℝ) := by positivity
      have e2 : (2 : ℝ) * 2 ^ 1574 * (unit : ℝ) = 2 * (2 ^ 1574 * (unit : ℝ)) := by ring
      rw [e2]
      generalize (2 : ℝ) ^ 1574 * (unit : ℝ) = PU at *
      linarith
    exact_mod_cast this
  have hYm : roundQ (H * X) unit ≤ maxFin :=
    le_trans (roundQ_le_of_le unit_pos (rep_two_pow 1575) hn2)
      (le_trans (Nat.pow_le_pow_right (by norm_num) (by norm_num)) two_pow_2097_le_maxFin)
  have hY := mul_pos_val (a := fin false H) (b := F64.recip (fin false r)) ⟨rfl, rfl⟩ hX hYm
  obtain ⟨hYa, hYb⟩ := roundQ_rel_bounds unit_pos hn1
  refine ⟨r, X, _, hr, hX, hY, hX1, hX2, hShl, hShu, hrerr, h2, ?_⟩
  have := abs_of_nat_bounds hYa hYb
  push_cast at this
  exact this

theorem hi_pos_form {x : TwoFloat} (hv : x.Valid) (hpos : 0 < x.V) : ∃ H : Nat, 0 < H ∧ x.hi = fin false H := by
  have h1 : 0 < x.hi.toInt := by rw [hv.hi_toInt]; exact roundFacts.rnI_pos hpos
  obtain ⟨s, n, hsn⟩ := is_finite_iff.mp hv.1
  rw [hsn] at h1 ⊢
  cases s
  · exact ⟨n, by simpa [toInt] using h1, rfl⟩
  · exfalso; simp [toInt] at h1; omega

theorem rnI_rel_err (v : Int) : 2 ^ 53 * |rnI v - v| ≤ |v| := by
  rw [abs_rnI_sub]
  calc 2 ^ 53 * |((rn53 v.natAbs : Nat) : Int) - ((v.natAbs : Nat) : Int)| ≤ ((v.natAbs : Nat) : Int) :=
        rn53_rel_err v.natAbs
    _ = |v| := Int.natCast_natAbs v

/-- multiplication by `0.5` is exact on normal numbers -/
theorem mul_half {a : F64} {X : Nat} (ha : IsVal a (X : Int)) (hw : a.WF) (hX : 2 ^ 53 ≤ X) :
    ∃ X2 : Nat, X = 2 * X2 ∧ IsVal (F64.mul a (f64lit 0x3fe0000000000000)) (X2 : Int) := by
  have hrep : Rep X := by
    have := hw.repI; rw [ha.2] at this; exact repI_natCast.1 this
  have hd : 2 ^ 1 ∣ X := hrep.dvd_of_le (e := 1) (by
    calc 2 ^ 52 * 2 ^ 1 = 2 ^ 53 := by norm_num
      _ ≤ X := hX)
  obtain ⟨X2, hX2⟩ := hd
  have hX2' : X = X2 * 2 ^ 1 := by omega
  have hrep2 : Rep X2 := by rw [hX2'] at hrep; exact rep_mul_pow2_iff.1 hrep
  refine ⟨X2, by omega, ?_⟩
  rw [half_eq]
  have hm : X ≤ maxFin := by
    have := hw.natAbs_toInt_le; rw [ha.2, Int.natAbs_natCast] at this; exact this
  have e : (fin false (2 ^ 1073)).toInt = ((2 ^ 1073 : Nat) : Int) := rfl
  refine mul_exact ha.1 rfl (q := (X2 : Int)) ?_ (repI_natCast.2 hrep2) ?_
  · rw [ha.2, e, unit_eq]
    have : (2 : Nat) ^ 1074 = 2 * 2 ^ 1073 := by rw [show (1074 : Nat) = 1073 + 1 by norm_num, pow_succ]; ring
    rw [this, hX2']
    push_cast; ring
  · rw [abs_of_nonneg (Int.natCast_nonneg _)]
    have : X2 ≤ maxFin := by omega
    exact_mod_cast this

/-- the second half of `TwoFloat.sqrt`: the double-word Newton correction -/
theorem sqrt_tail {x : TwoFloat} {xr y : F64} {H X Y : Nat} {r : ℝ}
    (hv : x.Valid) (hw : x.WF) (hpos : 0 < x.V) (hxhi : x.hi.toInt = (H : Int)) (hhi : H ≤ 2 ^ 2074)
    (hXv : IsVal xr (X : Int)) (hXw : xr.WF) (hYv : IsVal y (Y : Int)) (hYw : y.WF)
    (hX1 : 2 ^ 572 ≤ X)
    (hShl : (2 : ℝ) ^ 624 ≤ Real.sqrt ((H : ℝ) * (unit : ℝ)))
    (hShu : Real.sqrt ((H : ℝ) * (unit : ℝ)) ≤ 2 ^ 1574)
    (e1 : 2 ^ 53 * |r - Real.sqrt ((H : ℝ) * (unit : ℝ))| ≤ Real.sqrt ((H : ℝ) * (unit : ℝ)))
    (e2 : 2 ^ 53 * |(X : ℝ) * r - (unit : ℝ) ^ 2| ≤ (unit : ℝ) ^ 2)
    (e3 : 2 ^ 53 * |(Y : ℝ) * (unit : ℝ) - (H : ℝ) * (X : ℝ)| ≤ (H : ℝ) * (X : ℝ)) :
    (TwoFloat.new_add y (F64.mul (x -. TwoFloat.new_mul y y).hi (F64.mul xr (f64lit 0x3fe0000000000000)))).Valid ∧
    (TwoFloat.new_add y (F64.mul (x -. TwoFloat.new_mul y y).hi (F64.mul xr (f64lit 0x3fe0000000000000)))).WF ∧
    2 ^ 106 * |(((TwoFloat.new_add y (F64.mul (x -. TwoFloat.new_mul y y).hi
        (F64.mul xr (f64lit 0x3fe0000000000000)))).V : Int) : ℝ) - Real.sqrt ((x.V : ℝ) * (unit : ℝ))|
      ≤ 21 * Real.sqrt ((x.V : ℝ) * (unit : ℝ)) := by
  have hU : (0 : ℝ) < (unit : ℝ) := by exact_mod_cast unit_pos
  have hShpos : (0 : ℝ) < Real.sqrt ((H : ℝ) * (unit : ℝ)) := lt_of_lt_of_le (by positivity) hShl
  have hH0r : (0 : ℝ) < (H : ℝ) := by
    by_contra hc
    have : (H : ℝ) = 0 := le_antisymm (not_lt.1 hc) (Nat.cast_nonneg H)
    rw [this, zero_mul, Real.sqrt_zero] at hShpos
    exact lt_irrefl _ hShpos
  have hSh2 : Real.sqrt ((H : ℝ) * (unit : ℝ)) ^ 2 = (H : ℝ) * (unit : ℝ) := Real.sq_sqrt (by positivity)
  -- the low word
  have hL : (2 : Int) ^ 53 * |x.lo.toInt| ≤ (H : Int) := by
    have := two_pow_mul_abs_le_of_half_ulp hv.two_mul_abs_lo_le
    rw [hxhi, abs_of_nonneg (Int.natCast_nonneg H)] at this
    exact this
  have hVe : x.V = (H : Int) + x.lo.toInt := by unfold TwoFloat.V; rw [hxhi]
  have hVr : ((x.V : Int) : ℝ) = (H : ℝ) + ((x.lo.toInt : Int) : ℝ) := by rw [hVe]; push_cast; ring
  have hLr : (2 : ℝ) ^ 53 * |((x.lo.toInt : Int) : ℝ)| ≤ (H : ℝ) := by exact_mod_cast hL
  have hVpos : (0 : ℝ) < ((x.V : Int) : ℝ) := by exact_mod_cast hpos
  have hS2' : Real.sqrt (((x.V : Int) : ℝ) * (unit : ℝ)) ^ 2 = ((x.V : Int) : ℝ) * (unit : ℝ) :=
    Real.sq_sqrt (by positivity)
  have hS2 : Real.sqrt (((x.V : Int) : ℝ) * (unit : ℝ)) ^ 2 = ((H : ℝ) + ((x.lo.toInt : Int) : ℝ)) * (unit : ℝ) := by
    rw [hS2', hVr]
  have hS0 : 0 < Real.sqrt (((x.V : Int) : ℝ) * (unit : ℝ)) := Real.sqrt_pos.2 (by positivity)
  have hbig : (2 : ℝ) ^ 107 ≤ Real.sqrt (((x.V : Int) : ℝ) * (unit : ℝ)) := by
    apply Real.le_sqrt_of_sq_le
    have h1 : (1 : ℝ) ≤ ((x.V : Int) : ℝ) := by
      have : (1 : Int) ≤ x.V := hpos
      exact_mod_cast this
    rw [unit_real]
    calc ((2 : ℝ) ^ 107) ^ 2 = 2 ^ 214 := by rw [← pow_mul]
      _ ≤ 2 ^ 1074 := pow_le_pow_right₀ (by norm_num) (by norm_num)
      _ = 1 * 2 ^ 1074 := (one_mul _).symm
      _ ≤ ((x.V : Int) : ℝ) * 2 ^ 1074 := mul_le_mul_of_nonneg_right h1 (by positivity)
  generalize hSh : Real.sqrt ((H : ℝ) * (unit : ℝ)) = Sh at *
  generalize hS : Real.sqrt (((x.V : Int) : ℝ) * (unit : ℝ)) = S at *
  -- magnitudes of `Y` and of the ideal correction
  obtain ⟨hY1, hY2, hT⟩ := SqrtReal.y_range hU hH0r hShpos hSh2 hS0 hS2 hLr e1 e2 e3
  obtain ⟨hX0, -⟩ := SqrtReal.norm_x hU hShpos e1 e2
  have hYlo : 2 ^ 623 ≤ Y := by
    have : (2 : ℝ) ^ 623 ≤ (Y : ℝ) := by
      have e : (2 : ℝ) ^ 624 = 2 * 2 ^ 623 := by rw [show (624 : ℕ) = 623 + 1 by norm_num, pow_succ]; ring
      have hp : (0 : ℝ) < 2 ^ 623 := by positivity
      rw [e] at hShl
      generalize (2 : ℝ) ^ 623 = P at *
      linarith
    exact_mod_cast this
  have hYhi : Y ≤ 2 ^ 1575 := by
    have : (Y : ℝ) ≤ 2 ^ 1575 := by
      have e : (2 : ℝ) ^ 1575 = 2 * 2 ^ 1574 := by rw [show (1575 : ℕ) = 1574 + 1 by norm_num, pow_succ]; ring
      have hp : (0 : ℝ) < 2 ^ 1574 := by positivity
      rw [e]
      generalize (2 : ℝ) ^ 1574 = P at *
      linarith
    exact_mod_cast this
  -- the exact square `P = y²`
  have hYY1 : 2 ^ 1188 ≤ Y * Y :=
    calc 2 ^ 1188 ≤ 2 ^ 623 * 2 ^ 623 := by rw [← Nat.pow_add]; exact Nat.pow_le_pow_right (by norm_num) (by norm_num)
      _ ≤ Y * Y := Nat.mul_le_mul hYlo hYlo
  have hYY2 : Y * Y ≤ 2 ^ 3150 :=
    calc Y * Y ≤ 2 ^ 1575 * 2 ^ 1575 := Nat.mul_le_mul hYhi hYhi
      _ = 2 ^ 3150 := by rw [← Nat.pow_add]
  have hyy : y.toInt * y.toInt = ((Y * Y : Nat) : Int) := by rw [hYv.2]; push_cast; ring
  obtain ⟨p1, p2, p3, p4⟩ := new_mul_spec hYv.1 hYv.1 hYw hYw (Or.inr (by
    rw [hyy, abs_of_nonneg (Int.natCast_nonneg _)]
    constructor
    · exact_mod_cast hYY1
    · have : Y * Y < 2 ^ 3171 := lt_of_le_of_lt hYY2 (Nat.pow_lt_pow_right (by norm_num) (by norm_num))
      exact_mod_cast this))
  have hPhi : (TwoFloat.new_mul y y).hi.toInt.natAbs < 2 ^ 2094 := by
    have h : |rqI (y.toInt * y.toInt) unit| ≤ 2 ^ 2076 := by
      apply rqI_abs_le 2076 unit_pos
      rw [hyy, abs_of_nonneg (Int.natCast_nonneg _), unit_eq]
      have : Y * Y ≤ 2 ^ 2076 * 2 ^ 1074 := by rw [← Nat.pow_add]; exact hYY2
      exact_mod_cast this
    rw [← p1] at h
    have h2 : (TwoFloat.new_mul y y).hi.toInt.natAbs ≤ 2 ^ 2076 := natAbs_le_of_abs_le (by exact_mod_cast h)
    exact lt_of_le_of_lt h2 (Nat.pow_lt_pow_right (by norm_num) (by norm_num))
  have hxhi' : x.hi.toInt.natAbs < 2 ^ 2094 := by
    rw [hxhi, Int.natAbs_natCast]
    exact lt_of_le_of_lt hhi (Nat.pow_lt_pow_right (by norm_num) (by norm_num))
  have hD : (x -. TwoFloat.new_mul y y)
      = arithmetic.impl_Sub_rTwoFloat_for_rTwoFloat.sub x (TwoFloat.new_mul y y) := rfl
  rw [hD]
  obtain ⟨dV, dB⟩ := TwoFloat.sub_tt_bound hv hw p3 p4 hxhi' hPhi
  generalize arithmetic.impl_Sub_rTwoFloat_for_rTwoFloat.sub x (TwoFloat.new_mul y y) = D at *
  have h5i : (2 : Int) ^ 53 * |D.hi.toInt - D.V| ≤ |D.V| := by
    rw [dV.hi_toInt]; exact rnI_rel_err _
  obtain ⟨X2, hX2e, hx2⟩ := mul_half hXv hXw (le_trans (Nat.pow_le_pow_right (by norm_num) (by norm_num)) hX1)
  generalize F64.mul xr (f64lit 0x3fe0000000000000) = x2 at *
  -- real versions
  have hX2r : (X2 : ℝ) = (X : ℝ) / 2 := by rw [hX2e]; push_cast; ring
  have hX2pos : (0 : ℝ) < (X : ℝ) / 2 := by positivity
  have hPr : (((TwoFloat.new_mul y y).V : Int) : ℝ) * (unit : ℝ) = (Y : ℝ) ^ 2 := by
    have : (TwoFloat.new_mul y y).V * (unit : Int) = ((Y * Y : Nat) : Int) := by rw [p2, hyy]
    have h : (((TwoFloat.new_mul y y).V : Int) : ℝ) * (unit : ℝ) = ((Y * Y : Nat) : ℝ) := by exact_mod_cast this
    rw [h]; push_cast; ring
  have hQ : S ^ 2 - (Y : ℝ) ^ 2 = (((x.V : Int) : ℝ) - (((TwoFloat.new_mul y y).V : Int) : ℝ)) * (unit : ℝ) := by
    rw [hS2', ← hPr]; ring
  have h4r : (2 : ℝ) ^ 159 * |((D.V : Int) : ℝ) * (unit : ℝ) - (S ^ 2 - (Y : ℝ) ^ 2)|
      ≤ (3 * 2 ^ 53 + 13) * |S ^ 2 - (Y : ℝ) ^ 2| := by
    have h : |((D.V : Int) : ℝ) - (((x.V : Int) : ℝ) - (((TwoFloat.new_mul y y).V : Int) : ℝ))| * 2 ^ 159
        ≤ (3 * 2 ^ 53 + 13) * |((x.V : Int) : ℝ) - (((TwoFloat.new_mul y y).V : Int) : ℝ)| := by
      exact_mod_cast dB
    have e : ((D.V : Int) : ℝ) * (unit : ℝ) - (S ^ 2 - (Y : ℝ) ^ 2)
        = (((D.V : Int) : ℝ) - (((x.V : Int) : ℝ) - (((TwoFloat.new_mul y y).V : Int) : ℝ))) * (unit : ℝ) := by
      rw [hQ]; ring
    rw [e, hQ, abs_mul, abs_mul, abs_of_pos hU]
    have := mul_le_mul_of_nonneg_right h hU.le
    linarith
  have h5r : (2 : ℝ) ^ 53 * |((D.hi.toInt : Int) : ℝ) - ((D.V : Int) : ℝ)| ≤ |((D.V : Int) : ℝ)| := by
    exact_mod_cast h5i
  -- magnitude of the correction
  have hdh := SqrtReal.dh_bound hU hX2pos h4r h5r
  have hb : |D.hi.toInt * (X2 : Int)| ≤ 2 ^ 1524 * (unit : Int) := by
    have : |((D.hi.toInt : Int) : ℝ) * ((X : ℝ) / 2)| ≤ 2 ^ 1524 * (unit : ℝ) := by
      have e : (2 : ℝ) ^ 1574 = 2 ^ 50 * 2 ^ 1524 := by rw [← pow_add]
      rw [e] at hShu
      have hp : (0 : ℝ) < 2 ^ 1524 := by positivity
      have hSU : Sh * (unit : ℝ) ≤ 2 ^ 50 * 2 ^ 1524 * (unit : ℝ) := mul_le_mul_of_nonneg_right hShu hU.le
      have hSUU := mul_le_mul_of_nonneg_right hSU hU.le
      have hg : |((D.hi.toInt : Int) : ℝ) * ((X : ℝ) / 2)| * (unit : ℝ) ≤ 2 ^ 1524 * (unit : ℝ) * (unit : ℝ) := by
        generalize (2 : ℝ) ^ 1524 = P at *
        nlinarith
      exact le_of_mul_le_mul_right hg hU
    rw [← hX2r] at this
    exact_mod_cast this
  have hcfin : roundQ (D.hi.toInt * x2.toInt).natAbs unit ≤ maxFin := by
    rw [hx2.2]; exact roundQ_le_maxFin_of_abs_le 1524 (by norm_num) unit_pos hb
  obtain ⟨hc1, hc2⟩ := mul_spec dV.1 hx2.1 hcfin
  rw [hx2.2] at hc2
  have hCabs : |rqI (D.hi.toInt * (X2 : Int)) unit| ≤ 2 ^ 1524 := rqI_abs_le 1524 unit_pos hb
  have h6i := rqI_err_gen (D.hi.toInt * (X2 : Int)) unit_pos
  -- the final 2Sum
  obtain ⟨-, q2, q3, q4⟩ := new_add_spec hYv.1 hc1 hYw (mul_WF _ _)
    (by
      rw [hYv.2, abs_of_nonneg (Int.natCast_nonneg _)]
      have h1 : (2 : Int) * (Y : Int) ≤ 2 ^ 1576 := by
        have : 2 * Y ≤ 2 ^ 1576 := by
          calc 2 * Y ≤ 2 * 2 ^ 1575 := Nat.mul_le_mul_left _ hYhi
            _ = 2 ^ 1576 := by rw [show (1576 : ℕ) = 1575 + 1 by norm_num, pow_succ]; ring
        exact_mod_cast this
      exact le_trans h1 (two_pow_le_maxFin_int (by norm_num)))
    (by
      rw [hc2]
      have h1 : (2 : Int) * |rqI (D.hi.toInt * (X2 : Int)) unit| ≤ 2 ^ 1525 := by
        have : (2 : Int) ^ 1525 = 2 * 2 ^ 1524 := by rw [show (1525 : ℕ) = 1524 + 1 by norm_num, pow_succ]; ring
        rw [this]; linarith
      exact le_trans h1 (two_pow_le_maxFin_int (by norm_num)))
  refine ⟨q3, q4, ?_⟩
  rw [q2, hYv.2, hc2]
  generalize rqI (D.hi.toInt * (X2 : Int)) unit = C at *
  have h6r : (2 : ℝ) ^ 53 * |((C : Int) : ℝ) * (unit : ℝ) - ((D.hi.toInt : Int) : ℝ) * ((X : ℝ) / 2)|
      ≤ 2 ^ 52 * (unit : ℝ) + |((D.hi.toInt : Int) : ℝ) * ((X : ℝ) / 2)| := by
    rw [← hX2r]; exact_mod_cast h6i
  have hC := SqrtReal.corr_err hU hX2pos h4r h5r h6r
  have key := SqrtReal.newton_denorm hU hH0r hShpos hSh2 hS0 hS2 hLr e1 e2 e3 hC hbig
  push_cast
  exact key

end F64

namespace TwoFloat

open F64

/-- `TwoFloat.sqrt` on an argument with positive high word runs the generic (Karp–Markstein) branch -/
theorem sqrt_eq_of_hi_pos (x : TwoFloat) (hf : x.hi.is_finite = true) (hpos : 0 < x.hi.toInt) :
    TwoFloat.sqrt x =
      TwoFloat.new_add (F64.mul x.hi (F64.recip (F64.sqrt x.hi)))
        (F64.mul (x -. TwoFloat.new_mul (F64.mul x.hi (F64.recip (F64.sqrt x.hi)))
            (F64.mul x.hi (F64.recip (F64.sqrt x.hi)))).hi
          (F64.mul (F64.recip (F64.sqrt x.hi)) (f64lit 0x3fe0000000000000))) := by
  have hlt : (x.hi <. f64lit 0) = false := by
    rw [rlt_eq, ← lt_eq_isLt, f64lit_zero, Bool.eq_false_iff]
    intro h
    have := (lt_iff_toInt hf rfl).1 h
    have e : (fin false 0).toInt = 0 := rfl
    rw [e] at this
    omega
  have heq : (x.hi ==. f64lit 0) = false := by
    rw [req_eq, f64lit_zero, Bool.eq_false_iff]
    intro h
    have := (eq_zero_iff hf).1 h
    omega
  rw [C13.sqrt_general x (by rw [hlt, heq]; rfl) (by rw [heq]; rfl)]

/-- **`TwoFloat.sqrt`, value level.**  For a valid, well-formed `x > 0` with high word in `[2^-900, 2^1000]` the result
is a valid well-formed pair whose value `R` (scaled by `2^1074`) satisfies `|R - √(x.V·2^1074)| ≤ 21·2^-106·√(x.V·2^1074)`,
i.e. (dividing by `2^1074`) the relative error against the exact real square root is at most `21 u²`. -/
theorem sqrt_val {x : TwoFloat} (hv : x.Valid) (hw : x.WF) (hpos : 0 < x.V)
    (hlo : 2 ^ 174 ≤ x.hi.toInt.natAbs) (hhi : x.hi.toInt.natAbs ≤ 2 ^ 2074) :
    (TwoFloat.sqrt x).Valid ∧ (TwoFloat.sqrt x).WF ∧
    2 ^ 106 * |(((TwoFloat.sqrt x).V : Int) : ℝ) - Real.sqrt ((x.V : ℝ) * (unit : ℝ))|
      ≤ 21 * Real.sqrt ((x.V : ℝ) * (unit : ℝ)) := by
  obtain ⟨H, hH0, hxhi⟩ := hi_pos_form hv hpos
  have hxt : x.hi.toInt = (H : Int) := by rw [hxhi]; rfl
  rw [hxt, Int.natAbs_natCast] at hlo hhi
  obtain ⟨r, X, Y, hr, hX, hY, hX1, -, hShl, hShu, e1, e2, e3⟩ := sqrt_xy hlo hhi
  have hpos' : 0 < x.hi.toInt := by rw [hxt]; exact_mod_cast hH0
  rw [sqrt_eq_of_hi_pos x hv.1 hpos', hxhi, hr]
  exact sqrt_tail hv hw hpos hxt hhi hX (div_WF _ _) hY (mul_WF _ _) hX1 hShl hShu e1 e2 e3

end TwoFloat

/-! ## 4. `hypot` -/

namespace SqrtReal

/-- `(x·x) + (y·y)` in double-word arithmetic: relative error `≤ 8.001 u²` of `W = xv² + yv²` -/
theorem sumsq_err {xv yv av bv sv U : ℝ} (hU : 0 < U)
    (ha : 2 ^ 159 * |av * U - xv ^ 2| ≤ (5 * 2 ^ 53 + 12) * xv ^ 2)
    (hb : 2 ^ 159 * |bv * U - yv ^ 2| ≤ (5 * 2 ^ 53 + 12) * yv ^ 2)
    (hs : 2 ^ 159 * |sv - (av + bv)| ≤ (3 * 2 ^ 53 + 13) * |av + bv|) :
    |sv * U - (xv ^ 2 + yv ^ 2)| ≤ 8.001 * (1 / 2 ^ 106) * (xv ^ 2 + yv ^ 2) ∧
    |av * U| ≤ 1.001 * xv ^ 2 ∧ |bv * U| ≤ 1.001 * yv ^ 2 := by
  have hx2 := sq_nonneg xv
  have hy2 := sq_nonneg yv
  have ha' : |av * U - xv ^ 2| ≤ ((5 * 2 ^ 53 + 12) / 2 ^ 159) * xv ^ 2 := by
    rw [div_mul_eq_mul_div, le_div_iff₀ (by positivity)]; linarith
  have hb' : |bv * U - yv ^ 2| ≤ ((5 * 2 ^ 53 + 12) / 2 ^ 159) * yv ^ 2 := by
    rw [div_mul_eq_mul_div, le_div_iff₀ (by positivity)]; linarith
  have hs' : |sv - (av + bv)| ≤ ((3 * 2 ^ 53 + 13) / 2 ^ 159) * |av + bv| := by
    rw [div_mul_eq_mul_div, le_div_iff₀ (by positivity)]; linarith
  obtain ⟨a1, a2⟩ := abs_le.1 ha'
  obtain ⟨b1, b2⟩ := abs_le.1 hb'
  have hab : |(av + bv) * U| ≤ (1 + (5 * 2 ^ 53 + 12) / 2 ^ 159) * (xv ^ 2 + yv ^ 2) := by
    rw [abs_le]; constructor <;> nlinarith
  have hsU : |(sv - (av + bv)) * U| ≤ ((3 * 2 ^ 53 + 13) / 2 ^ 159) * |(av + bv) * U| := by
    rw [abs_mul, abs_mul, abs_of_pos hU]
    calc |sv - (av + bv)| * U ≤ ((3 * 2 ^ 53 + 13) / 2 ^ 159) * |av + bv| * U :=
          mul_le_mul_of_nonneg_right hs' hU.le
      _ = _ := by ring
  obtain ⟨c1, c2⟩ := abs_le.1 (le_trans hsU (mul_le_mul_of_nonneg_left hab (by positivity)))
  refine ⟨?_, ?_, ?_⟩
  · rw [abs_le]; constructor <;> nlinarith
  · rw [abs_le]; constructor <;> nlinarith
  · rw [abs_le]; constructor <;> nlinarith

/-- the square root of a relatively perturbed radicand -/
theorem sqrt_perturb {A W ε : ℝ} (hW : 0 < W) (hε0 : 0 < ε) (hε : ε ≤ 1 / 2 ^ 20) (hA0 : 0 < A)
    (h : |A - W| ≤ ε * W) :
    |Real.sqrt A - Real.sqrt W| ≤ 0.5001 * ε * Real.sqrt W := by
  have hsW : 0 < Real.sqrt W := Real.sqrt_pos.2 hW
  have hsA : 0 < Real.sqrt A := Real.sqrt_pos.2 hA0
  have e : (Real.sqrt A / Real.sqrt W) ^ 2 - 1 = (A - W) / W := by
    rw [div_pow, Real.sq_sqrt hA0.le, Real.sq_sqrt hW.le]; field_simp
  have h1 : |(Real.sqrt A / Real.sqrt W) ^ 2 - 1| ≤ ε := by
    rw [e, abs_div, abs_of_pos hW, div_le_iff₀ hW]; exact h
  have h2 := sqrt_near_one hε0 hε (div_pos hsA hsW) h1
  have e2 : Real.sqrt A / Real.sqrt W - 1 = (Real.sqrt A - Real.sqrt W) / Real.sqrt W := by field_simp
  rw [e2, abs_div, abs_of_pos hsW, div_le_iff₀ hsW] at h2
  exact h2

/-- `hypot`: from the three double-word operations and the `21u²` square root to `26u²` -/
theorem hypot_real {xv yv av bv sv R U : ℝ} (hU : 0 < U) (hW : 0 < xv ^ 2 + yv ^ 2)
    (ha : 2 ^ 159 * |av * U - xv ^ 2| ≤ (5 * 2 ^ 53 + 12) * xv ^ 2)
    (hb : 2 ^ 159 * |bv * U - yv ^ 2| ≤ (5 * 2 ^ 53 + 12) * yv ^ 2)
    (hs : 2 ^ 159 * |sv - (av + bv)| ≤ (3 * 2 ^ 53 + 13) * |av + bv|)
    (hR : 2 ^ 106 * |R - Real.sqrt (sv * U)| ≤ 21 * Real.sqrt (sv * U)) :
    2 ^ 106 * |R - Real.sqrt (xv ^ 2 + yv ^ 2)| ≤ 26 * Real.sqrt (xv ^ 2 + yv ^ 2) := by
  obtain ⟨h1, -, -⟩ := sumsq_err hU ha hb hs
  obtain ⟨h1l, h1u⟩ := abs_le.1 h1
  have hA0 : 0 < sv * U := by nlinarith
  have hp := sqrt_perturb (ε := 8.001 * (1 / 2 ^ 106)) hW (by positivity) (by norm_num) hA0 h1
  obtain ⟨p1, p2⟩ := abs_le.1 hp
  have hsW : 0 < Real.sqrt (xv ^ 2 + yv ^ 2) := Real.sqrt_pos.2 hW
  generalize Real.sqrt (xv ^ 2 + yv ^ 2) = SW at *
  generalize Real.sqrt (sv * U) = SA at *
  have t : |R - SW| ≤ |R - SA| + |SA - SW| := by
    have := abs_add_le (R - SA) (SA - SW)
    rwa [sub_add_sub_cancel] at this
  have hSA : SA ≤ 1.001 * SW := by nlinarith
  have e : (2 : ℝ) ^ 106 * (0.5001 * (8.001 * (1 / 2 ^ 106)) * SW) = 0.5001 * 8.001 * SW := by
    field_simp
  nlinarith

end SqrtReal

namespace SqrtReal

/-- magnitudes in `hypot` -/
theorem hypot_ranges {xv yv av bv sv U P Q : ℝ} (hU : 0 < U) (hP : 0 < P) (hQ : 0 < Q)
    (hx1 : P * U ≤ xv ^ 2) (hx2 : xv ^ 2 ≤ Q * U) (hy1 : P * U ≤ yv ^ 2) (hy2 : yv ^ 2 ≤ Q * U)
    (h1 : |sv * U - (xv ^ 2 + yv ^ 2)| ≤ 8.001 * (1 / 2 ^ 106) * (xv ^ 2 + yv ^ 2))
    (h2 : |av * U| ≤ 1.001 * xv ^ 2) (h3 : |bv * U| ≤ 1.001 * yv ^ 2) :
    1.9 * P ≤ sv ∧ sv ≤ 2.1 * Q ∧ |av| ≤ 1.01 * Q ∧ |bv| ≤ 1.01 * Q := by
  obtain ⟨a1, a2⟩ := abs_le.1 h1
  have hPU : 0 < P * U := mul_pos hP hU
  have hQU : 0 < Q * U := mul_pos hQ hU
  have hn : (8.001 : ℝ) * (1 / 2 ^ 106) ≤ 0.001 := by norm_num
  refine ⟨?_, ?_, ?_, ?_⟩
  · apply le_of_mul_le_mul_right _ hU
    nlinarith
  · apply le_of_mul_le_mul_right _ hU
    nlinarith
  · apply le_of_mul_le_mul_right _ hU
    rw [abs_mul, abs_of_pos hU] at h2
    nlinarith
  · apply le_of_mul_le_mul_right _ hU
    rw [abs_mul, abs_of_pos hU] at h3
    nlinarith

/-- the square of the value of a valid pair against the range of its high word -/
theorem sq_range {h l T : ℝ} (hT : 0 < T) (hl : 2 ^ 53 * |l| ≤ |h|) :
    (T ≤ |h| → 0.98 * T ^ 2 ≤ (h + l) ^ 2) ∧ (|h| ≤ T → (h + l) ^ 2 ≤ 1.03 * T ^ 2) := by
  have hl0 := abs_nonneg l
  have t1 : |h| - |l| ≤ |h + l| := by
    have := abs_sub_abs_le_abs_sub h (-l)
    rwa [abs_neg, sub_neg_eq_add] at this
  have t2 : |h + l| ≤ |h| + |l| := abs_add_le h l
  have e : (h + l) ^ 2 = |h + l| ^ 2 := (sq_abs _).symm
  constructor
  · intro h1
    rw [e]
    have : 0.99 * T ≤ |h + l| := by linarith
    have := pow_le_pow_left₀ (by positivity) this 2
    nlinarith
  · intro h1
    rw [e]
    have : |h + l| ≤ 1.01 * T := by linarith
    have := pow_le_pow_left₀ (abs_nonneg _) this 2
    nlinarith

end SqrtReal

namespace TwoFloat

open F64

/-- the real value of a valid pair with high word in `[2^-450, 2^450]`: range of its square -/
theorem V_sq_range {x : TwoFloat} (hv : x.Valid)
    (hx : 2 ^ 624 ≤ x.hi.toInt.natAbs ∧ x.hi.toInt.natAbs ≤ 2 ^ 1524) :
    0.98 * 2 ^ 174 * (unit : ℝ) ≤ ((x.V : Int) : ℝ) ^ 2 ∧ ((x.V : Int) : ℝ) ^ 2 ≤ 1.03 * 2 ^ 1974 * (unit : ℝ) := by
  have hl : (2 : Int) ^ 53 * |x.lo.toInt| ≤ |x.hi.toInt| := two_pow_mul_abs_le_of_half_ulp hv.two_mul_abs_lo_le
  have hlr : (2 : ℝ) ^ 53 * |((x.lo.toInt : Int) : ℝ)| ≤ |((x.hi.toInt : Int) : ℝ)| := by exact_mod_cast hl
  have h1 : (2 : ℝ) ^ 624 ≤ |((x.hi.toInt : Int) : ℝ)| := by
    have : ((2 ^ 624 : Nat) : Int) ≤ |x.hi.toInt| := by rw [← Int.natCast_natAbs]; exact_mod_cast hx.1
    exact_mod_cast this
  have h2 : |((x.hi.toInt : Int) : ℝ)| ≤ (2 : ℝ) ^ 1524 := by
    have : |x.hi.toInt| ≤ ((2 ^ 1524 : Nat) : Int) := by rw [← Int.natCast_natAbs]; exact_mod_cast hx.2
    exact_mod_cast this
  have eV : ((x.V : Int) : ℝ) = ((x.hi.toInt : Int) : ℝ) + ((x.lo.toInt : Int) : ℝ) := by
    unfold TwoFloat.V; push_cast; ring
  rw [eV, unit_real]
  have e1 : (0.98 : ℝ) * 2 ^ 174 * 2 ^ 1074 = 0.98 * (2 ^ 624) ^ 2 := by rw [← pow_mul, mul_assoc, ← pow_add]
  have e2 : (1.03 : ℝ) * 2 ^ 1974 * 2 ^ 1074 = 1.03 * (2 ^ 1524) ^ 2 := by rw [← pow_mul, mul_assoc, ← pow_add]
  rw [e1, e2]
  exact ⟨(SqrtReal.sq_range (by positivity) hlr).1 h1, (SqrtReal.sq_range (by positivity) hlr).2 h2⟩

end TwoFloat

namespace TwoFloat

open F64

theorem repI_two_pow (k : Nat) : RepI ((2 : Int) ^ k) := by
  have : ((2 : Int) ^ k) = ((2 ^ k : Nat) : Int) := by push_cast; rfl
  rw [this]; exact repI_natCast.2 (rep_two_pow k)

/-- **`TwoFloat.hypot`, value level.**  For valid, well-formed `x`, `y` with high words of magnitude in
`[2^-450, 2^450]`: the result is a valid pair within relative `26 u²` of `√(x² + y²)`
(`5u² + 12u³` per square, `3u² + 13u³` for the sum, halved under the root, plus `21u²` for the root). -/
theorem hypot_val {x y : TwoFloat} (hvx : x.Valid) (hwx : x.WF) (hvy : y.Valid) (hwy : y.WF)
    (hx : 2 ^ 624 ≤ x.hi.toInt.natAbs ∧ x.hi.toInt.natAbs ≤ 2 ^ 1524)
    (hy : 2 ^ 624 ≤ y.hi.toInt.natAbs ∧ y.hi.toInt.natAbs ≤ 2 ^ 1524) :
    (TwoFloat.hypot x y).Valid ∧ (TwoFloat.hypot x y).WF ∧
    2 ^ 106 * |(((TwoFloat.hypot x y).V : Int) : ℝ) - Real.sqrt (((x.V : Int) : ℝ) ^ 2 + ((y.V : Int) : ℝ) ^ 2)|
      ≤ 26 * Real.sqrt (((x.V : Int) : ℝ) ^ 2 + ((y.V : Int) : ℝ) ^ 2) := by
  have hU : (0 : ℝ) < (unit : ℝ) := by exact_mod_cast unit_pos
  have hdef : TwoFloat.hypot x y = TwoFloat.sqrt (arithmetic.impl_Add_rTwoFloat_for_rTwoFloat.add
      (arithmetic.impl_Mul_rTwoFloat_for_rTwoFloat.mul x x) (arithmetic.impl_Mul_rTwoFloat_for_rTwoFloat.mul y y)) := rfl
  rw [hdef]
  obtain ⟨aV, aB⟩ := TwoFloat.mul_tt_bound_5u2_12u3_partial hvx hwx hvx hwx hx hx
  obtain ⟨bV, bB⟩ := TwoFloat.mul_tt_bound_5u2_12u3_partial hvy hwy hvy hwy hy hy
  have aW := TwoFloat.mul_tt_WF x x
  have bW := TwoFloat.mul_tt_WF y y
  generalize arithmetic.impl_Mul_rTwoFloat_for_rTwoFloat.mul x x = a at *
  generalize arithmetic.impl_Mul_rTwoFloat_for_rTwoFloat.mul y y = b at *
  have ha : (2 : ℝ) ^ 159 * |((a.V : Int) : ℝ) * (unit : ℝ) - ((x.V : Int) : ℝ) ^ 2|
      ≤ (5 * 2 ^ 53 + 12) * ((x.V : Int) : ℝ) ^ 2 := by
    have h : |((a.V : Int) : ℝ) * (unit : ℝ) - ((x.V : Int) : ℝ) * ((x.V : Int) : ℝ)| * 2 ^ 159
        ≤ (5 * 2 ^ 53 + 12) * |((x.V : Int) : ℝ) * ((x.V : Int) : ℝ)| := by exact_mod_cast aB
    rw [abs_mul_self, ← pow_two] at h
    linarith
  have hb : (2 : ℝ) ^ 159 * |((b.V : Int) : ℝ) * (unit : ℝ) - ((y.V : Int) : ℝ) ^ 2|
      ≤ (5 * 2 ^ 53 + 12) * ((y.V : Int) : ℝ) ^ 2 := by
    have h : |((b.V : Int) : ℝ) * (unit : ℝ) - ((y.V : Int) : ℝ) * ((y.V : Int) : ℝ)| * 2 ^ 159
        ≤ (5 * 2 ^ 53 + 12) * |((y.V : Int) : ℝ) * ((y.V : Int) : ℝ)| := by exact_mod_cast bB
    rw [abs_mul_self, ← pow_two] at h
    linarith
  obtain ⟨hx1, hx2⟩ := V_sq_range hvx hx
  obtain ⟨hy1, hy2⟩ := V_sq_range hvy hy
  -- high words of the squares
  have hP : (0 : ℝ) < 0.98 * 2 ^ 174 := by positivity
  have hQ : (0 : ℝ) < 1.03 * 2 ^ 1974 := by positivity
  have hab : ∀ sv : ℝ, (2 : ℝ) ^ 159 * |sv - (((a.V : Int) : ℝ) + ((b.V : Int) : ℝ))|
      ≤ (3 * 2 ^ 53 + 13) * |((a.V : Int) : ℝ) + ((b.V : Int) : ℝ)| →
      1.9 * (0.98 * 2 ^ 174) ≤ sv ∧ sv ≤ 2.1 * (1.03 * 2 ^ 1974) ∧
        |((a.V : Int) : ℝ)| ≤ 1.01 * (1.03 * 2 ^ 1974) ∧ |((b.V : Int) : ℝ)| ≤ 1.01 * (1.03 * 2 ^ 1974) := by
    intro sv hs
    obtain ⟨k1, k2, k3⟩ := SqrtReal.sumsq_err hU ha hb hs
    exact SqrtReal.hypot_ranges hU hP hQ hx1 hx2 hy1 hy2 k1 k2 k3
  have habs : |((a.V : Int) : ℝ)| ≤ 2 ^ 1975 ∧ |((b.V : Int) : ℝ)| ≤ 2 ^ 1975 := by
    obtain ⟨-, -, k3, k4⟩ := hab (((a.V : Int) : ℝ) + ((b.V : Int) : ℝ)) (by
      rw [sub_self, abs_zero, mul_zero]; positivity)
    have e : (2 : ℝ) ^ 1975 = 2 * 2 ^ 1974 := by rw [show (1975 : ℕ) = 1974 + 1 by norm_num, pow_succ]; ring
    have hp : (0 : ℝ) < 2 ^ 1974 := by positivity
    rw [e]
    generalize (2 : ℝ) ^ 1974 = T at *
    constructor <;> linarith
  have hhi : ∀ t : TwoFloat, t.Valid → |((t.V : Int) : ℝ)| ≤ 2 ^ 1975 → t.hi.toInt.natAbs < 2 ^ 2094 := by
    intro t tV ht
    have h1 : |t.V| ≤ |(2 : Int) ^ 1975| := by
      rw [abs_of_pos (by positivity : (0 : Int) < 2 ^ 1975)]
      exact_mod_cast ht
    have h2 := abs_rnI_le (repI_two_pow 1975) h1
    rw [← tV.hi_toInt, abs_of_pos (by positivity : (0 : Int) < 2 ^ 1975)] at h2
    have h3 : t.hi.toInt.natAbs ≤ 2 ^ 1975 := natAbs_le_of_abs_le (by exact_mod_cast h2)
    exact lt_of_le_of_lt h3 (Nat.pow_lt_pow_right (by norm_num) (by norm_num))
  obtain ⟨sV, sB⟩ := TwoFloat.add_tt_bound aV aW bV bW (hhi a aV habs.1) (hhi b bV habs.2)
  have sW := TwoFloat.add_tt_WF a b
  generalize arithmetic.impl_Add_rTwoFloat_for_rTwoFloat.add a b = s at *
  have hs : (2 : ℝ) ^ 159 * |((s.V : Int) : ℝ) - (((a.V : Int) : ℝ) + ((b.V : Int) : ℝ))|
      ≤ (3 * 2 ^ 53 + 13) * |((a.V : Int) : ℝ) + ((b.V : Int) : ℝ)| := by
    have h : |((s.V : Int) : ℝ) - (((a.V : Int) : ℝ) + ((b.V : Int) : ℝ))| * 2 ^ 159
        ≤ (3 * 2 ^ 53 + 13) * |((a.V : Int) : ℝ) + ((b.V : Int) : ℝ)| := by exact_mod_cast sB
    linarith
  obtain ⟨r1, r2, -, -⟩ := hab _ hs
  have hs1 : (2 : Int) ^ 174 ≤ s.V := by
    have : (2 : ℝ) ^ 174 ≤ ((s.V : Int) : ℝ) := by
      have hp : (0 : ℝ) < 2 ^ 174 := by positivity
      generalize (2 : ℝ) ^ 174 = T at *
      linarith
    exact_mod_cast this
  have hs2 : s.V ≤ (2 : Int) ^ 1976 := by
    have : ((s.V : Int) : ℝ) ≤ (2 : ℝ) ^ 1976 := by
      have e : (2 : ℝ) ^ 1976 = 4 * 2 ^ 1974 := by rw [show (1976 : ℕ) = 1974 + 2 by norm_num, pow_add]; ring
      have hp : (0 : ℝ) < 2 ^ 1974 := by positivity
      rw [e]
      generalize (2 : ℝ) ^ 1974 = T at *
      linarith
    exact_mod_cast this
  have hspos : 0 < s.V := lt_of_lt_of_le (by positivity) hs1
  have hsh1 : (2 : Int) ^ 174 ≤ s.hi.toInt := by
    rw [sV.hi_toInt, ← rnI_of_repI (repI_two_pow 174)]; exact rnI_mono hs1
  have hsh2 : s.hi.toInt ≤ (2 : Int) ^ 1976 := by
    rw [sV.hi_toInt, ← rnI_of_repI (repI_two_pow 1976)]; exact rnI_mono hs2
  have hn1 : 2 ^ 174 ≤ s.hi.toInt.natAbs := by
    have : ((2 ^ 174 : Nat) : Int) ≤ ((s.hi.toInt.natAbs : Nat) : Int) := by
      rw [Int.natCast_natAbs, abs_of_nonneg (le_trans (by positivity) hsh1)]; exact_mod_cast hsh1
    exact_mod_cast this
  have hn2 : s.hi.toInt.natAbs ≤ 2 ^ 2074 := by
    have : ((s.hi.toInt.natAbs : Nat) : Int) ≤ ((2 ^ 1976 : Nat) : Int) := by
      rw [Int.natCast_natAbs, abs_of_nonneg (le_trans (by positivity) hsh1)]; exact_mod_cast hsh2
    have h : s.hi.toInt.natAbs ≤ 2 ^ 1976 := by exact_mod_cast this
    exact le_trans h (Nat.pow_le_pow_right (by norm_num) (by norm_num))
  obtain ⟨RV, RW, RB⟩ := sqrt_val sV sW hspos hn1 hn2
  refine ⟨RV, RW, ?_⟩
  have hW : (0 : ℝ) < ((x.V : Int) : ℝ) ^ 2 + ((y.V : Int) : ℝ) ^ 2 := by
    have : (0 : ℝ) < 0.98 * 2 ^ 174 * (unit : ℝ) := by positivity
    have := sq_nonneg ((y.V : Int) : ℝ)
    linarith
  exact SqrtReal.hypot_real hU hW ha hb hs RB

end TwoFloat
