/-
Lemmas.NoOverlap — `base.no_overlap a b` holds exactly when `a` is finite and `a ⊕ b == a` (property C07).

Two halves through an explicit arithmetic specification:
  (A) bit level:   `base.no_overlap (±q·2^s) (±nb)`  ↔  `nb` is within the limit computed from the exponent field
  (B) rounding:    `rn53 (q·2^s ± nb) = q·2^s`       ↔  the same condition
-/
import TFV.Lemmas.Bits

set_option exponentiation.threshold 4096

namespace F64.NoOverlap
open F64 F64.Bits

/-! ## small evaluation lemmas -/

theorem f64lit_zero : f64lit 0 = fin false 0 := by decide +kernel
theorem f64lit_one : f64lit 0x3ff0000000000000 = fin false (2 ^ 1074) := by decide +kernel

theorem classify_normal (sg : Bool) {n : Nat} (h : 2 ^ 52 ≤ n) : F64.classify (fin sg n) = .Normal := by
  show (if n = 0 then FpCategory.Zero else if n < 2 ^ 52 then .Subnormal else .Normal) = _
  rw [if_neg (by omega), if_neg (by omega)]

theorem toInt_eq_zero_iff (sg : Bool) (n : Nat) : (fin sg n).toInt = 0 ↔ n = 0 := by
  cases sg <;> simp [toInt]

/-- `b == 0.0` -/
theorem eq_zero_fin (sb : Bool) (nb : Nat) : ((fin sb nb) ==. (f64lit 0)) = decide (nb = 0) := by
  rw [f64lit_zero]
  show ((some (if (fin sb nb).toInt < (fin false 0).toInt then ROrdering.Less
        else if (fin sb nb).toInt = (fin false 0).toInt then .Equal else .Greater)) == some .Equal) = _
  have h0 : (fin false 0).toInt = 0 := rfl
  rw [h0]
  by_cases h : nb = 0
  · subst h; cases sb <;> simp [toInt]
  · have hne : (fin sb nb).toInt ≠ 0 := fun hh => h ((toInt_eq_zero_iff sb nb).1 hh)
    simp only [h, decide_false]
    by_cases hl : (fin sb nb).toInt < 0
    · rw [if_pos hl]; rfl
    · rw [if_neg hl, if_neg hne]; rfl

theorem eq_zero_nan : (F64.nan ==. (f64lit 0)) = false := by rw [f64lit_zero]; rfl
theorem eq_zero_inf (t : Bool) : ((F64.inf t) ==. (f64lit 0)) = false := by
  rw [f64lit_zero]; cases t <;> rfl

/-- `1.0.copysign(a) != 1.0.copysign(b)` compares the signs -/
theorem copysign_ne (sa : Bool) (na : Nat) (b : F64) :
    ((F64.copysign (f64lit 0x3ff0000000000000) (fin sa na)) !=.
      (F64.copysign (f64lit 0x3ff0000000000000) b)) = (sa != b.is_sign_negative) := by
  rw [f64lit_one]
  show ((fin sa (2 ^ 1074)) !=. (fin b.is_sign_negative (2 ^ 1074))) = _
  generalize b.is_sign_negative = sb
  cases sa <;> cases sb <;> decide +kernel

theorem partial_cmp_abs_fin (sb : Bool) (nb l : Nat) :
    RPartialOrd.partial_cmp (F64.abs (fin sb nb)) (fin false l)
      = some (if nb < l then ROrdering.Less else if nb = l then .Equal else .Greater) := by
  show some (if ((nb : Nat) : Int) < ((l : Nat) : Int) then ROrdering.Less
      else if ((nb : Nat) : Int) = ((l : Nat) : Int) then .Equal else .Greater) = _
  simp only [Nat.cast_lt, Nat.cast_inj]

/-! ## (A) the bit-level half -/

/-- the limit the crate computes, in scaled units: `2^(s-1)`, or `2^(s-2)` below a power of two; `0` when
`exp2` underflows -/
def lim (q s : Nat) (opp : Bool) : Nat :=
  if (decide (q = 2 ^ 52) && opp) = true then (if 2 ≤ s then 2 ^ (s - 2) else 0)
  else (if 1 ≤ s then 2 ^ (s - 1) else 0)

/-- the arithmetic specification of `no_overlap` on a normal `a = ±q·2^s` and finite `b = ±nb` -/
def Spec (q s nb : Nat) (opp : Bool) : Prop :=
  nb = 0 ∨ nb < lim q s opp ∨ (nb = lim q s opp ∧ q % 2 = 0)

theorem normal_ge {q s : Nat} (hq : 2 ^ 52 ≤ q) : 2 ^ 52 ≤ q * 2 ^ s := by
  have := Nat.mul_le_mul hq (two_pow_pos s)
  omega

/-- `no_overlap` on a normal first argument, with the bit manipulations evaluated -/
theorem no_overlap_normal_eval (sa : Bool) (b : F64) {q s : Nat} (hq : 2 ^ 52 ≤ q) (hq' : q < 2 ^ 53)
    (hs : s ≤ 2045) :
    base.no_overlap (fin sa (q * 2 ^ s)) b =
      if (b ==. (f64lit 0)) = true then true
      else match RPartialOrd.partial_cmp (F64.abs b) (fin false (lim q s (sa != b.is_sign_negative))) with
        | some .Less => true
        | some .Equal => decide (q % 2 = 0)
        | _ => false := by
  unfold base.no_overlap
  rw [classify_normal sa (normal_ge hq)]
  simp only [biased_exponent_normal sa hq hq' hs, mantissa_zero_normal sa hq hq' hs,
    low_bit_normal sa hq hq' hs, copysign_ne]
  have hlim : F64.exp2 (RCast.cast ((⟨((s + 1 : Nat) : Int)⟩ : I16) -.
      (if (decide (q = 2 ^ 52) && (sa != b.is_sign_negative)) = true then (1077 : I16) else (1076 : I16))) : F64)
      = fin false (lim q s (sa != b.is_sign_negative)) := by
    unfold lim
    by_cases hc : (decide (q = 2 ^ 52) && (sa != b.is_sign_negative)) = true
    · rw [if_pos hc, if_pos hc]
      exact limit_eq s 2 hs (by omega) _ rfl
    · rw [if_neg hc, if_neg hc]
      exact limit_eq s 1 hs (by omega) _ rfl
  rw [hlim]
  rfl

theorem no_overlap_normal_fin (sa sb : Bool) {q s nb : Nat} (hq : 2 ^ 52 ≤ q) (hq' : q < 2 ^ 53)
    (hs : s ≤ 2045) :
    base.no_overlap (fin sa (q * 2 ^ s)) (fin sb nb) = true ↔ Spec q s nb (sa != sb) := by
  rw [no_overlap_normal_eval sa _ hq hq' hs, eq_zero_fin]
  show (if decide (nb = 0) = true then true
      else match RPartialOrd.partial_cmp (F64.abs (fin sb nb)) (fin false (lim q s (sa != sb))) with
        | some .Less => true
        | some .Equal => decide (q % 2 = 0)
        | _ => false) = true ↔ _
  unfold Spec
  rw [partial_cmp_abs_fin]
  by_cases hnb : nb = 0
  · simp [hnb]
  · simp only [hnb, decide_false, Bool.false_eq_true, if_false, false_or]
    by_cases h1 : nb < lim q s (sa != sb)
    · simp [h1]
    · by_cases h2 : nb = lim q s (sa != sb)
      · simp [h2]
      · simp [h1, h2]

theorem no_overlap_normal_nan (sa : Bool) {q s : Nat} (hq : 2 ^ 52 ≤ q) (hq' : q < 2 ^ 53)
    (hs : s ≤ 2045) : base.no_overlap (fin sa (q * 2 ^ s)) nan = false := by
  rw [no_overlap_normal_eval sa _ hq hq' hs, eq_zero_nan]
  rfl

theorem no_overlap_normal_inf (sa t : Bool) {q s : Nat} (hq : 2 ^ 52 ≤ q) (hq' : q < 2 ^ 53)
    (hs : s ≤ 2045) : base.no_overlap (fin sa (q * 2 ^ s)) (inf t) = false := by
  rw [no_overlap_normal_eval sa _ hq hq' hs, eq_zero_inf]
  rfl

/-- zero or subnormal first argument -/
theorem no_overlap_small (sa : Bool) {na : Nat} (h : na < 2 ^ 52) (b : F64) :
    base.no_overlap (fin sa na) b = (b ==. (f64lit 0)) := by
  unfold base.no_overlap
  have hc : F64.classify (fin sa na) = (if na = 0 then FpCategory.Zero else .Subnormal) := by
    show (if na = 0 then FpCategory.Zero else if na < 2 ^ 52 then .Subnormal else .Normal) = _
    rw [if_pos h]
  rw [hc]
  by_cases h0 : na = 0
  · rw [if_pos h0]
  · rw [if_neg h0]

theorem no_overlap_nan (b : F64) : base.no_overlap nan b = false := rfl
theorem no_overlap_inf (t : Bool) (b : F64) : base.no_overlap (inf t) b = false := rfl

/-! ## `F64.add` and `F64.eq` on finite operands, by sign case -/

theorem add_fin_same (s : Bool) (a b : Nat) (h : a + b ≠ 0) :
    F64.add (fin s a) (fin s b) = pack s (rn53 (a + b)) := by
  show roundSigned ((fin s a).toInt + (fin s b).toInt) 1 (s && s) = _
  unfold roundSigned
  cases s
  · have h1 : (fin false a).toInt + (fin false b).toInt = ((a + b : Nat) : Int) := by
      simp [toInt]
    rw [h1, if_neg (by exact_mod_cast h), Int.natAbs_natCast]
    have : decide (((a + b : Nat) : Int) < 0) = false := by
      apply decide_eq_false; omega
    rw [this]; rfl
  · have h1 : (fin true a).toInt + (fin true b).toInt = -((a + b : Nat) : Int) := by
      simp [toInt]; omega
    rw [h1, if_neg (by omega), Int.natAbs_neg, Int.natAbs_natCast]
    have : decide (-((a + b : Nat) : Int) < 0) = true := by
      apply decide_eq_true; omega
    rw [this]; rfl

theorem add_fin_zero_zero (s t : Bool) : F64.add (fin s 0) (fin t 0) = fin (s && t) 0 := by
  cases s <;> cases t <;> rfl

theorem add_fin_opp_gt (s t : Bool) (hst : s ≠ t) {a b : Nat} (h : b < a) :
    F64.add (fin s a) (fin t b) = pack s (rn53 (a - b)) := by
  show roundSigned ((fin s a).toInt + (fin t b).toInt) 1 (s && t) = _
  unfold roundSigned
  cases s <;> cases t <;> try (exact absurd rfl hst)
  · have h1 : (fin false a).toInt + (fin true b).toInt = ((a - b : Nat) : Int) := by
      simp [toInt]; omega
    rw [h1, if_neg (by omega), Int.natAbs_natCast]
    have : decide (((a - b : Nat) : Int) < 0) = false := by
      apply decide_eq_false; omega
    rw [this]; rfl
  · have h1 : (fin true a).toInt + (fin false b).toInt = -((a - b : Nat) : Int) := by
      simp [toInt]; omega
    rw [h1, if_neg (by omega), Int.natAbs_neg, Int.natAbs_natCast]
    have : decide (-((a - b : Nat) : Int) < 0) = true := by
      apply decide_eq_true; omega
    rw [this]; rfl

theorem add_fin_opp_lt (s t : Bool) (hst : s ≠ t) {a b : Nat} (h : a < b) :
    F64.add (fin s a) (fin t b) = pack t (rn53 (b - a)) := by
  show roundSigned ((fin s a).toInt + (fin t b).toInt) 1 (s && t) = _
  unfold roundSigned
  cases s <;> cases t <;> try (exact absurd rfl hst)
  · have h1 : (fin false a).toInt + (fin true b).toInt = -((b - a : Nat) : Int) := by
      simp [toInt]; omega
    rw [h1, if_neg (by omega), Int.natAbs_neg, Int.natAbs_natCast]
    have : decide (-((b - a : Nat) : Int) < 0) = true := by
      apply decide_eq_true; omega
    rw [this]; rfl
  · have h1 : (fin true a).toInt + (fin false b).toInt = ((b - a : Nat) : Int) := by
      simp [toInt]; omega
    rw [h1, if_neg (by omega), Int.natAbs_natCast]
    have : decide (((b - a : Nat) : Int) < 0) = false := by
      apply decide_eq_false; omega
    rw [this]; rfl

theorem add_fin_opp_eq (s t : Bool) (hst : s ≠ t) (a : Nat) :
    F64.add (fin s a) (fin t a) = fin false 0 := by
  show roundSigned ((fin s a).toInt + (fin t a).toInt) 1 (s && t) = _
  unfold roundSigned
  cases s <;> cases t <;> try (exact absurd rfl hst)
  · have h1 : (fin false a).toInt + (fin true a).toInt = 0 := by simp [toInt]
    rw [h1, if_pos rfl]; rfl
  · have h1 : (fin true a).toInt + (fin false a).toInt = 0 := by simp [toInt]
    rw [h1, if_pos rfl]; rfl

theorem eq_fin_fin (s t : Bool) (m n : Nat) :
    F64.eq (fin s m) (fin t n) = decide ((fin s m).toInt = (fin t n).toInt) := by
  show ((some (if (fin s m).toInt < (fin t n).toInt then ROrdering.Less
        else if (fin s m).toInt = (fin t n).toInt then .Equal else .Greater)) == some .Equal) = _
  by_cases h1 : (fin s m).toInt < (fin t n).toInt
  · rw [if_pos h1, decide_eq_false (by omega)]; rfl
  · by_cases h2 : (fin s m).toInt = (fin t n).toInt
    · rw [if_neg h1, if_pos h2, decide_eq_true h2]; rfl
    · rw [if_neg h1, if_neg h2, decide_eq_false h2]; rfl

theorem eq_inf_fin (s t : Bool) (n : Nat) : F64.eq (inf s) (fin t n) = false := by
  cases s <;> rfl

/-- comparing a packed result of the same sign with a finite value -/
theorem eq_pack_same (s : Bool) (m n : Nat) (hn : n ≤ maxFin) :
    F64.eq (pack s m) (fin s n) = decide (m = n) := by
  unfold pack
  by_cases h : m > maxFin
  · rw [if_pos h, eq_inf_fin, decide_eq_false (by omega)]
  · rw [if_neg h, eq_fin_fin]
    apply decide_eq_decide.2
    cases s <;> simp [toInt]

/-- a packed result of the opposite sign never equals a nonzero finite value -/
theorem eq_pack_opp (s t : Bool) (hst : s ≠ t) (m n : Nat) (hn : 0 < n) :
    F64.eq (pack t m) (fin s n) = false := by
  unfold pack
  by_cases h : m > maxFin
  · rw [if_pos h, eq_inf_fin]
  · rw [if_neg h, eq_fin_fin]
    apply decide_eq_false
    cases s <;> cases t <;> try (exact absurd rfl hst)
    · simp [toInt]; omega
    · simp [toInt]; omega

/-! ## (B) the rounding half on naturals -/

theorem pow_succ2 (t : Nat) : 2 ^ (t + 1) = 2 * 2 ^ t := by
  rw [Nat.pow_succ, Nat.mul_comm]

theorem lim_zero (q : Nat) (opp : Bool) : lim q 0 opp = 0 := by
  unfold lim; split_ifs <;> first | rfl | omega

theorem lim_succ_of_ne {q : Nat} (t : Nat) (opp : Bool) (h : (decide (q = 2 ^ 52) && opp) = false) :
    lim q (t + 1) opp = 2 ^ t := by
  unfold lim
  rw [h]
  simp

theorem lim_pow_one : lim (2 ^ 52) 1 true = 0 := by
  unfold lim; simp

theorem lim_pow_succ2 (u : Nat) : lim (2 ^ 52) (u + 2) true = 2 ^ u := by
  unfold lim; simp

/-- same-sign case: `RN(q·2^s + nb) = q·2^s` iff `nb` is within the upper half cell -/
theorem rn53_add_iff {q s nb : Nat} (hq : 2 ^ 52 ≤ q) (hq' : q < 2 ^ 53) :
    rn53 (q * 2 ^ s + nb) = q * 2 ^ s ↔ Spec q s nb false := by
  have hP := two_pow_pos s
  unfold Spec
  by_cases hlt : nb < 2 ^ s
  · rw [rn53_binade_eq_lo_iff hq hq' hlt]
    cases s with
    | zero =>
      rw [lim_zero]
      simp only [Nat.pow_zero] at hlt ⊢
      omega
    | succ t =>
      rw [lim_succ_of_ne t false (by simp)]
      rw [pow_succ2 t] at hlt ⊢
      generalize 2 ^ t = H at *
      omega
  · have hge : (q + 1) * 2 ^ s ≤ q * 2 ^ s + nb := by rw [Nat.add_mul]; omega
    have h1 := rn53_ge (s := s) (q := q + 1) (by omega) (by omega) hge
    rw [Nat.add_mul] at h1
    have hL : ¬ rn53 (q * 2 ^ s + nb) = q * 2 ^ s := by omega
    have hR : ¬ (nb = 0 ∨ nb < lim q s false ∨ nb = lim q s false ∧ q % 2 = 0) := by
      cases s with
      | zero => rw [lim_zero]; omega
      | succ t =>
        rw [lim_succ_of_ne t false (by simp)]
        rw [pow_succ2 t] at hlt
        have := two_pow_pos t
        generalize 2 ^ t = H at *
        omega
    exact ⟨fun h => absurd h hL, fun h => absurd h hR⟩

/-- opposite-sign case: `RN(q·2^s - nb) = q·2^s` iff `nb` is within the lower half cell, which is half
as wide below a power of two -/
theorem rn53_sub_iff {q s nb : Nat} (hq : 2 ^ 52 ≤ q) (hq' : q < 2 ^ 53) (hlt : nb < q * 2 ^ s) :
    rn53 (q * 2 ^ s - nb) = q * 2 ^ s ↔ Spec q s nb true := by
  have hP := two_pow_pos s
  unfold Spec
  by_cases hnb : nb = 0
  · subst hnb
    simp only [Nat.sub_zero, true_or, iff_true]
    exact rn53_mul_two_pow hq'
  by_cases hq52 : q = 2 ^ 52
  · subst hq52
    cases s with
    | zero =>
      rw [lim_zero]
      simp only [Nat.pow_zero, Nat.mul_one] at hlt ⊢
      have : rn53 (2 ^ 52 - nb) = 2 ^ 52 - nb := by
        have := rn53_mul_two_pow (m := 2 ^ 52 - nb) (t := 0) (by omega)
        simpa using this
      rw [this]; omega
    | succ t =>
      have hH := two_pow_pos t
      have e1 : 2 ^ 52 * 2 ^ (t + 1) = (2 ^ 53 - 1 + 1) * 2 ^ t := by
        rw [pow_succ2 t]; generalize 2 ^ t = H; omega
      by_cases hge : 2 ^ t ≤ nb
      · have hx : 2 ^ 52 * 2 ^ (t + 1) - nb ≤ (2 ^ 53 - 1) * 2 ^ t := by
          rw [e1, Nat.add_mul]; omega
        have h1 := rn53_le (by omega) hx
        have hL : ¬ rn53 (2 ^ 52 * 2 ^ (t + 1) - nb) = 2 ^ 52 * 2 ^ (t + 1) := by
          rw [e1, Nat.add_mul] at *; omega
        have hR : ¬ (nb = 0 ∨ nb < lim (2 ^ 52) (t + 1) true ∨
            nb = lim (2 ^ 52) (t + 1) true ∧ 2 ^ 52 % 2 = 0) := by
          cases t with
          | zero => rw [lim_pow_one]; omega
          | succ u =>
            rw [lim_pow_succ2]
            rw [pow_succ2 u] at hge
            have := two_pow_pos u
            generalize 2 ^ u = K at *
            omega
        exact ⟨fun h => absurd h hL, fun h => absurd h hR⟩
      · have hr : 2 ^ t - nb < 2 ^ t := by omega
        have e2 : 2 ^ 52 * 2 ^ (t + 1) - nb = (2 ^ 53 - 1) * 2 ^ t + (2 ^ t - nb) := by
          rw [e1, Nat.add_mul]; omega
        rw [e2, e1, rn53_binade_eq_hi_iff (by decide) (by decide) hr]
        cases t with
        | zero => simp only [Nat.pow_zero] at hge; omega
        | succ u =>
          rw [lim_pow_succ2]
          rw [pow_succ2 u] at hge ⊢
          have := two_pow_pos u
          generalize 2 ^ u = K at *
          omega
  · have hqne : (decide (q = 2 ^ 52) && true) = false := by
      rw [decide_eq_false hq52]; rfl
    by_cases hge : 2 ^ s ≤ nb
    · have e1 : q * 2 ^ s = (q - 1) * 2 ^ s + 2 ^ s := by
        rw [← Nat.succ_mul]; congr 1; omega
      have hx : q * 2 ^ s - nb ≤ (q - 1) * 2 ^ s := by omega
      have h1 := rn53_le (by omega) hx
      have hL : ¬ rn53 (q * 2 ^ s - nb) = q * 2 ^ s := by omega
      have hR : ¬ (nb = 0 ∨ nb < lim q s true ∨ nb = lim q s true ∧ q % 2 = 0) := by
        cases s with
        | zero => rw [lim_zero]; omega
        | succ t =>
          rw [lim_succ_of_ne t true hqne]
          rw [pow_succ2 t] at hge
          have := two_pow_pos t
          generalize 2 ^ t = H at *
          omega
      exact ⟨fun h => absurd h hL, fun h => absurd h hR⟩
    · have hr : 2 ^ s - nb < 2 ^ s := by omega
      have e1 : q * 2 ^ s = (q - 1 + 1) * 2 ^ s := by congr 1; omega
      have e2 : q * 2 ^ s - nb = (q - 1) * 2 ^ s + (2 ^ s - nb) := by
        rw [e1, Nat.add_mul]; omega
      rw [e2, e1, rn53_binade_eq_hi_iff (by omega) (by omega) hr]
      cases s with
      | zero => simp only [Nat.pow_zero] at hge; omega
      | succ t =>
        rw [lim_succ_of_ne t true hqne]
        rw [pow_succ2 t] at hge ⊢
        have := two_pow_pos t
        generalize 2 ^ t = H at *
        omega

/-! ## `addEq` on finite operands -/

theorem normal_le_maxFin {q s : Nat} (hq' : q < 2 ^ 53) (hs : s ≤ 2045) : q * 2 ^ s ≤ maxFin := by
  unfold maxFin
  exact Nat.mul_le_mul (by omega) (Nat.pow_le_pow_right (by decide) hs)

theorem lim_lt (q s : Nat) (opp : Bool) : lim q s opp < 2 ^ s := by
  have hP := two_pow_pos s
  unfold lim
  split_ifs
  · exact Nat.pow_lt_pow_right (by decide) (by omega)
  · exact hP
  · exact Nat.pow_lt_pow_right (by decide) (by omega)
  · exact hP

theorem rn53_small {x : Nat} (h : x < 2 ^ 53) : rn53 x = x := by
  have := rn53_mul_two_pow (m := x) (t := 0) h
  simpa using this

theorem rn53_pos {x : Nat} (h : 0 < x) : 0 < rn53 x := by
  by_cases hs : x < 2 ^ 53
  · rw [rn53_small hs]; exact h
  · have := rn53_ge (q := 2 ^ 52) (s := 0) (x := x) (by omega) (by omega) (by omega)
    omega

theorem eq_pack_zero (t s : Bool) {m : Nat} (hm : 0 < m) : F64.eq (pack t m) (fin s 0) = false := by
  unfold pack
  by_cases h : m > maxFin
  · rw [if_pos h, eq_inf_fin]
  · rw [if_neg h, eq_fin_fin]
    apply decide_eq_false
    cases s <;> cases t <;> simp [toInt] <;> omega

/-- (B) for a normal `a = ±q·2^s` and a finite `b = ±nb` -/
theorem addEq_normal_fin (sa sb : Bool) {q s nb : Nat} (hq : 2 ^ 52 ≤ q) (hq' : q < 2 ^ 53)
    (hs : s ≤ 2045) :
    F64.addEq (fin sa (q * 2 ^ s)) (fin sb nb) = true ↔ Spec q s nb (sa != sb) := by
  have hmax := normal_le_maxFin hq' hs
  have hn := normal_ge (s := s) hq
  have hP := two_pow_pos s
  have hPn : 2 ^ s ≤ q * 2 ^ s := Nat.le_mul_of_pos_left _ (by omega)
  unfold F64.addEq
  by_cases hss : sa = sb
  · subst hss
    rw [add_fin_same sa _ _ (by omega), eq_pack_same _ _ _ hmax, decide_eq_true_eq]
    have : (sa != sa) = false := by cases sa <;> rfl
    rw [this]
    exact rn53_add_iff hq hq'
  · have hopp : (sa != sb) = true := by cases sa <;> cases sb <;> first | rfl | exact absurd rfl hss
    rw [hopp]
    rcases Nat.lt_trichotomy nb (q * 2 ^ s) with hlt | heq | hgt
    · rw [add_fin_opp_gt sa sb hss hlt, eq_pack_same _ _ _ hmax, decide_eq_true_eq]
      exact rn53_sub_iff hq hq' hlt
    · have hL : F64.eq (F64.add (fin sa (q * 2 ^ s)) (fin sb nb)) (fin sa (q * 2 ^ s)) = false := by
        rw [heq, add_fin_opp_eq sa sb hss, eq_fin_fin]
        apply decide_eq_false
        cases sa <;> simp [toInt] <;> omega
      have hR : ¬ Spec q s nb true := by
        have := lim_lt q s true
        unfold Spec; omega
      rw [hL]
      exact ⟨fun h => absurd h (by decide), fun h => absurd h hR⟩
    · have hL : F64.eq (F64.add (fin sa (q * 2 ^ s)) (fin sb nb)) (fin sa (q * 2 ^ s)) = false := by
        rw [add_fin_opp_lt sa sb hss hgt]
        exact eq_pack_opp sa sb hss _ _ (by omega)
      have hR : ¬ Spec q s nb true := by
        have := lim_lt q s true
        unfold Spec; omega
      rw [hL]
      exact ⟨fun h => absurd h (by decide), fun h => absurd h hR⟩

/-- zero or subnormal `a`: the sum is exact (or larger than any subnormal), so `a ⊕ b == a` forces `b = ±0` -/
theorem addEq_small_fin (sa sb : Bool) {na nb : Nat} (h : na < 2 ^ 52) (hmax : na ≤ maxFin) :
    F64.addEq (fin sa na) (fin sb nb) = true ↔ nb = 0 := by
  unfold F64.addEq
  by_cases hnb : nb = 0
  · subst hnb
    simp only [iff_true]
    by_cases hna : na = 0
    · subst hna
      rw [add_fin_zero_zero, eq_fin_fin]
      apply decide_eq_true
      cases sa <;> cases sb <;> rfl
    · by_cases hss : sa = sb
      · subst hss
        rw [add_fin_same sa _ _ (by omega), eq_pack_same _ _ _ hmax, decide_eq_true_eq]
        exact rn53_small (by omega)
      · rw [add_fin_opp_gt sa sb hss (by omega), eq_pack_same _ _ _ hmax, decide_eq_true_eq]
        exact rn53_small (by omega)
  · have hL : F64.eq (F64.add (fin sa na) (fin sb nb)) (fin sa na) = false := by
      by_cases hss : sa = sb
      · subst hss
        rw [add_fin_same sa _ _ (by omega), eq_pack_same _ _ _ hmax]
        apply decide_eq_false
        by_cases hsm : na + nb < 2 ^ 53
        · rw [rn53_small hsm]; omega
        · have := rn53_ge (q := 2 ^ 53) (s := 0) (x := na + nb) (by omega) (by omega) (by omega)
          omega
      · rcases Nat.lt_trichotomy nb na with hlt | heq | hgt
        · rw [add_fin_opp_gt sa sb hss hlt, eq_pack_same _ _ _ hmax]
          apply decide_eq_false
          rw [rn53_small (by omega)]; omega
        · rw [heq, add_fin_opp_eq sa sb hss, eq_fin_fin]
          apply decide_eq_false
          cases sa <;> simp [toInt] <;> omega
        · rw [add_fin_opp_lt sa sb hss hgt]
          by_cases hna : na = 0
          · subst hna
            exact eq_pack_zero _ _ (rn53_pos (by omega))
          · exact eq_pack_opp sa sb hss _ _ (by omega)
    rw [hL]
    exact ⟨fun h => absurd h (by decide), fun h => absurd h hnb⟩

theorem addEq_fin_nan (sa : Bool) (na : Nat) : F64.addEq (fin sa na) nan = false := rfl
theorem addEq_fin_inf (sa t : Bool) (na : Nat) : F64.addEq (fin sa na) (inf t) = false := by
  show F64.eq (inf t) (fin sa na) = false
  exact eq_inf_fin _ _ _

/-! ## the theorem -/

/-- Property C07.  For all doubles `a b` (all 2^128 bit patterns, NaNs identified):
`no_overlap(a, b)` holds exactly when `a` is finite and the IEEE sum `a ⊕ b` compares equal to `a`. -/
theorem no_overlap_iff (a b : F64) (ha : a.WF) (hb : b.WF) :
    base.no_overlap a b = true ↔ (a.is_finite = true ∧ F64.addEq a b = true) := by
  cases a with
  | nan => rw [no_overlap_nan]; simp [is_finite]
  | inf t => rw [no_overlap_inf]; simp [is_finite]
  | fin sa na =>
    obtain ⟨hrep, hmax⟩ := ha
    simp only [is_finite, true_and]
    by_cases hsmall : na < 2 ^ 52
    · rw [no_overlap_small sa hsmall]
      cases b with
      | nan => rw [eq_zero_nan, addEq_fin_nan]
      | inf t => rw [eq_zero_inf, addEq_fin_inf]
      | fin sb nb => rw [eq_zero_fin, addEq_small_fin sa sb hsmall hmax, decide_eq_true_eq]
    · obtain ⟨q, s, rfl, hq, hq', hs⟩ := wf_normal_decomp (by omega) hrep hmax
      cases b with
      | nan => rw [no_overlap_normal_nan sa hq hq' hs, addEq_fin_nan]
      | inf t => rw [no_overlap_normal_inf sa t hq hq' hs, addEq_fin_inf]
      | fin sb nb =>
        rw [no_overlap_normal_fin sa sb hq hq' hs, addEq_normal_fin sa sb hq hq' hs]

/-! ## panic freedom: the `i16` subtraction `biased_exponent - offset` cannot overflow -/

theorem inRange_i16_sub (s : Nat) (hs : s ≤ 2045) (off : I16) (hoff : off.v = 1076 ∨ off.v = 1077) :
    IntN.inRange ((⟨((s + 1 : Nat) : Int)⟩ : I16) -. off) = true := by
  show (decide (IntN.minV true 16 ≤ ((s + 1 : Nat) : Int) - off.v) &&
    decide (((s + 1 : Nat) : Int) - off.v ≤ IntN.maxV true 16)) = true
  have h1 : IntN.minV true 16 = -32768 := by decide
  have h2 : IntN.maxV true 16 = 32767 := by decide
  rw [h1, h2, Bool.and_eq_true, decide_eq_true_eq, decide_eq_true_eq]
  rcases hoff with h | h <;> rw [h] <;> omega

theorem no_overlap_pf (a b : F64) (ha : a.WF) (_hb : b.WF) : base.no_overlap.pf a b = true := by
  cases a with
  | nan => rfl
  | inf t => rfl
  | fin sa na =>
    obtain ⟨hrep, hmax⟩ := ha
    by_cases hsmall : na < 2 ^ 52
    · unfold base.no_overlap.pf
      have hc : F64.classify (fin sa na) = (if na = 0 then FpCategory.Zero else .Subnormal) := by
        show (if na = 0 then FpCategory.Zero else if na < 2 ^ 52 then .Subnormal else .Normal) = _
        rw [if_pos hsmall]
      rw [hc]
      by_cases h0 : na = 0
      · rw [if_pos h0]
      · rw [if_neg h0]
    · obtain ⟨q, s, rfl, hq, hq', hs⟩ := wf_normal_decomp (by omega) hrep hmax
      unfold base.no_overlap.pf
      rw [classify_normal sa (normal_ge hq)]
      simp only [biased_exponent_normal sa hq hq' hs, mantissa_zero_normal sa hq hq' hs, copysign_ne]
      by_cases hb0 : (b ==. (f64lit 0)) = true
      · rw [if_pos hb0]
      · rw [if_neg hb0]
        apply inRange_i16_sub s hs
        by_cases hc : (decide (q = 2 ^ 52) && (sa != b.is_sign_negative)) = true
        · rw [if_pos hc]; right; rfl
        · rw [if_neg hc]; left; rfl

/-! ## corollaries: `is_valid`, `TryFrom`, round trips -/

theorem is_valid_iff (t : TwoFloat) (ht : t.WF) : TwoFloat.is_valid t = true ↔ t.Valid := by
  unfold TwoFloat.is_valid TwoFloat.Valid
  rw [Bool.and_eq_true, Bool.and_eq_true, no_overlap_iff t.hi t.lo ht.1 ht.2]
  constructor
  · rintro ⟨⟨h1, h2⟩, _, h3⟩; exact ⟨h1, h2, h3⟩
  · rintro ⟨h1, h2, h3⟩; exact ⟨⟨h1, h2⟩, h1, h3⟩

theorem is_valid_pf (t : TwoFloat) (ht : t.WF) : TwoFloat.is_valid.pf t = true := by
  unfold TwoFloat.is_valid.pf
  split
  · exact no_overlap_pf _ _ ht.1 ht.2
  · rfl

/-- if `a` is finite and `a ⊕ b == a` then `b` is finite as well -/
theorem addEq_finite (a b : F64) (ha : a.is_finite = true) (h : F64.addEq a b = true) :
    b.is_finite = true := by
  cases a with
  | nan => exact absurd ha (by simp [is_finite])
  | inf t => exact absurd ha (by simp [is_finite])
  | fin sa na =>
    cases b with
    | nan => rw [addEq_fin_nan] at h; exact absurd h (by decide)
    | inf t => rw [addEq_fin_inf] at h; exact absurd h (by decide)
    | fin sb nb => rfl

theorem try_from_tuple_eq (a b : F64) :
    convert.impl_TryFrom_tup_f64_f64_for_TwoFloat.try_from (a, b) =
      if base.no_overlap a b = true then Except.ok ⟨a, b⟩ else Except.error TwoFloatError.ConversionError := rfl

theorem try_from_arr_eq (a b : F64) :
    convert.impl_TryFrom_arr2_f64_for_TwoFloat.try_from ⟨a, b⟩ =
      if base.no_overlap a b = true then Except.ok ⟨a, b⟩ else Except.error TwoFloatError.ConversionError := rfl

theorem ite_ok_iff {c : Prop} [Decidable c] (x t : TwoFloat) (e : TwoFloatError) :
    (if c then (Except.ok x : RResult TwoFloat) else Except.error e) = Except.ok t ↔ (c ∧ t = x) := by
  by_cases h : c
  · rw [if_pos h]
    constructor
    · intro hh; injection hh with hh; exact ⟨h, hh.symm⟩
    · rintro ⟨_, rfl⟩; rfl
  · rw [if_neg h]
    constructor
    · intro hh; exact absurd hh (by simp)
    · rintro ⟨hc, _⟩; exact absurd hc h

theorem ite_err_iff {c : Prop} [Decidable c] (x : TwoFloat) (e e' : TwoFloatError) :
    (if c then (Except.ok x : RResult TwoFloat) else Except.error e) = Except.error e' ↔ (¬ c ∧ e' = e) := by
  by_cases h : c
  · rw [if_pos h]
    constructor
    · intro hh; exact absurd hh (by simp)
    · rintro ⟨hc, _⟩; exact absurd h hc
  · rw [if_neg h]
    constructor
    · intro hh; injection hh with hh; exact ⟨h, hh.symm⟩
    · rintro ⟨_, rfl⟩; rfl

theorem try_from_tuple_ok_iff (a b : F64) (ha : a.WF) (hb : b.WF) (t : TwoFloat) :
    convert.impl_TryFrom_tup_f64_f64_for_TwoFloat.try_from (a, b) = Except.ok t ↔
      ((a.is_finite = true ∧ F64.addEq a b = true) ∧ t = ⟨a, b⟩) := by
  rw [try_from_tuple_eq, ite_ok_iff, no_overlap_iff a b ha hb]

theorem try_from_tuple_err_iff (a b : F64) (ha : a.WF) (hb : b.WF) (e : TwoFloatError) :
    convert.impl_TryFrom_tup_f64_f64_for_TwoFloat.try_from (a, b) = Except.error e ↔
      (¬ (a.is_finite = true ∧ F64.addEq a b = true) ∧ e = TwoFloatError.ConversionError) := by
  rw [try_from_tuple_eq, ite_err_iff, no_overlap_iff a b ha hb]

theorem try_from_arr_ok_iff (a b : F64) (ha : a.WF) (hb : b.WF) (t : TwoFloat) :
    convert.impl_TryFrom_arr2_f64_for_TwoFloat.try_from ⟨a, b⟩ = Except.ok t ↔
      ((a.is_finite = true ∧ F64.addEq a b = true) ∧ t = ⟨a, b⟩) := by
  rw [try_from_arr_eq, ite_ok_iff, no_overlap_iff a b ha hb]

theorem try_from_arr_err_iff (a b : F64) (ha : a.WF) (hb : b.WF) (e : TwoFloatError) :
    convert.impl_TryFrom_arr2_f64_for_TwoFloat.try_from ⟨a, b⟩ = Except.error e ↔
      (¬ (a.is_finite = true ∧ F64.addEq a b = true) ∧ e = TwoFloatError.ConversionError) := by
  rw [try_from_arr_eq, ite_err_iff, no_overlap_iff a b ha hb]

/-- a successful conversion yields a valid `TwoFloat` -/
theorem try_from_tuple_valid (a b : F64) (ha : a.WF) (hb : b.WF) (t : TwoFloat)
    (h : convert.impl_TryFrom_tup_f64_f64_for_TwoFloat.try_from (a, b) = Except.ok t) : t.Valid := by
  obtain ⟨⟨h1, h2⟩, rfl⟩ := (try_from_tuple_ok_iff a b ha hb t).1 h
  exact ⟨h1, addEq_finite a b h1 h2, h2⟩

theorem try_from_arr_valid (a b : F64) (ha : a.WF) (hb : b.WF) (t : TwoFloat)
    (h : convert.impl_TryFrom_arr2_f64_for_TwoFloat.try_from ⟨a, b⟩ = Except.ok t) : t.Valid := by
  obtain ⟨⟨h1, h2⟩, rfl⟩ := (try_from_arr_ok_iff a b ha hb t).1 h
  exact ⟨h1, addEq_finite a b h1 h2, h2⟩

/-- `TwoFloat → (f64, f64) → TwoFloat` succeeds and is the identity on valid values -/
theorem tuple_round_trip (t : TwoFloat) (ht : t.WF) (hv : t.Valid) :
    convert.impl_TryFrom_tup_f64_f64_for_TwoFloat.try_from
      (convert.impl_From_TwoFloat_for_tup_f64_f64.from t) = Except.ok t := by
  show convert.impl_TryFrom_tup_f64_f64_for_TwoFloat.try_from (t.hi, t.lo) = Except.ok t
  exact (try_from_tuple_ok_iff t.hi t.lo ht.1 ht.2 t).2 ⟨⟨hv.1, hv.2.2⟩, rfl⟩

theorem arr_round_trip (t : TwoFloat) (ht : t.WF) (hv : t.Valid) :
    convert.impl_TryFrom_arr2_f64_for_TwoFloat.try_from
      (convert.impl_From_TwoFloat_for_arr2_f64.from t) = Except.ok t := by
  show convert.impl_TryFrom_arr2_f64_for_TwoFloat.try_from ⟨t.hi, t.lo⟩ = Except.ok t
  exact (try_from_arr_ok_iff t.hi t.lo ht.1 ht.2 t).2 ⟨⟨hv.1, hv.2.2⟩, rfl⟩

/-- `(f64, f64) → TwoFloat → (f64, f64)` returns the same two words whenever the conversion succeeds -/
theorem tuple_round_trip_back (a b : F64) (t : TwoFloat)
    (h : convert.impl_TryFrom_tup_f64_f64_for_TwoFloat.try_from (a, b) = Except.ok t) :
    convert.impl_From_TwoFloat_for_tup_f64_f64.from t = (a, b) := by
  rw [try_from_tuple_eq, ite_ok_iff] at h
  obtain ⟨_, rfl⟩ := h
  rfl

theorem arr_round_trip_back (a b : F64) (t : TwoFloat)
    (h : convert.impl_TryFrom_arr2_f64_for_TwoFloat.try_from ⟨a, b⟩ = Except.ok t) :
    convert.impl_From_TwoFloat_for_arr2_f64.from t = ⟨a, b⟩ := by
  rw [try_from_arr_eq, ite_ok_iff] at h
  obtain ⟨_, rfl⟩ := h
  rfl

end F64.NoOverlap
