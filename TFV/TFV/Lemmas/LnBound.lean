/-
Lemmas.LnBound — the Newton iteration of `TwoFloat::ln` over `ℝ` (property C15, numerical part; statements collected
in `TFV/Properties/C15l.lean`).

 §0  the range of `exp` extended below `−600`: `mul_rv_rel_wide` (product `≥ 2^-960·(1 + 2^-41)`), `recip_val_wide`
     (`|R| ≤ 2^963`), `exp_half_bound_wide` (`−1332 ≤ k`).
 §1  `exp_bound_k`: the assembly of `ExpBound.exp_bound_split` with the reduction index `k` exposed and the table error
     `β` as a parameter, for `x ≥ −666` with `e^x ≥ 2^-960·(1 + 2^-40)`; `exp_half_m1` (`exp_half(−1)` within `u²`, by
     evaluation); `exp_bound_sharp` (`21u²`, or `37u²` with `x ≤ −0.7499`).
 §2  the Newton map over `ℝ`: `prod_near`, `newton_step_real` (`e ↦ e² + 2^-92`), `newton_final_real` (sharp:
     `(d + 10.02u²) + 5.02u²·|ln v|`).
 §3  the same on pairs: `prod_tf`, `step_bound`, `final_bound` (`2^-101·(1 + |ln v|)`).
 §4  assembly: `log_rv_near_hi`, `ln_eq_steps`, `ln_bound_of_seed`.
 §5  `log10 = ln / LN_10`: `log10_real`, `div_ln10`, `log10_of_ln'`, `log10_of_ln`.
 §6  with the seed bound `LnSeed.libm_log_coarse`: `ln_bound`, `log10_bound'`, `log10_bound`
     (high word in `[2^-1000, 2^960 − 2^944]`).
-/
import TFV.Lemmas.ExpBound
import TFV.Lemmas.LnSeed
import TFV.Properties.C15
import TFV.Properties.C12x
import Mathlib.Analysis.SpecialFunctions.Log.Basic
import Mathlib.Analysis.Complex.ExponentialBounds

set_option exponentiation.threshold 4000

namespace LnBound

open ConstBounds ExpBound

/-! ## 0. the range of `exp` extended below `−600` (as long as `e^x ≥ 2^-960·(1 + 2^-40)`)

`ExpBound.exp_bound_split` stops at `−600` (the range of property C14).  The Newton iteration of `ln` on arguments up to
`2^960` evaluates `exp(−x)` down to `x ≈ −665.4`; the ingredients below are the same proofs with wider constants: the
reciprocal (`C01d.recip_bound` allows a high word up to `2^964`), and the final product (`mul_tt_bound_7u2_partial`
needs a leading product `≥ 2^-960`). -/

section wide
open F64 TwoFloat

/-- **`TwoFloat * TwoFloat`, purely relative**: product of magnitude in `[2^-960·(1 + 2^-41), 2^1019]` -/
theorem mul_rv_rel_wide {x y : TwoFloat} (hx : VW x) (hy : VW y)
    (hlo : (1 + 1 / 2 ^ 41) / 2 ^ 960 ≤ |rv x * rv y|)
    (hhi : |rv x * rv y| ≤ 2 ^ 1019) :
    VW (arithmetic.impl_Mul_TwoFloat_for_TwoFloat.mul x y) ∧
    |rv (arithmetic.impl_Mul_TwoFloat_for_TwoFloat.mul x y) - rv x * rv y| ≤ 7 / 2 ^ 106 * |rv x * rv y| := by
  show VW (arithmetic.impl_Mul_rTwoFloat_for_rTwoFloat.mul x y) ∧
    |rv (arithmetic.impl_Mul_rTwoFloat_for_rTwoFloat.mul x y) - rv x * rv y| ≤ 7 / 2 ^ 106 * |rv x * rv y|
  obtain ⟨bx1, bx2⟩ := PowiBound.hi_bounds hx.1
  obtain ⟨by1, by2⟩ := PowiBound.hi_bounds hy.1
  have hU : (0 : ℝ) < 2 ^ 1074 := by positivity
  have eprod : rv x * rv y = ((x.V * y.V : ℤ) : ℝ) / (2 ^ 1074 * 2 ^ 1074) := by
    unfold rv; push_cast; field_simp
  have hVV : |x.V * y.V| ≤ (2 : ℤ) ^ 3167 := by
    rw [eprod, abs_div, abs_of_pos (by positivity : (0 : ℝ) < 2 ^ 1074 * 2 ^ 1074), div_le_iff₀ (by positivity),
      ← Int.cast_abs] at hhi
    have e : (2 : ℝ) ^ 1019 * (2 ^ 1074 * 2 ^ 1074) = 2 ^ 3167 := by rw [← pow_add, ← pow_add]
    rw [e] at hhi
    exact_mod_cast hhi
  have hVVlo : ((2 : ℤ) ^ 41 + 1) * 2 ^ 1147 ≤ |x.V * y.V| := by
    rw [eprod, abs_div, abs_of_pos (by positivity : (0 : ℝ) < 2 ^ 1074 * 2 ^ 1074), le_div_iff₀ (by positivity),
      ← Int.cast_abs] at hlo
    have e : (1 + 1 / 2 ^ 41 : ℝ) / 2 ^ 960 * (2 ^ 1074 * 2 ^ 1074) = (2 ^ 41 + 1) * 2 ^ 1147 := by
      have a : (2 : ℝ) ^ 1074 * 2 ^ 1074 = 2 ^ 960 * (2 ^ 41 * 2 ^ 1147) := by rw [← pow_add, ← pow_add, ← pow_add]
      rw [a]; field_simp
    rw [e] at hlo
    exact_mod_cast hlo
  have pX := abs_nonneg x.hi.toInt
  have pY := abs_nonneg y.hi.toInt
  have pVx := abs_nonneg x.V
  have pVy := abs_nonneg y.V
  have u1 : (2 ^ 53 * |x.V|) * (2 ^ 53 * |y.V|) ≤ ((2 ^ 53 + 1) * |x.hi.toInt|) * ((2 ^ 53 + 1) * |y.hi.toInt|) :=
    mul_le_mul bx2 by2 (by positivity) (by positivity)
  have u2 : ((2 ^ 53 - 1) * |x.hi.toInt|) * ((2 ^ 53 - 1) * |y.hi.toInt|) ≤ (2 ^ 53 * |x.V|) * (2 ^ 53 * |y.V|) :=
    mul_le_mul bx1 by1 (by positivity) (by positivity)
  have e1 : (2 ^ 53 * |x.V|) * (2 ^ 53 * |y.V|) = 2 ^ 106 * |x.V * y.V| := by rw [abs_mul]; ring
  have e2 : ((2 ^ 53 + 1) * |x.hi.toInt|) * ((2 ^ 53 + 1) * |y.hi.toInt|)
      = (2 ^ 53 + 1) ^ 2 * |x.hi.toInt * y.hi.toInt| := by rw [abs_mul]; ring
  have e3 : ((2 ^ 53 - 1) * |x.hi.toInt|) * ((2 ^ 53 - 1) * |y.hi.toInt|)
      = (2 ^ 53 - 1) ^ 2 * |x.hi.toInt * y.hi.toInt| := by rw [abs_mul]; ring
  rw [e1, e2] at u1
  rw [e1, e3] at u2
  have hbig : (2 : ℤ) ^ 1188 ≤ |x.hi.toInt * y.hi.toInt| := by
    have k : (2 : ℤ) ^ 1188 = 2 ^ 41 * 2 ^ 1147 := by rw [← pow_add]
    rw [k]
    have hS : (0 : ℤ) < 2 ^ 1147 := by positivity
    generalize (2 : ℤ) ^ 1147 = S at *
    generalize |x.hi.toInt * y.hi.toInt| = AB at *
    generalize |x.V * y.V| = PR at *
    norm_num at u1 hVVlo ⊢
    linarith
  have hlt : |x.hi.toInt * y.hi.toInt| < (2 : ℤ) ^ 3169 := by
    have k2 : (2 : ℤ) ^ 3169 = 4 * 2 ^ 3167 := by norm_num
    rw [k2]
    generalize (2 : ℤ) ^ 3167 = S at *
    generalize |x.hi.toInt * y.hi.toInt| = AB at *
    generalize |x.V * y.V| = PR at *
    norm_num at u2 ⊢
    linarith
  obtain ⟨hV, hb⟩ := TwoFloat.mul_tt_bound_7u2_partial hx.1 hx.2 hy.1 hy.2 (Or.inr ⟨hbig, hlt⟩)
  refine ⟨⟨hV, TwoFloat.mul_tt_WF x y⟩, ?_⟩
  generalize arithmetic.impl_Mul_rTwoFloat_for_rTwoFloat.mul x y = R at *
  rw [unit_cast_eq] at hb
  have hq : |(R.V : ℝ) * 2 ^ 1074 - x.V * y.V| * 2 ^ 106 ≤ 7 * |(x.V : ℝ) * y.V| := by
    exact_mod_cast hb
  have e4 : rv R - rv x * rv y = ((R.V : ℝ) * 2 ^ 1074 - x.V * y.V) / (2 ^ 1074 * 2 ^ 1074) := by
    unfold rv; field_simp
  have e5 : rv x * rv y = ((x.V : ℝ) * y.V) / (2 ^ 1074 * 2 ^ 1074) := by unfold rv; field_simp
  rw [e4, e5, abs_div, abs_div, abs_of_pos (by positivity : (0 : ℝ) < 2 ^ 1074 * 2 ^ 1074), ← mul_div_assoc,
    div_le_div_iff_of_pos_right (by positivity), div_mul_eq_mul_div, le_div_iff₀ (by positivity)]
  exact hq

/-- `recip` in rational terms, for `2^-901 ≤ |R| ≤ 2^963` (`PowiBound.recip_val` with the full range of
`C01d.recip_bound`) -/
theorem recip_val_wide {R : TwoFloat} (hv : R.Valid) (h1 : 1 / 2 ^ 901 ≤ |PowiBound.val R|)
    (h2 : |PowiBound.val R| ≤ 2 ^ 963) :
    (TwoFloat.recip R).Valid ∧ (TwoFloat.recip R).WF ∧
      |1 - PowiBound.val (TwoFloat.recip R) * PowiBound.val R| ≤ 1 / 2 ^ 102 := by
  have a1 : (2 : Int) ^ 173 ≤ |R.V| := PowiBound.int_lower (k := 901) (by norm_num) h1
  have a2 : |R.V| ≤ (2 : Int) ^ 2037 := PowiBound.int_upper (k := 963) h2
  obtain ⟨b1, b2⟩ := PowiBound.hi_bounds hv
  have c1 : (2 : Int) ^ 58 ≤ |R.hi.toInt| := by linarith
  have c2 : |R.hi.toInt| ≤ (2 : Int) ^ 2038 := by linarith
  have d1 : 2 ^ 58 ≤ R.hi.toInt.natAbs := by
    rw [← Int.natCast_natAbs] at c1
    exact_mod_cast c1
  have d2 : R.hi.toInt.natAbs ≤ 2 ^ 2038 := by
    rw [← Int.natCast_natAbs] at c2
    exact_mod_cast c2
  obtain ⟨rv, rw'⟩ := C01d.recip_valid R hv d1 (le_trans d2 (by norm_num))
  have hb := C01d.recip_bound R hv d1 d2
  refine ⟨rv, rw', ?_⟩
  generalize TwoFloat.recip R = ρ at *
  rw [unit_cast_eq] at hb
  have hq : (2 : ℚ) ^ 102 * |(2 : ℚ) ^ 1074 * 2 ^ 1074 - (ρ.V : ℚ) * (R.V : ℚ)| ≤ 2 ^ 1074 * 2 ^ 1074 := by
    exact_mod_cast hb
  unfold PowiBound.val
  have hU : (0 : ℚ) < 2 ^ 1074 := by positivity
  generalize (2 : ℚ) ^ 1074 = U at *
  have e1 : 1 - (ρ.V : ℚ) / U * ((R.V : ℚ) / U) = (U * U - (ρ.V : ℚ) * (R.V : ℚ)) / (U * U) := by
    field_simp
  rw [e1, abs_div, abs_of_pos (mul_pos hU hU), div_le_div_iff₀ (mul_pos hU hU) (by positivity)]
  linarith

theorem hHi_pow_1332 : hHi ^ 1332 ≤ 2 ^ 961 := by decide +kernel

theorem exp_half_le_961 {k : ℤ} (h0 : 0 ≤ k) (h1 : k ≤ 1332) : Real.exp ((k : ℝ) / 2) ≤ 2 ^ 961 := by
  refine le_trans (exp_half_le (N := 1332) h0 (by exact_mod_cast h1)) ?_
  have := (Rat.cast_le (K := ℝ)).2 hHi_pow_1332
  push_cast at this ⊢
  exact this

/-- **`exp_half` on `−1332 ≤ k ≤ 1407`** (`ExpBound.exp_half_bound` with the wider reciprocal range): a valid pair within `24.2u²` (relative) of `exp(k/2)`
(`8.1u²` for `k ≥ 0`; the reciprocal adds `16u²`) -/
theorem exp_half_bound_wide (k : ℤ) (h0 : -1332 ≤ k) (h1 : k ≤ 1407) :
    VW (explog.exp_half (⟨k⟩ : I32)) ∧
    |rv (explog.exp_half (⟨k⟩ : I32)) - Real.exp ((k : ℝ) / 2)| ≤ 242 / 10 / 2 ^ 106 * Real.exp ((k : ℝ) / 2) := by
  by_cases hk : 0 ≤ k
  · obtain ⟨v, hb⟩ := exp_half_nonneg 1 k hk h1
    refine ⟨v, le_trans hb ?_⟩
    exact mul_le_mul_of_nonneg_right (by norm_num) (Real.exp_pos _).le
  · have hgo : explog.exp_half (⟨k⟩ : I32) = TwoFloat.recip (explog.exp_half.go (0 + 1) (⟨-k⟩ : I32)) := by
      show explog.exp_half.go 2 (⟨k⟩ : I32) = _
      rw [explog.exp_half.go]
      have hneg : (⟨k⟩ : I32).is_negative = true := by
        show decide (k < 0) = true
        simp; omega
      rw [hneg]
      simp only [if_true]
      rfl
    rw [hgo]
    obtain ⟨Rv, hR⟩ := exp_half_nonneg 0 (-k) (by omega) (by omega)
    generalize explog.exp_half.go (0 + 1) (⟨-k⟩ : I32) = R at *
    have ecast : ((-k : ℤ) : ℝ) / 2 = -((k : ℝ) / 2) := by push_cast; ring
    set e := Real.exp (((-k : ℤ) : ℝ) / 2) with he
    have hepos : 0 < e := Real.exp_pos _
    have hele : e ≤ 2 ^ 961 := exp_half_le_961 (by omega) (by omega)
    have hege : 1 ≤ e := by
      apply Real.one_le_exp
      have : (0 : ℝ) ≤ ((-k : ℤ) : ℝ) := by exact_mod_cast (by omega : (0 : ℤ) ≤ -k)
      positivity
    have hRabs : e / 2 ≤ |rv R| ∧ |rv R| ≤ 2 * e := by
      have h3 := abs_sub_abs_le_abs_sub (rv R) e
      have h4 := abs_sub_abs_le_abs_sub e (rv R)
      rw [abs_of_pos hepos] at h3 h4
      rw [abs_sub_comm] at h4
      have : (81 : ℝ) / 10 / 2 ^ 106 * e ≤ e / 2 := by
        have : (81 : ℝ) / 10 / 2 ^ 106 ≤ 1 / 2 := by norm_num
        nlinarith
      constructor <;> linarith
    have hq1 : (1 : ℚ) / 2 ^ 901 ≤ |PowiBound.val R| := by
      have : ((1 / 2 ^ 901 : ℚ) : ℝ) ≤ ((|PowiBound.val R| : ℚ) : ℝ) := by
        rw [Rat.cast_abs, ← rv_eq_val]
        push_cast
        have : (1 : ℝ) / 2 ^ 901 ≤ 1 / 2 := by norm_num
        linarith [hRabs.1]
      exact_mod_cast this
    have hq2 : |PowiBound.val R| ≤ (2 : ℚ) ^ 963 := by
      have : ((|PowiBound.val R| : ℚ) : ℝ) ≤ (((2 : ℚ) ^ 963 : ℚ) : ℝ) := by
        rw [Rat.cast_abs, ← rv_eq_val]
        push_cast
        have : (2 : ℝ) * 2 ^ 961 ≤ 2 ^ 963 := by norm_num
        linarith [hRabs.2]
      exact_mod_cast this
    obtain ⟨rv', rw', rb⟩ := recip_val_wide Rv.1 hq1 hq2
    refine ⟨⟨rv', rw'⟩, ?_⟩
    have rbR : |1 - rv (TwoFloat.recip R) * rv R| ≤ 1 / 2 ^ 102 := by
      rw [rv_eq_val, rv_eq_val]
      have := (Rat.cast_le (K := ℝ)).2 rb
      push_cast at this ⊢
      exact this
    have hs : |rv R - e| ≤ 81 / 10 / 2 ^ 106 * |e| := by rw [abs_of_pos hepos]; exact hR
    have key := recip_rel_real hepos.ne' hs rbR (by positivity) (by norm_num) (by norm_num)
    have einv : e⁻¹ = Real.exp ((k : ℝ) / 2) := by
      rw [he, ecast, Real.exp_neg, inv_inv]
    rw [einv, abs_of_pos (Real.exp_pos _)] at key
    refine le_trans key ?_
    exact mul_le_mul_of_nonneg_right (by norm_num) (Real.exp_pos _).le
/-- `exp(k/2) ≤ 2^1011` for `k ≤ 1400` -/
theorem exp_half_upper {k : ℤ} (h1 : k ≤ 1400) : Real.exp ((k : ℝ) / 2) ≤ 2 ^ 1011 := by
  by_cases hk : 0 ≤ k
  · exact exp_half_le_1011 hk h1
  · have : Real.exp ((k : ℝ) / 2) ≤ 1 := by
      rw [← Real.exp_zero]
      apply Real.exp_le_exp.2
      have : (k : ℝ) ≤ 0 := by exact_mod_cast (by omega : k ≤ 0)
      linarith
    have e : (1 : ℝ) ≤ 2 ^ 1011 := by norm_num
    linarith

end wide

section expk
open F64 TwoFloat

/-- **`exp` with the table error as a parameter** (the proof of `ExpBound.exp_bound_split`, with the reduction index
`k = round(2x)` exposed): `exp x = (1 + expm1(x − k/2))·exp_half(k)`; if `exp_half(k)` is within relative `β` of
`e^(k/2)`, the result is within `5.2u² + β + 7u²` (plus cross terms) of `e^x` -/
theorem exp_bound_k (x : TwoFloat) (hv : x.Valid) (hw : x.WF) (hlo : -666 ≤ rv x) (hhi : rv x ≤ 700)
    (hprod : (1 + 1 / 2 ^ 40) / 2 ^ 960 ≤ Real.exp (rv x)) :
    VW (TwoFloat.exp x) ∧ ∃ k : ℤ, -1332 ≤ k ∧ k ≤ 1400 ∧ |rv x - (k : ℝ) / 2| ≤ 2501 / 10000 ∧
      ∀ β ε : ℝ, |rv (explog.exp_half (⟨k⟩ : I32)) - Real.exp ((k : ℝ) / 2)| ≤ β * Real.exp ((k : ℝ) / 2) →
        (52 / 10 / 2 ^ 106 + β + 52 / 10 / 2 ^ 106 * β)
          + 7 / 2 ^ 106 * (1 + (52 / 10 / 2 ^ 106 + β + 52 / 10 / 2 ^ 106 * β)) ≤ ε →
        |rv (TwoFloat.exp x) - Real.exp (rv x)| ≤ ε * Real.exp (rv x) := by
  have hU : (0 : ℝ) < 2 ^ 1074 := by positivity
  -- the high word is inside (−709, 709)
  have hVabs : |x.V| ≤ 700 * 2 ^ 1074 := by
    have h1 : |rv x| ≤ 700 := abs_le.2 ⟨by linarith, hhi⟩
    rw [rv_abs, div_le_iff₀ hU] at h1
    exact_mod_cast h1
  obtain ⟨b1, _⟩ := PowiBound.hi_bounds hv
  have hhiabs : |x.hi.toInt| < 709 * (F64.unit : ℤ) := by
    rw [unit_cast_eq]
    have hT : (0 : ℤ) < 2 ^ 1074 := by positivity
    generalize (2 : ℤ) ^ 1074 = T at *
    have : (0 : ℤ) ≤ |x.hi.toInt| := abs_nonneg _
    norm_num at b1
    omega
  obtain ⟨hl, hh⟩ := abs_lt.1 hhiabs
  have hl' : -(709 * (F64.unit : Int)) < x.hi.toInt := by linarith
  unfold TwoFloat.exp
  split_ifs with c1 c2 c3 c4
  · exfalso
    rw [PF.rle_eq, PF.EXP_LOWER_val, le_iff_toInt hv.1 rfl] at c1
    have : (fin true (709 * F64.unit)).toInt = -(709 * (F64.unit : Int)) := by
      show -((709 * F64.unit : Nat) : Int) = _; push_cast; rfl
    rw [this] at c1; omega
  · exfalso
    rw [PF.rge_eq', PF.EXP_UPPER_val, ge_iff_toInt hv.1 rfl] at c2
    have : (fin false (709 * F64.unit)).toInt = 709 * (F64.unit : Int) := by
      show ((709 * F64.unit : Nat) : Int) = _; push_cast; rfl
    rw [this] at c2; omega
  · -- x.hi = ±0, hence x = 0
    have h0 : x.hi.toInt = 0 := by
      rcases Ident.f64_eq_zero_cases _ c3 with e | e <;> rw [e] <;> rfl
    have hl0 : x.lo.toInt = 0 := by
      have := hv.abs_lo_le
      rw [h0, abs_zero] at this
      exact abs_eq_zero.1 (le_antisymm this (abs_nonneg _))
    have hx0 : rv x = 0 := by unfold rv TwoFloat.V; rw [h0, hl0]; simp
    have h1 : (convert.impl_From_f64_for_TwoFloat.from (f64lit 0x3ff0000000000000)).Valid := by decide +kernel
    have h2 : (convert.impl_From_f64_for_TwoFloat.from (f64lit 0x3ff0000000000000)).WF := by decide +kernel
    have h3 : (convert.impl_From_f64_for_TwoFloat.from (f64lit 0x3ff0000000000000)).V = (2 : ℤ) ^ 1074 := by
      decide +kernel
    refine ⟨⟨h1, h2⟩, ?_⟩
    have : rv (convert.impl_From_f64_for_TwoFloat.from (f64lit 0x3ff0000000000000)) = 1 := by
      unfold rv; rw [h3]
      simp only [Int.cast_pow, Int.cast_ofNat]
      exact div_self (by positivity : ((2 : ℝ) ^ 1074) ≠ 0)
    refine ⟨0, by norm_num, by norm_num, by rw [hx0]; norm_num, ?_⟩
    intro β ε hβ hε
    rw [this, hx0, Real.exp_zero]
    have hβ0 : 0 ≤ β := by
      have h1 := le_trans (abs_nonneg _) hβ
      have h2 := Real.exp_pos (((0 : ℤ) : ℝ) / 2)
      by_contra hc
      have : β * Real.exp (((0 : ℤ) : ℝ) / 2) < 0 := mul_neg_of_neg_of_pos (not_le.1 hc) h2
      linarith
    have : (0 : ℝ) ≤ ε := by
      have : (0:ℝ) ≤ 52 / 10 / 2 ^ 106 * β := by positivity
      have : (0:ℝ) ≤ 7 / 2 ^ 106 * (1 + (52 / 10 / 2 ^ 106 + β + 52 / 10 / 2 ^ 106 * β)) := by positivity
      linarith
    simpa using this
  · exfalso
    have := hv.1
    cases hx : x.hi <;> rw [hx] at c4 this <;> simp_all [F64.is_nan, F64.is_finite]
  · -- the main branch
    obtain ⟨⟨zf, zb⟩, k, hyf, hyk, hkb⟩ := PF.exp_reduce x hv hw hl' hh
    dsimp only
    unfold TwoFloat.hi_m
    rw [PF.cast_f64_i32 hyf hyk (by omega)]
    generalize hy : (TwoFloat.round (arithmetic.impl_Mul_TwoFloat_for_f64.mul (f64lit 0x4000000000000000) x)).hi
      = y at *
    have hdiv : (y /. f64lit 0x4000000000000000) = F64.div y (f64lit 0x4000000000000000) := rfl
    rw [hdiv]
    -- y / 2 = k/2 exactly
    have htwo : IsVal (f64lit 0x4000000000000000) (2 * (F64.unit : Int)) := by
      rw [PF.lit_two]
      exact ⟨rfl, by show ((2 * F64.unit : Nat) : Int) = _; push_cast; ring⟩
    have hkabs : |k| ≤ 1418 := by rw [← Int.natCast_natAbs]; exact_mod_cast hkb
    have hM : (2 : Int) ^ 1090 ≤ (maxFin : Int) := by exact_mod_cast PF.maxFin_ge
    have hUz : (F64.unit : ℤ) = 2 ^ 1074 := unit_cast_eq
    have hP : (0 : ℤ) < 2 ^ 1073 := by positivity
    have hW : IsVal (F64.div y (f64lit 0x4000000000000000)) (k * 2 ^ 1073) := by
      apply IsVal.div_exact ⟨hyf, hyk⟩ htwo
      · rw [hUz]; positivity
      · rw [hUz]; ring
      · exact PF.repI_small_mul_pow2 _ (by omega)
      · rw [abs_mul, abs_of_pos hP]
        calc |k| * 2 ^ 1073 ≤ 1418 * 2 ^ 1073 := by nlinarith
          _ ≤ 2 ^ 1090 := by norm_num
          _ ≤ _ := hM
    have hWWF : (F64.div y (f64lit 0x4000000000000000)).WF := div_WF _ _
    generalize F64.div y (f64lit 0x4000000000000000) = Wf at *
    have hfvW : fv Wf = (k : ℝ) / 2 := by
      unfold fv; rw [hW.2]; push_cast
      rw [div_eq_div_iff (by positivity) (by norm_num)]
      have : (2 : ℝ) ^ 1074 = 2 ^ 1073 * 2 := by norm_num
      rw [this]; ring
    have hWb : Wf.toInt.natAbs < 2 ^ 2095 := by
      rw [hW.2]
      apply natAbs_lt_of_abs_lt
      rw [abs_mul, abs_of_pos hP]
      calc |k| * 2 ^ 1073 ≤ 1418 * 2 ^ 1073 := by nlinarith
        _ < 2 ^ 2095 := by norm_num
    have hxabs : |rv x| ≤ 2 ^ 1000 := by
      have : |rv x| ≤ 700 := abs_le.2 ⟨by linarith, hhi⟩
      exact le_trans this (by norm_num)
    obtain ⟨zvw, hz⟩ := sub_tf_rv ⟨hv, hw⟩ hW.1 hWWF hxabs hWb
    rw [hfvW] at hz
    generalize arithmetic.impl_Sub_f64_for_TwoFloat.sub x Wf = z at *
    -- |rv z| ≤ (1 + 2^-53)/4 and hence |D| ≤ 0.2501
    set D := rv x - (k : ℝ) / 2 with hD
    have hzabs : |rv z| ≤ 25001 / 100000 := by
      obtain ⟨_, c2⟩ := PowiBound.hi_bounds zvw.1
      have hzb : |z.hi.toInt| ≤ 2 ^ 1072 := by
        have := abs_le_of_natAbs_le zb; exact_mod_cast this
      have hzV : |z.V| ≤ 2 ^ 1072 + 2 ^ 1020 := by
        have e1 : (2 : ℤ) ^ 1072 = 2 ^ 52 * 2 ^ 1020 := by norm_num
        rw [e1] at hzb ⊢
        generalize (2 : ℤ) ^ 1020 = T at *
        norm_num at c2 ⊢
        omega
      rw [rv_abs, div_le_iff₀ hU]
      have : ((|z.V| : ℤ) : ℝ) ≤ (((2 : ℤ) ^ 1072 + 2 ^ 1020 : ℤ) : ℝ) := by exact_mod_cast hzV
      refine le_trans this ?_
      push_cast
      norm_num
    have hDabs : |D| ≤ 2501 / 10000 := by
      have h1 := abs_sub_abs_le_abs_sub D (rv z)
      rw [abs_sub_comm D (rv z)] at h1
      have h2 : (1 : ℝ) / 2 ^ 105 * |D| ≤ 1 / 1000000 * |D| :=
        mul_le_mul_of_nonneg_right (by norm_num) (abs_nonneg _)
      linarith
    -- the range of k
    have hk1 : -1332 ≤ k := by
      obtain ⟨d1, d2⟩ := abs_le.1 hDabs
      have : (-1333 : ℝ) < (k : ℝ) := by rw [hD] at d1 d2; linarith
      have : (-1333 : ℤ) < k := by exact_mod_cast this
      omega
    have hk2 : k ≤ 1400 := by
      obtain ⟨_, d2⟩ := abs_le.1 hDabs
      have : (k : ℝ) < 1401 := by rw [hD] at d2; linarith
      have : k < (1401 : ℤ) := by exact_mod_cast this
      omega
    obtain ⟨rvw, hr, hrabs⟩ := expm1_quarter_bound zvw zb
    obtain ⟨ezvw, hez⟩ := add_one_rv rvw (le_trans hrabs (by norm_num))
    obtain ⟨eyvw, hey⟩ := exp_half_bound_wide k hk1 (by omega)
    have hey0 : 0 ≤ k → |rv (explog.exp_half (⟨k⟩ : I32)) - Real.exp ((k : ℝ) / 2)|
        ≤ 81 / 10 / 2 ^ 106 * Real.exp ((k : ℝ) / 2) := fun h => (exp_half_nonneg 1 k h (by omega)).2
    have y2 := exp_half_upper hk2
    have hY := Real.exp_pos ((k : ℝ) / 2)
    generalize TwoFloat.expm1_quarter z = r at *
    generalize arithmetic.impl_Add_f64_for_TwoFloat.add r (f64lit 0x3ff0000000000000) = ez at *
    generalize heyq : explog.exp_half (⟨k⟩ : I32) = ey at *
    -- crude ranges for the final product
    have hezr : 499 / 1000 ≤ |rv ez| ∧ |rv ez| ≤ 2 := by
      have h1 := abs_sub_abs_le_abs_sub (rv ez) (rv r + 1)
      have h2 := abs_sub_abs_le_abs_sub (rv r + 1) (rv ez)
      rw [abs_sub_comm] at h2
      obtain ⟨r1, r2⟩ := abs_le.1 hrabs
      have h3 : |rv r + 1| = rv r + 1 := abs_of_pos (by linarith)
      rw [h3] at h1 h2 hez
      have h4 : (1 : ℝ) / 2 ^ 105 * (rv r + 1) ≤ 1 / 2 ^ 105 * (3 / 2) :=
        mul_le_mul_of_nonneg_left (by linarith) (by positivity)
      have e : (1 : ℝ) / 2 ^ 105 * (3 / 2) ≤ 1 / 1000 := by norm_num
      constructor <;> linarith
    have heyr : 999 / 1000 * Real.exp ((k : ℝ) / 2) ≤ |rv ey| ∧ |rv ey| ≤ 2 * Real.exp ((k : ℝ) / 2) := by
      have h1 := abs_sub_abs_le_abs_sub (rv ey) (Real.exp ((k : ℝ) / 2))
      have h2 := abs_sub_abs_le_abs_sub (Real.exp ((k : ℝ) / 2)) (rv ey)
      rw [abs_sub_comm] at h2
      rw [abs_of_pos hY] at h1 h2
      have : (242 : ℝ) / 10 / 2 ^ 106 * Real.exp ((k : ℝ) / 2) ≤ 1 / 1000 * Real.exp ((k : ℝ) / 2) :=
        mul_le_mul_of_nonneg_right (by norm_num) hY.le
      constructor <;> linarith
    have hp1 : |rv ez * rv ey| ≤ 2 ^ 1019 := by
      rw [abs_mul]
      calc |rv ez| * |rv ey| ≤ 2 * (2 * Real.exp ((k : ℝ) / 2)) :=
            mul_le_mul hezr.2 heyr.2 (abs_nonneg _) (by norm_num)
        _ ≤ 2 * (2 * 2 ^ 1011) := by linarith
        _ ≤ 2 ^ 1019 := by norm_num
    have e : Real.exp D * Real.exp ((k : ℝ) / 2) = Real.exp (rv x) := by
      rw [← Real.exp_add, hD]; congr 1; ring
    -- the exact product is within `37u²` of `e^x` (the final estimate with a rounding-free product), hence not small
    have hp0 : (1 + 1 / 2 ^ 41) / 2 ^ 960 ≤ |rv ez * rv ey| := by
      have h0 := (exp_final_real hDabs hz hr hez hY hey (res := rv ez * rv ey) (ε := 37 / 2 ^ 106)
        (by rw [sub_self, abs_zero]; positivity) (by norm_num)).1
      rw [e] at h0
      have hE := Real.exp_pos (rv x)
      have h1 := abs_sub_abs_le_abs_sub (Real.exp (rv x)) (rv ez * rv ey)
      rw [abs_sub_comm, abs_of_pos hE] at h1
      have h2 : (1 - 37 / 2 ^ 106) * ((1 + 1 / 2 ^ 40) / 2 ^ 960) ≤ (1 - 37 / 2 ^ 106) * Real.exp (rv x) :=
        mul_le_mul_of_nonneg_left hprod (by norm_num)
      have h3 : (1 + 1 / 2 ^ 41 : ℝ) / 2 ^ 960 ≤ (1 - 37 / 2 ^ 106) * ((1 + 1 / 2 ^ 40) / 2 ^ 960) := by
        rw [← mul_div_assoc, div_le_div_iff_of_pos_right (by positivity)]; norm_num
      linarith
    obtain ⟨resvw, hres⟩ := mul_rv_rel_wide ezvw eyvw hp0 hp1
    refine ⟨resvw, k, hk1, hk2, ?_, ?_⟩
    · exact hDabs
    · intro β ε hβ hε
      rw [heyq] at hβ
      have fin := (exp_final_real hDabs hz hr hez hY hβ hres hε).1
      rw [e] at fin
      exact fin

/-! ### the table error for `k = −1`, by evaluation -/

/-- enclosure of `exp(−1/2)`: 40 Taylor terms -/
def mhLo : ℚ := expSum (-1 / 2) 40 - expRem (-1 / 2) 40
def mhHi : ℚ := expSum (-1 / 2) 40 + expRem (-1 / 2) 40

theorem exp_neg_half_encl : Encl (Real.exp (-1 / 2)) mhLo mhHi := by
  have := exp_encl (-1 / 2) (by norm_num [abs_le]) 40 (by norm_num)
  rw [show (((-1 / 2 : ℚ)) : ℝ) = -1 / 2 by norm_num] at this
  exact this

theorem exp_half_m1_check :
    0 < mhLo ∧ PowiBound.val (explog.exp_half (⟨-1⟩ : I32)) - mhLo ≤ mhLo / 2 ^ 106 ∧
      mhHi - PowiBound.val (explog.exp_half (⟨-1⟩ : I32)) ≤ mhLo / 2 ^ 106 := by decide +kernel

/-- **`exp_half(−1) = 1/EXP_HALF_N[0]` is within `u²` of `e^(−1/2)`** (the generic reciprocal bound is `16.6u²`) -/
theorem exp_half_m1 :
    |rv (explog.exp_half (⟨-1⟩ : I32)) - Real.exp (((-1 : ℤ) : ℝ) / 2)|
      ≤ 1 / 2 ^ 106 * Real.exp (((-1 : ℤ) : ℝ) / 2) := by
  obtain ⟨h0, h1, h2⟩ := exp_half_m1_check
  obtain ⟨e1, e2⟩ := exp_neg_half_encl
  rw [show (((-1 : ℤ) : ℝ) / 2) = -1 / 2 by norm_num, rv_eq_val]
  have h0' : (0 : ℝ) < ((mhLo : ℚ) : ℝ) := by exact_mod_cast h0
  have h1' := (Rat.cast_le (K := ℝ)).2 h1
  have h2' := (Rat.cast_le (K := ℝ)).2 h2
  push_cast at h1' h2'
  generalize ((PowiBound.val (explog.exp_half (⟨-1⟩ : I32)) : ℚ) : ℝ) = w at *
  generalize ((mhLo : ℚ) : ℝ) = a at *
  generalize ((mhHi : ℚ) : ℝ) = b at *
  generalize Real.exp (-1 / 2) = E at *
  have h3 : a / 2 ^ 106 ≤ 1 / 2 ^ 106 * E := by
    rw [div_eq_mul_one_div, mul_comm]; exact mul_le_mul_of_nonneg_left e1 (by positivity)
  rw [abs_le]
  constructor <;> linarith

/-- **`exp` with the sharper case split**: relative error `21u²` unless the reduction index is `≤ −2` (then `37u²` and
`x ≤ −0.7499`) -/
theorem exp_bound_sharp (x : TwoFloat) (hv : x.Valid) (hw : x.WF) (hlo : -666 ≤ rv x)
    (hhi : rv x ≤ 700) (hprod : (1 + 1 / 2 ^ 40) / 2 ^ 960 ≤ Real.exp (rv x)) :
    VW (TwoFloat.exp x) ∧ ∃ d : ℝ, |rv (TwoFloat.exp x) - Real.exp (rv x)| ≤ d * Real.exp (rv x) ∧
      (d = 21 / 2 ^ 106 ∨ (d = 37 / 2 ^ 106 ∧ rv x ≤ -(7499 / 10000))) := by
  obtain ⟨vw, k, hk1, hk2, hD, hk⟩ := exp_bound_k x hv hw hlo hhi hprod
  refine ⟨vw, ?_⟩
  by_cases h0 : 0 ≤ k
  · exact ⟨21 / 2 ^ 106, hk _ _ (exp_half_nonneg 1 k h0 (by omega)).2 (by norm_num), Or.inl rfl⟩
  · by_cases h1 : k = -1
    · subst h1
      exact ⟨21 / 2 ^ 106, hk _ _ exp_half_m1 (by norm_num), Or.inl rfl⟩
    · refine ⟨37 / 2 ^ 106, hk _ _ (exp_half_bound_wide k hk1 (by omega)).2 (by norm_num), Or.inr ⟨rfl, ?_⟩⟩
      have hk' : (k : ℝ) ≤ -2 := by exact_mod_cast (by omega : k ≤ -2)
      obtain ⟨_, d2⟩ := abs_le.1 hD
      linarith

end expk

/-! ## 2. the Newton step over `ℝ` -/

section real

/-- the product `P ≈ v·E`, `v = e^L`, `E ≈ exp(−(L+e))` (relative `d`), is within relative `d + 7u² + 7u²d` of
`t = exp(−e)` -/
theorem prod_near {L e E P d : ℝ}
    (hE : |E - Real.exp (-(L + e))| ≤ d * Real.exp (-(L + e)))
    (hP : |P - Real.exp L * E| ≤ 7 / 2 ^ 106 * |Real.exp L * E|) :
    |Real.exp L * E - Real.exp (-e)| ≤ d * Real.exp (-e) ∧
    |P - Real.exp (-e)| ≤ (d + 7 / 2 ^ 106 + 7 / 2 ^ 106 * d) * Real.exp (-e) := by
  have hv := Real.exp_pos L
  have ht := Real.exp_pos (-e)
  have et : Real.exp L * Real.exp (-(L + e)) = Real.exp (-e) := by rw [← Real.exp_add]; congr 1; ring
  have h1 : |Real.exp L * E - Real.exp (-e)| ≤ d * Real.exp (-e) := by
    rw [← et, ← mul_sub, abs_mul, abs_of_pos hv]
    calc Real.exp L * |E - Real.exp (-(L + e))| ≤ Real.exp L * (d * Real.exp (-(L + e))) :=
          mul_le_mul_of_nonneg_left hE hv.le
      _ = d * (Real.exp L * Real.exp (-(L + e))) := by ring
  refine ⟨h1, ?_⟩
  have h2 : |Real.exp L * E| ≤ (1 + d) * Real.exp (-e) := by
    have := abs_sub_abs_le_abs_sub (Real.exp L * E) (Real.exp (-e))
    rw [abs_of_pos ht] at this
    linarith
  have h3 := abs_add_le (P - Real.exp L * E) (Real.exp L * E - Real.exp (-e))
  rw [show P - Real.exp L * E + (Real.exp L * E - Real.exp (-e)) = P - Real.exp (-e) by ring] at h3
  have h4 := mul_le_mul_of_nonneg_left h2 (by positivity : (0 : ℝ) ≤ 7 / 2 ^ 106)
  linarith

/-- `t = exp(−e)` for a small `e` -/
theorem exp_neg_small {e η : ℝ} (he : |e| ≤ η) (hη : η ≤ 1) :
    |Real.exp (-e) - 1 + e| ≤ e ^ 2 ∧ |Real.exp (-e) - 1| ≤ 2 * η := by
  have h1 : |-e| ≤ 1 := by rw [abs_neg]; linarith
  have h2 := Real.abs_exp_sub_one_sub_id_le h1
  have h3 := Real.abs_exp_sub_one_le h1
  rw [abs_neg] at h3
  refine ⟨?_, by linarith⟩
  rw [show Real.exp (-e) - 1 + e = Real.exp (-e) - 1 - -e by ring]
  rw [show e ^ 2 = (-e) ^ 2 by ring]
  exact h2

/-- range of the exact product `v·E` (needed before the product bound is available) -/
theorem prod_range {L e E d : ℝ} (he : |e| ≤ 1 / 2 ^ 19) (hd : d ≤ 37 / 2 ^ 106)
    (hE : |E - Real.exp (-(L + e))| ≤ d * Real.exp (-(L + e))) :
    1 / 2 ≤ Real.exp L * E ∧ Real.exp L * E ≤ 2 := by
  have hv := Real.exp_pos L
  have ht := Real.exp_pos (-e)
  have et : Real.exp L * Real.exp (-(L + e)) = Real.exp (-e) := by rw [← Real.exp_add]; congr 1; ring
  have h1 : |Real.exp L * E - Real.exp (-e)| ≤ d * Real.exp (-e) := by
    rw [← et, ← mul_sub, abs_mul, abs_of_pos hv]
    calc Real.exp L * |E - Real.exp (-(L + e))| ≤ Real.exp L * (d * Real.exp (-(L + e))) :=
          mul_le_mul_of_nonneg_left hE hv.le
      _ = d * (Real.exp L * Real.exp (-(L + e))) := by ring
  obtain ⟨_, h2⟩ := exp_neg_small he (by norm_num)
  obtain ⟨a1, a2⟩ := abs_le.1 h1
  obtain ⟨b1, b2⟩ := abs_le.1 h2
  have h3 : d * Real.exp (-e) ≤ 37 / 2 ^ 106 * Real.exp (-e) := mul_le_mul_of_nonneg_right hd ht.le
  constructor <;> nlinarith

/-- **one intermediate Newton step** `x' = x + (v·exp(−x) − 1)`, `x = L + e`, `L = ln v`: the new error is at most
`e² + 2^-92` -/
theorem newton_step_real {L e E P S x' d : ℝ} (hL : |L| ≤ 700) (he : |e| ≤ 1 / 2 ^ 19)
    (hd0 : 0 ≤ d) (hd : d ≤ 37 / 2 ^ 106)
    (hE : |E - Real.exp (-(L + e))| ≤ d * Real.exp (-(L + e)))
    (hP : |P - Real.exp L * E| ≤ 7 / 2 ^ 106 * |Real.exp L * E|)
    (hS : |S - (P - 1)| ≤ 1 / 2 ^ 105 * |P - 1|)
    (hx : |x' - (L + e + S)| ≤ cA * |L + e + S|) :
    |x' - L| ≤ e ^ 2 + 1 / 2 ^ 92 := by
  have ht := Real.exp_pos (-e)
  obtain ⟨g1, g2⟩ := exp_neg_small he (by norm_num)
  obtain ⟨_, hPt⟩ := prod_near hE hP
  obtain ⟨t1, t2⟩ := abs_le.1 g2
  -- |P − t| ≤ 46u²
  have hc : (d + 7 / 2 ^ 106 + 7 / 2 ^ 106 * d) * Real.exp (-e) ≤ 46 / 2 ^ 106 := by
    have h1 : d + 7 / 2 ^ 106 + 7 / 2 ^ 106 * d ≤ 451 / 10 / 2 ^ 106 := by nlinarith
    have h2 : (0 : ℝ) ≤ d + 7 / 2 ^ 106 + 7 / 2 ^ 106 * d := by positivity
    calc (d + 7 / 2 ^ 106 + 7 / 2 ^ 106 * d) * Real.exp (-e)
        ≤ (451 / 10 / 2 ^ 106) * (1 + 2 * (1 / 2 ^ 19)) := mul_le_mul h1 (by linarith) ht.le (by positivity)
      _ ≤ 46 / 2 ^ 106 := by norm_num
  have hPt' : |P - Real.exp (-e)| ≤ 46 / 2 ^ 106 := le_trans hPt hc
  obtain ⟨p1, p2⟩ := abs_le.1 hPt'
  have hP1 : |P - 1| ≤ 1 / 2 ^ 17 := by
    rw [abs_le]
    have e1 : (46 : ℝ) / 2 ^ 106 + 2 * (1 / 2 ^ 19) ≤ 1 / 2 ^ 17 := by norm_num
    constructor <;> linarith
  have hS' : |S - (P - 1)| ≤ 1 / 2 ^ 122 := by
    refine le_trans hS ?_
    calc (1 : ℝ) / 2 ^ 105 * |P - 1| ≤ 1 / 2 ^ 105 * (1 / 2 ^ 17) := mul_le_mul_of_nonneg_left hP1 (by positivity)
      _ = 1 / 2 ^ 122 := by norm_num
  obtain ⟨s1, s2⟩ := abs_le.1 hS'
  obtain ⟨q1, q2⟩ := abs_le.1 hP1
  obtain ⟨l1, l2⟩ := abs_le.1 hL
  obtain ⟨e1, e2⟩ := abs_le.1 he
  have hsum : |L + e + S| ≤ 701 := by
    rw [abs_le]
    have : (1 : ℝ) / 2 ^ 19 + 1 / 2 ^ 17 + 1 / 2 ^ 122 ≤ 1 := by norm_num
    constructor <;> linarith
  have hx' : |x' - (L + e + S)| ≤ 2804 / 2 ^ 106 := by
    refine le_trans hx ?_
    calc cA * |L + e + S| ≤ 4 / 2 ^ 106 * 701 := mul_le_mul cA_le hsum (abs_nonneg _) (by positivity)
      _ = 2804 / 2 ^ 106 := by norm_num
  obtain ⟨x1, x2⟩ := abs_le.1 hx'
  obtain ⟨k1, k2⟩ := abs_le.1 g1
  have fin : (2804 : ℝ) / 2 ^ 106 + 1 / 2 ^ 122 + 46 / 2 ^ 106 ≤ 1 / 2 ^ 92 := by norm_num
  rw [abs_le]
  constructor <;> linarith

/-- **the last Newton step** `R = (x + v·exp(−x)) − 1`, `x = L + e` with `|e| ≤ 2^-70`: sharp constants.
`d` is the relative error of the `exp` call; the product costs `7u²`, the sum `3u²(1 + |L|)`, the `− 1` `2u²|L|`. -/
theorem newton_final_real {L e E P A R d : ℝ} (hL : |L| ≤ 700) (he : |e| ≤ 1 / 2 ^ 70)
    (hd0 : 0 ≤ d) (hd : d ≤ 37 / 2 ^ 106)
    (hE : |E - Real.exp (-(L + e))| ≤ d * Real.exp (-(L + e)))
    (hP : |P - Real.exp L * E| ≤ 7 / 2 ^ 106 * |Real.exp L * E|)
    (hA : |A - (L + e + P)| ≤ cA * |L + e + P|)
    (hR : |R - (A - 1)| ≤ 1 / 2 ^ 105 * |A - 1|) :
    |R - L| ≤ (d + 1002 / 100 / 2 ^ 106) + 502 / 100 / 2 ^ 106 * |L| := by
  have ht := Real.exp_pos (-e)
  obtain ⟨g1, g2⟩ := exp_neg_small he (by norm_num)
  obtain ⟨_, hPt⟩ := prod_near hE hP
  obtain ⟨t1, t2⟩ := abs_le.1 g2
  have he2 : e ^ 2 ≤ 1 / 2 ^ 140 := by
    have : e ^ 2 = |e| ^ 2 := (sq_abs e).symm
    rw [this]
    calc |e| ^ 2 ≤ (1 / 2 ^ 70) ^ 2 := pow_le_pow_left₀ (abs_nonneg _) he 2
      _ = 1 / 2 ^ 140 := by norm_num
  -- |P − t| ≤ d + 7u² + 2^-169
  have hc : (d + 7 / 2 ^ 106 + 7 / 2 ^ 106 * d) * Real.exp (-e) ≤ d + 7 / 2 ^ 106 + 1 / 2 ^ 169 := by
    have h1 : d + 7 / 2 ^ 106 + 7 / 2 ^ 106 * d ≤ d + 7 / 2 ^ 106 + 259 / 2 ^ 212 := by nlinarith
    have h1' : d + 7 / 2 ^ 106 + 7 / 2 ^ 106 * d ≤ 451 / 10 / 2 ^ 106 := by nlinarith
    have h2 : (0 : ℝ) ≤ d + 7 / 2 ^ 106 + 7 / 2 ^ 106 * d := by positivity
    have h3 : (d + 7 / 2 ^ 106 + 7 / 2 ^ 106 * d) * (Real.exp (-e) - 1)
        ≤ (451 / 10 / 2 ^ 106) * (2 * (1 / 2 ^ 70)) :=
      le_trans (mul_le_mul_of_nonneg_left t2 h2) (mul_le_mul_of_nonneg_right h1' (by positivity))
    have h4 : (259 : ℝ) / 2 ^ 212 + (451 / 10 / 2 ^ 106) * (2 * (1 / 2 ^ 70)) ≤ 1 / 2 ^ 169 := by norm_num
    nlinarith
  have hPt' : |P - Real.exp (-e)| ≤ d + 7 / 2 ^ 106 + 1 / 2 ^ 169 := le_trans hPt hc
  obtain ⟨p1, p2⟩ := abs_le.1 hPt'
  obtain ⟨e1, e2⟩ := abs_le.1 he
  have hLa := abs_nonneg L
  obtain ⟨l1, l2⟩ := abs_le.1 (le_refl |L|)
  have hsum : |L + e + P| ≤ |L| + 1 + 1 / 2 ^ 67 := by
    rw [abs_le]
    have : (1 : ℝ) / 2 ^ 70 + 2 * (1 / 2 ^ 70) + (37 / 2 ^ 106 + 7 / 2 ^ 106 + 1 / 2 ^ 169) ≤ 1 / 2 ^ 67 := by norm_num
    constructor <;> linarith
  have hA' : |A - (L + e + P)| ≤ 301 / 100 / 2 ^ 106 * (|L| + 1 + 1 / 2 ^ 67) :=
    le_trans hA (mul_le_mul cA_le' hsum (abs_nonneg _) (by positivity))
  obtain ⟨a1, a2⟩ := abs_le.1 hA'
  obtain ⟨k1, k2⟩ := abs_le.1 g1
  -- Q bounds |A − 1 − L|
  have hQ : |A - 1 - L| ≤ d + 10011 / 1000 / 2 ^ 106 + 301 / 100 / 2 ^ 106 * |L| := by
    rw [abs_le]
    have : (301 : ℝ) / 100 / 2 ^ 106 * (1 + 1 / 2 ^ 67) + 1 / 2 ^ 140 + 7 / 2 ^ 106 + 1 / 2 ^ 169
        ≤ 10011 / 1000 / 2 ^ 106 := by norm_num
    constructor <;> nlinarith
  obtain ⟨q1, q2⟩ := abs_le.1 hQ
  have hA1 : |A - 1| ≤ |L| + 1 / 2 ^ 90 := by
    rw [abs_le]
    have h700 : (301 : ℝ) / 100 / 2 ^ 106 * |L| ≤ 301 / 100 / 2 ^ 106 * 700 :=
      mul_le_mul_of_nonneg_left hL (by positivity)
    have : (37 : ℝ) / 2 ^ 106 + 10011 / 1000 / 2 ^ 106 + 301 / 100 / 2 ^ 106 * 700 ≤ 1 / 2 ^ 90 := by norm_num
    constructor <;> linarith
  have hR' : |R - (A - 1)| ≤ 1 / 2 ^ 105 * (|L| + 1 / 2 ^ 90) :=
    le_trans hR (mul_le_mul_of_nonneg_left hA1 (by positivity))
  obtain ⟨r1, r2⟩ := abs_le.1 hR'
  have fin : (1 : ℝ) / 2 ^ 105 * (|L| + 1 / 2 ^ 90) + (10011 / 1000 / 2 ^ 106 + 301 / 100 / 2 ^ 106 * |L|)
      ≤ 1002 / 100 / 2 ^ 106 + 502 / 100 / 2 ^ 106 * |L| := by
    have h1 : (1 : ℝ) / 2 ^ 105 = 2 / 2 ^ 106 := by norm_num
    rw [h1]
    nlinarith
  rw [abs_le]
  constructor <;> linarith

end real

/-! ## 3. the Newton step on pairs -/

section tf
open F64 TwoFloat

theorem rv_neg (x : TwoFloat) : rv (arithmetic.impl_Neg_for_TwoFloat.neg x) = -rv x := by
  show rv (arithmetic.impl_Neg_for_rTwoFloat.neg x) = _
  unfold rv; rw [TwoFloat.V_neg]; push_cast; ring

theorem VW_neg {x : TwoFloat} (h : VW x) : VW (arithmetic.impl_Neg_for_TwoFloat.neg x) :=
  ⟨TwoFloat.Valid.neg h.1 h.2.1, TwoFloat.neg_WF' h.2⟩

/-- the literal `1.0` as an operand of `TwoFloat − f64` -/
theorem sub_one_rv {x : TwoFloat} (hx : VW x) (bx : |rv x| ≤ 2 ^ 1000) :
    VW (arithmetic.impl_Sub_f64_for_TwoFloat.sub x (f64lit 0x3ff0000000000000)) ∧
    |rv (arithmetic.impl_Sub_f64_for_TwoFloat.sub x (f64lit 0x3ff0000000000000)) - (rv x - 1)|
      ≤ 1 / 2 ^ 105 * |rv x - 1| := by
  have h := sub_tf_rv hx C01d.one_isVal.1 C01d.one_WF bx (by
    rw [C01d.one_isVal.2, Int.natAbs_natCast, F64.unit_eq]; norm_num)
  rwa [fv_one] at h

/-- the product `v·exp(−x)` for `x` within `2^-19` of `L = ln v`, `−694 ≤ L ≤ 664.23`: a valid pair `P`, and the data
of `prod_near` with `E = exp(−x)` computed (`d = 21u²`, or `37u²` when `x ≥ 0.7499`) -/
theorem prod_tf {v x : TwoFloat} (hv : VW v) (hx : VW x) (hpos : 0 < rv v)
    (hL1 : -694 ≤ Real.log (rv v)) (hL2 : Real.log (rv v) ≤ 66543 / 100)
    (hvhi : rv v ≤ 2 ^ 960 * (1 - 1 / 2 ^ 17))
    (he : |rv x - Real.log (rv v)| ≤ 1 / 2 ^ 19) :
    VW (arithmetic.impl_Mul_TwoFloat_for_TwoFloat.mul v (TwoFloat.exp (arithmetic.impl_Neg_for_TwoFloat.neg x))) ∧
    ∃ E d : ℝ, 0 ≤ d ∧ (d = 21 / 2 ^ 106 ∨ (d = 37 / 2 ^ 106 ∧ 7499 / 10000 ≤ rv x)) ∧
      |E - Real.exp (-(Real.log (rv v) + (rv x - Real.log (rv v))))|
        ≤ d * Real.exp (-(Real.log (rv v) + (rv x - Real.log (rv v)))) ∧
      |rv (arithmetic.impl_Mul_TwoFloat_for_TwoFloat.mul v (TwoFloat.exp (arithmetic.impl_Neg_for_TwoFloat.neg x)))
        - Real.exp (Real.log (rv v)) * E| ≤ 7 / 2 ^ 106 * |Real.exp (Real.log (rv v)) * E| ∧
      |rv (arithmetic.impl_Mul_TwoFloat_for_TwoFloat.mul v (TwoFloat.exp (arithmetic.impl_Neg_for_TwoFloat.neg x)))|
        ≤ 4 := by
  obtain ⟨e1, e2⟩ := abs_le.1 he
  have hN := VW_neg hx
  have hNr := rv_neg x
  have h19 : (1 : ℝ) / 2 ^ 19 ≤ 1 / 10 := by norm_num
  have hprod : (1 + 1 / 2 ^ 40) / 2 ^ 960 ≤ Real.exp (-rv x) := by
    have e0 : -rv x = -Real.log (rv v) + -(rv x - Real.log (rv v)) := by ring
    rw [e0, Real.exp_add, Real.exp_neg, Real.exp_log hpos]
    have h1 : 1 - 1 / 2 ^ 19 ≤ Real.exp (-(rv x - Real.log (rv v))) := by
      have := Real.add_one_le_exp (-(rv x - Real.log (rv v)))
      linarith
    have hK : (0 : ℝ) < 2 ^ 960 := by positivity
    have hden : (0 : ℝ) < 2 ^ 960 * (1 - 1 / 2 ^ 17) := mul_pos hK (by norm_num)
    have h2 : (2 ^ 960 * (1 - 1 / 2 ^ 17))⁻¹ ≤ (rv v)⁻¹ := inv_anti₀ hpos hvhi
    have c : (1 + 1 / 2 ^ 40 : ℝ) * (1 - 1 / 2 ^ 17) ≤ 1 - 1 / 2 ^ 19 := by norm_num
    calc (1 + 1 / 2 ^ 40 : ℝ) / 2 ^ 960 ≤ (2 ^ 960 * (1 - 1 / 2 ^ 17))⁻¹ * (1 - 1 / 2 ^ 19) := by
          rw [inv_mul_eq_div, div_le_div_iff₀ hK hden]
          calc (1 + 1 / 2 ^ 40 : ℝ) * (2 ^ 960 * (1 - 1 / 2 ^ 17))
              = 2 ^ 960 * ((1 + 1 / 2 ^ 40) * (1 - 1 / 2 ^ 17)) := by ring
            _ ≤ 2 ^ 960 * (1 - 1 / 2 ^ 19) := mul_le_mul_of_nonneg_left c hK.le
            _ = (1 - 1 / 2 ^ 19) * 2 ^ 960 := by ring
      _ ≤ (rv v)⁻¹ * Real.exp (-(rv x - Real.log (rv v))) :=
          mul_le_mul h2 h1 (by norm_num) (inv_nonneg.2 hpos.le)
  obtain ⟨hE, d, hEb, hd⟩ := exp_bound_sharp (arithmetic.impl_Neg_for_TwoFloat.neg x) hN.1 hN.2
    (by rw [hNr]; linarith) (by rw [hNr]; linarith) (by rw [hNr]; exact hprod)
  rw [hNr] at hEb hd
  generalize TwoFloat.exp (arithmetic.impl_Neg_for_TwoFloat.neg x) = Ex at *
  have hd0 : 0 ≤ d := by rcases hd with h | ⟨h, _⟩ <;> rw [h] <;> positivity
  have hd37 : d ≤ 37 / 2 ^ 106 := by rcases hd with h | ⟨h, _⟩ <;> (rw [h]; try norm_num)
  have hexpL : Real.exp (Real.log (rv v)) = rv v := Real.exp_log hpos
  have eqx : -(Real.log (rv v) + (rv x - Real.log (rv v))) = -rv x := by ring
  have hEb' : |rv Ex - Real.exp (-(Real.log (rv v) + (rv x - Real.log (rv v))))|
      ≤ d * Real.exp (-(Real.log (rv v) + (rv x - Real.log (rv v)))) := by rw [eqx]; exact hEb
  obtain ⟨r1, r2⟩ := prod_range he hd37 hEb'
  rw [hexpL] at r1 r2
  have habs : |rv v * rv Ex| = rv v * rv Ex := abs_of_pos (by linarith)
  obtain ⟨hP, hPb⟩ := mul_rv_rel hv hE (by rw [habs]; exact le_trans (by norm_num) r1)
    (by rw [habs]; exact le_trans r2 (by norm_num))
  refine ⟨hP, rv Ex, d, hd0, ?_, hEb', by rw [hexpL]; exact hPb, ?_⟩
  · rcases hd with h | ⟨h, h'⟩
    · exact Or.inl h
    · exact Or.inr ⟨h, by linarith⟩
  · rw [habs] at hPb
    obtain ⟨p1, p2⟩ := abs_le.1 hPb
    rw [abs_le]
    constructor <;> nlinarith

/-- the correction term `v·exp(−x) − 1` of the first two Newton steps -/
def corr (v x : TwoFloat) : TwoFloat :=
  arithmetic.impl_Sub_f64_for_TwoFloat.sub
    (arithmetic.impl_Mul_TwoFloat_for_TwoFloat.mul v (TwoFloat.exp (arithmetic.impl_Neg_for_TwoFloat.neg x)))
    (f64lit 0x3ff0000000000000)

/-- **an intermediate Newton step of `ln`**, `x ← x + (v·exp(−x) − 1)`: from an error `|x − ln v| ≤ 2^-19` to
`(x − ln v)² + 2^-92` -/
theorem step_bound {v x : TwoFloat} (hv : VW v) (hx : VW x) (hpos : 0 < rv v)
    (hL1 : -694 ≤ Real.log (rv v)) (hL2 : Real.log (rv v) ≤ 66543 / 100)
    (hvhi : rv v ≤ 2 ^ 960 * (1 - 1 / 2 ^ 17))
    (he : |rv x - Real.log (rv v)| ≤ 1 / 2 ^ 19) :
    VW (arithmetic.impl_AddAssign_TwoFloat_for_TwoFloat.add_assign x (corr v x)) ∧
    |rv (arithmetic.impl_AddAssign_TwoFloat_for_TwoFloat.add_assign x (corr v x)) - Real.log (rv v)|
      ≤ (rv x - Real.log (rv v)) ^ 2 + 1 / 2 ^ 92 := by
  obtain ⟨hP, E, d, hd0, hd, hE, hPb, hP4⟩ := prod_tf hv hx hpos hL1 hL2 hvhi he
  have hd37 : d ≤ 37 / 2 ^ 106 := by rcases hd with h | ⟨h, _⟩ <;> (rw [h]; try norm_num)
  unfold corr
  generalize arithmetic.impl_Mul_TwoFloat_for_TwoFloat.mul v (TwoFloat.exp (arithmetic.impl_Neg_for_TwoFloat.neg x))
    = P at *
  obtain ⟨hS, hSb⟩ := sub_one_rv hP (le_trans hP4 (by norm_num))
  generalize arithmetic.impl_Sub_f64_for_TwoFloat.sub P (f64lit 0x3ff0000000000000) = S at *
  have hLabs : |Real.log (rv v)| ≤ 700 := abs_le.2 ⟨by linarith, by linarith⟩
  obtain ⟨e1, e2⟩ := abs_le.1 he
  have h19 : (1 : ℝ) / 2 ^ 19 ≤ 1 / 10 := by norm_num
  have hxabs : |rv x| ≤ 2 ^ 1000 := by
    have : |rv x| ≤ 701 := abs_le.2 ⟨by linarith, by linarith⟩
    exact le_trans this (by norm_num)
  have hSabs : |rv S| ≤ 2 ^ 1000 := by
    obtain ⟨p1, p2⟩ := abs_le.1 hP4
    have h1 : |rv P - 1| ≤ 5 := abs_le.2 ⟨by linarith, by linarith⟩
    have h2 := abs_sub_abs_le_abs_sub (rv S) (rv P - 1)
    have h3 : (1 : ℝ) / 2 ^ 105 * |rv P - 1| ≤ 1 * 5 := mul_le_mul (by norm_num) h1 (abs_nonneg _) (by norm_num)
    have : |rv S| ≤ 10 := by linarith
    exact le_trans this (by norm_num)
  obtain ⟨hX, hXb⟩ := add_rv hx hS hxabs hSabs
  refine ⟨hX, ?_⟩
  have e3 : rv x = Real.log (rv v) + (rv x - Real.log (rv v)) := by ring
  rw [e3] at hXb
  exact newton_step_real hLabs he hd0 hd37 hE hPb hSb hXb

/-- **the last Newton step of `ln`**, `(x + v·exp(−x)) − 1` with `|x − ln v| ≤ 2^-70`: error at most
`2^-101·(1 + |ln v|)` -/
theorem final_bound {v x : TwoFloat} (hv : VW v) (hx : VW x) (hpos : 0 < rv v)
    (hL1 : -694 ≤ Real.log (rv v)) (hL2 : Real.log (rv v) ≤ 66543 / 100)
    (hvhi : rv v ≤ 2 ^ 960 * (1 - 1 / 2 ^ 17))
    (he : |rv x - Real.log (rv v)| ≤ 1 / 2 ^ 70) :
    VW (arithmetic.impl_Sub_f64_for_TwoFloat.sub (arithmetic.impl_Add_TwoFloat_for_TwoFloat.add x
      (arithmetic.impl_Mul_TwoFloat_for_TwoFloat.mul v (TwoFloat.exp (arithmetic.impl_Neg_for_TwoFloat.neg x))))
      (f64lit 0x3ff0000000000000)) ∧
    |rv (arithmetic.impl_Sub_f64_for_TwoFloat.sub (arithmetic.impl_Add_TwoFloat_for_TwoFloat.add x
      (arithmetic.impl_Mul_TwoFloat_for_TwoFloat.mul v (TwoFloat.exp (arithmetic.impl_Neg_for_TwoFloat.neg x))))
      (f64lit 0x3ff0000000000000)) - Real.log (rv v)| ≤ 1 / 2 ^ 101 * (1 + |Real.log (rv v)|) := by
  have he19 : |rv x - Real.log (rv v)| ≤ 1 / 2 ^ 19 := le_trans he (by norm_num)
  obtain ⟨hP, E, d, hd0, hd, hE, hPb, hP4⟩ := prod_tf hv hx hpos hL1 hL2 hvhi he19
  have hd37 : d ≤ 37 / 2 ^ 106 := by rcases hd with h | ⟨h, _⟩ <;> (rw [h]; try norm_num)
  generalize arithmetic.impl_Mul_TwoFloat_for_TwoFloat.mul v (TwoFloat.exp (arithmetic.impl_Neg_for_TwoFloat.neg x))
    = P at *
  have hLabs : |Real.log (rv v)| ≤ 700 := abs_le.2 ⟨by linarith, by linarith⟩
  obtain ⟨e1, e2⟩ := abs_le.1 he
  have h70 : (1 : ℝ) / 2 ^ 70 ≤ 1 / 10000 := by norm_num
  have hxabs : |rv x| ≤ 2 ^ 1000 := by
    have : |rv x| ≤ 701 := abs_le.2 ⟨by linarith, by linarith⟩
    exact le_trans this (by norm_num)
  obtain ⟨hA, hAb⟩ := add_rv hx hP hxabs (le_trans hP4 (by norm_num))
  generalize arithmetic.impl_Add_TwoFloat_for_TwoFloat.add x P = A at *
  have hAabs : |rv A| ≤ 2 ^ 1000 := by
    obtain ⟨p1, p2⟩ := abs_le.1 hP4
    have h1 : |rv x + rv P| ≤ 705 := abs_le.2 ⟨by linarith, by linarith⟩
    have h2 := abs_sub_abs_le_abs_sub (rv A) (rv x + rv P)
    have h3 : cA * |rv x + rv P| ≤ 1 * 705 :=
      mul_le_mul (le_trans cA_le (by norm_num)) h1 (abs_nonneg _) (by norm_num)
    have : |rv A| ≤ 1410 := by linarith
    exact le_trans this (by norm_num)
  obtain ⟨hR, hRb⟩ := sub_one_rv hA hAabs
  refine ⟨hR, ?_⟩
  generalize arithmetic.impl_Sub_f64_for_TwoFloat.sub A (f64lit 0x3ff0000000000000) = R at *
  have e3 : rv x = Real.log (rv v) + (rv x - Real.log (rv v)) := by ring
  rw [e3] at hAb
  have key := newton_final_real hLabs he hd0 hd37 hE hPb hAb hRb
  refine le_trans key ?_
  have hLa := abs_nonneg (Real.log (rv v))
  rcases hd with h | ⟨h, hx7⟩
  · rw [h]
    have e : (1 : ℝ) / 2 ^ 101 = 32 / 2 ^ 106 := by norm_num
    rw [e]
    nlinarith
  · rw [h]
    have hLge : 7498 / 10000 ≤ |Real.log (rv v)| := by
      have : 7498 / 10000 ≤ Real.log (rv v) := by linarith
      exact le_trans this (le_abs_self _)
    have e : (1 : ℝ) / 2 ^ 101 = 32 / 2 ^ 106 := by norm_num
    rw [e]
    nlinarith

end tf

/-! ## 4. assembly: `ln` -/

section assembly
open F64 TwoFloat

theorem fv_pos_iff {f : F64} : 0 < fv f ↔ 0 < f.toInt := by
  unfold fv
  rw [div_pos_iff_of_pos_right (by positivity)]
  exact Int.cast_pos

/-- a valid pair with a positive high word is positive, and `ln(hi + lo)` is within `2^-52` of `ln hi` -/
theorem log_rv_near_hi {v : TwoFloat} (hv : v.Valid) (h : 0 < fv v.hi) :
    0 < rv v ∧ |Real.log (rv v) - Real.log (fv v.hi)| ≤ 1 / 2 ^ 52 ∧ rv v ≤ (1 + 1 / 2 ^ 53) * fv v.hi := by
  have hH : 0 < v.hi.toInt := fv_pos_iff.1 h
  have hV : 0 < v.V := by
    by_contra hc
    have := rnI_nonpos_iff.2 (not_lt.1 hc)
    rw [← hv.hi_toInt] at this
    omega
  obtain ⟨b1, b2⟩ := PowiBound.hi_bounds hv
  rw [abs_of_pos hH, abs_of_pos hV] at b1 b2
  have hU : (0 : ℝ) < 2 ^ 1074 := by positivity
  have hHr : (0 : ℝ) < (v.hi.toInt : ℝ) := by exact_mod_cast hH
  have hVr : (0 : ℝ) < (v.V : ℝ) := by exact_mod_cast hV
  have c1 : ((2 : ℝ) ^ 53 - 1) * (v.hi.toInt : ℝ) ≤ 2 ^ 53 * (v.V : ℝ) := by exact_mod_cast b1
  have c2 : (2 : ℝ) ^ 53 * (v.V : ℝ) ≤ (2 ^ 53 + 1) * (v.hi.toInt : ℝ) := by exact_mod_cast b2
  have hrv : 0 < rv v := div_pos hVr hU
  refine ⟨hrv, ?_, ?_⟩
  swap
  · unfold rv fv
    rw [← mul_div_assoc, div_le_div_iff_of_pos_right hU]
    have e : (1 + 1 / 2 ^ 53 : ℝ) = (2 ^ 53 + 1) / 2 ^ 53 := by norm_num
    rw [e, div_mul_eq_mul_div, le_div_iff₀ (by positivity)]
    linarith
  rw [← Real.log_div hrv.ne' h.ne']
  have er : rv v / fv v.hi = (v.V : ℝ) / (v.hi.toInt : ℝ) := by
    unfold rv fv; field_simp
  rw [er]
  set r := (v.V : ℝ) / (v.hi.toInt : ℝ) with hr
  have hr0 : 0 < r := div_pos hVr hHr
  have r1 : (2 ^ 53 - 1) / 2 ^ 53 ≤ r := by
    rw [hr, div_le_div_iff₀ (by positivity) hHr]; linarith
  have r2 : r ≤ (2 ^ 53 + 1) / 2 ^ 53 := by
    rw [hr, div_le_div_iff₀ hHr (by positivity)]; linarith
  have u1 := Real.log_le_sub_one_of_pos hr0
  have u2 := Real.one_sub_inv_le_log_of_pos hr0
  have r3 : r⁻¹ ≤ 2 ^ 53 / (2 ^ 53 - 1) := by
    rw [inv_le_comm₀ hr0 (by norm_num), inv_div]; exact r1
  rw [abs_le]
  constructor
  · have : (2 : ℝ) ^ 53 / (2 ^ 53 - 1) ≤ 1 + 1 / 2 ^ 52 := by norm_num
    linarith
  · have : ((2 : ℝ) ^ 53 + 1) / 2 ^ 53 ≤ 1 + 1 / 2 ^ 52 := by norm_num
    linarith

/-- `ln` of a high word in `[2^-1000, 2^960]` -/
theorem log_hi_range {h : ℝ} (h1 : 1 / 2 ^ 1000 ≤ h) (h2 : h ≤ 2 ^ 960) :
    -6932 / 10 ≤ Real.log h ∧ Real.log h ≤ 665422 / 1000 := by
  have hpos : 0 < h := lt_of_lt_of_le (by positivity) h1
  have l1 := Real.log_two_lt_d9
  have l2 := Real.log_two_gt_d9
  constructor
  · have := Real.log_le_log (by positivity) h1
    rw [one_div, Real.log_inv, Real.log_pow] at this
    push_cast at this
    linarith
  · have := Real.log_le_log hpos h2
    rw [Real.log_pow] at this
    push_cast at this
    linarith

/-- the generic branch of the core of `ln` as two `add_assign` steps and the final expression -/
theorem lnCore_eq_steps (v : TwoFloat)
    (h1 : base.impl_PartialEq_f64_for_TwoFloat.eq v (f64lit 0x3ff0000000000000) = false)
    (h2 : ROrd.isLe (base.impl_PartialOrd_f64_for_TwoFloat.partial_cmp v (f64lit 0)) = false) :
    TwoFloat.lnCore v =
      (let x0 := convert.impl_From_f64_for_TwoFloat.from (Libm.log v.hi)
       let x1 := arithmetic.impl_AddAssign_TwoFloat_for_TwoFloat.add_assign x0 (corr v x0)
       let x2 := arithmetic.impl_AddAssign_TwoFloat_for_TwoFloat.add_assign x1 (corr v x1)
       arithmetic.impl_Sub_f64_for_TwoFloat.sub (arithmetic.impl_Add_TwoFloat_for_TwoFloat.add x2
         (arithmetic.impl_Mul_TwoFloat_for_TwoFloat.mul v (TwoFloat.exp (arithmetic.impl_Neg_for_TwoFloat.neg x2))))
         (f64lit 0x3ff0000000000000)) := by
  unfold TwoFloat.lnCore
  simp only [h1, h2]
  rfl

/-- a high word of value `≥ 2^-1000` fails the test `self.hi < 2^-1000` of the rescaling branch of `ln` -/
theorem not_tiny_of_fv {v : TwoFloat} (hf : v.hi.is_finite = true) (hlo : 1 / 2 ^ 1000 ≤ fv v.hi) :
    (v.hi <. f64lit 0x0170000000000000) = false := by
  refine LnScale.not_tiny_of_hi_ge hf ?_
  unfold fv at hlo
  rw [div_le_div_iff₀ (by positivity) (by positivity)] at hlo
  have e : (2 : ℝ) ^ 1074 = 2 ^ 74 * 2 ^ 1000 := by rw [← pow_add]
  rw [e, one_mul] at hlo
  have h2 : (2 : ℝ) ^ 74 ≤ (v.hi.toInt : ℝ) :=
    le_of_mul_le_mul_right hlo (by positivity)
  exact_mod_cast h2

/-- the generic branch of `ln` (high word not below `2^-1000`) as two `add_assign` steps and the final expression -/
theorem ln_eq_steps (v : TwoFloat)
    (h1 : base.impl_PartialEq_f64_for_TwoFloat.eq v (f64lit 0x3ff0000000000000) = false)
    (h2 : ROrd.isLe (base.impl_PartialOrd_f64_for_TwoFloat.partial_cmp v (f64lit 0)) = false)
    (h3 : (v.hi <. f64lit 0x0170000000000000) = false) :
    TwoFloat.ln v =
      (let x0 := convert.impl_From_f64_for_TwoFloat.from (Libm.log v.hi)
       let x1 := arithmetic.impl_AddAssign_TwoFloat_for_TwoFloat.add_assign x0 (corr v x0)
       let x2 := arithmetic.impl_AddAssign_TwoFloat_for_TwoFloat.add_assign x1 (corr v x1)
       arithmetic.impl_Sub_f64_for_TwoFloat.sub (arithmetic.impl_Add_TwoFloat_for_TwoFloat.add x2
         (arithmetic.impl_Mul_TwoFloat_for_TwoFloat.mul v (TwoFloat.exp (arithmetic.impl_Neg_for_TwoFloat.neg x2))))
         (f64lit 0x3ff0000000000000)) := by
  rw [LnCore.ln_eq_lnCore v h3]
  exact lnCore_eq_steps v h1 h2

/-- **accuracy of `TwoFloat::ln`, given the accuracy of the seed**: for a valid `v` with high word in
`[2^-1000, 2^960 − 2^944]`, `|ln(v) − ln v| ≤ 2^-101·(1 + |ln v|)` -/
theorem ln_bound_of_seed (v : TwoFloat) (hv : v.Valid) (hw : v.WF)
    (hlo : 1 / 2 ^ 1000 ≤ fv v.hi) (hhi : fv v.hi ≤ 2 ^ 960 - 2 ^ 944)
    (hseed : (Libm.log v.hi).is_finite = true ∧ |fv (Libm.log v.hi) - Real.log (fv v.hi)| ≤ 1 / 2 ^ 20) :
    VW (TwoFloat.ln v) ∧
    |rv (TwoFloat.ln v) - Real.log (rv v)| ≤ 1 / 2 ^ 101 * (1 + |Real.log (rv v)|) := by
  have hhpos : 0 < fv v.hi := lt_of_lt_of_le (by positivity) hlo
  obtain ⟨hpos, hnear, hvle⟩ := log_rv_near_hi hv hhpos
  have hhi' : fv v.hi ≤ 2 ^ 960 := le_trans hhi (by norm_num)
  obtain ⟨g1, g2⟩ := log_hi_range hlo hhi'
  have hvhi : rv v ≤ 2 ^ 960 * (1 - 1 / 2 ^ 17) := by
    have h1 : (1 + 1 / 2 ^ 53 : ℝ) * fv v.hi ≤ (1 + 1 / 2 ^ 53) * (2 ^ 960 - 2 ^ 944) :=
      mul_le_mul_of_nonneg_left hhi (by positivity)
    have h2 : (1 + 1 / 2 ^ 53 : ℝ) * (2 ^ 960 - 2 ^ 944) ≤ 2 ^ 960 * (1 - 1 / 2 ^ 17) := by
      have e : (2 : ℝ) ^ 960 = 2 ^ 16 * 2 ^ 944 := by rw [← pow_add]
      have hK : (0 : ℝ) < 2 ^ 944 := by positivity
      rw [e]
      generalize (2 : ℝ) ^ 944 = K at *
      have c : (1 + 1 / 2 ^ 53 : ℝ) * (2 ^ 16 - 1) ≤ 2 ^ 16 * (1 - 1 / 2 ^ 17) := by norm_num
      calc (1 + 1 / 2 ^ 53 : ℝ) * (2 ^ 16 * K - K) = ((1 + 1 / 2 ^ 53) * (2 ^ 16 - 1)) * K := by ring
        _ ≤ (2 ^ 16 * (1 - 1 / 2 ^ 17)) * K := mul_le_mul_of_nonneg_right c hK.le
        _ = 2 ^ 16 * K * (1 - 1 / 2 ^ 17) := by ring
    linarith
  obtain ⟨n1, n2⟩ := abs_le.1 hnear
  have h52 : (1 : ℝ) / 2 ^ 52 ≤ 1 / 10 := by norm_num
  have hL1 : -694 ≤ Real.log (rv v) := by linarith
  have hL2 : Real.log (rv v) ≤ 66543 / 100 := by linarith
  have hVpos : 0 < v.V := by
    have : (0 : ℝ) < (v.V : ℝ) := by
      have : rv v = (v.V : ℝ) / 2 ^ 1074 := rfl
      rw [this] at hpos
      exact (div_pos_iff_of_pos_right (by positivity)).1 hpos
    exact_mod_cast this
  cases hone : base.impl_PartialEq_f64_for_TwoFloat.eq v (f64lit 0x3ff0000000000000)
  · -- the generic branch
    have hle : ROrd.isLe (base.impl_PartialOrd_f64_for_TwoFloat.partial_cmp v (f64lit 0)) = false := by
      rw [Ident.f64lit_zero, partial_cmp_tf_exact_of F64.roundFacts hv (WF_zero false) rfl, Bool.eq_false_iff]
      intro hc
      have := ROrd.isLe_ofInts.1 hc
      rw [toInt_zero] at this
      omega
    rw [ln_eq_steps v hone hle (not_tiny_of_fv hv.1 hlo)]
    dsimp only
    -- the seed
    have hLw : (Libm.log v.hi).WF := PF.libm_log_WF hw.1
    have hx0 : VW (convert.impl_From_f64_for_TwoFloat.from (Libm.log v.hi)) ∧
        rv (convert.impl_From_f64_for_TwoFloat.from (Libm.log v.hi)) = fv (Libm.log v.hi) := by
      rw [from_eq]
      obtain ⟨p1, p2, p3⟩ := pair_zero_spec hseed.1 hLw
      refine ⟨⟨p2, p3⟩, ?_⟩
      unfold rv fv; rw [p1]
    generalize convert.impl_From_f64_for_TwoFloat.from (Libm.log v.hi) = x0 at *
    have he0 : |rv x0 - Real.log (rv v)| ≤ 1 / 2 ^ 19 := by
      rw [hx0.2]
      obtain ⟨s1, s2⟩ := abs_le.1 hseed.2
      rw [abs_le]
      have : (1 : ℝ) / 2 ^ 20 + 1 / 2 ^ 52 ≤ 1 / 2 ^ 19 := by norm_num
      constructor <;> linarith
    obtain ⟨hx1, hb1⟩ := step_bound ⟨hv, hw⟩ hx0.1 hpos hL1 hL2 hvhi he0
    generalize arithmetic.impl_AddAssign_TwoFloat_for_TwoFloat.add_assign x0 (corr v x0) = x1 at *
    have he1 : |rv x1 - Real.log (rv v)| ≤ 1 / 2 ^ 37 := by
      refine le_trans hb1 ?_
      have : (rv x0 - Real.log (rv v)) ^ 2 ≤ (1 / 2 ^ 19) ^ 2 := by
        rw [← sq_abs]; exact pow_le_pow_left₀ (abs_nonneg _) he0 2
      have e : ((1 : ℝ) / 2 ^ 19) ^ 2 + 1 / 2 ^ 92 ≤ 1 / 2 ^ 37 := by norm_num
      linarith
    obtain ⟨hx2, hb2⟩ := step_bound ⟨hv, hw⟩ hx1 hpos hL1 hL2 hvhi (le_trans he1 (by norm_num))
    generalize arithmetic.impl_AddAssign_TwoFloat_for_TwoFloat.add_assign x1 (corr v x1) = x2 at *
    have he2 : |rv x2 - Real.log (rv v)| ≤ 1 / 2 ^ 70 := by
      refine le_trans hb2 ?_
      have : (rv x1 - Real.log (rv v)) ^ 2 ≤ (1 / 2 ^ 37) ^ 2 := by
        rw [← sq_abs]; exact pow_le_pow_left₀ (abs_nonneg _) he1 2
      have e : ((1 : ℝ) / 2 ^ 37) ^ 2 + 1 / 2 ^ 92 ≤ 1 / 2 ^ 70 := by norm_num
      linarith
    exact final_bound ⟨hv, hw⟩ hx2 hpos hL1 hL2 hvhi he2
  · -- `v == 1.0`: the result is exactly `0 = ln 1`
    rw [C15.ln_one v hone, C15.zero_words]
    have hV1 : rv v = 1 := by
      unfold base.impl_PartialEq_f64_for_TwoFloat.eq at hone
      rw [Bool.and_eq_true, req_eq, req_eq, eq_iff_toInt hv.1 C01d.one_isVal.1, Ident.f64lit_zero,
        eq_iff_toInt hv.2.1 rfl, C01d.one_isVal.2, toInt_zero] at hone
      unfold rv TwoFloat.V
      rw [hone.1, hone.2, unit_cast_eq]
      simp only [add_zero, Int.cast_pow, Int.cast_ofNat]
      exact div_self (by positivity : ((2 : ℝ) ^ 1074) ≠ 0)
    have hz : VW (⟨F64.zero, F64.zero⟩ : TwoFloat) := ⟨by decide +kernel, by decide +kernel⟩
    have hz0 : rv (⟨F64.zero, F64.zero⟩ : TwoFloat) = 0 := by
      unfold rv
      rw [show (⟨F64.zero, F64.zero⟩ : TwoFloat).V = 0 by decide +kernel]
      simp
    refine ⟨hz, ?_⟩
    rw [hz0, hV1, Real.log_one]
    norm_num

end assembly

/-! ## 5. `log10 = ln / LN_10` -/

section log10
open F64 TwoFloat

/-- real-number core: `T ≈ L` (the `ln` bound), `C ≈ c = ln 10` (relative `2^-107`), `Q ≈ T / C` (relative `2^-102`) -/
theorem log10_real {L T C Q c : ℝ} (hc : 23 / 10 ≤ c)
    (hT : |T - L| ≤ 1 / 2 ^ 101 * (1 + |L|))
    (hC : |c - C| ≤ c / 2 ^ 107)
    (hQ : |T - Q * C| ≤ 1 / 2 ^ 102 * |T|) :
    |Q - L / c| ≤ 1 / 2 ^ 100 * (1 + |L / c|) := by
  have hc0 : 0 < c := by linarith
  obtain ⟨c1, c2⟩ := abs_le.1 hC
  have hCpos : 0 < C := by
    have : c / 2 ^ 107 ≤ c / 2 := div_le_div_of_nonneg_left hc0.le (by norm_num) (by norm_num)
    linarith
  have hLa := abs_nonneg L
  have hTa := abs_nonneg T
  have hQa := abs_nonneg Q
  have hQC : |Q| * C ≤ (1 + 1 / 2 ^ 102) * |T| := by
    have := abs_sub_abs_le_abs_sub (Q * C) T
    rw [abs_sub_comm, abs_mul, abs_of_pos hCpos] at this
    linarith
  have hQc : |Q| * c ≤ 1001 / 1000 * |T| := by
    have h1 : |Q| * (c - c / 2 ^ 107) ≤ |Q| * C := mul_le_mul_of_nonneg_left (by linarith) hQa
    have h2 : |Q| * (c - c / 2 ^ 107) = (1 - 1 / 2 ^ 107) * (|Q| * c) := by ring
    have h3 : (1 + 1 / 2 ^ 102) * |T| ≤ (1 - 1 / 2 ^ 107) * (1001 / 1000 * |T|) := by
      have : (1 + 1 / 2 ^ 102 : ℝ) ≤ (1 - 1 / 2 ^ 107) * (1001 / 1000) := by norm_num
      nlinarith
    have h4 : (1 - 1 / 2 ^ 107 : ℝ) * (|Q| * c) ≤ (1 - 1 / 2 ^ 107) * (1001 / 1000 * |T|) := by linarith
    exact le_of_mul_le_mul_left h4 (by norm_num)
  -- |T − Q·c| ≤ 17u²|T|
  have hTQ : |T - Q * c| ≤ 17 / 2 ^ 106 * |T| := by
    have e : T - Q * c = (T - Q * C) + Q * (C - c) := by ring
    rw [e]
    refine le_trans (abs_add_le _ _) ?_
    have h1 : |Q * (C - c)| ≤ |Q| * (c / 2 ^ 107) := by
      rw [abs_mul]; exact mul_le_mul_of_nonneg_left (by rw [abs_sub_comm]; exact hC) hQa
    have h2 : |Q| * (c / 2 ^ 107) = (|Q| * c) / 2 ^ 107 := by ring
    have h3 : (|Q| * c) / 2 ^ 107 ≤ (1001 / 1000 * |T|) / 2 ^ 107 :=
      div_le_div_of_nonneg_right hQc (by positivity)
    have h4 : (1 : ℝ) / 2 ^ 102 * |T| + (1001 / 1000 * |T|) / 2 ^ 107 ≤ 17 / 2 ^ 106 * |T| := by
      have : (1 : ℝ) / 2 ^ 102 + 1001 / 1000 / 2 ^ 107 ≤ 17 / 2 ^ 106 := by norm_num
      nlinarith
    linarith
  have hTabs : |T| ≤ |L| + 1 / 2 ^ 101 * (1 + |L|) := by
    have := abs_sub_abs_le_abs_sub T L
    linarith
  have hQL : |Q * c - L| ≤ 32001 / 1000 / 2 ^ 106 + 49001 / 1000 / 2 ^ 106 * |L| := by
    have e : Q * c - L = (T - L) - (T - Q * c) := by ring
    rw [e]
    refine le_trans (abs_sub _ _) ?_
    have h1 : (17 : ℝ) / 2 ^ 106 * |T| ≤ 17 / 2 ^ 106 * (|L| + 1 / 2 ^ 101 * (1 + |L|)) :=
      mul_le_mul_of_nonneg_left hTabs (by positivity)
    have e101 : (1 : ℝ) / 2 ^ 101 = 32 / 2 ^ 106 := by norm_num
    rw [e101] at hT h1
    nlinarith
  have e : Q - L / c = (Q * c - L) / c := by field_simp
  rw [e, abs_div, abs_div, abs_of_pos hc0, div_le_iff₀ hc0]
  have h5 : |L| = |L| / c * c := by field_simp
  have hLc : 0 ≤ |L| / c := by positivity
  have e100 : (1 : ℝ) / 2 ^ 100 = 64 / 2 ^ 106 := by norm_num
  rw [e100]
  rw [h5] at hQL
  nlinarith

theorem LN_10_facts : consts.LN_10.Valid ∧ consts.LN_10.WF ∧ (2 : ℤ) ^ 1075 ≤ consts.LN_10.hi.toInt ∧
    consts.LN_10.hi.toInt ≤ (2 : ℤ) ^ 1076 := by decide +kernel

/-- **`T / LN_10` for a valid `T` with `2^-960 ≤ |T| ≤ 701`**: valid, relative error `2^-102` -/
theorem div_ln10 {T : TwoFloat} (hT : VW T) (h1 : 1 / 2 ^ 960 ≤ |rv T|) (h2 : |rv T| ≤ 701) :
    VW (arithmetic.impl_Div_TwoFloat_for_TwoFloat.div T consts.LN_10) ∧
    |rv T - rv (arithmetic.impl_Div_TwoFloat_for_TwoFloat.div T consts.LN_10) * rv consts.LN_10|
      ≤ 1 / 2 ^ 102 * |rv T| := by
  show VW (arithmetic.impl_Div_rTwoFloat_for_rTwoFloat.div T consts.LN_10) ∧
    |rv T - rv (arithmetic.impl_Div_rTwoFloat_for_rTwoFloat.div T consts.LN_10) * rv consts.LN_10|
      ≤ 1 / 2 ^ 102 * |rv T|
  obtain ⟨cv, cw, cb1, cb2⟩ := LN_10_facts
  have hU : (0 : ℝ) < 2 ^ 1074 := by positivity
  -- integer magnitude of T
  have hV1 : (2 : ℤ) ^ 114 ≤ |T.V| := by
    rw [rv_abs, le_div_iff₀ hU] at h1
    have e : (1 : ℝ) / 2 ^ 960 * 2 ^ 1074 = 2 ^ 114 := by
      rw [one_div, inv_mul_eq_div, div_eq_iff (by positivity), ← pow_add]
    rw [e] at h1
    exact_mod_cast h1
  have hV2 : |T.V| ≤ 701 * (2 : ℤ) ^ 1074 := by
    rw [rv_abs, div_le_iff₀ hU] at h2
    exact_mod_cast h2
  obtain ⟨b1, b2⟩ := PowiBound.hi_bounds hT.1
  have hA1 : (2 : ℤ) ^ 113 ≤ |T.hi.toInt| := by
    have e : (2 : ℤ) ^ 114 = 2 * 2 ^ 113 := by norm_num
    rw [e] at hV1
    generalize (2 : ℤ) ^ 113 = S at *
    generalize |T.V| = W at *
    generalize |T.hi.toInt| = H at *
    norm_num at b2 ⊢
    omega
  have hA2 : |T.hi.toInt| ≤ (2 : ℤ) ^ 1085 := by
    have e : (2 : ℤ) ^ 1085 = 2048 * 2 ^ 1074 := by norm_num
    rw [e]
    generalize (2 : ℤ) ^ 1074 = S at *
    generalize |T.V| = W at *
    generalize |T.hi.toInt| = H at *
    norm_num at b1 ⊢
    omega
  have hBabs : |consts.LN_10.hi.toInt| = consts.LN_10.hi.toInt := abs_of_pos (lt_of_lt_of_le (by positivity) cb1)
  have hAU : |T.hi.toInt * (unit : Int)| = |T.hi.toInt| * 2 ^ 1074 := by
    rw [abs_mul, unit_cast_eq, abs_of_pos (by positivity : (0 : ℤ) < 2 ^ 1074)]
  have p1 : (2 : ℤ) ^ 113 * 2 ^ 1074 = 2 ^ 1187 := by rw [← pow_add]
  have p2 : (2 : ℤ) ^ 1085 * 2 ^ 1074 = 2 ^ 2159 := by rw [← pow_add]
  have hAUlo : (2 : ℤ) ^ 1187 ≤ |T.hi.toInt * (unit : Int)| := by
    rw [hAU, ← p1]; exact mul_le_mul_of_nonneg_right hA1 (by positivity)
  have hAUhi : |T.hi.toInt * (unit : Int)| ≤ (2 : ℤ) ^ 2159 := by
    rw [hAU, ← p2]; exact mul_le_mul_of_nonneg_right hA2 (by positivity)
  have R : DivRange T.hi.toInt consts.LN_10.hi.toInt := by
    refine ⟨le_trans (by norm_num) hA1, le_trans hA2 (by norm_num), by rw [hBabs]; exact le_trans cb2 (by norm_num),
      ?_, ?_⟩
    · rw [hBabs]
      calc (2 : ℤ) ^ 64 * consts.LN_10.hi.toInt ≤ 2 ^ 64 * 2 ^ 1076 := mul_le_mul_of_nonneg_left cb2 (by positivity)
        _ ≤ 2 ^ 1187 := by norm_num
        _ ≤ _ := hAUlo
    · rw [hBabs]
      calc |T.hi.toInt * (unit : Int)| ≤ (2 : ℤ) ^ 2159 := hAUhi
        _ ≤ 2 ^ 2090 * 2 ^ 1075 := by norm_num
        _ ≤ 2 ^ 2090 * consts.LN_10.hi.toInt := mul_le_mul_of_nonneg_left cb1 (by positivity)
  have hB : 2 ^ 110 * |consts.LN_10.hi.toInt| ≤ |T.hi.toInt * (unit : Int)| := by
    rw [hBabs]
    calc (2 : ℤ) ^ 110 * consts.LN_10.hi.toInt ≤ 2 ^ 110 * 2 ^ 1076 := mul_le_mul_of_nonneg_left cb2 (by positivity)
      _ ≤ 2 ^ 1187 := by norm_num
      _ ≤ _ := hAUlo
  have hA : (2 : ℤ) ^ 110 ≤ |T.hi.toInt| := le_trans (by norm_num) hA1
  obtain ⟨qv, qw⟩ := TwoFloat.div_tt_valid_of_range hT.1 hT.2 cv R
  have hacc := TwoFloat.div_tt_acc hT.1 hT.2 cv R hB hA
  refine ⟨⟨qv, qw⟩, ?_⟩
  generalize arithmetic.impl_Div_rTwoFloat_for_rTwoFloat.div T consts.LN_10 = Q at *
  rw [unit_cast_eq] at hacc
  have hq : (2 : ℝ) ^ 102 * |(T.V : ℝ) * 2 ^ 1074 - (Q.V : ℝ) * (consts.LN_10.V : ℝ)| ≤ |(T.V : ℝ) * 2 ^ 1074| := by
    exact_mod_cast hacc
  have e1 : rv T - rv Q * rv consts.LN_10
      = ((T.V : ℝ) * 2 ^ 1074 - (Q.V : ℝ) * (consts.LN_10.V : ℝ)) / (2 ^ 1074 * 2 ^ 1074) := by
    unfold rv; field_simp
  have e2 : rv T = ((T.V : ℝ) * 2 ^ 1074) / (2 ^ 1074 * 2 ^ 1074) := by unfold rv; field_simp
  rw [e1, e2, abs_div, abs_div, abs_of_pos (by positivity : (0 : ℝ) < 2 ^ 1074 * 2 ^ 1074), ← mul_div_assoc,
    div_le_div_iff_of_pos_right (by positivity), one_div_mul_eq_div, le_div_iff₀ (by positivity)]
  linarith

/-- **accuracy of `log10`, given the `ln` bound and a numerator outside the underflow range** (`|ln(v)| ≥ 2^-960`, a
condition on the COMPUTED logarithm): `|log10(v) − log₁₀ v| ≤ 2^-100·(1 + |log₁₀ v|)` -/
theorem log10_of_ln' {v : TwoFloat} (hT : VW (TwoFloat.ln v)) (hL : |Real.log (rv v)| ≤ 700)
    (hb : |rv (TwoFloat.ln v) - Real.log (rv v)| ≤ 1 / 2 ^ 101 * (1 + |Real.log (rv v)|))
    (hT1 : 1 / 2 ^ 960 ≤ |rv (TwoFloat.ln v)|) :
    VW (TwoFloat.log10 v) ∧
    |rv (TwoFloat.log10 v) - Real.log (rv v) / Real.log 10|
      ≤ 1 / 2 ^ 100 * (1 + |Real.log (rv v) / Real.log 10|) := by
  show VW (arithmetic.impl_Div_TwoFloat_for_TwoFloat.div (TwoFloat.ln v) consts.LN_10) ∧
    |rv (arithmetic.impl_Div_TwoFloat_for_TwoFloat.div (TwoFloat.ln v) consts.LN_10) - Real.log (rv v) / Real.log 10|
      ≤ 1 / 2 ^ 100 * (1 + |Real.log (rv v) / Real.log 10|)
  generalize TwoFloat.ln v = T at *
  have hLa := abs_nonneg (Real.log (rv v))
  have h1 := abs_sub_abs_le_abs_sub (rv T) (Real.log (rv v))
  have e101 : (1 : ℝ) / 2 ^ 101 * (1 + |Real.log (rv v)|) ≤ 1 / 2 ^ 101 * 701 :=
    mul_le_mul_of_nonneg_left (by linarith) (by positivity)
  have hT2 : |rv T| ≤ 701 := by
    have : (1 : ℝ) / 2 ^ 101 * 701 ≤ 1 := by norm_num
    linarith
  obtain ⟨hQ, hQb⟩ := div_ln10 hT hT1 hT2
  refine ⟨hQ, ?_⟩
  have hc : 23 / 10 ≤ Real.log 10 := by
    have h := log_ten_encl.1
    have hq : (23 / 10 : ℚ) ≤ ln10Lo := by decide +kernel
    have := (Rat.cast_le (K := ℝ)).2 hq
    push_cast at this
    linarith
  have hC : |Real.log 10 - rv consts.LN_10| ≤ Real.log 10 / 2 ^ 107 := by
    have := C12x.LN_10_rel_err
    rwa [abs_of_pos (by linarith : (0 : ℝ) < Real.log 10)] at this
  exact log10_real hc hb hC hQb

/-- **accuracy of `log10`, given the `ln` bound**: `|log10(v) − log₁₀ v| ≤ 2^-100·(1 + |log₁₀ v|)`, provided `v` is
not within `≈ 2^-99` of `1` (so that the numerator `ln v` of the long division is certainly outside the underflow
range) -/
theorem log10_of_ln {v : TwoFloat} (hT : VW (TwoFloat.ln v)) (hL : |Real.log (rv v)| ≤ 700)
    (hb : |rv (TwoFloat.ln v) - Real.log (rv v)| ≤ 1 / 2 ^ 101 * (1 + |Real.log (rv v)|))
    (hfar : 1 / 2 ^ 99 ≤ |Real.log (rv v)|) :
    VW (TwoFloat.log10 v) ∧
    |rv (TwoFloat.log10 v) - Real.log (rv v) / Real.log 10|
      ≤ 1 / 2 ^ 100 * (1 + |Real.log (rv v) / Real.log 10|) := by
  refine log10_of_ln' hT hL hb ?_
  have hLa := abs_nonneg (Real.log (rv v))
  have h2 := abs_sub_abs_le_abs_sub (Real.log (rv v)) (rv (TwoFloat.ln v))
  rw [abs_sub_comm] at h2
  have e : (1 : ℝ) / 2 ^ 101 * (1 + |Real.log (rv v)|) ≤ 1 / 2 ^ 101 + 1 / 4 * |Real.log (rv v)| := by
    have : (1 : ℝ) / 2 ^ 101 ≤ 1 / 4 := by norm_num
    nlinarith
  have e99 : (1 : ℝ) / 2 ^ 99 = 4 / 2 ^ 101 := by norm_num
  have e960 : (1 : ℝ) / 2 ^ 960 ≤ 2 / 2 ^ 101 := by
    rw [div_le_div_iff₀ (by positivity) (by positivity)]
    norm_num
  rw [e99] at hfar
  linarith

end log10

/-! ## 6. the unconditional statements -/

section final
open F64 TwoFloat

/-- the seed `libm::log(hi)` of a finite positive well-formed high word (`LnSeed.libm_log_coarse`) -/
theorem seed_ok {h : F64} (hf : h.is_finite = true) (hw : h.WF) (hp : 0 < fv h) :
    (Libm.log h).is_finite = true ∧ |fv (Libm.log h) - Real.log (fv h)| ≤ 1 / 2 ^ 20 := by
  obtain ⟨s, n, rfl⟩ := is_finite_iff.mp hf
  have := fv_pos_iff.1 hp
  cases s
  · have hn : 0 < n := by simpa [toInt] using this
    exact LnSeed.libm_log_coarse n hn hw
  · exfalso; simp [toInt] at this; omega

/-- **accuracy of `TwoFloat::ln`**: valid `v`, high word in `[2^-1000, 2^960 − 2^944]` -/
theorem ln_bound (v : TwoFloat) (hv : v.Valid) (hw : v.WF)
    (hlo : 1 / 2 ^ 1000 ≤ fv v.hi) (hhi : fv v.hi ≤ 2 ^ 960 - 2 ^ 944) :
    VW (TwoFloat.ln v) ∧
    |rv (TwoFloat.ln v) - Real.log (rv v)| ≤ 1 / 2 ^ 101 * (1 + |Real.log (rv v)|) :=
  ln_bound_of_seed v hv hw hlo hhi (seed_ok hv.1 hw.1 (lt_of_lt_of_le (by positivity) hlo))

/-- `|ln v| ≤ 700` on the range -/
theorem log_abs_le (v : TwoFloat) (hv : v.Valid) (hlo : 1 / 2 ^ 1000 ≤ fv v.hi) (hhi : fv v.hi ≤ 2 ^ 960 - 2 ^ 944) :
    |Real.log (rv v)| ≤ 700 := by
  obtain ⟨_, hnear, _⟩ := log_rv_near_hi hv (lt_of_lt_of_le (by positivity) hlo)
  obtain ⟨g1, g2⟩ := log_hi_range hlo (le_trans hhi (by norm_num))
  obtain ⟨n1, n2⟩ := abs_le.1 hnear
  have h52 : (1 : ℝ) / 2 ^ 52 ≤ 1 / 10 := by norm_num
  exact abs_le.2 ⟨by linarith, by linarith⟩

/-- **accuracy of `TwoFloat::log10`** when the computed `ln(v)` is outside the underflow range (`≥ 2^-960`) -/
theorem log10_bound' (v : TwoFloat) (hv : v.Valid) (hw : v.WF)
    (hlo : 1 / 2 ^ 1000 ≤ fv v.hi) (hhi : fv v.hi ≤ 2 ^ 960 - 2 ^ 944) (hT1 : 1 / 2 ^ 960 ≤ |rv (TwoFloat.ln v)|) :
    VW (TwoFloat.log10 v) ∧
    |rv (TwoFloat.log10 v) - Real.log (rv v) / Real.log 10|
      ≤ 1 / 2 ^ 100 * (1 + |Real.log (rv v) / Real.log 10|) := by
  obtain ⟨h1, h2⟩ := ln_bound v hv hw hlo hhi
  exact log10_of_ln' h1 (log_abs_le v hv hlo hhi) h2 hT1

/-- **accuracy of `TwoFloat::log10`**: valid `v`, high word in `[2^-1000, 2^960 − 2^944]`, `|ln v| ≥ 2^-99` -/
theorem log10_bound (v : TwoFloat) (hv : v.Valid) (hw : v.WF)
    (hlo : 1 / 2 ^ 1000 ≤ fv v.hi) (hhi : fv v.hi ≤ 2 ^ 960 - 2 ^ 944) (hfar : 1 / 2 ^ 99 ≤ |Real.log (rv v)|) :
    VW (TwoFloat.log10 v) ∧
    |rv (TwoFloat.log10 v) - Real.log (rv v) / Real.log 10|
      ≤ 1 / 2 ^ 100 * (1 + |Real.log (rv v) / Real.log 10|) := by
  obtain ⟨h1, h2⟩ := ln_bound v hv hw hlo hhi
  exact log10_of_ln h1 (log_abs_le v hv hlo hhi) h2 hfar

end final

end LnBound
