/-
Lemmas.ArithExact — the "exact-case calculus" for the double-double operators.

Every lemma here has the shape: *if the intermediate quantities of the algorithm are representable (so that no
rounding happens where it matters), then the words of the result have these exact scaled-integer values.*
Signs of zeros are not tracked: everything is phrased with `F64.IsVal x v` (`x` finite with `toInt x = v`).

* F64 level: `IsVal.mul_exact`, `IsVal.fma_exact`, `IsVal.div_exact`;
* error-free transformations in the exact case: `new_add_isV_exact`, `new_sub_isV_exact`, `new_mul_isV_exact`,
  `f2s_isV_of`, `f2s_isV_exact`, `f2s_isV_fixed`;
* operators: `add_tt_isV`, `sub_tt_isV`, `add_tf_isV`, `sub_tf_isV`, `mul_tf_isV`, `mul_tt_isV_right`,
  `mul_tt_isV_left`, `div_tf_isV`, `renorm3_isV`.
-/
import TFV.Spec.F64Ops
import TFV.Lemmas.EFT
import TFV.Lemmas.Fraction

set_option exponentiation.threshold 3000

namespace F64

/-! ## F64 level -/

theorem IsVal.repI {x : F64} {v : Int} (hx : IsVal x v) (hw : x.WF) : RepI v := by
  rw [← hx.2]; exact hw.repI

theorem IsVal.abs_le {x : F64} {v : Int} (hx : IsVal x v) (hw : x.WF) : |v| ≤ (maxFin : Int) := by
  rw [← hx.2]; exact hw.abs_toInt_le

theorem IsVal.mul_exact {x y : F64} {v w q : Int} (hx : IsVal x v) (hy : IsVal y w)
    (hq : v * w = q * (unit : Int)) (hr : RepI q) (hm : |q| ≤ (maxFin : Int)) :
    IsVal (F64.mul x y) q :=
  F64.mul_exact hx.1 hy.1 (by rw [hx.2, hy.2]; exact hq) hr hm

theorem IsVal.fma_exact {x y z : F64} {v w u q : Int} (hx : IsVal x v) (hy : IsVal y w) (hz : IsVal z u)
    (hq : v * w + u * (unit : Int) = q * (unit : Int)) (hr : RepI q) (hm : |q| ≤ (maxFin : Int)) :
    IsVal (F64.fma x y z) q :=
  F64.fma_exact hx.1 hy.1 hz.1 (by rw [hx.2, hy.2, hz.2]; exact hq) hr hm

/-- the correctly rounded quotient of an exact multiple `q·d / d` by a representable `q` is `q` -/
theorem rdI_mul_self {q d : Int} (hd : d ≠ 0) (hr : RepI q) : rdI (q * d) d = q := by
  unfold rdI
  rw [Int.natAbs_mul, roundQ_mul_of_rep (Int.natAbs_pos.2 hd) hr, Int.sign_mul]
  have h1 : Int.sign d * Int.sign d = 1 := by
    rcases Int.lt_trichotomy d 0 with h | h | h
    · rw [Int.sign_eq_neg_one_of_neg h]; rfl
    · exact absurd h hd
    · rw [Int.sign_eq_one_of_pos h]; rfl
  calc Int.sign q * Int.sign d * Int.sign d * (q.natAbs : Int)
      = Int.sign q * (q.natAbs : Int) * (Int.sign d * Int.sign d) := by ring
    _ = q := by rw [h1, Int.mul_one, Int.sign_mul_natAbs]

theorem IsVal.div_exact {x y : F64} {v w q : Int} (hx : IsVal x v) (hy : IsVal y w) (hw0 : w ≠ 0)
    (hq : v * (unit : Int) = q * w) (hr : RepI q) (hm : |q| ≤ (maxFin : Int)) :
    IsVal (F64.div x y) q := by
  have e : rdI (x.toInt * (unit : Int)) y.toInt = q := by
    rw [hx.2, hy.2, hq]; exact rdI_mul_self hw0 hr
  have hy0 : y.toInt ≠ 0 := by rw [hy.2]; exact hw0
  have := div_spec hx.1 hy.1 hy0 (by rw [← natAbs_rdI' _ hy0, e]; exact natAbs_le_of_abs_le hm)
  rwa [e] at this

/-! ### scaling by `±2^m` on scaled integers -/

theorem rnI_mul_pow2 (v : Int) (m : Nat) : rnI (v * 2 ^ m) = rnI v * 2 ^ m := by
  have hp : (0 : Int) < 2 ^ m := by positivity
  rcases lt_or_ge v 0 with hv | hv
  · have : v * 2 ^ m < 0 := Int.mul_neg_of_neg_of_pos hv hp
    rw [rnI_of_neg this, rnI_of_neg hv, natAbs_mul_two_pow, rn53_mul_pow2]
    push_cast; ring
  · have : 0 ≤ v * 2 ^ m := Int.mul_nonneg hv (le_of_lt hp)
    rw [rnI_of_nonneg this, rnI_of_nonneg hv, natAbs_mul_two_pow, rn53_mul_pow2]
    push_cast; ring

theorem rnI_sign_mul {σ : Int} (hσ : σ = 1 ∨ σ = -1) (v : Int) : rnI (σ * v) = σ * rnI v := by
  rcases hσ with rfl | rfl
  · rw [one_mul, one_mul]
  · rw [neg_one_mul, neg_one_mul, rnI_neg]

theorem repI_mul_pow2_iff {v : Int} {m : Nat} : RepI (v * 2 ^ m) ↔ RepI v := by
  unfold RepI; rw [natAbs_mul_two_pow]; exact rep_mul_pow2_iff

theorem repI_sign_mul {σ : Int} (hσ : σ = 1 ∨ σ = -1) {v : Int} : RepI (σ * v) ↔ RepI v := by
  rcases hσ with rfl | rfl
  · rw [one_mul]
  · rw [neg_one_mul]; exact repI_neg

theorem abs_sign_mul {σ : Int} (hσ : σ = 1 ∨ σ = -1) (v : Int) : |σ * v| = |v| := by
  rcases hσ with rfl | rfl
  · rw [one_mul]
  · rw [neg_one_mul, abs_neg]

theorem sign_mul_self {σ : Int} (hσ : σ = 1 ∨ σ = -1) : σ * σ = 1 := by
  rcases hσ with rfl | rfl <;> rfl

/-- the five facts needed about the scaled-up pair `(σ·2^m·h, σ·2^m·l)` of a normalised pair `(h, l)` -/
theorem scale_up_facts {h l σ : Int} {m : Nat} (hσ : σ = 1 ∨ σ = -1)
    (hfix : h = rnI (h + l)) (hh : RepI h) (hl : RepI l) (hle : |l| ≤ |h|)
    (hov : |h| * 2 ^ m ≤ (maxFin : Int)) :
    RepI (σ * 2 ^ m * h) ∧ |σ * 2 ^ m * h| ≤ (maxFin : Int) ∧
    RepI (σ * 2 ^ m * l) ∧ |σ * 2 ^ m * l| ≤ (maxFin : Int) ∧
    σ * 2 ^ m * h = rnI (σ * 2 ^ m * h + σ * 2 ^ m * l) := by
  have hp : (0 : Int) < 2 ^ m := by positivity
  have e1 : ∀ z : Int, σ * 2 ^ m * z = σ * (z * 2 ^ m) := fun z => by ring
  have a1 : ∀ z : Int, |σ * 2 ^ m * z| = |z| * 2 ^ m := fun z => by
    rw [e1, abs_sign_mul hσ, abs_mul, abs_two_pow]
  refine ⟨?_, ?_, ?_, ?_, ?_⟩
  · rw [e1, repI_sign_mul hσ, repI_mul_pow2_iff]; exact hh
  · rw [a1]; exact hov
  · rw [e1, repI_sign_mul hσ, repI_mul_pow2_iff]; exact hl
  · rw [a1]; exact le_trans (Int.mul_le_mul_of_nonneg_right hle (le_of_lt hp)) hov
  · have e2 : σ * 2 ^ m * h + σ * 2 ^ m * l = σ * ((h + l) * 2 ^ m) := by ring
    rw [e2, rnI_sign_mul hσ, rnI_mul_pow2, ← hfix]; ring

/-- the same for the scaled-down pair: `(σ·H, σ·L)` where `(H·2^m, L·2^m)` is normalised -/
theorem scale_down_facts {H L σ : Int} {m : Nat} (hσ : σ = 1 ∨ σ = -1)
    (hfix : H * 2 ^ m = rnI (H * 2 ^ m + L * 2 ^ m)) (hh : RepI (H * 2 ^ m)) (hl : RepI (L * 2 ^ m))
    (hhm : |H * 2 ^ m| ≤ (maxFin : Int)) (hlm : |L * 2 ^ m| ≤ (maxFin : Int)) :
    RepI (σ * H) ∧ |σ * H| ≤ (maxFin : Int) ∧ RepI (σ * L) ∧ |σ * L| ≤ (maxFin : Int) ∧
    σ * H = rnI (σ * H + σ * L) := by
  have hp : (0 : Int) < 2 ^ m := by positivity
  have hp1 : (1 : Int) ≤ 2 ^ m := hp
  have le1 : ∀ z : Int, |z| ≤ |z * 2 ^ m| := fun z => by
    rw [abs_mul, abs_two_pow]
    exact le_mul_of_one_le_right (abs_nonneg z) hp1
  refine ⟨?_, ?_, ?_, ?_, ?_⟩
  · rw [repI_sign_mul hσ]; exact repI_mul_pow2_iff.1 hh
  · rw [abs_sign_mul hσ]; exact le_trans (le1 H) hhm
  · rw [repI_sign_mul hσ]; exact repI_mul_pow2_iff.1 hl
  · rw [abs_sign_mul hσ]; exact le_trans (le1 L) hlm
  · have e2 : σ * H + σ * L = σ * (H + L) := by ring
    rw [e2, rnI_sign_mul hσ]
    congr 1
    have e3 : H * 2 ^ m + L * 2 ^ m = (H + L) * 2 ^ m := by ring
    rw [e3, rnI_mul_pow2] at hfix
    exact Int.eq_of_mul_eq_mul_right (ne_of_gt hp) hfix

/-- side conditions of the final Fast2Sum for a pair that is already normalised -/
theorem fix_conds {H L : Int} (hfix : H = rnI (H + L)) (hHm : |H| ≤ (maxFin : Int)) :
    |rnI (H + L)| ≤ (maxFin : Int) ∧ RepI (rnI (H + L) - H) ∧ |rnI (H + L) - H| ≤ (maxFin : Int) := by
  rw [← hfix, sub_self]
  exact ⟨hHm, repI_zero, by rw [abs_zero]; exact Int.natCast_nonneg _⟩

theorem IsVal.zero (s : Bool) : IsVal (fin s 0) 0 := ⟨rfl, toInt_zero s⟩

theorem abs_zero_le_maxFin : |(0 : Int)| ≤ (maxFin : Int) := by
  rw [abs_zero]; exact Int.natCast_nonneg _

end F64

namespace TwoFloat

open F64

/-- both words finite with the given exact values -/
def IsV (t : TwoFloat) (h l : Int) : Prop := IsVal t.hi h ∧ IsVal t.lo l

theorem IsV.V_eq {t : TwoFloat} {h l : Int} (ht : t.IsV h l) : t.V = h + l := by
  unfold V; rw [ht.1.2, ht.2.2]

theorem IsV.of_finite {t : TwoFloat} (h1 : t.hi.is_finite = true) (h2 : t.lo.is_finite = true) :
    t.IsV t.hi.toInt t.lo.toInt := ⟨⟨h1, rfl⟩, ⟨h2, rfl⟩⟩

theorem IsV.of_valid {t : TwoFloat} (h : t.Valid) : t.IsV t.hi.toInt t.lo.toInt :=
  IsV.of_finite h.1 h.2.1

/-- a pair of finite words with `hi = RN(hi + lo)` is valid -/
theorem IsV.valid {t : TwoFloat} {h l : Int} (ht : t.IsV h l) (hw : t.WF) (hfix : h = rnI (h + l)) :
    t.Valid := by
  rcases t with ⟨hi, lo⟩
  apply TwoFloat.valid_of_rnI ht.1.1 ht.2.1 hw.1
  have e1 : hi.toInt = h := ht.1.2
  have e2 : lo.toInt = l := ht.2.2
  rw [e1, e2]; exact hfix

/-- a valid pair whose value is zero has two zero words -/
theorem Valid.words_zero {t : TwoFloat} (ht : t.Valid) (h0 : t.V = 0) : t.IsV 0 0 := by
  have h1 : t.hi.toInt = 0 := ht.V_zero_iff.1 h0
  have h2 : t.lo.toInt = 0 := by unfold V at h0; omega
  exact ⟨⟨ht.1, h1⟩, ⟨ht.2.1, h2⟩⟩

/-! ## error-free transformations in the exact case -/

/-- Fast2Sum from the exactness of its second step, with values -/
theorem f2s_isV_of {a b : F64} {va vb : Int} (ha : IsVal a va) (hb : IsVal b vb) (hwa : a.WF) (hwb : b.WF)
    (hov : |rnI (va + vb)| ≤ (maxFin : Int))
    (hz : RepI (rnI (va + vb) - va)) (hzm : |rnI (va + vb) - va| ≤ (maxFin : Int)) :
    (arithmetic.fast_two_sum a b).IsV (rnI (va + vb)) (va + vb - rnI (va + vb)) := by
  have hov' : rn53 (a.toInt + b.toInt).natAbs ≤ maxFin := by
    rw [ha.2, hb.2, ← natAbs_rnI]; exact natAbs_le_of_abs_le hov
  have := fast_two_sum_words_of ha.1 hb.1 hwa hwb hov' (by rw [ha.2, hb.2]; exact ⟨hz, hzm⟩)
  rwa [ha.2, hb.2] at this

/-- Fast2Sum of two words whose sum is representable: `(a + b, 0)`, no ordering precondition -/
theorem f2s_isV_exact {a b : F64} {va vb : Int} (ha : IsVal a va) (hb : IsVal b vb) (hwa : a.WF) (hwb : b.WF)
    (hr : RepI (va + vb)) (hm : |va + vb| ≤ (maxFin : Int)) :
    (arithmetic.fast_two_sum a b).IsV (va + vb) 0 := by
  have e : rnI (va + vb) = va + vb := rnI_of_repI hr
  have := f2s_isV_of ha hb hwa hwb (by rw [e]; exact hm)
    (by rw [e, add_sub_cancel_left]; exact hb.repI hwb)
    (by rw [e, add_sub_cancel_left]; exact hb.abs_le hwb)
  rwa [e, sub_self] at this

/-- Fast2Sum of an already normalised pair (`a = RN(a + b)`) returns the same values -/
theorem f2s_isV_fixed {a b : F64} {va vb : Int} (ha : IsVal a va) (hb : IsVal b vb) (hwa : a.WF) (hwb : b.WF)
    (hfix : va = rnI (va + vb)) :
    (arithmetic.fast_two_sum a b).IsV va vb := by
  have := f2s_isV_of ha hb hwa hwb (by rw [← hfix]; exact ha.abs_le hwa)
    (by rw [← hfix, sub_self]; exact repI_zero)
    (by rw [← hfix, sub_self]; exact abs_zero_le_maxFin)
  rwa [← hfix, add_sub_cancel_left] at this

/-- 2Sum of two words whose sum is representable: `(a + b, 0)`, with no magnitude restriction -/
theorem new_add_isV_exact {a b : F64} {va vb : Int} (ha : IsVal a va) (hb : IsVal b vb)
    (hwa : a.WF) (hwb : b.WF) (hr : RepI (va + vb)) (hm : |va + vb| ≤ (maxFin : Int)) :
    (TwoFloat.new_add a b).IsV (va + vb) 0 := by
  rw [new_add_eq]
  have hA := ha.repI hwa
  have hB := hb.repI hwb
  have hAm := ha.abs_le hwa
  have hBm := hb.abs_le hwb
  have hs : IsVal (F64.add a b) (va + vb) := ha.add_exact hb hr hm
  have haa : IsVal (F64.sub (F64.add a b) b) va := by
    have := hs.sub_exact hb (by rw [add_sub_cancel_right]; exact hA) (by rw [add_sub_cancel_right]; exact hAm)
    rwa [add_sub_cancel_right] at this
  have hbb : IsVal (F64.sub (F64.add a b) (F64.sub (F64.add a b) b)) vb := by
    have := hs.sub_exact haa (by rw [add_sub_cancel_left]; exact hB) (by rw [add_sub_cancel_left]; exact hBm)
    rwa [add_sub_cancel_left] at this
  have hda : IsVal (F64.sub a (F64.sub (F64.add a b) b)) 0 := by
    have := ha.sub_exact haa (by rw [sub_self]; exact repI_zero) (by rw [sub_self]; exact abs_zero_le_maxFin)
    rwa [sub_self] at this
  have hdb : IsVal (F64.sub b (F64.sub (F64.add a b) (F64.sub (F64.add a b) b))) 0 := by
    have := hb.sub_exact hbb (by rw [sub_self]; exact repI_zero) (by rw [sub_self]; exact abs_zero_le_maxFin)
    rwa [sub_self] at this
  have hlo := hda.add_exact hdb (by rw [add_zero]; exact repI_zero) (by rw [add_zero]; exact abs_zero_le_maxFin)
  rw [add_zero] at hlo
  exact ⟨hs, hlo⟩

/-- 2Sum (subtraction form) of two words whose difference is representable: `(a - b, 0)` -/
theorem new_sub_isV_exact {a b : F64} {va vb : Int} (ha : IsVal a va) (hb : IsVal b vb)
    (hwa : a.WF) (hwb : b.WF) (hr : RepI (va - vb)) (hm : |va - vb| ≤ (maxFin : Int)) :
    (TwoFloat.new_sub a b).IsV (va - vb) 0 := by
  rw [new_sub_eq]
  have hA := ha.repI hwa
  have hB := hb.repI hwb
  have hAm := ha.abs_le hwa
  have hBm := hb.abs_le hwb
  have hs : IsVal (F64.sub a b) (va - vb) := ha.sub_exact hb hr hm
  have haa : IsVal (F64.add (F64.sub a b) b) va := by
    have := hs.add_exact hb (by rw [sub_add_cancel]; exact hA) (by rw [sub_add_cancel]; exact hAm)
    rwa [sub_add_cancel] at this
  have e1 : va - vb - va = -vb := by ring
  have hbb : IsVal (F64.sub (F64.sub a b) (F64.add (F64.sub a b) b)) (-vb) := by
    have := hs.sub_exact haa (by rw [e1]; exact hB.neg) (by rw [e1, abs_neg]; exact hBm)
    rwa [e1] at this
  have hda : IsVal (F64.sub a (F64.add (F64.sub a b) b)) 0 := by
    have := ha.sub_exact haa (by rw [sub_self]; exact repI_zero) (by rw [sub_self]; exact abs_zero_le_maxFin)
    rwa [sub_self] at this
  have e2 : vb + -vb = 0 := by ring
  have hdb : IsVal (F64.add b (F64.sub (F64.sub a b) (F64.add (F64.sub a b) b))) 0 := by
    have := hb.add_exact hbb (by rw [e2]; exact repI_zero) (by rw [e2]; exact abs_zero_le_maxFin)
    rwa [e2] at this
  have hlo := hda.sub_exact hdb (by rw [sub_self]; exact repI_zero) (by rw [sub_self]; exact abs_zero_le_maxFin)
  rw [sub_self] at hlo
  exact ⟨hs, hlo⟩

/-- 2Prod of two words whose product is an exact, representable multiple of the unit: `(q, 0)` -/
theorem new_mul_isV_exact {a b : F64} {va vb q : Int} (ha : IsVal a va) (hb : IsVal b vb)
    (hq : va * vb = q * (unit : Int)) (hr : RepI q) (hm : |q| ≤ (maxFin : Int)) :
    (TwoFloat.new_mul a b).IsV q 0 := by
  have e : rnI q = q := rnI_of_repI hr
  have := new_mul_words_of ha.1 hb.1 (Q := q) (by rw [ha.2, hb.2]; exact hq)
    (by rw [← natAbs_rnI, e]; exact natAbs_le_of_abs_le hm) (by rw [e, sub_self]; exact repI_zero)
  rwa [e, sub_self] at this

/-! ## addition and subtraction -/

/-- the common tail of AccurateDWPlusDW: from the two 2Sum results `s`, `t` to the sum -/
def addCore (s t : TwoFloat) : TwoFloat :=
  arithmetic.fast_two_sum (arithmetic.fast_two_sum s.hi (F64.add s.lo t.hi)).hi
    (F64.add t.lo (arithmetic.fast_two_sum s.hi (F64.add s.lo t.hi)).lo)

theorem add_tt_eq (x y : TwoFloat) :
    arithmetic.impl_Add_rTwoFloat_for_rTwoFloat.add x y
      = addCore (TwoFloat.new_add x.hi y.hi) (TwoFloat.new_add x.lo y.lo) := rfl

theorem sub_tt_eq (x y : TwoFloat) :
    arithmetic.impl_Sub_rTwoFloat_for_rTwoFloat.sub x y
      = addCore (TwoFloat.new_sub x.hi y.hi) (TwoFloat.new_sub x.lo y.lo) := rfl

theorem addCore_WF (s t : TwoFloat) : (addCore s t).WF := fast_two_sum_WF _ _

/-- when both 2Sums were exact (`s = (S, 0)`, `t = (T, 0)`) the tail is a single normalisation of `(S, T)`:
the result is `(RN(S+T), S+T-RN(S+T))` as soon as the Fast2Sum step `RN(S+T) - S` is exact -/
theorem addCore_isV {s t : TwoFloat} {S T : Int} (hs : s.IsV S 0) (ht : t.IsV T 0) (hws : s.WF) (hwt : t.WF)
    (hov : |rnI (S + T)| ≤ (maxFin : Int))
    (hz : RepI (rnI (S + T) - S)) (hzm : |rnI (S + T) - S| ≤ (maxFin : Int)) :
    (addCore s t).IsV (rnI (S + T)) (S + T - rnI (S + T)) := by
  have hS := hs.1.repI hws.1
  have hT := ht.1.repI hwt.1
  have hc : IsVal (F64.add s.lo t.hi) T := by
    have := hs.2.add_exact ht.1 (by rw [zero_add]; exact hT) (by rw [zero_add]; exact ht.1.abs_le hwt.1)
    rwa [zero_add] at this
  have hv := f2s_isV_of hs.1 hc hws.1 (add_WF _ _) hov hz hzm
  have hE : RepI (S + T - rnI (S + T)) := repI_add_err hS hT
  have hEm : |S + T - rnI (S + T)| ≤ (maxFin : Int) :=
    le_trans (abs_add_err_le_right hS) (ht.1.abs_le hwt.1)
  have hw : IsVal (F64.add t.lo (arithmetic.fast_two_sum s.hi (F64.add s.lo t.hi)).lo)
      (S + T - rnI (S + T)) := by
    have := ht.2.add_exact hv.2 (by rw [zero_add]; exact hE) (by rw [zero_add]; exact hEm)
    rwa [zero_add] at this
  exact f2s_isV_fixed hv.1 hw (fast_two_sum_WF _ _).1 (add_WF _ _)
    (by rw [add_sub_cancel]; )

/-- the exact-case rule for `TwoFloat + TwoFloat` -/
theorem add_tt_isV {x y : TwoFloat} {xh xl yh yl : Int} (hx : x.IsV xh xl) (hy : y.IsV yh yl)
    (hwx : x.WF) (hwy : y.WF)
    (hS : RepI (xh + yh)) (hSm : |xh + yh| ≤ (maxFin : Int))
    (hT : RepI (xl + yl)) (hTm : |xl + yl| ≤ (maxFin : Int))
    (hov : |rnI (xh + yh + (xl + yl))| ≤ (maxFin : Int))
    (hz : RepI (rnI (xh + yh + (xl + yl)) - (xh + yh)))
    (hzm : |rnI (xh + yh + (xl + yl)) - (xh + yh)| ≤ (maxFin : Int)) :
    (arithmetic.impl_Add_rTwoFloat_for_rTwoFloat.add x y).IsV (rnI (xh + yh + (xl + yl)))
      (xh + yh + (xl + yl) - rnI (xh + yh + (xl + yl))) := by
  rw [add_tt_eq]
  exact addCore_isV (new_add_isV_exact hx.1 hy.1 hwx.1 hwy.1 hS hSm)
    (new_add_isV_exact hx.2 hy.2 hwx.2 hwy.2 hT hTm) (new_add_WF _ _) (new_add_WF _ _) hov hz hzm

/-- the exact-case rule for `TwoFloat - TwoFloat` -/
theorem sub_tt_isV {x y : TwoFloat} {xh xl yh yl : Int} (hx : x.IsV xh xl) (hy : y.IsV yh yl)
    (hwx : x.WF) (hwy : y.WF)
    (hS : RepI (xh - yh)) (hSm : |xh - yh| ≤ (maxFin : Int))
    (hT : RepI (xl - yl)) (hTm : |xl - yl| ≤ (maxFin : Int))
    (hov : |rnI (xh - yh + (xl - yl))| ≤ (maxFin : Int))
    (hz : RepI (rnI (xh - yh + (xl - yl)) - (xh - yh)))
    (hzm : |rnI (xh - yh + (xl - yl)) - (xh - yh)| ≤ (maxFin : Int)) :
    (arithmetic.impl_Sub_rTwoFloat_for_rTwoFloat.sub x y).IsV (rnI (xh - yh + (xl - yl)))
      (xh - yh + (xl - yl) - rnI (xh - yh + (xl - yl))) := by
  rw [sub_tt_eq]
  exact addCore_isV (new_sub_isV_exact hx.1 hy.1 hwx.1 hwy.1 hS hSm)
    (new_sub_isV_exact hx.2 hy.2 hwx.2 hwy.2 hT hTm) (new_sub_WF _ _) (new_sub_WF _ _) hov hz hzm

theorem add_tf_eq (x : TwoFloat) (f : F64) :
    arithmetic.impl_Add_rf64_for_rTwoFloat.add x f
      = arithmetic.fast_two_sum (TwoFloat.new_add x.hi f).hi (F64.add x.lo (TwoFloat.new_add x.hi f).lo) := rfl

theorem sub_tf_eq (x : TwoFloat) (f : F64) :
    arithmetic.impl_Sub_rf64_for_rTwoFloat.sub x f
      = arithmetic.fast_two_sum (TwoFloat.new_sub x.hi f).hi (F64.add x.lo (TwoFloat.new_sub x.hi f).lo) := rfl

/-- the exact-case rule for `TwoFloat + f64` (DWPlusFP): if `S = x.hi + f` is representable the result is the
normalisation of `(S, x.lo)` -/
theorem add_tf_isV {x : TwoFloat} {f : F64} {xh xl vf : Int} (hx : x.IsV xh xl) (hf : IsVal f vf)
    (hwx : x.WF) (hwf : f.WF)
    (hS : RepI (xh + vf)) (hSm : |xh + vf| ≤ (maxFin : Int))
    (hov : |rnI (xh + vf + xl)| ≤ (maxFin : Int))
    (hz : RepI (rnI (xh + vf + xl) - (xh + vf)))
    (hzm : |rnI (xh + vf + xl) - (xh + vf)| ≤ (maxFin : Int)) :
    (arithmetic.impl_Add_rf64_for_rTwoFloat.add x f).IsV (rnI (xh + vf + xl))
      (xh + vf + xl - rnI (xh + vf + xl)) := by
  rw [add_tf_eq]
  have hs := new_add_isV_exact hx.1 hf hwx.1 hwf hS hSm
  have hv : IsVal (F64.add x.lo (TwoFloat.new_add x.hi f).lo) xl := by
    have := hx.2.add_exact hs.2 (by rw [add_zero]; exact hx.2.repI hwx.2)
      (by rw [add_zero]; exact hx.2.abs_le hwx.2)
    rwa [add_zero] at this
  exact f2s_isV_of hs.1 hv (new_add_WF _ _).1 (add_WF _ _) hov hz hzm

/-- the exact-case rule for `TwoFloat - f64` -/
theorem sub_tf_isV {x : TwoFloat} {f : F64} {xh xl vf : Int} (hx : x.IsV xh xl) (hf : IsVal f vf)
    (hwx : x.WF) (hwf : f.WF)
    (hS : RepI (xh - vf)) (hSm : |xh - vf| ≤ (maxFin : Int))
    (hov : |rnI (xh - vf + xl)| ≤ (maxFin : Int))
    (hz : RepI (rnI (xh - vf + xl) - (xh - vf)))
    (hzm : |rnI (xh - vf + xl) - (xh - vf)| ≤ (maxFin : Int)) :
    (arithmetic.impl_Sub_rf64_for_rTwoFloat.sub x f).IsV (rnI (xh - vf + xl))
      (xh - vf + xl - rnI (xh - vf + xl)) := by
  rw [sub_tf_eq]
  have hs := new_sub_isV_exact hx.1 hf hwx.1 hwf hS hSm
  have hv : IsVal (F64.add x.lo (TwoFloat.new_sub x.hi f).lo) xl := by
    have := hx.2.add_exact hs.2 (by rw [add_zero]; exact hx.2.repI hwx.2)
      (by rw [add_zero]; exact hx.2.abs_le hwx.2)
    rwa [add_zero] at this
  exact f2s_isV_of hs.1 hv (new_sub_WF _ _).1 (add_WF _ _) hov hz hzm

/-! ## multiplication -/

theorem mul_tf_eq (x : TwoFloat) (f : F64) :
    arithmetic.impl_Mul_rf64_for_rTwoFloat.mul x f
      = arithmetic.fast_two_sum (TwoFloat.new_mul x.hi f).hi
          (F64.fma x.lo f (TwoFloat.new_mul x.hi f).lo) := rfl

theorem mul_tt_eq (x y : TwoFloat) :
    arithmetic.impl_Mul_rTwoFloat_for_rTwoFloat.mul x y
      = arithmetic.fast_two_sum (TwoFloat.new_mul x.hi y.hi).hi
          (F64.add (TwoFloat.new_mul x.hi y.hi).lo
            (F64.fma x.lo y.hi (F64.fma x.hi y.lo (F64.mul x.lo y.lo)))) := rfl

theorem mul_tf_WF (x : TwoFloat) (f : F64) : (arithmetic.impl_Mul_rf64_for_rTwoFloat.mul x f).WF :=
  fast_two_sum_WF _ _
theorem mul_tt_WF (x y : TwoFloat) : (arithmetic.impl_Mul_rTwoFloat_for_rTwoFloat.mul x y).WF :=
  fast_two_sum_WF _ _
theorem add_tt_WF (x y : TwoFloat) : (arithmetic.impl_Add_rTwoFloat_for_rTwoFloat.add x y).WF :=
  fast_two_sum_WF _ _
theorem sub_tt_WF (x y : TwoFloat) : (arithmetic.impl_Sub_rTwoFloat_for_rTwoFloat.sub x y).WF :=
  fast_two_sum_WF _ _
theorem add_tf_WF (x : TwoFloat) (f : F64) : (arithmetic.impl_Add_rf64_for_rTwoFloat.add x f).WF :=
  fast_two_sum_WF _ _
theorem sub_tf_WF (x : TwoFloat) (f : F64) : (arithmetic.impl_Sub_rf64_for_rTwoFloat.sub x f).WF :=
  fast_two_sum_WF _ _

/-- the exact-case rule for `TwoFloat * f64` (DWTimesFP3): if both word products `x.hi·f = H`, `x.lo·f = L` are
exact and representable, the result is the normalisation of `(H, L)` -/
theorem mul_tf_isV {x : TwoFloat} {f : F64} {xh xl vf H L : Int} (hx : x.IsV xh xl) (hf : IsVal f vf)
    (hH : xh * vf = H * (unit : Int)) (hHr : RepI H) (hHm : |H| ≤ (maxFin : Int))
    (hL : xl * vf = L * (unit : Int)) (hLr : RepI L) (hLm : |L| ≤ (maxFin : Int))
    (hov : |rnI (H + L)| ≤ (maxFin : Int))
    (hz : RepI (rnI (H + L) - H)) (hzm : |rnI (H + L) - H| ≤ (maxFin : Int)) :
    (arithmetic.impl_Mul_rf64_for_rTwoFloat.mul x f).IsV (rnI (H + L)) (H + L - rnI (H + L)) := by
  rw [mul_tf_eq]
  have hc := new_mul_isV_exact hx.1 hf hH hHr hHm
  have hcl : IsVal (F64.fma x.lo f (TwoFloat.new_mul x.hi f).lo) L :=
    hx.2.fma_exact hf hc.2 (by rw [zero_mul, add_zero]; exact hL) hLr hLm
  exact f2s_isV_of hc.1 hcl (new_mul_WF _ _).1 (fma_WF _ _ _) hov hz hzm

/-- the exact-case rule for `TwoFloat * TwoFloat` (DWTimesDW3) when the low-low product vanishes: with
`x.hi·y.hi = H`, `x.hi·y.lo = L1`, `x.lo·y.hi + L1 = L` all exact and representable, the result is the
normalisation of `(H, L)` -/
theorem mul_tt_isV {x y : TwoFloat} {xh xl yh yl H L1 L : Int} (hx : x.IsV xh xl) (hy : y.IsV yh yl)
    (hH : xh * yh = H * (unit : Int)) (hHr : RepI H) (hHm : |H| ≤ (maxFin : Int))
    (hLL : xl * yl = 0)
    (h1 : xh * yl = L1 * (unit : Int)) (h1r : RepI L1) (h1m : |L1| ≤ (maxFin : Int))
    (hL : xl * yh + L1 * (unit : Int) = L * (unit : Int)) (hLr : RepI L) (hLm : |L| ≤ (maxFin : Int))
    (hov : |rnI (H + L)| ≤ (maxFin : Int))
    (hz : RepI (rnI (H + L) - H)) (hzm : |rnI (H + L) - H| ≤ (maxFin : Int)) :
    (arithmetic.impl_Mul_rTwoFloat_for_rTwoFloat.mul x y).IsV (rnI (H + L)) (H + L - rnI (H + L)) := by
  rw [mul_tt_eq]
  have hc := new_mul_isV_exact hx.1 hy.1 hH hHr hHm
  have h0 : IsVal (F64.mul x.lo y.lo) 0 :=
    hx.2.mul_exact hy.2 (by rw [hLL, zero_mul]) repI_zero abs_zero_le_maxFin
  have ht1 : IsVal (F64.fma x.hi y.lo (F64.mul x.lo y.lo)) L1 :=
    hx.1.fma_exact hy.2 h0 (by rw [zero_mul, add_zero]; exact h1) h1r h1m
  have hc2 : IsVal (F64.fma x.lo y.hi (F64.fma x.hi y.lo (F64.mul x.lo y.lo))) L :=
    hx.2.fma_exact hy.1 ht1 hL hLr hLm
  have hc3 : IsVal (F64.add (TwoFloat.new_mul x.hi y.hi).lo
      (F64.fma x.lo y.hi (F64.fma x.hi y.lo (F64.mul x.lo y.lo)))) L := by
    have := hc.2.add_exact hc2 (by rw [zero_add]; exact hLr) (by rw [zero_add]; exact hLm)
    rwa [zero_add] at this
  exact f2s_isV_of hc.1 hc3 (new_mul_WF _ _).1 (add_WF _ _) hov hz hzm

/-! ## division by a double -/

theorem div_tf_eq (x : TwoFloat) (f : F64) :
    arithmetic.impl_Div_rf64_for_rTwoFloat.div x f
      = arithmetic.fast_two_sum (F64.div x.hi f)
          (F64.div
            (F64.add
              (F64.sub (F64.sub x.hi (TwoFloat.new_mul (F64.div x.hi f) f).hi)
                (TwoFloat.new_mul (F64.div x.hi f) f).lo)
              x.lo)
            f) := rfl

theorem div_tf_WF (x : TwoFloat) (f : F64) : (arithmetic.impl_Div_rf64_for_rTwoFloat.div x f).WF :=
  fast_two_sum_WF _ _

/-- the exact-case rule for `TwoFloat / f64`: if both word quotients `x.hi / f = H`, `x.lo / f = L` are exact and
representable, the result is the normalisation of `(H, L)` -/
theorem div_tf_isV {x : TwoFloat} {f : F64} {xh xl vf H L : Int} (hx : x.IsV xh xl) (hf : IsVal f vf)
    (hwx : x.WF) (hf0 : vf ≠ 0)
    (hH : xh * (unit : Int) = H * vf) (hHr : RepI H) (hHm : |H| ≤ (maxFin : Int))
    (hL : xl * (unit : Int) = L * vf) (hLr : RepI L) (hLm : |L| ≤ (maxFin : Int))
    (hov : |rnI (H + L)| ≤ (maxFin : Int))
    (hz : RepI (rnI (H + L) - H)) (hzm : |rnI (H + L) - H| ≤ (maxFin : Int)) :
    (arithmetic.impl_Div_rf64_for_rTwoFloat.div x f).IsV (rnI (H + L)) (H + L - rnI (H + L)) := by
  rw [div_tf_eq]
  have hth : IsVal (F64.div x.hi f) H := hx.1.div_exact hf hf0 hH hHr hHm
  have hp := new_mul_isV_exact hth hf hH.symm (hx.1.repI hwx.1) (hx.1.abs_le hwx.1)
  have hdh : IsVal (F64.sub x.hi (TwoFloat.new_mul (F64.div x.hi f) f).hi) 0 := by
    have := hx.1.sub_exact hp.1 (by rw [sub_self]; exact repI_zero) (by rw [sub_self]; exact abs_zero_le_maxFin)
    rwa [sub_self] at this
  have hdt : IsVal (F64.sub (F64.sub x.hi (TwoFloat.new_mul (F64.div x.hi f) f).hi)
      (TwoFloat.new_mul (F64.div x.hi f) f).lo) 0 := by
    have := hdh.sub_exact hp.2 (by rw [sub_self]; exact repI_zero) (by rw [sub_self]; exact abs_zero_le_maxFin)
    rwa [sub_self] at this
  have hd : IsVal (F64.add (F64.sub (F64.sub x.hi (TwoFloat.new_mul (F64.div x.hi f) f).hi)
      (TwoFloat.new_mul (F64.div x.hi f) f).lo) x.lo) xl := by
    have := hdt.add_exact hx.2 (by rw [zero_add]; exact hx.2.repI hwx.2)
      (by rw [zero_add]; exact hx.2.abs_le hwx.2)
    rwa [zero_add] at this
  have htl := hd.div_exact hf hf0 hL hLr hLm
  exact f2s_isV_of hth htl (div_WF _ _) (div_WF _ _) hov hz hzm

/-! ## `renorm3` -/

theorem renorm3_eq' (a b c : F64) :
    arithmetic.renorm3 a b c =
      arithmetic.fast_two_sum (arithmetic.fast_two_sum c (arithmetic.fast_two_sum a b).hi).hi
        (F64.add (arithmetic.fast_two_sum a b).lo
          (arithmetic.fast_two_sum c (arithmetic.fast_two_sum a b).hi).lo) := rfl

/-- `renorm3 a b c` with a normalised `(a, b)` and `c = 0` returns `(a, b)` -/
theorem renorm3_isV {a b c : F64} {va vb : Int} (ha : IsVal a va) (hb : IsVal b vb) (hc : IsVal c 0)
    (hwa : a.WF) (hwb : b.WF) (hwc : c.WF) (hfix : va = rnI (va + vb)) :
    (arithmetic.renorm3 a b c).IsV va vb := by
  rw [renorm3_eq']
  have hu := f2s_isV_fixed ha hb hwa hwb hfix
  have hwu := fast_two_sum_WF a b
  have hv : (arithmetic.fast_two_sum c (arithmetic.fast_two_sum a b).hi).IsV va 0 := by
    have := f2s_isV_exact hc hu.1 hwc hwu.1 (by rw [zero_add]; exact ha.repI hwa)
      (by rw [zero_add]; exact ha.abs_le hwa)
    rwa [zero_add] at this
  have hw : IsVal (F64.add (arithmetic.fast_two_sum a b).lo
      (arithmetic.fast_two_sum c (arithmetic.fast_two_sum a b).hi).lo) vb := by
    have := hu.2.add_exact hv.2 (by rw [add_zero]; exact hb.repI hwb) (by rw [add_zero]; exact hb.abs_le hwb)
    rwa [add_zero] at this
  exact f2s_isV_fixed hv.1 hw (fast_two_sum_WF _ _).1 (add_WF _ _) hfix

/-! ## normalised ("fixed-point") versions and packaging -/

theorem IsV.of_fixed {t : TwoFloat} {H L : Int} (hfix : H = rnI (H + L))
    (h : t.IsV (rnI (H + L)) (H + L - rnI (H + L))) : t.IsV H L := by
  rwa [← hfix, add_sub_cancel_left] at h

/-- words, value, validity and well-formedness from the word values of a normalised pair -/
theorem IsV.package {t : TwoFloat} {H L : Int} (h : t.IsV H L) (hw : t.WF) (hfix : H = rnI (H + L)) :
    t.hi.toInt = H ∧ t.lo.toInt = L ∧ t.V = H + L ∧ t.Valid ∧ t.WF :=
  ⟨h.1.2, h.2.2, h.V_eq, h.valid hw hfix, hw⟩

/-- in a valid pair the low word is not larger than the high word -/
theorem Valid.abs_lo_le {t : TwoFloat} (ht : t.Valid) : |t.lo.toInt| ≤ |t.hi.toInt| := by
  by_cases h0 : t.hi.toInt = 0
  · have hV : t.V = 0 := ht.V_zero_iff.2 h0
    have : t.lo.toInt = 0 := by unfold V at hV; omega
    rw [this, h0]
  · obtain ⟨e, hd, hl⟩ := C08.valid_ulp ht
    have h1 : (2 : Int) ^ e ≤ |t.hi.toInt| := by
      have := Int.le_of_dvd (abs_pos.2 h0) ((dvd_abs _ _).2 hd)
      exact this
    have := abs_nonneg t.lo.toInt
    omega

theorem mul_tf_isV_fixed {x : TwoFloat} {f : F64} {xh xl vf H L : Int} (hx : x.IsV xh xl) (hf : IsVal f vf)
    (hH : xh * vf = H * (unit : Int)) (hL : xl * vf = L * (unit : Int))
    (hc : RepI H ∧ |H| ≤ (maxFin : Int) ∧ RepI L ∧ |L| ≤ (maxFin : Int) ∧ H = rnI (H + L)) :
    (arithmetic.impl_Mul_rf64_for_rTwoFloat.mul x f).IsV H L := by
  obtain ⟨hHr, hHm, hLr, hLm, hfix⟩ := hc
  obtain ⟨c1, c2, c3⟩ := fix_conds hfix hHm
  exact IsV.of_fixed hfix (mul_tf_isV hx hf hH hHr hHm hL hLr hLm c1 c2 c3)

/-- `TwoFloat * TwoFloat` with a one-word right factor `(yh, 0)` -/
theorem mul_tt_isV_right_fixed {x y : TwoFloat} {xh xl yh H L : Int} (hx : x.IsV xh xl) (hy : y.IsV yh 0)
    (hH : xh * yh = H * (unit : Int)) (hL : xl * yh = L * (unit : Int))
    (hc : RepI H ∧ |H| ≤ (maxFin : Int) ∧ RepI L ∧ |L| ≤ (maxFin : Int) ∧ H = rnI (H + L)) :
    (arithmetic.impl_Mul_rTwoFloat_for_rTwoFloat.mul x y).IsV H L := by
  obtain ⟨hHr, hHm, hLr, hLm, hfix⟩ := hc
  obtain ⟨c1, c2, c3⟩ := fix_conds hfix hHm
  exact IsV.of_fixed hfix (mul_tt_isV hx hy hH hHr hHm (mul_zero _) (L1 := 0)
    (by rw [mul_zero, zero_mul]) repI_zero abs_zero_le_maxFin
    (by rw [zero_mul, add_zero]; exact hL) hLr hLm c1 c2 c3)

/-- `TwoFloat * TwoFloat` with a one-word left factor `(xh, 0)` -/
theorem mul_tt_isV_left_fixed {x y : TwoFloat} {xh yh yl H L : Int} (hx : x.IsV xh 0) (hy : y.IsV yh yl)
    (hH : xh * yh = H * (unit : Int)) (hL : xh * yl = L * (unit : Int))
    (hc : RepI H ∧ |H| ≤ (maxFin : Int) ∧ RepI L ∧ |L| ≤ (maxFin : Int) ∧ H = rnI (H + L)) :
    (arithmetic.impl_Mul_rTwoFloat_for_rTwoFloat.mul x y).IsV H L := by
  obtain ⟨hHr, hHm, hLr, hLm, hfix⟩ := hc
  obtain ⟨c1, c2, c3⟩ := fix_conds hfix hHm
  exact IsV.of_fixed hfix (mul_tt_isV hx hy hH hHr hHm (zero_mul _) (L1 := L)
    hL hLr hLm (by rw [zero_mul, zero_add]) hLr hLm c1 c2 c3)

theorem div_tf_isV_fixed {x : TwoFloat} {f : F64} {xh xl vf H L : Int} (hx : x.IsV xh xl) (hf : IsVal f vf)
    (hwx : x.WF) (hf0 : vf ≠ 0)
    (hH : xh * (unit : Int) = H * vf) (hL : xl * (unit : Int) = L * vf)
    (hc : RepI H ∧ |H| ≤ (maxFin : Int) ∧ RepI L ∧ |L| ≤ (maxFin : Int) ∧ H = rnI (H + L)) :
    (arithmetic.impl_Div_rf64_for_rTwoFloat.div x f).IsV H L := by
  obtain ⟨hHr, hHm, hLr, hLm, hfix⟩ := hc
  obtain ⟨c1, c2, c3⟩ := fix_conds hfix hHm
  exact IsV.of_fixed hfix (div_tf_isV hx hf hwx hf0 hH hHr hHm hL hLr hLm c1 c2 c3)

/-- facts about the zero pair -/
theorem zero_facts : RepI 0 ∧ |(0 : Int)| ≤ (maxFin : Int) ∧ RepI 0 ∧ |(0 : Int)| ≤ (maxFin : Int) ∧
    (0 : Int) = rnI (0 + 0) :=
  ⟨repI_zero, abs_zero_le_maxFin, repI_zero, abs_zero_le_maxFin, by rw [add_zero, rnI_zero]⟩

/-- facts about a valid well-formed pair -/
theorem Valid.facts {t : TwoFloat} (ht : t.Valid) (hw : t.WF) :
    RepI t.hi.toInt ∧ |t.hi.toInt| ≤ (maxFin : Int) ∧ RepI t.lo.toInt ∧ |t.lo.toInt| ≤ (maxFin : Int) ∧
      t.hi.toInt = rnI (t.hi.toInt + t.lo.toInt) :=
  ⟨hw.1.repI, hw.1.abs_toInt_le, hw.2.repI, hw.2.abs_toInt_le, ht.rnI_eq⟩

/-- `x ± y` when both word operations are exact and the word results are already normalised -/
theorem add_tt_isV_fixed {x y : TwoFloat} {xh xl yh yl : Int} (hx : x.IsV xh xl) (hy : y.IsV yh yl)
    (hwx : x.WF) (hwy : y.WF)
    (hc : RepI (xh + yh) ∧ |xh + yh| ≤ (maxFin : Int) ∧ RepI (xl + yl) ∧ |xl + yl| ≤ (maxFin : Int) ∧
      xh + yh = rnI (xh + yh + (xl + yl))) :
    (arithmetic.impl_Add_rTwoFloat_for_rTwoFloat.add x y).IsV (xh + yh) (xl + yl) := by
  obtain ⟨hHr, hHm, hLr, hLm, hfix⟩ := hc
  obtain ⟨c1, c2, c3⟩ := fix_conds hfix hHm
  exact IsV.of_fixed hfix (add_tt_isV hx hy hwx hwy hHr hHm hLr hLm c1 c2 c3)

theorem sub_tt_isV_fixed {x y : TwoFloat} {xh xl yh yl : Int} (hx : x.IsV xh xl) (hy : y.IsV yh yl)
    (hwx : x.WF) (hwy : y.WF)
    (hc : RepI (xh - yh) ∧ |xh - yh| ≤ (maxFin : Int) ∧ RepI (xl - yl) ∧ |xl - yl| ≤ (maxFin : Int) ∧
      xh - yh = rnI (xh - yh + (xl - yl))) :
    (arithmetic.impl_Sub_rTwoFloat_for_rTwoFloat.sub x y).IsV (xh - yh) (xl - yl) := by
  obtain ⟨hHr, hHm, hLr, hLm, hfix⟩ := hc
  obtain ⟨c1, c2, c3⟩ := fix_conds hfix hHm
  exact IsV.of_fixed hfix (sub_tt_isV hx hy hwx hwy hHr hHm hLr hLm c1 c2 c3)

/-- `x - y` when the high words cancel and the low difference is representable: `(xl - yl, 0)` -/
theorem sub_tt_isV_hi_cancel {x y : TwoFloat} {xh xl yl : Int} (hx : x.IsV xh xl) (hy : y.IsV xh yl)
    (hwx : x.WF) (hwy : y.WF) (hT : RepI (xl - yl)) (hTm : |xl - yl| ≤ (maxFin : Int)) :
    (arithmetic.impl_Sub_rTwoFloat_for_rTwoFloat.sub x y).IsV (xl - yl) 0 := by
  have e : xh - xh + (xl - yl) = xl - yl := by ring
  have e' : rnI (xl - yl) = xl - yl := rnI_of_repI hT
  have := sub_tt_isV hx hy hwx hwy (by rw [sub_self]; exact repI_zero)
    (by rw [sub_self]; exact abs_zero_le_maxFin) hT hTm (by rw [e, e']; exact hTm)
    (by rw [e, e', sub_self, sub_zero]; exact hT) (by rw [e, e', sub_self, sub_zero]; exact hTm)
  rwa [e, e', sub_self] at this

/-! ## scaling data for a valid pair and a factor / divisor `±2^k` -/

/-- `(H, L)` are the word values of a normalised pair in range -/
abbrev NormPair (H L : Int) : Prop :=
  RepI H ∧ |H| ≤ (maxFin : Int) ∧ RepI L ∧ |L| ≤ (maxFin : Int) ∧ H = rnI (H + L)

theorem norm_up {t : TwoFloat} (ht : t.Valid) (hw : t.WF) {σ : Int} {m : Nat} (hσ : σ = 1 ∨ σ = -1)
    (hov : t.hi.toInt.natAbs * 2 ^ m ≤ maxFin) :
    NormPair (σ * 2 ^ m * t.hi.toInt) (σ * 2 ^ m * t.lo.toInt) := by
  have hov' : |t.hi.toInt| * 2 ^ m ≤ (maxFin : Int) := by
    rw [← Int.natCast_natAbs]; exact_mod_cast hov
  exact scale_up_facts hσ ht.rnI_eq hw.1.repI hw.2.repI ht.abs_lo_le hov'

theorem norm_down {t : TwoFloat} (ht : t.Valid) (hw : t.WF) {σ H L : Int} {m : Nat} (hσ : σ = 1 ∨ σ = -1)
    (hH : t.hi.toInt = H * 2 ^ m) (hL : t.lo.toInt = L * 2 ^ m) : NormPair (σ * H) (σ * L) := by
  have h1 := ht.rnI_eq
  have h2 := hw.1.repI
  have h3 := hw.2.repI
  have h4 := hw.1.abs_toInt_le
  have h5 := hw.2.abs_toInt_le
  rw [hH, hL] at h1
  rw [hH] at h2 h4
  rw [hL] at h3 h5
  exact scale_down_facts hσ h1 h2 h3 h4 h5

/-- multiplying a valid pair by `vf = ±2^m` (`m ≥ 0`), no overflow -/
theorem mul_up_data {t : TwoFloat} (ht : t.Valid) (hw : t.WF) {vf σ : Int} {m : Nat} (hσ : σ = 1 ∨ σ = -1)
    (hfv : vf = σ * 2 ^ m * (unit : Int)) (hov : t.hi.toInt.natAbs * 2 ^ m ≤ maxFin) :
    t.hi.toInt * vf = (σ * 2 ^ m * t.hi.toInt) * (unit : Int) ∧
    t.lo.toInt * vf = (σ * 2 ^ m * t.lo.toInt) * (unit : Int) ∧
    NormPair (σ * 2 ^ m * t.hi.toInt) (σ * 2 ^ m * t.lo.toInt) :=
  ⟨by rw [hfv]; ring, by rw [hfv]; ring, norm_up ht hw hσ hov⟩

/-- multiplying a valid pair by `vf = ±2^-m`, both words multiples of `2^m` (no underflow) -/
theorem mul_down_data {t : TwoFloat} (ht : t.Valid) (hw : t.WF) {vf σ H L : Int} {m : Nat}
    (hσ : σ = 1 ∨ σ = -1) (hfv : vf * 2 ^ m = σ * (unit : Int))
    (hH : t.hi.toInt = H * 2 ^ m) (hL : t.lo.toInt = L * 2 ^ m) :
    t.hi.toInt * vf = (σ * H) * (unit : Int) ∧ t.lo.toInt * vf = (σ * L) * (unit : Int) ∧
    NormPair (σ * H) (σ * L) := by
  refine ⟨?_, ?_, norm_down ht hw hσ hH hL⟩
  · calc t.hi.toInt * vf = H * (vf * 2 ^ m) := by rw [hH]; ring
      _ = σ * H * (unit : Int) := by rw [hfv]; ring
  · calc t.lo.toInt * vf = L * (vf * 2 ^ m) := by rw [hL]; ring
      _ = σ * L * (unit : Int) := by rw [hfv]; ring

/-- dividing a valid pair by `vf = ±2^m` (`m ≥ 0`), both words multiples of `2^m` (no underflow) -/
theorem div_down_data {t : TwoFloat} (ht : t.Valid) (hw : t.WF) {vf σ H L : Int} {m : Nat}
    (hσ : σ = 1 ∨ σ = -1) (hfv : vf = σ * 2 ^ m * (unit : Int))
    (hH : t.hi.toInt = H * 2 ^ m) (hL : t.lo.toInt = L * 2 ^ m) :
    t.hi.toInt * (unit : Int) = (σ * H) * vf ∧ t.lo.toInt * (unit : Int) = (σ * L) * vf ∧
    NormPair (σ * H) (σ * L) := by
  have hss := sign_mul_self hσ
  have e : ∀ z : Int, σ * z * (σ * 2 ^ m * (unit : Int)) = (σ * σ) * (z * 2 ^ m * (unit : Int)) :=
    fun z => by ring
  exact ⟨by rw [hfv, hH, e, hss, one_mul], by rw [hfv, hL, e, hss, one_mul], norm_down ht hw hσ hH hL⟩

/-- dividing a valid pair by `vf = ±2^-m`, no overflow -/
theorem div_up_data {t : TwoFloat} (ht : t.Valid) (hw : t.WF) {vf σ : Int} {m : Nat} (hσ : σ = 1 ∨ σ = -1)
    (hfv : vf * 2 ^ m = σ * (unit : Int)) (hov : t.hi.toInt.natAbs * 2 ^ m ≤ maxFin) :
    t.hi.toInt * (unit : Int) = (σ * 2 ^ m * t.hi.toInt) * vf ∧
    t.lo.toInt * (unit : Int) = (σ * 2 ^ m * t.lo.toInt) * vf ∧
    NormPair (σ * 2 ^ m * t.hi.toInt) (σ * 2 ^ m * t.lo.toInt) := by
  have hss := sign_mul_self hσ
  have e : ∀ z : Int, σ * 2 ^ m * z * vf = (σ * z) * (vf * 2 ^ m) := fun z => by ring
  have e' : ∀ z : Int, σ * z * (σ * (unit : Int)) = (σ * σ) * (z * (unit : Int)) := fun z => by ring
  exact ⟨by rw [e, hfv, e', hss, one_mul], by rw [e, hfv, e', hss, one_mul], norm_up ht hw hσ hov⟩

/-! ## small facts used by the property files -/

theorem WF_of_toInt_zero {x : F64} (h1 : x.is_finite = true) (h0 : x.toInt = 0) : x.WF := by
  obtain ⟨s, n, rfl⟩ := is_finite_iff.mp h1
  have : n = 0 := TwoFloat.toInt_eq_zero_iff.1 h0
  subst this; exact WF_zero s

theorem IsV.WF_zero {t : TwoFloat} (h : t.IsV 0 0) : t.WF :=
  ⟨WF_of_toInt_zero h.1.1 h.1.2, WF_of_toInt_zero h.2.1 h.2.2⟩

theorem NormPair.neg {H L : Int} (h : NormPair H L) : NormPair (-H) (-L) := by
  obtain ⟨h1, h2, h3, h4, h5⟩ := h
  refine ⟨h1.neg, by rwa [abs_neg], h3.neg, by rwa [abs_neg], ?_⟩
  rw [← neg_add, rnI_neg, ← h5]

/-- valid pairs with opposite values have opposite words -/
theorem Valid.words_neg_of_V_add_eq_zero {a b : TwoFloat} (ha : a.Valid) (hb : b.Valid)
    (h : a.V + b.V = 0) : b.hi.toInt = -a.hi.toInt ∧ b.lo.toInt = -a.lo.toInt := by
  have e : b.V = -a.V := by omega
  have h1 : b.hi.toInt = -a.hi.toInt := by rw [hb.hi_toInt, ha.hi_toInt, e, rnI_neg]
  refine ⟨h1, ?_⟩
  unfold TwoFloat.V at e; omega

/-! ## long division `TwoFloat / TwoFloat` -/

/-- one step of the long division: `r - y * (r.hi / y.hi)` -/
def divStep (r y : TwoFloat) : TwoFloat :=
  arithmetic.impl_Sub_rTwoFloat_for_rTwoFloat.sub r
    (arithmetic.impl_Mul_rf64_for_rTwoFloat.mul y (F64.div r.hi y.hi))

theorem div_tt_eq (x y : TwoFloat) :
    arithmetic.impl_Div_rTwoFloat_for_rTwoFloat.div x y =
      arithmetic.renorm3 (F64.div x.hi y.hi) (F64.div (divStep x y).hi y.hi)
        (F64.div (divStep (divStep x y) y).hi y.hi) := rfl

theorem divStep_WF (r y : TwoFloat) : (divStep r y).WF := sub_tt_WF _ _

theorem div_tt_WF (x y : TwoFloat) : (arithmetic.impl_Div_rTwoFloat_for_rTwoFloat.div x y).WF :=
  renorm3_WF _ _ _

theorem repI_unit : RepI (unit : Int) := by
  rw [repI_natCast, unit_eq]; exact rep_two_pow 1074

theorem abs_unit_le_maxFin : |(unit : Int)| ≤ (maxFin : Int) := by
  have h := C08.two_U_le_maxFin
  have hp : (0 : Int) < (unit : Int) := Int.natCast_pos.2 unit_pos
  rw [abs_of_pos hp]
  change 2 * (unit : Int) ≤ _ at h
  omega

/-- a zero remainder stays zero, with a zero quotient digit -/
theorem divStep_zero {r y : TwoFloat} {yh yl : Int} (hr : r.IsV 0 0) (hy : y.IsV yh yl) (hy0 : yh ≠ 0) :
    IsVal (F64.div r.hi y.hi) 0 ∧ (divStep r y).IsV 0 0 := by
  have hq : IsVal (F64.div r.hi y.hi) 0 :=
    hr.1.div_exact hy.1 hy0 (by rw [zero_mul, zero_mul]) repI_zero abs_zero_le_maxFin
  have hp := mul_tf_isV_fixed hy hq (H := 0) (L := 0) (by rw [mul_zero, zero_mul])
    (by rw [mul_zero, zero_mul]) zero_facts
  have hc : NormPair ((0 : Int) - 0) (0 - 0) := by rw [sub_zero]; exact zero_facts
  have hs := sub_tt_isV_fixed hr hp hr.WF_zero (mul_tf_WF _ _) hc
  rw [sub_zero] at hs
  exact ⟨hq, hs⟩

/-- one step against a one-word divisor `(vf, 0)` with an exact quotient digit `q = rh / vf`: the high word is
consumed, the remainder is `(rl, 0)` -/
theorem divStep_word {r y : TwoFloat} {rh rl vf q : Int} (hr : r.IsV rh rl) (hwr : r.WF) (hy : y.IsV vf 0)
    (hf0 : vf ≠ 0) (hq : rh * (unit : Int) = q * vf) (hqr : RepI q) (hqm : |q| ≤ (maxFin : Int)) :
    IsVal (F64.div r.hi y.hi) q ∧ (divStep r y).IsV rl 0 := by
  have hqv : IsVal (F64.div r.hi y.hi) q := hr.1.div_exact hy.1 hf0 hq hqr hqm
  have hc : NormPair rh 0 :=
    ⟨hr.1.repI hwr.1, hr.1.abs_le hwr.1, repI_zero, abs_zero_le_maxFin,
      by rw [add_zero, rnI_of_repI (hr.1.repI hwr.1)]⟩
  have hp := mul_tf_isV_fixed hy hqv (H := rh) (L := 0) (by rw [hq]; ring) (by rw [zero_mul, zero_mul]) hc
  have hs := sub_tt_isV_hi_cancel hr hp hwr (mul_tf_WF _ _) (by rw [sub_zero]; exact hr.2.repI hwr.2)
    (by rw [sub_zero]; exact hr.2.abs_le hwr.2)
  rw [sub_zero] at hs
  exact ⟨hqv, hs⟩

/-- the first step of `x / x`: quotient digit `1`, remainder zero -/
theorem divStep_self {x : TwoFloat} (hx : x.Valid) (hw : x.WF) (h0 : x.hi.toInt ≠ 0) :
    IsVal (F64.div x.hi x.hi) (unit : Int) ∧ (divStep x x).IsV 0 0 := by
  have hxv := IsV.of_valid hx
  have hq : IsVal (F64.div x.hi x.hi) (unit : Int) :=
    hxv.1.div_exact hxv.1 h0 (mul_comm _ _) repI_unit abs_unit_le_maxFin
  have hp := mul_tf_isV_fixed hxv hq rfl rfl (hx.facts hw)
  have hc : NormPair (x.hi.toInt - x.hi.toInt) (x.lo.toInt - x.lo.toInt) := by
    rw [sub_self, sub_self]; exact zero_facts
  have hs := sub_tt_isV_fixed hxv hp hw (mul_tf_WF _ _) hc
  rw [sub_self, sub_self] at hs
  exact ⟨hq, hs⟩

/-- `x / x = (1, 0)` -/
theorem div_tt_self_isV {x : TwoFloat} (hx : x.Valid) (hw : x.WF) (h0 : x.hi.toInt ≠ 0) :
    (arithmetic.impl_Div_rTwoFloat_for_rTwoFloat.div x x).IsV (unit : Int) 0 := by
  rw [div_tt_eq]
  have hxv := IsV.of_valid hx
  obtain ⟨q1, r1⟩ := divStep_self hx hw h0
  obtain ⟨q2, r2⟩ := divStep_zero r1 hxv h0
  obtain ⟨q3, _⟩ := divStep_zero r2 hxv h0
  exact renorm3_isV q1 q2 q3 (div_WF _ _) (div_WF _ _) (div_WF _ _)
    (by rw [add_zero, rnI_of_repI repI_unit])

/-- `(±0, ±0) / y = (0, 0)` for a finite `y` with a non-zero high word -/
theorem div_tt_zero_isV {x y : TwoFloat} {yh yl : Int} (hx : x.IsV 0 0) (hy : y.IsV yh yl) (hy0 : yh ≠ 0) :
    (arithmetic.impl_Div_rTwoFloat_for_rTwoFloat.div x y).IsV 0 0 := by
  rw [div_tt_eq]
  obtain ⟨q1, r1⟩ := divStep_zero hx hy hy0
  obtain ⟨q2, r2⟩ := divStep_zero r1 hy hy0
  obtain ⟨q3, _⟩ := divStep_zero r2 hy hy0
  exact renorm3_isV q1 q2 q3 (div_WF _ _) (div_WF _ _) (div_WF _ _) zero_facts.2.2.2.2

/-- `x / (vf, 0)` when both word quotients `H = xh / vf`, `L = xl / vf` are exact and `(H, L)` is normalised -/
theorem div_tt_word_isV {x y : TwoFloat} {xh xl vf H L : Int} (hx : x.IsV xh xl) (hwx : x.WF)
    (hy : y.IsV vf 0) (hf0 : vf ≠ 0)
    (hH : xh * (unit : Int) = H * vf) (hL : xl * (unit : Int) = L * vf) (hc : NormPair H L) :
    (arithmetic.impl_Div_rTwoFloat_for_rTwoFloat.div x y).IsV H L := by
  rw [div_tt_eq]
  obtain ⟨hHr, hHm, hLr, hLm, hfix⟩ := hc
  obtain ⟨q1, r1⟩ := divStep_word hx hwx hy hf0 hH hHr hHm
  obtain ⟨q2, r2⟩ := divStep_word r1 (divStep_WF _ _) hy hf0 hL hLr hLm
  obtain ⟨q3, _⟩ := divStep_zero r2 hy hf0
  exact renorm3_isV q1 q2 q3 (div_WF _ _) (div_WF _ _) (div_WF _ _) hfix

/-! ## `f64 - TwoFloat` and the long division `f64 / TwoFloat` -/

theorem sub_ft_eq (f : F64) (x : TwoFloat) :
    arithmetic.impl_Sub_rTwoFloat_for_rf64.sub f x
      = arithmetic.fast_two_sum (TwoFloat.new_sub f x.hi).hi (F64.sub (TwoFloat.new_sub f x.hi).lo x.lo) := rfl

theorem sub_ft_WF (f : F64) (x : TwoFloat) : (arithmetic.impl_Sub_rTwoFloat_for_rf64.sub f x).WF :=
  fast_two_sum_WF _ _

/-- the exact-case rule for `f64 - TwoFloat`: if `S = f - x.hi` is representable the result is the normalisation
of `(S, -x.lo)` -/
theorem sub_ft_isV {x : TwoFloat} {f : F64} {xh xl vf : Int} (hf : IsVal f vf) (hx : x.IsV xh xl)
    (hwf : f.WF) (hwx : x.WF)
    (hS : RepI (vf - xh)) (hSm : |vf - xh| ≤ (maxFin : Int))
    (hov : |rnI (vf - xh + -xl)| ≤ (maxFin : Int))
    (hz : RepI (rnI (vf - xh + -xl) - (vf - xh)))
    (hzm : |rnI (vf - xh + -xl) - (vf - xh)| ≤ (maxFin : Int)) :
    (arithmetic.impl_Sub_rTwoFloat_for_rf64.sub f x).IsV (rnI (vf - xh + -xl))
      (vf - xh + -xl - rnI (vf - xh + -xl)) := by
  rw [sub_ft_eq]
  have hs := new_sub_isV_exact hf hx.1 hwf hwx.1 hS hSm
  have hv : IsVal (F64.sub (TwoFloat.new_sub f x.hi).lo x.lo) (-xl) := by
    have := hs.2.sub_exact hx.2 (by rw [zero_sub]; exact (hx.2.repI hwx.2).neg)
      (by rw [zero_sub, abs_neg]; exact hx.2.abs_le hwx.2)
    rwa [zero_sub] at this
  exact f2s_isV_of hs.1 hv (new_sub_WF _ _).1 (sub_WF _ _) hov hz hzm

/-- `f - (f, 0) = (0, 0)` (values) -/
theorem sub_ft_cancel {x : TwoFloat} {f : F64} {vf : Int} (hf : IsVal f vf) (hx : x.IsV vf 0)
    (hwf : f.WF) (hwx : x.WF) : (arithmetic.impl_Sub_rTwoFloat_for_rf64.sub f x).IsV 0 0 := by
  have e : vf - vf + -0 = 0 := by ring
  have := sub_ft_isV hf hx hwf hwx (by rw [sub_self]; exact repI_zero)
    (by rw [sub_self]; exact abs_zero_le_maxFin) (by rw [e, rnI_zero]; exact abs_zero_le_maxFin)
    (by rw [e, rnI_zero, sub_self, sub_zero]; exact repI_zero)
    (by rw [e, rnI_zero, sub_self, sub_zero]; exact abs_zero_le_maxFin)
  rwa [e, rnI_zero, sub_zero] at this

theorem div_ft_eq (f : F64) (y : TwoFloat) :
    arithmetic.impl_Div_rTwoFloat_for_rf64.div f y =
      arithmetic.renorm3 (F64.div f y.hi)
        (F64.div (arithmetic.impl_Sub_rTwoFloat_for_rf64.sub f
          (arithmetic.impl_Mul_rf64_for_rTwoFloat.mul y (F64.div f y.hi))).hi y.hi)
        (F64.div (divStep (arithmetic.impl_Sub_rTwoFloat_for_rf64.sub f
          (arithmetic.impl_Mul_rf64_for_rTwoFloat.mul y (F64.div f y.hi))) y).hi y.hi) := rfl

theorem div_ft_WF (f : F64) (y : TwoFloat) : (arithmetic.impl_Div_rTwoFloat_for_rf64.div f y).WF :=
  renorm3_WF _ _ _

/-- `(±0) / y = (0, 0)` for a finite `y` with a non-zero high word -/
theorem div_ft_zero_isV {f : F64} {y : TwoFloat} {yh yl : Int} (hf : IsVal f 0) (hy : y.IsV yh yl)
    (hy0 : yh ≠ 0) : (arithmetic.impl_Div_rTwoFloat_for_rf64.div f y).IsV 0 0 := by
  rw [div_ft_eq]
  have q1 : IsVal (F64.div f y.hi) 0 :=
    hf.div_exact hy.1 hy0 (by rw [zero_mul, zero_mul]) repI_zero abs_zero_le_maxFin
  have hp := mul_tf_isV_fixed hy q1 (H := 0) (L := 0) (by rw [mul_zero, zero_mul])
    (by rw [mul_zero, zero_mul]) zero_facts
  have r1 := sub_ft_cancel hf hp (WF_of_toInt_zero hf.1 hf.2) (mul_tf_WF _ _)
  obtain ⟨q2, r2⟩ := divStep_zero r1 hy hy0
  obtain ⟨q3, _⟩ := divStep_zero r2 hy hy0
  exact renorm3_isV q1 q2 q3 (div_WF _ _) (div_WF _ _) (div_WF _ _) zero_facts.2.2.2.2

/-- `f / (vf', 0)` with an exact representable quotient `H`: the result is `(H, 0)` -/
theorem div_ft_word_isV {f : F64} {y : TwoFloat} {vf vy H : Int} (hf : IsVal f vf) (hwf : f.WF)
    (hy : y.IsV vy 0) (hy0 : vy ≠ 0) (hH : vf * (unit : Int) = H * vy) (hHr : RepI H)
    (hHm : |H| ≤ (maxFin : Int)) :
    (arithmetic.impl_Div_rTwoFloat_for_rf64.div f y).IsV H 0 := by
  rw [div_ft_eq]
  have q1 : IsVal (F64.div f y.hi) H := hf.div_exact hy.1 hy0 hH hHr hHm
  have hc : NormPair vf 0 :=
    ⟨hf.repI hwf, hf.abs_le hwf, repI_zero, abs_zero_le_maxFin, by rw [add_zero, rnI_of_repI (hf.repI hwf)]⟩
  have hp := mul_tf_isV_fixed hy q1 (H := vf) (L := 0) (by rw [hH]; ring) (by rw [zero_mul, zero_mul]) hc
  have r1 := sub_ft_cancel hf hp hwf (mul_tf_WF _ _)
  obtain ⟨q2, r2⟩ := divStep_zero r1 hy hy0
  obtain ⟨q3, _⟩ := divStep_zero r2 hy hy0
  exact renorm3_isV q1 q2 q3 (div_WF _ _) (div_WF _ _) (div_WF _ _)
    (by rw [add_zero, rnI_of_repI hHr])

end TwoFloat
