import TFV.Prelude.F64
import TFV.Prelude.Int
import TFV.Prelude.Classes
import TFV.Prelude.Libm
