/-
C10v — the value-level / bit-level identities of property C10 that are NOT definitional:

  "a+b ≡ b+a, a−b ≡ a+(−b) ≡ −(b−a), (−a)·b ≡ −(a·b) hold bit for bit"

(the definitional ones — `x+f ≡ f+x`, `x·f ≡ f·x`, `−(−a) ≡ a`, the by-value/by-reference impls — are in C10.lean:
`C10.add_comm_tf_ft`, `C10.mul_comm_tf_ft`, `C10.neg_neg`).

`TwoFloat.eqz s t` ("equal up to the sign of zero words"): word-wise `F64.eqz`, where
`F64.eqz x y := x = y ∨ (x.toInt = 0 ∧ y.toInt = 0 ∧ x.is_finite ∧ y.is_finite)`  (Lemmas/Symm.lean).

RESULTS
* `add_comm_tt` : `a + b = b + a` BIT FOR BIT for well-formed operands whenever the two 2Sums commute word-wise
  (`F64.CommOK`: a non-finite operand, an overflowing sum, or both 2Sum low words finite).  Corollaries:
  `add_comm_tt_of_finite` (both results finite), `add_comm_tt_of_lt_max` (no word of magnitude f64::MAX; NaN, ∞ and
  overflowing sums included), `add_comm_tt_of_valid` (valid operands with |hi| < f64::MAX).  The range is SHARP:
* `add_tt_not_comm` : kernel-checked DEVIATION: `a = (f64::MAX, 0)`, `b = (−3·2^970, 0)` — both valid — give
  `a + b = (NaN, NaN)` but `b + a = (MAX − 2^971, −2^970)` (spurious overflow of `s ⊖ b` inside 2Sum, only at |hi| = MAX).
* `sub_eq_add_neg_eqz` : `a − b ≈ a + (−b)` up to zero signs for ALL operands (NaN/∞ included, no range condition);
  `sub_eq_add_neg` : bit for bit when no word of `a` is `−0`;  `sub_ne_add_neg` : counterexample to `=`.
* `neg_sub_swap_eqz` : `−(b − a) ≈ a − b` up to zero signs (condition `F64.SwapOK` on the words; corollaries for finite
  results / no word of magnitude MAX / valid operands with |hi| < MAX);  `neg_sub_swap_ne` : counterexamples to `=`;
  `neg_sub_swap_not_eqz` : at |hi| = MAX even `≈` fails (NaN against the correct finite difference).
* `neg_mul_eqz`, `mul_neg_eqz` : `(−a)·b ≈ −(a·b) ≈ a·(−b)` up to zero signs for ALL operands; `neg_mul_ne`.
* `neg_add_eqz`, `neg_sub_eqz` : `(−a) ± (−b) ≈ −(a ± b)` for ALL operands.
* consequences: equal exact values `V`, validity transfers (`TwoFloat.eqz.V_eq`, `TwoFloat.eqz.valid`).
-/
import TFV.Lemmas.Symm

set_option exponentiation.threshold 3000

namespace C10v

open F64 TwoFloat

local instance (t : TwoFloat) : Decidable t.WF := by unfold TwoFloat.WF; infer_instance

abbrev addTT := arithmetic.impl_Add_rTwoFloat_for_rTwoFloat.add
abbrev subTT := arithmetic.impl_Sub_rTwoFloat_for_rTwoFloat.sub
abbrev mulTT := arithmetic.impl_Mul_rTwoFloat_for_rTwoFloat.mul
abbrev negT := arithmetic.impl_Neg_for_rTwoFloat.neg

theorem add_tt_notation (a b : TwoFloat) : a +. b = addTT a b := rfl
theorem sub_tt_notation (a b : TwoFloat) : a -. b = subTT a b := rfl
theorem mul_tt_notation (a b : TwoFloat) : a *. b = mulTT a b := rfl

/-! ## 1. `a + b ≡ b + a` -/

/-- `a + b = b + a` bit for bit as soon as the two 2Sums (of the high words, of the low words) commute -/
theorem add_comm_tt_of_words (a b : TwoFloat)
    (hh : TwoFloat.new_add a.hi b.hi = TwoFloat.new_add b.hi a.hi)
    (hl : TwoFloat.new_add a.lo b.lo = TwoFloat.new_add b.lo a.lo) :
    addTT a b = addTT b a := by
  show arithmetic.impl_Add_rTwoFloat_for_rTwoFloat.add a b = arithmetic.impl_Add_rTwoFloat_for_rTwoFloat.add b a
  rw [add_tt_eq_tail, add_tt_eq_tail, hh, hl]

/-- **`a + b = b + a`, bit for bit**, for well-formed operands under `F64.CommOK` on the high and on the low words
(an operand not finite, or the word sum overflows, or both orders of 2Sum have a finite low word) -/
theorem add_comm_tt (a b : TwoFloat) (hwa : a.WF) (hwb : b.WF)
    (hh : CommOK a.hi b.hi) (hl : CommOK a.lo b.lo) :
    addTT a b = addTT b a :=
  add_comm_tt_of_words a b (new_add_comm hwa.1 hwb.1 hh) (new_add_comm hwa.2 hwb.2 hl)

/-- if both `a + b` and `b + a` are finite they are bit-identical -/
theorem add_comm_tt_of_finite (a b : TwoFloat) (hwa : a.WF) (hwb : b.WF)
    (h1 : (addTT a b).hi.is_finite = true) (h2 : (addTT b a).hi.is_finite = true) :
    addTT a b = addTT b a := by
  have f1 := dwTail_finite (s := TwoFloat.new_add a.hi b.hi) (t := TwoFloat.new_add a.lo b.lo) h1
  have f2 := dwTail_finite (s := TwoFloat.new_add b.hi a.hi) (t := TwoFloat.new_add b.lo a.lo) h2
  exact add_comm_tt a b hwa hwb (Or.inr (Or.inr (Or.inr ⟨f1.1, f2.1⟩))) (Or.inr (Or.inr (Or.inr ⟨f1.2, f2.2⟩)))

/-- finite word of magnitude below `2^1023` (`2|x| ≤ f64::MAX`) -/
def Half (x : F64) : Prop := x.is_finite = true ∧ 2 * |x.toInt| ≤ (maxFin : Int)

instance (x : F64) : Decidable (Half x) := by unfold Half; infer_instance

/-- all four words finite and below `2^1023` in magnitude: `a + b = b + a` bit for bit -/
theorem add_comm_tt_of_half (a b : TwoFloat) (hwa : a.WF) (hwb : b.WF)
    (hah : Half a.hi) (hal : Half a.lo) (hbh : Half b.hi) (hbl : Half b.lo) :
    addTT a b = addTT b a :=
  add_comm_tt a b hwa hwb (commOK_of_half hah.1 hbh.1 hwa.1 hwb.1 hah.2 hbh.2)
    (commOK_of_half hal.1 hbl.1 hwa.2 hwb.2 hal.2 hbl.2)

/-- the low word of a valid well-formed pair is always below `2^1023` -/
theorem half_lo_of_valid {t : TwoFloat} (hv : t.Valid) (hw : t.WF) : Half t.lo := by
  refine ⟨hv.2.1, le_trans hv.two_mul_abs_lo_le ?_⟩
  have hle := hw.1.natAbs_toInt_le
  generalize t.hi.toInt.natAbs = n at hle
  have h1 : 2 ^ (Nat.log2 n - 52) ≤ maxFin := by
    rcases Nat.eq_zero_or_pos n with rfl | hn
    · exact Nat.le_trans (by simp) (by decide +kernel : 1 ≤ maxFin)
    · exact Nat.le_trans (Nat.pow_le_pow_right (by norm_num) (Nat.sub_le _ _))
        (Nat.le_trans (Nat.log2_self_le (by omega)) hle)
  exact_mod_cast h1

theorem maxFin_pos : (0 : Int) < (maxFin : Int) := by decide +kernel

/-- **no word of magnitude `f64::MAX`: `a + b = b + a` bit for bit** (well-formed operands; NaN, infinities and
overflowing sums included) -/
theorem add_comm_tt_of_lt_max (a b : TwoFloat) (hwa : a.WF) (hwb : b.WF)
    (hah : |a.hi.toInt| < (maxFin : Int)) (hal : |a.lo.toInt| < (maxFin : Int))
    (hbh : |b.hi.toInt| < (maxFin : Int)) (hbl : |b.lo.toInt| < (maxFin : Int)) :
    addTT a b = addTT b a :=
  add_comm_tt a b hwa hwb (commOK_of_lt_max hwa.1 hwb.1 hah hbh) (commOK_of_lt_max hwa.2 hwb.2 hal hbl)

theorem abs_lo_lt_max_of_valid {t : TwoFloat} (hv : t.Valid) (hw : t.WF) : |t.lo.toInt| < (maxFin : Int) := by
  have := (half_lo_of_valid hv hw).2
  have := maxFin_pos
  omega

/-- **valid operands with `|hi| < f64::MAX`: `a + b = b + a` bit for bit** (whether or not the sum overflows) -/
theorem add_comm_tt_of_valid (a b : TwoFloat) (hva : a.Valid) (hvb : b.Valid) (hwa : a.WF) (hwb : b.WF)
    (hA : |a.hi.toInt| < (maxFin : Int)) (hB : |b.hi.toInt| < (maxFin : Int)) :
    addTT a b = addTT b a :=
  add_comm_tt_of_lt_max a b hwa hwb hA (abs_lo_lt_max_of_valid hva hwa) hB (abs_lo_lt_max_of_valid hvb hwb)

theorem add_comm_tt_notation (a b : TwoFloat) (hva : a.Valid) (hvb : b.Valid) (hwa : a.WF) (hwb : b.WF)
    (hA : |a.hi.toInt| < (maxFin : Int)) (hB : |b.hi.toInt| < (maxFin : Int)) :
    a +. b = b +. a :=
  add_comm_tt_of_valid a b hva hvb hwa hwb hA hB

/-- **DEVIATION** (kernel-checked): commutativity fails at the very top of the range.  With `a = (f64::MAX, 0)` and
`b = (−1.5·ulp(MAX), 0) = (−3·2^970, 0)`, both valid and well-formed, `a + b` is `(NaN, NaN)` whereas `b + a` is the
correct finite sum `(MAX − 2^971, −2^970)`: in `2Sum(a.hi, b.hi)` the step `aa = s ⊖ b.hi` rounds
`MAX + ulp/2` to `2^1024 = +∞`.  Bit patterns: `a.hi = 0x7FEFFFFFFFFFFFFF`, `b.hi = 0xFCA8000000000000`;
`b + a = (0x7FEFFFFFFFFFFFFE, 0xFC90000000000000)`. -/
theorem add_tt_not_comm :
    let a : TwoFloat := ⟨fin false maxFin, fin false 0⟩
    let b : TwoFloat := ⟨fin true (3 * 2 ^ 2044), fin false 0⟩
    a.Valid ∧ b.Valid ∧ a.WF ∧ b.WF ∧
    addTT a b = ⟨nan, nan⟩ ∧
    addTT b a = ⟨fin false ((2 ^ 53 - 2) * 2 ^ 2045), fin true (2 ^ 2044)⟩ ∧
    (addTT b a).Valid ∧ (addTT b a).V = a.V + b.V ∧
    a.hi = f64lit 0x7FEFFFFFFFFFFFFF ∧ b.hi = f64lit 0xFCA8000000000000 := by
  decide +kernel

/-! ## 3. `a − b ≡ a + (−b)` -/

/-- **`a − b` and `a + (−b)` agree up to the signs of zero words — for ALL operands** (no finiteness, validity or
range condition) -/
theorem sub_eq_add_neg_eqz (a b : TwoFloat) : TwoFloat.eqz (subTT a b) (addTT a (negT b)) := by
  show TwoFloat.eqz (arithmetic.impl_Sub_rTwoFloat_for_rTwoFloat.sub a b)
    (arithmetic.impl_Add_rTwoFloat_for_rTwoFloat.add a (negT b))
  rw [sub_tt_eq_tail, add_tt_eq_tail]
  have h1 := new_sub_eqz_new_add_neg a.hi b.hi
  have h2 := new_sub_eqz_new_add_neg a.lo b.lo
  exact dwTail_eqz ⟨F64.eqz.of_eq h1.1, h1.2⟩ ⟨F64.eqz.of_eq h2.1, h2.2⟩

/-- **bit for bit** when no word of `a` is `−0` (ALL `b`) -/
theorem sub_eq_add_neg (a b : TwoFloat) (hh : a.hi ≠ fin true 0) (hl : a.lo ≠ fin true 0) :
    subTT a b = addTT a (negT b) := by
  show arithmetic.impl_Sub_rTwoFloat_for_rTwoFloat.sub a b
    = arithmetic.impl_Add_rTwoFloat_for_rTwoFloat.add a (negT b)
  rw [sub_tt_eq_tail, add_tt_eq_tail, new_sub_eq_new_add_neg hh, new_sub_eq_new_add_neg hl]
  rfl

/-- the two sides always have the same exact value, and one is valid iff the other is -/
theorem sub_eq_add_neg_V (a b : TwoFloat) : (subTT a b).V = (addTT a (negT b)).V :=
  (sub_eq_add_neg_eqz a b).V_eq

theorem sub_valid_iff_add_neg_valid (a b : TwoFloat) : (subTT a b).Valid ↔ (addTT a (negT b)).Valid :=
  (sub_eq_add_neg_eqz a b).valid_iff

/-- the `=` version is false: `(−0, −0) − 1 = (−1, −0)` but `(−0, −0) + (−1) = (−1, +0)` -/
theorem sub_ne_add_neg :
    let a : TwoFloat := ⟨fin true 0, fin true 0⟩
    let b : TwoFloat := ⟨fin false (2 ^ 1074), fin false 0⟩
    a.Valid ∧ b.Valid ∧
    subTT a b = ⟨fin true (2 ^ 1074), fin true 0⟩ ∧
    addTT a (negT b) = ⟨fin true (2 ^ 1074), fin false 0⟩ ∧
    subTT a b ≠ addTT a (negT b) := by
  decide +kernel

/-! ## 4. `−(b − a) ≡ a − b` -/

/-- `−(b − a)` and `a − b` agree up to zero signs as soon as the two `new_sub` do word-wise -/
theorem neg_sub_swap_eqz_of_words (a b : TwoFloat)
    (hh : TwoFloat.eqz (negT (TwoFloat.new_sub b.hi a.hi)) (TwoFloat.new_sub a.hi b.hi))
    (hl : TwoFloat.eqz (negT (TwoFloat.new_sub b.lo a.lo)) (TwoFloat.new_sub a.lo b.lo)) :
    TwoFloat.eqz (negT (subTT b a)) (subTT a b) := by
  show TwoFloat.eqz (negT (arithmetic.impl_Sub_rTwoFloat_for_rTwoFloat.sub b a))
    (arithmetic.impl_Sub_rTwoFloat_for_rTwoFloat.sub a b)
  rw [sub_tt_eq_tail, sub_tt_eq_tail]
  exact (dwTail_negz hh.symm hl.symm).symm

/-- **`−(b − a)` and `a − b` agree up to the signs of zero words**, for well-formed operands under `F64.SwapOK` on the
high and on the low words (an operand not finite, or the word difference overflows, or both orders of `new_sub`
have a finite low word) -/
theorem neg_sub_swap_eqz (a b : TwoFloat) (hwa : a.WF) (hwb : b.WF)
    (hh : SwapOK a.hi b.hi) (hl : SwapOK a.lo b.lo) :
    TwoFloat.eqz (negT (subTT b a)) (subTT a b) :=
  neg_sub_swap_eqz_of_words a b (new_sub_swap hwa.1 hwb.1 hh) (new_sub_swap hwa.2 hwb.2 hl)

/-- if both `b − a` and `a − b` are finite, `−(b − a)` and `a − b` agree up to zero signs -/
theorem neg_sub_swap_eqz_of_finite (a b : TwoFloat) (hwa : a.WF) (hwb : b.WF)
    (h1 : (subTT b a).hi.is_finite = true) (h2 : (subTT a b).hi.is_finite = true) :
    TwoFloat.eqz (negT (subTT b a)) (subTT a b) := by
  have f1 := dwTail_finite (s := TwoFloat.new_sub b.hi a.hi) (t := TwoFloat.new_sub b.lo a.lo) h1
  have f2 := dwTail_finite (s := TwoFloat.new_sub a.hi b.hi) (t := TwoFloat.new_sub a.lo b.lo) h2
  exact neg_sub_swap_eqz a b hwa hwb (Or.inr (Or.inr (Or.inr ⟨f2.1, f1.1⟩))) (Or.inr (Or.inr (Or.inr ⟨f2.2, f1.2⟩)))

theorem neg_sub_swap_eqz_of_half (a b : TwoFloat) (hwa : a.WF) (hwb : b.WF)
    (hah : Half a.hi) (hal : Half a.lo) (hbh : Half b.hi) (hbl : Half b.lo) :
    TwoFloat.eqz (negT (subTT b a)) (subTT a b) :=
  neg_sub_swap_eqz a b hwa hwb (swapOK_of_half hah.1 hbh.1 hwa.1 hwb.1 hah.2 hbh.2)
    (swapOK_of_half hal.1 hbl.1 hwa.2 hwb.2 hal.2 hbl.2)

/-- no word of magnitude `f64::MAX` (well-formed operands; NaN, infinities, overflow included) -/
theorem neg_sub_swap_eqz_of_lt_max (a b : TwoFloat) (hwa : a.WF) (hwb : b.WF)
    (hah : |a.hi.toInt| < (maxFin : Int)) (hal : |a.lo.toInt| < (maxFin : Int))
    (hbh : |b.hi.toInt| < (maxFin : Int)) (hbl : |b.lo.toInt| < (maxFin : Int)) :
    TwoFloat.eqz (negT (subTT b a)) (subTT a b) :=
  neg_sub_swap_eqz a b hwa hwb (swapOK_of_lt_max hwa.1 hwb.1 hah hbh) (swapOK_of_lt_max hwa.2 hwb.2 hal hbl)

/-- **valid operands with `|hi| < f64::MAX`: `−(b − a) ≈ a − b` up to zero signs** -/
theorem neg_sub_swap_eqz_of_valid (a b : TwoFloat) (hva : a.Valid) (hvb : b.Valid) (hwa : a.WF) (hwb : b.WF)
    (hA : |a.hi.toInt| < (maxFin : Int)) (hB : |b.hi.toInt| < (maxFin : Int)) :
    TwoFloat.eqz (negT (subTT b a)) (subTT a b) :=
  neg_sub_swap_eqz_of_lt_max a b hwa hwb hA (abs_lo_lt_max_of_valid hva hwa) hB (abs_lo_lt_max_of_valid hvb hwb)

/-- the exact values then agree: `V(−(b − a)) = V(a − b)` -/
theorem neg_sub_swap_V (a b : TwoFloat) (hva : a.Valid) (hvb : b.Valid) (hwa : a.WF) (hwb : b.WF)
    (hA : |a.hi.toInt| < (maxFin : Int)) (hB : |b.hi.toInt| < (maxFin : Int)) :
    (subTT a b).V = -(subTT b a).V := by
  rw [← (neg_sub_swap_eqz_of_valid a b hva hvb hwa hwb hA hB).V_eq]
  show (F64.neg _).toInt + (F64.neg _).toInt = _
  rw [toInt_neg, toInt_neg]; unfold TwoFloat.V; ring

/-- **DEVIATION** (kernel-checked), same root cause as `add_tt_not_comm`: with `a = (f64::MAX, 0)`,
`b = (3·2^970, 0)`: `a − b = (NaN, NaN)` but `−(b − a) = (MAX − 2^971, −2^970)`, the correct difference. -/
theorem neg_sub_swap_not_eqz :
    let a : TwoFloat := ⟨fin false maxFin, fin false 0⟩
    let b : TwoFloat := ⟨fin false (3 * 2 ^ 2044), fin false 0⟩
    a.Valid ∧ b.Valid ∧ a.WF ∧ b.WF ∧
    subTT a b = ⟨nan, nan⟩ ∧
    negT (subTT b a) = ⟨fin false ((2 ^ 53 - 2) * 2 ^ 2045), fin true (2 ^ 2044)⟩ ∧
    ¬ TwoFloat.eqz (negT (subTT b a)) (subTT a b) := by
  decide +kernel

/-- the `=` version is false: `−(5 − 3) = (−2, −0)` but `3 − 5 = (−2, +0)`; `−(1 − 1) = (−0, −0)` but
`1 − 1 = (+0, +0)` -/
theorem neg_sub_swap_ne :
    let one : TwoFloat := ⟨fin false (2 ^ 1074), fin false 0⟩
    let three : TwoFloat := ⟨fin false (3 * 2 ^ 1074), fin false 0⟩
    let five : TwoFloat := ⟨fin false (5 * 2 ^ 1074), fin false 0⟩
    negT (subTT five three) = ⟨fin true (2 * 2 ^ 1074), fin true 0⟩ ∧
    subTT three five = ⟨fin true (2 * 2 ^ 1074), fin false 0⟩ ∧
    negT (subTT one one) = ⟨fin true 0, fin true 0⟩ ∧
    subTT one one = ⟨fin false 0, fin false 0⟩ := by
  decide +kernel

/-! ## 5. `(−a)·b ≡ −(a·b)` -/

/-- **`(−a)·b` and `−(a·b)` agree up to the signs of zero words — for ALL operands** -/
theorem neg_mul_eqz (a b : TwoFloat) : TwoFloat.eqz (mulTT (negT a) b) (negT (mulTT a b)) := by
  show TwoFloat.eqz (arithmetic.impl_Mul_rTwoFloat_for_rTwoFloat.mul (negT a) b)
    (negT (arithmetic.impl_Mul_rTwoFloat_for_rTwoFloat.mul a b))
  rw [mul_tt_eq, mul_tt_eq]
  have hp := new_mul_negz_left (a := a.hi) (b := b.hi) (F64.eqz.refl (F64.neg a.hi)) (F64.eqz.refl b.hi)
  have h0 : F64.eqz (F64.mul (F64.neg a.lo) b.lo) (F64.neg (F64.mul a.lo b.lo)) :=
    F64.eqz.of_eq (mul_neg_left _ _)
  have h1 := negz_fma_left (F64.eqz.refl (F64.neg a.hi)) (F64.eqz.refl b.lo) h0
  have h2 := negz_fma_left (F64.eqz.refl (F64.neg a.lo)) (F64.eqz.refl b.hi) h1
  exact fast_two_sum_negz hp.1 (negz_add hp.2 h2)

/-- **`a·(−b)` and `−(a·b)` agree up to the signs of zero words — for ALL operands** -/
theorem mul_neg_eqz (a b : TwoFloat) : TwoFloat.eqz (mulTT a (negT b)) (negT (mulTT a b)) := by
  show TwoFloat.eqz (arithmetic.impl_Mul_rTwoFloat_for_rTwoFloat.mul a (negT b))
    (negT (arithmetic.impl_Mul_rTwoFloat_for_rTwoFloat.mul a b))
  rw [mul_tt_eq, mul_tt_eq]
  have hp := new_mul_negz_right (a := a.hi) (b := b.hi) (F64.eqz.refl a.hi) (F64.eqz.refl (F64.neg b.hi))
  have h0 : F64.eqz (F64.mul a.lo (F64.neg b.lo)) (F64.neg (F64.mul a.lo b.lo)) :=
    F64.eqz.of_eq (mul_neg_right _ _)
  have h1 := negz_fma_right (F64.eqz.refl a.hi) (F64.eqz.refl (F64.neg b.lo)) h0
  have h2 := negz_fma_right (F64.eqz.refl a.lo) (F64.eqz.refl (F64.neg b.hi)) h1
  exact fast_two_sum_negz hp.1 (negz_add hp.2 h2)

/-- `(−a)·b ≈ a·(−b)`, same exact value, validity transfers -/
theorem neg_mul_eqz_mul_neg (a b : TwoFloat) : TwoFloat.eqz (mulTT (negT a) b) (mulTT a (negT b)) :=
  (neg_mul_eqz a b).trans (mul_neg_eqz a b).symm

theorem neg_mul_V (a b : TwoFloat) : (mulTT (negT a) b).V = -(mulTT a b).V := by
  rw [(neg_mul_eqz a b).V_eq]
  show (F64.neg _).toInt + (F64.neg _).toInt = _
  rw [toInt_neg, toInt_neg]; unfold TwoFloat.V; ring

theorem neg_mul_valid_iff (a b : TwoFloat) : (mulTT (negT a) b).Valid ↔ (negT (mulTT a b)).Valid :=
  (neg_mul_eqz a b).valid_iff

/-- the `=` version is false: `(−1)·1 = (−1, +0)` but `−(1·1) = (−1, −0)` (the low word is
`fma(−1, 1, +1) = +0` against `−fma(1, 1, −1) = −(+0)`) -/
theorem neg_mul_ne :
    let one : TwoFloat := ⟨fin false (2 ^ 1074), fin false 0⟩
    mulTT (negT one) one = ⟨fin true (2 ^ 1074), fin false 0⟩ ∧
    negT (mulTT one one) = ⟨fin true (2 ^ 1074), fin true 0⟩ := by
  decide +kernel

/-! ## bonus: `±` are odd up to zero signs (ALL operands) -/

theorem neg_add_eqz (a b : TwoFloat) : TwoFloat.eqz (addTT (negT a) (negT b)) (negT (addTT a b)) := by
  show TwoFloat.eqz (arithmetic.impl_Add_rTwoFloat_for_rTwoFloat.add (negT a) (negT b))
    (negT (arithmetic.impl_Add_rTwoFloat_for_rTwoFloat.add a b))
  rw [add_tt_eq_tail, add_tt_eq_tail]
  exact dwTail_negz (new_add_neg_eqz a.hi b.hi) (new_add_neg_eqz a.lo b.lo)

theorem neg_sub_eqz (a b : TwoFloat) : TwoFloat.eqz (subTT (negT a) (negT b)) (negT (subTT a b)) := by
  show TwoFloat.eqz (arithmetic.impl_Sub_rTwoFloat_for_rTwoFloat.sub (negT a) (negT b))
    (negT (arithmetic.impl_Sub_rTwoFloat_for_rTwoFloat.sub a b))
  rw [sub_tt_eq_tail, sub_tt_eq_tail]
  exact dwTail_negz (new_sub_neg_eqz a.hi b.hi) (new_sub_neg_eqz a.lo b.lo)

/-- the operators respect `eqz`: zero signs of the operands can only change zero signs of the result -/
theorem add_tt_eqz {a a' b b' : TwoFloat} (ha : TwoFloat.eqz a a') (hb : TwoFloat.eqz b b') :
    TwoFloat.eqz (addTT a b) (addTT a' b') := by
  show TwoFloat.eqz (arithmetic.impl_Add_rTwoFloat_for_rTwoFloat.add a b)
    (arithmetic.impl_Add_rTwoFloat_for_rTwoFloat.add a' b')
  rw [add_tt_eq_tail, add_tt_eq_tail]
  exact dwTail_eqz (new_add_eqz ha.1 hb.1) (new_add_eqz ha.2 hb.2)

theorem sub_tt_eqz {a a' b b' : TwoFloat} (ha : TwoFloat.eqz a a') (hb : TwoFloat.eqz b b') :
    TwoFloat.eqz (subTT a b) (subTT a' b') := by
  show TwoFloat.eqz (arithmetic.impl_Sub_rTwoFloat_for_rTwoFloat.sub a b)
    (arithmetic.impl_Sub_rTwoFloat_for_rTwoFloat.sub a' b')
  rw [sub_tt_eq_tail, sub_tt_eq_tail]
  exact dwTail_eqz (new_sub_eqz ha.1 hb.1) (new_sub_eqz ha.2 hb.2)

theorem mul_tt_eqz {a a' b b' : TwoFloat} (ha : TwoFloat.eqz a a') (hb : TwoFloat.eqz b b') :
    TwoFloat.eqz (mulTT a b) (mulTT a' b') := by
  show TwoFloat.eqz (arithmetic.impl_Mul_rTwoFloat_for_rTwoFloat.mul a b)
    (arithmetic.impl_Mul_rTwoFloat_for_rTwoFloat.mul a' b')
  rw [mul_tt_eq, mul_tt_eq]
  have hp := new_mul_eqz ha.1 hb.1
  exact fast_two_sum_eqz hp.1
    (F64.eqz.add hp.2 (F64.eqz.fma ha.2 hb.1 (F64.eqz.fma ha.1 hb.2 (F64.eqz.mul ha.2 hb.2))))

/-! ## examples on concrete operands -/

section Examples

/-- π and e as double-doubles (the crate's constants) -/
private def pi : TwoFloat := ⟨f64lit 0x400921fb54442d18, f64lit 0x3ca1a62633145c07⟩
private def e : TwoFloat := ⟨f64lit 0x4005bf0a8b145769, f64lit 0x3ca4d57ee2b1013a⟩

example : pi.Valid ∧ e.Valid ∧ pi.WF ∧ e.WF := by decide +kernel

-- instances of the theorems, evaluated by the kernel
example : addTT pi e = addTT e pi := by decide +kernel
example : subTT pi e = addTT pi (negT e) := by decide +kernel
example : negT (subTT e pi) = subTT pi e := by decide +kernel           -- no zero word here: even `=`
example : mulTT (negT pi) e = negT (mulTT pi e) := by decide +kernel    -- inexact product: even `=`
example : TwoFloat.eqz (negT (subTT e pi)) (subTT pi e) := by decide +kernel

-- the hypotheses of the theorems are decidable on concrete operands
example : addTT pi e = addTT e pi :=
  add_comm_tt pi e (by decide +kernel) (by decide +kernel) (by decide +kernel) (by decide +kernel)

example : addTT pi e = addTT e pi :=
  add_comm_tt_of_valid pi e (by decide +kernel) (by decide +kernel) (by decide +kernel) (by decide +kernel)
    (by decide +kernel) (by decide +kernel)

-- non-finite operands are covered: ∞ + 1 = 1 + ∞ = (∞, NaN)
example :
    let i : TwoFloat := ⟨inf false, fin false 0⟩
    let o : TwoFloat := ⟨fin false (2 ^ 1074), fin false 0⟩
    addTT i o = addTT o i ∧ addTT i o = ⟨nan, nan⟩ := by decide +kernel

-- overflow of the sum is covered: MAX + MAX = (NaN, NaN) in both orders (trivially), MAX + (MAX/2, 0) likewise
example :
    let m : TwoFloat := ⟨fin false maxFin, fin false 0⟩
    let h : TwoFloat := ⟨fin false (2 ^ 2097), fin false 0⟩
    addTT m h = addTT h m ∧ CommOK m.hi h.hi ∧ CommOK m.lo h.lo := by decide +kernel

end Examples

end C10v
