/-
Property C07 — `no_overlap(a, b)` ⇔ `a` is finite and `a ⊕ b == a` (IEEE round-to-nearest-even),
for ALL pairs of doubles; with the corollaries for `TwoFloat::is_valid`, `TryFrom<(f64, f64)>`,
`TryFrom<[f64; 2]>` and the round trips through `From<TwoFloat>`.

Only the final statements live here; the proofs are in `TFV.Lemmas.Bits` and `TFV.Lemmas.NoOverlap`.
-/
import TFV.Lemmas.NoOverlap

namespace C07
open F64

/-- C07 (flagship).  For all well-formed doubles `a b` (all 2^128 bit patterns, NaNs identified). -/
theorem no_overlap_iff (a b : F64) (ha : a.WF) (hb : b.WF) :
    base.no_overlap a b = true ↔ (a.is_finite = true ∧ F64.addEq a b = true) :=
  F64.NoOverlap.no_overlap_iff a b ha hb

/-- the `i16` subtraction `biased_exponent - offset` never overflows: `no_overlap` is panic-free -/
theorem no_overlap_pf (a b : F64) (ha : a.WF) (hb : b.WF) : base.no_overlap.pf a b = true :=
  F64.NoOverlap.no_overlap_pf a b ha hb

/-- `TwoFloat::is_valid` decides Definition 1.4 (`hi`, `lo` finite and `hi = RN(hi + lo)`) -/
theorem is_valid_iff (t : TwoFloat) (ht : t.WF) : TwoFloat.is_valid t = true ↔ t.Valid :=
  F64.NoOverlap.is_valid_iff t ht

theorem is_valid_pf (t : TwoFloat) (ht : t.WF) : TwoFloat.is_valid.pf t = true :=
  F64.NoOverlap.is_valid_pf t ht

/-- `TwoFloat::try_from((a, b))` succeeds exactly when `a` is finite and `a ⊕ b == a`, and then returns the
same two words -/
theorem try_from_tuple_ok_iff (a b : F64) (ha : a.WF) (hb : b.WF) (t : TwoFloat) :
    convert.impl_TryFrom_tup_f64_f64_for_TwoFloat.try_from (a, b) = Except.ok t ↔
      ((a.is_finite = true ∧ F64.addEq a b = true) ∧ t = ⟨a, b⟩) :=
  F64.NoOverlap.try_from_tuple_ok_iff a b ha hb t

/-- … and fails with `ConversionError` otherwise -/
theorem try_from_tuple_err_iff (a b : F64) (ha : a.WF) (hb : b.WF) (e : TwoFloatError) :
    convert.impl_TryFrom_tup_f64_f64_for_TwoFloat.try_from (a, b) = Except.error e ↔
      (¬ (a.is_finite = true ∧ F64.addEq a b = true) ∧ e = TwoFloatError.ConversionError) :=
  F64.NoOverlap.try_from_tuple_err_iff a b ha hb e

theorem try_from_tuple_pf (a b : F64) (ha : a.WF) (hb : b.WF) :
    convert.impl_TryFrom_tup_f64_f64_for_TwoFloat.try_from.pf (a, b) = true :=
  F64.NoOverlap.no_overlap_pf a b ha hb

/-- `TwoFloat::try_from([a, b])` -/
theorem try_from_arr_ok_iff (a b : F64) (ha : a.WF) (hb : b.WF) (t : TwoFloat) :
    convert.impl_TryFrom_arr2_f64_for_TwoFloat.try_from ⟨a, b⟩ = Except.ok t ↔
      ((a.is_finite = true ∧ F64.addEq a b = true) ∧ t = ⟨a, b⟩) :=
  F64.NoOverlap.try_from_arr_ok_iff a b ha hb t

theorem try_from_arr_err_iff (a b : F64) (ha : a.WF) (hb : b.WF) (e : TwoFloatError) :
    convert.impl_TryFrom_arr2_f64_for_TwoFloat.try_from ⟨a, b⟩ = Except.error e ↔
      (¬ (a.is_finite = true ∧ F64.addEq a b = true) ∧ e = TwoFloatError.ConversionError) :=
  F64.NoOverlap.try_from_arr_err_iff a b ha hb e

theorem try_from_arr_pf (a b : F64) (ha : a.WF) (hb : b.WF) :
    convert.impl_TryFrom_arr2_f64_for_TwoFloat.try_from.pf ⟨a, b⟩ = true :=
  F64.NoOverlap.no_overlap_pf a b ha hb

/-- a successful conversion yields a valid `TwoFloat` (in particular the low word is finite) -/
theorem try_from_tuple_valid (a b : F64) (ha : a.WF) (hb : b.WF) (t : TwoFloat)
    (h : convert.impl_TryFrom_tup_f64_f64_for_TwoFloat.try_from (a, b) = Except.ok t) : t.Valid :=
  F64.NoOverlap.try_from_tuple_valid a b ha hb t h

theorem try_from_arr_valid (a b : F64) (ha : a.WF) (hb : b.WF) (t : TwoFloat)
    (h : convert.impl_TryFrom_arr2_f64_for_TwoFloat.try_from ⟨a, b⟩ = Except.ok t) : t.Valid :=
  F64.NoOverlap.try_from_arr_valid a b ha hb t h

/-- round trip `TwoFloat → (f64, f64) → TwoFloat` on valid values -/
theorem tuple_round_trip (t : TwoFloat) (ht : t.WF) (hv : t.Valid) :
    convert.impl_TryFrom_tup_f64_f64_for_TwoFloat.try_from
      (convert.impl_From_TwoFloat_for_tup_f64_f64.from t) = Except.ok t :=
  F64.NoOverlap.tuple_round_trip t ht hv

/-- round trip `TwoFloat → [f64; 2] → TwoFloat` on valid values -/
theorem arr_round_trip (t : TwoFloat) (ht : t.WF) (hv : t.Valid) :
    convert.impl_TryFrom_arr2_f64_for_TwoFloat.try_from
      (convert.impl_From_TwoFloat_for_arr2_f64.from t) = Except.ok t :=
  F64.NoOverlap.arr_round_trip t ht hv

/-- round trip `(f64, f64) → TwoFloat → (f64, f64)`: the same two words come back -/
theorem tuple_round_trip_back (a b : F64) (t : TwoFloat)
    (h : convert.impl_TryFrom_tup_f64_f64_for_TwoFloat.try_from (a, b) = Except.ok t) :
    convert.impl_From_TwoFloat_for_tup_f64_f64.from t = (a, b) :=
  F64.NoOverlap.tuple_round_trip_back a b t h

/-- round trip `[f64; 2] → TwoFloat → [f64; 2]` -/
theorem arr_round_trip_back (a b : F64) (t : TwoFloat)
    (h : convert.impl_TryFrom_arr2_f64_for_TwoFloat.try_from ⟨a, b⟩ = Except.ok t) :
    convert.impl_From_TwoFloat_for_arr2_f64.from t = ⟨a, b⟩ :=
  F64.NoOverlap.arr_round_trip_back a b t h

/-! concrete instances, evaluated by the kernel -/

/-- `1.0` and `2^-53` (exactly half an ulp of 1, tie, significand of 1.0 even): accepted -/
example : base.no_overlap (f64lit 0x3ff0000000000000) (f64lit 0x3ca0000000000000) = true := by
  decide +kernel

/-- `1.0` and `-2^-53`: below a power of two the cell is half as wide, rejected … -/
example : base.no_overlap (f64lit 0x3ff0000000000000) (f64lit 0xbca0000000000000) = false := by
  decide +kernel

/-- … while `-2^-54` is the tie there and is accepted -/
example : base.no_overlap (f64lit 0x3ff0000000000000) (f64lit 0xbc90000000000000) = true := by
  decide +kernel

/-- `1.0 + ulp` (odd significand) and `2^-53`: the tie rounds away, rejected -/
example : base.no_overlap (f64lit 0x3ff0000000000001) (f64lit 0x3ca0000000000000) = false := by
  decide +kernel

/-- `f64::MAX` and half an ulp of it: the sum overflows to infinity, rejected -/
example : base.no_overlap (f64lit 0x7fefffffffffffff) (f64lit 0x7c90000000000000) = false := by
  decide +kernel

/-- the specification side of the first instance -/
example : F64.addEq (f64lit 0x3ff0000000000000) (f64lit 0x3ca0000000000000) = true := by
  decide +kernel

end C07
