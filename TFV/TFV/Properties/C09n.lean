/-
Property C09, the `NumCast` route into `TwoFloat`:  `<TwoFloat as num_traits::NumCast>::from(n)`.

The function is generic (`T: ToPrimitive`) and is therefore hand-modelled (`Hand.numCastFrom`, tied to the source by a
hash of the item's text and by the per-run correspondence `numcast.<type>`).  Its only logic of its own is the switch at
`2^53` between "the `f64` image of `n` is already exact" and the 128-bit integer conversions; everything else forwards
to `From<f64>`, `From<i128>`, `From<u128>`, which are the translated functions of C09.

Proved here, for the primitive integer types (every value `z` of every type up to 128 bits) and for `f64` / `f32`:

* `switch_iff`        the guard `|z as f64| < 2^53` holds iff `|z| < 2^53` (so the shortcut is taken only when `z as f64`
                      is exact).  With `<=` — the pinned tree — this is false: `switch_le_counterexample` is the kernel
                      witness `z = 2^53 + 1` (fix c0f4f2a).
* `numcast_int_eq`    the result is `Some` of the small-integer image, of `From<i128>` or of `From<u128>`
* `numcast_int_small` `|z| < 2^53`: the result is the exact integer pair `ExactInt`
* `numcast_i128_exact`, `numcast_u128_exact`  at most 106 significant bits: exact, valid (`ExactBig`), bit-identical to
                      `TwoFloat::from(z)`;   `numcast_i128_approx`, `numcast_u128_approx`: valid and within `2^-106 |z|`
* `numcast_int_agrees_with_from_i128 / _u128`   in the wide branch the result IS `TwoFloat::from(z)`
* `numcast_int_pf`    no panic for any in-range integer
* `numcast_f64_small`, `numcast_f64_nan`, `numcast_f64_inf`  a double below 2^53 in magnitude, NaN and the infinities are
                      passed through as `(x, +0)`
-/
import TFV.Properties.C09
import TFV.Hand.NumCast

set_option exponentiation.threshold 4096

namespace C09n
open Conv F64 Hand

theorem threshold_eq : numCastThreshold = fin false (2 ^ 53 * F64.unit) := by decide +kernel

theorem threshold_finite : numCastThreshold.is_finite = true := by rw [threshold_eq]; rfl

theorem threshold_toInt : numCastThreshold.toInt = (2 ^ 53 : Nat) * U := by
  rw [threshold_eq, toInt_fin]; simp [U]

theorem U_pos : 0 < U := by unfold U; exact unit_posI

/-- `|RN(z)| = rn53 |z|` in units -/
theorem abs_ofInt_toInt (z : Int) (hz : z.natAbs ≤ 2 ^ 128) :
    (F64.abs (F64.ofInt z)).toInt = (rn53 z.natAbs : Int) * U := by
  rw [toInt_abs, ofInt_toInt z hz]
  have hU := U_pos
  rw [abs_mul, abs_of_pos hU, Int.abs_eq_natAbs, natAbs_rnI]

/-- the guard of the shortcut holds exactly for the integers whose `f64` image is exact -/
theorem switch_iff (z : Int) (hz : z.natAbs ≤ 2 ^ 128) :
    F64.lt (F64.abs (F64.ofInt z)) numCastThreshold = true ↔ z.natAbs < 2 ^ 53 := by
  have hf : (F64.abs (F64.ofInt z)).is_finite = true := by rw [is_finite_abs]; exact ofInt_finite z hz
  rw [lt_iff_toInt hf threshold_finite, abs_ofInt_toInt z hz, threshold_toInt]
  have hU := U_pos
  constructor
  · intro h
    have h1 : (rn53 z.natAbs : Int) < ((2 ^ 53 : Nat) : Int) := lt_of_mul_lt_mul_right h (le_of_lt hU)
    have h2 : rn53 z.natAbs < 2 ^ 53 := by exact_mod_cast h1
    by_contra hc
    have h3 : 2 ^ 53 ≤ rn53 z.natAbs := le_rn53_of_le (rep_two_pow 53) (Nat.le_of_not_lt hc)
    omega
  · intro h
    rw [rn53_of_lt h]
    exact mul_lt_mul_of_pos_right (by exact_mod_cast h) hU

/-- the guard of the pinned tree (`<=`) also admitted `2^53 + 1`, whose `f64` image is `2^53` -/
theorem switch_le_counterexample :
    F64.le (F64.abs (F64.ofInt (2 ^ 53 + 1))) numCastThreshold = true ∧
      convert.impl_From_f64_for_TwoFloat.from (F64.ofInt (2 ^ 53 + 1)) ≠
        convert.impl_From_i64_for_TwoFloat.from ⟨2 ^ 53 + 1⟩ := by decide +kernel

/-- `From<f64>` of an exactly converted small integer is the small-integer image -/
theorem from_f64_ofInt (z : Int) : convert.impl_From_f64_for_TwoFloat.from (F64.ofInt z) = fromSmall z := rfl

/-- what `NumCast::from` returns for an integer argument (any primitive integer type), branch by branch -/
theorem numcast_int_eq (z : Int) (hz : z.natAbs ≤ 2 ^ 128) :
    numCastFrom (ToPrim.ofInt z) =
      if z.natAbs < 2 ^ 53 then some (fromSmall z)
      else if IntN.fits true 128 z = true then some (convert.impl_From_i128_for_TwoFloat.from ⟨z⟩)
      else if IntN.fits false 128 z = true then some (convert.impl_From_u128_for_TwoFloat.from ⟨z⟩)
      else some (fromSmall z) := by
  unfold numCastFrom ToPrim.ofInt
  by_cases h : z.natAbs < 2 ^ 53
  · simp only [(switch_iff z hz).2 h, if_true, h, from_f64_ofInt]
  · have h' : F64.lt (F64.abs (F64.ofInt z)) numCastThreshold = false := by
      rw [← Bool.not_eq_true]; exact fun hc => h ((switch_iff z hz).1 hc)
    simp only [h', h, if_false, Bool.false_eq_true]
    cases h1 : IntN.fits true 128 z
    · cases h2 : IntN.fits false 128 z
      · simp [from_f64_ofInt]
      · simp
    · simp

/-- below `2^53` in magnitude (in particular every value of the types up to 32 bits): the exact integer pair -/
theorem numcast_int_small (z : Int) (h : z.natAbs < 2 ^ 53) :
    ∃ t, numCastFrom (ToPrim.ofInt z) = some t ∧ ExactInt t z := by
  refine ⟨fromSmall z, ?_, fromSmall_exact z h⟩
  rw [numcast_int_eq z (by omega), if_pos h]

/-- in the wide branch the result is `TwoFloat::from(z)` for an `i128`-representable `z` -/
theorem numcast_int_agrees_with_from_i128 (n : I128) (h : n.inRange = true) (hb : ¬ n.v.natAbs < 2 ^ 53) :
    numCastFrom (ToPrim.ofInt n.v) = some (convert.impl_From_i128_for_TwoFloat.from n) := by
  have hz : n.v.natAbs ≤ 2 ^ 128 := by
    have := IntN.natAbs_le_of_fits (s := true) (b := 128) h; simp [IntN.K] at this; omega
  have h' : IntN.fits true 128 n.v = true := h
  rw [numcast_int_eq n.v hz, if_neg hb, if_pos h']

/-- … and for a `u128` value beyond the `i128` range -/
theorem numcast_int_agrees_with_from_u128 (n : U128) (h : n.inRange = true) (hb : ¬ IntN.fits true 128 n.v = true) :
    numCastFrom (ToPrim.ofInt n.v) = some (convert.impl_From_u128_for_TwoFloat.from n) := by
  have hz : n.v.natAbs ≤ 2 ^ 128 := by
    have := IntN.natAbs_le_of_fits (s := false) (b := 128) h; simp [IntN.K] at this; omega
  have hbig : ¬ n.v.natAbs < 2 ^ 53 := by
    intro hc; apply hb
    unfold IntN.fits IntN.minV IntN.maxV
    simp only [if_true, Bool.and_eq_true, decide_eq_true_eq]
    constructor <;> omega
  have h' : IntN.fits false 128 n.v = true := h
  rw [numcast_int_eq n.v hz, if_neg hbig, if_neg hb, if_pos h']

/-- every `i128` (hence every narrower signed or unsigned type's) value with at most 106 significant bits converts
exactly and validly; at or above `2^53` the result is the pair `(RN(z), z - RN(z))` -/
theorem numcast_i128_exact (n : I128) (h : n.inRange = true) (h106 : SigBits106 n.v) :
    ∃ t, numCastFrom (ToPrim.ofInt n.v) = some t ∧ t.V = n.v * U ∧ t.Valid ∧ TwoFloat.is_valid t = true ∧ t.WF := by
  by_cases hb : n.v.natAbs < 2 ^ 53
  · obtain ⟨t, ht, he⟩ := numcast_int_small n.v hb
    exact ⟨t, ht, he.V, he.valid, he.is_valid, he.wf⟩
  · have he := C09.from_i128_exact n h h106
    exact ⟨_, numcast_int_agrees_with_from_i128 n h hb, he.V, he.valid, he.is_valid, he.wf⟩

/-- every `i128` value: valid and within `2^-106 |z|` -/
theorem numcast_i128_approx (n : I128) (h : n.inRange = true) :
    ∃ t, numCastFrom (ToPrim.ofInt n.v) = some t ∧ ApproxBig t n.v := by
  by_cases hb : n.v.natAbs < 2 ^ 53
  · obtain ⟨t, ht, he⟩ := numcast_int_small n.v hb
    exact ⟨t, ht, he.valid, he.is_valid, he.wf, n.v, he.V, by simp⟩
  · exact ⟨_, numcast_int_agrees_with_from_i128 n h hb, C09.from_i128_approx n h⟩

/-- `u128` values with at most 106 significant bits: exact and valid -/
theorem numcast_u128_exact (n : U128) (h : n.inRange = true) (h106 : SigBits106 n.v) :
    ∃ t, numCastFrom (ToPrim.ofInt n.v) = some t ∧ t.V = n.v * U ∧ t.Valid ∧ TwoFloat.is_valid t = true ∧ t.WF := by
  by_cases hi : IntN.fits true 128 n.v = true
  · exact numcast_i128_exact ⟨n.v⟩ hi h106
  · have he := C09.from_u128_exact n h h106
    exact ⟨_, numcast_int_agrees_with_from_u128 n h hi, he.V, he.valid, he.is_valid, he.wf⟩

/-- every `u128` value: valid and within `2^-106 |z|` -/
theorem numcast_u128_approx (n : U128) (h : n.inRange = true) :
    ∃ t, numCastFrom (ToPrim.ofInt n.v) = some t ∧ ApproxBig t n.v := by
  by_cases hi : IntN.fits true 128 n.v = true
  · exact numcast_i128_approx ⟨n.v⟩ hi
  · exact ⟨_, numcast_int_agrees_with_from_u128 n h hi, C09.from_u128_approx n h⟩

/-- the integers that the pinned tree got wrong are now exact: `NumCast::from(±(2^53+1)) = (±2^53, ±1)` -/
example : numCastFrom (ToPrim.ofInt (2 ^ 53 + 1)) = some ⟨F64.ofInt (2 ^ 53), F64.ofInt 1⟩ ∧
    numCastFrom (ToPrim.ofInt (-(2 ^ 53 + 1))) = some ⟨F64.ofInt (-(2 ^ 53)), F64.ofInt (-1)⟩ := by decide +kernel

/-- no intermediate integer operation overflows, for any in-range integer argument -/
theorem numcast_int_pf (z : Int) : numCastFrom.pf (ToPrim.ofInt z) = true := by
  unfold numCastFrom.pf ToPrim.ofInt
  simp only
  cases h0 : F64.lt (F64.abs (F64.ofInt z)) numCastThreshold
  · cases h1 : IntN.fits true 128 z
    · cases h2 : IntN.fits false 128 z
      · simp
      · simpa using C09.from_u128_pf ⟨z⟩ h2
    · simpa using C09.from_i128_pf ⟨z⟩ h1
  · simp

/-! ### float arguments -/

/-- a double below `2^53` in magnitude is passed through as `(x, +0)` -/
theorem numcast_f64_small (x : F64) (h : F64.lt (F64.abs x) numCastThreshold = true) :
    numCastFrom (ToPrim.ofF64 x) = some ⟨x, fin false 0⟩ := by
  unfold numCastFrom ToPrim.ofF64
  simp only [h, if_true, C09.from_f64]

/-- NaN is passed through (all three integer routes decline) -/
theorem numcast_f64_nan : numCastFrom (ToPrim.ofF64 .nan) = some ⟨.nan, fin false 0⟩ := by decide +kernel

/-- the infinities are passed through -/
theorem numcast_f64_inf (s : Bool) : numCastFrom (ToPrim.ofF64 (.inf s)) = some ⟨.inf s, fin false 0⟩ := by
  cases s <;> decide +kernel

/-! ### the `FromPrimitive` float routes (added by fix cc2a072: the provided defaults of num_traits truncated the value to an
integer through `to_i64` / `to_u64`) -/

/-- `<TwoFloat as FromPrimitive>::from_f64(x)` is `Some(TwoFloat::from(x))` = `(x, +0)` -/
theorem from_primitive_f64 (x : F64) :
    num_integration.impl_FromPrimitive_for_TwoFloat.from_f64 x = some ⟨x, fin false 0⟩ := by
  unfold num_integration.impl_FromPrimitive_for_TwoFloat.from_f64; rw [C09.from_f64]

/-- `<TwoFloat as FromPrimitive>::from_f32(x)` is `Some(TwoFloat::from(x))` = `(x as f64, +0)` -/
theorem from_primitive_f32 (x : F32) :
    num_integration.impl_FromPrimitive_for_TwoFloat.from_f32 x = some ⟨x.v, fin false 0⟩ := by
  unfold num_integration.impl_FromPrimitive_for_TwoFloat.from_f32; rw [C09.from_f32]

/-- … hence exact and valid for every finite argument -/
theorem from_primitive_f64_exact (x : F64) (hf : x.is_finite = true) (hw : x.WF) :
    ∃ t, num_integration.impl_FromPrimitive_for_TwoFloat.from_f64 x = some t ∧ t.V = x.toInt ∧ t.Valid := by
  refine ⟨_, rfl, ?_⟩
  have h := C09.from_f64_exact x hf hw
  exact ⟨h.1, h.2.1⟩

end C09n
