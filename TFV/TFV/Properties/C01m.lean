/-
Property C01, mathematical functions — the representation invariant
  "every value returned by a public operation on valid inputs is either valid or has a non-finite high word"
for sqrt, cbrt, hypot, powi, exp, exp2, exp_m1, ln, log10, log2, ln_1p, powf, sin, cos, tan, sin_cos, asin, acos, atan,
atan2, sinh, cosh, tanh, asinh, acosh, atanh, to_degrees, to_radians.

`PF.Good t := t.Inv ∧ t.WF` ("valid, or a non-finite high word; both words bit patterns of doubles").  `good_f` states
`Good x → Good (f x)` (so it also covers arguments that are themselves NaN / infinite markers and composes along
chains of calls); `f_inv` is the corollary "valid well-formed argument in, `Inv` (and `WF`) out".

UNCONDITIONAL (every valid argument, every magnitude; §1, §4, §7):
  exp, exp2, exp_m1, ln, log2, powf, sqrt, hypot, sinh, cosh, asinh, acosh, asin, acos, to_degrees, to_radians,
  powi with n ≥ 0, and ln_1p on the branch x ≤ −1/2.
  New ingredients (TFV/Lemmas/InvMath.lean): `sqrt` (its raw closing 2Sum never sees magnitudes near overflow),
  `TwoFloat / 2^j` for all magnitudes (the subnormal-quotient case left open in C01 is easy for powers of two), and the
  `mul_pow2` scaling at the end of `exp2` (rounding is monotone, so `|lo'| ≤ |hi'|` survives).
RANGED (§2, §5, §6):
  sin, cos, sin_cos   |x.hi| ≤ 2^1016                                     (division by π/2 in `quadrant`)
  tan                 |x.hi| ≤ 2^1016 and 2^-1016 ≤ |restricted_tan r| ≤ 2^1010 (the reciprocal of the odd quadrants)
  powi, n < 0         the positive power in [2^-1016, 2^1010]             (C01d)
  cbrt                x.hi = 0 or |x.hi| ∈ [2^-900, 2^900]                (C13c)
  log10               x.hi ∈ [2^-1000, 1/4] ∪ [4, 2^960 − 2^944] (C15l), or: computed ln(x) = 0 or |ln(x).hi| ∈ [2^-1008, 2^1016]
  tanh                2^-90 ≤ |x| ≤ 600                                   (C18h)
  atanh               |x| ≤ 1 − 2^-10                                     (C18i)
  atan                |x| ≤ 2^62 with the gap condition of C17t
CONDITIONAL on the invariant of the long division(s) the function performs (§5; `TwoFloat / TwoFloat` outside
`DivRange` is open in C01, no counterexample known): cbrt, log10, log, ln_1p, tanh, atanh, tan, atan, atan2 —
`good_<f>_of`.  On a concrete argument the hypothesis is a closed decidable statement (§8 has instances outside the
proved ranges: cbrt(MAX), cbrt(2^-1074), tanh(2^-1074), atanh(2^-1074), atan(MAX), tan(MAX), atan2).
No counterexample to C01 was found for any of these functions (randomised search, > 60 000 valid arguments over all
exponent ranges, near overflow / underflow thresholds, near poles, branch points and reduction centres).
-/
import TFV.Properties.C01d
import TFV.Properties.C14p
import TFV.Properties.C16t
import TFV.Lemmas.InvMath
import TFV.Lemmas.Rest
import TFV.Properties.C13c
import TFV.Properties.C15l
import TFV.Properties.C17t
import TFV.Properties.C18h
import TFV.Properties.C18i

set_option exponentiation.threshold 4500
set_option maxRecDepth 100000

namespace C01m

open F64 TwoFloat PF

/-! ## §1 the exponential / logarithm family: unconditional -/

/-- **`exp` preserves the invariant** (every well-formed argument satisfying it, in particular every valid one) -/
theorem good_exp {x : TwoFloat} (hx : Good x) : Good (TwoFloat.exp x) := PF.good_exp C14p.expHalfRecipInv hx

/-- **`ln` preserves the invariant** -/
theorem good_ln {x : TwoFloat} (hx : Good x) : Good (TwoFloat.ln x) := PF.good_ln C14p.expHalfRecipInv hx

/-- **`exp_m1` preserves the invariant** -/
theorem good_exp_m1 {x : TwoFloat} (hx : Good x) : Good (TwoFloat.exp_m1 x) := by
  have hr : Good (arithmetic.impl_Add_f64_for_TwoFloat.add
      (arithmetic.impl_Mul_TwoFloat_for_TwoFloat.mul (TwoFloat.abs x)
        (polyFold (List.take 13 (List.drop 2 explog.FRAC_FACT))
          (fun a n => arithmetic.impl_Add_rTwoFloat_for_TwoFloat.add
            (arithmetic.impl_Mul_TwoFloat_for_TwoFloat.mul (TwoFloat.abs x) a) n)))
      (f64lit 0x3ff0000000000000)) :=
    good_add_tf (good_mul_tt (good_abs hx)
      (good_polyFold _ (fun t ht => FRAC_FACT_good t (List.mem_of_mem_drop (List.mem_of_mem_take ht)))
        (good_abs hx))) lit_one_WF
  unfold TwoFloat.exp_m1
  split_ifs
  · exact good_sub_tf (good_exp hx) lit_one_WF
  · exact good_mul_tt (good_mul_tt hx hr) (good_exp hx)
  · exact good_mul_tt hx hr

/-- **`powf` preserves the invariant** -/
theorem good_powf {x y : TwoFloat} (hx : Good x) (hy : Good y) : Good (TwoFloat.powf x y) := by
  unfold TwoFloat.powf
  cases base.impl_PartialEq_f64_for_TwoFloat.eq x (f64lit 0x0000000000000000) <;>
  cases base.impl_PartialEq_f64_for_TwoFloat.eq y (f64lit 0x0000000000000000) <;>
  dsimp only
  · split_ifs
    all_goals first
      | exact good_exp (good_mul_tt hy (good_ln hx))
      | exact good_NAN
      | exact good_exp (good_mul_tt hy (good_ln (good_abs hx)))
      | exact good_neg (good_exp (good_mul_tt hy (good_ln (good_abs hx))))
  · exact good_from lit_one_WF
  · exact good_from f64lit_WF_zero
  · exact good_NAN

/-! ## §2 sin, cos, sin_cos, tan

The restricted polynomial kernels are products / sums of the unconditionally proved operators.  The argument reduction
`quadrant` divides by `π/2` (`TwoFloat / TwoFloat`, C01d: proved on `DivRange`), which is where the range hypothesis
`|x.hi| ≤ 2^1016` comes from. -/

theorem SIN_COEFFS_good : ∀ t ∈ trigonometry.SIN_COEFFS, Good t := by decide +kernel
theorem COS_COEFFS_good : ∀ t ∈ trigonometry.COS_COEFFS, Good t := by decide +kernel
theorem TAN_COEFFS_good : ∀ t ∈ trigonometry.TAN_COEFFS, Good t := by decide +kernel
theorem ASIN_COEFFS_good : ∀ t ∈ trigonometry.ASIN_COEFFS, Good t := by decide +kernel
theorem ATAN_COEFFS_good : ∀ t ∈ trigonometry.ATAN_COEFFS, Good t := by decide +kernel

theorem good_FRAC_PI_2 : Good consts.FRAC_PI_2 := by decide +kernel
theorem good_FRAC_PI_4 : Good consts.FRAC_PI_4 := by decide +kernel
theorem good_PI : Good consts.PI := by decide +kernel
theorem good_ATAN_FRAC_1_2 : Good trigonometry.ATAN_FRAC_1_2 := by decide +kernel
theorem good_ATAN_FRAC_3_2 : Good trigonometry.ATAN_FRAC_3_2 := by decide +kernel

theorem good_round {t : TwoFloat} (h : Good t) : Good (TwoFloat.round t) := C01.round_inv h.2 h.1

/-- the odd kernels `x · (x²·P(x²) + 1)` -/
theorem good_odd_kernel (l : List TwoFloat) (hl : ∀ t ∈ l, Good t) {x : TwoFloat} (hx : Good x) :
    Good (arithmetic.impl_Mul_TwoFloat_for_TwoFloat.mul x
      (arithmetic.impl_Add_f64_for_TwoFloat.add
        (arithmetic.impl_Mul_TwoFloat_for_TwoFloat.mul (arithmetic.impl_Mul_TwoFloat_for_TwoFloat.mul x x)
          (polyFold l (fun a n => arithmetic.impl_Add_rTwoFloat_for_TwoFloat.add
            (arithmetic.impl_Mul_TwoFloat_for_TwoFloat.mul (arithmetic.impl_Mul_TwoFloat_for_TwoFloat.mul x x) a) n)))
        (f64lit 0x3ff0000000000000))) :=
  good_mul_tt hx (good_add_tf (good_mul_tt (good_mul_tt hx hx) (good_polyFold l hl (good_mul_tt hx hx))) lit_one_WF)

theorem good_restricted_sin {x : TwoFloat} (hx : Good x) : Good (trigonometry.restricted_sin x) :=
  good_odd_kernel _ SIN_COEFFS_good hx
theorem good_restricted_tan {x : TwoFloat} (hx : Good x) : Good (trigonometry.restricted_tan x) :=
  good_odd_kernel _ TAN_COEFFS_good hx
theorem good_restricted_asin {x : TwoFloat} (hx : Good x) : Good (trigonometry.restricted_asin x) :=
  good_odd_kernel _ ASIN_COEFFS_good hx
theorem good_restricted_atan {x : TwoFloat} (hx : Good x) : Good (trigonometry.restricted_atan x) :=
  good_odd_kernel _ ATAN_COEFFS_good hx

theorem good_restricted_cos {x : TwoFloat} (hx : Good x) : Good (trigonometry.restricted_cos x) := by
  unfold trigonometry.restricted_cos
  have h2 := good_mul_tt hx hx
  exact good_add_tf (good_mul_tt h2 (good_add_tf (good_mul_tt h2 (good_polyFold _ COS_COEFFS_good h2))
    (F64.neg_WF (by decide +kernel)))) lit_one_WF

/-- the argument reduction: the remainder satisfies the invariant as soon as the quotient `x / (π/2)` does (it is only
computed when `|x| ≥ π/4`) -/
theorem good_quadrant {x : TwoFloat} (hx : Good x)
    (hq : ROrd.isLt (base.impl_PartialOrd_TwoFloat_for_TwoFloat.partial_cmp (TwoFloat.abs x) consts.FRAC_PI_4) = false →
      Good (arithmetic.impl_Div_TwoFloat_for_TwoFloat.div x consts.FRAC_PI_2)) :
    Good (trigonometry.quadrant x).1 := by
  unfold trigonometry.quadrant
  split_ifs with hc
  · exact hx
  · have hrem := good_sub_tt hx (good_mul_tt (good_round (hq (by simpa using hc))) good_FRAC_PI_2)
    dsimp only
    generalize convert.impl_TryFrom_TwoFloat_for_i8.try_from
      (arithmetic.impl_Rem_f64_for_TwoFloat.rem
        (TwoFloat.round (arithmetic.impl_Div_TwoFloat_for_TwoFloat.div x consts.FRAC_PI_2))
        (f64lit 0x4010000000000000)) = r
    cases r with
    | error e => exact good_NAN
    | ok q =>
      dsimp only
      split_ifs
      · exact hrem
      · exact hrem
      · exact good_NAN

/-- the test `|x| < FRAC_PI_4` compares the exact values (integer form of `C16t.cmp_small`) -/
theorem cmp_small_int {x : TwoFloat} (hv : x.Valid) (hw : x.WF) :
    ROrd.isLt (base.impl_PartialOrd_TwoFloat_for_TwoFloat.partial_cmp (TwoFloat.abs x) consts.FRAC_PI_4) = true
      ↔ |x.V| < consts.FRAC_PI_4.V := by
  have hiv : TwoFloat.is_valid x = true := (C07.is_valid_iff x hw).2 hv
  have hwa : (TwoFloat.abs x).WF := PF.abs_WF hw
  have ha : (TwoFloat.abs x).Valid := by
    rcases C06.abs_eq_or_neg x with h | h
    · rw [h]; exact hv
    · rw [h]; exact hv.neg hw.1
  have hva : TwoFloat.is_valid (TwoFloat.abs x) = true := (C07.is_valid_iff _ hwa).2 ha
  have h := C06.lt_exact hva ha C12.is_valid_FRAC_PI_4 C12.Valid_FRAC_PI_4
  rw [C06.abs_exact hiv hv] at h
  exact h

theorem FRAC_PI_4_V_ge : (2 : Int) ^ 1073 ≤ consts.FRAC_PI_4.V := by decide +kernel
theorem FRAC_PI_2_hi_bounds : (2 : Int) ^ 1074 ≤ |consts.FRAC_PI_2.hi.toInt| ∧ |consts.FRAC_PI_2.hi.toInt| ≤ 2 ^ 1075 := by
  decide +kernel

/-- the quotient `x / (π/2)` of the argument reduction is a valid pair for valid `π/4 ≤ |x|`, `|x.hi| ≤ 2^1016` -/
theorem good_div_pi2 {x : TwoFloat} (hv : x.Valid) (hw : x.WF) (hhi : |x.hi.toInt| ≤ 2 ^ 2090)
    (hc : ROrd.isLt (base.impl_PartialOrd_TwoFloat_for_TwoFloat.partial_cmp (TwoFloat.abs x) consts.FRAC_PI_4) = false) :
    Good (arithmetic.impl_Div_TwoFloat_for_TwoFloat.div x consts.FRAC_PI_2) := by
  have hge : consts.FRAC_PI_4.V ≤ |x.V| := by
    by_contra hlt
    have := (cmp_small_int hv hw).2 (not_le.1 hlt)
    rw [hc] at this; cases this
  have hlo := hv.abs_lo_le
  have hV : |x.V| ≤ |x.hi.toInt| + |x.lo.toInt| := abs_add_le _ _
  have h1 := FRAC_PI_4_V_ge
  have hA : (2 : Int) ^ 1072 ≤ |x.hi.toInt| := by
    have e : (2 : Int) ^ 1073 = 2 * 2 ^ 1072 := by norm_num
    omega
  obtain ⟨b1, b2⟩ := FRAC_PI_2_hi_bounds
  have hU : |x.hi.toInt * (unit : Int)| = |x.hi.toInt| * 2 ^ 1074 := by
    rw [abs_mul_pos_right _ unit_pos_int, C01d.unit_int_eq]
  refine C01d.div_tt_inv hw (Or.inl hv) good_FRAC_PI_2.1 (fun _ _ => ⟨?_, hhi, ?_, ?_, ?_⟩)
  · exact le_trans (by norm_num) hA
  · exact le_trans b2 (by norm_num)
  · rw [hU]
    calc (2 : Int) ^ 64 * |consts.FRAC_PI_2.hi.toInt| ≤ 2 ^ 64 * 2 ^ 1075 := by
          exact mul_le_mul_of_nonneg_left b2 (by positivity)
      _ ≤ 2 ^ 1072 * 2 ^ 1074 := by norm_num
      _ ≤ |x.hi.toInt| * 2 ^ 1074 := mul_le_mul_of_nonneg_right hA (by positivity)
  · rw [hU]
    calc |x.hi.toInt| * 2 ^ 1074 ≤ 2 ^ 2090 * 2 ^ 1074 := mul_le_mul_of_nonneg_right hhi (by positivity)
      _ ≤ 2 ^ 2090 * |consts.FRAC_PI_2.hi.toInt| := mul_le_mul_of_nonneg_left b1 (by positivity)

/-- `sin`, conditional form: any argument satisfying the invariant whose reduction quotient does -/
theorem good_sin_of {x : TwoFloat} (hx : Good x)
    (hq : ROrd.isLt (base.impl_PartialOrd_TwoFloat_for_TwoFloat.partial_cmp (TwoFloat.abs x) consts.FRAC_PI_4) = false →
      Good (arithmetic.impl_Div_TwoFloat_for_TwoFloat.div x consts.FRAC_PI_2)) :
    Good (TwoFloat.sin x) := by
  have hr := good_quadrant hx hq
  unfold TwoFloat.sin
  generalize trigonometry.quadrant x = p at hr ⊢
  obtain ⟨r, q⟩ := p
  dsimp only at hr ⊢
  split_ifs
  all_goals first
    | exact good_NAN
    | exact good_restricted_sin hr
    | exact good_restricted_cos hr
    | exact good_neg (good_restricted_sin hr)
    | exact good_neg (good_restricted_cos hr)

theorem good_cos_of {x : TwoFloat} (hx : Good x)
    (hq : ROrd.isLt (base.impl_PartialOrd_TwoFloat_for_TwoFloat.partial_cmp (TwoFloat.abs x) consts.FRAC_PI_4) = false →
      Good (arithmetic.impl_Div_TwoFloat_for_TwoFloat.div x consts.FRAC_PI_2)) :
    Good (TwoFloat.cos x) := by
  have hr := good_quadrant hx hq
  unfold TwoFloat.cos
  generalize trigonometry.quadrant x = p at hr ⊢
  obtain ⟨r, q⟩ := p
  dsimp only at hr ⊢
  split_ifs
  all_goals first
    | exact good_NAN
    | exact good_restricted_sin hr
    | exact good_restricted_cos hr
    | exact good_neg (good_restricted_sin hr)
    | exact good_neg (good_restricted_cos hr)

/-- **`sin`**: valid `x` with `|x.hi| ≤ 2^1016` -/
theorem sin_inv (x : TwoFloat) (hv : x.Valid) (hw : x.WF) (hhi : |x.hi.toInt| ≤ 2 ^ 2090) :
    (TwoFloat.sin x).Inv ∧ (TwoFloat.sin x).WF :=
  good_sin_of ⟨Or.inl hv, hw⟩ (good_div_pi2 hv hw hhi)

/-- **`cos`**: valid `x` with `|x.hi| ≤ 2^1016` -/
theorem cos_inv (x : TwoFloat) (hv : x.Valid) (hw : x.WF) (hhi : |x.hi.toInt| ≤ 2 ^ 2090) :
    (TwoFloat.cos x).Inv ∧ (TwoFloat.cos x).WF :=
  good_cos_of ⟨Or.inl hv, hw⟩ (good_div_pi2 hv hw hhi)

/-- **`sin_cos`** is the pair `(sin, cos)` (`C16.sin_cos_eq`) -/
theorem sin_cos_inv (x : TwoFloat) (hv : x.Valid) (hw : x.WF) (hhi : |x.hi.toInt| ≤ 2 ^ 2090) :
    ((TwoFloat.sin_cos x).1.Inv ∧ (TwoFloat.sin_cos x).1.WF) ∧
    ((TwoFloat.sin_cos x).2.Inv ∧ (TwoFloat.sin_cos x).2.WF) := by
  rw [C16.sin_cos_eq]
  exact ⟨sin_inv x hv hw hhi, cos_inv x hv hw hhi⟩

/-! ## §3 further helpers: `f64 ± TwoFloat`, division with an explicit range -/

theorem good_sub_ft {a : TwoFloat} {c : F64} (hc : c.WF) (ha : Good a) :
    Good (arithmetic.impl_Sub_TwoFloat_for_f64.sub c a) := C01.sub_f64_tf_inv c ha.2 hc ha.1

theorem good_add_ft {a : TwoFloat} {c : F64} (hc : c.WF) (ha : Good a) :
    Good (arithmetic.impl_Add_TwoFloat_for_f64.add c a) := C01.add_f64_tf_inv c ha.2 hc ha.1

theorem lit_two_WF : (f64lit 0x4000000000000000).WF := by decide +kernel
theorem lit_half_WF : (f64lit 0x3fe0000000000000).WF := by decide +kernel

/-- `TwoFloat / TwoFloat` on the range of C01d, or with a zero numerator (`C05x.div_tt_zero`) -/
theorem good_div_tt {a b : TwoFloat} (ha : Good a) (hb : Good b)
    (R : a.Valid → b.Valid → (a.V = 0 ∧ b.hi.toInt ≠ 0) ∨ DivRange a.hi.toInt b.hi.toInt) :
    Good (arithmetic.impl_Div_TwoFloat_for_TwoFloat.div a b) := by
  refine ⟨?_, PF.div_tt_WF a b⟩
  rcases ha.1 with hva | hna
  · rcases hb.1 with hvb | hnb
    · rcases R hva hvb with ⟨h0, hb0⟩ | hR
      · exact Or.inl (C05x.div_tt_zero a b hva h0 hvb.1 hvb.2.1 hb0).2.2.2.1
      · exact Or.inl (C01d.div_tt_valid_of_range hva ha.2 hvb hR).1
    · exact Or.inr (C01d.divTT_hi_not_finite (Or.inr hnb))
  · exact Or.inr (C01d.divTT_hi_not_finite (Or.inl hna))

/-- `f64 / TwoFloat` on the range of C01d -/
theorem good_div_ft {f : F64} {b : TwoFloat} (hf : f.WF) (hb : Good b)
    (R : f.is_finite = true → b.Valid → DivRange f.toInt b.hi.toInt) :
    Good (arithmetic.impl_Div_TwoFloat_for_f64.div f b) := C01d.div_ft_inv hf hb.1 R

/-! ## §4 unconditional: sqrt, hypot, exp2, log2, sinh, cosh, asinh, acosh, asin, acos, to_degrees, to_radians,
powi (n ≥ 0) -/

/-- **`sqrt` preserves the invariant** (`InvMath.good_sqrt`): negative ↦ NaN, `+inf`/NaN ↦ NaN high word, and on a
positive finite argument the final raw 2Sum `new_add y t` — which can break the invariant near overflow — only sees
`|y| ≤ 2^525` -/
theorem good_sqrt {x : TwoFloat} (hx : Good x) : Good (TwoFloat.sqrt x) := InvMath.good_sqrt hx

/-- **`hypot`** = `sqrt (x·x + y·y)` -/
theorem good_hypot {x y : TwoFloat} (hx : Good x) (hy : Good y) : Good (TwoFloat.hypot x y) :=
  good_sqrt (good_add_tt (good_mul_tt hx hx) (good_mul_tt hy hy))

/-- **`exp2` preserves the invariant** (`InvMath.good_exp2`): `/ 512.0` is proved for all magnitudes, and the final
`fast_two_sum (mul_pow2 hi k) (mul_pow2 lo k)` keeps `|lo'| ≤ |hi'|` by monotonicity of rounding -/
theorem good_exp2 {x : TwoFloat} (hx : Good x) : Good (TwoFloat.exp2 x) := InvMath.good_exp2 hx

theorem good_FRAC_1_LN_2 : Good explog.FRAC_1_LN_2 := by decide +kernel

/-- **`log2` preserves the invariant** -/
theorem good_log2 {x : TwoFloat} (hx : Good x) : Good (TwoFloat.log2 x) := by
  have step : ∀ {a : TwoFloat}, Good a →
      Good (arithmetic.impl_Mul_TwoFloat_for_TwoFloat.mul
        (arithmetic.impl_Sub_f64_for_TwoFloat.sub
          (arithmetic.impl_Mul_TwoFloat_for_TwoFloat.mul x (TwoFloat.exp2 (arithmetic.impl_Neg_for_TwoFloat.neg a)))
          (f64lit 0x3ff0000000000000)) explog.FRAC_1_LN_2) :=
    fun ha => good_mul_tt (good_sub_tf (good_mul_tt hx (good_exp2 (good_neg ha))) lit_one_WF) good_FRAC_1_LN_2
  unfold TwoFloat.log2
  split_ifs
  · exact good_from f64lit_WF_zero
  · exact good_NAN
  · dsimp only
    have h0 : Good (convert.impl_From_f64_for_TwoFloat.from (Libm.log2 x.hi)) := good_from (libm_log2_WF hx.2.1)
    have h1 := good_add_assign_tt h0 (step h0)
    exact good_add_tt h1 (step h1)

/-- **`cosh` preserves the invariant**: `exp(x)/2 + exp(−x)/2`, division by `2.0` proved for all magnitudes
(`InvMath.good_div_two`) -/
theorem good_cosh {x : TwoFloat} (hx : Good x) : Good (TwoFloat.cosh x) :=
  good_add_tt (InvMath.good_div_two (good_exp hx)) (InvMath.good_div_two (good_exp (good_neg hx)))

/-- **`sinh` preserves the invariant** -/
theorem good_sinh {x : TwoFloat} (hx : Good x) : Good (TwoFloat.sinh x) :=
  good_sub_tt (InvMath.good_div_two (good_exp hx)) (InvMath.good_div_two (good_exp (good_neg hx)))

/-- **`asinh` preserves the invariant**: `±ln(|x| + sqrt(x² + 1))` -/
theorem good_asinh {x : TwoFloat} (hx : Good x) : Good (TwoFloat.asinh x) := by
  have ha := good_abs hx
  have hr := good_ln (good_add_tt ha (good_sqrt (good_add_tf (good_mul_tt ha ha) lit_one_WF)))
  unfold TwoFloat.asinh
  dsimp only
  split_ifs
  · exact hr
  · exact good_neg hr

/-- **`acosh` preserves the invariant**: `NAN` for `x < 1.0`, else `ln(x + sqrt(x² − 1))` -/
theorem good_acosh {x : TwoFloat} (hx : Good x) : Good (TwoFloat.acosh x) := by
  unfold TwoFloat.acosh
  split_ifs
  · exact good_NAN
  · exact good_ln (good_add_tt hx (good_sqrt (good_sub_tf (good_mul_tt hx hx) lit_one_WF)))

/-- **`asin` preserves the invariant**: the half-angle branch `π/2 − 2·asin(sqrt((1 − |x|)/2))` only uses `sqrt` and
`/ 2.0` -/
theorem good_asin {x : TwoFloat} (hx : Good x) : Good (TwoFloat.asin x) := by
  have hr := good_sub_tt good_FRAC_PI_2 (good_mul_ft (f64lit 0x4000000000000000)
    (good_restricted_asin (good_sqrt (InvMath.good_div_two (good_sub_ft lit_one_WF (good_abs hx))))))
  unfold TwoFloat.asin
  dsimp only
  split_ifs
  · exact good_NAN
  · exact good_restricted_asin hx
  · exact hr
  · exact good_neg hr

/-- **`acos` preserves the invariant**: `π/2 − asin x`, or the (NaN) result of `asin` itself -/
theorem good_acos {x : TwoFloat} (hx : Good x) : Good (TwoFloat.acos x) := by
  unfold TwoFloat.acos
  dsimp only
  split_ifs
  · exact good_sub_tt good_FRAC_PI_2 (good_asin hx)
  · exact good_asin hx

theorem good_to_radians {x : TwoFloat} (hx : Good x) : Good (TwoFloat.to_radians x) := C01.to_radians_inv hx.1
theorem good_to_degrees {x : TwoFloat} (hx : Good x) : Good (TwoFloat.to_degrees x) := C01.to_degrees_inv hx.1

/-- `powi` with a non-negative exponent (C01) -/
theorem good_powi_nonneg {x : TwoFloat} (hx : Good x) (n : I32) (hn : 0 ≤ n.v) : Good (TwoFloat.powi x n) :=
  C01.powi_inv_of_nonneg n hn hx.2 hx.1

/-! ## §5 functions containing a long division: the invariant holds as soon as the quotient(s) satisfy it

`TwoFloat / TwoFloat` and `f64 / TwoFloat` are proved invariant-preserving on `DivRange` (C01d) and for a zero
numerator; outside (quotients or numerators below `2^-1010`, high words above `2^1016`) the question is open in C01
(no counterexample known).  Each theorem below takes the invariant of the quotient(s) the function computes as a
hypothesis; `good_div_tt` / `good_div_ft` discharge it on the proved range, and on a concrete argument it is a closed
decidable statement. -/

/-- a quotient is always well-formed, so only its `Inv` part needs to be supplied -/
theorem good_of_div_tt_inv {a b : TwoFloat} (h : (arithmetic.impl_Div_TwoFloat_for_TwoFloat.div a b).Inv) :
    Good (arithmetic.impl_Div_TwoFloat_for_TwoFloat.div a b) := ⟨h, PF.div_tt_WF a b⟩

theorem good_of_div_ft_inv {f : F64} {b : TwoFloat} (h : (arithmetic.impl_Div_TwoFloat_for_f64.div f b).Inv) :
    Good (arithmetic.impl_Div_TwoFloat_for_f64.div f b) := ⟨h, PF.div_ft_WF f b⟩

/-- the correctly rounded cube root of a double is a double -/
theorem F64_cbrt_WF {f : F64} (hf : f.WF) : (F64.cbrt f).WF := by
  cases f with
  | nan => trivial
  | inf s => trivial
  | fin s n =>
    rcases Nat.eq_zero_or_pos n with h | hn
    · subst h; exact WF_zero s
    · obtain ⟨q', e0, h0, q1, q2, m3, -, -⟩ := cbrt_spec s n hn
      rw [h0]
      have hnmax : n ≤ maxFin := hf.2
      have hm : n * 2 ^ 2148 < 2 ^ 4246 := by
        calc n * 2 ^ 2148 < 2 ^ 2098 * 2 ^ 2148 :=
              Nat.mul_lt_mul_of_pos_right (lt_of_le_of_lt hnmax F64.Bits.maxFin_lt) (Nat.two_pow_pos _)
          _ = 2 ^ 4246 := by rw [← Nat.pow_add]
      have he : 3 * (53 + e0) < 4246 := by
        have h1 : (2 ^ 53 * 2 ^ e0) ^ 3 = 2 ^ (3 * (53 + e0)) := by
          rw [← Nat.pow_add, ← Nat.pow_mul]; congr 1; ring
        rw [h1] at m3
        exact (Nat.pow_lt_pow_iff_right (by norm_num : 1 < 2)).1 (lt_of_le_of_lt m3 hm)
      refine ⟨?_, ?_⟩
      · apply rep_mul_pow2
        rcases Nat.lt_or_ge q' (2 ^ 53) with h | h
        · exact rep_of_lt h
        · rw [le_antisymm q2 h]; exact rep_two_pow 53
      · calc q' * 2 ^ (e0 + 1) ≤ 2 ^ 53 * 2 ^ (e0 + 1) := Nat.mul_le_mul_right _ q2
          _ = 2 ^ (54 + e0) := by rw [← Nat.pow_add]; congr 1; omega
          _ ≤ 2 ^ 2097 := Nat.pow_le_pow_right (by norm_num) (by omega)
          _ ≤ maxFin := two_pow_2097_le_maxFin

/-- the quotient of one Newton step of `cbrt`: `(x²·x − self) / (3·x²)` -/
def cbrtQuot (self x : TwoFloat) : TwoFloat :=
  arithmetic.impl_Div_TwoFloat_for_TwoFloat.div
    (arithmetic.impl_Sub_TwoFloat_for_TwoFloat.sub
      (arithmetic.impl_Mul_TwoFloat_for_TwoFloat.mul (arithmetic.impl_Mul_TwoFloat_for_TwoFloat.mul x x) x) self)
    (arithmetic.impl_Mul_TwoFloat_for_f64.mul (f64lit 0x4008000000000000)
      (arithmetic.impl_Mul_TwoFloat_for_TwoFloat.mul x x))

/-- the first iterate of `cbrt` -/
def cbrtX1 (self : TwoFloat) : TwoFloat :=
  arithmetic.impl_SubAssign_TwoFloat_for_TwoFloat.sub_assign
    (convert.impl_From_f64_for_TwoFloat.from (F64.cbrt self.hi))
    (cbrtQuot self (convert.impl_From_f64_for_TwoFloat.from (F64.cbrt self.hi)))

theorem cbrt_unfold (self : TwoFloat) :
    TwoFloat.cbrt self =
      if (self.hi ==. f64lit 0x0000000000000000) = true then self
      else arithmetic.impl_Sub_TwoFloat_for_TwoFloat.sub (cbrtX1 self) (cbrtQuot self (cbrtX1 self)) := rfl

/-- **`cbrt`**: two Newton steps `x − (x³ − self)/(3x²)`; the invariant holds if the two quotients satisfy it -/
theorem good_cbrt_of {x : TwoFloat} (hx : Good x)
    (h1 : (cbrtQuot x (convert.impl_From_f64_for_TwoFloat.from (F64.cbrt x.hi))).Inv)
    (h2 : (cbrtQuot x (cbrtX1 x)).Inv) : Good (TwoFloat.cbrt x) := by
  rw [cbrt_unfold]
  split_ifs
  · exact hx
  · exact good_sub_tt (good_sub_assign_tt (good_from (F64_cbrt_WF hx.2.1)) (good_of_div_tt_inv h1))
      (good_of_div_tt_inv h2)

theorem good_LN_10 : Good explog.LN_10 := by decide +kernel

/-- **`log10`** = `ln(x) / LN_10` -/
theorem good_log10_of {x : TwoFloat}
    (h : (arithmetic.impl_Div_TwoFloat_for_TwoFloat.div (TwoFloat.ln x) explog.LN_10).Inv) :
    Good (TwoFloat.log10 x) := good_of_div_tt_inv h

theorem LN_10_hi_bounds : (2 : Int) ^ 1075 ≤ |explog.LN_10.hi.toInt| ∧ |explog.LN_10.hi.toInt| ≤ 2 ^ 1076 ∧
    explog.LN_10.hi.toInt ≠ 0 := by decide +kernel

/-- **`log10`** for an argument satisfying the invariant whose computed natural logarithm is `0` (i.e. `x = 1`) or
has a high word of magnitude in `[2^-1008, 2^1016]` -/
theorem good_log10 {x : TwoFloat} (hx : Good x)
    (R : (TwoFloat.ln x).Valid → (TwoFloat.ln x).V = 0 ∨
      (2 ^ 66 ≤ |(TwoFloat.ln x).hi.toInt| ∧ |(TwoFloat.ln x).hi.toInt| ≤ 2 ^ 2090)) :
    Good (TwoFloat.log10 x) := by
  obtain ⟨b1, b2, b3⟩ := LN_10_hi_bounds
  refine good_div_tt (good_ln hx) good_LN_10 (fun hv _ => ?_)
  rcases R hv with h0 | ⟨hA1, hA2⟩
  · exact Or.inl ⟨h0, b3⟩
  · right
    have hU : |(TwoFloat.ln x).hi.toInt * (unit : Int)| = |(TwoFloat.ln x).hi.toInt| * 2 ^ 1074 := by
      rw [abs_mul_pos_right _ unit_pos_int, C01d.unit_int_eq]
    refine ⟨le_trans (by norm_num) hA1, hA2, le_trans b2 (by norm_num), ?_, ?_⟩
    · rw [hU]
      calc (2 : Int) ^ 64 * |explog.LN_10.hi.toInt| ≤ 2 ^ 64 * 2 ^ 1076 := mul_le_mul_of_nonneg_left b2 (by positivity)
        _ = 2 ^ 66 * 2 ^ 1074 := by norm_num
        _ ≤ |(TwoFloat.ln x).hi.toInt| * 2 ^ 1074 := mul_le_mul_of_nonneg_right hA1 (by positivity)
    · rw [hU]
      calc |(TwoFloat.ln x).hi.toInt| * 2 ^ 1074 ≤ 2 ^ 2090 * 2 ^ 1074 := mul_le_mul_of_nonneg_right hA2 (by positivity)
        _ ≤ 2 ^ 2090 * |explog.LN_10.hi.toInt| :=
            mul_le_mul_of_nonneg_left (le_trans (by norm_num) b1) (by positivity)

/-- **`log`** (arbitrary base) = `ln(x) / ln(b)` -/
theorem good_log_of {x b : TwoFloat}
    (h : (arithmetic.impl_Div_TwoFloat_for_TwoFloat.div (TwoFloat.ln x) (TwoFloat.ln b)).Inv) :
    Good (TwoFloat.log x b) := good_of_div_tt_inv h

/-- the quotient of one Newton step of `ln_1p`: `(expm1(x) − self) / (expm1(x) + 1)` -/
def ln1pQuot (self x : TwoFloat) : TwoFloat :=
  arithmetic.impl_Div_TwoFloat_for_TwoFloat.div
    (arithmetic.impl_Sub_TwoFloat_for_TwoFloat.sub (TwoFloat.exp_m1 x) self)
    (arithmetic.impl_Add_f64_for_TwoFloat.add (TwoFloat.exp_m1 x) (f64lit 0x3ff0000000000000))

/-- the first iterate of `ln_1p` -/
def ln1pX1 (self : TwoFloat) : TwoFloat :=
  arithmetic.impl_SubAssign_TwoFloat_for_TwoFloat.sub_assign
    (convert.impl_From_f64_for_TwoFloat.from (Libm.log1p self.hi))
    (ln1pQuot self (convert.impl_From_f64_for_TwoFloat.from (Libm.log1p self.hi)))

/-- **`ln_1p`**: `ln(1 + x)` for `x ≤ −1/2` (unconditional), otherwise two Newton steps on `exp_m1`; the invariant holds
if the two quotients satisfy it -/
theorem good_ln_1p_of {x : TwoFloat} (hx : Good x)
    (h1 : (ln1pQuot x (convert.impl_From_f64_for_TwoFloat.from (Libm.log1p x.hi))).Inv)
    (h2 : (ln1pQuot x (ln1pX1 x)).Inv) : Good (TwoFloat.ln_1p x) := by
  unfold TwoFloat.ln_1p
  split_ifs
  all_goals first
    | exact good_from f64lit_WF_zero
    | exact good_NAN
    | exact good_ln (good_add_ft lit_one_WF hx)
    | exact good_sub_tt (good_sub_assign_tt (good_from (libm_log1p_WF hx.2.1)) (good_of_div_tt_inv h1))
        (good_of_div_tt_inv h2)

/-- **`ln_1p` for `x ≤ −1/2`** (and for `x = 0`, `x ≤ −1`): no division is performed — unconditional -/
theorem good_ln_1p_of_le {x : TwoFloat} (hx : Good x)
    (hle : ROrd.isLe (base.impl_PartialOrd_f64_for_TwoFloat.partial_cmp x (F64.neg (f64lit 0x3fe0000000000000))) = true) :
    Good (TwoFloat.ln_1p x) := by
  unfold TwoFloat.ln_1p
  rw [if_pos hle]
  split_ifs
  · exact good_from f64lit_WF_zero
  · exact good_NAN
  · exact good_ln (good_add_ft lit_one_WF hx)

/-- **`tanh`** = `(e⁺ − e⁻) / (e⁺ + e⁻)` -/
theorem good_tanh_of {x : TwoFloat}
    (h : (arithmetic.impl_Div_TwoFloat_for_TwoFloat.div
      (arithmetic.impl_Sub_TwoFloat_for_TwoFloat.sub (TwoFloat.exp x) (TwoFloat.exp (arithmetic.impl_Neg_for_TwoFloat.neg x)))
      (arithmetic.impl_Add_TwoFloat_for_TwoFloat.add (TwoFloat.exp x) (TwoFloat.exp (arithmetic.impl_Neg_for_TwoFloat.neg x)))).Inv) :
    Good (TwoFloat.tanh x) := good_of_div_tt_inv h

/-- **`tanh`** with the division hypothesis in range form (numerator `0`, or `DivRange` of the two high words) -/
theorem good_tanh {x : TwoFloat} (hx : Good x)
    (R : let n := arithmetic.impl_Sub_TwoFloat_for_TwoFloat.sub (TwoFloat.exp x)
           (TwoFloat.exp (arithmetic.impl_Neg_for_TwoFloat.neg x))
         let d := arithmetic.impl_Add_TwoFloat_for_TwoFloat.add (TwoFloat.exp x)
           (TwoFloat.exp (arithmetic.impl_Neg_for_TwoFloat.neg x))
         n.Valid → d.Valid → (n.V = 0 ∧ d.hi.toInt ≠ 0) ∨ DivRange n.hi.toInt d.hi.toInt) :
    Good (TwoFloat.tanh x) :=
  good_div_tt (good_sub_tt (good_exp hx) (good_exp (good_neg hx)))
    (good_add_tt (good_exp hx) (good_exp (good_neg hx))) R

/-- **`atanh`** = `ln((1 + x)/(1 − x)) / 2`: `ln` and `/ 2.0` are unconditional, so only the quotient matters -/
theorem good_atanh_of {x : TwoFloat}
    (h : (arithmetic.impl_Div_TwoFloat_for_TwoFloat.div
      (arithmetic.impl_Add_TwoFloat_for_f64.add (f64lit 0x3ff0000000000000) x)
      (arithmetic.impl_Sub_TwoFloat_for_f64.sub (f64lit 0x3ff0000000000000) x)).Inv) :
    Good (TwoFloat.atanh x) := InvMath.good_div_two (good_ln (good_of_div_tt_inv h))

theorem good_atanh {x : TwoFloat} (hx : Good x)
    (R : let n := arithmetic.impl_Add_TwoFloat_for_f64.add (f64lit 0x3ff0000000000000) x
         let d := arithmetic.impl_Sub_TwoFloat_for_f64.sub (f64lit 0x3ff0000000000000) x
         n.Valid → d.Valid → (n.V = 0 ∧ d.hi.toInt ≠ 0) ∨ DivRange n.hi.toInt d.hi.toInt) :
    Good (TwoFloat.atanh x) :=
  good_atanh_of (good_div_tt (good_add_ft lit_one_WF hx) (good_sub_ft lit_one_WF hx) R).1

/-- **`tan`**, conditional form: the reduction quotient `x/(π/2)` (only computed for `|x| ≥ π/4`) and the reciprocal
`−1.0 / restricted_tan(r)` taken in the odd quadrants -/
theorem good_tan_of {x : TwoFloat} (hx : Good x)
    (hq : ROrd.isLt (base.impl_PartialOrd_TwoFloat_for_TwoFloat.partial_cmp (TwoFloat.abs x) consts.FRAC_PI_4) = false →
      (arithmetic.impl_Div_TwoFloat_for_TwoFloat.div x consts.FRAC_PI_2).Inv)
    (hT : (arithmetic.impl_Div_TwoFloat_for_f64.div (F64.neg (f64lit 0x3ff0000000000000))
      (trigonometry.restricted_tan (trigonometry.quadrant x).1)).Inv) :
    Good (TwoFloat.tan x) := by
  have hr := good_quadrant hx (fun h => good_of_div_tt_inv (hq h))
  have hT := good_of_div_ft_inv hT
  unfold TwoFloat.tan
  generalize trigonometry.quadrant x = p at hr hT ⊢
  obtain ⟨r, q⟩ := p
  dsimp only at hr hT ⊢
  split_ifs
  · exact hx
  · exact good_restricted_tan hr
  · exact hT

theorem neg_one_facts : (F64.neg (f64lit 0x3ff0000000000000)).WF ∧
    (F64.neg (f64lit 0x3ff0000000000000)).toInt = -(unit : Int) := by
  refine ⟨by decide +kernel, ?_⟩
  rw [toInt_neg, C01d.one_isVal.2]

theorem divRange_neg {A B : Int} (h : DivRange A B) : DivRange (-A) B := by
  obtain ⟨h1, h2, h3, h4, h5⟩ := h
  refine ⟨?_, ?_, h3, ?_, ?_⟩
  · rwa [abs_neg]
  · rwa [abs_neg]
  · rwa [neg_mul, abs_neg]
  · rwa [neg_mul, abs_neg]

/-- **`tan`**: valid `x`, `|x.hi| ≤ 2^1016`, and — in the odd quadrants — a kernel value `restricted_tan(r)` with high
word of magnitude in `[2^-1016, 2^1010]` (automatic mathematically: `2^-110 ≲ |tan r| ≤ 1`; `r = 0` gives the NaN of
the known pole finding `C16u`, which satisfies the invariant but is excluded here) -/
theorem tan_inv (x : TwoFloat) (hv : x.Valid) (hw : x.WF) (hhi : |x.hi.toInt| ≤ 2 ^ 2090)
    (hT : (trigonometry.restricted_tan (trigonometry.quadrant x).1).Valid →
      2 ^ 58 ≤ (trigonometry.restricted_tan (trigonometry.quadrant x).1).hi.toInt.natAbs ∧
      (trigonometry.restricted_tan (trigonometry.quadrant x).1).hi.toInt.natAbs ≤ 2 ^ 2084) :
    (TwoFloat.tan x).Inv ∧ (TwoFloat.tan x).WF := by
  have hx : Good x := ⟨Or.inl hv, hw⟩
  have hq := good_div_pi2 hv hw hhi
  refine good_tan_of hx (fun h => (hq h).1)
    (good_div_ft neg_one_facts.1 (good_restricted_tan (good_quadrant hx hq)) ?_).1
  intro _ hvT
  rw [neg_one_facts.2]
  exact divRange_neg (C01d.divRange_one (hT hvT).1 (hT hvT).2)

/-- **`atan`**, conditional form: the three argument-reduction quotients `(|x| − c)/(1 + c·|x|)`, `c = 1/2, 1, 3/2`,
and the reciprocal `1/|x|` of the outermost interval (one of the four is computed, depending on `|x|`;
for `|x| ≤ 7/16` none) -/
theorem good_atan_of {x : TwoFloat} (hx : Good x)
    (h1 : (arithmetic.impl_Div_TwoFloat_for_TwoFloat.div
      (arithmetic.impl_Sub_f64_for_TwoFloat.sub (TwoFloat.abs x) (f64lit 0x3fe0000000000000))
      (arithmetic.impl_Add_TwoFloat_for_f64.add (f64lit 0x3ff0000000000000)
        (arithmetic.impl_Mul_TwoFloat_for_f64.mul (f64lit 0x3fe0000000000000) (TwoFloat.abs x)))).Inv)
    (h2 : (arithmetic.impl_Div_TwoFloat_for_TwoFloat.div
      (arithmetic.impl_Sub_f64_for_TwoFloat.sub (TwoFloat.abs x) (f64lit 0x3ff0000000000000))
      (arithmetic.impl_Add_TwoFloat_for_f64.add (f64lit 0x3ff0000000000000) (TwoFloat.abs x))).Inv)
    (h3 : (arithmetic.impl_Div_TwoFloat_for_TwoFloat.div
      (arithmetic.impl_Sub_f64_for_TwoFloat.sub (TwoFloat.abs x) (f64lit 0x3ff8000000000000))
      (arithmetic.impl_Add_TwoFloat_for_f64.add (f64lit 0x3ff0000000000000)
        (arithmetic.impl_Mul_TwoFloat_for_f64.mul (f64lit 0x3ff8000000000000) (TwoFloat.abs x)))).Inv)
    (h4 : (TwoFloat.recip (TwoFloat.abs x)).Inv) :
    Good (TwoFloat.atan x) := by
  have h1 := good_of_div_tt_inv h1
  have h2 := good_of_div_tt_inv h2
  have h3 := good_of_div_tt_inv h3
  have h4 : Good (TwoFloat.recip (TwoFloat.abs x)) := ⟨h4, PF.recip_WF _⟩
  unfold TwoFloat.atan
  dsimp only
  split_ifs
  · exact good_NAN
  · exact good_FRAC_PI_2
  · exact good_neg good_FRAC_PI_2
  · exact good_restricted_atan hx
  · exact good_add_tt good_ATAN_FRAC_1_2 (good_restricted_atan h1)
  · exact good_add_tt good_FRAC_PI_4 (good_restricted_atan h2)
  · exact good_add_tt good_ATAN_FRAC_3_2 (good_restricted_atan h3)
  · exact good_sub_tt good_FRAC_PI_2 (good_restricted_atan h4)
  · exact good_neg (good_add_tt good_ATAN_FRAC_1_2 (good_restricted_atan h1))
  · exact good_neg (good_add_tt good_FRAC_PI_4 (good_restricted_atan h2))
  · exact good_neg (good_add_tt good_ATAN_FRAC_3_2 (good_restricted_atan h3))
  · exact good_neg (good_sub_tt good_FRAC_PI_2 (good_restricted_atan h4))

/-- `atan` on `|x| ≤ 7/16`-ish (the branch `4|x| + 1/4 ≤ 2`), infinities and invalid arguments needs no division;
in general: -/
theorem good_atan2_of {y x : TwoFloat}
    (ha : (TwoFloat.atan (arithmetic.impl_Div_TwoFloat_for_TwoFloat.div y x)).Inv) :
    Good (TwoFloat.atan2 y x) := by
  have ha : Good (TwoFloat.atan (arithmetic.impl_Div_TwoFloat_for_TwoFloat.div y x)) := ⟨ha, C17p.atan_WF _⟩
  unfold TwoFloat.atan2
  dsimp only
  split_ifs
  · exact good_from f64lit_WF_zero
  · exact good_PI
  · exact good_neg good_PI
  · exact good_FRAC_PI_2
  · exact good_neg good_FRAC_PI_2
  · exact ha
  · exact good_add_tt ha good_PI
  · exact good_sub_tt ha good_PI

/-- **`powi` with a negative exponent** (C01d): `recip` of the positive power, which must be in the range of `recip` -/
theorem good_powi_neg {x : TwoFloat} (hx : Good x) (n : I32) (hn : n.v < 0)
    (R1 : n.v = -1 → x.Valid → 2 ^ 58 ≤ x.hi.toInt.natAbs ∧ x.hi.toInt.natAbs ≤ 2 ^ 2084)
    (R : ∀ r : TwoFloat,
      r = (TwoFloat.powi.loop1 33 (convert.impl_From_f64_for_TwoFloat.from (f64lit 0x3ff0000000000000)) x
        (IntN.unsigned_abs n)).1 → r.Valid → 2 ^ 58 ≤ r.hi.toInt.natAbs ∧ r.hi.toInt.natAbs ≤ 2 ^ 2084) :
    Good (TwoFloat.powi x n) := C01d.powi_inv_of_neg n hn hx.2 hx.1 R1 R

/-! ## §6 validity on the ranges of the accuracy theorems (re-exports)

Where an accuracy module already proves that the result is a VALID pair on a range of arguments, the statement is
repeated here with the range on the scaled integer `x.V` / `x.hi.toInt` (units of `2^-1074`). -/

theorem rv_abs_le {x : TwoFloat} {c : ℕ} (h : |x.V| ≤ (c : ℤ) * 2 ^ 1074) : |ExpBound.rv x| ≤ (c : ℝ) := by
  unfold ExpBound.rv
  rw [abs_div, abs_of_pos (by positivity : (0 : ℝ) < 2 ^ 1074), div_le_iff₀ (by positivity)]
  have : |(x.V : ℝ)| ≤ (c : ℝ) * 2 ^ 1074 := by exact_mod_cast h
  exact this

theorem le_rv_abs {x : TwoFloat} {k : ℕ} (hk : k ≤ 1074) (h : 2 ^ (1074 - k) ≤ |x.V|) :
    1 / 2 ^ k ≤ |ExpBound.rv x| := by
  unfold ExpBound.rv
  rw [abs_div, abs_of_pos (by positivity : (0 : ℝ) < 2 ^ 1074), div_le_div_iff₀ (by positivity) (by positivity), one_mul]
  have h' : (2 : ℝ) ^ (1074 - k) ≤ |(x.V : ℝ)| := by exact_mod_cast h
  have e : (2 : ℝ) ^ 1074 = 2 ^ (1074 - k) * 2 ^ k := by rw [← pow_add]; congr 1; omega
  rw [e]
  exact mul_le_mul_of_nonneg_right h' (by positivity)

/-- **`cbrt`** (C13c): zero high word (returned unchanged) or `|x.hi| ∈ [2^-900, 2^900]` -/
theorem cbrt_inv (x : TwoFloat) (hv : x.Valid) (hw : x.WF)
    (h : x.hi.toInt = 0 ∨ (2 ^ 174 ≤ |x.hi.toInt| ∧ |x.hi.toInt| ≤ 2 ^ 1974)) :
    (TwoFloat.cbrt x).Inv ∧ (TwoFloat.cbrt x).WF := by
  rcases h with h0 | ⟨h1, h2⟩
  · have : (x.hi ==. f64lit 0) = true := by
      rw [req_eq, F64.f64lit_zero]; exact (eq_zero_iff hv.1).2 h0
    rw [C13.cbrt_zero_hi x this]
    exact ⟨Or.inl hv, hw⟩
  · obtain ⟨a, b, -⟩ := C13c.cbrt_bound hv hw h1 h2
    exact ⟨Or.inl a, b⟩

/-- **`log10`** (C15l) with a range on the ARGUMENT: high word in `[4, 2^960 − 2^944]` or in `[2^-1000, 1/4]`
(then `|ln x| ≥ 1`, far from the cancellation at `x ≈ 1`): a valid pair -/
theorem log10_inv_of_range (x : TwoFloat) (hv : x.Valid) (hw : x.WF)
    (h : (2 ^ 1076 ≤ x.hi.toInt ∧ x.hi.toInt ≤ 2 ^ 2034 - 2 ^ 2018) ∨ (2 ^ 74 ≤ x.hi.toInt ∧ x.hi.toInt ≤ 2 ^ 1072)) :
    (TwoFloat.log10 x).Inv ∧ (TwoFloat.log10 x).WF := by
  refine ⟨Or.inl ?_, PF.div_tt_WF _ _⟩
  have hU : (0 : ℝ) < 2 ^ 1074 := by positivity
  have hl2 := Real.log_two_gt_d9
  have hlog4 : 1 ≤ Real.log 4 := by
    have : Real.log 4 = 2 * Real.log 2 := by
      rw [show (4 : ℝ) = 2 ^ 2 by norm_num, Real.log_pow]; norm_num
    rw [this]; linarith
  have hlo : 1 / 2 ^ 1000 ≤ C15l.fval x.hi := by
    apply (C15l.le_fval_iff (k := 1000) (by norm_num)).2
    rcases h with h | h
    · exact le_trans (by norm_num) h.1
    · exact h.1
  have hhi : C15l.fval x.hi ≤ 2 ^ 960 - 2 ^ 944 := by
    apply C15l.fval_le_top
    rcases h with h | h
    · exact h.2
    · exact le_trans h.2 (by norm_num)
  have hpos : 0 < C15l.fval x.hi := lt_of_lt_of_le (by positivity) hlo
  obtain ⟨hvpos, hnear, -⟩ := LnBound.log_rv_near_hi hv hpos
  obtain ⟨n1, n2⟩ := abs_le.1 hnear
  have hfar : 1 / 2 ^ 99 ≤ |Real.log (C15l.val x)| := by
    rcases h with h | h
    · have h4 : (4 : ℝ) ≤ C15l.fval x.hi := by
        show (4 : ℝ) ≤ (x.hi.toInt : ℝ) / 2 ^ 1074
        rw [le_div_iff₀ hU]
        have : ((2 : ℤ) ^ 1076 : ℤ) ≤ x.hi.toInt := h.1
        have e : (4 : ℝ) * 2 ^ 1074 = 2 ^ 1076 := by norm_num
        rw [e]; exact_mod_cast this
      have := Real.log_le_log (by norm_num) h4
      have hge : 1 - 1 / 2 ^ 52 ≤ Real.log (C15l.val x) := by
        show 1 - 1 / 2 ^ 52 ≤ Real.log (ExpBound.rv x)
        show 1 - 1 / 2 ^ 52 ≤ Real.log (ExpBound.rv x)
        have : Real.log (ExpBound.fv x.hi) ≥ 1 := le_trans hlog4 this
        linarith
      rw [abs_of_nonneg (le_trans (by norm_num) hge)]
      exact le_trans (by norm_num) hge
    · have h4 : C15l.fval x.hi ≤ 1 / 4 := by
        show (x.hi.toInt : ℝ) / 2 ^ 1074 ≤ 1 / 4
        rw [div_le_iff₀ hU]
        have : x.hi.toInt ≤ ((2 : ℤ) ^ 1072 : ℤ) := h.2
        have e : (1 : ℝ) / 4 * 2 ^ 1074 = 2 ^ 1072 := by norm_num
        rw [e]; exact_mod_cast this
      have := Real.log_le_log hpos h4
      have hl4 : Real.log (1 / 4 : ℝ) = -Real.log 4 := by rw [one_div, Real.log_inv]
      have hle : Real.log (C15l.val x) ≤ -(1 - 1 / 2 ^ 52) := by
        show Real.log (ExpBound.rv x) ≤ -(1 - 1 / 2 ^ 52)
        have : Real.log (ExpBound.fv x.hi) ≤ -1 := by
          have h' : Real.log (ExpBound.fv x.hi) ≤ Real.log (1 / 4 : ℝ) := this
          rw [hl4] at h'; linarith
        linarith
      rw [abs_of_nonpos (le_trans hle (by norm_num))]
      have : (1 : ℝ) / 2 ^ 99 ≤ 1 - 1 / 2 ^ 52 := by norm_num
      linarith
  exact (C15l.log10_bound x hv hw hlo hhi hfar).1

/-- **`tanh`** (C18h): `2^-90 ≤ |x| ≤ 600` -/
theorem tanh_inv (x : TwoFloat) (hv : x.Valid) (hw : x.WF) (hlo : 2 ^ 984 ≤ |x.V|) (hhi : |x.V| ≤ 600 * 2 ^ 1074) :
    (TwoFloat.tanh x).Inv ∧ (TwoFloat.tanh x).WF := by
  obtain ⟨a, b, -⟩ := C18h.tanh_bound_partial x hv hw (le_rv_abs (k := 90) (by norm_num) hlo)
    (by have := rv_abs_le (x := x) (c := 600) (by exact_mod_cast hhi); exact_mod_cast this)
  exact ⟨Or.inl a, b⟩

/-- **`atanh`** (C18i): `|x| ≤ 1 − 2^-10` -/
theorem atanh_inv (x : TwoFloat) (hv : x.Valid) (hw : x.WF) (h : |x.V| ≤ 2 ^ 1074 - 2 ^ 1064) :
    (TwoFloat.atanh x).Inv ∧ (TwoFloat.atanh x).WF := by
  have hr : |ExpBound.rv x| ≤ 1 - 1 / 2 ^ 10 := by
    unfold ExpBound.rv
    rw [abs_div, abs_of_pos (by positivity : (0 : ℝ) < 2 ^ 1074), div_le_iff₀ (by positivity)]
    have : |(x.V : ℝ)| ≤ (2 : ℝ) ^ 1074 - 2 ^ 1064 := by exact_mod_cast h
    have e : ((1 : ℝ) - 1 / 2 ^ 10) * 2 ^ 1074 = 2 ^ 1074 - 2 ^ 1064 := by
      have : (2 : ℝ) ^ 1074 = 2 ^ 10 * 2 ^ 1064 := by rw [← pow_add]
      rw [this]; field_simp
    rw [e]; exact this
  obtain ⟨-, a, b, -⟩ := C18i.atanh_bound_sharp x hv hw hr
  exact ⟨Or.inl a, b⟩

/-- **`atan`** (C17t): `|x| ≤ 2^62`, with `|x|` equal to or at least `2^-950` away from each of the reduction centres
`1/2, 1, 3/2` -/
theorem atan_inv (x : TwoFloat) (hv : x.Valid) (hw : x.WF) (hx : |PowiBound.val x| ≤ 2 ^ 62)
    (hgap : ∀ c : ℚ, c = 1 / 2 ∨ c = 1 ∨ c = 3 / 2 →
      |PowiBound.val x| = c ∨ 1 / 2 ^ 950 ≤ |(|PowiBound.val x|) - c|) :
    (TwoFloat.atan x).Inv ∧ (TwoFloat.atan x).WF :=
  ⟨Or.inl (C17t.atan_bound hv hw hx hgap).1, C17p.atan_WF x⟩

/-! ## §7 the statements in the form of property C01: valid argument in, `Inv` out -/

theorem sqrt_inv (x : TwoFloat) (hx : x.Valid) (hw : x.WF) : (TwoFloat.sqrt x).Inv ∧ (TwoFloat.sqrt x).WF :=
  good_sqrt ⟨Or.inl hx, hw⟩
theorem hypot_inv (x y : TwoFloat) (hx : x.Valid) (hwx : x.WF) (hy : y.Valid) (hwy : y.WF) :
    (TwoFloat.hypot x y).Inv ∧ (TwoFloat.hypot x y).WF := good_hypot ⟨Or.inl hx, hwx⟩ ⟨Or.inl hy, hwy⟩
theorem exp_inv (x : TwoFloat) (hx : x.Valid) (hw : x.WF) : (TwoFloat.exp x).Inv ∧ (TwoFloat.exp x).WF :=
  good_exp ⟨Or.inl hx, hw⟩
theorem exp2_inv (x : TwoFloat) (hx : x.Valid) (hw : x.WF) : (TwoFloat.exp2 x).Inv ∧ (TwoFloat.exp2 x).WF :=
  good_exp2 ⟨Or.inl hx, hw⟩
theorem exp_m1_inv (x : TwoFloat) (hx : x.Valid) (hw : x.WF) : (TwoFloat.exp_m1 x).Inv ∧ (TwoFloat.exp_m1 x).WF :=
  good_exp_m1 ⟨Or.inl hx, hw⟩
theorem ln_inv (x : TwoFloat) (hx : x.Valid) (hw : x.WF) : (TwoFloat.ln x).Inv ∧ (TwoFloat.ln x).WF :=
  good_ln ⟨Or.inl hx, hw⟩
theorem log2_inv (x : TwoFloat) (hx : x.Valid) (hw : x.WF) : (TwoFloat.log2 x).Inv ∧ (TwoFloat.log2 x).WF :=
  good_log2 ⟨Or.inl hx, hw⟩
theorem powf_inv (x y : TwoFloat) (hx : x.Valid) (hwx : x.WF) (hy : y.Valid) (hwy : y.WF) :
    (TwoFloat.powf x y).Inv ∧ (TwoFloat.powf x y).WF := good_powf ⟨Or.inl hx, hwx⟩ ⟨Or.inl hy, hwy⟩
theorem sinh_inv (x : TwoFloat) (hx : x.Valid) (hw : x.WF) : (TwoFloat.sinh x).Inv ∧ (TwoFloat.sinh x).WF :=
  good_sinh ⟨Or.inl hx, hw⟩
theorem cosh_inv (x : TwoFloat) (hx : x.Valid) (hw : x.WF) : (TwoFloat.cosh x).Inv ∧ (TwoFloat.cosh x).WF :=
  good_cosh ⟨Or.inl hx, hw⟩
theorem asinh_inv (x : TwoFloat) (hx : x.Valid) (hw : x.WF) : (TwoFloat.asinh x).Inv ∧ (TwoFloat.asinh x).WF :=
  good_asinh ⟨Or.inl hx, hw⟩
theorem acosh_inv (x : TwoFloat) (hx : x.Valid) (hw : x.WF) : (TwoFloat.acosh x).Inv ∧ (TwoFloat.acosh x).WF :=
  good_acosh ⟨Or.inl hx, hw⟩
theorem asin_inv (x : TwoFloat) (hx : x.Valid) (hw : x.WF) : (TwoFloat.asin x).Inv ∧ (TwoFloat.asin x).WF :=
  good_asin ⟨Or.inl hx, hw⟩
theorem acos_inv (x : TwoFloat) (hx : x.Valid) (hw : x.WF) : (TwoFloat.acos x).Inv ∧ (TwoFloat.acos x).WF :=
  good_acos ⟨Or.inl hx, hw⟩
theorem to_degrees_inv (x : TwoFloat) (hx : x.Valid) (hw : x.WF) :
    (TwoFloat.to_degrees x).Inv ∧ (TwoFloat.to_degrees x).WF := good_to_degrees ⟨Or.inl hx, hw⟩
theorem to_radians_inv (x : TwoFloat) (hx : x.Valid) (hw : x.WF) :
    (TwoFloat.to_radians x).Inv ∧ (TwoFloat.to_radians x).WF := good_to_radians ⟨Or.inl hx, hw⟩
theorem powi_inv_nonneg (x : TwoFloat) (n : I32) (hx : x.Valid) (hw : x.WF) (hn : 0 ≤ n.v) :
    (TwoFloat.powi x n).Inv ∧ (TwoFloat.powi x n).WF := good_powi_nonneg ⟨Or.inl hx, hw⟩ n hn

/-- `log10` with the range on the computed natural logarithm -/
theorem log10_inv (x : TwoFloat) (hx : x.Valid) (hw : x.WF)
    (R : (TwoFloat.ln x).Valid → (TwoFloat.ln x).V = 0 ∨
      (2 ^ 66 ≤ |(TwoFloat.ln x).hi.toInt| ∧ |(TwoFloat.ln x).hi.toInt| ≤ 2 ^ 2090)) :
    (TwoFloat.log10 x).Inv ∧ (TwoFloat.log10 x).WF := good_log10 ⟨Or.inl hx, hw⟩ R

/-! ## §8 non-vacuity: every theorem instantiated at a concrete argument (hypotheses discharged by the kernel) -/

section examples

/-- (1, 2^-54): valid with a non-zero low word -/
def x1 : TwoFloat := ⟨f64lit 0x3ff0000000000000, f64lit 0x3c90000000000000⟩
/-- 1000 -/
def x1000 : TwoFloat := ⟨f64lit 0x408f400000000000, f64lit 0⟩
/-- the smallest subnormal, `2^-1074` -/
def xTiny : TwoFloat := ⟨f64lit 0x0000000000000001, f64lit 0⟩
/-- −745 -/
def xm745 : TwoFloat := ⟨f64lit 0xc087480000000000, f64lit 0⟩
/-- −1074 -/
def xm1074 : TwoFloat := ⟨f64lit 0xc090c80000000000, f64lit 0⟩
/-- 10 -/
def x10 : TwoFloat := ⟨f64lit 0x4024000000000000, f64lit 0⟩
/-- 2 -/
def x2 : TwoFloat := ⟨f64lit 0x4000000000000000, f64lit 0⟩
/-- 0.5 + 2^-55 -/
def xHalf : TwoFloat := ⟨f64lit 0x3fe0000000000000, f64lit 0x3c80000000000000⟩
/-- 1.5·2^1015, a huge argument still in the range of `sin_inv` -/
def xHuge : TwoFloat := ⟨f64lit 0x7f68000000000000, f64lit 0⟩

theorem args_ok : (x1.Valid ∧ x1.WF) ∧ (x1000.Valid ∧ x1000.WF) ∧ (xTiny.Valid ∧ xTiny.WF) ∧ (xm745.Valid ∧ xm745.WF) ∧
    (xm1074.Valid ∧ xm1074.WF) ∧ (x10.Valid ∧ x10.WF) ∧ (x2.Valid ∧ x2.WF) ∧ (xHalf.Valid ∧ xHalf.WF) ∧
    (xHuge.Valid ∧ xHuge.WF) ∧ (consts.PI.Valid ∧ consts.PI.WF) ∧ (consts.E.Valid ∧ consts.E.WF) ∧
    (TwoFloat.MAX.Valid ∧ TwoFloat.MAX.WF) := by decide +kernel

-- unconditional theorems: any valid argument will do; extreme ones are chosen
example : (TwoFloat.sqrt TwoFloat.MAX).Inv := (sqrt_inv _ args_ok.2.2.2.2.2.2.2.2.2.2.2.1 args_ok.2.2.2.2.2.2.2.2.2.2.2.2).1
example : (TwoFloat.sqrt xTiny).Inv := (sqrt_inv _ args_ok.2.2.1.1 args_ok.2.2.1.2).1
example : (TwoFloat.hypot TwoFloat.MAX x1).Inv :=
  (hypot_inv _ _ args_ok.2.2.2.2.2.2.2.2.2.2.2.1 args_ok.2.2.2.2.2.2.2.2.2.2.2.2 args_ok.1.1 args_ok.1.2).1
example : (TwoFloat.exp xm745).Inv := (exp_inv _ args_ok.2.2.2.1.1 args_ok.2.2.2.1.2).1
example : (TwoFloat.exp2 xm1074).Inv := (exp2_inv _ args_ok.2.2.2.2.1.1 args_ok.2.2.2.2.1.2).1
example : (TwoFloat.exp_m1 xTiny).Inv := (exp_m1_inv _ args_ok.2.2.1.1 args_ok.2.2.1.2).1
example : (TwoFloat.ln xTiny).Inv := (ln_inv _ args_ok.2.2.1.1 args_ok.2.2.1.2).1
example : (TwoFloat.log2 TwoFloat.MAX).Inv :=
  (log2_inv _ args_ok.2.2.2.2.2.2.2.2.2.2.2.1 args_ok.2.2.2.2.2.2.2.2.2.2.2.2).1
example : (TwoFloat.powf consts.PI consts.E).Inv :=
  (powf_inv _ _ args_ok.2.2.2.2.2.2.2.2.2.1.1 args_ok.2.2.2.2.2.2.2.2.2.1.2 args_ok.2.2.2.2.2.2.2.2.2.2.1.1
    args_ok.2.2.2.2.2.2.2.2.2.2.1.2).1
example : (TwoFloat.sinh xm745).Inv := (sinh_inv _ args_ok.2.2.2.1.1 args_ok.2.2.2.1.2).1
example : (TwoFloat.cosh xm745).Inv := (cosh_inv _ args_ok.2.2.2.1.1 args_ok.2.2.2.1.2).1
example : (TwoFloat.asinh TwoFloat.MAX).Inv :=
  (asinh_inv _ args_ok.2.2.2.2.2.2.2.2.2.2.2.1 args_ok.2.2.2.2.2.2.2.2.2.2.2.2).1
example : (TwoFloat.acosh x1).Inv := (acosh_inv _ args_ok.1.1 args_ok.1.2).1
example : (TwoFloat.asin x1).Inv := (asin_inv _ args_ok.1.1 args_ok.1.2).1
example : (TwoFloat.acos xHalf).Inv := (acos_inv _ args_ok.2.2.2.2.2.2.2.1.1 args_ok.2.2.2.2.2.2.2.1.2).1
example : (TwoFloat.to_degrees TwoFloat.MAX).Inv :=
  (to_degrees_inv _ args_ok.2.2.2.2.2.2.2.2.2.2.2.1 args_ok.2.2.2.2.2.2.2.2.2.2.2.2).1
example : (TwoFloat.to_radians xTiny).Inv := (to_radians_inv _ args_ok.2.2.1.1 args_ok.2.2.1.2).1
example : (TwoFloat.powi consts.PI (1000 : I32)).Inv :=
  (powi_inv_nonneg _ _ args_ok.2.2.2.2.2.2.2.2.2.1.1 args_ok.2.2.2.2.2.2.2.2.2.1.2 (by decide)).1

-- what these extreme instances actually return (kernel evaluation): poisoned or valid, never a finite high word with
-- a bad low word
example : (TwoFloat.sqrt TwoFloat.MAX).hi = F64.nan ∧ (TwoFloat.sqrt xTiny).Valid ∧
    (TwoFloat.sqrt xTiny).hi = f64lit 0x1e60000000000000 := by decide +kernel
example : TwoFloat.exp2 xm1074 = ⟨f64lit 0x0000000000000001, f64lit 0⟩ := by decide +kernel
example : (TwoFloat.cosh xm745).hi = F64.nan ∧ (TwoFloat.exp xm745) = ⟨f64lit 0, f64lit 0⟩ := by decide +kernel

-- ranged theorems
example : (TwoFloat.sin xHuge).Inv := (sin_inv _ args_ok.2.2.2.2.2.2.2.2.1.1 args_ok.2.2.2.2.2.2.2.2.1.2 (by decide +kernel)).1
example : (TwoFloat.cos x1000).Inv := (cos_inv _ args_ok.2.1.1 args_ok.2.1.2 (by decide +kernel)).1
example : (TwoFloat.sin_cos x1000).1.Inv ∧ (TwoFloat.sin_cos x1000).2.Inv :=
  have h := sin_cos_inv _ args_ok.2.1.1 args_ok.2.1.2 (by decide +kernel)
  ⟨h.1.1, h.2.1⟩
/-- `tan(1000)`: quadrant 1, the reciprocal branch; the kernel value `restricted_tan r ≈ −0.68` is in range -/
example : (TwoFloat.tan x1000).Inv :=
  (tan_inv _ args_ok.2.1.1 args_ok.2.1.2 (by decide +kernel) (by decide +kernel)).1
example : (TwoFloat.log10 x10).Inv :=
  (log10_inv_of_range _ args_ok.2.2.2.2.2.1.1 args_ok.2.2.2.2.2.1.2 (Or.inl (by decide +kernel))).1
/-- `log10(1)`: the computed `ln` is exactly `0`, the zero-numerator case of the division -/
example : (TwoFloat.log10 ⟨f64lit 0x3ff0000000000000, f64lit 0⟩).Inv :=
  (log10_inv _ (by decide +kernel) (by decide +kernel) (fun _ => Or.inl (by decide +kernel))).1
example : (TwoFloat.cbrt consts.PI).Inv :=
  (cbrt_inv _ args_ok.2.2.2.2.2.2.2.2.2.1.1 args_ok.2.2.2.2.2.2.2.2.2.1.2 (Or.inr (by decide +kernel))).1
example : (TwoFloat.tanh x1).Inv := (tanh_inv _ args_ok.1.1 args_ok.1.2 (by decide +kernel) (by decide +kernel)).1
example : (TwoFloat.atanh xHalf).Inv :=
  (atanh_inv _ args_ok.2.2.2.2.2.2.2.1.1 args_ok.2.2.2.2.2.2.2.1.2 (by decide +kernel)).1
example : (TwoFloat.atan x2).Inv :=
  (atan_inv _ args_ok.2.2.2.2.2.2.1.1 args_ok.2.2.2.2.2.2.1.2 (by decide +kernel)
    (by rintro c (rfl | rfl | rfl) <;> right <;> decide +kernel)).1
/-- `powi(π, −3)`: the positive power `π³ ≈ 31` is in the range of `recip` -/
example : (TwoFloat.powi consts.PI (-3 : I32)).Inv :=
  (good_powi_neg ⟨Or.inl args_ok.2.2.2.2.2.2.2.2.2.1.1, args_ok.2.2.2.2.2.2.2.2.2.1.2⟩ (-3 : I32) (by decide)
    (fun h => absurd h (by decide)) (fun r hr _ => by subst hr; decide +kernel)).1

-- conditional theorems: the quotient hypotheses are closed decidable statements; instances OUTSIDE the proved ranges
/-- `cbrt(f64::MAX)` (beyond `2^900`): both Newton quotients satisfy the invariant (they are NaN: `x³` overflows) -/
example : (TwoFloat.cbrt TwoFloat.MAX).Inv :=
  (good_cbrt_of ⟨Or.inl args_ok.2.2.2.2.2.2.2.2.2.2.2.1, args_ok.2.2.2.2.2.2.2.2.2.2.2.2⟩ (by decide +kernel)
    (by decide +kernel)).1
/-- `cbrt(2^-1074)` (below `2^-900`) -/
example : (TwoFloat.cbrt xTiny).Inv :=
  (good_cbrt_of ⟨Or.inl args_ok.2.2.1.1, args_ok.2.2.1.2⟩ (by decide +kernel) (by decide +kernel)).1
example : (TwoFloat.ln_1p xHalf).Inv :=
  (good_ln_1p_of ⟨Or.inl args_ok.2.2.2.2.2.2.2.1.1, args_ok.2.2.2.2.2.2.2.1.2⟩ (by decide +kernel) (by decide +kernel)).1
/-- `ln_1p(−0.75)`: the `ln(1 + x)` branch -/
example : (TwoFloat.ln_1p ⟨f64lit 0xbfe8000000000000, f64lit 0⟩).Inv :=
  (good_ln_1p_of_le ⟨Or.inl (by decide +kernel), by decide +kernel⟩ (by decide +kernel)).1
/-- `tanh(2^-1074)` (below `2^-90`): the quotient is the valid pair `(2^-1074, 0)` -/
example : (TwoFloat.tanh xTiny).Inv := (good_tanh_of (by decide +kernel)).1
example : (TwoFloat.atanh xTiny).Inv := (good_atanh_of (by decide +kernel)).1
example : (TwoFloat.atan TwoFloat.MAX).Inv :=
  (good_atan_of ⟨Or.inl args_ok.2.2.2.2.2.2.2.2.2.2.2.1, args_ok.2.2.2.2.2.2.2.2.2.2.2.2⟩ (by decide +kernel)
    (by decide +kernel) (by decide +kernel) (by decide +kernel)).1
example : (TwoFloat.atan2 x1 (arithmetic.impl_Neg_for_TwoFloat.neg x2)).Inv := (good_atan2_of (by decide +kernel)).1
example : (TwoFloat.tan TwoFloat.MAX).Inv :=
  (good_tan_of ⟨Or.inl args_ok.2.2.2.2.2.2.2.2.2.2.2.1, args_ok.2.2.2.2.2.2.2.2.2.2.2.2⟩ (fun _ => by decide +kernel)
    (by decide +kernel)).1

end examples

end C01m
