/-
Properties.CAudit — follow-up of the independent audit of the theorem statements (reports audit_a / audit_b,
sections "Theorems worth strengthening").  No existing theorem was found wrong; the statements below are the
cheap strengthenings / generalisations the auditors asked for.  Helper lemmas: `TFV/Lemmas/AuditLemmas.lean`.

ITEM 1 (AuditLemmas)  `wf_of_bits`, `from_bits_to_bits`, `bits_of_wf`, `wf_iff_bits`: `from_bits_nat` produces exactly the
        well-formed values.
ITEM 2 (AuditLemmas)  `toF32_fin`, `toF32_nearest`, `toF32_overflow`, `toF32_exact`: `F64.toF32` is round-to-nearest-even into
        binary32 with overflow to ±inf from the midpoint `(2^25−1)·2^103` on; here: `C09_to_f32_nearest`.
ITEM 3  `de_map_ok_iff`, `de_map_ok_iff'`, `de_map_ok_words`, `de_map_wrong_length`, `de_map_unknown_anywhere`,
        `de_map_duplicate_anywhere`: full characterisation of the serde map visitor.
ITEM 4  `*_zero_all`, `*_zero_hi`, `*_one_all`, `log2_pow2_all`: exact points at all zero bit patterns / both
        representations of one / `(2^k, ±0)`.
ITEM 5  `exp_underflow_value`, `exp_le_m750`, `exp_overflow_value`, `exp_ge_710`, `exp2_underflow_value`, `exp2_le_m1080`,
        `exp2_overflow_value`, `exp2_ge_1024`, `nonint_test_iff`, `powf_neg_base_nonint_value`, `powf_neg_base_int_value`.
ITEM 6  `new_div_inv_all`, `from_isize`, `from_usize` (+ `_pf`).
ITEM 7  `powi_neg_eq_recip_all`.
ITEM 8  tan near the poles: see the section at the end of the file.
-/
import TFV.Lemmas.AuditLemmas
import TFV.Properties.C20
import TFV.Properties.C13
import TFV.Properties.C14
import TFV.Properties.C14p
import TFV.Properties.C15
import TFV.Properties.C15p
import TFV.Properties.C16
import TFV.Properties.C17
import TFV.Properties.C18
import TFV.Properties.C06
import TFV.Properties.C07
import TFV.Properties.C09
import TFV.Lemmas.PanicFree
import TFV.Lemmas.DivAll
import TFV.Properties.C16u

set_option exponentiation.threshold 4096
set_option maxRecDepth 100000

namespace CAudit

/-- ITEM 2, tied to C09: `f32::from(x)` is the high word of `x` rounded to nearest-even in binary32 -/
theorem C09_to_f32_nearest (x : TwoFloat) (s : Bool) (n : Nat) (hx : x.hi = F64.fin s n)
    (h : n < (2 ^ 25 - 1) * 2 ^ 1177) :
    ∃ r, convert.impl_From_TwoFloat_for_f32.from x = ⟨.fin s r⟩ ∧ Rep32 r ∧ r ≤ max32 ∧
      (∀ y, Rep32 y → |(r : Int) - n| ≤ |(y : Int) - n|) ∧
      (∀ y, Rep32 y → y ≠ r → |(r : Int) - n| = |(y : Int) - n| → 2 * ulp32 n ∣ r) := by
  rw [C09.to_f32, hx]; exact toF32_nearest s n h

section
open Hand

/-! ## ITEM 3. full characterisation of the map visitor of the serde hand model -/


/-- once both fields are present every further key is an error (duplicate or unknown) -/
theorem mapLoop_full (kvs : List (String × F64)) (a b : F64) (r : Option F64 × Option F64) :
    mapLoop kvs (some a) (some b) = .ok r ↔ kvs = [] ∧ r = (some a, some b) := by
  cases kvs with
  | nil => simp [mapLoop, eq_comm]
  | cons kv rest =>
    obtain ⟨k, v⟩ := kv
    unfold mapLoop
    by_cases h1 : k = "hi"
    · simp [h1]
    · by_cases h2 : k = "lo"
      · simp [h2]
      · simp [h1, h2]

theorem mapLoop_hi (kvs : List (String × F64)) (a h l : F64) :
    mapLoop kvs (some a) none = .ok (some h, some l) ↔ kvs = [("lo", l)] ∧ h = a := by
  cases kvs with
  | nil => simp [mapLoop]
  | cons kv rest =>
    obtain ⟨k, v⟩ := kv
    unfold mapLoop
    by_cases h1 : k = "hi"
    · simp [h1]
    · by_cases h2 : k = "lo"
      · subst h2
        simp only [h1, if_false, if_true, Option.isSome_none, Bool.false_eq_true, mapLoop_full]
        constructor
        · rintro ⟨rfl, h⟩
          simp only [Prod.mk.injEq, Option.some.injEq] at h
          obtain ⟨rfl, rfl⟩ := h
          exact ⟨rfl, rfl⟩
        · rintro ⟨h, rfl⟩
          simp only [List.cons.injEq, Prod.mk.injEq, true_and] at h
          obtain ⟨rfl, rfl⟩ := h
          exact ⟨rfl, rfl⟩
      · simp [h1, h2]

theorem mapLoop_lo (kvs : List (String × F64)) (b h l : F64) :
    mapLoop kvs none (some b) = .ok (some h, some l) ↔ kvs = [("hi", h)] ∧ l = b := by
  cases kvs with
  | nil => simp [mapLoop]
  | cons kv rest =>
    obtain ⟨k, v⟩ := kv
    unfold mapLoop
    by_cases h1 : k = "hi"
    · subst h1
      simp only [if_true, Option.isSome_none, Bool.false_eq_true, if_false, mapLoop_full]
      constructor
      · rintro ⟨rfl, h⟩
        simp only [Prod.mk.injEq, Option.some.injEq] at h
        obtain ⟨rfl, rfl⟩ := h
        exact ⟨rfl, rfl⟩
      · rintro ⟨h, rfl⟩
        simp only [List.cons.injEq, Prod.mk.injEq, true_and] at h
        obtain ⟨rfl, rfl⟩ := h
        exact ⟨rfl, rfl⟩
    · by_cases h2 : k = "lo"
      · simp [h2]
      · simp [h1, h2]

/-- the key loop ends with both fields set exactly on the two two-element lists -/
theorem mapLoop_ok_iff (kvs : List (String × F64)) (h l : F64) :
    mapLoop kvs none none = .ok (some h, some l) ↔
      (kvs = [("hi", h), ("lo", l)] ∨ kvs = [("lo", l), ("hi", h)]) := by
  cases kvs with
  | nil => simp [mapLoop]
  | cons kv rest =>
    obtain ⟨k, v⟩ := kv
    unfold mapLoop
    by_cases h1 : k = "hi"
    · subst h1
      simp only [if_true, Option.isSome_none, Bool.false_eq_true, if_false, mapLoop_hi]
      constructor
      · rintro ⟨rfl, rfl⟩; exact Or.inl rfl
      · rintro (h | h)
        · simp only [List.cons.injEq, Prod.mk.injEq, true_and] at h
          obtain ⟨rfl, rfl⟩ := h; exact ⟨rfl, rfl⟩
        · simp at h
    · by_cases h2 : k = "lo"
      · subst h2
        simp only [h1, if_true, Option.isSome_none, Bool.false_eq_true, if_false, mapLoop_lo]
        constructor
        · rintro ⟨rfl, rfl⟩; exact Or.inr rfl
        · rintro (h | h)
          · simp at h
          · simp only [List.cons.injEq, Prod.mk.injEq, true_and] at h
            obtain ⟨rfl, rfl⟩ := h; exact ⟨rfl, rfl⟩
      · simp [h1, h2]

/-- `finish` returns the two words it was given -/
theorem finish_ok_words (hi lo : F64) (t : TwoFloat) (h : finish hi lo = .ok t) : t = ⟨hi, lo⟩ := by
  unfold finish at h
  split at h
  · rename_i t' ht
    cases h
    have := C07.tuple_round_trip_back hi lo t ht
    cases t
    simp only [convert.impl_From_TwoFloat_for_tup_f64_f64.from] at this
    cases this; rfl
  · cases h

/-- `finish` on well-formed words succeeds exactly on valid pairs -/
theorem finish_ok_iff (hi lo : F64) (hwh : hi.WF) (hwl : lo.WF) (t : TwoFloat) :
    finish hi lo = .ok t ↔ t = ⟨hi, lo⟩ ∧ t.Valid := by
  constructor
  · intro h
    refine ⟨finish_ok_words hi lo t h, ?_⟩
    unfold finish at h
    split at h
    · rename_i t' ht
      cases h
      exact C07.try_from_tuple_valid hi lo hwh hwl _ ht
    · cases h
  · rintro ⟨rfl, hv⟩
    have h := (C07.try_from_tuple_ok_iff hi lo hwh hwl ⟨hi, lo⟩).2 ⟨⟨hv.1, hv.2.2⟩, rfl⟩
    simp [finish, h]

/-- **ITEM 3 (general form, no well-formedness needed).**  The map visitor succeeds exactly on the two orderings of
the two emitted fields whose pair passes `TwoFloat::try_from`. -/
theorem de_map_ok_iff' (kvs : List (String × F64)) (t : TwoFloat) :
    deMap kvs = .ok t ↔
      (kvs = [("hi", t.hi), ("lo", t.lo)] ∨ kvs = [("lo", t.lo), ("hi", t.hi)]) ∧
        finish t.hi t.lo = .ok t := by
  constructor
  · intro h
    unfold deMap at h
    split at h
    · cases h
    · rename_i hi lo hm
      have ht := finish_ok_words hi lo t h
      subst ht
      exact ⟨(mapLoop_ok_iff kvs hi lo).1 hm, h⟩
    · cases h
  · rintro ⟨hk, hf⟩
    have hm := (mapLoop_ok_iff kvs t.hi t.lo).2 hk
    unfold deMap
    rw [hm]; exact hf

/-- **ITEM 3.**  For well-formed words: `deMap kvs = ok t` iff `kvs` is one of the two orderings of
`[("hi", t.hi), ("lo", t.lo)]` and `t` is valid.  In particular a duplicate, unknown or missing key anywhere in the
list is rejected. -/
theorem de_map_ok_iff (kvs : List (String × F64)) (hw : ∀ kv ∈ kvs, kv.2.WF) (t : TwoFloat) :
    deMap kvs = .ok t ↔
      (kvs = [("hi", t.hi), ("lo", t.lo)] ∨ kvs = [("lo", t.lo), ("hi", t.hi)]) ∧ t.Valid := by
  rw [de_map_ok_iff']
  constructor
  · rintro ⟨hk, hf⟩
    refine ⟨hk, ?_⟩
    have hwh : t.hi.WF := by rcases hk with h | h <;> exact hw ("hi", t.hi) (by rw [h]; simp)
    have hwl : t.lo.WF := by rcases hk with h | h <;> exact hw ("lo", t.lo) (by rw [h]; simp)
    exact ((finish_ok_iff t.hi t.lo hwh hwl t).1 hf).2
  · rintro ⟨hk, hv⟩
    refine ⟨hk, ?_⟩
    have hwh : t.hi.WF := by rcases hk with h | h <;> exact hw ("hi", t.hi) (by rw [h]; simp)
    have hwl : t.lo.WF := by rcases hk with h | h <;> exact hw ("lo", t.lo) (by rw [h]; simp)
    exact (finish_ok_iff t.hi t.lo hwh hwl t).2 ⟨rfl, hv⟩

/-- the analogue of `C20.de_seq_ok_words` for the map form (no well-formedness needed) -/
theorem de_map_ok_words (kvs : List (String × F64)) (t : TwoFloat) (h : deMap kvs = .ok t) :
    kvs = [("hi", t.hi), ("lo", t.lo)] ∨ kvs = [("lo", t.lo), ("hi", t.hi)] :=
  ((de_map_ok_iff' kvs t).1 h).1

/-- every list of length ≠ 2 is rejected by the map visitor -/
theorem de_map_wrong_length (kvs : List (String × F64)) (h : kvs.length ≠ 2) : ∃ e, deMap kvs = .error e := by
  cases hd : deMap kvs with
  | error e => exact ⟨e, rfl⟩
  | ok t =>
    rcases de_map_ok_words kvs t hd with h' | h' <;> (rw [h'] at h; simp at h)

/-- a key other than `hi`/`lo` ANYWHERE in the list is rejected -/
theorem de_map_unknown_anywhere (kvs : List (String × F64)) (k : String) (v : F64) (hk : (k, v) ∈ kvs)
    (h1 : k ≠ "hi") (h2 : k ≠ "lo") : ∃ e, deMap kvs = .error e := by
  cases hd : deMap kvs with
  | error e => exact ⟨e, rfl⟩
  | ok t =>
    rcases de_map_ok_words kvs t hd with h' | h' <;>
      (rw [h'] at hk; simp at hk; rcases hk with ⟨rfl, _⟩ | ⟨rfl, _⟩ <;> simp at h1 h2)

/-- a key occurring twice ANYWHERE in the list is rejected -/
theorem de_map_duplicate_anywhere (kvs : List (String × F64)) (h : ¬ (kvs.map Prod.fst).Nodup) :
    ∃ e, deMap kvs = .error e := by
  cases hd : deMap kvs with
  | error e => exact ⟨e, rfl⟩
  | ok t =>
    exfalso; apply h
    rcases de_map_ok_words kvs t hd with h' | h' <;> (rw [h']; simp)

example : deMap [("hi", F64.one), ("lo", F64.zero), ("foo", F64.zero)] = .error .unknown_field := by decide +kernel
example : deMap [("hi", F64.one), ("lo", F64.zero), ("hi", F64.one)] = .error .duplicate_field := by decide +kernel
example : ∃ e, deMap [("hi", F64.one), ("lo", F64.zero), ("hi", F64.one)] = .error e :=
  de_map_wrong_length _ (by decide)
example : deMap [("lo", F64.zero), ("hi", F64.one)] = .ok ⟨F64.one, F64.zero⟩ :=
  (de_map_ok_iff _ (by intro kv h; simp at h; rcases h with rfl | rfl <;> decide +kernel) ⟨F64.one, F64.zero⟩).2
    ⟨Or.inr rfl, by decide +kernel⟩

end

section
open F64

/-! ## ITEM 4. exact points at ALL zero bit patterns / all representations of 1 -/

/-- both words are IEEE-equal to zero: one of the four patterns `(±0, ±0)` -/
def IsZeroPair (x : TwoFloat) : Prop := (x.hi ==. f64lit 0) = true ∧ (x.lo ==. f64lit 0) = true

instance (x : TwoFloat) : Decidable (IsZeroPair x) := by unfold IsZeroPair; infer_instance

theorem isZeroPair_cases (x : TwoFloat) (h : IsZeroPair x) :
    x = ⟨fin false 0, fin false 0⟩ ∨ x = ⟨fin false 0, fin true 0⟩ ∨
    x = ⟨fin true 0, fin false 0⟩ ∨ x = ⟨fin true 0, fin true 0⟩ := by
  obtain ⟨hi, lo⟩ := x
  rcases Ident.f64_eq_zero_cases _ h.1 with e1 | e1 <;> rcases Ident.f64_eq_zero_cases _ h.2 with e2 | e2 <;>
    simp only at e1 e2 <;> subst e1 <;> subst e2 <;> simp

/-- a VALID double-double whose high word is a zero has a zero low word: the four patterns are all the valid zeros -/
theorem isZeroPair_of_valid (x : TwoFloat) (hv : x.Valid) (h : (x.hi ==. f64lit 0) = true) : IsZeroPair x := by
  refine ⟨h, ?_⟩
  obtain ⟨hi, lo⟩ := x
  obtain ⟨-, hlf, hadd⟩ := hv
  simp only at h hlf hadd ⊢
  cases lo with
  | nan => cases hlf
  | inf s => cases hlf
  | fin t b =>
    by_cases hb : b = 0
    · subst hb; cases t <;> decide +kernel
    · exfalso
      have hpos : 0 < rn53 b := rn53_pos (Nat.pos_of_ne_zero hb)
      have key : ∀ s, F64.addEq (fin s 0) (fin t b) = false := by
        intro s
        unfold F64.addEq F64.add
        have hne : (fin s 0).toInt + (fin t b).toInt ≠ 0 := by
          cases s <;> cases t <;> simp [toInt] <;> omega
        have hna : ((fin s 0).toInt + (fin t b).toInt).natAbs = b := by
          cases s <;> cases t <;> simp [toInt]
        simp only [roundSigned, hne, if_false, hna]
        generalize decide ((fin s 0).toInt + (fin t b).toInt < 0) = d
        show F64.eq (pack d (rn53 b)) (fin s 0) = false
        generalize rn53 b = m at hpos
        unfold pack
        split
        · cases d <;> rfl
        · clear hne hna
          cases s <;> cases d <;> simp [F64.eq, partial_cmp, toInt] <;>
            split_ifs <;> first | omega | simp
      rcases Ident.f64_eq_zero_cases _ h with e | e <;> rw [e, key] at hadd <;> cases hadd

/-! every function below returns the SAME bit pattern on all four zero pairs: `(+0, +0)` resp. `(1, +0)`;
the only sign-sensitive one is `asinh`, which returns `(hi, hi)` (i.e. `(+0,+0)` for `hi = +0`, `(−0,−0)` for `hi = −0`) -/

theorem sin_zero_all (x : TwoFloat) (h : IsZeroPair x) : TwoFloat.sin x = ⟨fin false 0, fin false 0⟩ := by
  rcases isZeroPair_cases x h with e | e | e | e <;> rw [e] <;> decide +kernel

theorem tan_zero_all (x : TwoFloat) (h : IsZeroPair x) : TwoFloat.tan x = ⟨fin false 0, fin false 0⟩ := by
  rcases isZeroPair_cases x h with e | e | e | e <;> rw [e] <;> decide +kernel

theorem asin_zero_all (x : TwoFloat) (h : IsZeroPair x) : TwoFloat.asin x = ⟨fin false 0, fin false 0⟩ := by
  rcases isZeroPair_cases x h with e | e | e | e <;> rw [e] <;> decide +kernel

theorem atan_zero_all (x : TwoFloat) (h : IsZeroPair x) : TwoFloat.atan x = ⟨fin false 0, fin false 0⟩ := by
  rcases isZeroPair_cases x h with e | e | e | e <;> rw [e] <;> decide +kernel

theorem sinh_zero_all (x : TwoFloat) (h : IsZeroPair x) : TwoFloat.sinh x = ⟨fin false 0, fin false 0⟩ := by
  rcases isZeroPair_cases x h with e | e | e | e <;> rw [e] <;> decide +kernel

theorem tanh_zero_all (x : TwoFloat) (h : IsZeroPair x) : TwoFloat.tanh x = ⟨fin false 0, fin false 0⟩ := by
  rcases isZeroPair_cases x h with e | e | e | e <;> rw [e] <;> decide +kernel

theorem atanh_zero_all (x : TwoFloat) (h : IsZeroPair x) : TwoFloat.atanh x = ⟨fin false 0, fin false 0⟩ := by
  rcases isZeroPair_cases x h with e | e | e | e <;> rw [e] <;> decide +kernel

theorem exp_m1_zero_all (x : TwoFloat) (h : IsZeroPair x) : TwoFloat.exp_m1 x = ⟨fin false 0, fin false 0⟩ := by
  rcases isZeroPair_cases x h with e | e | e | e <;> rw [e] <;> decide +kernel

theorem ln_1p_zero_all (x : TwoFloat) (h : IsZeroPair x) : TwoFloat.ln_1p x = ⟨fin false 0, fin false 0⟩ := by
  rcases isZeroPair_cases x h with e | e | e | e <;> rw [e] <;> decide +kernel

theorem cos_zero_all (x : TwoFloat) (h : IsZeroPair x) : TwoFloat.cos x = ⟨F64.one, fin false 0⟩ := by
  rcases isZeroPair_cases x h with e | e | e | e <;> rw [e] <;> decide +kernel

theorem cosh_zero_all (x : TwoFloat) (h : IsZeroPair x) : TwoFloat.cosh x = ⟨F64.one, fin false 0⟩ := by
  rcases isZeroPair_cases x h with e | e | e | e <;> rw [e] <;> decide +kernel

theorem exp_zero_all (x : TwoFloat) (h : IsZeroPair x) : TwoFloat.exp x = ⟨F64.one, fin false 0⟩ := by
  rcases isZeroPair_cases x h with e | e | e | e <;> rw [e] <;> decide +kernel

theorem exp2_zero_all (x : TwoFloat) (h : IsZeroPair x) : TwoFloat.exp2 x = ⟨F64.one, fin false 0⟩ := by
  rcases isZeroPair_cases x h with e | e | e | e <;> rw [e] <;> decide +kernel

theorem asinh_zero_all (x : TwoFloat) (h : IsZeroPair x) : TwoFloat.asinh x = ⟨x.hi, x.hi⟩ := by
  rcases isZeroPair_cases x h with e | e | e | e <;> rw [e] <;> decide +kernel

/-- `sin_cos` at a zero pair -/
theorem sin_cos_zero_all (x : TwoFloat) (h : IsZeroPair x) :
    TwoFloat.sin_cos x = (⟨fin false 0, fin false 0⟩, ⟨F64.one, fin false 0⟩) := by
  rw [C16.sin_cos_eq, sin_zero_all x h, cos_zero_all x h]

/-- the forms asked for: a VALID argument whose high word is `±0` -/
theorem sin_zero_hi (x : TwoFloat) (hv : x.Valid) (h : (x.hi ==. f64lit 0) = true) :
    TwoFloat.sin x = ⟨fin false 0, fin false 0⟩ := sin_zero_all x (isZeroPair_of_valid x hv h)
theorem cos_zero_hi (x : TwoFloat) (hv : x.Valid) (h : (x.hi ==. f64lit 0) = true) :
    TwoFloat.cos x = ⟨F64.one, fin false 0⟩ := cos_zero_all x (isZeroPair_of_valid x hv h)
theorem tan_zero_hi (x : TwoFloat) (hv : x.Valid) (h : (x.hi ==. f64lit 0) = true) :
    TwoFloat.tan x = ⟨fin false 0, fin false 0⟩ := tan_zero_all x (isZeroPair_of_valid x hv h)
theorem asin_zero_hi (x : TwoFloat) (hv : x.Valid) (h : (x.hi ==. f64lit 0) = true) :
    TwoFloat.asin x = ⟨fin false 0, fin false 0⟩ := asin_zero_all x (isZeroPair_of_valid x hv h)
theorem atan_zero_hi (x : TwoFloat) (hv : x.Valid) (h : (x.hi ==. f64lit 0) = true) :
    TwoFloat.atan x = ⟨fin false 0, fin false 0⟩ := atan_zero_all x (isZeroPair_of_valid x hv h)
theorem sinh_zero_hi (x : TwoFloat) (hv : x.Valid) (h : (x.hi ==. f64lit 0) = true) :
    TwoFloat.sinh x = ⟨fin false 0, fin false 0⟩ := sinh_zero_all x (isZeroPair_of_valid x hv h)
theorem cosh_zero_hi (x : TwoFloat) (hv : x.Valid) (h : (x.hi ==. f64lit 0) = true) :
    TwoFloat.cosh x = ⟨F64.one, fin false 0⟩ := cosh_zero_all x (isZeroPair_of_valid x hv h)
theorem tanh_zero_hi (x : TwoFloat) (hv : x.Valid) (h : (x.hi ==. f64lit 0) = true) :
    TwoFloat.tanh x = ⟨fin false 0, fin false 0⟩ := tanh_zero_all x (isZeroPair_of_valid x hv h)
theorem asinh_zero_hi (x : TwoFloat) (hv : x.Valid) (h : (x.hi ==. f64lit 0) = true) :
    TwoFloat.asinh x = ⟨x.hi, x.hi⟩ := asinh_zero_all x (isZeroPair_of_valid x hv h)
theorem atanh_zero_hi (x : TwoFloat) (hv : x.Valid) (h : (x.hi ==. f64lit 0) = true) :
    TwoFloat.atanh x = ⟨fin false 0, fin false 0⟩ := atanh_zero_all x (isZeroPair_of_valid x hv h)
theorem exp_m1_zero_hi (x : TwoFloat) (hv : x.Valid) (h : (x.hi ==. f64lit 0) = true) :
    TwoFloat.exp_m1 x = ⟨fin false 0, fin false 0⟩ := exp_m1_zero_all x (isZeroPair_of_valid x hv h)
theorem ln_1p_zero_hi (x : TwoFloat) (hv : x.Valid) (h : (x.hi ==. f64lit 0) = true) :
    TwoFloat.ln_1p x = ⟨fin false 0, fin false 0⟩ := ln_1p_zero_all x (isZeroPair_of_valid x hv h)

/-! ### the two representations `(1, +0)`, `(1, −0)` of one -/

/-- `x == 1.0` in the crate's `PartialEq<f64> for TwoFloat` -/
def IsOnePair (x : TwoFloat) : Prop :=
  base.impl_PartialEq_f64_for_TwoFloat.eq x (f64lit 0x3ff0000000000000) = true

instance (x : TwoFloat) : Decidable (IsOnePair x) := by unfold IsOnePair; infer_instance

theorem isOnePair_cases (x : TwoFloat) (h : IsOnePair x) :
    x = ⟨F64.one, fin false 0⟩ ∨ x = ⟨F64.one, fin true 0⟩ := by
  obtain ⟨hi, lo⟩ := x
  unfold IsOnePair base.impl_PartialEq_f64_for_TwoFloat.eq at h
  rw [Bool.and_eq_true] at h
  have e1 := Ident.f64_eq_one _ h.1
  simp only at e1; subst e1
  rcases Ident.f64_eq_zero_cases _ h.2 with e2 | e2 <;> simp only at e2 <;> subst e2 <;> simp

/-- the two word tests -/
theorem isOnePair_of_words (x : TwoFloat) (h : (x.hi ==. f64lit 0x3ff0000000000000) = true)
    (hl : (x.lo ==. f64lit 0) = true) : IsOnePair x := by
  unfold IsOnePair base.impl_PartialEq_f64_for_TwoFloat.eq; rw [h, hl]; rfl

theorem acos_one_all (x : TwoFloat) (h : IsOnePair x) : TwoFloat.acos x = ⟨fin false 0, fin false 0⟩ := by
  rcases isOnePair_cases x h with e | e <;> rw [e] <;> decide +kernel

theorem acosh_one_all (x : TwoFloat) (h : IsOnePair x) : TwoFloat.acosh x = ⟨fin false 0, fin false 0⟩ := by
  rcases isOnePair_cases x h with e | e <;> rw [e] <;> decide +kernel

theorem ln_one_all (x : TwoFloat) (h : IsOnePair x) : TwoFloat.ln x = ⟨fin false 0, fin false 0⟩ := by
  rw [C15.ln_one x h, C15.zero_words]; rfl
theorem log2_one_all (x : TwoFloat) (h : IsOnePair x) : TwoFloat.log2 x = ⟨fin false 0, fin false 0⟩ := by
  rw [C15.log2_one x h, C15.zero_words]; rfl
theorem log10_one_all (x : TwoFloat) (h : IsOnePair x) : TwoFloat.log10 x = ⟨fin false 0, fin false 0⟩ :=
  C15.log10_one x h

example : TwoFloat.sin ⟨fin true 0, fin false 0⟩ = ⟨fin false 0, fin false 0⟩ :=
  sin_zero_all _ ⟨by decide +kernel, by decide +kernel⟩
example : TwoFloat.asinh ⟨fin true 0, fin false 0⟩ = ⟨fin true 0, fin true 0⟩ :=
  asinh_zero_all _ ⟨by decide +kernel, by decide +kernel⟩
example : TwoFloat.acos ⟨F64.one, fin true 0⟩ = ⟨fin false 0, fin false 0⟩ := acos_one_all _ (by decide +kernel)
example : TwoFloat.ln ⟨F64.one, fin true 0⟩ = ⟨fin false 0, fin false 0⟩ := ln_one_all _ (by decide +kernel)

end

section
open F64 TwoFloat C14p C15p

theorem fin_of_toInt_pos {x : F64} (hf : x.is_finite = true) {n : Nat} (hn : 0 < n) (h : x.toInt = (n : Int)) :
    x = fin false n := by
  cases x with
  | nan => cases hf
  | inf s => cases hf
  | fin s m =>
    cases s
    · simp only [toInt] at h; congr 1; exact_mod_cast h
    · simp only [toInt] at h; omega

theorem fin_of_toInt_zero {x : F64} (hf : x.is_finite = true) (h : x.toInt = 0) : ∃ t, x = fin t 0 := by
  cases x with
  | nan => cases hf
  | inf s => cases hf
  | fin s m =>
    refine ⟨s, ?_⟩
    cases s <;> simp only [toInt] at h <;> congr 1 <;> omega

/-- **`log2(2^k) = k` for every normal power of two, for EVERY valid argument with high word `2^k` and a zero low
word of either sign** (generalises `C15p.log2_pow2_value`, which fixes the low word to `+0`) -/
theorem log2_pow2_value_gen (self : TwoFloat) (s : Nat) (hs : s ≤ 2045)
    (hself : IsP self ((2 ^ (s + 52) : Nat) : Int) 0) :
    IsP (TwoFloat.log2 self) (((s : Int) - 1022) * (F64.unit : Int)) 0 := by
  have hhi : self.hi = fin false (2 ^ 52 * 2 ^ s) := by
    have := fin_of_toInt_pos hself.2.2.1.1 (Nat.two_pow_pos _) hself.1
    rw [this, ← Nat.pow_add, Nat.add_comm]
  obtain ⟨t, hlo⟩ := fin_of_toInt_zero hself.2.2.1.2.1 hself.2.1
  have hone : IsVal (f64lit 0x3ff0000000000000) (F64.unit : Int) := ⟨by decide +kernel, c0_words.1⟩
  have hUpos : 0 < F64.unit := F64.unit_pos
  unfold TwoFloat.log2
  by_cases hs0 : s = 1022
  · have he : base.impl_PartialEq_f64_for_TwoFloat.eq self (f64lit 0x3ff0000000000000) = true := by
      unfold base.impl_PartialEq_f64_for_TwoFloat.eq
      rw [hlo, hhi, hs0]; cases t <;> decide +kernel
    rw [he, if_pos rfl, hs0]
    have : (((1022 : Nat) : Int) - 1022) * (F64.unit : Int) = 0 := by push_cast; ring
    rw [this]
    exact ⟨by decide +kernel, by decide +kernel, by decide +kernel, by decide +kernel⟩
  · have he : base.impl_PartialEq_f64_for_TwoFloat.eq self (f64lit 0x3ff0000000000000) = false := by
      unfold base.impl_PartialEq_f64_for_TwoFloat.eq
      rw [Bool.and_eq_false_iff]; left
      rw [req_eq, Bool.eq_false_iff]
      intro hc
      have := (eq_iff_toInt hself.2.2.1.1 hone.1).1 hc
      rw [hself.1, hone.2, F64.unit_eq] at this
      have h2 : 2 ^ (s + 52) = 2 ^ 1074 := by exact_mod_cast this
      have := Nat.pow_right_injective (le_refl 2) h2
      omega
    have hle : ROrd.isLe (base.impl_PartialOrd_f64_for_TwoFloat.partial_cmp self (f64lit 0x0000000000000000)) = false := by
      rw [f64lit_zero, partial_cmp_tf_exact_of F64.roundFacts hself.2.2.1 (WF_zero false) rfl, Bool.eq_false_iff]
      intro hc
      have := ROrd.isLe_ofInts.1 hc
      rw [hself.V, toInt_zero, add_zero] at this
      have hp : 0 < 2 ^ (s + 52) := Nat.two_pow_pos _
      have : ((2 ^ (s + 52) : Nat) : Int) ≤ 0 := this
      omega
    rw [he, hle, if_neg Bool.false_ne_true, if_neg Bool.false_ne_true]
    have hL := libm_log2_pow2 s hs
    have hLw : (Libm.log2 self.hi).WF := PF.libm_log2_WF hself.2.2.2.1
    rw [← hhi] at hL
    have hx0 : IsP (convert.impl_From_f64_for_TwoFloat.from (Libm.log2 self.hi))
        (((s : Int) - 1022) * (F64.unit : Int)) 0 := by
      rw [from_eq]
      exact ⟨hL.2, toInt_zero false, (pair_zero_spec hL.1 hLw).2.1, hLw, WF_zero false⟩
    exact log2_step_pow2 self _ s hs hself (log2_step_pow2 self _ s hs hself hx0)

/-- the pair `(2^k, ±0)` is a valid value pair -/
theorem isP_pow2 (s : Nat) (hs : s ≤ 2045) (t : Bool) :
    IsP (⟨fin false (2 ^ 52 * 2 ^ s), fin t 0⟩ : TwoFloat) ((2 ^ (s + 52) : Nat) : Int) 0 := by
  have hPw : (fin false (2 ^ 52 * 2 ^ s)).WF := by
    refine ⟨rep_mul_pow2 s (rep_two_pow 52), ?_⟩
    rw [← Nat.pow_add]
    exact le_trans (Nat.pow_le_pow_right (by decide) (by omega : 52 + s ≤ 2097)) two_pow_2097_le_maxFin
  have hPv : (fin false (2 ^ 52 * 2 ^ s)).toInt = ((2 ^ (s + 52) : Nat) : Int) := by
    show ((2 ^ 52 * 2 ^ s : Nat) : Int) = _
    rw [← Nat.pow_add, Nat.add_comm]
  refine ⟨hPv, toInt_zero t, ?_, hPw, WF_zero t⟩
  apply TwoFloat.valid_of_rnI rfl rfl hPw
  rw [toInt_zero, Int.add_zero, rnI_of_repI hPw.repI]

/-- **ITEM 4 (log2).** `log2 (2^k, ±0) = k` (high word `k`, zero low word, valid) for `-1022 ≤ k ≤ 1023` and BOTH signs
of the zero low word -/
theorem log2_pow2_all (k : Int) (h1 : -1022 ≤ k) (h2 : k ≤ 1023) (t : Bool) :
    IsP (TwoFloat.log2 ⟨fin false (2 ^ (k + 1074).toNat), fin t 0⟩) (k * (F64.unit : Int)) 0 := by
  obtain ⟨s, hs⟩ : ∃ s : Nat, k + 1022 = (s : Int) := ⟨(k + 1022).toNat, by omega⟩
  have e1 : (k + 1074).toNat = 52 + s := by omega
  have e2 : k = (s : Int) - 1022 := by omega
  rw [e1, Nat.pow_add, e2]
  exact log2_pow2_value_gen _ s (by omega) (isP_pow2 s (by omega) t)

example : IsP (TwoFloat.log2 ⟨fin false (2 ^ 1077), fin true 0⟩) (3 * (F64.unit : Int)) 0 :=
  log2_pow2_all 3 (by decide) (by decide) true

end

section
open F64 TwoFloat

/-! ## ITEM 5. value-level forms of the C14 switches (`x.V` = exact value in units of `2^-1074`, `F64.unit` = 1) -/

/-- for a valid pair and a well-formed double `c`: `V ≤ c → hi ≤ c` and `c ≤ V → c ≤ hi` (rounding is monotone) -/
theorem hi_le_of_V_le {t : TwoFloat} (ht : t.Valid) {c : F64} (hc : c.WF) (h : t.V ≤ c.toInt) :
    t.hi.toInt ≤ c.toInt := by
  by_contra hcon
  have := Valid.V_gt_of_hi_gt_f64 F64.roundFacts ht hc (by omega)
  omega

theorem le_hi_of_le_V {t : TwoFloat} (ht : t.Valid) {c : F64} (hc : c.WF) (h : c.toInt ≤ t.V) :
    c.toInt ≤ t.hi.toInt := by
  by_contra hcon
  have := Valid.V_lt_of_hi_lt_f64 F64.roundFacts ht hc (by omega)
  omega

theorem wf_709 (s : Bool) : (fin s (709 * F64.unit)).WF := by cases s <;> decide +kernel

/-- **exp underflow, value level (the code's own threshold −709).** -/
theorem exp_underflow_value (x : TwoFloat) (hv : x.Valid) (h : x.V ≤ -(709 * (F64.unit : Int))) :
    TwoFloat.exp x = ⟨F64.zero, F64.zero⟩ := by
  have hc : (fin true (709 * F64.unit)).toInt = -(709 * (F64.unit : Int)) := by
    show -((709 * F64.unit : Nat) : Int) = _; push_cast; rfl
  have h1 : (x.hi <=. explog.EXP_LOWER_LIMIT) = true := by
    rw [PF.rle_eq, PF.EXP_LOWER_val, le_iff_toInt hv.1 rfl]
    exact hi_le_of_V_le hv (wf_709 true) (by rw [hc]; exact h)
  rw [C14.exp_le_lower x h1, C14.zero_words]

/-- the property's wording: `val x ≤ −750 → exp x = 0` (both words `+0`) -/
theorem exp_le_m750 (x : TwoFloat) (hv : x.Valid) (h : x.V ≤ -(750 * (F64.unit : Int))) :
    TwoFloat.exp x = ⟨F64.zero, F64.zero⟩ :=
  exp_underflow_value x hv (by have := F64.unit_pos; omega)

/-- **exp overflow, value level (the code's own threshold 709).** -/
theorem exp_overflow_value (x : TwoFloat) (hv : x.Valid) (h : 709 * (F64.unit : Int) ≤ x.V) :
    TwoFloat.exp x = ⟨F64.INFINITY, F64.zero⟩ := by
  have hc : (fin false (709 * F64.unit)).toInt = 709 * (F64.unit : Int) := by
    show ((709 * F64.unit : Nat) : Int) = _; push_cast; rfl
  have h1 : (x.hi >=. explog.EXP_UPPER_LIMIT) = true := by
    rw [PF.rge_eq', PF.EXP_UPPER_val, ge_iff_toInt hv.1 rfl]
    exact le_hi_of_le_V hv (wf_709 false) (by rw [hc]; exact h)
  rw [C14.exp_ge_upper x h1]; rfl

/-- the property's wording: `val x ≥ 710 → exp x` has a non-finite high word (and is not valid) -/
theorem exp_ge_710 (x : TwoFloat) (hv : x.Valid) (h : 710 * (F64.unit : Int) ≤ x.V) :
    (TwoFloat.exp x).hi.is_finite = false ∧ (TwoFloat.exp x).is_valid = false := by
  rw [exp_overflow_value x hv (by have := F64.unit_pos; omega)]
  decide +kernel

theorem wf_1074 : (fin true (1074 * F64.unit)).WF := by decide +kernel
theorem wf_1023 : (fin false (1023 * F64.unit)).WF := by decide +kernel

/-- **exp2 underflow, value level (the code's own threshold: strictly below −1074).** -/
theorem exp2_underflow_value (x : TwoFloat) (hv : x.Valid) (h : x.V < -(1074 * (F64.unit : Int))) :
    TwoFloat.exp2 x = ⟨F64.zero, F64.zero⟩ := by
  have hc : (fin true (1074 * F64.unit)).toInt = -(1074 * (F64.unit : Int)) := by
    show -((1074 * F64.unit : Nat) : Int) = _; push_cast; rfl
  have h1 : ROrd.isLt (base.impl_PartialOrd_f64_for_TwoFloat.partial_cmp x (F64.neg (f64lit 0x4090c80000000000))) = true := by
    rw [C14p.lit_m1074]
    exact (C06.lt_f64_exact hv wf_1074 rfl).2 (by rw [hc]; exact h)
  rw [C14.exp2_underflow x h1, C14.zero_words]

/-- the property's wording: `val x ≤ −1080 → exp2 x = 0` -/
theorem exp2_le_m1080 (x : TwoFloat) (hv : x.Valid) (h : x.V ≤ -(1080 * (F64.unit : Int))) :
    TwoFloat.exp2 x = ⟨F64.zero, F64.zero⟩ :=
  exp2_underflow_value x hv (by have := F64.unit_pos; omega)

/-- **exp2 overflow, value level (the code's own threshold 1023).** -/
theorem exp2_overflow_value (x : TwoFloat) (hv : x.Valid) (h : 1023 * (F64.unit : Int) ≤ x.V) :
    TwoFloat.exp2 x = ⟨F64.INFINITY, F64.INFINITY⟩ := by
  have hc1 : (fin true (1074 * F64.unit)).toInt = -(1074 * (F64.unit : Int)) := by
    show -((1074 * F64.unit : Nat) : Int) = _; push_cast; rfl
  have hc2 : (fin false (1023 * F64.unit)).toInt = 1023 * (F64.unit : Int) := by
    show ((1023 * F64.unit : Nat) : Int) = _; push_cast; rfl
  have hU := F64.unit_pos
  have h1 : ROrd.isLt (base.impl_PartialOrd_f64_for_TwoFloat.partial_cmp x (F64.neg (f64lit 0x4090c80000000000))) = false := by
    rw [C14p.lit_m1074, Bool.eq_false_iff]
    intro hcon
    have := (C06.lt_f64_exact hv wf_1074 rfl).1 hcon
    rw [hc1] at this; omega
  have h2 : ROrd.isGe (base.impl_PartialOrd_f64_for_TwoFloat.partial_cmp x (f64lit 0x408ff80000000000)) = true := by
    rw [C14p.lit_1023]
    exact (C06.ge_f64_exact hv wf_1023 rfl).2 (by rw [hc2]; exact h)
  rw [C14.exp2_overflow x h1 h2]; rfl

/-- the property's wording: `val x ≥ 1024 → exp2 x` has a non-finite high word -/
theorem exp2_ge_1024 (x : TwoFloat) (hv : x.Valid) (h : 1024 * (F64.unit : Int) ≤ x.V) :
    (TwoFloat.exp2 x).hi.is_finite = false ∧ (TwoFloat.exp2 x).is_valid = false := by
  rw [exp2_overflow_value x hv (by have := F64.unit_pos; omega)]
  decide +kernel

example : TwoFloat.exp ⟨fin true (800 * F64.unit), fin false 1⟩ = ⟨F64.zero, F64.zero⟩ :=
  exp_le_m750 _ (by decide +kernel) (by decide +kernel)
example : (TwoFloat.exp2 ⟨fin false (2000 * F64.unit), fin true 0⟩).hi.is_finite = false :=
  (exp2_ge_1024 _ (by decide +kernel) (by decide +kernel)).1

end

section
open F64 TwoFloat

/-! ### powf with a negative base: integrality and parity of the exponent, at the value level -/

/-- the fractional-part test of the code on one finite word: non-zero iff the word is not an integer -/
theorem frac_ne_zero_iff (s : Bool) (n : Nat) :
    ((F64.modf (fin s n)).1 !=. f64lit 0) = true ↔ ¬ F64.unit ∣ n := by
  have hU := F64.unit_pos
  show (!(F64.eq (fin s (n - n / F64.unit * F64.unit)) (f64lit 0))) = true ↔ _
  rw [Ident.f64lit_zero, Bool.not_eq_true', Bool.eq_false_iff, Ne, F64.eq_zero_iff rfl, toInt_eq_zero_iff,
    Nat.dvd_iff_mod_eq_zero]
  have := Nat.div_add_mod n F64.unit
  have h2 : n / F64.unit * F64.unit = F64.unit * (n / F64.unit) := Nat.mul_comm _ _
  omega

/-- **integrality of a valid double-double is integrality of both words**: if `V` is an integer then either
the low word is zero and the high word is `V`, or the high word is an EVEN integer and the low word an integer -/
theorem words_integral {y : TwoFloat} (hy : y.Valid) (h : (F64.unit : Int) ∣ y.V) :
    (y.lo.toInt = 0 ∧ y.hi.toInt = y.V) ∨
      ((2 * F64.unit : Int) ∣ y.hi.toInt ∧ (F64.unit : Int) ∣ y.lo.toInt) := by
  have hhi := hy.hi_toInt
  have hV : y.V = y.hi.toInt + y.lo.toInt := rfl
  have hUe : F64.unit = 2 ^ 1074 := F64.unit_eq
  rcases Nat.lt_or_ge y.V.natAbs (2 ^ 53 * F64.unit) with hlt | hge
  · left
    have hrep : RepI y.V := by
      obtain ⟨k, hk⟩ := h
      have : y.V.natAbs = k.natAbs * 2 ^ 1074 := by
        rw [hk, Int.natAbs_mul, Int.natAbs_natCast, hUe, Nat.mul_comm]
      unfold RepI
      rw [this]
      apply rep_mul_pow_of_lt
      rw [this, hUe] at hlt
      exact Nat.lt_of_mul_lt_mul_right hlt
    rw [rnI_of_repI hrep] at hhi
    exact ⟨by omega, hhi⟩
  · right
    have hna : y.hi.toInt.natAbs = rn53 y.V.natAbs := by rw [hhi, natAbs_rnI]
    have hbig : 2 ^ 52 * 2 ^ 1075 ≤ y.hi.toInt.natAbs := by
      rw [hna, ← Nat.pow_add]
      apply pow_le_rn53
      rw [hUe, ← Nat.pow_add] at hge
      exact hge
    have hrep : Rep y.hi.toInt.natAbs := by rw [hna]; exact rn53_rep _
    have hd : 2 ^ 1075 ∣ y.hi.toInt.natAbs := hrep.dvd_of_le hbig
    have hd' : (2 * F64.unit : Int) ∣ y.hi.toInt := by
      rw [← Int.natAbs_dvd_natAbs]
      have : (2 * (F64.unit : Int)).natAbs = 2 ^ 1075 := by
        rw [Int.natAbs_mul, Int.natAbs_natCast, hUe]; rfl
      rw [this]; exact hd
    refine ⟨hd', ?_⟩
    have h1 : (F64.unit : Int) ∣ y.hi.toInt := Dvd.dvd.trans (Dvd.intro_left 2 rfl) hd'
    have : y.lo.toInt = y.V - y.hi.toInt := by omega
    rw [this]; exact Int.dvd_sub h h1

/-- the code's integrality test `fract(hi) != 0 || fract(lo) != 0` decides integrality of the exact value -/
theorem nonint_test_iff {y : TwoFloat} (hy : y.Valid) :
    (((F64.modf y.hi).1 !=. f64lit 0) || ((F64.modf y.lo).1 !=. f64lit 0)) = true ↔ ¬ (F64.unit : Int) ∣ y.V := by
  obtain ⟨s, a, ha⟩ := F64.is_finite_iff.mp hy.1
  obtain ⟨t, b, hb⟩ := F64.is_finite_iff.mp hy.2.1
  have hA : (fin s a).toInt.natAbs = a := by cases s <;> simp [toInt]
  have hB : (fin t b).toInt.natAbs = b := by cases t <;> simp [toInt]
  have dA : (F64.unit : Int) ∣ (fin s a).toInt ↔ F64.unit ∣ a := by
    rw [← Int.natAbs_dvd_natAbs, Int.natAbs_natCast, hA]
  have dB : (F64.unit : Int) ∣ (fin t b).toInt ↔ F64.unit ∣ b := by
    rw [← Int.natAbs_dvd_natAbs, Int.natAbs_natCast, hB]
  rw [Bool.or_eq_true, ha, hb, frac_ne_zero_iff, frac_ne_zero_iff]
  constructor
  · intro h hd
    rcases words_integral hy hd with ⟨h0, h1⟩ | ⟨h2, h1⟩
    · rw [ha, hb] at *
      have hb0 : b = 0 := by rw [← hB, h0]; rfl
      rcases h with h | h
      · exact h (dA.1 (by rw [h1]; exact hd))
      · exact h (by rw [hb0]; exact Nat.dvd_zero _)
    · rw [ha, hb] at *
      rcases h with h | h
      · exact h (dA.1 (Dvd.dvd.trans (Dvd.intro_left 2 rfl) h2))
      · exact h (dB.1 h1)
  · intro h
    by_contra hc
    rw [not_or, not_not, not_not] at hc
    apply h
    show (F64.unit : Int) ∣ y.hi.toInt + y.lo.toInt
    rw [ha, hb]
    exact Int.dvd_add (dA.2 hc.1) (dB.2 hc.2)

/-- `x != 0` and the sign test for a valid negative base -/
theorem neg_base_tests {x : TwoFloat} (hx : x.Valid) (hneg : x.V < 0) :
    base.impl_PartialEq_f64_for_TwoFloat.eq x (f64lit 0) = false ∧ TwoFloat.is_sign_positive x = false := by
  have hh : x.hi.toInt < 0 := (hx.hi_neg_iff F64.roundFacts).2 hneg
  constructor
  · rw [Bool.eq_false_iff]
    intro h
    unfold base.impl_PartialEq_f64_for_TwoFloat.eq at h
    rw [Bool.and_eq_true] at h
    have := h.1
    rw [Ident.f64lit_zero, req_eq, F64.eq_zero_iff hx.1] at this
    omega
  · unfold TwoFloat.is_sign_positive F64.is_sign_positive
    rw [(F64.is_sign_negative_iff_toInt hx.1 (by omega)).2 hh]; rfl

theorem ne_zero_test {y : TwoFloat} (hy : y.Valid) (h : y.V ≠ 0) :
    base.impl_PartialEq_f64_for_TwoFloat.eq y (f64lit 0) = false := by
  rw [Bool.eq_false_iff]
  intro hc
  unfold base.impl_PartialEq_f64_for_TwoFloat.eq at hc
  rw [Bool.and_eq_true, Ident.f64lit_zero, req_eq, req_eq, F64.eq_zero_iff hy.1, F64.eq_zero_iff hy.2.1] at hc
  exact h (by show y.hi.toInt + y.lo.toInt = 0; omega)

/-- **ITEM 5 (powf, non-integer exponent).** negative base, exponent whose exact value is not an integer: `NAN` -/
theorem powf_neg_base_nonint_value (x y : TwoFloat) (hx : x.Valid) (hy : y.Valid) (hneg : x.V < 0)
    (hni : ¬ (F64.unit : Int) ∣ y.V) : TwoFloat.powf x y = TwoFloat.NAN := by
  obtain ⟨h1, h2⟩ := neg_base_tests hx hneg
  have h3 : y.V ≠ 0 := fun h => hni (by rw [h]; exact Int.dvd_zero _)
  exact C14.powf_neg_base_nonint x y h1 (ne_zero_test hy h3) h2 ((nonint_test_iff hy).2 hni)

theorem trunc_of_dvd (s : Bool) {n : Nat} (h : F64.unit ∣ n) : F64.trunc (fin s n) = fin s n := by
  show fin s (n / F64.unit * F64.unit) = _
  rw [Nat.div_mul_cancel h]

/-- the parity test of the code on an integer word -/
theorem parity_test (s : Bool) (n : Nat) :
    (F64.rem (fin s n) (f64lit 0x4000000000000000) ==. f64lit 0) = decide (2 * F64.unit ∣ n) := by
  have hU := F64.unit_pos
  show F64.eq (F64.rem (fin s n) (f64lit 0x4000000000000000)) (f64lit 0) = _
  rw [PF.lit_two, Ident.f64lit_zero]
  show F64.eq (if 2 * F64.unit = 0 then nan else fin s (n % (2 * F64.unit))) (fin false 0) = _
  rw [if_neg (by omega), Bool.eq_iff_iff, F64.eq_zero_iff rfl, toInt_eq_zero_iff, decide_eq_true_eq,
    Nat.dvd_iff_mod_eq_zero]

/-- the code's parity test (on the lowest non-zero word) decides the parity of the integer exact value -/
theorem parity_key (s t : Bool) (a b : Nat) (hy : (⟨fin s a, fin t b⟩ : TwoFloat).Valid) (n : Int)
    (hn : (⟨fin s a, fin t b⟩ : TwoFloat).V = n * (F64.unit : Int)) :
    (F64.rem (if (F64.trunc (fin t b) ==. f64lit 0) = true then F64.trunc (fin s a) else F64.trunc (fin t b))
      (f64lit 0x4000000000000000) ==. f64lit 0) = decide (n % 2 = 0) := by
  have hU := F64.unit_pos
  have hd : (F64.unit : Int) ∣ (⟨fin s a, fin t b⟩ : TwoFloat).V := ⟨n, by rw [hn, Int.mul_comm]⟩
  have hA : (fin s a).toInt.natAbs = a := by cases s <;> simp [toInt]
  have hB : (fin t b).toInt.natAbs = b := by cases t <;> simp [toInt]
  have hyV : (⟨fin s a, fin t b⟩ : TwoFloat).V = (fin s a).toInt + (fin t b).toInt := rfl
  have hpar : ∀ z : Int, ((2 * F64.unit : Int) ∣ z) ↔ 2 * F64.unit ∣ z.natAbs := by
    intro z
    rw [← Int.natAbs_dvd_natAbs]
    have : (2 * (F64.unit : Int)).natAbs = 2 * F64.unit := by
      rw [Int.natAbs_mul, Int.natAbs_natCast]; rfl
    rw [this]
  have hnpar : n % 2 = 0 ↔ (2 * F64.unit : Int) ∣ (⟨fin s a, fin t b⟩ : TwoFloat).V := by
    rw [hn]
    constructor
    · intro h
      obtain ⟨c, hc⟩ := Int.dvd_of_emod_eq_zero h
      exact ⟨c, by rw [hc]; ring⟩
    · rintro ⟨c, hc⟩
      have hUI : ((F64.unit : Nat) : Int) ≠ 0 := by
        have : (0:Int) < (F64.unit : Int) := by exact_mod_cast hU
        omega
      have : n = 2 * c := by
        apply Int.eq_of_mul_eq_mul_right hUI
        rw [hc]; ring
      omega
  have hz : ∀ u : Bool, (fin u 0 ==. f64lit 0) = true := by
    intro u; rw [Ident.f64lit_zero, req_eq, F64.eq_zero_iff rfl, toInt_zero]
  rcases words_integral hy hd with ⟨h0, hv⟩ | ⟨h2', h1'⟩
  · -- lo = 0, hi = V
    simp only at h0 hv
    have hb0 : b = 0 := by rw [← hB, h0]; rfl
    subst hb0
    have hda : F64.unit ∣ a := by
      have := hd; rw [← hv, ← Int.natAbs_dvd_natAbs, Int.natAbs_natCast, hA] at this; exact this
    rw [trunc_of_dvd t (Nat.dvd_zero _), trunc_of_dvd s hda, hz t, if_pos rfl, parity_test]
    apply decide_eq_decide.2
    rw [hnpar, ← hv, hpar, hA]
  · simp only at h2' h1'
    have hda : F64.unit ∣ a := by
      have : (F64.unit : Int) ∣ (fin s a).toInt := Dvd.dvd.trans (Dvd.intro_left 2 rfl) h2'
      rw [← Int.natAbs_dvd_natAbs, Int.natAbs_natCast, hA] at this; exact this
    have hdb : F64.unit ∣ b := by
      have := h1'; rw [← Int.natAbs_dvd_natAbs, Int.natAbs_natCast, hB] at this; exact this
    rw [trunc_of_dvd t hdb, trunc_of_dvd s hda]
    by_cases hb0 : b = 0
    · subst hb0
      rw [hz t, if_pos rfl, parity_test]
      apply decide_eq_decide.2
      rw [hnpar, hyV, toInt_zero, Int.add_zero, hpar, hA]
    · have : (fin t b ==. f64lit 0) = false := by
        rw [Ident.f64lit_zero, req_eq, Bool.eq_false_iff, Ne, F64.eq_zero_iff rfl, toInt_eq_zero_iff]; exact hb0
      rw [this, if_neg Bool.false_ne_true, parity_test]
      apply decide_eq_decide.2
      have e : 2 * F64.unit ∣ b ↔ (2 * F64.unit : Int) ∣ (fin t b).toInt := by rw [hpar, hB]
      rw [hnpar, hyV, e]
      constructor
      · intro h; exact Int.dvd_add h2' h
      · intro h
        have e2 : (fin t b).toInt = ((fin s a).toInt + (fin t b).toInt) - (fin s a).toInt := by omega
        rw [e2]; exact Int.dvd_sub h h2'

/-- **ITEM 5 (powf, integer exponent).** negative base, non-zero integer exponent `n`: the result is
`r = exp(y·ln|x|)` for even `n` and `−r` for odd `n` -/
theorem powf_neg_base_int_value (x y : TwoFloat) (hx : x.Valid) (hy : y.Valid) (hneg : x.V < 0)
    (n : Int) (hn : y.V = n * (F64.unit : Int)) (hn0 : n ≠ 0) :
    TwoFloat.powf x y =
      if n % 2 = 0 then TwoFloat.exp (y *. TwoFloat.ln (TwoFloat.abs x))
      else arithmetic.impl_Neg_for_TwoFloat.neg (TwoFloat.exp (y *. TwoFloat.ln (TwoFloat.abs x))) := by
  have hU := F64.unit_pos
  obtain ⟨h1, h2⟩ := neg_base_tests hx hneg
  have hd : (F64.unit : Int) ∣ y.V := ⟨n, by rw [hn, Int.mul_comm]⟩
  have h3 : y.V ≠ 0 := by
    rw [hn]; intro h
    rcases Int.mul_eq_zero.1 h with h | h
    · exact hn0 h
    · have : (0:Int) < (F64.unit : Int) := by exact_mod_cast hU
      omega
  have h4 : (((F64.modf y.hi).1 !=. f64lit 0) || ((F64.modf y.lo).1 !=. f64lit 0)) = false := by
    rw [Bool.eq_false_iff]; intro hc; exact (nonint_test_iff hy).1 hc hd
  rw [C14.powf_neg_base_int x y h1 (ne_zero_test hy h3) h2 h4]
  dsimp only
  have key : (F64.rem (if (F64.trunc y.lo ==. f64lit 0) = true then F64.trunc y.hi else F64.trunc y.lo)
      (f64lit 0x4000000000000000) ==. f64lit 0) = decide (n % 2 = 0) := by
    rcases y with ⟨yh, yl⟩
    obtain ⟨s, a, rfl⟩ := F64.is_finite_iff.mp hy.1
    obtain ⟨t, b, rfl⟩ := F64.is_finite_iff.mp hy.2.1
    exact parity_key s t a b hy n hn
  rw [key]
  by_cases hp : n % 2 = 0
  · rw [if_pos hp, decide_eq_true hp, if_pos rfl]
  · rw [if_neg hp, decide_eq_false hp, if_neg Bool.false_ne_true]

/-- … and the exponent `0` gives `1` (C14.powf_zero_exponent at the value level) -/
theorem powf_neg_base_zero_value (x y : TwoFloat) (hx : x.Valid) (hy : y.Valid) (hneg : x.V < 0)
    (h0 : y.V = 0) : TwoFloat.powf x y = ⟨F64.one, F64.zero⟩ := by
  obtain ⟨h1, -⟩ := neg_base_tests hx hneg
  have h2 : base.impl_PartialEq_f64_for_TwoFloat.eq y (f64lit 0) = true := by
    have hh : y.hi.toInt = 0 := (hy.hi_zero_iff F64.roundFacts).2 h0
    have hl : y.lo.toInt = 0 := by
      have : y.V = y.hi.toInt + y.lo.toInt := rfl
      omega
    unfold base.impl_PartialEq_f64_for_TwoFloat.eq
    rw [Bool.and_eq_true, Ident.f64lit_zero, req_eq, req_eq, F64.eq_zero_iff hy.1, F64.eq_zero_iff hy.2.1]
    exact ⟨hh, hl⟩
  rw [C14.powf_zero_exponent x y h1 h2, C14.one_words]

example : TwoFloat.powf ⟨fin true (2 * F64.unit), fin false 0⟩ ⟨fin false (2 ^ 1073), fin false 0⟩ = TwoFloat.NAN :=
  powf_neg_base_nonint_value _ _ (by decide +kernel) (by decide +kernel) (by decide +kernel) (by decide +kernel)

example : TwoFloat.powf ⟨fin true (2 * F64.unit), fin false 0⟩ ⟨fin false (3 * F64.unit), fin true 0⟩ =
    arithmetic.impl_Neg_for_TwoFloat.neg (TwoFloat.exp ((⟨fin false (3 * F64.unit), fin true 0⟩ : TwoFloat) *.
      TwoFloat.ln (TwoFloat.abs ⟨fin true (2 * F64.unit), fin false 0⟩))) := by
  have := powf_neg_base_int_value ⟨fin true (2 * F64.unit), fin false 0⟩ ⟨fin false (3 * F64.unit), fin true 0⟩
    (by decide +kernel) (by decide +kernel) (by decide +kernel) 3 (by decide +kernel) (by decide)
  rw [this, if_neg (by decide)]

end

section
open F64 TwoFloat

/-! ## ITEM 6. `new_div` preserves the invariant for ALL well-formed operands; `from_isize` / `from_usize` -/

/-- dividing a signed zero: a zero, or NaN -/
theorem div_neg_zero_cases (b : F64) :
    (F64.div (fin true 0) b).is_finite = false ∨ (F64.div (fin true 0) b).toInt = 0 := by
  cases b with
  | nan => left; rfl
  | inf t => right; show (fin (true != t) 0).toInt = 0; exact toInt_zero _
  | fin t n =>
    by_cases hn : n = 0
    · left; subst hn; rfl
    · right
      show (if n = 0 then (if (0:Nat) = 0 then nan else inf (true != t))
        else if (0:Nat) = 0 then fin (true != t) 0 else pack (true != t) (roundQ (0 * 2^1074) n)).toInt = 0
      rw [if_neg hn, if_pos rfl]; exact toInt_zero _

/-- **`new_div a b` satisfies the C01 invariant for all well-formed doubles `a`, `b`** (any magnitudes, zeros,
infinities, NaN) — `new_div a b` is `TwoFloat::from(a) / b` except when the residual is `−0` -/
theorem new_div_inv_all (a b : F64) (hwa : a.WF) :
    (TwoFloat.new_div a b).Inv ∧ (TwoFloat.new_div a b).WF := by
  have hE : TwoFloat.new_div a b =
      arithmetic.fast_two_sum (F64.div a b)
        (F64.div (F64.sub (F64.sub a (TwoFloat.new_mul (F64.div a b) b).hi)
          (TwoFloat.new_mul (F64.div a b) b).lo) b) := rfl
  generalize hd : F64.sub (F64.sub a (TwoFloat.new_mul (F64.div a b) b).hi)
          (TwoFloat.new_mul (F64.div a b) b).lo = d at hE
  have hdw : d.WF := by rw [← hd]; exact sub_WF _ _
  by_cases hz : d = fin true 0
  · -- residual −0: the correction is a zero or NaN
    rw [hE, hz]
    apply C01.fast_two_sum_inv _ _ (div_WF _ _) (div_WF _ _)
    rcases div_neg_zero_cases b with h | h
    · left; intro hc; rw [h] at hc; exact absurd hc.2 (by decide)
    · right; rw [h]; simp
  · -- otherwise `d + (+0) = d` and `new_div a b = (a, +0) / b`
    have hadd : F64.add d (fin false 0) = d := by
      cases hdf : d.is_finite with
      | true => rw [add_pzero_toInt hdf hdw, if_neg hz]
      | false =>
        cases d with
        | nan => rfl
        | inf s => rfl
        | fin s n => cases hdf
    have hE2 : TwoFloat.new_div a b = arithmetic.impl_Div_rf64_for_rTwoFloat.div ⟨a, fin false 0⟩ b := by
      rw [hE, div_tf_eq]
      simp only
      rw [hd, hadd]
    rw [hE2]
    apply TwoFloat.div_tf_inv_all b ⟨hwa, WF_zero false⟩
    cases haf : a.is_finite with
    | true => exact Or.inl (pair_zero_spec haf hwa).2.1
    | false => exact Or.inr haf

example : (TwoFloat.new_div (fin false 1) (fin false (3 * 2 ^ 1074))).Inv :=
  (new_div_inv_all _ _ (by decide +kernel)).1

/-! ### `FromPrimitive::from_isize` / `from_usize` go through the 64-bit conversions (`usize = u64` in the model) -/

theorem cast_isize_i64 (n : Isize) (h : n.inRange = true) : (RCast.cast n : I64) = ⟨n.v⟩ := by
  show (⟨IntN.wrapV true 64 n.v⟩ : I64) = ⟨n.v⟩
  simp only [IntN.inRange, IntN.fits, IntN.minV, IntN.maxV, Bool.and_eq_true, decide_eq_true_eq, if_true] at h
  unfold IntN.wrapV
  have e1 : ((2 ^ 64 : Nat) : Int) = 18446744073709551616 := by decide
  have e2 : ((2 ^ (64 - 1) : Nat) : Int) = 9223372036854775808 := by decide
  rw [e2] at h
  simp only [e1, e2, Bool.true_and, decide_eq_true_eq]
  congr 1
  split_ifs <;> omega

theorem cast_usize_u64 (n : Usize) (h : n.inRange = true) : (RCast.cast n : U64) = ⟨n.v⟩ := by
  show (⟨IntN.wrapV false 64 n.v⟩ : U64) = ⟨n.v⟩
  simp only [IntN.inRange, IntN.fits, IntN.minV, IntN.maxV, Bool.and_eq_true, decide_eq_true_eq,
    Bool.false_eq_true, if_false] at h
  unfold IntN.wrapV
  have e1 : ((2 ^ 64 : Nat) : Int) = 18446744073709551616 := by decide
  rw [e1] at h
  simp only [e1, Bool.false_and, Bool.false_eq_true, if_false]
  congr 1; omega

/-- `from_isize n = Some(TwoFloat::from(n as i64))`, exact and valid for every `isize` -/
theorem from_isize (n : Isize) (h : n.inRange = true) :
    ∃ t, num_integration.impl_FromPrimitive_for_TwoFloat.from_isize n = some t ∧ Conv.ExactBig t n.v := by
  refine ⟨convert.impl_From_i64_for_TwoFloat.from ⟨n.v⟩, ?_, C09.from_i64 ⟨n.v⟩ h⟩
  show num_integration.impl_FromPrimitive_for_TwoFloat.from_i64 (RCast.cast n : I64) = _
  rw [cast_isize_i64 n h]; rfl

/-- `from_usize n = Some(TwoFloat::from(n as u64))`, exact and valid for every `usize` -/
theorem from_usize (n : Usize) (h : n.inRange = true) :
    ∃ t, num_integration.impl_FromPrimitive_for_TwoFloat.from_usize n = some t ∧ Conv.ExactBig t n.v := by
  refine ⟨convert.impl_From_u64_for_TwoFloat.from ⟨n.v⟩, ?_, C09.from_u64 ⟨n.v⟩ h⟩
  show num_integration.impl_FromPrimitive_for_TwoFloat.from_u64 (RCast.cast n : U64) = _
  rw [cast_usize_u64 n h]; rfl

theorem from_isize_pf (n : Isize) (h : n.inRange = true) :
    num_integration.impl_FromPrimitive_for_TwoFloat.from_isize.pf n = true := by
  show convert.impl_From_i64_for_TwoFloat.from.pf (RCast.cast n : I64) = true
  rw [cast_isize_i64 n h]; exact C09.from_i64_pf ⟨n.v⟩ h

theorem from_usize_pf (n : Usize) (h : n.inRange = true) :
    num_integration.impl_FromPrimitive_for_TwoFloat.from_usize.pf n = true := by
  show convert.impl_From_u64_for_TwoFloat.from.pf (RCast.cast n : U64) = true
  rw [cast_usize_u64 n h]; exact C09.from_u64_pf ⟨n.v⟩ h

example : ∃ t, num_integration.impl_FromPrimitive_for_TwoFloat.from_isize ⟨-9223372036854775807⟩ = some t ∧
    t.V = -9223372036854775807 * Conv.U ∧ t.Valid := by
  obtain ⟨t, h1, h2⟩ := from_isize ⟨-9223372036854775807⟩ (by decide)
  exact ⟨t, h1, h2.V, h2.valid⟩

end

section


/-! ## ITEM 7. `powi x (−n) = recip (powi x n)` for EVERY `0 < n ≤ i32::MAX` -/

/-- re-export of `C13.powi_neg_eq_recip'` (which needs no upper bound on `n` at all) -/
theorem powi_neg_eq_recip_all (x : TwoFloat) (n : I32) (hpos : 0 < n.v) (_hmax : n.v ≤ 2147483647) :
    TwoFloat.powi x (IntN.neg n) = TwoFloat.recip (TwoFloat.powi x n) :=
  C13.powi_neg_eq_recip' x n hpos

/-- the same with the exponent written as an integer -/
theorem powi_neg_eq_recip_int (x : TwoFloat) (k : Int) (hpos : 0 < k) (_hmax : k ≤ 2147483647) :
    TwoFloat.powi x (⟨-k⟩ : I32) = TwoFloat.recip (TwoFloat.powi x (⟨k⟩ : I32)) :=
  C13.powi_neg_eq_recip' x ⟨k⟩ hpos

example (x : TwoFloat) : TwoFloat.powi x (⟨-2147483647⟩ : I32) = TwoFloat.recip (TwoFloat.powi x (⟨2147483647⟩ : I32)) :=
  powi_neg_eq_recip_int x 2147483647 (by decide) (by decide)
example (x : TwoFloat) : TwoFloat.powi x (⟨-1⟩ : I32) = TwoFloat.recip (TwoFloat.powi x (⟨1⟩ : I32)) :=
  powi_neg_eq_recip_int x 1 (by decide) (by decide)

end

section
open F64 TwoFloat PowiBound TrigBound ATrigBound C16t C16u

/-! ## ITEM 8. `tan` near the poles

Notation of C16t/C16u: `val t : ℚ`, `rval t : ℝ` the exact value of a pair; `r := (quadrant x).1` the REDUCED ARGUMENT
computed by the crate, `(quadrant x).2 ∈ {0,1,2,3}` the quadrant.

What is proved here:
* `tan_eq_of_quadrant`     : the dispatch in terms of the quadrant number.
* `tan_nan_at_reduced_zero`: ODD quadrant and reduced argument a zero pair ⇒ `tan x = (NaN, NaN)` — the exact failure
                             of `C16u.tan_pole_counterexample`, for EVERY such argument.
* `tan_even_valid`, `tan_odd_valid`: in range, the result is a valid (finite) pair in the even quadrants, and in the odd
                             quadrants as soon as `|r| ≥ 2^-1014`; hence `tan_not_finite_iff`.
* `tan_vs_reduced_even/odd`: accuracy against the crate's OWN reduced argument, relative `2^-48`, for ALL those `r`
                             (a crude bound on the quotient `−1/restricted_tan r` near the poles).
* `tan_bound_78`           : `C16u.tan_bound` with the pole hypothesis lowered from `|cos x| ≥ 2^-69` to `2^-78`.
See the final report for why "`r ≠ 0`" alone is out of reach (and probably needs a 2^20-case enumeration). -/

theorem tan_eq_of_quadrant (x : TwoFloat) (hiv : TwoFloat.is_valid x = true) :
    TwoFloat.tan x =
      if (trigonometry.quadrant x).2.v = 0 ∨ (trigonometry.quadrant x).2.v = 2 then
        trigonometry.restricted_tan (trigonometry.quadrant x).1
      else arithmetic.impl_Div_rTwoFloat_for_rf64.div (F64.neg (f64lit 0x3ff0000000000000))
        (trigonometry.restricted_tan (trigonometry.quadrant x).1) := by
  rw [C16.tan_valid x hiv]
  simp only [i8_eq]
  have e0 : ((0 : I8)).v = 0 := rfl
  have e2 : ((2 : I8)).v = 2 := rfl
  simp only [e0, e2, Bool.or_eq_true, decide_eq_true_eq]
  rfl

/-- `restricted_tan` of a zero pair is `(+0, +0)`, and `−1.0 / (+0, +0)` is `(NaN, NaN)` -/
theorem neg_one_div_restricted_tan_zero (s u : Bool) :
    arithmetic.impl_Div_rTwoFloat_for_rf64.div (F64.neg (f64lit 0x3ff0000000000000))
      (trigonometry.restricted_tan ⟨fin s 0, fin u 0⟩) = ⟨F64.nan, F64.nan⟩ := by
  cases s <;> cases u <;> decide +kernel

/-- **the failure set contains every odd-quadrant argument whose reduced argument is a zero** -/
theorem tan_nan_at_reduced_zero (x : TwoFloat) (hiv : TwoFloat.is_valid x = true)
    (hodd : (trigonometry.quadrant x).2.v = 1 ∨ (trigonometry.quadrant x).2.v = 3)
    (hv : (trigonometry.quadrant x).1.Valid) (h0 : (trigonometry.quadrant x).1.V = 0) :
    TwoFloat.tan x = ⟨F64.nan, F64.nan⟩ := by
  rw [tan_eq_of_quadrant x hiv, if_neg (by omega)]
  obtain ⟨s, u, hz⟩ := zero_words hv h0
  rw [hz]; exact neg_one_div_restricted_tan_zero s u

example : TwoFloat.tan consts.FRAC_PI_2 = ⟨F64.nan, F64.nan⟩ :=
  tan_nan_at_reduced_zero _ (by decide +kernel) (by decide +kernel) (by decide +kernel) (by decide +kernel)

/-- `-1.0 / T` (f64 / TwoFloat) for `2^-1016 ≤ |T.hi| ≤ 2^964`: valid, `|−1 − q·T| ≤ 2^-102`
(`C16u.neg_one_div_val` on the full range of the division lemmas) -/
theorem neg_one_div_val' {T : TwoFloat} (hv : T.Valid)
    (hB : 2 ^ 58 ≤ T.hi.toInt.natAbs ∧ T.hi.toInt.natAbs ≤ 2 ^ 2038) :
    (arithmetic.impl_Div_rTwoFloat_for_rf64.div (F64.neg (f64lit 0x3ff0000000000000)) T).Valid ∧
    (arithmetic.impl_Div_rTwoFloat_for_rf64.div (F64.neg (f64lit 0x3ff0000000000000)) T).WF ∧
    |-1 - val (arithmetic.impl_Div_rTwoFloat_for_rf64.div (F64.neg (f64lit 0x3ff0000000000000)) T) * val T|
      ≤ 1 / 2 ^ 102 := by
  obtain ⟨f1, f2, f3, -, -⟩ := neg_one_facts
  have b1 : (2 : Int) ^ 58 ≤ |T.hi.toInt| := by rw [Int.abs_eq_natAbs]; exact_mod_cast hB.1
  have b2 : |T.hi.toInt| ≤ (2 : Int) ^ 2038 := by rw [Int.abs_eq_natAbs]; exact_mod_cast hB.2
  have hU : |(-2 ^ 1074 : Int) * (unit : Int)| = 2 ^ 1074 * 2 ^ 1074 := by
    rw [unit_cast_eq, neg_mul, abs_neg, abs_of_pos (by positivity)]
  have hU1 : |(-2 ^ 1074 : Int)| = 2 ^ 1074 := by rw [abs_neg, abs_of_pos (by positivity)]
  have R : DivRange (F64.neg (f64lit 0x3ff0000000000000)).toInt T.hi.toInt := by
    rw [f3]
    refine ⟨by rw [hU1]; norm_num, by rw [hU1]; norm_num, by omega, ?_, ?_⟩
    · rw [hU]; omega
    · rw [hU]; omega
  obtain ⟨hV, hW⟩ := TwoFloat.div_ft_valid_of_range f1 f2 hv R
  have hb := TwoFloat.div_ft_acc f1 f2 hv R (by rw [f3, hU]; omega) (by rw [f3, hU1]; norm_num)
  refine ⟨hV, hW, ?_⟩
  generalize arithmetic.impl_Div_rTwoFloat_for_rf64.div (F64.neg (f64lit 0x3ff0000000000000)) T = q at *
  rw [f3, unit_cast_eq] at hb
  have hq : (2 : ℚ) ^ 102 * |-(2 : ℚ) ^ 1074 * 2 ^ 1074 - q.V * T.V| ≤ |-(2 : ℚ) ^ 1074 * 2 ^ 1074| := by
    exact_mod_cast hb
  unfold val
  have hW0 : (0 : ℚ) < 2 ^ 1074 := by positivity
  generalize (2 : ℚ) ^ 1074 = W at *
  have e1 : (-1 : ℚ) - q.V / W * (T.V / W) = (-W * W - q.V * T.V) / (W * W) := by field_simp
  have e2 : |-W * W| = W * W := by rw [neg_mul, abs_neg]; exact abs_of_pos (mul_pos hW0 hW0)
  rw [e2] at hq
  rw [e1, abs_div, abs_of_pos (mul_pos hW0 hW0), div_le_iff₀ (mul_pos hW0 hW0)]
  have p : (0 : ℚ) < 2 ^ 102 := by positivity
  have : (2 : ℚ) ^ 102 * (1 / 2 ^ 102 * (W * W)) = W * W := by field_simp
  nlinarith


/-! ### `restricted_tan` against `Real.tan` with a purely RELATIVE error, for every valid `|r| ≤ 0.786` -/

theorem tan_innerZero : InnerZero trigonometry.TAN_COEFFS := by
  intro s u
  cases s <;> cases u <;> decide +kernel

/-- for tiny `a`, `tan a` is `a` up to relative `2^-50` -/
theorem tan_sub_self_small {a : ℝ} (ha : |a| ≤ 1 / 2 ^ 60) : |a - Real.tan a| ≤ 1 / 2 ^ 50 * |Real.tan a| := by
  have h1 : |a| ≤ 787 / 1000 := le_trans ha (by norm_num)
  have hp := tan_perturb (a := a) (b := 0) (δ := |a|) h1 (by norm_num) (by rw [sub_zero]) ha
  rw [Real.tan_zero, sub_zero] at hp
  have hp' : |Real.tan a| ≤ |a| * (1 + 1 / 2 ^ 50) := by
    refine le_trans hp (le_of_eq ?_); ring
  have hlo := abs_le_abs_tan (r := a) (le_trans ha (by norm_num))
  have hpi := Real.one_le_pi_div_two
  have hsm : |a| ≤ 1 / 2 := le_trans ha (by norm_num)
  -- same sign
  have key : |a - Real.tan a| = |Real.tan a| - |a| := by
    rcases le_total 0 a with h0 | h0
    · rw [abs_of_nonneg h0] at hsm
      have ht : a ≤ Real.tan a := Real.le_tan h0 (by linarith)
      rw [abs_of_nonpos (by linarith), abs_of_nonneg (by linarith), abs_of_nonneg h0]; ring
    · rw [abs_of_nonpos h0] at hsm
      have ht := Real.le_tan (x := -a) (by linarith) (by linarith)
      rw [Real.tan_neg] at ht
      rw [abs_of_nonneg (by linarith), abs_of_nonpos (by linarith), abs_of_nonpos h0]; ring
  rw [key]
  have : |a| * (1 + 1 / 2 ^ 50) = |a| + 1 / 2 ^ 50 * |a| := by ring
  have h3 : 1 / 2 ^ 50 * |a| ≤ 1 / 2 ^ 50 * |Real.tan a| := mul_le_mul_of_nonneg_left hlo (by positivity)
  linarith

/-- **`restricted_tan r` is within relative `2^-50` of `tan r`, for EVERY valid `|r| ≤ 0.786`** (no absolute term:
below `2^-540` the kernel returns `r` itself) -/
theorem restricted_tan_rel {r : TwoFloat} (hv : r.Valid) (hw : r.WF) (hhi : |val r| ≤ 393 / 500) :
    (trigonometry.restricted_tan r).Valid ∧ (trigonometry.restricted_tan r).WF ∧
    |rval (trigonometry.restricted_tan r) - Real.tan (rval r)| ≤ 1 / 2 ^ 50 * |Real.tan (rval r)| := by
  obtain ⟨hV, hW, hb⟩ := restricted_tan_real hv hw hhi
  refine ⟨hV, hW, ?_⟩
  by_cases hs : |val r| ≤ 1 / 2 ^ 540
  · -- deep: the result is r
    have hd := (restrictedM_deep tan_innerZero hv hw hs).2
    rw [← restricted_tan_eq] at hd
    have e : rval (trigonometry.restricted_tan r) = rval r := by unfold rval; rw [hd]
    rw [e]
    have hr : |rval r| ≤ 1 / 2 ^ 540 := by have := rval_le hs; push_cast at this; exact this
    exact tan_sub_self_small (le_trans hr (by norm_num))
  · have hs' : 1 / 2 ^ 540 < |val r| := not_le.1 hs
    have hr : (1 : ℝ) / 2 ^ 540 ≤ |rval r| := by
      rw [abs_rval]
      have := (Rat.cast_le (K := ℝ)).2 hs'.le
      push_cast at this ⊢; exact this
    have hr2 : |rval r| ≤ 393 / 500 := by have := rval_le hhi; push_cast at this; exact this
    have ht := abs_le_abs_tan (le_trans hr2 (by norm_num))
    have h1 : (1 : ℝ) / 2 ^ 949 ≤ 1 / 2 ^ 409 * |Real.tan (rval r)| := by
      have : (1 : ℝ) / 2 ^ 949 = 1 / 2 ^ 409 * (1 / 2 ^ 540) := by rw [div_mul_div_comm, one_mul, ← pow_add]
      rw [this]
      exact mul_le_mul_of_nonneg_left (le_trans hr ht) (by positivity)
    have h2 : (5 : ℝ) / 2 ^ 53 * |Real.tan (rval r)| + 1 / 2 ^ 409 * |Real.tan (rval r)|
        ≤ 1 / 2 ^ 50 * |Real.tan (rval r)| := by
      rw [← add_mul]
      exact mul_le_mul_of_nonneg_right (by norm_num) (abs_nonneg _)
    linarith

/-- pure arithmetic of the reciprocal branch with a purely relative error on `T` -/
theorem recip_arith {T q t : ℝ} (ht : t ≠ 0) (hT : |T - t| ≤ 1 / 2 ^ 50 * |t|)
    (hq : |-1 - q * T| ≤ 1 / 2 ^ 102) : |q - -(1 / t)| ≤ 1 / 2 ^ 48 * |1 / t| := by
  set τ := |t| with hτ
  have hτ0 : 0 < τ := abs_pos.2 ht
  have hTlo : τ * (1 - 1 / 2 ^ 50) ≤ |T| := by
    have := abs_add_le (t - T) T
    rw [sub_add_cancel, abs_sub_comm] at this
    have e : τ * (1 - 1 / 2 ^ 50) = τ - 1 / 2 ^ 50 * τ := by ring
    rw [e]; linarith
  have hT0 : 0 < |T| := lt_of_lt_of_le (by positivity) hTlo
  have hTne : T ≠ 0 := abs_pos.1 hT0
  have hinv : 1 / |T| ≤ (1 + 1 / 2 ^ 49) / τ := by
    rw [div_le_div_iff₀ hT0 hτ0]
    have : τ * 1 ≤ τ * ((1 - 1 / 2 ^ 50) * (1 + 1 / 2 ^ 49)) := mul_le_mul_of_nonneg_left (by norm_num) hτ0.le
    nlinarith
  have e : q - -(1 / t) = (q * T + 1) / T + (T - t) / (T * t) := by field_simp; ring
  rw [e]
  refine le_trans (abs_add_le _ _) ?_
  rw [abs_div, abs_div, abs_mul]
  have hq' : |q * T + 1| ≤ 1 / 2 ^ 102 := by
    rw [← abs_neg]; refine le_trans (le_of_eq ?_) hq; congr 1; ring
  have p1 : |q * T + 1| / |T| ≤ 1 / 2 ^ 102 * ((1 + 1 / 2 ^ 49) / τ) := by
    rw [div_eq_mul_one_div]
    exact mul_le_mul hq' hinv (by positivity) (by positivity)
  have p2 : |T - t| / (|T| * τ) ≤ 1 / 2 ^ 50 * ((1 + 1 / 2 ^ 49) / τ) := by
    rw [← div_div, div_le_iff₀ hτ0, div_eq_mul_one_div]
    have := mul_le_mul hT hinv (by positivity) (by positivity)
    refine le_trans this (le_of_eq ?_)
    field_simp
  have e1 : |1 / t| = 1 / τ := by rw [abs_div, abs_one]
  rw [e1]
  have hi0 : 0 ≤ 1 / τ := by positivity
  have n1 : (1 : ℝ) / 2 ^ 102 * (1 + 1 / 2 ^ 49) + 1 / 2 ^ 50 * (1 + 1 / 2 ^ 49) ≤ 1 / 2 ^ 48 := by norm_num
  have m1 := mul_le_mul_of_nonneg_right n1 hi0
  have e4 : (1 / 2 ^ 102 * (1 + 1 / 2 ^ 49) + 1 / 2 ^ 50 * (1 + 1 / 2 ^ 49)) * (1 / τ)
      = 1 / 2 ^ 102 * ((1 + 1 / 2 ^ 49) / τ) + 1 / 2 ^ 50 * ((1 + 1 / 2 ^ 49) / τ) := by ring
  rw [e4] at m1
  linarith

/-- the reciprocal branch on a reduced argument `2^-1014 ≤ |r| ≤ 0.786`: a valid pair within relative `2^-48` of
`−1/tan r` -/
theorem neg_recip_restricted_tan {r : TwoFloat} (hv : r.Valid) (hw : r.WF) (hhi : |val r| ≤ 393 / 500)
    (hlo : 1 / 2 ^ 1014 ≤ |val r|) :
    (arithmetic.impl_Div_rTwoFloat_for_rf64.div (F64.neg (f64lit 0x3ff0000000000000))
      (trigonometry.restricted_tan r)).Valid ∧
    |rval (arithmetic.impl_Div_rTwoFloat_for_rf64.div (F64.neg (f64lit 0x3ff0000000000000))
      (trigonometry.restricted_tan r)) - -(1 / Real.tan (rval r))| ≤ 1 / 2 ^ 48 * |1 / Real.tan (rval r)| := by
  obtain ⟨hvT, hwT, hT⟩ := restricted_tan_rel hv hw hhi
  have hr1 : (1 : ℝ) / 2 ^ 1014 ≤ |rval r| := by
    rw [abs_rval]
    have := (Rat.cast_le (K := ℝ)).2 hlo
    push_cast at this ⊢; exact this
  have hr2 : |rval r| ≤ 393 / 500 := by have := rval_le hhi; push_cast at this; exact this
  have ht := abs_le_abs_tan (le_trans hr2 (by norm_num))
  have ht1 : (1 : ℝ) / 2 ^ 1014 ≤ |Real.tan (rval r)| := le_trans hr1 ht
  have htne : Real.tan (rval r) ≠ 0 := abs_pos.1 (lt_of_lt_of_le (by positivity) ht1)
  -- |tan r| ≤ 6/5
  have hc := cos_ge_small (le_trans hr2 (by norm_num))
  have hcpos : 0 < Real.cos (rval r) := by linarith
  have ht2 : |Real.tan (rval r)| ≤ 6 / 5 := by
    rw [Real.tan_eq_sin_div_cos, abs_div, abs_of_pos hcpos, div_le_iff₀ hcpos]
    have h1 : |Real.sin (rval r)| ≤ |rval r| := Real.abs_sin_le_abs
    have : 6 / 5 * (69 / 100) ≤ 6 / 5 * Real.cos (rval r) := mul_le_mul_of_nonneg_left hc (by norm_num)
    have : (393 : ℝ) / 500 ≤ 6 / 5 * (69 / 100) := by norm_num
    linarith
  set Tt := trigonometry.restricted_tan r with hTt
  have hTsz : 1 / 2 ^ 1015 ≤ |rval Tt| ∧ |rval Tt| ≤ 2 := by
    constructor
    · have := abs_add_le (Real.tan (rval r) - rval Tt) (rval Tt)
      rw [sub_add_cancel, abs_sub_comm] at this
      have e : (1 : ℝ) / 2 ^ 1015 = 1 / 2 * (1 / 2 ^ 1014) := by
        rw [div_mul_div_comm, one_mul, ← pow_succ']
      have h5 : 1 / 2 ^ 50 * |Real.tan (rval r)| ≤ 1 / 2 * |Real.tan (rval r)| :=
        mul_le_mul_of_nonneg_right (by norm_num) (abs_nonneg _)
      rw [e]; linarith
    · have := abs_add_le (rval Tt - Real.tan (rval r)) (Real.tan (rval r))
      rw [sub_add_cancel] at this
      have h5 : 1 / 2 ^ 50 * |Real.tan (rval r)| ≤ 1 / 2 * |Real.tan (rval r)| :=
        mul_le_mul_of_nonneg_right (by norm_num) (abs_nonneg _)
      linarith
  have hTq1 : (1 : ℚ) / 2 ^ 1015 ≤ |val Tt| := by
    rw [← Rat.cast_le (K := ℝ), Rat.cast_abs]
    push_cast
    exact hTsz.1
  have hTq2 : |val Tt| ≤ 2 ^ 1 := by
    rw [← Rat.cast_le (K := ℝ), Rat.cast_abs]
    push_cast
    rw [pow_one]; exact hTsz.2
  have hrng := hi_range_gen hvT (k := 1015) (j := 1) (by norm_num) hTq1 hTq2
  obtain ⟨hvq, _, heq⟩ := neg_one_div_val' hvT
    ⟨hrng.1, le_trans hrng.2 (Nat.pow_le_pow_right (by norm_num) (by norm_num))⟩
  refine ⟨hvq, ?_⟩
  have heqR : |-1 - rval (arithmetic.impl_Div_rTwoFloat_for_rf64.div (F64.neg (f64lit 0x3ff0000000000000)) Tt)
      * rval Tt| ≤ 1 / 2 ^ 102 := by
    have := (Rat.cast_le (K := ℝ)).2 heq
    unfold rval
    push_cast at this ⊢
    exact this
  exact recip_arith htne hT heqR


/-! ### the result of `tan` against the crate's own reduced argument -/

theorem quadrant_num_range {x : TwoFloat} (hv : x.Valid) (hw : x.WF) (hhi : |val x| ≤ 2 ^ 20) :
    (trigonometry.quadrant x).2.v = 0 ∨ (trigonometry.quadrant x).2.v = 1 ∨
    (trigonometry.quadrant x).2.v = 2 ∨ (trigonometry.quadrant x).2.v = 3 := by
  obtain ⟨k, hq, -⟩ := quadrant_spec hv hw hhi
  rw [hq]
  show k % 4 = 0 ∨ k % 4 = 1 ∨ k % 4 = 2 ∨ k % 4 = 3
  omega

/-- even quadrants: always a valid pair, within relative `2^-50` of `tan r` -/
theorem tan_vs_reduced_even {x : TwoFloat} (hv : x.Valid) (hw : x.WF) (hhi : |val x| ≤ 2 ^ 20)
    (hev : (trigonometry.quadrant x).2.v = 0 ∨ (trigonometry.quadrant x).2.v = 2) :
    (TwoFloat.tan x).Valid ∧
    |rval (TwoFloat.tan x) - Real.tan (rval (trigonometry.quadrant x).1)|
      ≤ 1 / 2 ^ 50 * |Real.tan (rval (trigonometry.quadrant x).1)| := by
  have hiv : TwoFloat.is_valid x = true := (C07.is_valid_iff x hw).2 hv
  obtain ⟨k, -, hvr, hwr, hr, -⟩ := quadrant_spec hv hw hhi
  rw [tan_eq_of_quadrant x hiv, if_pos hev]
  obtain ⟨h1, -, h3⟩ := restricted_tan_rel hvr hwr hr
  exact ⟨h1, h3⟩

/-- odd quadrants, reduced argument `|r| ≥ 2^-1014`: a valid pair, within relative `2^-48` of `−1/tan r` -/
theorem tan_vs_reduced_odd {x : TwoFloat} (hv : x.Valid) (hw : x.WF) (hhi : |val x| ≤ 2 ^ 20)
    (hodd : (trigonometry.quadrant x).2.v = 1 ∨ (trigonometry.quadrant x).2.v = 3)
    (hlo : 1 / 2 ^ 1014 ≤ |val (trigonometry.quadrant x).1|) :
    (TwoFloat.tan x).Valid ∧
    |rval (TwoFloat.tan x) - -(1 / Real.tan (rval (trigonometry.quadrant x).1))|
      ≤ 1 / 2 ^ 48 * |1 / Real.tan (rval (trigonometry.quadrant x).1)| := by
  have hiv : TwoFloat.is_valid x = true := (C07.is_valid_iff x hw).2 hv
  obtain ⟨k, -, hvr, hwr, hr, -⟩ := quadrant_spec hv hw hhi
  rw [tan_eq_of_quadrant x hiv, if_neg (by omega)]
  exact neg_recip_restricted_tan hvr hwr hr hlo

/-- **the failure set of `tan`, for valid `|x| ≤ 2^20`**: provided the reduced argument is zero or at least `2^-1014`
in magnitude, the result has a non-finite high word EXACTLY when the quadrant is odd and the reduced argument is zero
(and then it is `(NaN, NaN)`); in every other case the result is a valid pair. -/
theorem tan_not_finite_iff {x : TwoFloat} (hv : x.Valid) (hw : x.WF) (hhi : |val x| ≤ 2 ^ 20)
    (hside : val (trigonometry.quadrant x).1 = 0 ∨ 1 / 2 ^ 1014 ≤ |val (trigonometry.quadrant x).1|) :
    (TwoFloat.tan x).hi.is_finite = false ↔
      (((trigonometry.quadrant x).2.v = 1 ∨ (trigonometry.quadrant x).2.v = 3) ∧
        val (trigonometry.quadrant x).1 = 0) := by
  have hiv : TwoFloat.is_valid x = true := (C07.is_valid_iff x hw).2 hv
  obtain ⟨k, -, hvr, -, -, -⟩ := quadrant_spec hv hw hhi
  have hrange := quadrant_num_range hv hw hhi
  constructor
  · intro hnf
    by_contra hcon
    have hfin : (TwoFloat.tan x).hi.is_finite = true := by
      by_cases hodd : (trigonometry.quadrant x).2.v = 1 ∨ (trigonometry.quadrant x).2.v = 3
      · have h0 : val (trigonometry.quadrant x).1 ≠ 0 := fun h => hcon ⟨hodd, h⟩
        rcases hside with h | h
        · exact absurd h h0
        · exact (tan_vs_reduced_odd hv hw hhi hodd h).1.1
      · exact (tan_vs_reduced_even hv hw hhi (by omega)).1.1
    rw [hfin] at hnf; exact Bool.noConfusion hnf
  · rintro ⟨hodd, h0⟩
    have hV : (trigonometry.quadrant x).1.V = 0 := by
      unfold val at h0
      have : ((trigonometry.quadrant x).1.V : ℚ) = 0 := by
        rcases div_eq_zero_iff.1 h0 with h | h
        · exact h
        · exact absurd h (by positivity)
      exact_mod_cast this
    rw [tan_nan_at_reduced_zero x hiv hodd hvr hV]; rfl

/-- in particular: whenever the reduced argument is at least `2^-1014` (or the quadrant is even) `tan x` is a valid pair -/
theorem tan_valid_of_reduced {x : TwoFloat} (hv : x.Valid) (hw : x.WF) (hhi : |val x| ≤ 2 ^ 20)
    (h : ((trigonometry.quadrant x).2.v = 0 ∨ (trigonometry.quadrant x).2.v = 2) ∨
      1 / 2 ^ 1014 ≤ |val (trigonometry.quadrant x).1|) : (TwoFloat.tan x).Valid := by
  rcases h with h | h
  · exact (tan_vs_reduced_even hv hw hhi h).1
  · rcases quadrant_num_range hv hw hhi with q | q | q | q
    · exact (tan_vs_reduced_even hv hw hhi (Or.inl q)).1
    · exact (tan_vs_reduced_odd hv hw hhi (Or.inl q) h).1
    · exact (tan_vs_reduced_even hv hw hhi (Or.inr q)).1
    · exact (tan_vs_reduced_odd hv hw hhi (Or.inr q) h).1

/-- non-vacuity: `x = 1000` is in quadrant 1 (reciprocal branch) with a reduced argument far from zero -/
example : (TwoFloat.tan ⟨f64lit 0x408f400000000000, F64.zero⟩).Valid :=
  tan_valid_of_reduced (by decide +kernel) (by decide +kernel) (by decide +kernel) (Or.inr (by decide +kernel))

end

section
open F64 TwoFloat PowiBound TrigBound ATrigBound C16t C16u

/-! ### `C16u.tan_bound` with the pole threshold lowered from `2^-69` to `2^-78`

`2^-81` is the proved bound on the argument-reduction error `|r − ρ|`; the property's allowance for it is
`2^-80·(1 + tan² x)`, i.e. a factor 2.  In the reciprocal branch the propagated error is `|r − ρ|·|ρ/r|·(1 + tan² x)`-like,
so the allowance is met as long as `|ρ| ≤ 2|r|`-ish, i.e. as long as `|ρ|` stays a few times above `2^-81`. -/

/-- pure arithmetic of the reciprocal branch, `2^-78 ≤ |t| ≤ 6/5` -/
theorem odd_arith78 {T q t : ℝ} (ht1 : 1 / 2 ^ 78 ≤ |t|) (ht2 : |t| ≤ 6 / 5)
    (hT : |T - t| ≤ 5 / 2 ^ 53 * |t| + 1 / 2 ^ 81 * (1 + 1 / 2 ^ 40) * (1 + t ^ 2))
    (hq : |-1 - q * T| ≤ 1 / 2 ^ 102) :
    |q - -(1 / t)| ≤ 1 / 2 ^ 50 * |1 / t| + 1 / 2 ^ 80 * (1 + (1 / t) ^ 2) := by
  set τ := |t| with hτ
  have hτ0 : 0 < τ := lt_of_lt_of_le (by positivity) ht1
  have ht0 : t ≠ 0 := abs_pos.1 hτ0
  have hsq : t ^ 2 = τ ^ 2 := by rw [hτ, sq_abs]
  rw [hsq] at hT
  -- S = 1 + τ², d the reduction term
  set S := 1 + τ ^ 2 with hS
  have hS1 : 1 ≤ S := by rw [hS]; nlinarith [sq_nonneg τ]
  have hS2 : S ≤ 5 / 2 := by
    rw [hS]
    have : τ ^ 2 ≤ (6 / 5) ^ 2 := pow_le_pow_left₀ hτ0.le ht2 2
    norm_num at this; linarith
  -- lower bound of |T|
  have hTlo : τ * (1 - 5 / 2 ^ 53) - 1 / 2 ^ 81 * (1 + 1 / 2 ^ 40) * S ≤ |T| := by
    have := abs_add_le (t - T) T
    rw [sub_add_cancel, abs_sub_comm] at this
    have e : τ * (1 - 5 / 2 ^ 53) = τ - 5 / 2 ^ 53 * τ := by ring
    rw [e]; linarith
  have hL : (1 : ℝ) / 2 ^ 80 ≤ τ * (1 - 5 / 2 ^ 53) - 1 / 2 ^ 81 * (1 + 1 / 2 ^ 40) * S := by
    have h1 : (1 : ℝ) / 2 ^ 78 * (1 - 5 / 2 ^ 53) ≤ τ * (1 - 5 / 2 ^ 53) :=
      mul_le_mul_of_nonneg_right ht1 (by norm_num)
    have h2 : (1 : ℝ) / 2 ^ 81 * (1 + 1 / 2 ^ 40) * S ≤ 1 / 2 ^ 81 * (1 + 1 / 2 ^ 40) * (5 / 2) :=
      mul_le_mul_of_nonneg_left hS2 (by positivity)
    have h3 : (1 : ℝ) / 2 ^ 80 ≤ 1 / 2 ^ 78 * (1 - 5 / 2 ^ 53) - 1 / 2 ^ 81 * (1 + 1 / 2 ^ 40) * (5 / 2) := by
      norm_num
    linarith
  have hT0 : 0 < |T| := lt_of_lt_of_le (by positivity) (le_trans hL hTlo)
  have hTne : T ≠ 0 := abs_pos.1 hT0
  -- the key polynomial inequality
  have key : (1 / 2 ^ 102 + 5 / 2 ^ 53) * τ ^ 2 + 1 / 2 ^ 81 * (1 + 1 / 2 ^ 40) * S * τ
      ≤ (τ * (1 - 5 / 2 ^ 53) - 1 / 2 ^ 81 * (1 + 1 / 2 ^ 40) * S) * (1 / 2 ^ 50 * τ + 1 / 2 ^ 80 * S) := by
    -- RHS − LHS = c1 τ² + S (c2 τ − c3 S)
    have e : (τ * (1 - 5 / 2 ^ 53) - 1 / 2 ^ 81 * (1 + 1 / 2 ^ 40) * S) * (1 / 2 ^ 50 * τ + 1 / 2 ^ 80 * S)
        - ((1 / 2 ^ 102 + 5 / 2 ^ 53) * τ ^ 2 + 1 / 2 ^ 81 * (1 + 1 / 2 ^ 40) * S * τ)
        = ((1 - 5 / 2 ^ 53) * (1 / 2 ^ 50) - 1 / 2 ^ 102 - 5 / 2 ^ 53) * τ ^ 2
          + S * (((1 - 5 / 2 ^ 53) * (1 / 2 ^ 80) - 1 / 2 ^ 81 * (1 + 1 / 2 ^ 40) * (1 / 2 ^ 50)
              - 1 / 2 ^ 81 * (1 + 1 / 2 ^ 40)) * τ
            - 1 / 2 ^ 81 * (1 + 1 / 2 ^ 40) * (1 / 2 ^ 80) * S) := by ring
    have c1 : (0 : ℝ) ≤ (1 - 5 / 2 ^ 53) * (1 / 2 ^ 50) - 1 / 2 ^ 102 - 5 / 2 ^ 53 := by norm_num
    have c2 : (99 : ℝ) / 100 * (1 / 2 ^ 81) ≤ (1 - 5 / 2 ^ 53) * (1 / 2 ^ 80)
        - 1 / 2 ^ 81 * (1 + 1 / 2 ^ 40) * (1 / 2 ^ 50) - 1 / 2 ^ 81 * (1 + 1 / 2 ^ 40) := by norm_num
    have p1 : 0 ≤ ((1 - 5 / 2 ^ 53) * (1 / 2 ^ 50) - 1 / 2 ^ 102 - 5 / 2 ^ 53) * τ ^ 2 :=
      mul_nonneg c1 (sq_nonneg τ)
    have p2 : 0 ≤ ((1 - 5 / 2 ^ 53) * (1 / 2 ^ 80) - 1 / 2 ^ 81 * (1 + 1 / 2 ^ 40) * (1 / 2 ^ 50)
              - 1 / 2 ^ 81 * (1 + 1 / 2 ^ 40)) * τ
            - 1 / 2 ^ 81 * (1 + 1 / 2 ^ 40) * (1 / 2 ^ 80) * S := by
      have a1 : (99 : ℝ) / 100 * (1 / 2 ^ 81) * τ ≤ ((1 - 5 / 2 ^ 53) * (1 / 2 ^ 80)
          - 1 / 2 ^ 81 * (1 + 1 / 2 ^ 40) * (1 / 2 ^ 50) - 1 / 2 ^ 81 * (1 + 1 / 2 ^ 40)) * τ :=
        mul_le_mul_of_nonneg_right c2 hτ0.le
      have a2 : (99 : ℝ) / 100 * (1 / 2 ^ 81) * (1 / 2 ^ 78) ≤ 99 / 100 * (1 / 2 ^ 81) * τ :=
        mul_le_mul_of_nonneg_left ht1 (by positivity)
      have a3 : (1 : ℝ) / 2 ^ 81 * (1 + 1 / 2 ^ 40) * (1 / 2 ^ 80) * S
          ≤ 1 / 2 ^ 81 * (1 + 1 / 2 ^ 40) * (1 / 2 ^ 80) * (5 / 2) :=
        mul_le_mul_of_nonneg_left hS2 (by positivity)
      have a4 : (1 : ℝ) / 2 ^ 81 * (1 + 1 / 2 ^ 40) * (1 / 2 ^ 80) * (5 / 2)
          ≤ 99 / 100 * (1 / 2 ^ 81) * (1 / 2 ^ 78) := by norm_num
      linarith
    have p3 := mul_nonneg (le_trans (by norm_num : (0 : ℝ) ≤ 1) hS1) p2
    linarith
  -- the error of the quotient
  have e : q - -(1 / t) = (q * T + 1) / T + (T - t) / (T * t) := by field_simp; ring
  rw [e]
  refine le_trans (abs_add_le _ _) ?_
  rw [abs_div, abs_div, abs_mul]
  have hq' : |q * T + 1| ≤ 1 / 2 ^ 102 := by
    rw [← abs_neg]; refine le_trans (le_of_eq ?_) hq; congr 1; ring
  have e1 : |1 / t| = 1 / τ := by rw [abs_div, abs_one]
  have e2 : (1 / t) ^ 2 = 1 / τ ^ 2 := by
    rw [div_pow, one_pow]
    congr 1
  rw [e1, e2]
  -- everything over the common denominator |T| τ²
  have hden : 0 < |T| * τ ^ 2 := by positivity
  have lhs : |q * T + 1| / |T| + |T - t| / (|T| * τ)
      ≤ (1 / 2 ^ 102 * τ ^ 2 + (5 / 2 ^ 53 * τ + 1 / 2 ^ 81 * (1 + 1 / 2 ^ 40) * S) * τ) / (|T| * τ ^ 2) := by
    rw [le_div_iff₀ hden]
    have e3 : (|q * T + 1| / |T| + |T - t| / (|T| * τ)) * (|T| * τ ^ 2)
        = |q * T + 1| * τ ^ 2 + |T - t| * τ := by
      field_simp
    rw [e3]
    have m1 : |q * T + 1| * τ ^ 2 ≤ 1 / 2 ^ 102 * τ ^ 2 := mul_le_mul_of_nonneg_right hq' (sq_nonneg τ)
    have m2 : |T - t| * τ ≤ (5 / 2 ^ 53 * τ + 1 / 2 ^ 81 * (1 + 1 / 2 ^ 40) * S) * τ :=
      mul_le_mul_of_nonneg_right hT hτ0.le
    linarith
  refine le_trans lhs ?_
  rw [div_le_iff₀ hden]
  have e4 : (1 / 2 ^ 50 * (1 / τ) + 1 / 2 ^ 80 * (1 + 1 / τ ^ 2)) * (|T| * τ ^ 2)
      = |T| * (1 / 2 ^ 50 * τ + 1 / 2 ^ 80 * S) := by
    rw [hS]; field_simp; ring
  rw [e4]
  have pos : 0 ≤ 1 / 2 ^ 50 * τ + 1 / 2 ^ 80 * S := by positivity
  have m3 := mul_le_mul_of_nonneg_right hTlo pos
  have e5 : 1 / 2 ^ 102 * τ ^ 2 + (5 / 2 ^ 53 * τ + 1 / 2 ^ 81 * (1 + 1 / 2 ^ 40) * S) * τ
      = (1 / 2 ^ 102 + 5 / 2 ^ 53) * τ ^ 2 + 1 / 2 ^ 81 * (1 + 1 / 2 ^ 40) * S * τ := by ring
  rw [e5]
  linarith


/-- **C16 (tan) with the pole threshold `|cos x| ≥ 2^-78`** (`C16u.tan_bound` has `2^-69`): for valid well-formed
`|x| ≤ 2^20` the result is a valid pair and `|tan(x) − tan x| ≤ 2^-50·|tan x| + 2^-80·(1 + tan² x)` -/
theorem tan_bound_78 {x : TwoFloat} (hv : x.Valid) (hw : x.WF) (hhi : |val x| ≤ 2 ^ 20)
    (hpole : 1 / 2 ^ 78 ≤ |Real.cos (rval x)|) :
    (TwoFloat.tan x).Valid ∧
    |rval (TwoFloat.tan x) - Real.tan (rval x)|
      ≤ 1 / 2 ^ 50 * |Real.tan (rval x)| + 1 / 2 ^ 80 * (1 + Real.tan (rval x) ^ 2) := by
  have hiv : TwoFloat.is_valid x = true := (C07.is_valid_iff x hw).2 hv
  obtain ⟨k, hq, hvr, hwr, hr, hρ⟩ := quadrant_spec hv hw hhi
  rw [C16.tan_valid x hiv]
  simp only [hq, i8_eq]
  have e0 : ((0 : I8)).v = 0 := rfl
  have e2 : ((2 : I8)).v = 2 := rfl
  simp only [e0, e2, Bool.or_eq_true, decide_eq_true_eq]
  have ex : rval x = (rval x - (k : ℝ) * (Real.pi / 2)) + (k : ℝ) * (Real.pi / 2) := by ring
  rw [ex] at hpole ⊢
  set ρ := rval x - (k : ℝ) * (Real.pi / 2) with hρdef
  rw [tan_add_quarter]
  obtain ⟨hvT, hwT, _⟩ := restricted_tan_real hvr hwr hr
  have hT := via_tan hvr hwr hr hρ
  set r := (trigonometry.quadrant x).1 with hrdef
  have hsq : (0 : ℝ) ≤ 1 + Real.tan ρ ^ 2 := by positivity
  by_cases hev : k % 4 = 0 ∨ k % 4 = 2
  · simp only [hev, if_true]
    refine ⟨hvT, le_trans hT ?_⟩
    have h1 : 5 / 2 ^ 53 * |Real.tan ρ| ≤ 1 / 2 ^ 50 * |Real.tan ρ| :=
      mul_le_mul_of_nonneg_right (by norm_num) (abs_nonneg _)
    have h2 : 1 / 2 ^ 81 * (1 + 1 / 2 ^ 40) * (1 + Real.tan ρ ^ 2) ≤ 1 / 2 ^ 80 * (1 + Real.tan ρ ^ 2) :=
      mul_le_mul_of_nonneg_right (by norm_num) hsq
    linarith
  · simp only [hev, if_false]
    rw [abs_cos_add_quarter_odd ρ k hev] at hpole
    have hr' : |rval r| ≤ 393 / 500 := by have := rval_le hr; push_cast at this; exact this
    have hρ' : |ρ| ≤ 787 / 1000 := by
      have := abs_add_le (ρ - rval r) (rval r)
      rw [sub_add_cancel, abs_sub_comm ρ (rval r)] at this
      have : (1 : ℝ) / 2 ^ 81 ≤ 1 / 1000 := by norm_num
      linarith
    have hc := cos_ge_small hρ'
    have hcpos : 0 < Real.cos ρ := by linarith
    have hc1 : Real.cos ρ ≤ 1 := Real.cos_le_one ρ
    have htan : |Real.tan ρ| = |Real.sin ρ| / Real.cos ρ := by
      rw [Real.tan_eq_sin_div_cos, abs_div, abs_of_pos hcpos]
    have ht1 : 1 / 2 ^ 78 ≤ |Real.tan ρ| := by
      rw [htan, le_div_iff₀ hcpos]
      have : 1 / 2 ^ 78 * Real.cos ρ ≤ 1 / 2 ^ 78 * 1 := mul_le_mul_of_nonneg_left hc1 (by positivity)
      linarith
    have ht2 : |Real.tan ρ| ≤ 6 / 5 := by
      rw [htan, div_le_iff₀ hcpos]
      have h1 : |Real.sin ρ| ≤ |ρ| := Real.abs_sin_le_abs
      have : (787 : ℝ) / 1000 ≤ 6 / 5 * (69 / 100) := by norm_num
      have : 6 / 5 * (69 / 100) ≤ 6 / 5 * Real.cos ρ := mul_le_mul_of_nonneg_left hc (by norm_num)
      linarith
    set Tt := trigonometry.restricted_tan r with hTt
    have hTsz : 1 / 2 ^ 79 ≤ |rval Tt| ∧ |rval Tt| ≤ 2 := by
      have h1 : 1 + Real.tan ρ ^ 2 ≤ 5 / 2 := by
        have : Real.tan ρ ^ 2 ≤ (6 / 5) ^ 2 := by
          rw [← sq_abs]; exact pow_le_pow_left₀ (abs_nonneg _) ht2 2
        norm_num at this; linarith
      have h2 : 1 / 2 ^ 81 * (1 + 1 / 2 ^ 40) * (1 + Real.tan ρ ^ 2) ≤ 1 / 2 ^ 81 * (1 + 1 / 2 ^ 40) * (5 / 2) :=
        mul_le_mul_of_nonneg_left h1 (by positivity)
      have h3 : (1 : ℝ) / 2 ^ 81 * (1 + 1 / 2 ^ 40) * (5 / 2) ≤ 3 / 8 * (1 / 2 ^ 78) := by norm_num
      have h3' : (3 : ℝ) / 8 * (1 / 2 ^ 78) ≤ 3 / 8 * |Real.tan ρ| := mul_le_mul_of_nonneg_left ht1 (by norm_num)
      have h4 : 5 / 2 ^ 53 * |Real.tan ρ| ≤ 1 / 8 * |Real.tan ρ| :=
        mul_le_mul_of_nonneg_right (by norm_num) (abs_nonneg _)
      have h5 : |rval Tt - Real.tan ρ| ≤ 1 / 2 * |Real.tan ρ| := by linarith
      constructor
      · have := abs_add_le (Real.tan ρ - rval Tt) (rval Tt)
        rw [sub_add_cancel, abs_sub_comm] at this
        have e : (1 : ℝ) / 2 ^ 79 = 1 / 2 * (1 / 2 ^ 78) := by norm_num
        rw [e]; linarith
      · have := abs_add_le (rval Tt - Real.tan ρ) (Real.tan ρ)
        rw [sub_add_cancel] at this
        linarith
    have hTq1 : (1 : ℚ) / 2 ^ 79 ≤ |val Tt| := by
      rw [← Rat.cast_le (K := ℝ), Rat.cast_abs]
      push_cast
      exact hTsz.1
    have hTq2 : |val Tt| ≤ 2 ^ 1 := by
      rw [← Rat.cast_le (K := ℝ), Rat.cast_abs]
      push_cast
      rw [pow_one]; exact hTsz.2
    have hrng := hi_range_gen hvT (k := 79) (j := 1) (by norm_num) hTq1 hTq2
    obtain ⟨hvq, _, heq⟩ := neg_one_div_val hvT hwT
      ⟨le_trans (Nat.pow_le_pow_right (by norm_num) (by norm_num)) hrng.1,
       le_trans hrng.2 (Nat.pow_le_pow_right (by norm_num) (by norm_num))⟩
    show (arithmetic.impl_Div_rTwoFloat_for_rf64.div (F64.neg (f64lit 0x3ff0000000000000)) Tt).Valid ∧
      |rval (arithmetic.impl_Div_rTwoFloat_for_rf64.div (F64.neg (f64lit 0x3ff0000000000000)) Tt)
        - -(1 / Real.tan ρ)|
        ≤ 1 / 2 ^ 50 * |-(1 / Real.tan ρ)| + 1 / 2 ^ 80 * (1 + (-(1 / Real.tan ρ)) ^ 2)
    refine ⟨hvq, ?_⟩
    have heqR : |-1 - rval (arithmetic.impl_Div_rTwoFloat_for_rf64.div (F64.neg (f64lit 0x3ff0000000000000)) Tt)
        * rval Tt| ≤ 1 / 2 ^ 102 := by
      have := (Rat.cast_le (K := ℝ)).2 heq
      unfold rval
      push_cast at this ⊢
      exact this
    have := odd_arith78 ht1 ht2 hT heqR
    rw [abs_neg, neg_sq]
    exact this

/-- the property's form (`max(|tan x|, 2^-30)` in the first term) with the threshold `2^-78` -/
theorem C16_tan_78 {x : TwoFloat} (hv : x.Valid) (hw : x.WF) (hhi : |val x| ≤ 2 ^ 20)
    (hpole : 1 / 2 ^ 78 ≤ |Real.cos (rval x)|) :
    |rval (TwoFloat.tan x) - Real.tan (rval x)|
      ≤ 1 / 2 ^ 50 * Max.max |Real.tan (rval x)| (1 / 2 ^ 30) + 1 / 2 ^ 80 * (1 + Real.tan (rval x) ^ 2) := by
  refine le_trans (tan_bound_78 hv hw hhi hpole).2 ?_
  have := mul_le_mul_of_nonneg_left (le_max_left |Real.tan (rval x)| (1 / 2 ^ 30))
    (by positivity : (0 : ℝ) ≤ 1 / 2 ^ 50)
  linarith

/-- the pole hypothesis checked on the MODEL's own cosine (`|cos(x)| ≥ 2^-67` suffices: its error is `≤ 2^-68`) -/
theorem tan_bound_78_of_model_cos {x : TwoFloat} (hv : x.Valid) (hw : x.WF) (hhi : |val x| ≤ 2 ^ 20)
    (hc : 1 / 2 ^ 67 ≤ |val (TwoFloat.cos x)|) :
    (TwoFloat.tan x).Valid ∧
    |rval (TwoFloat.tan x) - Real.tan (rval x)|
      ≤ 1 / 2 ^ 50 * |Real.tan (rval x)| + 1 / 2 ^ 80 * (1 + Real.tan (rval x) ^ 2) := by
  refine tan_bound_78 hv hw hhi ?_
  have h1 := (cos_abs_bound hv hw hhi).2
  have h2 : (1 : ℝ) / 2 ^ 67 ≤ |rval (TwoFloat.cos x)| := by
    rw [abs_rval]
    have := (Rat.cast_le (K := ℝ)).2 hc
    push_cast at this
    rw [← Rat.cast_abs] at this
    exact this
  have h3 := abs_add_le (rval (TwoFloat.cos x) - Real.cos (rval x)) (Real.cos (rval x))
  rw [sub_add_cancel] at h3
  have : (1 : ℝ) / 2 ^ 78 + 1 / 2 ^ 68 ≤ 1 / 2 ^ 67 := by norm_num
  linarith

example :
    |rval (TwoFloat.tan ⟨f64lit 0x408f400000000000, F64.zero⟩)
      - Real.tan (rval ⟨f64lit 0x408f400000000000, F64.zero⟩)|
      ≤ 1 / 2 ^ 50 * |Real.tan (rval ⟨f64lit 0x408f400000000000, F64.zero⟩)|
        + 1 / 2 ^ 80 * (1 + Real.tan (rval ⟨f64lit 0x408f400000000000, F64.zero⟩) ^ 2) :=
  (tan_bound_78_of_model_cos (by decide +kernel) (by decide +kernel) (by decide +kernel) (by decide +kernel)).2

end

end CAudit
