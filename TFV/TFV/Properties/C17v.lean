/-
C17v — the four-quadrant angle of `C17t` / `C17u` IS Mathlib's `Complex.arg`.

The accuracy theorems `C17t.atan2_bound` and `C17u.atan2_bound_full` are stated against the locally defined
`C17t.angle Y X` (`arctan (Y/X)`, `± π` for `X ≤ 0`).  This file ties that local notion to Mathlib's own principal
argument and restates the theorems (and the axis table of `C17`) with `Complex.arg ⟨X, Y⟩`:

  `angle_eq_arg`          : `0 < X ∨ (X < 0 ∧ Y ≠ 0)` ⇒ `C17t.angle Y X = Complex.arg ⟨X, Y⟩`
                            (this is the whole plane minus the `Y`-axis and the negative `X`-axis; the accuracy
                            theorems have non-zero operands, so they live strictly inside this domain)
  `angle_eq_arg_of_ne`    : the same for `X ≠ 0`, `Y ≠ 0`
  `angle_axis_*`          : what `C17t.angle` is ON the excluded axes (it is NOT `arg` there: `angle 0 X = −π` for
                            `X < 0` and `angle Y 0 = ±π`); this is harmless — `angle` is only ever used off the axes —
                            and recorded so that nobody uses `angle` as a specification of the axis table.
  `atan2_bound_arg`, `atan2_bound_full_arg` : the two accuracy theorems with `Complex.arg`
  `atan2_axis_arg`        : the axis table in value form: on the axes the result is exactly `0`, `±FRAC_PI_2`, `PI`, and
                            it is within relative `2^-107` of `Complex.arg`; the one IEEE convention that deviates from
                            the principal value (`y = −0`, `x` of negative sign: `−PI`, whereas `arg = π`) is
                            `atan2_negzero_neg_arg`.
-/
import Mathlib.Analysis.SpecialFunctions.Complex.Arg
import TFV.Properties.C17u
import TFV.Properties.C12x

set_option exponentiation.threshold 3000

namespace C17v

open F64 TwoFloat PowiBound TrigBound ATrigBound C16t C16u C17t C17u

/-! ## 1. `C17t.angle` and `Complex.arg` -/

/-- right half-plane: `arg (X + iY) = arctan (Y / X)` -/
theorem arg_of_re_pos (X Y : ℝ) (hX : 0 < X) : Complex.arg (⟨X, Y⟩ : ℂ) = Real.arctan (Y / X) := by
  have hlt : |Complex.arg (⟨X, Y⟩ : ℂ)| < Real.pi / 2 :=
    Complex.abs_arg_lt_pi_div_two_iff.2 (Or.inl hX)
  have htan : Real.tan (Complex.arg (⟨X, Y⟩ : ℂ)) = Y / X := Complex.tan_arg _
  exact (Real.arctan_eq_of_tan_eq htan ⟨(abs_lt.1 hlt).1, (abs_lt.1 hlt).2⟩).symm

/-- second quadrant -/
theorem arg_of_re_neg_of_im_pos (X Y : ℝ) (hX : X < 0) (hY : 0 < Y) :
    Complex.arg (⟨X, Y⟩ : ℂ) = Real.arctan (Y / X) + Real.pi := by
  have h := Complex.arg_neg_eq_arg_sub_pi_of_im_pos (x := (⟨X, Y⟩ : ℂ)) hY
  have e : -(⟨X, Y⟩ : ℂ) = ⟨-X, -Y⟩ := by apply Complex.ext <;> simp
  rw [e, arg_of_re_pos (-X) (-Y) (by linarith), neg_div_neg_eq] at h
  linarith

/-- third quadrant -/
theorem arg_of_re_neg_of_im_neg (X Y : ℝ) (hX : X < 0) (hY : Y < 0) :
    Complex.arg (⟨X, Y⟩ : ℂ) = Real.arctan (Y / X) - Real.pi := by
  have h := Complex.arg_neg_eq_arg_add_pi_of_im_neg (x := (⟨X, Y⟩ : ℂ)) hY
  have e : -(⟨X, Y⟩ : ℂ) = ⟨-X, -Y⟩ := by apply Complex.ext <;> simp
  rw [e, arg_of_re_pos (-X) (-Y) (by linarith), neg_div_neg_eq] at h
  linarith

/-- **the local four-quadrant angle is Mathlib's principal argument** on the plane minus the `Y`-axis and the negative
`X`-axis (in particular whenever both coordinates are non-zero, and on the positive `X`-axis) -/
theorem angle_eq_arg (X Y : ℝ) (h : 0 < X ∨ (X < 0 ∧ Y ≠ 0)) :
    C17t.angle Y X = Complex.arg (⟨X, Y⟩ : ℂ) := by
  unfold C17t.angle
  rcases h with hX | ⟨hX, hY⟩
  · rw [if_pos hX, arg_of_re_pos X Y hX]
  · rw [if_neg (not_lt.2 hX.le)]
    rcases lt_or_gt_of_ne hY with hY | hY
    · rw [if_neg (not_lt.2 hY.le), arg_of_re_neg_of_im_neg X Y hX hY]
    · rw [if_pos hY, arg_of_re_neg_of_im_pos X Y hX hY]

/-- the domain of the accuracy theorems: both coordinates non-zero -/
theorem angle_eq_arg_of_ne (X Y : ℝ) (hX : X ≠ 0) (hY : Y ≠ 0) :
    C17t.angle Y X = Complex.arg (⟨X, Y⟩ : ℂ) := by
  rcases lt_or_gt_of_ne hX with hX | hX
  · exact angle_eq_arg X Y (Or.inr ⟨hX, hY⟩)
  · exact angle_eq_arg X Y (Or.inl hX)

/-- the domain is sharp, 1: on the negative `X`-axis `angle = −π` but `arg = π` -/
theorem angle_axis_neg_re (X : ℝ) (hX : X < 0) :
    C17t.angle 0 X = -Real.pi ∧ Complex.arg (⟨X, 0⟩ : ℂ) = Real.pi := by
  constructor
  · unfold C17t.angle
    rw [if_neg (not_lt.2 hX.le), if_neg (lt_irrefl 0), zero_div, Real.arctan_zero, zero_sub]
  · exact Complex.arg_eq_pi_iff.2 ⟨hX, rfl⟩

/-- the domain is sharp, 2: on the `Y`-axis `angle = ±π` (`Y / 0 = 0`) but `arg = ±π/2` -/
theorem angle_axis_im (Y : ℝ) :
    (0 < Y → C17t.angle Y 0 = Real.pi ∧ Complex.arg (⟨0, Y⟩ : ℂ) = Real.pi / 2) ∧
    (Y < 0 → C17t.angle Y 0 = -Real.pi ∧ Complex.arg (⟨0, Y⟩ : ℂ) = -(Real.pi / 2)) := by
  constructor
  · intro hY
    constructor
    · unfold C17t.angle
      rw [if_neg (lt_irrefl 0), if_pos hY, div_zero, Real.arctan_zero, zero_add]
    · exact Complex.arg_eq_pi_div_two_iff.2 ⟨rfl, hY⟩
  · intro hY
    constructor
    · unfold C17t.angle
      rw [if_neg (lt_irrefl 0), if_neg (not_lt.2 hY.le), div_zero, Real.arctan_zero, zero_sub]
    · exact Complex.arg_eq_neg_pi_div_two_iff.2 ⟨rfl, hY⟩

/-! ## 2. the accuracy theorems against `Complex.arg` -/

theorem rval_eq (t : TwoFloat) : rval t = (t.V : ℝ) / 2 ^ 1074 := by unfold rval val; push_cast; rfl

theorem rval_zero_iff (t : TwoFloat) : rval t = 0 ↔ t.V = 0 := by
  rw [rval_eq, div_eq_zero_iff]
  constructor
  · rintro (h | h)
    · exact_mod_cast h
    · exact absurd h (by positivity)
  · intro h; left; exact_mod_cast h

theorem rval_neg_iff (t : TwoFloat) : rval t < 0 ↔ t.V < 0 := by
  rw [rval_eq, div_neg_iff]
  constructor
  · rintro (⟨_, h⟩ | ⟨h, _⟩)
    · exact absurd h (not_lt.2 (by positivity))
    · exact_mod_cast h
  · intro h; right; exact ⟨by exact_mod_cast h, by positivity⟩

theorem is_valid_of {t : TwoFloat} (hv : t.Valid) (hw : t.WF) : TwoFloat.is_valid t = true :=
  (C07.is_valid_iff t hw).2 hv

/-- a valid operand whose high word is non-zero has a non-zero value -/
theorem rval_ne_zero_of_hi {t : TwoFloat} (hv : t.Valid) (hw : t.WF) (h : t.hi.toInt ≠ 0) : rval t ≠ 0 := fun h0 =>
  h ((TwoFloat.V_zero_iff_hi_zero (is_valid_of hv hw) hv).1 ((rval_zero_iff t).1 h0))

theorem hi_ne_zero_of_size {t : TwoFloat} (h : 2 ^ 1044 ≤ t.hi.toInt.natAbs) : t.hi.toInt ≠ 0 := by
  intro h0; rw [h0] at h; exact absurd h (not_le.2 (Nat.two_pow_pos 1044))

/-- under the hypotheses of the accuracy theorems the local angle is `Complex.arg` -/
theorem angle_eq_arg_of_size {y x : TwoFloat} (hvy : y.Valid) (hwy : y.WF) (hvx : x.Valid) (hwx : x.WF)
    (hy : 2 ^ 1044 ≤ y.hi.toInt.natAbs) (hx : 2 ^ 1044 ≤ x.hi.toInt.natAbs) :
    C17t.angle (rval y) (rval x) = Complex.arg (⟨rval x, rval y⟩ : ℂ) :=
  angle_eq_arg_of_ne _ _ (rval_ne_zero_of_hi hvx hwx (hi_ne_zero_of_size hx))
    (rval_ne_zero_of_hi hvy hwy (hi_ne_zero_of_size hy))

/-- **C17 (atan2) against Mathlib's `Complex.arg`** (`C17t.atan2_bound`): valid operands with high words of magnitude
in `[2^-30, 2^30]`, and the computed quotient `q = y / x` subject to the gap condition of `atan_bound`: valid result
within relative `2^-69` of the principal argument of `x + i·y` -/
theorem atan2_bound_arg {y x : TwoFloat} (hvy : y.Valid) (hwy : y.WF) (hvx : x.Valid) (hwx : x.WF)
    (hy : 2 ^ 1044 ≤ y.hi.toInt.natAbs ∧ y.hi.toInt.natAbs ≤ 2 ^ 1104)
    (hx : 2 ^ 1044 ≤ x.hi.toInt.natAbs ∧ x.hi.toInt.natAbs ≤ 2 ^ 1104)
    (hgap : ∀ c : ℚ, c = 1 / 2 ∨ c = 1 ∨ c = 3 / 2 →
      |val (arithmetic.impl_Div_rTwoFloat_for_rTwoFloat.div y x)| = c ∨
      1 / 2 ^ 950 ≤ |(|val (arithmetic.impl_Div_rTwoFloat_for_rTwoFloat.div y x)|) - c|) :
    (TwoFloat.atan2 y x).Valid ∧
    |rval (TwoFloat.atan2 y x) - Complex.arg (⟨rval x, rval y⟩ : ℂ)|
      ≤ 1 / 2 ^ 69 * |Complex.arg (⟨rval x, rval y⟩ : ℂ)| := by
  rw [← angle_eq_arg_of_size hvy hwy hvx hwx hy.1 hx.1]
  exact C17t.atan2_bound hvy hwy hvx hwx hy hx hgap

/-- **C17 (atan2) against Mathlib's `Complex.arg`, WITHOUT the gap condition** (`C17u.atan2_bound_full`) -/
theorem atan2_bound_full_arg {y x : TwoFloat} (hvy : y.Valid) (hwy : y.WF) (hvx : x.Valid) (hwx : x.WF)
    (hy : 2 ^ 1044 ≤ y.hi.toInt.natAbs ∧ y.hi.toInt.natAbs ≤ 2 ^ 1104)
    (hx : 2 ^ 1044 ≤ x.hi.toInt.natAbs ∧ x.hi.toInt.natAbs ≤ 2 ^ 1104) :
    (TwoFloat.atan2 y x).Valid ∧
    |rval (TwoFloat.atan2 y x) - Complex.arg (⟨rval x, rval y⟩ : ℂ)|
      ≤ 1 / 2 ^ 69 * |Complex.arg (⟨rval x, rval y⟩ : ℂ)| := by
  rw [← angle_eq_arg_of_size hvy hwy hvx hwx hy.1 hx.1]
  exact C17u.atan2_bound_full hvy hwy hvx hwx hy hx

/-! ## 3. the axis table in value form -/

theorem hi_test_true {t : TwoFloat} (hv : t.Valid) (h : t.hi.toInt = 0) : (t.hi ==. f64lit 0) = true := by
  rw [C17t.f64lit_zero]; exact (F64.eq_zero_iff hv.1).2 h

theorem hi_test_false {t : TwoFloat} (hv : t.Valid) (h : t.hi.toInt ≠ 0) : (t.hi ==. f64lit 0) = false := by
  rw [C17t.f64lit_zero]; exact Bool.eq_false_iff.2 (fun h' => h ((F64.eq_zero_iff hv.1).1 h'))

theorem hi_of_rval_zero {t : TwoFloat} (hv : t.Valid) (hw : t.WF) (h : rval t = 0) : t.hi.toInt = 0 :=
  (TwoFloat.V_zero_iff_hi_zero (is_valid_of hv hw) hv).1 ((rval_zero_iff t).1 h)

theorem sign_of_rval_pos {t : TwoFloat} (hv : t.Valid) (hw : t.WF) (h : 0 < rval t) :
    F64.is_sign_positive t.hi = true ∧ t.hi.toInt ≠ 0 := by
  have hV : 0 < t.V := (rval_pos_iff t).1 h
  have hiv := is_valid_of hv hw
  refine ⟨(TwoFloat.hi_sign_positive_iff hiv hv (by omega)).2 hV, fun h0 => ?_⟩
  have := (TwoFloat.V_zero_iff_hi_zero hiv hv).2 h0
  omega

theorem sign_of_rval_neg {t : TwoFloat} (hv : t.Valid) (hw : t.WF) (h : rval t < 0) :
    F64.is_sign_positive t.hi = false ∧ t.hi.toInt ≠ 0 := by
  have hV : t.V < 0 := (rval_neg_iff t).1 h
  have hiv := is_valid_of hv hw
  refine ⟨Bool.eq_false_iff.2 (fun hs => ?_), fun h0 => ?_⟩
  · have := (TwoFloat.hi_sign_positive_iff hiv hv (by omega)).1 hs
    omega
  · have := (TwoFloat.V_zero_iff_hi_zero hiv hv).2 h0
    omega

theorem rval_zero : rval C17.zero = 0 := by
  have : C17.zero.V = 0 := by decide +kernel
  exact (rval_zero_iff _).2 this

/-- the constants are the correctly rounded double-doubles: relative `2^-107` -/
theorem PI_rel : |rval consts.PI - Real.pi| ≤ 1 / 2 ^ 107 * |Real.pi| := by
  rw [rval_eq, abs_sub_comm]; refine le_trans C12x.PI_rel_err (le_of_eq ?_); ring

theorem FRAC_PI_2_rel : |rval consts.FRAC_PI_2 - Real.pi / 2| ≤ 1 / 2 ^ 107 * |Real.pi / 2| := by
  rw [rval_eq, abs_sub_comm]; refine le_trans C12x.FRAC_PI_2_rel_err (le_of_eq ?_); ring

/-- positive `Y`-axis (`y > 0`, `x = ±0`): exactly the constant `FRAC_PI_2`; `arg = π/2` -/
theorem atan2_pos_zero_arg {y x : TwoFloat} (hvy : y.Valid) (hwy : y.WF) (hvx : x.Valid) (hwx : x.WF)
    (hy : 0 < rval y) (hx : rval x = 0) :
    TwoFloat.atan2 y x = consts.FRAC_PI_2 ∧ Complex.arg (⟨rval x, rval y⟩ : ℂ) = Real.pi / 2 := by
  obtain ⟨hs, hne⟩ := sign_of_rval_pos hvy hwy hy
  exact ⟨C17.atan2_pos_zero y x (hi_test_false hvy hne) (hi_test_true hvx (hi_of_rval_zero hvx hwx hx)) hs,
    Complex.arg_eq_pi_div_two_iff.2 ⟨hx, hy⟩⟩

/-- negative `Y`-axis (`y < 0`, `x = ±0`): exactly `−FRAC_PI_2`; `arg = −π/2` -/
theorem atan2_neg_zero_arg {y x : TwoFloat} (hvy : y.Valid) (hwy : y.WF) (hvx : x.Valid) (hwx : x.WF)
    (hy : rval y < 0) (hx : rval x = 0) :
    TwoFloat.atan2 y x = arithmetic.impl_Neg_for_TwoFloat.neg consts.FRAC_PI_2
      ∧ Complex.arg (⟨rval x, rval y⟩ : ℂ) = -(Real.pi / 2) := by
  obtain ⟨hs, hne⟩ := sign_of_rval_neg hvy hwy hy
  exact ⟨C17.atan2_neg_zero y x (hi_test_false hvy hne) (hi_test_true hvx (hi_of_rval_zero hvx hwx hx)) hs,
    Complex.arg_eq_neg_pi_div_two_iff.2 ⟨hx, hy⟩⟩

/-- positive `X`-axis (`y = ±0`, `x > 0`): exactly `0`; `arg = 0` -/
theorem atan2_zero_pos_arg {y x : TwoFloat} (hvy : y.Valid) (hwy : y.WF) (hvx : x.Valid) (hwx : x.WF)
    (hy : rval y = 0) (hx : 0 < rval x) :
    TwoFloat.atan2 y x = C17.zero ∧ Complex.arg (⟨rval x, rval y⟩ : ℂ) = 0 :=
  ⟨C17.atan2_zero_pos y x (hi_test_true hvy (hi_of_rval_zero hvy hwy hy)) (sign_of_rval_pos hvx hwx hx).1,
    Complex.arg_eq_zero_iff.2 ⟨hx.le, hy⟩⟩

/-- negative `X`-axis from above (`y = +0`, `x < 0`): exactly the constant `PI`; `arg = π` -/
theorem atan2_poszero_neg_arg {y x : TwoFloat} (hvy : y.Valid) (hwy : y.WF) (hvx : x.Valid) (hwx : x.WF)
    (hy : rval y = 0) (hs : F64.is_sign_positive y.hi = true) (hx : rval x < 0) :
    TwoFloat.atan2 y x = consts.PI ∧ Complex.arg (⟨rval x, rval y⟩ : ℂ) = Real.pi :=
  ⟨C17.atan2_poszero_neg y x (hi_test_true hvy (hi_of_rval_zero hvy hwy hy)) (sign_of_rval_neg hvx hwx hx).1 hs,
    Complex.arg_eq_pi_iff.2 ⟨hx, hy⟩⟩

/-- negative `X`-axis from below (`y = −0`, `x < 0`): exactly `−PI` — the IEEE signed-zero convention, the limit of
`arg` from the lower half-plane; the principal value itself is `arg = π` (Mathlib's `arg` takes values in `(−π, π]`) -/
theorem atan2_negzero_neg_arg {y x : TwoFloat} (hvy : y.Valid) (hwy : y.WF) (hvx : x.Valid) (hwx : x.WF)
    (hy : rval y = 0) (hs : F64.is_sign_positive y.hi = false) (hx : rval x < 0) :
    TwoFloat.atan2 y x = arithmetic.impl_Neg_for_TwoFloat.neg consts.PI
      ∧ Complex.arg (⟨rval x, rval y⟩ : ℂ) = Real.pi
      ∧ rval (TwoFloat.atan2 y x) = -rval consts.PI :=
  have h := C17.atan2_negzero_neg y x (hi_test_true hvy (hi_of_rval_zero hvy hwy hy)) (sign_of_rval_neg hvx hwx hx).1 hs
  ⟨h, Complex.arg_eq_pi_iff.2 ⟨hx, hy⟩, by rw [h, C16t.rval_neg]⟩

/-- the origin (`y = ±0`, `x = ±0`): the result follows the sign bits only (`0`, `PI` or `−PI`, as IEEE `atan2`);
`arg 0 = 0` -/
theorem atan2_origin_arg {y x : TwoFloat} (hvy : y.Valid) (hwy : y.WF) (hy : rval y = 0) (hx : rval x = 0) :
    TwoFloat.atan2 y x =
      (if F64.is_sign_positive x.hi = true then C17.zero
       else if F64.is_sign_positive y.hi = true then consts.PI else arithmetic.impl_Neg_for_TwoFloat.neg consts.PI)
    ∧ Complex.arg (⟨rval x, rval y⟩ : ℂ) = 0 := by
  have hy0 := hi_test_true hvy (hi_of_rval_zero hvy hwy hy)
  refine ⟨?_, Complex.arg_eq_zero_iff.2 ⟨hx.ge, hy⟩⟩
  cases hsx : F64.is_sign_positive x.hi
  · cases hsy : F64.is_sign_positive y.hi
    · simpa using C17.atan2_negzero_neg y x hy0 hsx hsy
    · simpa using C17.atan2_poszero_neg y x hy0 hsx hsy
  · simpa using C17.atan2_zero_pos y x hy0 hsx

/-- **the axis table against `Complex.arg`**: on the axes away from the origin — except for `y = −0` on the negative
`X`-axis, where the signed-zero convention returns `−PI` (`atan2_negzero_neg_arg`) — the result is within relative
`2^-107` of the principal argument (it is `0` exactly, or a correctly rounded constant) -/
theorem atan2_axis_arg {y x : TwoFloat} (hvy : y.Valid) (hwy : y.WF) (hvx : x.Valid) (hwx : x.WF)
    (haxis : rval y = 0 ∨ rval x = 0) (horig : rval y ≠ 0 ∨ rval x ≠ 0)
    (hconv : rval y = 0 → rval x < 0 → F64.is_sign_positive y.hi = true) :
    (TwoFloat.atan2 y x).Valid ∧
    |rval (TwoFloat.atan2 y x) - Complex.arg (⟨rval x, rval y⟩ : ℂ)|
      ≤ 1 / 2 ^ 107 * |Complex.arg (⟨rval x, rval y⟩ : ℂ)| := by
  have hvP : consts.PI.Valid := by decide +kernel
  have hvH : consts.FRAC_PI_2.Valid := by decide +kernel
  have hvNH : (arithmetic.impl_Neg_for_TwoFloat.neg consts.FRAC_PI_2).Valid := by decide +kernel
  have hvZ : C17.zero.Valid := by decide +kernel
  by_cases hy : rval y = 0
  · have hx : rval x ≠ 0 := by
      rcases horig with h | h
      · exact absurd hy h
      · exact h
    rcases lt_or_gt_of_ne hx with hx | hx
    · obtain ⟨e, a⟩ := atan2_poszero_neg_arg hvy hwy hvx hwx hy (hconv hy hx) hx
      rw [e, a]; exact ⟨hvP, PI_rel⟩
    · obtain ⟨e, a⟩ := atan2_zero_pos_arg hvy hwy hvx hwx hy hx
      rw [e, a, rval_zero]; exact ⟨hvZ, by simp⟩
  · have hx : rval x = 0 := by
      rcases haxis with h | h
      · exact absurd h hy
      · exact h
    rcases lt_or_gt_of_ne hy with hy | hy
    · obtain ⟨e, a⟩ := atan2_neg_zero_arg hvy hwy hvx hwx hy hx
      rw [e, a, C16t.rval_neg, abs_neg]
      refine ⟨hvNH, ?_⟩
      have := FRAC_PI_2_rel
      rwa [show -rval consts.FRAC_PI_2 - -(Real.pi / 2) = -(rval consts.FRAC_PI_2 - Real.pi / 2) by ring, abs_neg]
    · obtain ⟨e, a⟩ := atan2_pos_zero_arg hvy hwy hvx hwx hy hx
      rw [e, a]; exact ⟨hvH, FRAC_PI_2_rel⟩

/-! ## 4. instances: one point in each quadrant, and each axis -/

private abbrev f (b : Nat) : TwoFloat := ⟨f64lit b, F64.zero⟩

/-- `angle_eq_arg` in the four quadrants: `(1, 1)`, `(−1, 1)`, `(−1, −1)`, `(1, −1)` -/
example : C17t.angle 1 1 = Complex.arg (⟨1, 1⟩ : ℂ) := angle_eq_arg 1 1 (Or.inl one_pos)
example : C17t.angle 1 (-1) = Complex.arg (⟨-1, 1⟩ : ℂ) := angle_eq_arg (-1) 1 (Or.inr ⟨by norm_num, by norm_num⟩)
example : C17t.angle (-1) (-1) = Complex.arg (⟨-1, -1⟩ : ℂ) :=
  angle_eq_arg (-1) (-1) (Or.inr ⟨by norm_num, by norm_num⟩)
example : C17t.angle (-1) 1 = Complex.arg (⟨1, -1⟩ : ℂ) := angle_eq_arg 1 (-1) (Or.inl one_pos)

/-- and the values: `arg (−1 + i) = 3π/4`, `arg (−1 − i) = −3π/4` -/
example : Complex.arg (⟨-1, 1⟩ : ℂ) = 3 * Real.pi / 4 := by
  rw [arg_of_re_neg_of_im_pos (-1) 1 (by norm_num) one_pos, show (1 : ℝ) / -1 = -1 by norm_num, Real.arctan_neg,
    Real.arctan_one]
  ring

example : Complex.arg (⟨-1, -1⟩ : ℂ) = -(3 * Real.pi / 4) := by
  rw [arg_of_re_neg_of_im_neg (-1) (-1) (by norm_num) (by norm_num), show (-1 : ℝ) / -1 = 1 by norm_num,
    Real.arctan_one]
  ring

/-- `atan2_bound_arg` (with the gap condition, discharged by the kernel) at `atan2(3, 5)` (first quadrant),
`atan2(1, −2)` (second; the quotient is exactly `−1/2`, a reduction centre), `atan2(−3, −5)` (third),
`atan2(−3, 5)` (fourth) -/
example :
    |rval (TwoFloat.atan2 (f 0x4008000000000000) (f 0x4014000000000000))
      - Complex.arg (⟨rval (f 0x4014000000000000), rval (f 0x4008000000000000)⟩ : ℂ)|
      ≤ 1 / 2 ^ 69 * |Complex.arg (⟨rval (f 0x4014000000000000), rval (f 0x4008000000000000)⟩ : ℂ)| :=
  (atan2_bound_arg (by decide +kernel) (by decide +kernel) (by decide +kernel) (by decide +kernel)
    (by decide +kernel) (by decide +kernel) (by
      intro c hc
      right
      rcases hc with rfl | rfl | rfl <;> decide +kernel)).2

example :
    |rval (TwoFloat.atan2 (f 0x3ff0000000000000) (f 0xc000000000000000))
      - Complex.arg (⟨rval (f 0xc000000000000000), rval (f 0x3ff0000000000000)⟩ : ℂ)|
      ≤ 1 / 2 ^ 69 * |Complex.arg (⟨rval (f 0xc000000000000000), rval (f 0x3ff0000000000000)⟩ : ℂ)| :=
  (atan2_bound_arg (by decide +kernel) (by decide +kernel) (by decide +kernel) (by decide +kernel)
    (by decide +kernel) (by decide +kernel) (by
      intro c hc
      rcases hc with rfl | rfl | rfl
      · left; decide +kernel
      · right; decide +kernel
      · right; decide +kernel)).2

example :
    |rval (TwoFloat.atan2 (f 0xc008000000000000) (f 0xc014000000000000))
      - Complex.arg (⟨rval (f 0xc014000000000000), rval (f 0xc008000000000000)⟩ : ℂ)|
      ≤ 1 / 2 ^ 69 * |Complex.arg (⟨rval (f 0xc014000000000000), rval (f 0xc008000000000000)⟩ : ℂ)| :=
  (atan2_bound_arg (by decide +kernel) (by decide +kernel) (by decide +kernel) (by decide +kernel)
    (by decide +kernel) (by decide +kernel) (by
      intro c hc
      right
      rcases hc with rfl | rfl | rfl <;> decide +kernel)).2

example :
    |rval (TwoFloat.atan2 (f 0xc008000000000000) (f 0x4014000000000000))
      - Complex.arg (⟨rval (f 0x4014000000000000), rval (f 0xc008000000000000)⟩ : ℂ)|
      ≤ 1 / 2 ^ 69 * |Complex.arg (⟨rval (f 0x4014000000000000), rval (f 0xc008000000000000)⟩ : ℂ)| :=
  (atan2_bound_arg (by decide +kernel) (by decide +kernel) (by decide +kernel) (by decide +kernel)
    (by decide +kernel) (by decide +kernel) (by
      intro c hc
      right
      rcases hc with rfl | rfl | rfl <;> decide +kernel)).2

/-- `atan2_bound_full_arg` (no gap condition) at the same four points -/
example :
    |rval (TwoFloat.atan2 (f 0x4008000000000000) (f 0x4014000000000000))
      - Complex.arg (⟨rval (f 0x4014000000000000), rval (f 0x4008000000000000)⟩ : ℂ)|
      ≤ 1 / 2 ^ 69 * |Complex.arg (⟨rval (f 0x4014000000000000), rval (f 0x4008000000000000)⟩ : ℂ)| :=
  (atan2_bound_full_arg (by decide +kernel) (by decide +kernel) (by decide +kernel) (by decide +kernel)
    (by decide +kernel) (by decide +kernel)).2

example :
    |rval (TwoFloat.atan2 (f 0x3ff0000000000000) (f 0xc000000000000000))
      - Complex.arg (⟨rval (f 0xc000000000000000), rval (f 0x3ff0000000000000)⟩ : ℂ)|
      ≤ 1 / 2 ^ 69 * |Complex.arg (⟨rval (f 0xc000000000000000), rval (f 0x3ff0000000000000)⟩ : ℂ)| :=
  (atan2_bound_full_arg (by decide +kernel) (by decide +kernel) (by decide +kernel) (by decide +kernel)
    (by decide +kernel) (by decide +kernel)).2

example :
    |rval (TwoFloat.atan2 (f 0xc008000000000000) (f 0xc014000000000000))
      - Complex.arg (⟨rval (f 0xc014000000000000), rval (f 0xc008000000000000)⟩ : ℂ)|
      ≤ 1 / 2 ^ 69 * |Complex.arg (⟨rval (f 0xc014000000000000), rval (f 0xc008000000000000)⟩ : ℂ)| :=
  (atan2_bound_full_arg (by decide +kernel) (by decide +kernel) (by decide +kernel) (by decide +kernel)
    (by decide +kernel) (by decide +kernel)).2

example :
    |rval (TwoFloat.atan2 (f 0xc008000000000000) (f 0x4014000000000000))
      - Complex.arg (⟨rval (f 0x4014000000000000), rval (f 0xc008000000000000)⟩ : ℂ)|
      ≤ 1 / 2 ^ 69 * |Complex.arg (⟨rval (f 0x4014000000000000), rval (f 0xc008000000000000)⟩ : ℂ)| :=
  (atan2_bound_full_arg (by decide +kernel) (by decide +kernel) (by decide +kernel) (by decide +kernel)
    (by decide +kernel) (by decide +kernel)).2

/-- the values of the operands used above, so that the instances can be read: `rval (f 3.0) = 3` etc. -/
theorem rval_of_V {t : TwoFloat} {c : Int} (h : t.V = c * 2 ^ 1074) : rval t = (c : ℝ) := by
  rw [rval_eq, h, Int.cast_mul, Int.cast_pow, Int.cast_ofNat, mul_div_assoc, div_self (by positivity), mul_one]

example : rval (f 0x4008000000000000) = 3 ∧ rval (f 0x4014000000000000) = 5 ∧ rval (f 0x3ff0000000000000) = 1
    ∧ rval (f 0xc000000000000000) = -2 ∧ rval (f 0xc008000000000000) = -3 ∧ rval (f 0xc014000000000000) = -5 := by
  refine ⟨?_, ?_, ?_, ?_, ?_, ?_⟩
  · exact_mod_cast rval_of_V (c := 3) (by decide +kernel)
  · exact_mod_cast rval_of_V (c := 5) (by decide +kernel)
  · exact_mod_cast rval_of_V (c := 1) (by decide +kernel)
  · exact_mod_cast rval_of_V (c := -2) (by decide +kernel)
  · exact_mod_cast rval_of_V (c := -3) (by decide +kernel)
  · exact_mod_cast rval_of_V (c := -5) (by decide +kernel)

/-- the axis table at `(y, x) = (1, +0)`, `(1, −0)`, `(−1, +0)`, `(+0, 1)`, `(−0, 1)`, `(+0, −1)` and the convention at
`(−0, −1)` -/
private abbrev p0 : TwoFloat := ⟨F64.zero, F64.zero⟩
private abbrev n0 : TwoFloat := ⟨F64.negZero, F64.zero⟩

theorem rval_p0 : rval p0 = 0 := (rval_zero_iff _).2 (by decide +kernel)
theorem rval_n0 : rval n0 = 0 := (rval_zero_iff _).2 (by decide +kernel)
theorem rval_one : rval (f 0x3ff0000000000000) = 1 := by exact_mod_cast rval_of_V (c := 1) (by decide +kernel)
theorem rval_neg_one : rval (f 0xbff0000000000000) = -1 := by exact_mod_cast rval_of_V (c := -1) (by decide +kernel)

example : TwoFloat.atan2 (f 0x3ff0000000000000) p0 = consts.FRAC_PI_2
    ∧ Complex.arg (⟨rval p0, rval (f 0x3ff0000000000000)⟩ : ℂ) = Real.pi / 2 :=
  atan2_pos_zero_arg (by decide +kernel) (by decide +kernel) (by decide +kernel) (by decide +kernel)
    (by rw [rval_one]; exact one_pos) rval_p0

example : TwoFloat.atan2 (f 0x3ff0000000000000) n0 = consts.FRAC_PI_2
    ∧ Complex.arg (⟨rval n0, rval (f 0x3ff0000000000000)⟩ : ℂ) = Real.pi / 2 :=
  atan2_pos_zero_arg (by decide +kernel) (by decide +kernel) (by decide +kernel) (by decide +kernel)
    (by rw [rval_one]; exact one_pos) rval_n0

example : TwoFloat.atan2 (f 0xbff0000000000000) p0 = arithmetic.impl_Neg_for_TwoFloat.neg consts.FRAC_PI_2
    ∧ Complex.arg (⟨rval p0, rval (f 0xbff0000000000000)⟩ : ℂ) = -(Real.pi / 2) :=
  atan2_neg_zero_arg (by decide +kernel) (by decide +kernel) (by decide +kernel) (by decide +kernel)
    (by rw [rval_neg_one]; norm_num) rval_p0

example : TwoFloat.atan2 p0 (f 0x3ff0000000000000) = C17.zero
    ∧ Complex.arg (⟨rval (f 0x3ff0000000000000), rval p0⟩ : ℂ) = 0 :=
  atan2_zero_pos_arg (by decide +kernel) (by decide +kernel) (by decide +kernel) (by decide +kernel)
    rval_p0 (by rw [rval_one]; exact one_pos)

example : TwoFloat.atan2 n0 (f 0x3ff0000000000000) = C17.zero
    ∧ Complex.arg (⟨rval (f 0x3ff0000000000000), rval n0⟩ : ℂ) = 0 :=
  atan2_zero_pos_arg (by decide +kernel) (by decide +kernel) (by decide +kernel) (by decide +kernel)
    rval_n0 (by rw [rval_one]; exact one_pos)

example : TwoFloat.atan2 p0 (f 0xbff0000000000000) = consts.PI
    ∧ Complex.arg (⟨rval (f 0xbff0000000000000), rval p0⟩ : ℂ) = Real.pi :=
  atan2_poszero_neg_arg (by decide +kernel) (by decide +kernel) (by decide +kernel) (by decide +kernel)
    rval_p0 (by decide +kernel) (by rw [rval_neg_one]; norm_num)

example : TwoFloat.atan2 n0 (f 0xbff0000000000000) = arithmetic.impl_Neg_for_TwoFloat.neg consts.PI
    ∧ Complex.arg (⟨rval (f 0xbff0000000000000), rval n0⟩ : ℂ) = Real.pi
    ∧ rval (TwoFloat.atan2 n0 (f 0xbff0000000000000)) = -rval consts.PI :=
  atan2_negzero_neg_arg (by decide +kernel) (by decide +kernel) (by decide +kernel) (by decide +kernel)
    rval_n0 (by decide +kernel) (by rw [rval_neg_one]; norm_num)

/-- `atan2_axis_arg` at `(1, −0)` and `(+0, −1)` -/
example :
    |rval (TwoFloat.atan2 (f 0x3ff0000000000000) n0) - Complex.arg (⟨rval n0, rval (f 0x3ff0000000000000)⟩ : ℂ)|
      ≤ 1 / 2 ^ 107 * |Complex.arg (⟨rval n0, rval (f 0x3ff0000000000000)⟩ : ℂ)| :=
  (atan2_axis_arg (by decide +kernel) (by decide +kernel) (by decide +kernel) (by decide +kernel)
    (Or.inr rval_n0) (Or.inl (by rw [rval_one]; exact one_ne_zero))
    (fun h => absurd h (by rw [rval_one]; exact one_ne_zero))).2

example :
    |rval (TwoFloat.atan2 p0 (f 0xbff0000000000000)) - Complex.arg (⟨rval (f 0xbff0000000000000), rval p0⟩ : ℂ)|
      ≤ 1 / 2 ^ 107 * |Complex.arg (⟨rval (f 0xbff0000000000000), rval p0⟩ : ℂ)| :=
  (atan2_axis_arg (by decide +kernel) (by decide +kernel) (by decide +kernel) (by decide +kernel)
    (Or.inl rval_p0) (Or.inr (by rw [rval_neg_one]; norm_num)) (fun _ _ => by decide +kernel)).2

end C17v
