/-
C15 (structural layer) — logarithms: exact points and domain errors as the code's branches state them,
`log` / `log10` as quotients, and closed instances evaluated by the kernel.
-/
import TFV.Spec.Defs
import TFV.Lemmas.Ident
import TFV.Lemmas.LnCore

namespace C15

abbrev zero : TwoFloat := convert.impl_From_f64_for_TwoFloat.from (f64lit 0x0000000000000000)

theorem zero_words : zero = ⟨F64.zero, F64.zero⟩ := by decide +kernel

/-! ### `ln` -/

/-- `ln 1 = 0`: the `self == 1.0` branch -/
theorem ln_one (x : TwoFloat) (h : base.impl_PartialEq_f64_for_TwoFloat.eq x (f64lit 0x3ff0000000000000) = true) :
    TwoFloat.ln x = zero :=
  LnCore.ln_go_succ_one 7 x h

/-- `ln x = NAN` for `x ≤ 0` (the comparison is the crate's `PartialOrd<f64>`); the `== 1.0` test before it
cannot fire -/
theorem ln_nonpos (x : TwoFloat)
    (h : ROrd.isLe (base.impl_PartialOrd_f64_for_TwoFloat.partial_cmp x (f64lit 0)) = true) :
    TwoFloat.ln x = TwoFloat.NAN :=
  LnCore.ln_go_succ_nonpos 7 x (Ident.tf_le_zero_imp_ne_one x h) h

theorem ln_pf_one (x : TwoFloat) (h : base.impl_PartialEq_f64_for_TwoFloat.eq x (f64lit 0x3ff0000000000000) = true) :
    TwoFloat.ln.pf x = true :=
  LnCore.ln_go_pf_succ_one 7 x h

theorem ln_pf_nonpos (x : TwoFloat)
    (h : ROrd.isLe (base.impl_PartialOrd_f64_for_TwoFloat.partial_cmp x (f64lit 0)) = true) :
    TwoFloat.ln.pf x = true :=
  LnCore.ln_go_pf_succ_nonpos 7 x h

/-- the generic branch of the core: an f64 estimate followed by three Newton steps `x += v·exp(−x) − 1` -/
theorem lnCore_general (v : TwoFloat)
    (h1 : base.impl_PartialEq_f64_for_TwoFloat.eq v (f64lit 0x3ff0000000000000) = false)
    (h2 : ROrd.isLe (base.impl_PartialOrd_f64_for_TwoFloat.partial_cmp v (f64lit 0)) = false) :
    TwoFloat.lnCore v =
      (let step (x : TwoFloat) : TwoFloat :=
         (v *. TwoFloat.exp (arithmetic.impl_Neg_for_TwoFloat.neg x)) -. (f64lit 0x3ff0000000000000)
       let x0 : TwoFloat := ⟨Libm.log v.hi, f64lit 0⟩
       let x1 := x0 +. step x0
       let x2 := x1 +. step x1
       (x2 +. (v *. TwoFloat.exp (arithmetic.impl_Neg_for_TwoFloat.neg x2))) -. (f64lit 0x3ff0000000000000)) := by
  unfold TwoFloat.lnCore
  simp only [h1, h2]
  rfl

/-- the generic branch (high word not below `2^-1000`): an f64 estimate followed by three Newton steps
`x += v·exp(−x) − 1` -/
theorem ln_general (v : TwoFloat)
    (h1 : base.impl_PartialEq_f64_for_TwoFloat.eq v (f64lit 0x3ff0000000000000) = false)
    (h2 : ROrd.isLe (base.impl_PartialOrd_f64_for_TwoFloat.partial_cmp v (f64lit 0)) = false)
    (h3 : (v.hi <. f64lit 0x0170000000000000) = false) :
    TwoFloat.ln v =
      (let step (x : TwoFloat) : TwoFloat :=
         (v *. TwoFloat.exp (arithmetic.impl_Neg_for_TwoFloat.neg x)) -. (f64lit 0x3ff0000000000000)
       let x0 : TwoFloat := ⟨Libm.log v.hi, f64lit 0⟩
       let x1 := x0 +. step x0
       let x2 := x1 +. step x1
       (x2 +. (v *. TwoFloat.exp (arithmetic.impl_Neg_for_TwoFloat.neg x2))) -. (f64lit 0x3ff0000000000000)) := by
  rw [LnCore.ln_eq_lnCore v h3]
  exact lnCore_general v h1 h2

/-- the rescaling branch (positive argument with high word below `2^-1000`): `ln v = ln (v·2^200) − 200·LN_2`,
one level of the recursion (the inner call has fuel 7) -/
theorem ln_tiny (v : TwoFloat)
    (h1 : base.impl_PartialEq_f64_for_TwoFloat.eq v (f64lit 0x3ff0000000000000) = false)
    (h2 : ROrd.isLe (base.impl_PartialOrd_f64_for_TwoFloat.partial_cmp v (f64lit 0)) = false)
    (h3 : (v.hi <. f64lit 0x0170000000000000) = true) :
    TwoFloat.ln v = TwoFloat.ln.go 7 (v *. f64lit 0x4c70000000000000) -. ((f64lit 0x4069000000000000) *. consts.LN_2) :=
  LnCore.ln_go_succ_tiny 7 v h1 h2 h3

/-! ### `log2` -/

theorem log2_one (x : TwoFloat) (h : base.impl_PartialEq_f64_for_TwoFloat.eq x (f64lit 0x3ff0000000000000) = true) :
    TwoFloat.log2 x = zero := by
  unfold TwoFloat.log2
  simp only [h, if_true]

theorem log2_nonpos (x : TwoFloat)
    (h : ROrd.isLe (base.impl_PartialOrd_f64_for_TwoFloat.partial_cmp x (f64lit 0)) = true) :
    TwoFloat.log2 x = TwoFloat.NAN := by
  unfold TwoFloat.log2
  simp [Ident.tf_le_zero_imp_ne_one x h, h]

theorem log2_pf_nonpos (x : TwoFloat)
    (h : ROrd.isLe (base.impl_PartialOrd_f64_for_TwoFloat.partial_cmp x (f64lit 0)) = true) :
    TwoFloat.log2.pf x = true := by
  unfold TwoFloat.log2.pf
  simp [Ident.tf_le_zero_imp_ne_one x h, h]

/-! ### `ln_1p` -/

theorem ln_1p_zero (x : TwoFloat) (h : base.impl_PartialEq_f64_for_TwoFloat.eq x (f64lit 0) = true) :
    TwoFloat.ln_1p x = zero := by
  unfold TwoFloat.ln_1p
  simp only [h, if_true]

/-- `ln_1p x = NAN` for `x ≤ −1` -/
theorem ln_1p_le_neg_one (x : TwoFloat)
    (h : ROrd.isLe (base.impl_PartialOrd_f64_for_TwoFloat.partial_cmp x (F64.neg (f64lit 0x3ff0000000000000))) = true) :
    TwoFloat.ln_1p x = TwoFloat.NAN := by
  unfold TwoFloat.ln_1p
  simp [Ident.tf_le_neg_one_imp_ne_zero x h, h]

theorem ln_1p_pf_le_neg_one (x : TwoFloat)
    (h : ROrd.isLe (base.impl_PartialOrd_f64_for_TwoFloat.partial_cmp x (F64.neg (f64lit 0x3ff0000000000000))) = true) :
    TwoFloat.ln_1p.pf x = true := by
  unfold TwoFloat.ln_1p.pf
  simp [Ident.tf_le_neg_one_imp_ne_zero x h, h]

/-! ### `log`, `log10`: bit-identical to the quotients -/

theorem log_eq (x b : TwoFloat) : TwoFloat.log x b = TwoFloat.ln x /. TwoFloat.ln b := rfl
theorem log10_eq (x : TwoFloat) : TwoFloat.log10 x = TwoFloat.ln x /. consts.LN_10 := rfl
theorem log10_eq_private (x : TwoFloat) : TwoFloat.log10 x = TwoFloat.ln x /. explog.LN_10 := rfl
theorem log_pf_eq (x b : TwoFloat) : TwoFloat.log.pf x b = (TwoFloat.ln.pf x && TwoFloat.ln.pf b) := rfl
theorem log10_pf_eq (x : TwoFloat) : TwoFloat.log10.pf x = TwoFloat.ln.pf x := rfl
theorem log10_eq_log (x b : TwoFloat) (h : TwoFloat.ln b = consts.LN_10) : TwoFloat.log x b = TwoFloat.log10 x := by
  rw [log_eq, log10_eq, h]

/-- consequently log10 of a non-positive value is NAN / LN_10 = NAN -/
theorem log10_nonpos (x : TwoFloat)
    (h : ROrd.isLe (base.impl_PartialOrd_f64_for_TwoFloat.partial_cmp x (f64lit 0)) = true) :
    TwoFloat.log10 x = TwoFloat.NAN := by
  rw [log10_eq, ln_nonpos x h]
  decide +kernel

theorem log10_one (x : TwoFloat) (h : base.impl_PartialEq_f64_for_TwoFloat.eq x (f64lit 0x3ff0000000000000) = true) :
    TwoFloat.log10 x = ⟨F64.zero, F64.zero⟩ := by
  rw [log10_eq, ln_one x h]
  decide +kernel

/-! ### closed instances -/

theorem ln_one_closed : TwoFloat.ln ⟨F64.one, F64.zero⟩ = ⟨F64.zero, F64.zero⟩ := by decide +kernel
theorem log2_one_closed : TwoFloat.log2 ⟨F64.one, F64.zero⟩ = ⟨F64.zero, F64.zero⟩ := by decide +kernel
theorem log10_one_closed : TwoFloat.log10 ⟨F64.one, F64.zero⟩ = ⟨F64.zero, F64.zero⟩ := by decide +kernel
theorem ln_1p_zero_closed : TwoFloat.ln_1p ⟨F64.zero, F64.zero⟩ = ⟨F64.zero, F64.zero⟩ := by decide +kernel

theorem ln_zero : TwoFloat.ln ⟨F64.zero, F64.zero⟩ = TwoFloat.NAN := by decide +kernel
theorem ln_neg_zero : TwoFloat.ln ⟨F64.negZero, F64.zero⟩ = TwoFloat.NAN := by decide +kernel
theorem ln_minus_one : TwoFloat.ln ⟨F64.neg F64.one, F64.zero⟩ = TwoFloat.NAN := by decide +kernel
theorem log2_zero : TwoFloat.log2 ⟨F64.zero, F64.zero⟩ = TwoFloat.NAN := by decide +kernel
theorem log10_minus_one : TwoFloat.log10 ⟨F64.neg F64.one, F64.zero⟩ = TwoFloat.NAN := by decide +kernel
theorem ln_1p_minus_one : TwoFloat.ln_1p ⟨F64.neg F64.one, F64.zero⟩ = TwoFloat.NAN := by decide +kernel
theorem ln_1p_minus_two : TwoFloat.ln_1p ⟨f64lit 0xc000000000000000, F64.zero⟩ = TwoFloat.NAN := by decide +kernel
theorem ln_NAN_invalid : (TwoFloat.ln ⟨F64.zero, F64.zero⟩).is_valid = false := by decide +kernel

/-- `log2(2^3) = 3` exactly (libm estimate + two Newton steps through `exp2`, all in the kernel) -/
theorem log2_eight : TwoFloat.log2 ⟨f64lit 0x4020000000000000, F64.zero⟩ = ⟨f64lit 0x4008000000000000, F64.zero⟩ := by
  decide +kernel

/-- the whole `ln` pipeline on a non-trivial argument: ln(e) = 1 + 2^-108 (one unit of the 107th bit: the
constant E is itself e·(1 + O(2^-107))) and the call is panic-free -/
example :
    TwoFloat.ln consts.E = ⟨f64lit 0x3ff0000000000000, f64lit 0x3930000000000000⟩ ∧ TwoFloat.ln.pf consts.E = true := by
  decide +kernel

end C15
