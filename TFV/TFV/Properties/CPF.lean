/-
CPF — panic-freedom of EVERY public entry point, for EVERY admissible argument (no range restriction).

For every translated function `f` with a panic source (assertion, `panic!`, checked integer arithmetic, shift amount,
index, fuel of a loop, or a callee with one) the translator emits `f.pf : args → Bool` ("the execution of `f` on these
arguments does not panic").  `TFV/model/entrypoints.json` lists 378 public entry points; 120 of them carry a `.pf`
(the other 258 — all operator impls `+ - * / %` and their assigning forms, `new_add … new_div`, `sqrt`, `cbrt`, `hypot`,
`recip`, `to_degrees`, `to_radians`, `div_euclid`, `rem_euclid`, `abs`, `floor`, `ceil`, `trunc`, `round`, `fract`,
`copysign`, `is_sign_*`, `From<f64/f32/i8…i32/u8…u32>`, `TryFrom<TwoFloat>` for the 8/16/32-bit integers (`as` casts
saturate, they do not panic), the mixed comparisons … — contain NO panic source, the translator emits no `.pf` for
them, and there is nothing to prove: they are panic-free on all inputs by construction of the model).

This file is the complete table for the 120: for each a theorem `f.pf args = true` whose hypotheses constrain the
ARGUMENTS only:
  * `PF.Good x` (`x.Inv ∧ x.WF`: a valid pair, or a pair with a non-finite high word; both words bit patterns of
    doubles) — in particular every valid `x`, of every magnitude (`PF.Good.of_valid`);
  * only `x.WF` where the proof needs no more (comparisons, `is_valid`, trigonometric functions, …), nothing at all for
    `exp2`, `log2`, `atan2`;
  * `n.inRange = true` for a machine integer `n` of the widths where the model carries an unbounded `Int`
    (every actual Rust value satisfies it); `f.WF` for a double.

NEW here (§1): `asinh_pf_all`, `acosh_pf_all`, `atanh_pf_all`, `ln_1p_pf_all` — these were proved only on the ranges of
the accuracy clauses (`C18i`, `C18j`, `C15n`).  With division closed under `Good` for all magnitudes (`C01e`) every
intermediate value of these functions is `Good`, and `ln`, `exp_m1` are panic-free on every `Good` argument.
Also new (§2): `min`, `max`, `PartialEq::eq`, `is_zero`, the tuple / array `TryFrom`, the four wide `TryFrom<TwoFloat>`
for `Good` (not only valid) arguments, `from_isize`/`from_usize`/`to_isize`/`to_usize`, and the integer `Pow` impls
without any hypothesis on the exponent (`i8/i16/u8/u16 as i32` cannot leave the range of `i32`).
Everything else (§3 inherent methods, §4 trait impls, §4b private helpers under their contracts) is re-exported from the
module where it was proved.

NO WITNESS: no entry point panics on an admissible argument — every `.pf` of the table is PROVED `true`, so there is no
`…_partial` statement.  The only `.pf` of the model that is `false` is `Float::integer_decode` /
`FloatCore::integer_decode`, whose body in the crate is the single statement `panic!("cannot decode mantissa to u64")`
(documented behaviour, not an entry point of the harness): `integer_decode_always_panics`.
-/
import TFV.Properties.C01e
import TFV.Properties.C07
import TFV.Properties.C09
import TFV.Properties.C10
import TFV.Properties.C13
import TFV.Properties.C14p
import TFV.Properties.C15p
import TFV.Properties.C16p
import TFV.Properties.C17p
import TFV.Properties.C18p

set_option exponentiation.threshold 4500
set_option maxRecDepth 100000

namespace CPF

open F64 TwoFloat PF C01m C01e

/-! ## §0 the three callees everything reduces to, on `Good` arguments -/

/-- `exp` never panics on a `Good` argument (the two `assert!`s of `expm1_quarter` / the table look-ups) -/
theorem exp_pf_all (x : TwoFloat) (hx : Good x) : TwoFloat.exp.pf x = true := PF.exp_pf_good hx

/-- `exp_m1` never panics on a `Good` argument -/
theorem exp_m1_pf_all (x : TwoFloat) (hx : Good x) : TwoFloat.exp_m1.pf x = true := PF.exp_m1_pf x hx

/-- `ln` never panics on a `Good` argument (three calls of `exp` at Newton iterates, each `Good`) -/
theorem ln_pf_all (x : TwoFloat) (hx : Good x) : TwoFloat.ln.pf x = true := C15p.ln_pf x hx.1 hx.2

/-! ## §1 NEW: the inverse hyperbolic functions and `ln_1p`, every `Good` argument -/

/-- **`asinh` never panics**: `ln.pf (|x| + sqrt(|x|·|x| + 1.0))`, the argument of `ln` is `Good` -/
theorem asinh_pf_all (x : TwoFloat) (hx : Good x) : TwoFloat.asinh.pf x = true :=
  have ha := good_abs hx
  ln_pf_all _ (good_add_tt ha (good_sqrt (good_add_tf (good_mul_tt ha ha) lit_one_WF)))

/-- **`acosh` never panics**: nothing is called for `x < 1.0`, else `ln.pf (x + sqrt(x·x − 1.0))` -/
theorem acosh_pf_all (x : TwoFloat) (hx : Good x) : TwoFloat.acosh.pf x = true := by
  unfold TwoFloat.acosh.pf
  split_ifs
  · rfl
  · exact ln_pf_all _ (good_add_tt hx (good_sqrt (good_sub_tf (good_mul_tt hx hx) lit_one_WF)))

/-- **`atanh` never panics**: `ln.pf ((1.0 + x) / (1.0 − x))`; the long division is closed under `Good` for all
magnitudes (`C01e`), including `x = ±1` (division by zero) and `|x|` huge -/
theorem atanh_pf_all (x : TwoFloat) (hx : Good x) : TwoFloat.atanh.pf x = true :=
  ln_pf_all _ (good_div_tt_all (good_add_ft lit_one_WF hx) (good_sub_ft lit_one_WF hx))

/-- **`ln_1p` never panics**: `ln.pf (1.0 + x)` on `(−1, −1/2]`; above, `exp_m1.pf` at the `log1p` seed and at the
first Newton iterate `x₀ − (expm1 x₀ − x)/(expm1 x₀ + 1.0)` — both `Good` -/
theorem ln_1p_pf_all (x : TwoFloat) (hx : Good x) : TwoFloat.ln_1p.pf x = true := by
  unfold TwoFloat.ln_1p.pf
  split_ifs
  · rfl
  · rfl
  · exact ln_pf_all _ (good_add_ft lit_one_WF hx)
  · have h0 : Good (convert.impl_From_f64_for_TwoFloat.from (Libm.log1p x.hi)) := good_from (libm_log1p_WF hx.2.1)
    have he := good_exp_m1 h0
    have h1 := good_sub_assign_tt h0 (good_div_tt_all (good_sub_tt he hx) (good_add_tf he lit_one_WF))
    dsimp only
    rw [Bool.and_eq_true]
    exact ⟨exp_m1_pf_all _ h0, exp_m1_pf_all _ h1⟩

/-! ## §2 NEW: comparisons, conversions, `Pow` — the cases not stated elsewhere in this generality -/

/-- an integer cast `as i32` / `as i64` / `as u64` wraps: its result is always a value of the target type -/
theorem wrap_inRange_i32 (z : Int) : (IntN.wrap z : I32).inRange = true := by
  simp only [IntN.wrap, IntN.inRange, IntN.fits, IntN.wrapV, IntN.minV, IntN.maxV, Bool.and_eq_true,
    decide_eq_true_eq, Bool.true_and, if_true]
  norm_num
  split_ifs <;> omega

theorem wrap_inRange_i64 (z : Int) : (IntN.wrap z : I64).inRange = true := by
  simp only [IntN.wrap, IntN.inRange, IntN.fits, IntN.wrapV, IntN.minV, IntN.maxV, Bool.and_eq_true,
    decide_eq_true_eq, Bool.true_and, if_true]
  norm_num
  split_ifs <;> omega

theorem wrap_inRange_u64 (z : Int) : (IntN.wrap z : U64).inRange = true := by
  simp only [IntN.wrap, IntN.inRange, IntN.fits, IntN.wrapV, IntN.minV, IntN.maxV, Bool.and_eq_true,
    decide_eq_true_eq, Bool.false_and, Bool.false_eq_true, if_false]
  norm_num
  omega

/-- `base::no_overlap` (the only checked operation: `biased_exponent − offset` in `i16`) -/
theorem no_overlap_pf (a b : F64) (ha : a.WF) (hb : b.WF) : base.no_overlap.pf a b = true := C07.no_overlap_pf a b ha hb

theorem is_valid_pf (x : TwoFloat) (hx : x.WF) : TwoFloat.is_valid.pf x = true := C07.is_valid_pf x hx

/-- `PartialOrd::partial_cmp` on two `TwoFloat`s -/
theorem partial_cmp_pf (a b : TwoFloat) (ha : a.WF) (hb : b.WF) :
    base.impl_PartialOrd_TwoFloat_for_TwoFloat.partial_cmp.pf a b = true := PF.tcmp_pf ha hb

/-- `PartialEq::eq` on two `TwoFloat`s -/
theorem eq_pf (a b : TwoFloat) (ha : a.WF) (hb : b.WF) :
    base.impl_PartialEq_TwoFloat_for_TwoFloat.eq.pf a b = true := by
  unfold base.impl_PartialEq_TwoFloat_for_TwoFloat.eq.pf
  rw [PF.is_valid_pf ha, PF.is_valid_pf hb]
  simp

theorem min_pf (a b : TwoFloat) (ha : a.WF) (hb : b.WF) : TwoFloat.min.pf a b = true := by
  unfold TwoFloat.min.pf
  rw [PF.is_valid_pf ha, PF.is_valid_pf hb, PF.tcmp_pf ha hb]
  simp

theorem max_pf (a b : TwoFloat) (ha : a.WF) (hb : b.WF) : TwoFloat.max.pf a b = true := by
  unfold TwoFloat.max.pf
  rw [PF.is_valid_pf ha, PF.is_valid_pf hb, PF.tcmp_pf ha hb]
  simp

theorem signum_pf (x : TwoFloat) (hx : x.WF) : TwoFloat.signum.pf x = true := PF.is_valid_pf hx

/-- `Zero::is_zero` (`self == TwoFloat { hi: 0.0, lo: 0.0 }`) -/
theorem is_zero_pf (x : TwoFloat) (hx : x.WF) : num_integration.impl_Zero_for_TwoFloat.is_zero.pf x = true :=
  eq_pf x _ hx (by decide +kernel)

/-- `TwoFloat::try_from((a, b))` and `TwoFloat::try_from([a, b])` -/
theorem try_from_tuple_pf (v : F64 × F64) (h1 : v.1.WF) (h2 : v.2.WF) :
    convert.impl_TryFrom_tup_f64_f64_for_TwoFloat.try_from.pf v = true := C07.no_overlap_pf _ _ h1 h2

theorem try_from_array_pf (v : Arr2) (h0 : v.a0.WF) (h1 : v.a1.WF) :
    convert.impl_TryFrom_arr2_f64_for_TwoFloat.try_from.pf v = true := C07.no_overlap_pf _ _ h0 h1

/-- `i64::try_from(x)`, …, `u128::try_from(x)`: for valid `x` by `C09.try_from_*` (exactness of `trunc`), for a
non-finite high word the range check fails before any integer arithmetic -/
theorem try_from_i64_pf (x : TwoFloat) (hx : Good x) : convert.impl_TryFrom_TwoFloat_for_i64.try_from.pf x = true := by
  rcases hx.1 with hv | hn
  · exact (C09.try_from_i64 x hv hx.2).2
  · exact (C09.try_from_big_not_finite x hn).1.2

theorem try_from_u64_pf (x : TwoFloat) (hx : Good x) : convert.impl_TryFrom_TwoFloat_for_u64.try_from.pf x = true := by
  rcases hx.1 with hv | hn
  · exact (C09.try_from_u64 x hv hx.2).2
  · exact (C09.try_from_big_not_finite x hn).2.1.2

theorem try_from_i128_pf (x : TwoFloat) (hx : Good x) : convert.impl_TryFrom_TwoFloat_for_i128.try_from.pf x = true := by
  rcases hx.1 with hv | hn
  · exact (C09.try_from_i128 x hv hx.2).2
  · exact (C09.try_from_big_not_finite x hn).2.2.1.2

theorem try_from_u128_pf (x : TwoFloat) (hx : Good x) : convert.impl_TryFrom_TwoFloat_for_u128.try_from.pf x = true := by
  rcases hx.1 with hv | hn
  · exact (C09.try_from_u128 x hv hx.2).2
  · exact (C09.try_from_big_not_finite x hn).2.2.2.2

/-- the `TryFrom<&TwoFloat>` impls -/
theorem try_from_ref_i64_pf (x : TwoFloat) (hx : Good x) :
    convert.impl_TryFrom_rTwoFloat_for_i64.try_from.pf x = true := (C09.try_from_ref_i64_pf x).trans (try_from_i64_pf x hx)
theorem try_from_ref_u64_pf (x : TwoFloat) (hx : Good x) :
    convert.impl_TryFrom_rTwoFloat_for_u64.try_from.pf x = true := (C09.try_from_ref_u64_pf x).trans (try_from_u64_pf x hx)
theorem try_from_ref_i128_pf (x : TwoFloat) (hx : Good x) :
    convert.impl_TryFrom_rTwoFloat_for_i128.try_from.pf x = true :=
  (C09.try_from_ref_i128_pf x).trans (try_from_i128_pf x hx)
theorem try_from_ref_u128_pf (x : TwoFloat) (hx : Good x) :
    convert.impl_TryFrom_rTwoFloat_for_u128.try_from.pf x = true :=
  (C09.try_from_ref_u128_pf x).trans (try_from_u128_pf x hx)

/-- `ToPrimitive::to_i64 … to_usize` (`usize`/`isize` are 64 bits wide in the model: `size_of::<usize>() == 8`) -/
theorem to_i64_pf (x : TwoFloat) (hx : Good x) : num_integration.impl_ToPrimitive_for_TwoFloat.to_i64.pf x = true :=
  try_from_ref_i64_pf x hx
theorem to_u64_pf (x : TwoFloat) (hx : Good x) : num_integration.impl_ToPrimitive_for_TwoFloat.to_u64.pf x = true :=
  try_from_ref_u64_pf x hx
theorem to_i128_pf (x : TwoFloat) (hx : Good x) : num_integration.impl_ToPrimitive_for_TwoFloat.to_i128.pf x = true :=
  try_from_ref_i128_pf x hx
theorem to_u128_pf (x : TwoFloat) (hx : Good x) : num_integration.impl_ToPrimitive_for_TwoFloat.to_u128.pf x = true :=
  try_from_ref_u128_pf x hx
theorem to_isize_pf (x : TwoFloat) (hx : Good x) : num_integration.impl_ToPrimitive_for_TwoFloat.to_isize.pf x = true :=
  to_i64_pf x hx
theorem to_usize_pf (x : TwoFloat) (hx : Good x) : num_integration.impl_ToPrimitive_for_TwoFloat.to_usize.pf x = true :=
  to_u64_pf x hx

/-- `TwoFloat::from(n)` for the wide integer types, `FromPrimitive::from_i64 … from_usize` -/
theorem from_i64_pf (n : I64) (h : n.inRange = true) : convert.impl_From_i64_for_TwoFloat.from.pf n = true :=
  C09.from_i64_pf n h
theorem from_u64_pf (n : U64) (h : n.inRange = true) : convert.impl_From_u64_for_TwoFloat.from.pf n = true :=
  C09.from_u64_pf n h
theorem from_i128_pf (n : I128) (h : n.inRange = true) : convert.impl_From_i128_for_TwoFloat.from.pf n = true :=
  C09.from_i128_pf n h
theorem from_u128_pf (n : U128) (h : n.inRange = true) : convert.impl_From_u128_for_TwoFloat.from.pf n = true :=
  C09.from_u128_pf n h
theorem FromPrimitive_from_i64_pf (n : I64) (h : n.inRange = true) :
    num_integration.impl_FromPrimitive_for_TwoFloat.from_i64.pf n = true := C09.from_i64_pf n h
theorem FromPrimitive_from_u64_pf (n : U64) (h : n.inRange = true) :
    num_integration.impl_FromPrimitive_for_TwoFloat.from_u64.pf n = true := C09.from_u64_pf n h
theorem FromPrimitive_from_i128_pf (n : I128) (h : n.inRange = true) :
    num_integration.impl_FromPrimitive_for_TwoFloat.from_i128.pf n = true := C09.from_i128_pf n h
theorem FromPrimitive_from_u128_pf (n : U128) (h : n.inRange = true) :
    num_integration.impl_FromPrimitive_for_TwoFloat.from_u128.pf n = true := C09.from_u128_pf n h
/-- `from_isize(n)` is `from_i64(n as i64)`; the cast wraps, so no hypothesis on `n` is needed -/
theorem FromPrimitive_from_isize_pf (n : Isize) :
    num_integration.impl_FromPrimitive_for_TwoFloat.from_isize.pf n = true :=
  C09.from_i64_pf (RCast.cast n : I64) (wrap_inRange_i64 n.v)
theorem FromPrimitive_from_usize_pf (n : Usize) :
    num_integration.impl_FromPrimitive_for_TwoFloat.from_usize.pf n = true :=
  C09.from_u64_pf (RCast.cast n : U64) (wrap_inRange_u64 n.v)

/-- `powi`: the exponent is an actual `i32` (`unsigned_abs` and the square-and-multiply loop: no overflow, 33 rounds of
fuel suffice); no hypothesis on `x` at all -/
theorem powi_pf (x : TwoFloat) (n : I32) (h : n.inRange = true) : TwoFloat.powi.pf x n = true := C13.powi_pf x n h

/-- `powi` after a widening cast of the exponent (`Pow<i8>`, `Pow<i16>`, `Pow<u8>`, `Pow<u16>`): unconditional -/
theorem powi_cast_pf {s : Bool} {b : Nat} (x : TwoFloat) (n : IntN s b) :
    TwoFloat.powi.pf x (RCast.cast n : I32) = true := C13.powi_pf x _ (wrap_inRange_i32 n.v)

/-! ## §3 re-exports: the remaining inherent methods -/

theorem exp2_pf (x : TwoFloat) : TwoFloat.exp2.pf x = true := C14p.exp2_pf x
theorem log2_pf (x : TwoFloat) : TwoFloat.log2.pf x = true := C15p.log2_pf x
theorem log_pf_all (x b : TwoFloat) (hx : Good x) (hb : Good b) : TwoFloat.log.pf x b = true :=
  C15p.log_pf x b hx.1 hx.2 hb.1 hb.2
theorem log10_pf_all (x : TwoFloat) (hx : Good x) : TwoFloat.log10.pf x = true := C15p.log10_pf x hx.1 hx.2
theorem cosh_pf_all (x : TwoFloat) (hx : Good x) : TwoFloat.cosh.pf x = true := C18p.cosh_pf x hx.1 hx.2
theorem sinh_pf_all (x : TwoFloat) (hx : Good x) : TwoFloat.sinh.pf x = true := C18p.sinh_pf x hx.1 hx.2
theorem tanh_pf_all (x : TwoFloat) (hx : Good x) : TwoFloat.tanh.pf x = true := C18p.tanh_pf x hx.1 hx.2
theorem powf_pf_all (x y : TwoFloat) (hx : Good x) (hy : Good y) : TwoFloat.powf.pf x y = true :=
  C14p.powf_pf x y hx.1 hx.2 hy.1 hy.2
/-- `powf` with a double exponent (`Pow<f64>`) -/
theorem powf_f64_pf_all (x : TwoFloat) (y : F64) (hx : Good x) (hy : y.WF) :
    TwoFloat.powf.pf x (convert.impl_From_f64_for_TwoFloat.from y) = true := powf_pf_all x _ hx (good_from hy)
theorem sin_pf (x : TwoFloat) (hx : x.WF) : TwoFloat.sin.pf x = true := C16p.sin_pf x hx
theorem cos_pf (x : TwoFloat) (hx : x.WF) : TwoFloat.cos.pf x = true := C16p.cos_pf x hx
theorem sin_cos_pf (x : TwoFloat) (hx : x.WF) : TwoFloat.sin_cos.pf x = true := C16p.sin_cos_pf x hx
theorem tan_pf (x : TwoFloat) (hx : x.WF) : TwoFloat.tan.pf x = true := C16p.tan_pf x hx
theorem asin_pf (x : TwoFloat) (hx : x.WF) : TwoFloat.asin.pf x = true := C17p.asin_pf x hx
theorem acos_pf (x : TwoFloat) (hx : x.WF) : TwoFloat.acos.pf x = true := C17p.acos_pf x hx
theorem atan_pf (x : TwoFloat) (hx : x.WF) : TwoFloat.atan.pf x = true := C17p.atan_pf x hx
theorem atan2_pf (y x : TwoFloat) : TwoFloat.atan2.pf y x = true := C17p.atan2_pf y x

/-! ## §4 the trait impls (`num_traits::{Signed, FloatCore, Float, Pow}`): each forwards to the inherent method -/

theorem Signed_signum_pf (x : TwoFloat) (hx : x.WF) :
    num_integration.impl_Signed_for_TwoFloat.signum.pf x = true := signum_pf x hx
theorem FloatCore_is_finite_pf (x : TwoFloat) (hx : x.WF) :
    num_integration.impl_FloatCore_for_TwoFloat.is_finite.pf x = true := is_valid_pf x hx
theorem FloatCore_signum_pf (x : TwoFloat) (hx : x.WF) :
    num_integration.impl_FloatCore_for_TwoFloat.signum.pf x = true := signum_pf x hx
theorem FloatCore_min_pf (a b : TwoFloat) (ha : a.WF) (hb : b.WF) :
    num_integration.impl_FloatCore_for_TwoFloat.min.pf a b = true := min_pf a b ha hb
theorem FloatCore_max_pf (a b : TwoFloat) (ha : a.WF) (hb : b.WF) :
    num_integration.impl_FloatCore_for_TwoFloat.max.pf a b = true := max_pf a b ha hb
theorem FloatCore_powi_pf (x : TwoFloat) (n : I32) (h : n.inRange = true) :
    num_integration.impl_FloatCore_for_TwoFloat.powi.pf x n = true := powi_pf x n h
theorem Float_is_finite_pf (x : TwoFloat) (hx : x.WF) :
    num_integration.impl_Float_for_TwoFloat.is_finite.pf x = true := is_valid_pf x hx
theorem Float_signum_pf (x : TwoFloat) (hx : x.WF) :
    num_integration.impl_Float_for_TwoFloat.signum.pf x = true := signum_pf x hx
theorem Float_min_pf (a b : TwoFloat) (ha : a.WF) (hb : b.WF) :
    num_integration.impl_Float_for_TwoFloat.min.pf a b = true := min_pf a b ha hb
theorem Float_max_pf (a b : TwoFloat) (ha : a.WF) (hb : b.WF) :
    num_integration.impl_Float_for_TwoFloat.max.pf a b = true := max_pf a b ha hb
theorem Float_powi_pf (x : TwoFloat) (n : I32) (h : n.inRange = true) :
    num_integration.impl_Float_for_TwoFloat.powi.pf x n = true := powi_pf x n h
theorem Float_powf_pf (x y : TwoFloat) (hx : Good x) (hy : Good y) :
    num_integration.impl_Float_for_TwoFloat.powf.pf x y = true := powf_pf_all x y hx hy
theorem Float_exp_pf (x : TwoFloat) (hx : Good x) :
    num_integration.impl_Float_for_TwoFloat.exp.pf x = true := exp_pf_all x hx
theorem Float_exp2_pf (x : TwoFloat) :
    num_integration.impl_Float_for_TwoFloat.exp2.pf x = true := exp2_pf x
theorem Float_ln_pf (x : TwoFloat) (hx : Good x) :
    num_integration.impl_Float_for_TwoFloat.ln.pf x = true := ln_pf_all x hx
theorem Float_log_pf (x b : TwoFloat) (hx : Good x) (hb : Good b) :
    num_integration.impl_Float_for_TwoFloat.log.pf x b = true := log_pf_all x b hx hb
theorem Float_log2_pf (x : TwoFloat) :
    num_integration.impl_Float_for_TwoFloat.log2.pf x = true := log2_pf x
theorem Float_log10_pf (x : TwoFloat) (hx : Good x) :
    num_integration.impl_Float_for_TwoFloat.log10.pf x = true := log10_pf_all x hx
theorem Float_sin_pf (x : TwoFloat) (hx : x.WF) :
    num_integration.impl_Float_for_TwoFloat.sin.pf x = true := sin_pf x hx
theorem Float_cos_pf (x : TwoFloat) (hx : x.WF) :
    num_integration.impl_Float_for_TwoFloat.cos.pf x = true := cos_pf x hx
theorem Float_tan_pf (x : TwoFloat) (hx : x.WF) :
    num_integration.impl_Float_for_TwoFloat.tan.pf x = true := tan_pf x hx
theorem Float_asin_pf (x : TwoFloat) (hx : x.WF) :
    num_integration.impl_Float_for_TwoFloat.asin.pf x = true := asin_pf x hx
theorem Float_acos_pf (x : TwoFloat) (hx : x.WF) :
    num_integration.impl_Float_for_TwoFloat.acos.pf x = true := acos_pf x hx
theorem Float_atan_pf (x : TwoFloat) (hx : x.WF) :
    num_integration.impl_Float_for_TwoFloat.atan.pf x = true := atan_pf x hx
theorem Float_atan2_pf (y x : TwoFloat) :
    num_integration.impl_Float_for_TwoFloat.atan2.pf y x = true := atan2_pf y x
theorem Float_sin_cos_pf (x : TwoFloat) (hx : x.WF) :
    num_integration.impl_Float_for_TwoFloat.sin_cos.pf x = true := sin_cos_pf x hx
theorem Float_exp_m1_pf (x : TwoFloat) (hx : Good x) :
    num_integration.impl_Float_for_TwoFloat.exp_m1.pf x = true := exp_m1_pf_all x hx
theorem Float_ln_1p_pf (x : TwoFloat) (hx : Good x) :
    num_integration.impl_Float_for_TwoFloat.ln_1p.pf x = true := ln_1p_pf_all x hx
theorem Float_sinh_pf (x : TwoFloat) (hx : Good x) :
    num_integration.impl_Float_for_TwoFloat.sinh.pf x = true := sinh_pf_all x hx
theorem Float_cosh_pf (x : TwoFloat) (hx : Good x) :
    num_integration.impl_Float_for_TwoFloat.cosh.pf x = true := cosh_pf_all x hx
theorem Float_tanh_pf (x : TwoFloat) (hx : Good x) :
    num_integration.impl_Float_for_TwoFloat.tanh.pf x = true := tanh_pf_all x hx
theorem Float_asinh_pf (x : TwoFloat) (hx : Good x) :
    num_integration.impl_Float_for_TwoFloat.asinh.pf x = true := asinh_pf_all x hx
theorem Float_acosh_pf (x : TwoFloat) (hx : Good x) :
    num_integration.impl_Float_for_TwoFloat.acosh.pf x = true := acosh_pf_all x hx
theorem Float_atanh_pf (x : TwoFloat) (hx : Good x) :
    num_integration.impl_Float_for_TwoFloat.atanh.pf x = true := atanh_pf_all x hx
theorem Pow_ri8_for_rTwoFloat_pf (x : TwoFloat) (n : I8) :
    num_integration.impl_Pow_ri8_for_rTwoFloat.pow.pf x n = true := powi_cast_pf x n
theorem Pow_i8_for_rTwoFloat_pf (x : TwoFloat) (n : I8) :
    num_integration.impl_Pow_i8_for_rTwoFloat.pow.pf x n = true := powi_cast_pf x n
theorem Pow_ri8_for_TwoFloat_pf (x : TwoFloat) (n : I8) :
    num_integration.impl_Pow_ri8_for_TwoFloat.pow.pf x n = true := powi_cast_pf x n
theorem Pow_i8_for_TwoFloat_pf (x : TwoFloat) (n : I8) :
    num_integration.impl_Pow_i8_for_TwoFloat.pow.pf x n = true := powi_cast_pf x n
theorem Pow_ri16_for_rTwoFloat_pf (x : TwoFloat) (n : I16) :
    num_integration.impl_Pow_ri16_for_rTwoFloat.pow.pf x n = true := powi_cast_pf x n
theorem Pow_i16_for_rTwoFloat_pf (x : TwoFloat) (n : I16) :
    num_integration.impl_Pow_i16_for_rTwoFloat.pow.pf x n = true := powi_cast_pf x n
theorem Pow_ri16_for_TwoFloat_pf (x : TwoFloat) (n : I16) :
    num_integration.impl_Pow_ri16_for_TwoFloat.pow.pf x n = true := powi_cast_pf x n
theorem Pow_i16_for_TwoFloat_pf (x : TwoFloat) (n : I16) :
    num_integration.impl_Pow_i16_for_TwoFloat.pow.pf x n = true := powi_cast_pf x n
theorem Pow_ri32_for_rTwoFloat_pf (x : TwoFloat) (n : I32) (h : n.inRange = true) :
    num_integration.impl_Pow_ri32_for_rTwoFloat.pow.pf x n = true := powi_pf x n h
theorem Pow_i32_for_rTwoFloat_pf (x : TwoFloat) (n : I32) (h : n.inRange = true) :
    num_integration.impl_Pow_i32_for_rTwoFloat.pow.pf x n = true := powi_pf x n h
theorem Pow_ri32_for_TwoFloat_pf (x : TwoFloat) (n : I32) (h : n.inRange = true) :
    num_integration.impl_Pow_ri32_for_TwoFloat.pow.pf x n = true := powi_pf x n h
theorem Pow_i32_for_TwoFloat_pf (x : TwoFloat) (n : I32) (h : n.inRange = true) :
    num_integration.impl_Pow_i32_for_TwoFloat.pow.pf x n = true := powi_pf x n h
theorem Pow_ru8_for_rTwoFloat_pf (x : TwoFloat) (n : U8) :
    num_integration.impl_Pow_ru8_for_rTwoFloat.pow.pf x n = true := powi_cast_pf x n
theorem Pow_u8_for_rTwoFloat_pf (x : TwoFloat) (n : U8) :
    num_integration.impl_Pow_u8_for_rTwoFloat.pow.pf x n = true := powi_cast_pf x n
theorem Pow_ru8_for_TwoFloat_pf (x : TwoFloat) (n : U8) :
    num_integration.impl_Pow_ru8_for_TwoFloat.pow.pf x n = true := powi_cast_pf x n
theorem Pow_u8_for_TwoFloat_pf (x : TwoFloat) (n : U8) :
    num_integration.impl_Pow_u8_for_TwoFloat.pow.pf x n = true := powi_cast_pf x n
theorem Pow_ru16_for_rTwoFloat_pf (x : TwoFloat) (n : U16) :
    num_integration.impl_Pow_ru16_for_rTwoFloat.pow.pf x n = true := powi_cast_pf x n
theorem Pow_u16_for_rTwoFloat_pf (x : TwoFloat) (n : U16) :
    num_integration.impl_Pow_u16_for_rTwoFloat.pow.pf x n = true := powi_cast_pf x n
theorem Pow_ru16_for_TwoFloat_pf (x : TwoFloat) (n : U16) :
    num_integration.impl_Pow_ru16_for_TwoFloat.pow.pf x n = true := powi_cast_pf x n
theorem Pow_u16_for_TwoFloat_pf (x : TwoFloat) (n : U16) :
    num_integration.impl_Pow_u16_for_TwoFloat.pow.pf x n = true := powi_cast_pf x n
theorem Pow_rf64_for_rTwoFloat_pf (x : TwoFloat) (y : F64) (hx : Good x) (hy : y.WF) :
    num_integration.impl_Pow_rf64_for_rTwoFloat.pow.pf x y = true := powf_f64_pf_all x y hx hy
theorem Pow_f64_for_rTwoFloat_pf (x : TwoFloat) (y : F64) (hx : Good x) (hy : y.WF) :
    num_integration.impl_Pow_f64_for_rTwoFloat.pow.pf x y = true := powf_f64_pf_all x y hx hy
theorem Pow_rf64_for_TwoFloat_pf (x : TwoFloat) (y : F64) (hx : Good x) (hy : y.WF) :
    num_integration.impl_Pow_rf64_for_TwoFloat.pow.pf x y = true := powf_f64_pf_all x y hx hy
theorem Pow_f64_for_TwoFloat_pf (x : TwoFloat) (y : F64) (hx : Good x) (hy : y.WF) :
    num_integration.impl_Pow_f64_for_TwoFloat.pow.pf x y = true := powf_f64_pf_all x y hx hy
theorem Pow_rTwoFloat_for_rTwoFloat_pf (x y : TwoFloat) (hx : Good x) (hy : Good y) :
    num_integration.impl_Pow_rTwoFloat_for_rTwoFloat.pow.pf x y = true := powf_pf_all x y hx hy
theorem Pow_TwoFloat_for_rTwoFloat_pf (x y : TwoFloat) (hx : Good x) (hy : Good y) :
    num_integration.impl_Pow_TwoFloat_for_rTwoFloat.pow.pf x y = true := powf_pf_all x y hx hy
theorem Pow_rTwoFloat_for_TwoFloat_pf (x y : TwoFloat) (hx : Good x) (hy : Good y) :
    num_integration.impl_Pow_rTwoFloat_for_TwoFloat.pow.pf x y = true := powf_pf_all x y hx hy
theorem Pow_TwoFloat_for_TwoFloat_pf (x y : TwoFloat) (hx : Good x) (hy : Good y) :
    num_integration.impl_Pow_TwoFloat_for_TwoFloat.pow.pf x y = true := powf_pf_all x y hx hy

/-! ## §4b the PRIVATE helpers (not entry points; `fn`, not `pub fn`, in the crate): panic-free under their documented
contracts, which every public caller establishes (that is the content of `exp_pf_all` and `sin_pf`).  Outside the
contracts their `assert!` / table index does fire — see the kernel-checked instances. -/

theorem quadrant_pf (x : TwoFloat) (hx : x.WF) : trigonometry.quadrant.pf x = true := C16p.quadrant_pf x hx
theorem mul_pow2_pf (x : F64) (y : I32) (h : y.inRange = true) : explog.mul_pow2.pf x y = true := C14p.mul_pow2_pf x y h
theorem exp_half_pf (n : I32) (h : n.v.natAbs ≤ 1439) : explog.exp_half.pf n = true := C14p.exp_half_pf n h
theorem expm1_128th_pf (n : I32) (h : n.v.natAbs ≤ 32) : explog.expm1_128th.pf n = true := C14p.expm1_128th_pf n h
theorem expm1_quarter_pf (z : TwoFloat) (hf : z.hi.is_finite = true) (hw : z.hi.WF)
    (hb : z.hi.toInt.natAbs ≤ 2 ^ 1072) : TwoFloat.expm1_quarter.pf z = true := C14p.expm1_quarter_pf z hf hw hb

/-- the contracts are sharp: `exp_half(±1440)`, `expm1_128th(±33)`, `expm1_quarter(0.25 + ulp)` do panic -/
example : explog.exp_half.pf (1440 : I32) = false ∧ explog.exp_half.pf (-1440 : I32) = false ∧
    explog.expm1_128th.pf (33 : I32) = false ∧ explog.expm1_128th.pf (-33 : I32) = false ∧
    TwoFloat.expm1_quarter.pf ⟨f64lit 0x3fd0000000000001, f64lit 0⟩ = false ∧
    TwoFloat.expm1_quarter.pf ⟨f64lit 0x3fd0000000000000, f64lit 0⟩ = true := by decide +kernel

/-! ## §5 the one `.pf` that is `false`: `integer_decode` is `panic!(…)` in the crate (not an entry point) -/

/-- `Float::integer_decode` / `FloatCore::integer_decode` panic on EVERY argument — by design: the body in
`num_integration.rs` is `panic!("cannot decode mantissa to u64")` -/
theorem integer_decode_always_panics (x : TwoFloat) :
    num_integration.impl_Float_for_TwoFloat.integer_decode.pf x = false ∧
    num_integration.impl_FloatCore_for_TwoFloat.integer_decode.pf x = false := ⟨rfl, rfl⟩

/-! ## §6 non-vacuity: each NEW theorem at a concrete extreme argument; the arguments lie OUTSIDE the ranges on which
the property was known before.  Where the evaluation is cheap the same fact is re-checked by the kernel directly
(`decide +kernel` on the closed term, independent of the proofs above). -/

section examples

theorem gMAX : Good TwoFloat.MAX := Good.of_valid vMAX.1 vMAX.2
theorem gMIN : Good TwoFloat.MIN := by decide +kernel
theorem gTiny : Good xTiny := Good.of_valid vTiny.1 vTiny.2
theorem g1 : Good x1 := Good.of_valid v1.1 v1.2
theorem g1000 : Good x1000 := Good.of_valid v1000.1 v1000.2
theorem gINF : Good TwoFloat.INFINITY := by decide +kernel
theorem gNEG_INF : Good TwoFloat.NEG_INFINITY := by decide +kernel
/-- exactly `1.0` and `−1.0`: the poles of `atanh`, the branch point of `acosh`, the pole of `ln_1p` -/
def one : TwoFloat := ⟨f64lit 0x3ff0000000000000, f64lit 0⟩
def mone : TwoFloat := ⟨f64lit 0xbff0000000000000, f64lit 0⟩
/-- `−1 + 2^-53 + 2^-107`: the valid pair closest to the pole of `ln_1p` from above (`1 + x = 2^-53·(1 + 2^-54)`) -/
def nearMone : TwoFloat := ⟨f64lit 0xbfefffffffffffff, f64lit 0x3940000000000000⟩
theorem gOnes : Good one ∧ Good mone ∧ Good nearMone := by decide +kernel

-- asinh: |x| > 2^60 (the range of C18i.asinh_pf), up to f64::MAX and ±∞, NaN
example : TwoFloat.asinh.pf TwoFloat.MAX = true := asinh_pf_all _ gMAX
example : TwoFloat.asinh.pf TwoFloat.MIN = true := asinh_pf_all _ gMIN
example : TwoFloat.asinh.pf TwoFloat.INFINITY = true := asinh_pf_all _ gINF
example : TwoFloat.asinh.pf TwoFloat.NAN = true := asinh_pf_all _ good_NAN
example : TwoFloat.asinh.pf xTiny = true := asinh_pf_all _ gTiny
-- acosh: x > 2^60 (C18j.acosh_pf needed x ≤ 2^60), x = 1 exactly, x just above 1
example : TwoFloat.acosh.pf TwoFloat.MAX = true := acosh_pf_all _ gMAX
example : TwoFloat.acosh.pf one = true := acosh_pf_all _ gOnes.1
example : TwoFloat.acosh.pf x1 = true := acosh_pf_all _ g1
example : TwoFloat.acosh.pf TwoFloat.INFINITY = true := acosh_pf_all _ gINF
-- atanh: |x| > 1 − 2^-10 (C18i.atanh_pf), the poles ±1 (division by zero), beyond the poles, huge
example : TwoFloat.atanh.pf one = true := atanh_pf_all _ gOnes.1
example : TwoFloat.atanh.pf mone = true := atanh_pf_all _ gOnes.2.1
example : TwoFloat.atanh.pf x1 = true := atanh_pf_all _ g1
example : TwoFloat.atanh.pf TwoFloat.MAX = true := atanh_pf_all _ gMAX
example : TwoFloat.atanh.pf xTiny = true := atanh_pf_all _ gTiny
-- ln_1p: 0 < |x| < 2^-948 and hi > 2^960 (both excluded by C15n.ln_1p_pf), next to the pole −1
example : TwoFloat.ln_1p.pf xTiny = true := ln_1p_pf_all _ gTiny
example : TwoFloat.ln_1p.pf TwoFloat.MAX = true := ln_1p_pf_all _ gMAX
example : TwoFloat.ln_1p.pf nearMone = true := ln_1p_pf_all _ gOnes.2.2
example : TwoFloat.ln_1p.pf mone = true := ln_1p_pf_all _ gOnes.2.1
example : TwoFloat.ln_1p.pf TwoFloat.INFINITY = true := ln_1p_pf_all _ gINF
-- comparisons, `min`/`max`, `==`, `is_zero` on non-finite operands
example : TwoFloat.min.pf TwoFloat.NAN TwoFloat.MAX = true := min_pf _ _ NAN_WF gMAX.2
example : TwoFloat.max.pf TwoFloat.MIN TwoFloat.INFINITY = true := max_pf _ _ gMIN.2 gINF.2
example : base.impl_PartialEq_TwoFloat_for_TwoFloat.eq.pf TwoFloat.MAX TwoFloat.NAN = true := eq_pf _ _ gMAX.2 NAN_WF
example : num_integration.impl_Zero_for_TwoFloat.is_zero.pf xTiny = true := is_zero_pf _ gTiny.2
-- wide integer conversions of out-of-range / non-finite values
example : convert.impl_TryFrom_TwoFloat_for_i128.try_from.pf TwoFloat.MAX = true := try_from_i128_pf _ gMAX
example : convert.impl_TryFrom_TwoFloat_for_u64.try_from.pf TwoFloat.NEG_INFINITY = true := try_from_u64_pf _ gNEG_INF
example : num_integration.impl_ToPrimitive_for_TwoFloat.to_usize.pf TwoFloat.NAN = true := to_usize_pf _ good_NAN
example : num_integration.impl_FromPrimitive_for_TwoFloat.from_isize.pf (IntN.MIN : Isize) = true :=
  FromPrimitive_from_isize_pf _
example : num_integration.impl_FromPrimitive_for_TwoFloat.from_usize.pf (IntN.MAX : Usize) = true :=
  FromPrimitive_from_usize_pf _
-- integer powers at the most negative exponents (`unsigned_abs`, no `abs` overflow)
example : TwoFloat.powi.pf TwoFloat.MAX (IntN.MIN : I32) = true := powi_pf _ _ (by decide)
example : num_integration.impl_Pow_i8_for_TwoFloat.pow.pf xTiny (IntN.MIN : I8) = true := Pow_i8_for_TwoFloat_pf _ _
example : num_integration.impl_Pow_u16_for_TwoFloat.pow.pf TwoFloat.MAX (IntN.MAX : U16) = true :=
  Pow_u16_for_TwoFloat_pf _ _
example : num_integration.impl_Pow_f64_for_TwoFloat.pow.pf TwoFloat.MAX F64.MAX = true :=
  Pow_f64_for_TwoFloat_pf _ _ gMAX (by decide +kernel)

/-- independent kernel evaluation of the new statements at the same arguments -/
example : TwoFloat.asinh.pf TwoFloat.MAX = true ∧ TwoFloat.acosh.pf TwoFloat.MAX = true ∧
    TwoFloat.atanh.pf one = true ∧ TwoFloat.atanh.pf TwoFloat.MAX = true ∧ TwoFloat.ln_1p.pf xTiny = true ∧
    TwoFloat.ln_1p.pf TwoFloat.MAX = true := by decide +kernel

end examples

end CPF
