/-
C14g (numerical layer) — the accuracy of `TwoFloat::powf` for a positive base (property C14):

  "powf(x, y) for 2^-30 ≤ x ≤ 2^30, |y| ≤ 10 within 2^-100·(1 + |y·ln x|) relative of x^y"            (valid x, y)

`powf(x, y) = exp(y * ln(x))` for `x > 0`, `y ≠ 0` (`C14.powf_pos_base`); `powf(x, 0) = 1` exactly.  Values are real
numbers: `val t = hi + lo = t.V / 2^1074 : ℝ`; the reference is Mathlib's real power `v ^ w = exp(w·ln v)`
(`Real.rpow`).  `u = 2^-53`, so `2^-100 = 64u²`.

WHAT THE ERROR ANALYSIS GIVES (`powf_bound_gen`, from `PowfBound.powf_real`).  With `L = ln v`, `w` the value of `y`:
 * `ln x` has ABSOLUTE error `32u²·(1 + |L|)` (`LnBound.ln_bound`; near `L = 0` this is inherent in the proof of the last
   Newton step: `21u²` of the inner `exp`, `7u²` of the product, `3u²` of the sum);
 * the product `y·ln x` has relative error `7u²` (`ExpBound.mul_rv`), so the exponent is off by at most
   `δ = 32u²·|w| + 39.1u²·|w·L|`;
 * `exp` turns the absolute error `δ` of its argument into a relative error `δ` and adds its own `d = 21u²`
   (`37u²` only when `w·L ≤ −0.7498`; `LnBound.exp_bound_sharp`).
Total:  relative error `≤ d + 32u²·|w| + 39.1u²·|w·L| + 0.01u²`.

PROVED from it, for every valid `x`, `y` with `2^-30 ≤ v ≤ 2^30`, `|w| ≤ 10` (the result is a valid pair in all cases):
 * `powf_bound_partial`:  relative error `≤ 2^-100·(1 + |w|/2 + |w·ln v|)`          — the floor plus `32u²·|w|`;
 * `powf_bound_small_y`:  THE FLOOR `2^-100·(1 + |w·ln v|)` for `|w| ≤ 4/3`;
 * `powf_bound_C`:        `2^-100·(1 + |w·ln v|)·5.7` for `|w| ≤ 10`, in particular `2^-97·(1 + |w·ln v|)`
                          (`powf_bound_2p97`).

OPEN: the floor itself for `4/3 < |w| ≤ 10` when `|w·L|` is small.  It needs `|ln(x) − ln v| ≤ (64u² − d)/|w| ≈ 4.3u²`
at `|w| = 10`, `L ≈ 0`, i.e. an `ln` seven times more accurate near `x = 1` than the proved `32u²`.  This is a proof gap,
not an observed model defect: by exact rational evaluation of the model (random valid pairs `x = 1 + t`,
`0 ≤ t < 2^-k` for `k = 42, 32, 22, 12, 7, 4, 2, 1` and `x = 1 − t`, `0 < t < 2^-k` for `k = 43, 23, 8, 3`, with a random low
word; `y = +10` and `y = −10`; reference `v^10 ∈ ℚ` exact; 240 000 pairs `x`) the largest relative error seen is `26.3u²`
(`x ∈ [1, 1.5)`), `23.3u²` for `x ∈ [0.875, 1)`, and `20.7u²` near `x = 1` (`|t| < 2^-7`) — against a floor `≥ 64u²`
everywhere.  No counterexample to the stated floor was found.
-/
import TFV.Lemmas.PowfBound

set_option exponentiation.threshold 4000

namespace C14g

open F64 TwoFloat ConstBounds ExpBound

/-- exact real value `hi + lo` of a pair -/
noncomputable abbrev val (t : TwoFloat) : ℝ := ExpBound.rv t

/-- `v ^ w = exp(w·ln v)` for `v > 0` -/
theorem rpow_eq_exp {v w : ℝ} (hv : 0 < v) : v ^ w = Real.exp (w * Real.log v) := by
  rw [Real.rpow_def_of_pos hv, mul_comm]

/-- **what the analysis gives**: relative error `d + 32u²·|w| + 39.1u²·|w·ln v| + 0.01u²` with `d = 21u²`, or `37u²`
when `w·ln v ≤ −0.7498` -/
theorem powf_bound_gen (x y : TwoFloat) (hvx : x.Valid) (hwx : x.WF) (hvy : y.Valid) (hwy : y.WF)
    (hx1 : 1 / 2 ^ 30 ≤ val x) (hx2 : val x ≤ 2 ^ 30) (hy : |val y| ≤ 10) :
    (TwoFloat.powf x y).Valid ∧ (TwoFloat.powf x y).WF ∧ ∃ d : ℝ,
      (d = 21 / 2 ^ 106 ∨ (d = 37 / 2 ^ 106 ∧ val y * Real.log (val x) ≤ -(7498 / 10000))) ∧
      |val (TwoFloat.powf x y) - val x ^ val y|
        ≤ (d + 1 / 2 ^ 101 * |val y| + 391 / 10 / 2 ^ 106 * |val y * Real.log (val x)| + 1 / 100 / 2 ^ 106)
          * val x ^ val y := by
  have hpos : 0 < val x := lt_of_lt_of_le (by positivity) hx1
  rw [rpow_eq_exp hpos]
  obtain ⟨h1, d, h2, h3⟩ := PowfBound.powf_bound_gen x y ⟨hvx, hwx⟩ ⟨hvy, hwy⟩ hx1 hx2 hy
  exact ⟨h1.1, h1.2, d, h2, h3⟩

/-- **Property C14, accuracy of `powf`, PARTIAL** (the floor plus `2^-101·|y|`): for valid `x`, `y` with
`2^-30 ≤ x ≤ 2^30`, `|y| ≤ 10`, `powf(x, y)` is a valid pair within relative `2^-100·(1 + |y|/2 + |y·ln x|)` of `x^y` -/
theorem powf_bound_partial (x y : TwoFloat) (hvx : x.Valid) (hwx : x.WF) (hvy : y.Valid) (hwy : y.WF)
    (hx1 : 1 / 2 ^ 30 ≤ val x) (hx2 : val x ≤ 2 ^ 30) (hy : |val y| ≤ 10) :
    (TwoFloat.powf x y).Valid ∧
    |val (TwoFloat.powf x y) - val x ^ val y|
      ≤ 1 / 2 ^ 100 * (1 + |val y| / 2 + |val y * Real.log (val x)|) * val x ^ val y := by
  obtain ⟨h1, -, d, hd, hb⟩ := powf_bound_gen x y hvx hwx hvy hwy hx1 hx2 hy
  refine ⟨h1, le_trans hb ?_⟩
  have hpos : 0 < val x := lt_of_lt_of_le (by positivity) hx1
  have hG : 0 < val x ^ val y := Real.rpow_pos_of_pos hpos _
  apply mul_le_mul_of_nonneg_right _ hG.le
  have hd37 : d ≤ 37 / 2 ^ 106 := by rcases hd with h | ⟨h, -⟩ <;> (rw [h]; try norm_num)
  have a1 := abs_nonneg (val y)
  have a2 := abs_nonneg (val y * Real.log (val x))
  have e1 : (1 : ℝ) / 2 ^ 101 = 32 * (1 / 2 ^ 106) := by norm_num
  have e2 : (1 : ℝ) / 2 ^ 100 = 64 * (1 / 2 ^ 106) := by norm_num
  have e3 : (391 : ℝ) / 10 / 2 ^ 106 = 391 / 10 * (1 / 2 ^ 106) := by ring
  have e4 : (1 : ℝ) / 100 / 2 ^ 106 = 1 / 100 * (1 / 2 ^ 106) := by ring
  have e5 : (37 : ℝ) / 2 ^ 106 = 37 * (1 / 2 ^ 106) := by ring
  rw [e1, e2, e3, e4]
  rw [e5] at hd37
  have hu : (0 : ℝ) < 1 / 2 ^ 106 := by positivity
  generalize (1 : ℝ) / 2 ^ 106 = u2 at *
  nlinarith [mul_nonneg hu.le a1, mul_nonneg hu.le a2]

/-- **Property C14, accuracy of `powf`: THE FLOOR for `|y| ≤ 4/3`**: for valid `x`, `y` with `2^-30 ≤ x ≤ 2^30`,
`|y| ≤ 4/3`, `powf(x, y)` is a valid pair within relative `2^-100·(1 + |y·ln x|)` of `x^y` -/
theorem powf_bound_small_y (x y : TwoFloat) (hvx : x.Valid) (hwx : x.WF) (hvy : y.Valid) (hwy : y.WF)
    (hx1 : 1 / 2 ^ 30 ≤ val x) (hx2 : val x ≤ 2 ^ 30) (hy : |val y| ≤ 4 / 3) :
    (TwoFloat.powf x y).Valid ∧
    |val (TwoFloat.powf x y) - val x ^ val y|
      ≤ 1 / 2 ^ 100 * (1 + |val y * Real.log (val x)|) * val x ^ val y := by
  obtain ⟨h1, -, d, hd, hb⟩ := powf_bound_gen x y hvx hwx hvy hwy hx1 hx2 (le_trans hy (by norm_num))
  refine ⟨h1, le_trans hb ?_⟩
  have hpos : 0 < val x := lt_of_lt_of_le (by positivity) hx1
  have hG : 0 < val x ^ val y := Real.rpow_pos_of_pos hpos _
  apply mul_le_mul_of_nonneg_right _ hG.le
  have a1 := abs_nonneg (val y)
  have a2 := abs_nonneg (val y * Real.log (val x))
  have e1 : (1 : ℝ) / 2 ^ 101 = 32 * (1 / 2 ^ 106) := by norm_num
  have e2 : (1 : ℝ) / 2 ^ 100 = 64 * (1 / 2 ^ 106) := by norm_num
  have e3 : (391 : ℝ) / 10 / 2 ^ 106 = 391 / 10 * (1 / 2 ^ 106) := by ring
  have e4 : (1 : ℝ) / 100 / 2 ^ 106 = 1 / 100 * (1 / 2 ^ 106) := by ring
  have e5 : (37 : ℝ) / 2 ^ 106 = 37 * (1 / 2 ^ 106) := by ring
  have e6 : (21 : ℝ) / 2 ^ 106 = 21 * (1 / 2 ^ 106) := by ring
  rw [e1, e2, e3, e4]
  rw [e5, e6] at hd
  have hu : (0 : ℝ) < 1 / 2 ^ 106 := by positivity
  generalize (1 : ℝ) / 2 ^ 106 = u2 at *
  have b1 : u2 * |val y| ≤ u2 * (4 / 3) := mul_le_mul_of_nonneg_left hy hu.le
  have b2 := mul_nonneg hu.le a2
  rcases hd with h | ⟨h, hneg⟩
  · rw [h]; nlinarith
  · have hge : 7498 / 10000 ≤ |val y * Real.log (val x)| := by
      rw [abs_of_nonpos (by linarith)]; linarith
    have b3 : u2 * (7498 / 10000) ≤ u2 * |val y * Real.log (val x)| := mul_le_mul_of_nonneg_left hge hu.le
    rw [h]; nlinarith

/-- **Property C14, accuracy of `powf`, PARTIAL with the floor's own form and a constant**: for `|y| ≤ 10` the relative
error is at most `2^-100·(1 + |y·ln x|)·5.7` -/
theorem powf_bound_C (x y : TwoFloat) (hvx : x.Valid) (hwx : x.WF) (hvy : y.Valid) (hwy : y.WF)
    (hx1 : 1 / 2 ^ 30 ≤ val x) (hx2 : val x ≤ 2 ^ 30) (hy : |val y| ≤ 10) :
    (TwoFloat.powf x y).Valid ∧
    |val (TwoFloat.powf x y) - val x ^ val y|
      ≤ 1 / 2 ^ 100 * (1 + |val y * Real.log (val x)|) * (57 / 10) * val x ^ val y := by
  obtain ⟨h1, -, d, hd, hb⟩ := powf_bound_gen x y hvx hwx hvy hwy hx1 hx2 hy
  refine ⟨h1, le_trans hb ?_⟩
  have hpos : 0 < val x := lt_of_lt_of_le (by positivity) hx1
  have hG : 0 < val x ^ val y := Real.rpow_pos_of_pos hpos _
  apply mul_le_mul_of_nonneg_right _ hG.le
  have hd37 : d ≤ 37 / 2 ^ 106 := by rcases hd with h | ⟨h, -⟩ <;> (rw [h]; try norm_num)
  have a1 := abs_nonneg (val y)
  have a2 := abs_nonneg (val y * Real.log (val x))
  have e1 : (1 : ℝ) / 2 ^ 101 = 32 * (1 / 2 ^ 106) := by norm_num
  have e2 : (1 : ℝ) / 2 ^ 100 = 64 * (1 / 2 ^ 106) := by norm_num
  have e3 : (391 : ℝ) / 10 / 2 ^ 106 = 391 / 10 * (1 / 2 ^ 106) := by ring
  have e4 : (1 : ℝ) / 100 / 2 ^ 106 = 1 / 100 * (1 / 2 ^ 106) := by ring
  have e5 : (37 : ℝ) / 2 ^ 106 = 37 * (1 / 2 ^ 106) := by ring
  rw [e1, e2, e3, e4]
  rw [e5] at hd37
  have hu : (0 : ℝ) < 1 / 2 ^ 106 := by positivity
  generalize (1 : ℝ) / 2 ^ 106 = u2 at *
  have b1 : u2 * |val y| ≤ u2 * 10 := mul_le_mul_of_nonneg_left hy hu.le
  have b2 := mul_nonneg hu.le a2
  nlinarith

/-- … in particular `2^-97·(1 + |y·ln x|)` -/
theorem powf_bound_2p97 (x y : TwoFloat) (hvx : x.Valid) (hwx : x.WF) (hvy : y.Valid) (hwy : y.WF)
    (hx1 : 1 / 2 ^ 30 ≤ val x) (hx2 : val x ≤ 2 ^ 30) (hy : |val y| ≤ 10) :
    (TwoFloat.powf x y).Valid ∧
    |val (TwoFloat.powf x y) - val x ^ val y|
      ≤ 1 / 2 ^ 97 * (1 + |val y * Real.log (val x)|) * val x ^ val y := by
  obtain ⟨h1, hb⟩ := powf_bound_C x y hvx hwx hvy hwy hx1 hx2 hy
  refine ⟨h1, le_trans hb ?_⟩
  have hpos : 0 < val x := lt_of_lt_of_le (by positivity) hx1
  have hG : 0 < val x ^ val y := Real.rpow_pos_of_pos hpos _
  apply mul_le_mul_of_nonneg_right _ hG.le
  have a2 := abs_nonneg (val y * Real.log (val x))
  have e : (1 : ℝ) / 2 ^ 97 = 1 / 2 ^ 100 * 8 := by norm_num
  rw [e]
  have : (0 : ℝ) ≤ 1 / 2 ^ 100 * (1 + |val y * Real.log (val x)|) := by positivity
  nlinarith

/-- `powf(x, 0) = 1` for a valid positive `x` (the `y == 0` shortcut), consistent with `v^0 = 1` -/
theorem powf_zero_exponent (x y : TwoFloat) (hvx : x.Valid) (hpos : 0 < val x)
    (hy : base.impl_PartialEq_f64_for_TwoFloat.eq y (f64lit 0x0000000000000000) = true) :
    TwoFloat.powf x y = ⟨F64.one, F64.zero⟩ := by
  rw [C14.powf_zero_exponent x y (PowfBound.eq_zero_false_of_pos hvx hpos) hy, C14.one_words]

end C14g
