/-
C18p — panic-freedom of the hyperbolic functions.

`cosh`, `sinh`, `tanh` call `exp` on `x` and `-x`: panic-free on every argument satisfying the C01 invariant (every
valid argument in particular), unconditionally.  `sqrt` has no panicking operation at all.  `asinh`, `acosh`,
`atanh` call `ln` on a computed argument; they are panic-free as soon as that argument satisfies the invariant:
for `asinh`/`acosh` this needs the invariant of the `sqrt` result (a raw `new_add`, C01 §3: conditional), for
`atanh` that of a quotient (`TwoFloat / TwoFloat`: open in C01); both are explicit hypotheses here, next to
`PF.ExpHalfRecipInv` (see C15p).
-/
import TFV.Lemmas.PanicFree
import TFV.Properties.C14p

namespace C18p
open F64 TwoFloat

/-- **`cosh` never panics on a valid argument** (more generally: invariant) -/
theorem cosh_pf (x : TwoFloat) (hi : x.Inv) (hw : x.WF) : TwoFloat.cosh.pf x = true := PF.cosh_pf x ⟨hi, hw⟩
theorem sinh_pf (x : TwoFloat) (hi : x.Inv) (hw : x.WF) : TwoFloat.sinh.pf x = true := PF.sinh_pf x ⟨hi, hw⟩
theorem tanh_pf (x : TwoFloat) (hi : x.Inv) (hw : x.WF) : TwoFloat.tanh.pf x = true := PF.tanh_pf x ⟨hi, hw⟩

theorem cosh_pf_valid (x : TwoFloat) (hv : x.Valid) (hw : x.WF) : TwoFloat.cosh.pf x = true :=
  cosh_pf x (Or.inl hv) hw
theorem sinh_pf_valid (x : TwoFloat) (hv : x.Valid) (hw : x.WF) : TwoFloat.sinh.pf x = true :=
  sinh_pf x (Or.inl hv) hw
theorem tanh_pf_valid (x : TwoFloat) (hv : x.Valid) (hw : x.WF) : TwoFloat.tanh.pf x = true :=
  tanh_pf x (Or.inl hv) hw

/-- `acosh(x) = ln(x + sqrt(x² - 1))` (after the domain test `x < 1.0`, which cannot panic) -/
theorem acosh_pf_partial (HR : PF.ExpHalfRecipInv) (x : TwoFloat) (hi : x.Inv) (hw : x.WF)
    (hs : (TwoFloat.sqrt (arithmetic.impl_Sub_f64_for_TwoFloat.sub
      (arithmetic.impl_Mul_TwoFloat_for_TwoFloat.mul x x) (f64lit 0x3ff0000000000000))).Inv) :
    TwoFloat.acosh.pf x = true := by
  unfold TwoFloat.acosh.pf
  split_ifs
  · rfl
  · exact PF.ln_pf HR _ (PF.good_add_tt ⟨hi, hw⟩ ⟨hs, PF.sqrt_WF _⟩)

/-- `asinh(x) = ±ln(|x| + sqrt(x² + 1))` -/
theorem asinh_pf_partial (HR : PF.ExpHalfRecipInv) (x : TwoFloat) (hi : x.Inv) (hw : x.WF)
    (hs : (TwoFloat.sqrt (arithmetic.impl_Add_f64_for_TwoFloat.add
      (arithmetic.impl_Mul_TwoFloat_for_TwoFloat.mul (TwoFloat.abs x) (TwoFloat.abs x))
      (f64lit 0x3ff0000000000000))).Inv) :
    TwoFloat.asinh.pf x = true :=
  PF.ln_pf HR _ (PF.good_add_tt (PF.good_abs ⟨hi, hw⟩) ⟨hs, PF.sqrt_WF _⟩)

/-- `atanh(x) = ln((1 + x)/(1 - x)) / 2` -/
theorem atanh_pf_partial (HR : PF.ExpHalfRecipInv) (x : TwoFloat)
    (hq : (arithmetic.impl_Div_TwoFloat_for_TwoFloat.div
      (arithmetic.impl_Add_TwoFloat_for_f64.add (f64lit 0x3ff0000000000000) x)
      (arithmetic.impl_Sub_TwoFloat_for_f64.sub (f64lit 0x3ff0000000000000) x)).Inv) :
    TwoFloat.atanh.pf x = true :=
  PF.ln_pf HR _ ⟨hq, PF.div_tt_WF _ _⟩


/-! ### the same with `PF.ExpHalfRecipInv` discharged (`C14p.expHalfRecipInv`): only the hypothesis on the computed
argument of `ln` remains -/

theorem acosh_pf_of_sqrt_inv (x : TwoFloat) (hi : x.Inv) (hw : x.WF)
    (hs : (TwoFloat.sqrt (arithmetic.impl_Sub_f64_for_TwoFloat.sub
      (arithmetic.impl_Mul_TwoFloat_for_TwoFloat.mul x x) (f64lit 0x3ff0000000000000))).Inv) :
    TwoFloat.acosh.pf x = true := acosh_pf_partial C14p.expHalfRecipInv x hi hw hs

theorem asinh_pf_of_sqrt_inv (x : TwoFloat) (hi : x.Inv) (hw : x.WF)
    (hs : (TwoFloat.sqrt (arithmetic.impl_Add_f64_for_TwoFloat.add
      (arithmetic.impl_Mul_TwoFloat_for_TwoFloat.mul (TwoFloat.abs x) (TwoFloat.abs x))
      (f64lit 0x3ff0000000000000))).Inv) :
    TwoFloat.asinh.pf x = true := asinh_pf_partial C14p.expHalfRecipInv x hi hw hs

theorem atanh_pf_of_quot_inv (x : TwoFloat)
    (hq : (arithmetic.impl_Div_TwoFloat_for_TwoFloat.div
      (arithmetic.impl_Add_TwoFloat_for_f64.add (f64lit 0x3ff0000000000000) x)
      (arithmetic.impl_Sub_TwoFloat_for_f64.sub (f64lit 0x3ff0000000000000) x)).Inv) :
    TwoFloat.atanh.pf x = true := atanh_pf_partial C14p.expHalfRecipInv x hq

/-- the trait entry points -/
theorem Float_cosh_pf (x : TwoFloat) (hi : x.Inv) (hw : x.WF) :
    num_integration.impl_Float_for_TwoFloat.cosh.pf x = true := PF.cosh_pf x ⟨hi, hw⟩
theorem Float_sinh_pf (x : TwoFloat) (hi : x.Inv) (hw : x.WF) :
    num_integration.impl_Float_for_TwoFloat.sinh.pf x = true := PF.sinh_pf x ⟨hi, hw⟩
theorem Float_tanh_pf (x : TwoFloat) (hi : x.Inv) (hw : x.WF) :
    num_integration.impl_Float_for_TwoFloat.tanh.pf x = true := PF.tanh_pf x ⟨hi, hw⟩

/-! closed instances -/

example : TwoFloat.sinh.pf ⟨f64lit 0x4086200000000000, f64lit 0x0000000000000000⟩ = true := by decide +kernel
example : TwoFloat.tanh.pf ⟨f64lit 0xc034000000000000, f64lit 0x3cb0000000000000⟩ = true := by decide +kernel
example : TwoFloat.acosh.pf ⟨f64lit 0x4000000000000000, f64lit 0x0000000000000000⟩ = true := by decide +kernel
example : TwoFloat.atanh.pf ⟨f64lit 0x3fe0000000000000, f64lit 0x0000000000000000⟩ = true := by decide +kernel

end C18p
