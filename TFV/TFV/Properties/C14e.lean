/-
C14e (numerical layer) — the accuracy bound of `TwoFloat::exp` (property C14):

  "exp(x) is within relative 2^-100 of e^x for x in [−600, 700]"        (valid x)

PROVED IN FULL (`exp_bound`), with room to spare: the error analysis gives `37u² = 37·2^-106` (`u = 2^-53`;
`2^-100 = 64u²`), and `21u² < 2^-101` for `x ≥ 0` (`exp_bound_37`, `exp_bound_nonneg`).  Values are real numbers:
`val t = (hi + lo) = t.V / 2^1074 : ℝ`, `e^x = Real.exp (val x)` (Mathlib).

The pieces (all in `TFV/Lemmas/ExpBound.lean`), each a standalone theorem restated below:

 A. real analysis.  Rational enclosures of `exp q`, `|q| ≤ 1` (`ExpBound.exp_encl`: Taylor polynomial + the
    remainder of `Real.exp_bound`), interval powers, and TABLE CORRECTNESS: every entry of the three lookup
    tables is the CORRECTLY ROUNDED double-double (both words strictly inside their rounding cells,
    `ConstBounds.CorrectlyRoundedDD`) of the real number it names, hence within relative `2^-107` of it:
      `EXPM1_128TH_correct` (65 entries, `exp((i−32)/128) − 1`; entry 32 is exactly 0),
      `EXP_HALF_N_correct`  (31 entries, `exp((j+1)/2)`),
      `EXP_16_N_correct`    (44 entries, `exp(16(j+1))`, up to `e^704 ≈ 2^1015.6`),
    and `FRAC_FACT_correct` (`1/k!`, `k ≤ 20`).  The cell tests are closed rational inequalities, checked by the
    kernel (`decide +kernel`).  `expm1_taylor14`: the truncation error of the degree-14 polynomial.
 B. rounding errors.  `mul_tt_tiny` / `mul_rv`: `TwoFloat * TwoFloat` has relative error `7u²` plus an ABSOLUTE term
    `2^-950` on every pair of valid operands whose product is below `2^1019` — in particular when the reduced
    argument `t = z − n/128` is tiny or zero (underflow in the Horner products is harmless because the result is added
    to quantities of size ≈ 1).  `horner_inv`: each of the 12 Horner iterates is within `4u²` (absolute) of the exact
    one.  `expm1_quarter_bound`: `|expm1_quarter(z) − (e^z − 1)| ≤ 1.6u²` (absolute) for `|z.hi| ≤ 1/4`.
    `exp_half_bound`: `exp_half(k)` within `8.1u²` (`k ≥ 0`) / `24.2u²` (`k < 0`: `16u²` from the division) of
    `e^(k/2)`, `−1200 ≤ k ≤ 1407`.
 C. assembly (`ExpBound.exp_bound_split`): argument reduction facts from `PF.exp_reduce` (C14p), `z = x − k/2` within
    `2u²`, `(1 + expm1(z))` within `5.2u²`, final product `7u²`:  5.2 + 24.2 + 7 + cross terms ≤ 37.

Error budget actually used (units of `u²`): table `E` 0.15, `E + 1` 2.6, polynomial part 0.3, `E + (E+1)·w` 0.9,
`+ 1.0` 2.6 (together 5.2 relative to `e^z ≥ 0.777`), reduction `z` 1.02, `exp_half` 8.1 / 24.2, final product 7.
-/
import TFV.Lemmas.ExpBound

set_option exponentiation.threshold 4000

namespace C14e

open F64 TwoFloat ConstBounds ExpBound

/-- exact real value `hi + lo` of a pair -/
noncomputable abbrev val (t : TwoFloat) : ℝ := ExpBound.rv t

/-! ## A. the lookup tables are correct -/

/-- `EXPM1_128TH[i]` is the correctly rounded double-double of `exp((i − 32)/128) − 1`, `i ≠ 32` -/
theorem EXPM1_128TH_correct (i : ℕ) (hi : i < 65) (h32 : i ≠ 32) :
    CorrectlyRoundedDD (Real.exp (((i : ℝ) - 32) / 128) - 1) (explog.expm1_128th.EXPM1_128TH.getD i default) :=
  (ExpBound.EXPM1_128TH_correct i hi h32).1

/-- … hence within relative `2^-107`; entry 32 is exactly `0 = exp(0) − 1` -/
theorem EXPM1_128TH_rel_err (i : ℕ) (hi : i < 65) :
    |val (explog.expm1_128th.EXPM1_128TH.getD i default) - (Real.exp (((i : ℝ) - 32) / 128) - 1)|
      ≤ |Real.exp (((i : ℝ) - 32) / 128) - 1| / 2 ^ 107 := by
  by_cases h32 : i = 32
  · subst h32
    have : val (explog.expm1_128th.EXPM1_128TH.getD 32 default) = 0 := by
      show ExpBound.rv _ = 0
      unfold ExpBound.rv; rw [ExpBound.EXPM1_128TH_zero]; simp
    rw [this]; norm_num
  · exact rel_err_of_correctlyRounded (ExpBound.EXPM1_128TH_correct i hi h32).1
      (ExpBound.EXPM1_128TH_correct i hi h32).2

/-- `EXP_HALF_N[j]` is the correctly rounded double-double of `exp((j + 1)/2)` -/
theorem EXP_HALF_N_correct (j : ℕ) (hj : j < 31) :
    CorrectlyRoundedDD (Real.exp (((j : ℝ) + 1) / 2)) (explog.exp_half.EXP_HALF_N.getD j default) :=
  (ExpBound.EXP_HALF_N_correct j hj).1

theorem EXP_HALF_N_rel_err (j : ℕ) (hj : j < 31) :
    |val (explog.exp_half.EXP_HALF_N.getD j default) - Real.exp (((j : ℝ) + 1) / 2)|
      ≤ Real.exp (((j : ℝ) + 1) / 2) / 2 ^ 107 :=
  (ExpBound.EH_entry j hj).2

/-- `EXP_16_N[j]` is the correctly rounded double-double of `exp(16·(j + 1))` -/
theorem EXP_16_N_correct (j : ℕ) (hj : j < 44) :
    CorrectlyRoundedDD (Real.exp (16 * ((j : ℝ) + 1))) (explog.exp_half.EXP_16_N.getD j default) :=
  (ExpBound.EXP_16_N_correct j hj).1

theorem EXP_16_N_rel_err (j : ℕ) (hj : j < 44) :
    |val (explog.exp_half.EXP_16_N.getD j default) - Real.exp (16 * ((j : ℝ) + 1))|
      ≤ Real.exp (16 * ((j : ℝ) + 1)) / 2 ^ 107 :=
  (ExpBound.E16_entry j hj).2

/-- the Taylor coefficients `FRAC_FACT[k] ≈ 1/k!` (relative `2^-107`), `k ≤ 20` -/
theorem FRAC_FACT_rel_err (k : ℕ) (hk : k < 21) :
    |val (explog.FRAC_FACT.getD k default) - 1 / (k.factorial : ℝ)| ≤ 1 / (k.factorial : ℝ) / 2 ^ 107 :=
  (ExpBound.FRAC_FACT_correct k hk).2.2

/-- Taylor truncation: `|e^t − 1 − Σ_{k=1..14} t^k/k!| ≤ |t|^15·16/(15!·15)` for `|t| ≤ 1` -/
theorem expm1_taylor14 {t : ℝ} (ht : |t| ≤ 1) :
    |Real.exp t - 1 - ∑ k ∈ Finset.range 14, t ^ (k + 1) / ((k + 1).factorial : ℝ)|
      ≤ |t| ^ 15 * (16 / (1307674368000 * 15)) :=
  ExpBound.expm1_taylor14 ht

/-! ## B. the two halves of the algorithm -/

/-- `TwoFloat * TwoFloat` on ALL valid operands with `|x·y| ≤ 2^1019`: relative `7u²` plus absolute `2^-950` -/
theorem mul_bound_with_underflow {x y : TwoFloat} (hvx : x.Valid) (hwx : x.WF) (hvy : y.Valid) (hwy : y.WF)
    (hhi : |val x * val y| ≤ 2 ^ 1019) :
    (arithmetic.impl_Mul_TwoFloat_for_TwoFloat.mul x y).Valid ∧
    |val (arithmetic.impl_Mul_TwoFloat_for_TwoFloat.mul x y) - val x * val y|
      ≤ 7 / 2 ^ 106 * |val x * val y| + 1 / 2 ^ 950 :=
  ⟨(ExpBound.mul_rv ⟨hvx, hwx⟩ ⟨hvy, hwy⟩ hhi).1.1, (ExpBound.mul_rv ⟨hvx, hwx⟩ ⟨hvy, hwy⟩ hhi).2⟩

/-- `expm1_quarter z` for a valid `z` with `|z.hi| ≤ 1/4`: valid, within `1.6u²` (absolute) of `e^z − 1` -/
theorem expm1_quarter_bound {z : TwoFloat} (hv : z.Valid) (hw : z.WF) (hb : z.hi.toInt.natAbs ≤ 2 ^ 1072) :
    (TwoFloat.expm1_quarter z).Valid ∧
    |val (TwoFloat.expm1_quarter z) - (Real.exp (val z) - 1)| ≤ 16 / 10 / 2 ^ 106 :=
  ⟨(ExpBound.expm1_quarter_bound ⟨hv, hw⟩ hb).1.1, (ExpBound.expm1_quarter_bound ⟨hv, hw⟩ hb).2.1⟩

/-- `exp_half k ≈ e^(k/2)` within `24.2u²`, `−1200 ≤ k ≤ 1407` -/
theorem exp_half_bound (k : ℤ) (h0 : -1200 ≤ k) (h1 : k ≤ 1407) :
    (explog.exp_half (⟨k⟩ : I32)).Valid ∧
    |val (explog.exp_half (⟨k⟩ : I32)) - Real.exp ((k : ℝ) / 2)| ≤ 242 / 10 / 2 ^ 106 * Real.exp ((k : ℝ) / 2) :=
  ⟨(ExpBound.exp_half_bound k h0 h1).1.1, (ExpBound.exp_half_bound k h0 h1).2⟩

/-- … and within `8.1u²` for `0 ≤ k ≤ 1407` (two table entries and one product) -/
theorem exp_half_bound_nonneg (k : ℤ) (h0 : 0 ≤ k) (h1 : k ≤ 1407) :
    |val (explog.exp_half (⟨k⟩ : I32)) - Real.exp ((k : ℝ) / 2)| ≤ 81 / 10 / 2 ^ 106 * Real.exp ((k : ℝ) / 2) :=
  (ExpBound.exp_half_nonneg 1 k h0 h1).2

/-! ## C. the property -/

theorem scale_le {c E : ℝ} {n : ℕ} (hE : 0 ≤ E) (hc : c ≤ 1 / 2 ^ n) : c * E ≤ E / 2 ^ n := by
  calc c * E ≤ 1 / 2 ^ n * E := mul_le_mul_of_nonneg_right hc hE
    _ = E / 2 ^ n := by ring

/-- what the analysis gives: relative error at most `37u² = 37·2^-106` -/
theorem exp_bound_37 (x : TwoFloat) (hv : x.Valid) (hw : x.WF) (hlo : -600 ≤ val x) (hhi : val x ≤ 700) :
    (TwoFloat.exp x).Valid ∧ (TwoFloat.exp x).WF ∧
    |val (TwoFloat.exp x) - Real.exp (val x)| ≤ 37 / 2 ^ 106 * Real.exp (val x) :=
  ⟨(ExpBound.exp_bound_37 x hv hw hlo hhi).1.1, (ExpBound.exp_bound_37 x hv hw hlo hhi).1.2,
    (ExpBound.exp_bound_37 x hv hw hlo hhi).2⟩

/-- **Property C14, accuracy of `exp`**: for every valid `x` with `−600 ≤ x ≤ 700`, `exp(x)` is a valid pair within
relative `2^-100` of `e^x` -/
theorem exp_bound (x : TwoFloat) (hv : x.Valid) (hw : x.WF) (hlo : -600 ≤ val x) (hhi : val x ≤ 700) :
    (TwoFloat.exp x).Valid ∧ |val (TwoFloat.exp x) - Real.exp (val x)| ≤ Real.exp (val x) / 2 ^ 100 := by
  obtain ⟨h1, _, h3⟩ := exp_bound_37 x hv hw hlo hhi
  exact ⟨h1, le_trans h3 (scale_le (Real.exp_pos _).le (by norm_num))⟩

/-- for `0 ≤ x ≤ 700` (no division): relative error at most `21u² < 2^-101` -/
theorem exp_bound_nonneg (x : TwoFloat) (hv : x.Valid) (hw : x.WF) (hlo : 0 ≤ val x) (hhi : val x ≤ 700) :
    |val (TwoFloat.exp x) - Real.exp (val x)| ≤ Real.exp (val x) / 2 ^ 101 := by
  have h := (ExpBound.exp_bound_split x hv hw (by linarith) hhi).2.2 hlo
  exact le_trans h (scale_le (Real.exp_pos _).le (by norm_num))

/-- the same statement over the rational value `PowiBound.val` used by the other numerical layers (C13b, C13s) -/
theorem exp_bound_val (x : TwoFloat) (hv : x.Valid) (hw : x.WF) (hlo : -600 ≤ PowiBound.val x)
    (hhi : PowiBound.val x ≤ 700) :
    |((PowiBound.val (TwoFloat.exp x) : ℚ) : ℝ) - Real.exp ((PowiBound.val x : ℚ) : ℝ)|
      ≤ Real.exp ((PowiBound.val x : ℚ) : ℝ) / 2 ^ 100 := by
  rw [← ExpBound.rv_eq_val, ← ExpBound.rv_eq_val]
  have h1 : (-600 : ℝ) ≤ val x := by
    show (-600 : ℝ) ≤ ExpBound.rv x
    rw [ExpBound.rv_eq_val]; exact_mod_cast hlo
  have h2 : val x ≤ 700 := by
    show ExpBound.rv x ≤ 700
    rw [ExpBound.rv_eq_val]; exact_mod_cast hhi
  exact (exp_bound x hv hw h1 h2).2

/-- the computed exponential is strictly positive on the range -/
theorem exp_pos (x : TwoFloat) (hv : x.Valid) (hw : x.WF) (hlo : -600 ≤ val x) (hhi : val x ≤ 700) :
    0 < (TwoFloat.exp x).V := by
  obtain ⟨_, h⟩ := exp_bound x hv hw hlo hhi
  have hp := Real.exp_pos (val x)
  have h2 : Real.exp (val x) / 2 ^ 100 ≤ Real.exp (val x) / 2 :=
    div_le_div_of_nonneg_left hp.le (by norm_num) (by norm_num)
  have h3 : 0 < val (TwoFloat.exp x) := by
    have := (abs_le.1 h).1
    linarith
  have h4 : (0 : ℝ) < ((TwoFloat.exp x).V : ℝ) := by
    have : val (TwoFloat.exp x) = ((TwoFloat.exp x).V : ℝ) / 2 ^ 1074 := rfl
    rw [this] at h3
    exact (div_pos_iff_of_pos_right (by positivity)).1 h3
  exact_mod_cast h4

/-! ## examples -/

theorem val_of_V {t : TwoFloat} {n : ℤ} (h : t.V = n) : val t = (n : ℝ) / 2 ^ 1074 := by
  show ExpBound.rv t = _
  unfold ExpBound.rv; rw [h]

/-- the double-double `(c, 0)` -/
def ofF (c : F64) : TwoFloat := ⟨c, F64.zero⟩

/-- `exp(1) ≈ e` to `2^-101` -/
example : |val (TwoFloat.exp (ofF F64.one)) - Real.exp 1| ≤ Real.exp 1 / 2 ^ 101 := by
  have hval : val (ofF F64.one) = 1 := by
    rw [val_of_V (show (ofF F64.one).V = 2 ^ 1074 by decide +kernel)]
    simp only [Int.cast_pow, Int.cast_ofNat]
    exact div_self (by positivity : ((2 : ℝ) ^ 1074) ≠ 0)
  have h := exp_bound_nonneg (ofF F64.one) (by decide +kernel) ⟨by decide +kernel, by decide +kernel⟩
    (by rw [hval]; norm_num) (by rw [hval]; norm_num)
  rwa [hval] at h

/-- the smallest positive argument, `x = 2^-1074` (every product of the Horner loop underflows — `mul_tt_tiny`) -/
example :
    |val (TwoFloat.exp (ofF (F64.fin false 1))) - Real.exp (1 / 2 ^ 1074)| ≤ Real.exp (1 / 2 ^ 1074) / 2 ^ 101 := by
  have hval : val (ofF (F64.fin false 1)) = 1 / 2 ^ 1074 := by
    rw [val_of_V (show (ofF (F64.fin false 1)).V = 1 by decide +kernel)]
    simp
  have h := exp_bound_nonneg (ofF (F64.fin false 1)) (by decide +kernel) ⟨by decide +kernel, by decide +kernel⟩
    (by rw [hval]; positivity) (by
      rw [hval]
      exact le_trans (div_le_one_of_le₀ (one_le_pow₀ (by norm_num)) (by positivity)) (by norm_num))
  rwa [hval] at h

/-- the two ends of the range: `x = −600` and `x = 700` (`f64` arguments) -/
example :
    |val (TwoFloat.exp (ofF (F64.neg (f64lit 0x4082c00000000000)))) - Real.exp (-600)| ≤ Real.exp (-600) / 2 ^ 100 ∧
    |val (TwoFloat.exp (ofF (f64lit 0x4085e00000000000))) - Real.exp 700| ≤ Real.exp 700 / 2 ^ 100 := by
  have hU : ((2 : ℝ) ^ 1074) ≠ 0 := by positivity
  have v1 : val (ofF (F64.neg (f64lit 0x4082c00000000000))) = -600 := by
    rw [val_of_V (show (ofF (F64.neg (f64lit 0x4082c00000000000))).V = -600 * 2 ^ 1074 by decide +kernel)]
    simp only [Int.cast_mul, Int.cast_neg, Int.cast_pow, Int.cast_ofNat]
    rw [mul_div_assoc, div_self hU, mul_one]
  have v2 : val (ofF (f64lit 0x4085e00000000000)) = 700 := by
    rw [val_of_V (show (ofF (f64lit 0x4085e00000000000)).V = 700 * 2 ^ 1074 by decide +kernel)]
    simp only [Int.cast_mul, Int.cast_pow, Int.cast_ofNat]
    rw [mul_div_assoc, div_self hU, mul_one]
  constructor
  · have h := (exp_bound (ofF (F64.neg (f64lit 0x4082c00000000000))) (by decide +kernel)
      ⟨by decide +kernel, by decide +kernel⟩ (by rw [v1]) (by rw [v1]; norm_num)).2
    rwa [v1] at h
  · have h := (exp_bound (ofF (f64lit 0x4085e00000000000)) (by decide +kernel)
      ⟨by decide +kernel, by decide +kernel⟩ (by rw [v2]; norm_num) (by rw [v2])).2
    rwa [v2] at h

/-- a genuinely double-double argument: `exp(π)` (Gelfond's constant) from `consts::PI` -/
example : |val (TwoFloat.exp consts.PI) - Real.exp (val consts.PI)| ≤ Real.exp (val consts.PI) / 2 ^ 101 := by
  have hb : (3 : ℝ) ≤ val consts.PI ∧ val consts.PI ≤ 4 := by
    have h1 : (3 : ℤ) * 2 ^ 1074 ≤ consts.PI.V := by decide +kernel
    have h2 : consts.PI.V ≤ (4 : ℤ) * 2 ^ 1074 := by decide +kernel
    have h1' : (3 : ℝ) * 2 ^ 1074 ≤ (consts.PI.V : ℝ) := by exact_mod_cast h1
    have h2' : (consts.PI.V : ℝ) ≤ (4 : ℝ) * 2 ^ 1074 := by exact_mod_cast h2
    show 3 ≤ ExpBound.rv consts.PI ∧ ExpBound.rv consts.PI ≤ 4
    unfold ExpBound.rv
    constructor
    · rw [le_div_iff₀ (by positivity)]; exact h1'
    · rw [div_le_iff₀ (by positivity)]; exact h2'
  exact exp_bound_nonneg consts.PI (by decide +kernel) ⟨by decide +kernel, by decide +kernel⟩
    (by linarith [hb.1]) (by linarith [hb.2])

/-- the tables at their extreme entries: `exp(−1/4) − 1`, `exp(1/4) − 1`, `exp(31/2)`, `exp(704)` -/
example :
    CorrectlyRoundedDD (Real.exp (-(1 / 4)) - 1) (explog.expm1_128th.EXPM1_128TH.getD 0 default) ∧
    CorrectlyRoundedDD (Real.exp (1 / 4) - 1) (explog.expm1_128th.EXPM1_128TH.getD 64 default) ∧
    CorrectlyRoundedDD (Real.exp (31 / 2)) (explog.exp_half.EXP_HALF_N.getD 30 default) ∧
    CorrectlyRoundedDD (Real.exp 704) (explog.exp_half.EXP_16_N.getD 43 default) := by
  refine ⟨?_, ?_, ?_, ?_⟩
  · have := EXPM1_128TH_correct 0 (by norm_num) (by norm_num)
    convert this using 3; norm_num
  · have := EXPM1_128TH_correct 64 (by norm_num) (by norm_num)
    convert this using 3; norm_num
  · have := EXP_HALF_N_correct 30 (by norm_num)
    convert this using 2; norm_num
  · have := EXP_16_N_correct 43 (by norm_num)
    convert this using 2; norm_num

end C14e
