/-
C05c — `TwoFloat / f64` (DWDivFP3, Joldes–Muller–Popescu 2017, Algorithm 15, Theorem 4.1) with the property's
constant `3u² = 3·2^-106`.  This closes the gap left open in `C01d.div_tf_f64_bound_partial` (`(17/4)u²`).

Units: `x.V`, `c.toInt` in units of `2^-1074`; `q.V * c.toInt` and `x.V * unit` (`unit = 2^1074`) both live in units of
`2^-2148`, so `2^106·|q.V·c − x.V·unit| ≤ 3·|x.V·unit|` says `|q·c − x| ≤ 3·2^-106·|x|`, i.e. `|q − x/c| ≤ 3u²·|x/c|`,
without division.

The proof (`F64.divtf_3u2_int`, `F64.div_tf_val_3u2` in `TFV/Lemmas/Rest.lean`) follows the paper's binade case
analysis: `th = RN(xh/c)`, `(πh, πl) = 2Prod(th, c)` exact, `δh = xh − πh` and `δt = δh − πl` exact,
`δ = RN(δt + xl)`, `tl = RN(δ/c)`, Fast2Sum exact; the two rounding errors are bounded by half-ulps of the binades of
`δt + xl` and `δ/c`, and the three configurations (quotient mantissa below 1; at least 1 with `|δt + xl|` at most /
more than one ulp of `xh`) are closed with the lower bounds `|x| ≥ (1 − u/2)·2^k` (inward low words at a binade
boundary are at most a quarter ulp), `xh ≥ c`-mantissa, and — when `|δt + xl|` exceeds an ulp — the facts that `c` is
not a power of two and the quotient is inexact, so that the mantissa of `xh` exceeds that of `c` by at least an ulp.
-/
import TFV.Lemmas.Rest

set_option exponentiation.threshold 3000

namespace C05c

open F64 TwoFloat C01

/-- **C05, `TwoFloat / f64` (and `/=`): valid result with relative error at most `3·2^-106`** for a valid `x` and a
finite double `c` with high word / value of magnitude in `[2^-450, 2^450]` (scaled `[2^624, 2^1524]`). -/
theorem div_tf_f64_bound (x : TwoFloat) (c : F64) (hx : x.Valid) (hwx : x.WF)
    (hc : c.is_finite = true) (hwc : c.WF)
    (hA1 : 2 ^ 624 ≤ x.hi.toInt.natAbs) (hA2 : x.hi.toInt.natAbs ≤ 2 ^ 1524)
    (hB1 : 2 ^ 624 ≤ c.toInt.natAbs) (hB2 : c.toInt.natAbs ≤ 2 ^ 1524) :
    (divTF x c).Valid ∧
    2 ^ 106 * |(divTF x c).V * c.toInt - x.V * (unit : Int)| ≤ 3 * |x.V * (unit : Int)| ∧
    (arithmetic.impl_DivAssign_rf64_for_TwoFloat.div_assign x c) = divTF x c := by
  have a2 : |x.hi.toInt| ≤ (2 : Int) ^ 1524 := by rw [Int.abs_eq_natAbs]; exact_mod_cast hA2
  have hm := two_pow_le_maxFin_int (k := 1525) (by norm_num)
  have hcpos : 0 < c.toInt.natAbs := lt_of_lt_of_le (by positivity) hB1
  have hq : 2 ^ 120 * c.toInt.natAbs ≤ x.hi.toInt.natAbs * unit := by
    rw [unit_eq]
    calc 2 ^ 120 * c.toInt.natAbs ≤ 2 ^ 120 * 2 ^ 1524 := Nat.mul_le_mul_left _ hB2
      _ ≤ 2 ^ 624 * 2 ^ 1074 := by norm_num
      _ ≤ x.hi.toInt.natAbs * 2 ^ 1074 := Nat.mul_le_mul_right _ hA1
  have hr : roundQ (x.hi.toInt.natAbs * unit) c.toInt.natAbs ≤ 2 ^ 1974 := by
    apply roundQ_le_of_le hcpos (rep_two_pow 1974)
    rw [unit_eq]
    calc x.hi.toInt.natAbs * 2 ^ 1074 ≤ 2 ^ 1524 * 2 ^ 1074 := Nat.mul_le_mul_right _ hA2
      _ ≤ 2 ^ 1974 * 2 ^ 624 := by norm_num
      _ ≤ 2 ^ 1974 * c.toInt.natAbs := Nat.mul_le_mul_left _ hB1
  have hov : 2 * roundQ (x.hi.toInt.natAbs * unit) c.toInt.natAbs ≤ maxFin := by
    have h2 : 2 * 2 ^ 1974 ≤ maxFin := le_trans (by norm_num) two_pow_2097_le_maxFin
    omega
  have key := F64.div_tf_val_3u2 hx hwx hc hwc (le_trans (by norm_num) hB1) (le_trans (by norm_num) hA1)
    (by omega) hq hov
  exact ⟨key.1, key.2, rfl⟩

/-- the operator form -/
theorem div_tf_f64_bound' (x : TwoFloat) (c : F64) (hx : x.Valid) (hwx : x.WF)
    (hc : c.is_finite = true) (hwc : c.WF)
    (hA1 : 2 ^ 624 ≤ x.hi.toInt.natAbs) (hA2 : x.hi.toInt.natAbs ≤ 2 ^ 1524)
    (hB1 : 2 ^ 624 ≤ c.toInt.natAbs) (hB2 : c.toInt.natAbs ≤ 2 ^ 1524) :
    (x /. c).Valid ∧ 2 ^ 106 * |(x /. c).V * c.toInt - x.V * (unit : Int)| ≤ 3 * |x.V * (unit : Int)| :=
  ⟨(div_tf_f64_bound x c hx hwx hc hwc hA1 hA2 hB1 hB2).1, (div_tf_f64_bound x c hx hwx hc hwc hA1 hA2 hB1 hB2).2.1⟩

/-- the general form: divisor normal, `|x.hi| ≥ 2^-969`, `|x.hi / c| ≥ 2^-954`, no overflow -/
theorem div_tf_f64_bound_general {x : TwoFloat} {c : F64} (hx : x.Valid) (hwx : x.WF) (hc : c.is_finite = true)
    (hwc : c.WF) (hB52 : 2 ^ 52 ≤ c.toInt.natAbs) (hA105 : 2 ^ 105 ≤ x.hi.toInt.natAbs)
    (hA2 : 2 * |x.hi.toInt| ≤ (maxFin : Int))
    (hq : 2 ^ 120 * c.toInt.natAbs ≤ x.hi.toInt.natAbs * unit)
    (hov : 2 * roundQ (x.hi.toInt.natAbs * unit) c.toInt.natAbs ≤ maxFin) :
    (divTF x c).Valid ∧
    2 ^ 106 * |(divTF x c).V * c.toInt - x.V * (unit : Int)| ≤ 3 * |x.V * (unit : Int)| :=
  F64.div_tf_val_3u2 hx hwx hc hwc hB52 hA105 hA2 hq hov

/-! ### instances on concrete operands (hypotheses discharged by kernel evaluation) -/

/-- π / 3 -/
example :
    2 ^ 106 * |(consts.PI /. f64lit 0x4008000000000000).V * (f64lit 0x4008000000000000).toInt
        - consts.PI.V * (unit : Int)| ≤ 3 * |consts.PI.V * (unit : Int)| :=
  (div_tf_f64_bound' consts.PI (f64lit 0x4008000000000000)
    (by decide +kernel) ⟨by decide +kernel, by decide +kernel⟩ (by decide +kernel) (by decide +kernel)
    (by decide +kernel) (by decide +kernel) (by decide +kernel) (by decide +kernel)).2

/-- e / (1 + 2^-52): divisor one ulp above a power of two -/
example :
    (consts.E /. f64lit 0x3ff0000000000001).Valid ∧
    2 ^ 106 * |(consts.E /. f64lit 0x3ff0000000000001).V * (f64lit 0x3ff0000000000001).toInt
        - consts.E.V * (unit : Int)| ≤ 3 * |consts.E.V * (unit : Int)| :=
  div_tf_f64_bound' consts.E (f64lit 0x3ff0000000000001)
    (by decide +kernel) ⟨by decide +kernel, by decide +kernel⟩ (by decide +kernel) (by decide +kernel)
    (by decide +kernel) (by decide +kernel) (by decide +kernel) (by decide +kernel)

/-- `(1, -2^-54) / (2 - 2^-52)`: numerator just below a power of two (quarter-ulp inward low word), largest divisor
mantissa -/
example :
    let x : TwoFloat := ⟨f64lit 0x3ff0000000000000, f64lit 0xbc90000000000000⟩
    let c := f64lit 0x3fffffffffffffff
    (x /. c).Valid ∧ 2 ^ 106 * |(x /. c).V * c.toInt - x.V * (unit : Int)| ≤ 3 * |x.V * (unit : Int)| :=
  div_tf_f64_bound' ⟨f64lit 0x3ff0000000000000, f64lit 0xbc90000000000000⟩ (f64lit 0x3fffffffffffffff)
    (by decide +kernel) ⟨by decide +kernel, by decide +kernel⟩ (by decide +kernel) (by decide +kernel)
    (by decide +kernel) (by decide +kernel) (by decide +kernel) (by decide +kernel)

end C05c
