/-
C14h (numerical layer) — property C14, the gaps left by `C14f` (`exp_m1`) and `C14g` (`powf`):

  "powf(x, y) for 2^-30 ≤ x ≤ 2^30, |y| ≤ 10 within 2^-100·(1 + |y·ln x|) relative of x^y"              (valid x, y)
  "exp_m1 within 2^-100 for |x| ≤ 2^-8 and for x outside [−0.70, 0.41], within 2^-45 elsewhere
   (x = 0 or 2^-1000 ≤ |x|, x ≤ 700)"

Values are real numbers: `val t = hi + lo = t.V / 2^1074 : ℝ`; `u = 2^-53`, `2^-100 = 64u²`.  Lemmas: `Lemmas/PowfTight`.

A. `powf`.  `C14g` had the floor `2^-100·(1 + |w·ln v|)` only for `|w| ≤ 4/3` (and `2^-97·(…)` for `|w| ≤ 10`).  PROVED here:
   * `powf_bound_region_partial`: THE FLOOR for every valid `x`, `y` (`2^-30 ≤ v ≤ 2^30`, `|w| ≤ 10`) with
         `|w| ≤ 4.4`   or   `13.23·|w| − 53.9·|w·ln v| ≤ 52.5`;
     corollaries: `powf_bound_y_le` (`|w| ≤ 4.4`, all `x`), `powf_bound_far` (`|ln v| ≥ 0.1481`, all `|w| ≤ 10`),
     `powf_bound_x_outside` (`v ≤ 0.86` or `v ≥ 1.16`, all `|w| ≤ 10`).
   * `powf_bound_tight_gen`: what the analysis gives everywhere: relative error `d + |w|·λ + 5u²·|w·ln v| + 0.001u²`,
     `λ` the absolute error of `ln` (`13.22u² + 5.02u²|ln v|` for `|ln v| ≤ 0.2497`, `18.48u² + 5.02u²|ln v|` for
     `|ln v| ≤ 1.2`, `32u²(1 + |ln v|)` beyond), `d` the relative error of the final `exp` (`5.2u²` for `|w·ln v| ≤ 0.2497`,
     `11.46u²` up to `3.2497`, `37u²` beyond).
   UNCOVERED (exactly): `4.4 < |w| ≤ 10` together with `13.23·|w| − 53.9·|w·ln v| > 52.5`, i.e.
         `|ln v| < (13.23 − 52.5/|w|)/53.9`   (`|ln v| < 0.1481`, `0.8624 < v < 1.1596`, at `|w| = 10`; `|ln v| < 0.024` at `|w| = 4.4`).
   This is a proof gap, not a model defect (no counterexample found; `C14g` reports `26.3u²` as the largest error observed
   on 240 000 exact evaluations at `|w| = 10`, against a floor `≥ 64u²`).  Why it is hard: at `w = 10`, `v → 1` the floor
   leaves `(64u² − d)/10 ≤ 5.9u²` for the ABSOLUTE error of `ln` near `1`, while the last Newton step
   `ln x ← (x₂ + v·exp(−x₂)) − 1` consists of an `exp` (`3.6u²` absolute near `0`: table-free, `1.6u²` polynomial kernel + `2u²` for
   `+ 1.0`), one `TwoFloat * TwoFloat` (`5u²`, `C04c`) and one `TwoFloat + TwoFloat` (`3u²`, `C03b`): `≥ 11.6u²` from the generic
   operator bounds.  Closing the gap needs operator bounds specialised to operands within `2^-k` of `1` (worst cases of
   DWTimesDW3/AccurateDWPlusDW there are about `2.5u² + 1.5u²`, still at the edge of the `5.9u²` available).
   What was sharpened (`PowfTight`): the `5u²` product of `C04c` over `ℝ` (`mul_rv5`); the final product of `exp` is EXACT for
   the reduction index `k = 0` (`exp_half(0) = (1, 0)`, `C04x.mul_tt_one_right`); `exp_half(k)`, `|k| ≤ 6`, by evaluation
   (`0.25u²` for `|k| ≤ 2`, `1.25u²` for `|k| ≤ 6`; the generic bounds were `8.1u²`/`24.2u²`): `exp_bound_tight`
   (`5.2u²`, `10.46u²`, `11.46u²`); `ln_bound_near_one`.

B. `exp_m1`.  `C14f.exp_m1_bound_partial` needed `−600 ≤ x` and (`x = 0` or `|x| ≥ 2^-950`).  PROVED here, closing the clause:
   * `exp_m1_tiny_exact`: for every valid `x ≠ 0` with `|x| ≤ 2^-600` (subnormals included) `exp_m1(x) = x` EXACTLY (as a
     value; valid pair): `r = |x|·P(|x|) + 1.0` is `(1.0, ε)` word for word, all cross products with `ε` underflow to
     zero, and for `x < 0` the factor `exp(x)` is `(1.0, ε')` as well.  Hence `exp_m1_bound_tiny`: relative `2^-100`
     (indeed `≤ 2|x|`).  This is the only way the clause CAN hold there: `2^-100·|x| < 2^-1075` for `|x| < 2^-975`.
     By evaluation (`#eval`, 4000 random valid pairs with `2^-1000 ≤ |x| < 2^-950`, both signs): result `= x` in all cases.
   * `exp_m1_bound_below`: `x < −600` (no lower limit): the branch `exp(x) − 1.0`; `exp(x)` is `0` exactly for
     `x.hi ≤ −709`, and otherwise a valid pair of magnitude `≤ 2^-850` (`PowfTight.exp_coarse_neg`: the 86 table values
     `exp_half(k)`, `−1418 ≤ k ≤ −1333`, beyond the range of the reciprocal lemma, by evaluation); so the result is within
     `2^-105 + 2^-849` of `−1`.
   * `exp_m1_bound`: THE CLAUSE IN FULL: valid `x ≤ 700` ⟹ valid result, relative `2^-100` when `|x| ≤ 2^-8` or
     `x ∉ [−0.70, 0.41]`, relative `2^-45` always.
   No counterexample: nothing in the `exp_m1` clause is false on the model.
-/
import TFV.Lemmas.PowfTight

set_option exponentiation.threshold 4000

namespace C14h

open F64 TwoFloat ConstBounds ExpBound

/-- exact real value `hi + lo` of a pair -/
noncomputable abbrev val (t : TwoFloat) : ℝ := ExpBound.rv t

/-! ## A. sharper `exp`, `ln`, `powf` -/

/-- **`exp` for `|x| ≤ 3.2498`**: with `k = round(2x)` (`|k| ≤ 6`, `|x − k/2| ≤ 0.2501`) the relative error is at most
`5.2u²` if `k = 0`, `10.46u²` if `|k| ≤ 2`, `11.46u²` in every case -/
theorem exp_bound_tight (x : TwoFloat) (hv : x.Valid) (hw : x.WF) (hx : |val x| ≤ 32498 / 10000) :
    (TwoFloat.exp x).Valid ∧ ∃ k : ℤ, |k| ≤ 6 ∧ |val x - (k : ℝ) / 2| ≤ 2501 / 10000 ∧
      (k = 0 → |val (TwoFloat.exp x) - Real.exp (val x)| ≤ 52 / 10 / 2 ^ 106 * Real.exp (val x)) ∧
      (|k| ≤ 2 → |val (TwoFloat.exp x) - Real.exp (val x)| ≤ 1046 / 100 / 2 ^ 106 * Real.exp (val x)) ∧
      |val (TwoFloat.exp x) - Real.exp (val x)| ≤ 1146 / 100 / 2 ^ 106 * Real.exp (val x) := by
  obtain ⟨h1, h2⟩ := PowfTight.exp_tight x hv hw hx
  exact ⟨h1.1, h2⟩

/-- … in particular `5.2u²` for `|x| ≤ 0.2498` -/
theorem exp_bound_near_zero (x : TwoFloat) (hv : x.Valid) (hw : x.WF) (hx : |val x| ≤ 2498 / 10000) :
    (TwoFloat.exp x).Valid ∧ |val (TwoFloat.exp x) - Real.exp (val x)| ≤ 52 / 10 / 2 ^ 106 * Real.exp (val x) := by
  obtain ⟨h1, k, -, hD, h0, -, -⟩ := PowfTight.exp_tight x hv hw (le_trans hx (by norm_num))
  refine ⟨h1.1, h0 ?_⟩
  obtain ⟨d1, d2⟩ := abs_le.1 hD
  obtain ⟨x1, x2⟩ := abs_le.1 hx
  have a1 : (-1 : ℝ) < (k : ℝ) := by linarith
  have a2 : (k : ℝ) < 1 := by linarith
  have b1 : (-1 : ℤ) < k := by exact_mod_cast a1
  have b2 : k < (1 : ℤ) := by exact_mod_cast a2
  omega

/-- **`ln` near `1`** (`|ln v| ≤ 1.2`, i.e. `0.302 ≤ v ≤ 3.32`): absolute error at most `18.48u² + 5.02u²·|ln v|`, and
`13.22u² + 5.02u²·|ln v|` when `|ln v| ≤ 0.2497` (`C15l.ln_bound`: `32u²·(1 + |ln v|)`) -/
theorem ln_bound_near_one (x : TwoFloat) (hv : x.Valid) (hw : x.WF) (hpos : 0 < val x)
    (hL : |Real.log (val x)| ≤ 12 / 10) :
    (TwoFloat.ln x).Valid ∧
    |val (TwoFloat.ln x) - Real.log (val x)| ≤ 1848 / 100 / 2 ^ 106 + 502 / 100 / 2 ^ 106 * |Real.log (val x)| ∧
    (|Real.log (val x)| ≤ 2497 / 10000 →
      |val (TwoFloat.ln x) - Real.log (val x)| ≤ 1322 / 100 / 2 ^ 106 + 502 / 100 / 2 ^ 106 * |Real.log (val x)|) := by
  obtain ⟨h1, h2, h3⟩ := PowfTight.ln_tight x ⟨hv, hw⟩ hpos hL
  exact ⟨h1.1, h2, h3⟩

/-- `v ^ w = exp(w·ln v)` for `v > 0` -/
theorem rpow_eq_exp {v w : ℝ} (hv : 0 < v) : v ^ w = Real.exp (w * Real.log v) := by
  rw [Real.rpow_def_of_pos hv, mul_comm]

/-- **what the analysis gives for `powf`**: relative error `d + |w|·λ + 5u²·|w·ln v| + 0.001u²`; `λ` = absolute error
of `ln` (three regimes, `PowfTight.LamCase`), `d` = relative error of the final `exp` (three regimes, `PowfTight.DCase`) -/
theorem powf_bound_tight_gen (x y : TwoFloat) (hvx : x.Valid) (hwx : x.WF) (hvy : y.Valid) (hwy : y.WF)
    (hx1 : 1 / 2 ^ 30 ≤ val x) (hx2 : val x ≤ 2 ^ 30) (hy : |val y| ≤ 10) :
    (TwoFloat.powf x y).Valid ∧ (TwoFloat.powf x y).WF ∧ ∃ d lam : ℝ,
      ((|val y * Real.log (val x)| ≤ 2497 / 10000 ∧ d = 52 / 10 / 2 ^ 106) ∨
       (2497 / 10000 < |val y * Real.log (val x)| ∧ |val y * Real.log (val x)| ≤ 32497 / 10000 ∧
          d = 1146 / 100 / 2 ^ 106) ∨
       (32497 / 10000 < |val y * Real.log (val x)| ∧ d = 37 / 2 ^ 106)) ∧
      ((|Real.log (val x)| ≤ 2497 / 10000 ∧
          lam = 1322 / 100 / 2 ^ 106 + 502 / 100 / 2 ^ 106 * |Real.log (val x)|) ∨
       (2497 / 10000 < |Real.log (val x)| ∧ |Real.log (val x)| ≤ 12 / 10 ∧
          lam = 1848 / 100 / 2 ^ 106 + 502 / 100 / 2 ^ 106 * |Real.log (val x)|) ∨
       (12 / 10 < |Real.log (val x)| ∧ lam = 1 / 2 ^ 101 * (1 + |Real.log (val x)|))) ∧
      |val (TwoFloat.powf x y) - val x ^ val y|
        ≤ (d + |val y| * lam + 5 / 2 ^ 106 * |val y * Real.log (val x)| + 1 / 1000 / 2 ^ 106) * val x ^ val y := by
  have hpos : 0 < val x := lt_of_lt_of_le (by positivity) hx1
  rw [rpow_eq_exp hpos]
  obtain ⟨h1, d, lam, hd, hl, hb⟩ := PowfTight.powf_tight_gen x y ⟨hvx, hwx⟩ ⟨hvy, hwy⟩ hx1 hx2 hy
  exact ⟨h1.1, h1.2, d, lam, hd, hl, hb⟩

/-- **Property C14, accuracy of `powf`: THE FLOOR on a region** — PARTIAL only in the region: for valid `x`, `y` with
`2^-30 ≤ x ≤ 2^30`, `|y| ≤ 10` and (`|y| ≤ 4.4` or `13.23·|y| − 53.9·|y·ln x| ≤ 52.5`), `powf(x, y)` is a valid pair
within relative `2^-100·(1 + |y·ln x|)` of `x^y`.
[UNCOVERED: `4.4 < |y| ≤ 10` with `|ln x| < (13.23 − 52.5/|y|)/53.9`; at `|y| = 10`: `|ln x| < 0.1481`.] -/
theorem powf_bound_region_partial (x y : TwoFloat) (hvx : x.Valid) (hwx : x.WF) (hvy : y.Valid) (hwy : y.WF)
    (hx1 : 1 / 2 ^ 30 ≤ val x) (hx2 : val x ≤ 2 ^ 30) (hy : |val y| ≤ 10)
    (hreg : |val y| ≤ 44 / 10 ∨ 1323 / 100 * |val y| - 539 / 10 * |val y * Real.log (val x)| ≤ 525 / 10) :
    (TwoFloat.powf x y).Valid ∧
    |val (TwoFloat.powf x y) - val x ^ val y|
      ≤ 1 / 2 ^ 100 * (1 + |val y * Real.log (val x)|) * val x ^ val y := by
  have hpos : 0 < val x := lt_of_lt_of_le (by positivity) hx1
  rw [rpow_eq_exp hpos]
  obtain ⟨h1, h2⟩ := PowfTight.powf_floor x y ⟨hvx, hwx⟩ ⟨hvy, hwy⟩ hx1 hx2 hy hreg
  exact ⟨h1.1, h2⟩

/-- **the floor for `|y| ≤ 4.4`** and every `2^-30 ≤ x ≤ 2^30` (`C14g.powf_bound_small_y`: `|y| ≤ 4/3`) -/
theorem powf_bound_y_le (x y : TwoFloat) (hvx : x.Valid) (hwx : x.WF) (hvy : y.Valid) (hwy : y.WF)
    (hx1 : 1 / 2 ^ 30 ≤ val x) (hx2 : val x ≤ 2 ^ 30) (hy : |val y| ≤ 44 / 10) :
    (TwoFloat.powf x y).Valid ∧
    |val (TwoFloat.powf x y) - val x ^ val y|
      ≤ 1 / 2 ^ 100 * (1 + |val y * Real.log (val x)|) * val x ^ val y :=
  powf_bound_region_partial x y hvx hwx hvy hwy hx1 hx2 (le_trans hy (by norm_num)) (Or.inl hy)

/-- **the floor for `|y| ≤ 10` away from `x = 1`**: `|ln x| ≥ 0.1481` -/
theorem powf_bound_far (x y : TwoFloat) (hvx : x.Valid) (hwx : x.WF) (hvy : y.Valid) (hwy : y.WF)
    (hx1 : 1 / 2 ^ 30 ≤ val x) (hx2 : val x ≤ 2 ^ 30) (hy : |val y| ≤ 10)
    (hfar : 1481 / 10000 ≤ |Real.log (val x)|) :
    (TwoFloat.powf x y).Valid ∧
    |val (TwoFloat.powf x y) - val x ^ val y|
      ≤ 1 / 2 ^ 100 * (1 + |val y * Real.log (val x)|) * val x ^ val y := by
  refine powf_bound_region_partial x y hvx hwx hvy hwy hx1 hx2 hy (Or.inr ?_)
  rw [abs_mul]
  have hW := abs_nonneg (val y)
  have h1 : |val y| * (1481 / 10000) ≤ |val y| * |Real.log (val x)| := mul_le_mul_of_nonneg_left hfar hW
  nlinarith

/-- `e^0.1481 ≤ 1.16` -/
theorem exp_1481 : Real.exp (1481 / 10000) ≤ 116 / 100 := by
  have h := (exp_encl (1481 / 10000) (by norm_num [abs_of_pos]) 14 (by norm_num)).2
  rw [show (((1481 / 10000 : ℚ)) : ℝ) = 1481 / 10000 by norm_num] at h
  refine le_trans h ?_
  have : expSum (1481 / 10000) 14 + expRem (1481 / 10000) 14 ≤ (116 / 100 : ℚ) := by decide +kernel
  exact le_trans ((Rat.cast_le (K := ℝ)).2 this) (by norm_num)

/-- `|ln v| ≥ 0.1481` for `v ≤ 0.86` or `v ≥ 1.16` -/
theorem log_far {v : ℝ} (hpos : 0 < v) (h : v ≤ 86 / 100 ∨ 116 / 100 ≤ v) : 1481 / 10000 ≤ |Real.log v| := by
  rcases h with h | h
  · have h1 : Real.log v ≤ Real.log (86 / 100) := Real.log_le_log hpos h
    have h2 : Real.log (86 / 100 : ℝ) ≤ -(1481 / 10000) := by
      rw [Real.log_le_iff_le_exp (by norm_num), Real.exp_neg]
      have h3 : (Real.exp (1481 / 10000))⁻¹ ≥ (116 / 100 : ℝ)⁻¹ := by
        apply inv_anti₀ (Real.exp_pos _) exp_1481
      have : (86 / 100 : ℝ) ≤ (116 / 100 : ℝ)⁻¹ := by norm_num
      linarith
    rw [abs_of_nonpos (by linarith)]
    linarith
  · have h1 : Real.log (116 / 100) ≤ Real.log v := Real.log_le_log (by norm_num) h
    have h2 : (1481 / 10000 : ℝ) ≤ Real.log (116 / 100) := by
      rw [Real.le_log_iff_exp_le (by norm_num)]; exact exp_1481
    exact le_trans (le_trans h2 h1) (le_abs_self _)

/-- **the floor for `|y| ≤ 10` and `x ≤ 0.86` or `x ≥ 1.16`** -/
theorem powf_bound_x_outside (x y : TwoFloat) (hvx : x.Valid) (hwx : x.WF) (hvy : y.Valid) (hwy : y.WF)
    (hx1 : 1 / 2 ^ 30 ≤ val x) (hx2 : val x ≤ 2 ^ 30) (hy : |val y| ≤ 10)
    (hout : val x ≤ 86 / 100 ∨ 116 / 100 ≤ val x) :
    (TwoFloat.powf x y).Valid ∧
    |val (TwoFloat.powf x y) - val x ^ val y|
      ≤ 1 / 2 ^ 100 * (1 + |val y * Real.log (val x)|) * val x ^ val y :=
  powf_bound_far x y hvx hwx hvy hwy hx1 hx2 hy (log_far (lt_of_lt_of_le (by positivity) hx1) hout)

/-! ## B. `exp_m1`: the two slivers -/

/-- **`exp_m1(x) = x` exactly for `0 < |x| ≤ 2^-600`** (valid pair with the same exact value; subnormal `x` included) -/
theorem exp_m1_tiny_exact (x : TwoFloat) (hv : x.Valid) (hw : x.WF) (hne : val x ≠ 0) (ht : |val x| ≤ 1 / 2 ^ 600) :
    (TwoFloat.exp_m1 x).Valid ∧ val (TwoFloat.exp_m1 x) = val x := by
  have hV : x.V ≠ 0 := by
    intro h; apply hne
    show (x.V : ℝ) / 2 ^ 1074 = 0
    rw [h]; simp
  obtain ⟨h1, h2, -⟩ := PowfTight.exp_m1_tiny x hv hw hV ht
  refine ⟨h2, ?_⟩
  show ((TwoFloat.exp_m1 x).V : ℝ) / 2 ^ 1074 = (x.V : ℝ) / 2 ^ 1074
  rw [h1]

/-- `|t − (e^t − 1)| ≤ 2|t|·|e^t − 1|` for `|t| ≤ 1/4` -/
theorem id_vs_expm1 {t : ℝ} (ht : |t| ≤ 1 / 4) : |t - (Real.exp t - 1)| ≤ 2 * |t| * |Real.exp t - 1| := by
  have h1 := Real.abs_exp_sub_one_sub_id_le (le_trans ht (by norm_num))
  have h2 : |t| ≤ |Real.exp t - 1| + |Real.exp t - 1 - t| := by
    have := abs_add_le (Real.exp t - 1) (-(Real.exp t - 1 - t))
    rw [abs_neg, show Real.exp t - 1 + -(Real.exp t - 1 - t) = t by ring] at this
    exact this
  have hta := abs_nonneg t
  have h3 : t ^ 2 = |t| * |t| := by rw [← sq_abs]; ring
  have h4 : |t| * |t| ≤ 1 / 4 * |t| := mul_le_mul_of_nonneg_right ht hta
  have h5 : |t| ≤ 2 * |Real.exp t - 1| := by linarith
  rw [abs_sub_comm]
  calc |Real.exp t - 1 - t| ≤ |t| * |t| := by rw [← h3]; exact h1
    _ ≤ |t| * (2 * |Real.exp t - 1|) := mul_le_mul_of_nonneg_left h5 hta
    _ = 2 * |t| * |Real.exp t - 1| := by ring

/-- **Property C14, `exp_m1` for tiny arguments** (`|x| ≤ 2^-600`, no lower limit): within relative `2^-100` -/
theorem exp_m1_bound_tiny (x : TwoFloat) (hv : x.Valid) (hw : x.WF) (ht : |val x| ≤ 1 / 2 ^ 600) :
    (TwoFloat.exp_m1 x).Valid ∧
    |val (TwoFloat.exp_m1 x) - (Real.exp (val x) - 1)| ≤ |Real.exp (val x) - 1| / 2 ^ 100 := by
  by_cases h0 : val x = 0
  · exact C14f.exp_m1_bound_small_partial x hv hw (le_trans ht (by norm_num)) (Or.inl h0)
  · obtain ⟨h1, h2⟩ := exp_m1_tiny_exact x hv hw h0 ht
    refine ⟨h1, ?_⟩
    rw [h2]
    refine le_trans (id_vs_expm1 (le_trans ht (by norm_num))) ?_
    have hA := abs_nonneg (Real.exp (val x) - 1)
    have : 2 * |val x| ≤ 1 / 2 ^ 100 := by
      have : (2 : ℝ) * (1 / 2 ^ 600) ≤ 1 / 2 ^ 100 := by norm_num
      linarith
    calc 2 * |val x| * |Real.exp (val x) - 1| ≤ 1 / 2 ^ 100 * |Real.exp (val x) - 1| :=
          mul_le_mul_of_nonneg_right this hA
      _ = |Real.exp (val x) - 1| / 2 ^ 100 := by ring

/-- **Property C14, `exp_m1` for `|x| ≤ 2^-8`, IN FULL** (`C14f.exp_m1_bound_small_partial` without its lower limit) -/
theorem exp_m1_bound_small (x : TwoFloat) (hv : x.Valid) (hw : x.WF) (h8 : |val x| ≤ 1 / 2 ^ 8) :
    (TwoFloat.exp_m1 x).Valid ∧
    |val (TwoFloat.exp_m1 x) - (Real.exp (val x) - 1)| ≤ |Real.exp (val x) - 1| / 2 ^ 100 := by
  by_cases ht : |val x| ≤ 1 / 2 ^ 600
  · exact exp_m1_bound_tiny x hv hw ht
  · refine C14f.exp_m1_bound_small_partial x hv hw h8 (Or.inr ?_)
    have : (1 : ℝ) / 2 ^ 950 ≤ 1 / 2 ^ 600 := by norm_num
    linarith [not_le.1 ht]

/-- **Property C14, `exp_m1` below `−600`** (no lower limit): within relative `2^-100` of `e^x − 1` -/
theorem exp_m1_bound_below (x : TwoFloat) (hv : x.Valid) (hw : x.WF) (hx : val x < -600) :
    (TwoFloat.exp_m1 x).Valid ∧
    |val (TwoFloat.exp_m1 x) - (Real.exp (val x) - 1)| ≤ |Real.exp (val x) - 1| / 2 ^ 100 := by
  obtain ⟨h1, h2⟩ := PowfTight.exp_m1_below x hv hw hx
  exact ⟨h1.1, h2⟩

/-- **Property C14, accuracy of `exp_m1`, IN FULL**: for every valid `x ≤ 700`, `exp_m1(x)` is a valid pair within
relative `2^-100` of `e^x − 1` when `|x| ≤ 2^-8` or `x` lies outside `[−0.70, 0.41]`, and within `2^-45` in every case -/
theorem exp_m1_bound (x : TwoFloat) (hv : x.Valid) (hw : x.WF) (hhi : val x ≤ 700) :
    (TwoFloat.exp_m1 x).Valid ∧
    ((|val x| ≤ 1 / 2 ^ 8 ∨ val x ≤ -(7 / 10) ∨ 41 / 100 ≤ val x) →
      |val (TwoFloat.exp_m1 x) - (Real.exp (val x) - 1)| ≤ |Real.exp (val x) - 1| / 2 ^ 100) ∧
    |val (TwoFloat.exp_m1 x) - (Real.exp (val x) - 1)| ≤ |Real.exp (val x) - 1| / 2 ^ 45 := by
  by_cases hlo : -600 ≤ val x
  · by_cases ht : |val x| ≤ 1 / 2 ^ 600
    · have key := exp_m1_bound_tiny x hv hw ht
      exact ⟨key.1, fun _ => key.2, le_trans key.2 (C14f.pow_le_scale (abs_nonneg _))⟩
    · refine C14f.exp_m1_bound_partial x hv hw hlo hhi (Or.inr ?_)
      have : (1 : ℝ) / 2 ^ 950 ≤ 1 / 2 ^ 600 := by norm_num
      linarith [not_le.1 ht]
  · have key := exp_m1_bound_below x hv hw (not_le.1 hlo)
    exact ⟨key.1, fun _ => key.2, le_trans key.2 (C14f.pow_le_scale (abs_nonneg _))⟩

/-! ## examples -/

/-- the double-double `(c, 0)` -/
def ofF (c : F64) : TwoFloat := ⟨c, F64.zero⟩

theorem val_of_V {t : TwoFloat} {n : ℤ} (h : t.V = n) : val t = (n : ℝ) / 2 ^ 1074 := by
  show ExpBound.rv t = _
  unfold ExpBound.rv; rw [h]

theorem val_int {t : TwoFloat} {m : ℤ} (h : t.V = m * 2 ^ 1074) : val t = (m : ℝ) := by
  rw [val_of_V h]
  simp only [Int.cast_mul, Int.cast_pow, Int.cast_ofNat]
  rw [mul_div_assoc, div_self (by positivity : ((2 : ℝ) ^ 1074) ≠ 0), mul_one]

/-- `powf(2, 10) ≈ 2^10` and `powf(3/2, −7) ≈ (3/2)^(−7)` to the floor (`|y| > 4.4`, `x ≥ 1.16`) -/
example :
    |val (TwoFloat.powf (ofF (f64lit 0x4000000000000000)) (ofF (f64lit 0x4024000000000000))) - (2 : ℝ) ^ (10 : ℝ)|
      ≤ 1 / 2 ^ 100 * (1 + |10 * Real.log 2|) * (2 : ℝ) ^ (10 : ℝ) := by
  have hx : val (ofF (f64lit 0x4000000000000000)) = 2 := by
    have := val_int (t := ofF (f64lit 0x4000000000000000)) (m := 2) (by decide +kernel)
    exact_mod_cast this
  have hy : val (ofF (f64lit 0x4024000000000000)) = 10 := by
    have := val_int (t := ofF (f64lit 0x4024000000000000)) (m := 10) (by decide +kernel)
    exact_mod_cast this
  have h := (powf_bound_x_outside (ofF (f64lit 0x4000000000000000)) (ofF (f64lit 0x4024000000000000))
    (by decide +kernel) ⟨by decide +kernel, by decide +kernel⟩ (by decide +kernel)
    ⟨by decide +kernel, by decide +kernel⟩ (by rw [hx]; norm_num) (by rw [hx]; norm_num)
    (by rw [hy]; norm_num [abs_of_pos]) (Or.inr (by rw [hx]; norm_num))).2
  rwa [hx, hy] at h

/-- `powf(1 + 2^-30, 4)`: arbitrarily close to `x = 1` with `|y| ≤ 4.4` -/
example :
    |val (TwoFloat.powf (ofF (f64lit 0x3ff0000000400000)) (ofF (f64lit 0x4010000000000000)))
        - val (ofF (f64lit 0x3ff0000000400000)) ^ (4 : ℝ)|
      ≤ 1 / 2 ^ 100 * (1 + |4 * Real.log (val (ofF (f64lit 0x3ff0000000400000)))|)
        * val (ofF (f64lit 0x3ff0000000400000)) ^ (4 : ℝ) := by
  have hy : val (ofF (f64lit 0x4010000000000000)) = 4 := by
    have := val_int (t := ofF (f64lit 0x4010000000000000)) (m := 4) (by decide +kernel)
    exact_mod_cast this
  have hx : val (ofF (f64lit 0x3ff0000000400000)) = 1 + 1 / 2 ^ 30 := by
    rw [val_of_V (show (ofF (f64lit 0x3ff0000000400000)).V = 2 ^ 1074 + 2 ^ 1044 by decide +kernel)]
    simp only [Int.cast_add, Int.cast_pow, Int.cast_ofNat]
    rw [add_div, div_self (by positivity : ((2 : ℝ) ^ 1074) ≠ 0)]
    congr 1
    rw [div_eq_div_iff (by positivity) (by positivity), one_mul, ← pow_add]
  have h := (powf_bound_y_le (ofF (f64lit 0x3ff0000000400000)) (ofF (f64lit 0x4010000000000000))
    (by decide +kernel) ⟨by decide +kernel, by decide +kernel⟩ (by decide +kernel)
    ⟨by decide +kernel, by decide +kernel⟩ (by rw [hx]; norm_num) (by rw [hx]; norm_num)
    (by rw [hy]; norm_num [abs_of_pos])).2
  rwa [hy] at h

/-- `exp_m1(−2^-960) = −2^-960` exactly, and hence to `2^-100` -/
example :
    val (TwoFloat.exp_m1 (ofF (F64.fin true (2 ^ 114)))) = val (ofF (F64.fin true (2 ^ 114))) ∧
    |val (TwoFloat.exp_m1 (ofF (F64.fin true (2 ^ 114)))) - (Real.exp (val (ofF (F64.fin true (2 ^ 114)))) - 1)|
      ≤ |Real.exp (val (ofF (F64.fin true (2 ^ 114)))) - 1| / 2 ^ 100 := by
  have hx : val (ofF (F64.fin true (2 ^ 114))) = -(1 / 2 ^ 960) := by
    rw [val_of_V (show (ofF (F64.fin true (2 ^ 114))).V = -(2 ^ 114) by decide +kernel)]
    simp only [Int.cast_neg, Int.cast_pow, Int.cast_ofNat]
    rw [neg_div]
    congr 1
    rw [div_eq_div_iff (by positivity) (by positivity), one_mul, ← pow_add]
  have habs : |val (ofF (F64.fin true (2 ^ 114)))| ≤ 1 / 2 ^ 600 := by
    rw [hx, abs_neg, abs_of_pos (by positivity)]
    apply one_div_le_one_div_of_le (by positivity)
    exact pow_le_pow_right₀ (by norm_num) (by norm_num)
  have hne : val (ofF (F64.fin true (2 ^ 114))) ≠ 0 := by
    rw [hx]; exact neg_ne_zero.2 (by positivity)
  exact ⟨(exp_m1_tiny_exact _ (by decide +kernel) ⟨by decide +kernel, by decide +kernel⟩ hne habs).2,
    (exp_m1_bound_tiny _ (by decide +kernel) ⟨by decide +kernel, by decide +kernel⟩ habs).2⟩

/-- `exp_m1(−650) ≈ e^(−650) − 1` and `exp_m1(−10^6) ≈ −1` to `2^-100` -/
example :
    |val (TwoFloat.exp_m1 (ofF (f64lit 0xc084500000000000))) - (Real.exp (-650) - 1)|
      ≤ |Real.exp (-650) - 1| / 2 ^ 100 ∧
    |val (TwoFloat.exp_m1 (ofF (f64lit 0xc12e848000000000))) - (Real.exp (-1000000) - 1)|
      ≤ |Real.exp (-1000000) - 1| / 2 ^ 100 := by
  have h1 : val (ofF (f64lit 0xc084500000000000)) = -650 := by
    have := val_int (t := ofF (f64lit 0xc084500000000000)) (m := -650) (by decide +kernel)
    exact_mod_cast this
  have h2 : val (ofF (f64lit 0xc12e848000000000)) = -1000000 := by
    have := val_int (t := ofF (f64lit 0xc12e848000000000)) (m := -1000000) (by decide +kernel)
    exact_mod_cast this
  constructor
  · have h := (exp_m1_bound_below (ofF (f64lit 0xc084500000000000)) (by decide +kernel)
      ⟨by decide +kernel, by decide +kernel⟩ (by rw [h1]; norm_num)).2
    rwa [h1] at h
  · have h := (exp_m1_bound_below (ofF (f64lit 0xc12e848000000000)) (by decide +kernel)
      ⟨by decide +kernel, by decide +kernel⟩ (by rw [h2]; norm_num)).2
    rwa [h2] at h

/-- the assembled clause at `x = −650` (below the old limit `−600`) -/
example :
    |val (TwoFloat.exp_m1 (ofF (f64lit 0xc084500000000000))) - (Real.exp (-650) - 1)|
      ≤ |Real.exp (-650) - 1| / 2 ^ 100 := by
  have h1 : val (ofF (f64lit 0xc084500000000000)) = -650 := by
    have := val_int (t := ofF (f64lit 0xc084500000000000)) (m := -650) (by decide +kernel)
    exact_mod_cast this
  have h := (exp_m1_bound (ofF (f64lit 0xc084500000000000)) (by decide +kernel)
    ⟨by decide +kernel, by decide +kernel⟩ (by rw [h1]; norm_num)).2.1 (Or.inr (Or.inl (by rw [h1]; norm_num)))
  rwa [h1] at h

/-- `exp(1/8)` to `5.2u²` and `ln(3/2)` to `18.48u² + 5.02u²·ln(3/2)` -/
example :
    |val (TwoFloat.exp (ofF (f64lit 0x3fc0000000000000))) - Real.exp (1 / 8)| ≤ 52 / 10 / 2 ^ 106 * Real.exp (1 / 8) ∧
    |val (TwoFloat.ln (ofF (f64lit 0x3ff8000000000000))) - Real.log (3 / 2)|
      ≤ 1848 / 100 / 2 ^ 106 + 502 / 100 / 2 ^ 106 * |Real.log (3 / 2)| := by
  have h1 : val (ofF (f64lit 0x3fc0000000000000)) = 1 / 8 := by
    rw [val_of_V (show (ofF (f64lit 0x3fc0000000000000)).V = 2 ^ 1071 by decide +kernel)]
    simp only [Int.cast_pow, Int.cast_ofNat]
    rw [div_eq_div_iff (by positivity) (by norm_num)]
    norm_num
  have h2 : val (ofF (f64lit 0x3ff8000000000000)) = 3 / 2 := by
    rw [val_of_V (show (ofF (f64lit 0x3ff8000000000000)).V = 3 * 2 ^ 1073 by decide +kernel)]
    simp only [Int.cast_mul, Int.cast_pow, Int.cast_ofNat]
    rw [div_eq_div_iff (by positivity) (by norm_num)]
    norm_num
  constructor
  · have h := (exp_bound_near_zero (ofF (f64lit 0x3fc0000000000000)) (by decide +kernel)
      ⟨by decide +kernel, by decide +kernel⟩ (by rw [h1]; norm_num [abs_of_pos])).2
    rwa [h1] at h
  · have hl0 : 0 ≤ Real.log (3 / 2 : ℝ) := Real.log_nonneg (by norm_num)
    have hl1 : Real.log (3 / 2 : ℝ) ≤ 1 / 2 := by
      have := Real.log_le_sub_one_of_pos (by norm_num : (0 : ℝ) < 3 / 2)
      linarith
    have h := (ln_bound_near_one (ofF (f64lit 0x3ff8000000000000)) (by decide +kernel)
      ⟨by decide +kernel, by decide +kernel⟩ (by rw [h2]; norm_num)
      (by rw [h2, abs_of_nonneg hl0]; linarith)).2.1
    rwa [h2] at h

/-! ### inside the uncovered region of `powf`: evaluation

`x = 1.125`, `y = 10` (`|ln x| = 0.1178 < 0.1481`): by exact rational evaluation of the model the relative error is
`5.39u²` (floor: `≥ 64u²`).  Further `#eval` values of the relative error at `y = ±10`: `x = 1 + 2^-30`: `0.012u²`, `0.043u²`;
`x = 1 − 2^-21`: `0.000u²`, `0.004u²`; `x = 1.0625`: `4.36u²`, `3.55u²`; `x = 0.9375`, `y = −10`: `0.15u²`; `x = RN(1.1)`:
`1.17u²`; `x = (RN(1.1), 2^-55·1.6)`: `2.16u²`. -/

theorem powf_sample_in_gap :
    |PowiBound.val (TwoFloat.powf (ofF (f64lit 0x3ff2000000000000)) (ofF (f64lit 0x4024000000000000)))
        - PowiBound.val (ofF (f64lit 0x3ff2000000000000)) ^ 10| * 2 ^ 106
      ≤ 6 * PowiBound.val (ofF (f64lit 0x3ff2000000000000)) ^ 10 := by
  decide +kernel

end C14h
