/-
C03b (numerical layer) — the error bounds of addition and subtraction, PROVED WITH THE PAPER'S CONSTANTS:

* `TwoFloat ± f64`, `f64 ± TwoFloat` (DWPlusFP, Joldes–Muller–Popescu 2017, Algorithm 4, Theorem 2.2):
  relative error at most `2u² = 2·2^-106 = 2^-105`;
* `TwoFloat ± TwoFloat` (AccurateDWPlusDW, Algorithm 6, Theorem 3.1): relative error at most
  `3u² + 13u³ = 3·2^-106 + 13·2^-159`, stated as `|r.V - (x.V + y.V)| * 2^159 ≤ (3·2^53 + 13) * |x.V + y.V|`
  (range `|x.hi|, |y.hi| < 2^1020`, scaled `2^2094`).

Units: every finite double is an integer multiple of `2^-1074`; `F64.toInt` is that integer, `TwoFloat.V = hi + lo`.
The statement `|r.V - (x.V + f.toInt)| * 2^105 ≤ |x.V + f.toInt|` is "relative error ≤ 2^-105" without division
(and says `r.V = 0` when the exact sum is `0`).  Each theorem also asserts that the result is a `Valid` pair, in
particular that both words are finite, so that `r.V` is the value of the result.

Range: `|x.hi|, |f| < 2^1021` (scaled: `natAbs < 2^2095`); the property's range `≤ 2^1000` is a special case
(`*_bound_c03`).  No lower limit is needed: sums never underflow harmfully (every subnormal sum is exact).

The proofs are in `TFV/Lemmas/Bounds.lean` (`F64.dwplusfp_err` is the integer statement of Theorem 2.2).
-/
import TFV.Lemmas.Bounds

set_option exponentiation.threshold 3000

namespace C03b

open F64 TwoFloat

/-- `TwoFloat + f64` -/
theorem add_tf_f64_bound {x : TwoFloat} {f : F64} (hv : x.Valid) (hw : x.WF)
    (hff : f.is_finite = true) (hwf : f.WF)
    (bx : x.hi.toInt.natAbs < 2 ^ 2095) (bf : f.toInt.natAbs < 2 ^ 2095) :
    (arithmetic.impl_Add_rf64_for_rTwoFloat.add x f).Valid ∧
    |(arithmetic.impl_Add_rf64_for_rTwoFloat.add x f).V - (x.V + f.toInt)| * 2 ^ 105 ≤ |x.V + f.toInt| :=
  add_tf_bound hv hw hff hwf bx bf

/-- `f64 + TwoFloat` -/
theorem add_f64_tf_bound {x : TwoFloat} {f : F64} (hv : x.Valid) (hw : x.WF)
    (hff : f.is_finite = true) (hwf : f.WF)
    (bx : x.hi.toInt.natAbs < 2 ^ 2095) (bf : f.toInt.natAbs < 2 ^ 2095) :
    (arithmetic.impl_Add_rTwoFloat_for_rf64.add f x).Valid ∧
    |(arithmetic.impl_Add_rTwoFloat_for_rf64.add f x).V - (f.toInt + x.V)| * 2 ^ 105 ≤ |f.toInt + x.V| :=
  add_ft_bound hv hw hff hwf bx bf

/-- `TwoFloat - f64` -/
theorem sub_tf_f64_bound {x : TwoFloat} {f : F64} (hv : x.Valid) (hw : x.WF)
    (hff : f.is_finite = true) (hwf : f.WF)
    (bx : x.hi.toInt.natAbs < 2 ^ 2095) (bf : f.toInt.natAbs < 2 ^ 2095) :
    (arithmetic.impl_Sub_rf64_for_rTwoFloat.sub x f).Valid ∧
    |(arithmetic.impl_Sub_rf64_for_rTwoFloat.sub x f).V - (x.V - f.toInt)| * 2 ^ 105 ≤ |x.V - f.toInt| :=
  sub_tf_bound hv hw hff hwf bx bf

/-- `f64 - TwoFloat` -/
theorem sub_f64_tf_bound {x : TwoFloat} {f : F64} (hv : x.Valid) (hw : x.WF)
    (hff : f.is_finite = true) (hwf : f.WF)
    (bx : x.hi.toInt.natAbs < 2 ^ 2095) (bf : f.toInt.natAbs < 2 ^ 2095) :
    (arithmetic.impl_Sub_rTwoFloat_for_rf64.sub f x).Valid ∧
    |(arithmetic.impl_Sub_rTwoFloat_for_rf64.sub f x).V - (f.toInt - x.V)| * 2 ^ 105 ≤ |f.toInt - x.V| :=
  sub_ft_bound hv hw hff hwf bx bf

/-! ### every spelling (`+`, `-`, `+=`, `-=`) -/

theorem add_tf_notation_bound {x : TwoFloat} {f : F64} (hv : x.Valid) (hw : x.WF)
    (hff : f.is_finite = true) (hwf : f.WF)
    (bx : x.hi.toInt.natAbs < 2 ^ 2095) (bf : f.toInt.natAbs < 2 ^ 2095) :
    (x +. f).Valid ∧ |(x +. f).V - (x.V + f.toInt)| * 2 ^ 105 ≤ |x.V + f.toInt| :=
  add_tf_bound hv hw hff hwf bx bf

theorem add_ft_notation_bound {x : TwoFloat} {f : F64} (hv : x.Valid) (hw : x.WF)
    (hff : f.is_finite = true) (hwf : f.WF)
    (bx : x.hi.toInt.natAbs < 2 ^ 2095) (bf : f.toInt.natAbs < 2 ^ 2095) :
    (f +. x).Valid ∧ |(f +. x).V - (f.toInt + x.V)| * 2 ^ 105 ≤ |f.toInt + x.V| :=
  add_ft_bound hv hw hff hwf bx bf

theorem sub_tf_notation_bound {x : TwoFloat} {f : F64} (hv : x.Valid) (hw : x.WF)
    (hff : f.is_finite = true) (hwf : f.WF)
    (bx : x.hi.toInt.natAbs < 2 ^ 2095) (bf : f.toInt.natAbs < 2 ^ 2095) :
    (x -. f).Valid ∧ |(x -. f).V - (x.V - f.toInt)| * 2 ^ 105 ≤ |x.V - f.toInt| :=
  sub_tf_bound hv hw hff hwf bx bf

theorem sub_ft_notation_bound {x : TwoFloat} {f : F64} (hv : x.Valid) (hw : x.WF)
    (hff : f.is_finite = true) (hwf : f.WF)
    (bx : x.hi.toInt.natAbs < 2 ^ 2095) (bf : f.toInt.natAbs < 2 ^ 2095) :
    (f -. x).Valid ∧ |(f -. x).V - (f.toInt - x.V)| * 2 ^ 105 ≤ |f.toInt - x.V| :=
  sub_ft_bound hv hw hff hwf bx bf

theorem add_assign_tf_bound {x : TwoFloat} {f : F64} (hv : x.Valid) (hw : x.WF)
    (hff : f.is_finite = true) (hwf : f.WF)
    (bx : x.hi.toInt.natAbs < 2 ^ 2095) (bf : f.toInt.natAbs < 2 ^ 2095) :
    (arithmetic.impl_AddAssign_f64_for_TwoFloat.add_assign x f).Valid ∧
    |(arithmetic.impl_AddAssign_f64_for_TwoFloat.add_assign x f).V - (x.V + f.toInt)| * 2 ^ 105
      ≤ |x.V + f.toInt| :=
  add_tf_bound hv hw hff hwf bx bf

theorem sub_assign_tf_bound {x : TwoFloat} {f : F64} (hv : x.Valid) (hw : x.WF)
    (hff : f.is_finite = true) (hwf : f.WF)
    (bx : x.hi.toInt.natAbs < 2 ^ 2095) (bf : f.toInt.natAbs < 2 ^ 2095) :
    (arithmetic.impl_SubAssign_f64_for_TwoFloat.sub_assign x f).Valid ∧
    |(arithmetic.impl_SubAssign_f64_for_TwoFloat.sub_assign x f).V - (x.V - f.toInt)| * 2 ^ 105
      ≤ |x.V - f.toInt| :=
  sub_tf_bound hv hw hff hwf bx bf

/-! ### the range of property C03: high word and `f` of magnitude at most `2^1000` (scaled `2^2074`) -/

theorem lt_of_le_2074 {n : Nat} (h : n ≤ 2 ^ 2074) : n < 2 ^ 2095 :=
  Nat.lt_of_le_of_lt h (Nat.pow_lt_pow_right (by norm_num) (by norm_num))

theorem add_tf_f64_bound_c03 {x : TwoFloat} {f : F64} (hv : x.Valid) (hw : x.WF)
    (hff : f.is_finite = true) (hwf : f.WF)
    (bx : x.hi.toInt.natAbs ≤ 2 ^ 2074) (bf : f.toInt.natAbs ≤ 2 ^ 2074) :
    (x +. f).Valid ∧ |(x +. f).V - (x.V + f.toInt)| * 2 ^ 105 ≤ |x.V + f.toInt| :=
  add_tf_bound hv hw hff hwf (lt_of_le_2074 bx) (lt_of_le_2074 bf)

theorem add_f64_tf_bound_c03 {x : TwoFloat} {f : F64} (hv : x.Valid) (hw : x.WF)
    (hff : f.is_finite = true) (hwf : f.WF)
    (bx : x.hi.toInt.natAbs ≤ 2 ^ 2074) (bf : f.toInt.natAbs ≤ 2 ^ 2074) :
    (f +. x).Valid ∧ |(f +. x).V - (f.toInt + x.V)| * 2 ^ 105 ≤ |f.toInt + x.V| :=
  add_ft_bound hv hw hff hwf (lt_of_le_2074 bx) (lt_of_le_2074 bf)

theorem sub_tf_f64_bound_c03 {x : TwoFloat} {f : F64} (hv : x.Valid) (hw : x.WF)
    (hff : f.is_finite = true) (hwf : f.WF)
    (bx : x.hi.toInt.natAbs ≤ 2 ^ 2074) (bf : f.toInt.natAbs ≤ 2 ^ 2074) :
    (x -. f).Valid ∧ |(x -. f).V - (x.V - f.toInt)| * 2 ^ 105 ≤ |x.V - f.toInt| :=
  sub_tf_bound hv hw hff hwf (lt_of_le_2074 bx) (lt_of_le_2074 bf)

theorem sub_f64_tf_bound_c03 {x : TwoFloat} {f : F64} (hv : x.Valid) (hw : x.WF)
    (hff : f.is_finite = true) (hwf : f.WF)
    (bx : x.hi.toInt.natAbs ≤ 2 ^ 2074) (bf : f.toInt.natAbs ≤ 2 ^ 2074) :
    (f -. x).Valid ∧ |(f -. x).V - (f.toInt - x.V)| * 2 ^ 105 ≤ |f.toInt - x.V| :=
  sub_ft_bound hv hw hff hwf (lt_of_le_2074 bx) (lt_of_le_2074 bf)

/-- an exactly-zero sum yields a zero value -/
theorem add_tf_f64_zero {x : TwoFloat} {f : F64} (hv : x.Valid) (hw : x.WF)
    (hff : f.is_finite = true) (hwf : f.WF)
    (bx : x.hi.toInt.natAbs < 2 ^ 2095) (bf : f.toInt.natAbs < 2 ^ 2095) (h0 : x.V + f.toInt = 0) :
    (x +. f).V = 0 := by
  have h := (add_tf_bound hv hw hff hwf bx bf).2
  rw [h0, abs_zero, sub_zero] at h
  have h1 := abs_nonneg (arithmetic.impl_Add_rf64_for_rTwoFloat.add x f).V
  have h2 : |(arithmetic.impl_Add_rf64_for_rTwoFloat.add x f).V| = 0 := by omega
  exact abs_eq_zero.1 h2

/-! ### `TwoFloat ± TwoFloat` (AccurateDWPlusDW): `3u² + 13u³` -/

/-- `TwoFloat + TwoFloat` -/
theorem add_tt_bound {x y : TwoFloat} (hvx : x.Valid) (hwx : x.WF) (hvy : y.Valid) (hwy : y.WF)
    (bx : x.hi.toInt.natAbs < 2 ^ 2094) (by' : y.hi.toInt.natAbs < 2 ^ 2094) :
    (arithmetic.impl_Add_rTwoFloat_for_rTwoFloat.add x y).Valid ∧
    |(arithmetic.impl_Add_rTwoFloat_for_rTwoFloat.add x y).V - (x.V + y.V)| * 2 ^ 159
      ≤ (3 * 2 ^ 53 + 13) * |x.V + y.V| :=
  TwoFloat.add_tt_bound hvx hwx hvy hwy bx by'

/-- `TwoFloat - TwoFloat` -/
theorem sub_tt_bound {x y : TwoFloat} (hvx : x.Valid) (hwx : x.WF) (hvy : y.Valid) (hwy : y.WF)
    (bx : x.hi.toInt.natAbs < 2 ^ 2094) (by' : y.hi.toInt.natAbs < 2 ^ 2094) :
    (arithmetic.impl_Sub_rTwoFloat_for_rTwoFloat.sub x y).Valid ∧
    |(arithmetic.impl_Sub_rTwoFloat_for_rTwoFloat.sub x y).V - (x.V - y.V)| * 2 ^ 159
      ≤ (3 * 2 ^ 53 + 13) * |x.V - y.V| :=
  TwoFloat.sub_tt_bound hvx hwx hvy hwy bx by'

theorem lt_2094_of_le_2074 {n : Nat} (h : n ≤ 2 ^ 2074) : n < 2 ^ 2094 :=
  Nat.lt_of_le_of_lt h (Nat.pow_lt_pow_right (by norm_num) (by norm_num))

/-- the range of property C03, operator notation -/
theorem add_tt_bound_c03 {x y : TwoFloat} (hvx : x.Valid) (hwx : x.WF) (hvy : y.Valid) (hwy : y.WF)
    (bx : x.hi.toInt.natAbs ≤ 2 ^ 2074) (by' : y.hi.toInt.natAbs ≤ 2 ^ 2074) :
    (x +. y).Valid ∧ |(x +. y).V - (x.V + y.V)| * 2 ^ 159 ≤ (3 * 2 ^ 53 + 13) * |x.V + y.V| :=
  TwoFloat.add_tt_bound hvx hwx hvy hwy (lt_2094_of_le_2074 bx) (lt_2094_of_le_2074 by')

theorem sub_tt_bound_c03 {x y : TwoFloat} (hvx : x.Valid) (hwx : x.WF) (hvy : y.Valid) (hwy : y.WF)
    (bx : x.hi.toInt.natAbs ≤ 2 ^ 2074) (by' : y.hi.toInt.natAbs ≤ 2 ^ 2074) :
    (x -. y).Valid ∧ |(x -. y).V - (x.V - y.V)| * 2 ^ 159 ≤ (3 * 2 ^ 53 + 13) * |x.V - y.V| :=
  TwoFloat.sub_tt_bound hvx hwx hvy hwy (lt_2094_of_le_2074 bx) (lt_2094_of_le_2074 by')

/-- `+=`, `-=` on TwoFloat operands -/
theorem add_assign_tt_bound {x y : TwoFloat} (hvx : x.Valid) (hwx : x.WF) (hvy : y.Valid) (hwy : y.WF)
    (bx : x.hi.toInt.natAbs < 2 ^ 2094) (by' : y.hi.toInt.natAbs < 2 ^ 2094) :
    (arithmetic.impl_AddAssign_TwoFloat_for_TwoFloat.add_assign x y).Valid ∧
    |(arithmetic.impl_AddAssign_TwoFloat_for_TwoFloat.add_assign x y).V - (x.V + y.V)| * 2 ^ 159
      ≤ (3 * 2 ^ 53 + 13) * |x.V + y.V| :=
  TwoFloat.add_tt_bound hvx hwx hvy hwy bx by'

theorem sub_assign_tt_bound {x y : TwoFloat} (hvx : x.Valid) (hwx : x.WF) (hvy : y.Valid) (hwy : y.WF)
    (bx : x.hi.toInt.natAbs < 2 ^ 2094) (by' : y.hi.toInt.natAbs < 2 ^ 2094) :
    (arithmetic.impl_SubAssign_TwoFloat_for_TwoFloat.sub_assign x y).Valid ∧
    |(arithmetic.impl_SubAssign_TwoFloat_for_TwoFloat.sub_assign x y).V - (x.V - y.V)| * 2 ^ 159
      ≤ (3 * 2 ^ 53 + 13) * |x.V - y.V| :=
  TwoFloat.sub_tt_bound hvx hwx hvy hwy bx by'

/-- the weaker round constant `4u² = 2^-104` -/
theorem add_tt_bound_4u2 {x y : TwoFloat} (hvx : x.Valid) (hwx : x.WF) (hvy : y.Valid) (hwy : y.WF)
    (bx : x.hi.toInt.natAbs < 2 ^ 2094) (by' : y.hi.toInt.natAbs < 2 ^ 2094) :
    |(x +. y).V - (x.V + y.V)| * 2 ^ 104 ≤ |x.V + y.V| := by
  have h := (TwoFloat.add_tt_bound hvx hwx hvy hwy bx by').2
  have h1 := abs_nonneg ((x +. y).V - (x.V + y.V))
  have h2 := abs_nonneg (x.V + y.V)
  show |(arithmetic.impl_Add_rTwoFloat_for_rTwoFloat.add x y).V - (x.V + y.V)| * 2 ^ 104 ≤ |x.V + y.V|
  change |(arithmetic.impl_Add_rTwoFloat_for_rTwoFloat.add x y).V - (x.V + y.V)| * 2 ^ 159
      ≤ (3 * 2 ^ 53 + 13) * |x.V + y.V| at h
  change 0 ≤ |(arithmetic.impl_Add_rTwoFloat_for_rTwoFloat.add x y).V - (x.V + y.V)| at h1
  omega

/-- an exactly-zero sum of two TwoFloats yields a zero value -/
theorem add_tt_zero {x y : TwoFloat} (hvx : x.Valid) (hwx : x.WF) (hvy : y.Valid) (hwy : y.WF)
    (bx : x.hi.toInt.natAbs < 2 ^ 2094) (by' : y.hi.toInt.natAbs < 2 ^ 2094) (h0 : x.V + y.V = 0) :
    (x +. y).V = 0 := by
  have h := (TwoFloat.add_tt_bound hvx hwx hvy hwy bx by').2
  rw [h0, abs_zero, sub_zero, mul_zero] at h
  have h1 := abs_nonneg (arithmetic.impl_Add_rTwoFloat_for_rTwoFloat.add x y).V
  have h2 : |(arithmetic.impl_Add_rTwoFloat_for_rTwoFloat.add x y).V| = 0 := by omega
  exact abs_eq_zero.1 h2

/-! ### instances on concrete operands (hypotheses discharged by kernel evaluation) -/

/-- π + e -/
example :
    |(consts.PI +. consts.E).V - (consts.PI.V + consts.E.V)| * 2 ^ 159
      ≤ (3 * 2 ^ 53 + 13) * |consts.PI.V + consts.E.V| :=
  (add_tt_bound_c03 (x := consts.PI) (y := consts.E)
    (by decide +kernel) ⟨by decide +kernel, by decide +kernel⟩
    (by decide +kernel) ⟨by decide +kernel, by decide +kernel⟩ (by decide +kernel) (by decide +kernel)).2

/-- cancellation of the high words: π − (π.hi, 2^-70) -/
example :
    let y : TwoFloat := ⟨f64lit 0x400921fb54442d18, f64lit 0x3b90000000000000⟩
    (consts.PI -. y).Valid ∧
      |(consts.PI -. y).V - (consts.PI.V - y.V)| * 2 ^ 159 ≤ (3 * 2 ^ 53 + 13) * |consts.PI.V - y.V| :=
  sub_tt_bound_c03 (x := consts.PI) (y := ⟨f64lit 0x400921fb54442d18, f64lit 0x3b90000000000000⟩)
    (by decide +kernel) ⟨by decide +kernel, by decide +kernel⟩
    (by decide +kernel) ⟨by decide +kernel, by decide +kernel⟩ (by decide +kernel) (by decide +kernel)

/-- π (as a TwoFloat) plus 10^10 -/
example :
    |(consts.PI +. f64lit 0x4202a05f20000000).V - (consts.PI.V + (f64lit 0x4202a05f20000000).toInt)| * 2 ^ 105
      ≤ |consts.PI.V + (f64lit 0x4202a05f20000000).toInt| :=
  (add_tf_f64_bound (x := consts.PI) (f := f64lit 0x4202a05f20000000)
    (by decide +kernel) ⟨by decide +kernel, by decide +kernel⟩ (by decide +kernel) (by decide +kernel)
    (by decide +kernel) (by decide +kernel)).2

/-- catastrophic cancellation: π − RN(π) -/
example :
    |(consts.PI -. f64lit 0x400921fb54442d18).V - (consts.PI.V - (f64lit 0x400921fb54442d18).toInt)| * 2 ^ 105
      ≤ |consts.PI.V - (f64lit 0x400921fb54442d18).toInt| :=
  (sub_tf_f64_bound (x := consts.PI) (f := f64lit 0x400921fb54442d18)
    (by decide +kernel) ⟨by decide +kernel, by decide +kernel⟩ (by decide +kernel) (by decide +kernel)
    (by decide +kernel) (by decide +kernel)).2

/-- `f64 + TwoFloat` and `f64 - TwoFloat` with a half-ulp low word: x = (1, 2^-53), f = 1 - 2^-53 -/
example :
    let x : TwoFloat := ⟨f64lit 0x3ff0000000000000, f64lit 0x3ca0000000000000⟩
    let f := f64lit 0x3fefffffffffffff
    (f +. x).Valid ∧ |(f +. x).V - (f.toInt + x.V)| * 2 ^ 105 ≤ |f.toInt + x.V| :=
  add_f64_tf_bound (x := ⟨f64lit 0x3ff0000000000000, f64lit 0x3ca0000000000000⟩) (f := f64lit 0x3fefffffffffffff)
    (by decide +kernel) ⟨by decide +kernel, by decide +kernel⟩ (by decide +kernel) (by decide +kernel)
    (by decide +kernel) (by decide +kernel)

example :
    let x : TwoFloat := ⟨f64lit 0x3ff0000000000000, f64lit 0x3ca0000000000000⟩
    let f := f64lit 0x3fefffffffffffff
    (f -. x).Valid ∧ |(f -. x).V - (f.toInt - x.V)| * 2 ^ 105 ≤ |f.toInt - x.V| :=
  sub_f64_tf_bound (x := ⟨f64lit 0x3ff0000000000000, f64lit 0x3ca0000000000000⟩) (f := f64lit 0x3fefffffffffffff)
    (by decide +kernel) ⟨by decide +kernel, by decide +kernel⟩ (by decide +kernel) (by decide +kernel)
    (by decide +kernel) (by decide +kernel)

end C03b
