/-
C18k — the domain error of `atanh` on the two slivers left open by `C18j.atanh_nan_of_one_lt_abs`
(`1 + 2^-940 ≤ |x| ≤ 2^999`): `1 < |x| < 1 + 2^-940` and `|x| > 2^999` (up to `TwoFloat::MAX`).

`atanh x = ln((1 + x)/(1 − x)) / 2`.  The quotient `Q = (1 + x)/(1 − x)` satisfies the representation invariant for all
operands (`C01e`): it is a valid pair or has a non-finite high word.
 * non-finite high word (`|x|` within `≈ 2^-1022` of `1`: the first quotient digit overflows to `−∞`, or a later sum
   does): `ln` of ANY pair with a non-finite high word is `NAN` (`Slivers2.ln_of_hi_not_finite`);
 * valid pair: `1 + x` and `1 − x` have opposite signs and the first quotient digit `RN((1+x).hi/(1−x).hi)` is at most
   `−32` units; the following digits are at most `2^-43` of it plus `8` units, so `renorm3` returns a non-positive value
   (`Slivers2.div_tt_nonpos_of_signs`) and `ln` returns `NAN` by its test `self <= 0.0`;
 * the remaining arguments `x = −(1 + l·2^-1074)`, `1 ≤ l ≤ 65` (quotient below `33` units): evaluated one by one.

PROVED
 * `atanh_nan_near_one` (`1 < |x| < 1 + 2^-940`), `atanh_nan_huge` (`|x| > 2^999`),
 * `atanh_nan_of_one_lt_abs_full` — for EVERY valid `x` with `|x| > 1` the model returns `TwoFloat::NAN`,
 * `atanh_nan_of_one_le_abs` — the same for `|x| ≥ 1` (with `C18j.atanh_nan_of_abs_eq_one`).
-/
import TFV.Lemmas.Slivers2
import TFV.Properties.C18j
import TFV.Properties.C01e

set_option exponentiation.threshold 4000
set_option maxRecDepth 100000

namespace C18k

open F64 TwoFloat ConstBounds ExpBound PowfBound Slivers Slivers2 PF

/-- exact real value `hi + lo` of a pair -/
noncomputable abbrev val (t : TwoFloat) : ℝ := ExpBound.rv t

/-! ## 1. the common core -/

/-- if (whenever both are valid) `1 + x` and `1 − x` have high words of opposite signs with a ratio of at least `33`
units, `atanh x` is `NAN` -/
theorem atanh_nan_core (x : TwoFloat) (hv : x.Valid) (hw : x.WF)
    (H : (arithmetic.impl_Add_rTwoFloat_for_rf64.add (f64lit 0x3ff0000000000000) x).Valid →
      (arithmetic.impl_Sub_rTwoFloat_for_rf64.sub (f64lit 0x3ff0000000000000) x).Valid →
      ((0 < (arithmetic.impl_Add_rTwoFloat_for_rf64.add (f64lit 0x3ff0000000000000) x).hi.toInt ∧
          (arithmetic.impl_Sub_rTwoFloat_for_rf64.sub (f64lit 0x3ff0000000000000) x).hi.toInt < 0) ∨
        ((arithmetic.impl_Add_rTwoFloat_for_rf64.add (f64lit 0x3ff0000000000000) x).hi.toInt < 0 ∧
          0 < (arithmetic.impl_Sub_rTwoFloat_for_rf64.sub (f64lit 0x3ff0000000000000) x).hi.toInt)) ∧
      33 * |(arithmetic.impl_Sub_rTwoFloat_for_rf64.sub (f64lit 0x3ff0000000000000) x).hi.toInt|
        ≤ |(arithmetic.impl_Add_rTwoFloat_for_rf64.add (f64lit 0x3ff0000000000000) x).hi.toInt| * (unit : ℤ)) :
    TwoFloat.atanh x = TwoFloat.NAN := by
  rw [C18i.atanh_unfold]
  unfold C18i.atanhArg
  have gx : Good x := ⟨Or.inl hv, hw⟩
  have gN : Good (arithmetic.impl_Add_TwoFloat_for_f64.add (f64lit 0x3ff0000000000000) x) :=
    C01m.good_add_ft lit_one_WF gx
  have gD : Good (arithmetic.impl_Sub_TwoFloat_for_f64.sub (f64lit 0x3ff0000000000000) x) :=
    C01m.good_sub_ft lit_one_WF gx
  have gQ := C01e.good_div_tt_all gN gD
  change Good (arithmetic.impl_Add_rTwoFloat_for_rf64.add (f64lit 0x3ff0000000000000) x) at gN
  change Good (arithmetic.impl_Sub_rTwoFloat_for_rf64.sub (f64lit 0x3ff0000000000000) x) at gD
  change Good (arithmetic.impl_Div_rTwoFloat_for_rTwoFloat.div
    (arithmetic.impl_Add_rTwoFloat_for_rf64.add (f64lit 0x3ff0000000000000) x)
    (arithmetic.impl_Sub_rTwoFloat_for_rf64.sub (f64lit 0x3ff0000000000000) x)) at gQ
  change arithmetic.impl_Div_f64_for_TwoFloat.div (TwoFloat.ln (arithmetic.impl_Div_rTwoFloat_for_rTwoFloat.div
    (arithmetic.impl_Add_rTwoFloat_for_rf64.add (f64lit 0x3ff0000000000000) x)
    (arithmetic.impl_Sub_rTwoFloat_for_rf64.sub (f64lit 0x3ff0000000000000) x))) (f64lit 0x4000000000000000)
    = TwoFloat.NAN
  generalize arithmetic.impl_Add_rTwoFloat_for_rf64.add (f64lit 0x3ff0000000000000) x = N at *
  generalize arithmetic.impl_Sub_rTwoFloat_for_rf64.sub (f64lit 0x3ff0000000000000) x = D at *
  rcases gQ.1 with hQ | hQ
  · -- a valid quotient
    have fN : N.hi.is_finite = true := by
      by_contra hc
      have := C01d.divTT_hi_not_finite (a := N) (b := D) (Or.inl (is_finite_eq_false_iff.2 hc))
      change (arithmetic.impl_Div_rTwoFloat_for_rTwoFloat.div N D).hi.is_finite = false at this
      rw [hQ.1] at this
      cases this
    have fD : D.hi.is_finite = true := by
      by_contra hc
      have := C01d.divTT_hi_not_finite (a := N) (b := D) (Or.inr (is_finite_eq_false_iff.2 hc))
      change (arithmetic.impl_Div_rTwoFloat_for_rTwoFloat.div N D).hi.is_finite = false at this
      rw [hQ.1] at this
      cases this
    have vN : N.Valid := by
      rcases gN.1 with h | h
      · exact h
      · rw [fN] at h; cases h
    have vD : D.Valid := by
      rcases gD.1 with h | h
      · exact h
      · rw [fD] at h; cases h
    obtain ⟨hs, hr⟩ := H vN vD
    have hle := div_tt_nonpos_of_signs vN gN.2 vD gD.2 hQ hs hr
    rw [ln_of_nonpos hQ gQ.2 hle, div2_nan]
  · rw [ln_of_hi_not_finite hQ, div2_nan]

/-! ## 2. `|x| > 2^999` -/

/-- **`atanh` domain error, huge arguments**: every valid `x` with `|x| > 2^999` (up to `TwoFloat::MAX`) -/
theorem atanh_nan_huge (x : TwoFloat) (hv : x.Valid) (hw : x.WF) (h : 2 ^ 999 < |val x|) :
    TwoFloat.atanh x = TwoFloat.NAN := by
  have hV : (2 : ℤ) ^ 2073 ≤ |x.V| := by
    have h1 : ((2 : ℤ) ^ 2073 : ℝ) ≤ ((|x.V| : ℤ) : ℝ) := by
      have := h.le
      rw [show val x = rv x from rfl, rv_abs, le_div_iff₀ (by positivity)] at this
      refine le_trans ?_ this
      push_cast
      rw [← pow_add]
    exact_mod_cast h1
  have hbig : (2 : ℤ) ^ 2000 ≤ |x.hi.toInt| := by
    obtain ⟨-, b2⟩ := PowiBound.hi_bounds hv
    have e : (2 : ℤ) ^ 2073 = 2 ^ 73 * 2 ^ 2000 := by rw [← pow_add]
    rw [e] at hV
    generalize (2 : ℤ) ^ 2000 = T at *
    have := abs_nonneg x.hi.toInt
    omega
  apply atanh_nan_core x hv hw
  intro vN vD
  obtain ⟨n1, n2⟩ := one_add_huge hv hw hbig vN.1
  obtain ⟨d1, d2⟩ := one_sub_huge hv hw hbig vD.1
  rw [C01d.unit_int_eq]
  generalize (arithmetic.impl_Add_rTwoFloat_for_rf64.add (f64lit 0x3ff0000000000000) x).hi.toInt = A at *
  generalize (arithmetic.impl_Sub_rTwoFloat_for_rf64.sub (f64lit 0x3ff0000000000000) x).hi.toInt = B at *
  generalize x.hi.toInt = a at *
  have ha0 : a ≠ 0 := by
    intro h0
    rw [h0, abs_zero] at hbig
    have : (0 : ℤ) < 2 ^ 2000 := by positivity
    omega
  rcases lt_or_gt_of_ne ha0 with ha | ha
  · obtain ⟨n3, n4⟩ := n2 ha
    obtain ⟨d3, d4⟩ := d2 ha
    rw [abs_of_neg ha] at hbig
    refine ⟨Or.inr ⟨by omega, by omega⟩, ?_⟩
    rw [abs_of_neg (by omega : A < 0), abs_of_pos (by omega : 0 < B)]
    omega
  · obtain ⟨n3, n4⟩ := n1 ha
    obtain ⟨d3, d4⟩ := d1 ha
    rw [abs_of_pos ha] at hbig
    refine ⟨Or.inl ⟨by omega, by omega⟩, ?_⟩
    rw [abs_of_pos (by omega : 0 < A), abs_of_neg (by omega : B < 0)]
    omega

/-! ## 3. `1 < |x| < 1 + 2^-940` -/

/-- `1 + x` and `1 − x` for `x = σ + m·2^-1074` (`σ = ±1`, `m` of the sign of `σ`, `|m| < 2^134`; on the side `σ = −1`
at least `66` units away from `−1`): signs and ratio of the high words -/
theorem near_one_ND {x : TwoFloat} (hv : x.Valid) (hw : x.WF) {σ m : ℤ} (hσ : σ = 1 ∨ σ = -1)
    (hhi : x.hi.toInt = σ * (unit : ℤ)) (hV : x.V = σ * (unit : ℤ) + m) (hm : 0 < σ * m) (hm2 : |m| < 2 ^ 134)
    (h66 : σ = -1 → 66 ≤ |m|) :
    ((0 < (arithmetic.impl_Add_rTwoFloat_for_rf64.add (f64lit 0x3ff0000000000000) x).hi.toInt ∧
        (arithmetic.impl_Sub_rTwoFloat_for_rf64.sub (f64lit 0x3ff0000000000000) x).hi.toInt < 0) ∨
      ((arithmetic.impl_Add_rTwoFloat_for_rf64.add (f64lit 0x3ff0000000000000) x).hi.toInt < 0 ∧
        0 < (arithmetic.impl_Sub_rTwoFloat_for_rf64.sub (f64lit 0x3ff0000000000000) x).hi.toInt)) ∧
    33 * |(arithmetic.impl_Sub_rTwoFloat_for_rf64.sub (f64lit 0x3ff0000000000000) x).hi.toInt|
      ≤ |(arithmetic.impl_Add_rTwoFloat_for_rf64.add (f64lit 0x3ff0000000000000) x).hi.toInt| * (unit : ℤ) := by
  have hUe := C01d.unit_int_eq
  have bx : x.hi.toInt.natAbs < 2 ^ 2095 := by
    have : ((x.hi.toInt.natAbs : ℕ) : ℤ) < ((2 ^ 2095 : ℕ) : ℤ) := by
      rw [Int.natCast_natAbs, hhi, abs_sign_mul hσ, hUe]
      norm_num
    exact_mod_cast this
  obtain ⟨vN, hn⟩ := TwoFloat.add_ft_bound hv hw C01d.one_isVal.1 C01d.one_WF bx one_natAbs_lt
  obtain ⟨vD, hd⟩ := TwoFloat.sub_ft_bound hv hw C01d.one_isVal.1 C01d.one_WF bx one_natAbs_lt
  have eN := vN.hi_toInt
  have eD := vD.hi_toInt
  have bD := abs_rnI_le_two_mul (arithmetic.impl_Sub_rTwoFloat_for_rf64.sub (f64lit 0x3ff0000000000000) x).V
  rw [C01d.one_isVal.2, hV, hUe] at hn hd
  rw [hUe]
  generalize (arithmetic.impl_Add_rTwoFloat_for_rf64.add (f64lit 0x3ff0000000000000) x).hi.toInt = A at *
  generalize (arithmetic.impl_Sub_rTwoFloat_for_rf64.sub (f64lit 0x3ff0000000000000) x).hi.toInt = B at *
  generalize (arithmetic.impl_Add_rTwoFloat_for_rf64.add (f64lit 0x3ff0000000000000) x).V = NV at *
  generalize (arithmetic.impl_Sub_rTwoFloat_for_rf64.sub (f64lit 0x3ff0000000000000) x).V = DV at *
  have r1074 : rnI ((2 : ℤ) ^ 1074) = 2 ^ 1074 := rnI_of_repI (TwoFloat.repI_two_pow 1074)
  rw [← eD] at bD
  rcases hσ with rfl | rfl
  · -- x just above 1
    have hm0 : 0 < m := by omega
    rw [abs_of_pos hm0] at hm2
    have e1 : (2 : ℤ) ^ 1074 + (1 * 2 ^ 1074 + m) = 2 ^ 1075 + m := by ring
    have e2 : (2 : ℤ) ^ 1074 - (1 * 2 ^ 1074 + m) = -m := by ring
    have p0 : (0 : ℤ) < 2 ^ 1075 := by positivity
    have p1 : (2 : ℤ) ^ 1075 = 2 * 2 ^ 1074 := by norm_num
    rw [e1, abs_of_pos (show (0 : ℤ) < 2 ^ 1075 + m by omega)] at hn
    rw [e2, abs_neg, abs_of_pos hm0] at hd
    have p2 : (2 : ℤ) ^ 134 ≤ 2 ^ 1074 := by norm_num
    have q1 := abs_le.1 (le_refl |NV - (2 ^ 1075 + m)|)
    have q2 := abs_le.1 (le_refl |DV - -m|)
    have hNV : (2 : ℤ) ^ 1074 ≤ NV := by
      generalize |NV - (2 ^ 1075 + m)| = e at *
      generalize (2 : ℤ) ^ 1074 = U at *
      omega
    have hDV : DV ≤ -1 := by
      generalize |DV - -m| = e at *
      omega
    have hDV2 : -(2 * m) ≤ DV := by
      generalize |DV - -m| = e at *
      omega
    have hA : (2 : ℤ) ^ 1074 ≤ A := by
      rw [eN, ← r1074]; exact rnI_mono hNV
    have hB : B ≤ -1 := by
      rw [eD, ← rnI_of_abs_le (z := -1) (by norm_num)]; exact rnI_mono hDV
    have hA0 : 0 < A := lt_of_lt_of_le (by positivity) hA
    refine ⟨Or.inl ⟨hA0, by omega⟩, ?_⟩
    rw [abs_of_neg (by omega : DV < 0)] at bD
    rw [abs_of_pos (lt_of_lt_of_le (by positivity) hA)]
    have hBb : |B| ≤ 2 ^ 136 := by
      have e : (2 : ℤ) ^ 136 = 4 * 2 ^ 134 := by norm_num
      omega
    calc 33 * |B| ≤ 33 * 2 ^ 136 := by omega
      _ ≤ 2 ^ 1074 * 2 ^ 1074 := by norm_num
      _ ≤ A * 2 ^ 1074 := mul_le_mul_of_nonneg_right hA (by positivity)
  · -- x just below -1
    have hm0 : m < 0 := by omega
    have h66' := h66 rfl
    rw [abs_of_neg hm0] at hm2 h66'
    have e1 : (2 : ℤ) ^ 1074 + (-1 * 2 ^ 1074 + m) = m := by ring
    have e2 : (2 : ℤ) ^ 1074 - (-1 * 2 ^ 1074 + m) = 2 ^ 1075 - m := by ring
    have p0 : (0 : ℤ) < 2 ^ 1075 := by positivity
    have p1 : (2 : ℤ) ^ 1075 = 2 * 2 ^ 1074 := by norm_num
    rw [e1, abs_of_neg hm0] at hn
    rw [e2, abs_of_pos (show (0 : ℤ) < 2 ^ 1075 - m by omega)] at hd
    have p2 : (2 : ℤ) ^ 134 ≤ 2 ^ 1000 := by norm_num
    have p3 : (2 : ℤ) ^ 1075 ≤ 2 ^ 105 * 2 ^ 999 := by norm_num
    have p4 : (2 : ℤ) ^ 1000 = 2 * 2 ^ 999 := by norm_num
    have q1 := abs_le.1 (le_refl |NV - m|)
    have q2 := abs_le.1 (le_refl |DV - (2 ^ 1075 - m)|)
    have hNV : NV ≤ -66 := by
      generalize |NV - m| = e at *
      omega
    have hDV1 : (2 : ℤ) ^ 1074 ≤ DV := by
      generalize |DV - (2 ^ 1075 - m)| = e at *
      generalize (2 : ℤ) ^ 1074 = U at *
      generalize (2 : ℤ) ^ 1075 = U2 at *
      omega
    have hDV2 : DV ≤ 2 ^ 1075 + 2 ^ 1001 := by
      have p5 : (2 : ℤ) ^ 1001 = 4 * 2 ^ 999 := by norm_num
      generalize |DV - (2 ^ 1075 - m)| = e at *
      generalize (2 : ℤ) ^ 1075 = U2 at *
      generalize (2 : ℤ) ^ 1000 = T at *
      generalize (2 : ℤ) ^ 999 = T9 at *
      generalize (2 : ℤ) ^ 134 = T1 at *
      omega
    have hA : A ≤ -66 := by
      rw [eN, ← rnI_of_abs_le (z := -66) (by norm_num)]; exact rnI_mono hNV
    have hB1 : (2 : ℤ) ^ 1074 ≤ B := by
      rw [eD, ← r1074]; exact rnI_mono hDV1
    have hB2 : B ≤ 2 ^ 1075 := by
      have : rnI ((2 : ℤ) ^ 1075 + 2 ^ 1001) = 2 ^ 1075 :=
        rnI_add_small (TwoFloat.repI_two_pow 1075) (by
          rw [abs_of_pos (by positivity), abs_of_pos (by positivity)]; norm_num)
      rw [eD, ← this]; exact rnI_mono hDV2
    refine ⟨Or.inr ⟨by omega, lt_of_lt_of_le (by positivity) hB1⟩, ?_⟩
    rw [abs_of_pos (lt_of_lt_of_le (by positivity) hB1), abs_of_neg (by omega : A < 0)]
    generalize (2 : ℤ) ^ 1074 = U at *
    generalize (2 : ℤ) ^ 1075 = U2 at *
    have hU0 : 0 ≤ U := by omega
    nlinarith

/-- the arguments `−(1 + l·2^-1074)`, `1 ≤ l ≤ 65`, one by one -/
theorem atanh_nan_enum : ∀ l : Fin 65,
    TwoFloat.atanh ⟨fin true unit, fin true (l.val + 1)⟩ = TwoFloat.NAN := by
  decide +kernel

/-- the words of a valid pair `(−1, −l)`, `l > 0` -/
theorem words_neg_one {x : TwoFloat} (hv : x.Valid) {l : ℕ} (hl : 0 < l)
    (hhi : x.hi.toInt = -(unit : ℤ)) (hlo : x.lo.toInt = -(l : ℤ)) : x = ⟨fin true unit, fin true l⟩ := by
  rcases x with ⟨hi, lo⟩
  obtain ⟨s, a, rfl⟩ := is_finite_iff.1 hv.1
  obtain ⟨t, b, rfl⟩ := is_finite_iff.1 hv.2.1
  simp only at hhi hlo
  rw [toInt_fin] at hhi hlo
  have hU := unit_pos_int
  cases s <;> cases t <;> simp only [Bool.false_eq_true, if_false, if_true] at hhi hlo
  · exfalso; have := Int.natCast_nonneg a; omega
  · exfalso; have := Int.natCast_nonneg a; omega
  · exfalso; have := Int.natCast_nonneg b; omega
  · have ea : a = unit := by
      have : (a : ℤ) = (unit : ℤ) := by omega
      exact_mod_cast this
    have eb : b = l := by
      have : (b : ℤ) = (l : ℤ) := by omega
      exact_mod_cast this
    rw [ea, eb]

/-- **`atanh` domain error next to `±1`**: every valid `x` with `1 < |x| < 1 + 2^-940`.  Then `x = (±1, lo)`;
for `x > 1` the quotient `(1 + x)/(1 − x) ≈ −2/lo` is huge: for `lo < 2^-1022` its first digit overflows to `−∞` and the
result of the division has a non-finite high word, otherwise it is a valid negative pair; for `x < −1` the quotient
`≈ −|lo|/2` is tiny: a valid non-positive pair (the zero pair for `|lo| = 2^-1074`). -/
theorem atanh_nan_near_one (x : TwoFloat) (hv : x.Valid) (hw : x.WF) (h1 : 1 < |val x|)
    (h2 : |val x| < 1 + 1 / 2 ^ 940) : TwoFloat.atanh x = TwoFloat.NAN := by
  have hUe := C01d.unit_int_eq
  -- the sign
  obtain ⟨σ, hσ, hclose, hside⟩ : ∃ σ : ℤ, (σ = 1 ∨ σ = -1) ∧ |rv x - (σ : ℝ)| < 1 / 2 ^ 940 ∧
      0 < (σ : ℝ) * (rv x - (σ : ℝ)) := by
    rcases le_or_gt 0 (rv x) with hp | hn
    · rw [show val x = rv x from rfl, abs_of_nonneg hp] at h1 h2
      refine ⟨1, Or.inl rfl, ?_, ?_⟩
      · push_cast; rw [abs_of_pos (by linarith)]; linarith
      · push_cast; linarith
    · rw [show val x = rv x from rfl, abs_of_neg hn] at h1 h2
      refine ⟨-1, Or.inr rfl, ?_, ?_⟩
      · push_cast; rw [abs_of_neg (by linarith)]; linarith
      · push_cast; linarith
  obtain ⟨hwd, -⟩ := near_one_words hv hσ (lt_trans hclose (by norm_num))
  set m := x.V - σ * (unit : ℤ) with hm
  have em : (m : ℝ) = (rv x - (σ : ℝ)) * 2 ^ 1074 := by
    rw [hm, hUe]; push_cast; rw [V_real]; ring
  have hmpos : 0 < σ * m := by
    have : (0 : ℝ) < ((σ * m : ℤ) : ℝ) := by
      push_cast; rw [em, ← mul_assoc]; exact mul_pos hside (by positivity)
    exact_mod_cast this
  have hm2 : |m| < 2 ^ 134 := by
    have : |(m : ℝ)| < 2 ^ 134 := by
      rw [em, abs_mul, abs_of_pos (by positivity : (0 : ℝ) < 2 ^ 1074)]
      calc |rv x - (σ : ℝ)| * 2 ^ 1074 < 1 / 2 ^ 940 * 2 ^ 1074 := mul_lt_mul_of_pos_right hclose (by positivity)
        _ = 2 ^ 134 := by norm_num
    rw [← Int.cast_abs] at this
    exact_mod_cast this
  have hV : x.V = σ * (unit : ℤ) + m := by rw [hm]; ring
  by_cases hsmall : σ = -1 ∧ |m| < 66
  · -- the 65 arguments next to -1
    obtain ⟨rfl, hlt⟩ := hsmall
    have hm0 : m < 0 := by omega
    rw [abs_of_neg hm0] at hlt
    have hx := words_neg_one hv (l := (-m).toNat) (by omega) (by rw [hwd.1.2]; ring)
      (by rw [hwd.2.2, Int.toNat_of_nonneg (by omega)]; ring)
    rw [hx]
    have := atanh_nan_enum ⟨(-m).toNat - 1, by omega⟩
    simp only at this
    rwa [Nat.sub_add_cancel (by omega)] at this
  · apply atanh_nan_core x hv hw
    intro _ _
    exact near_one_ND hv hw hσ hwd.1.2 hV hmpos hm2 (fun hs => by
      by_contra hc
      exact hsmall ⟨hs, not_le.1 hc⟩)

/-! ## 4. the full domain error -/

/-- **Property C18, `atanh` domain error, all magnitudes**: for EVERY valid `x` with `|x| > 1` — from
`1 + 2^-1074·…` up to `TwoFloat::MAX` — the model returns `TwoFloat::NAN` (both words NaN)
(`C18j.atanh_nan_of_one_lt_abs` on `[1 + 2^-940, 2^999]`, `atanh_nan_near_one` below, `atanh_nan_huge` above) -/
theorem atanh_nan_of_one_lt_abs_full (x : TwoFloat) (hv : x.Valid) (hw : x.WF) (h : 1 < |val x|) :
    TwoFloat.atanh x = TwoFloat.NAN := by
  by_cases h1 : 1 + 1 / 2 ^ 940 ≤ |val x|
  · by_cases h2 : |val x| ≤ 2 ^ 999
    · exact C18j.atanh_nan_of_one_lt_abs x hv hw h1 h2
    · exact atanh_nan_huge x hv hw (not_le.1 h2)
  · exact atanh_nan_near_one x hv hw h (not_le.1 h1)

/-- the same including `|x| = 1`: `atanh` is `NAN` outside the open interval `(−1, 1)` -/
theorem atanh_nan_of_one_le_abs (x : TwoFloat) (hv : x.Valid) (hw : x.WF) (h : 1 ≤ |val x|) :
    TwoFloat.atanh x = TwoFloat.NAN := by
  rcases eq_or_lt_of_le h with h1 | h1
  · exact C18j.atanh_nan_of_abs_eq_one x hv h1.symm
  · exact atanh_nan_of_one_lt_abs_full x hv hw h1

/-! ## 5. the theorems at concrete arguments inside the newly covered slivers -/

theorem abs_val_int {t : TwoFloat} : |val t| = ((|t.V| : ℤ) : ℝ) / 2 ^ 1074 := rv_abs t

theorem one_lt_abs_val {t : TwoFloat} (h : (2 : ℤ) ^ 1074 < |t.V|) : 1 < |val t| := by
  rw [abs_val_int, lt_div_iff₀ (by positivity), one_mul]
  exact_mod_cast h

theorem abs_val_lt_sliver {t : TwoFloat} (h : |t.V| < 2 ^ 1074 + 2 ^ 134) : |val t| < 1 + 1 / 2 ^ 940 := by
  rw [abs_val_int, div_lt_iff₀ (by positivity)]
  have : ((|t.V| : ℤ) : ℝ) < 2 ^ 1074 + 2 ^ 134 := by exact_mod_cast h
  refine lt_of_lt_of_le this ?_
  norm_num

theorem abs_val_gt_huge {t : TwoFloat} (h : (2 : ℤ) ^ 2073 < |t.V|) : 2 ^ 999 < |val t| := by
  rw [abs_val_int, lt_div_iff₀ (by positivity), ← pow_add]
  exact_mod_cast h

/-- `1 + 2^-1074` (the first quotient digit overflows), `1 + 2^-1022` (a finite quotient `≈ −2^1023`),
`−(1 + 100·2^-1074)` (a quotient of `−50` units), `−(1 + 2^-1074)` (the quotient is `−0`), `TwoFloat::MAX`,
`−2^1016` -/
def xAbove1 : TwoFloat := ⟨fin false unit, fin false 1⟩
def xAbove52 : TwoFloat := ⟨fin false unit, fin false (2 ^ 52)⟩
def xBelow100 : TwoFloat := ⟨fin true unit, fin true 100⟩
def xBelow1 : TwoFloat := ⟨fin true unit, fin true 1⟩
def xNegHuge : TwoFloat := ⟨fin true (2 ^ 2090), fin false 0⟩

example : |val xAbove1| < 1 + 1 / 2 ^ 940 ∧ TwoFloat.atanh xAbove1 = TwoFloat.NAN :=
  ⟨abs_val_lt_sliver (by decide +kernel),
   atanh_nan_of_one_lt_abs_full xAbove1 (by decide +kernel) (by decide +kernel) (one_lt_abs_val (by decide +kernel))⟩

example : |val xAbove52| < 1 + 1 / 2 ^ 940 ∧ TwoFloat.atanh xAbove52 = TwoFloat.NAN :=
  ⟨abs_val_lt_sliver (by decide +kernel),
   atanh_nan_of_one_lt_abs_full xAbove52 (by decide +kernel) (by decide +kernel)
     (one_lt_abs_val (by decide +kernel))⟩

example : |val xBelow100| < 1 + 1 / 2 ^ 940 ∧ TwoFloat.atanh xBelow100 = TwoFloat.NAN :=
  ⟨abs_val_lt_sliver (by decide +kernel),
   atanh_nan_of_one_lt_abs_full xBelow100 (by decide +kernel) (by decide +kernel)
     (one_lt_abs_val (by decide +kernel))⟩

example : |val xBelow1| < 1 + 1 / 2 ^ 940 ∧ TwoFloat.atanh xBelow1 = TwoFloat.NAN :=
  ⟨abs_val_lt_sliver (by decide +kernel),
   atanh_nan_of_one_lt_abs_full xBelow1 (by decide +kernel) (by decide +kernel) (one_lt_abs_val (by decide +kernel))⟩

example : 2 ^ 999 < |val TwoFloat.MAX| ∧ TwoFloat.atanh TwoFloat.MAX = TwoFloat.NAN :=
  ⟨abs_val_gt_huge (by decide +kernel),
   atanh_nan_of_one_lt_abs_full TwoFloat.MAX (by decide +kernel) (by decide +kernel)
     (one_lt_abs_val (by decide +kernel))⟩

example : 2 ^ 999 < |val xNegHuge| ∧ TwoFloat.atanh xNegHuge = TwoFloat.NAN :=
  ⟨abs_val_gt_huge (by decide +kernel),
   atanh_nan_of_one_lt_abs_full xNegHuge (by decide +kernel) (by decide +kernel)
     (one_lt_abs_val (by decide +kernel))⟩

end C18k
