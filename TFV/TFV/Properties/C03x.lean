/-
C03x — exact-case clauses of property C03 (addition / subtraction).

All statements are about the exact scaled-integer values (`F64.toInt`, `TwoFloat.V`; unit 2^-1074).  Signs of
zero words are not tracked.  No range restriction is needed for the clauses (a) and (b): all intermediate
operations are exact, so nothing can overflow that was not already out of range.

* `add_tt_cancel`, `sub_tt_cancel`, `sub_tt_self` : exact cancellation gives the zero pair;
* `add_tt_zero_right/left`, `sub_tt_zero_right/left`, `add_tf_zero`, `add_ft_zero`, `sub_tf_zero` : neutral
  element, word for word;
* `add_tf_hi_exact` : DWPlusFP is exact (value = exact sum, valid result) whenever `x.hi + f` is representable and
  `|x.lo| ≤ |x.hi + f|`;
* `add_tf_not_exact_when_representable` : kernel-checked COUNTEREXAMPLE to the strong form of clause (c)
  ("exact whenever the exact sum is a double-double"): `(1, 2^-53) + 2^53`;
* `add_tt_skeleton`, `add_tt_error_decomposition` : the algebraic skeleton of AccurateDWPlusDW: the result is a
  final Fast2Sum, and the only rounding errors are those of the two plain additions `c = sl ⊕ th`, `w = tl ⊕ vl`.
-/
import TFV.Lemmas.ArithExact
import TFV.Properties.C03

set_option exponentiation.threshold 3000

namespace C03x

open F64 TwoFloat

/-! ## (a) exact cancellation -/

/-- if the exact values cancel, `a + b` is the zero pair -/
theorem add_tt_cancel (a b : TwoFloat) (ha : a.Valid) (hb : b.Valid) (hwa : a.WF) (hwb : b.WF)
    (h : a.V + b.V = 0) :
    (a +. b).hi.toInt = 0 ∧ (a +. b).lo.toInt = 0 ∧ (a +. b).V = 0 ∧ (a +. b).Valid ∧ (a +. b).WF := by
  rw [C03.add_tt_notation]
  obtain ⟨e1, e2⟩ := ha.words_neg_of_V_add_eq_zero hb h
  have hc : NormPair (a.hi.toInt + b.hi.toInt) (a.lo.toInt + b.lo.toInt) := by
    rw [e1, e2, add_neg_cancel, add_neg_cancel]; exact zero_facts
  have hr := add_tt_isV_fixed (IsV.of_valid ha) (IsV.of_valid hb) hwa hwb hc
  rw [e1, e2, add_neg_cancel, add_neg_cancel] at hr
  have := hr.package (add_tt_WF a b) zero_facts.2.2.2.2
  rwa [add_zero] at this

/-- if the exact values coincide, `a - b` is the zero pair -/
theorem sub_tt_cancel (a b : TwoFloat) (ha : a.Valid) (hb : b.Valid) (hwa : a.WF) (hwb : b.WF)
    (h : a.V = b.V) :
    (a -. b).hi.toInt = 0 ∧ (a -. b).lo.toInt = 0 ∧ (a -. b).V = 0 ∧ (a -. b).Valid ∧ (a -. b).WF := by
  rw [C03.sub_tt_notation]
  obtain ⟨e1, e2⟩ := ha.words_eq_of_V_eq hb h
  have hc : NormPair (a.hi.toInt - b.hi.toInt) (a.lo.toInt - b.lo.toInt) := by
    rw [e1, e2, sub_self, sub_self]; exact zero_facts
  have hr := sub_tt_isV_fixed (IsV.of_valid ha) (IsV.of_valid hb) hwa hwb hc
  rw [e1, e2, sub_self, sub_self] at hr
  have := hr.package (sub_tt_WF a b) zero_facts.2.2.2.2
  rwa [add_zero] at this

/-- `a - a = 0` -/
theorem sub_tt_self (a : TwoFloat) (ha : a.Valid) (hwa : a.WF) :
    (a -. a).hi.toInt = 0 ∧ (a -. a).lo.toInt = 0 ∧ (a -. a).V = 0 ∧ (a -. a).Valid ∧ (a -. a).WF :=
  sub_tt_cancel a a ha ha hwa hwa rfl

/-- `a + (-a) = 0` -/
theorem add_tt_neg_self (a : TwoFloat) (ha : a.Valid) (hwa : a.WF) :
    let na := arithmetic.impl_Neg_for_rTwoFloat.neg a
    (a +. na).hi.toInt = 0 ∧ (a +. na).lo.toInt = 0 ∧ (a +. na).V = 0 ∧ (a +. na).Valid ∧ (a +. na).WF := by
  intro na
  have hn : na.IsV (-a.hi.toInt) (-a.lo.toInt) := ⟨(IsVal.of_finite ha.1).neg, (IsVal.of_finite ha.2.1).neg⟩
  have hwn : na.WF := ⟨neg_WF hwa.1, neg_WF hwa.2⟩
  have hvn : na.Valid := hn.valid hwn (NormPair.neg (ha.facts hwa)).2.2.2.2
  exact add_tt_cancel a na ha hvn hwa hwn (by rw [hn.V_eq]; unfold TwoFloat.V; ring)

/-! ## (b) neutral element -/

/-- `x + (±0, ±0) = x` word for word -/
theorem add_tt_zero_right (x y : TwoFloat) (hx : x.Valid) (hw : x.WF) (hy : y.Valid) (hV : y.V = 0) :
    (x +. y).hi.toInt = x.hi.toInt ∧ (x +. y).lo.toInt = x.lo.toInt ∧ (x +. y).V = x.V ∧
    (x +. y).Valid ∧ (x +. y).WF := by
  rw [C03.add_tt_notation]
  have hy0 := hy.words_zero hV
  have hc : NormPair (x.hi.toInt + 0) (x.lo.toInt + 0) := by rw [add_zero, add_zero]; exact hx.facts hw
  have hr := add_tt_isV_fixed (IsV.of_valid hx) hy0 hw hy0.WF_zero hc
  rw [add_zero, add_zero] at hr
  exact hr.package (add_tt_WF x y) hx.rnI_eq

/-- `(±0, ±0) + y = y` word for word -/
theorem add_tt_zero_left (x y : TwoFloat) (hx : x.Valid) (hV : x.V = 0) (hy : y.Valid) (hw : y.WF) :
    (x +. y).hi.toInt = y.hi.toInt ∧ (x +. y).lo.toInt = y.lo.toInt ∧ (x +. y).V = y.V ∧
    (x +. y).Valid ∧ (x +. y).WF := by
  rw [C03.add_tt_notation]
  have hx0 := hx.words_zero hV
  have hc : NormPair (0 + y.hi.toInt) (0 + y.lo.toInt) := by rw [zero_add, zero_add]; exact hy.facts hw
  have hr := add_tt_isV_fixed hx0 (IsV.of_valid hy) hx0.WF_zero hw hc
  rw [zero_add, zero_add] at hr
  exact hr.package (add_tt_WF x y) hy.rnI_eq

/-- `x - (±0, ±0) = x` word for word -/
theorem sub_tt_zero_right (x y : TwoFloat) (hx : x.Valid) (hw : x.WF) (hy : y.Valid) (hV : y.V = 0) :
    (x -. y).hi.toInt = x.hi.toInt ∧ (x -. y).lo.toInt = x.lo.toInt ∧ (x -. y).V = x.V ∧
    (x -. y).Valid ∧ (x -. y).WF := by
  rw [C03.sub_tt_notation]
  have hy0 := hy.words_zero hV
  have hc : NormPair (x.hi.toInt - 0) (x.lo.toInt - 0) := by rw [sub_zero, sub_zero]; exact hx.facts hw
  have hr := sub_tt_isV_fixed (IsV.of_valid hx) hy0 hw hy0.WF_zero hc
  rw [sub_zero, sub_zero] at hr
  exact hr.package (sub_tt_WF x y) hx.rnI_eq

/-- `(±0, ±0) - y = -y` word for word -/
theorem sub_tt_zero_left (x y : TwoFloat) (hx : x.Valid) (hV : x.V = 0) (hy : y.Valid) (hw : y.WF) :
    (x -. y).hi.toInt = -y.hi.toInt ∧ (x -. y).lo.toInt = -y.lo.toInt ∧ (x -. y).V = -y.V ∧
    (x -. y).Valid ∧ (x -. y).WF := by
  rw [C03.sub_tt_notation]
  have hx0 := hx.words_zero hV
  have hn := NormPair.neg (hy.facts hw)
  have hc : NormPair (0 - y.hi.toInt) (0 - y.lo.toInt) := by rw [zero_sub, zero_sub]; exact hn
  have hr := sub_tt_isV_fixed hx0 (IsV.of_valid hy) hx0.WF_zero hw hc
  rw [zero_sub, zero_sub] at hr
  obtain ⟨p1, p2, p3, p4, p5⟩ := hr.package (sub_tt_WF x y) hn.2.2.2.2
  exact ⟨p1, p2, by rw [p3]; unfold TwoFloat.V; ring, p4, p5⟩

/-- `x + (±0) = x` word for word (DWPlusFP) -/
theorem add_tf_zero (x : TwoFloat) (f : F64) (hx : x.Valid) (hw : x.WF) (hf : f.is_finite = true)
    (hf0 : f.toInt = 0) :
    (x +. f).hi.toInt = x.hi.toInt ∧ (x +. f).lo.toInt = x.lo.toInt ∧ (x +. f).V = x.V ∧
    (x +. f).Valid ∧ (x +. f).WF := by
  rw [C03.add_tf_notation]
  have hfix : x.hi.toInt + 0 = rnI (x.hi.toInt + 0 + x.lo.toInt) := by rw [add_zero]; exact hx.rnI_eq
  obtain ⟨c1, c2, c3⟩ := fix_conds hfix (by rw [add_zero]; exact hw.1.abs_toInt_le)
  have hr := IsV.of_fixed hfix (add_tf_isV (IsV.of_valid hx) ⟨hf, hf0⟩ hw (WF_of_toInt_zero hf hf0)
    (by rw [add_zero]; exact hw.1.repI) (by rw [add_zero]; exact hw.1.abs_toInt_le) c1 c2 c3)
  rw [add_zero] at hr
  exact hr.package (add_tf_WF x f) hx.rnI_eq

/-- `(±0) + x = x` -/
theorem add_ft_zero (f : F64) (x : TwoFloat) (hx : x.Valid) (hw : x.WF) (hf : f.is_finite = true)
    (hf0 : f.toInt = 0) :
    (f +. x).hi.toInt = x.hi.toInt ∧ (f +. x).lo.toInt = x.lo.toInt ∧ (f +. x).V = x.V ∧
    (f +. x).Valid ∧ (f +. x).WF :=
  add_tf_zero x f hx hw hf hf0

/-- `x - (±0) = x` word for word -/
theorem sub_tf_zero (x : TwoFloat) (f : F64) (hx : x.Valid) (hw : x.WF) (hf : f.is_finite = true)
    (hf0 : f.toInt = 0) :
    (x -. f).hi.toInt = x.hi.toInt ∧ (x -. f).lo.toInt = x.lo.toInt ∧ (x -. f).V = x.V ∧
    (x -. f).Valid ∧ (x -. f).WF := by
  rw [C03.sub_tf_notation]
  have hfix : x.hi.toInt - 0 = rnI (x.hi.toInt - 0 + x.lo.toInt) := by rw [sub_zero]; exact hx.rnI_eq
  obtain ⟨c1, c2, c3⟩ := fix_conds hfix (by rw [sub_zero]; exact hw.1.abs_toInt_le)
  have hr := IsV.of_fixed hfix (sub_tf_isV (IsV.of_valid hx) ⟨hf, hf0⟩ hw (WF_of_toInt_zero hf hf0)
    (by rw [sub_zero]; exact hw.1.repI) (by rw [sub_zero]; exact hw.1.abs_toInt_le) c1 c2 c3)
  rw [sub_zero] at hr
  exact hr.package (sub_tf_WF x f) hx.rnI_eq

/-! ## (c) DWPlusFP is exact when `x.hi + f` is representable -/

/-- `TwoFloat + f64`: if `S = x.hi + f` is representable and in range, `S` is a multiple of the ulp of `x.lo`
(the Fast2Sum precondition; see the two corollaries) and the rounded total does not overflow, then the result is
the valid pair whose value is the exact sum `x.hi + x.lo + f`. -/
theorem add_tf_hi_exact_of_dvd (x : TwoFloat) (f : F64)
    (h1 : x.hi.is_finite = true) (h2 : x.lo.is_finite = true) (hw : x.WF)
    (hf : f.is_finite = true) (hwf : f.WF)
    (hS : RepI (x.hi.toInt + f.toInt)) (hSm : |x.hi.toInt + f.toInt| ≤ (maxFin : Int))
    (hd : (2 : Int) ^ (Nat.log2 x.lo.toInt.natAbs - 52) ∣ x.hi.toInt + f.toInt)
    (hov : |rnI (x.V + f.toInt)| ≤ (maxFin : Int)) :
    (x +. f).hi.toInt = rnI (x.V + f.toInt) ∧ (x +. f).V = x.V + f.toInt ∧ (x +. f).Valid ∧ (x +. f).WF := by
  rw [C03.add_tf_notation]
  have e : x.V + f.toInt = x.hi.toInt + f.toInt + x.lo.toInt := by unfold TwoFloat.V; ring
  rw [e] at hov ⊢
  obtain ⟨c2, c3⟩ := repI_rnI_add_sub_of_dvd hS hw.2.repI hd hSm hw.2.abs_toInt_le hov
  have hr := add_tf_isV (IsV.of_finite h1 h2) (IsVal.of_finite hf) hw hwf hS hSm hov c2 c3
  exact eft_package hr.1 hr.2 (add_tf_WF x f).1 (add_tf_WF x f).2

/-- the same with the classical Fast2Sum precondition `|x.lo| ≤ |x.hi + f|` -/
theorem add_tf_hi_exact (x : TwoFloat) (f : F64)
    (h1 : x.hi.is_finite = true) (h2 : x.lo.is_finite = true) (hw : x.WF)
    (hf : f.is_finite = true) (hwf : f.WF)
    (hS : RepI (x.hi.toInt + f.toInt)) (hSm : |x.hi.toInt + f.toInt| ≤ (maxFin : Int))
    (hle : |x.lo.toInt| ≤ |x.hi.toInt + f.toInt|)
    (hov : |rnI (x.V + f.toInt)| ≤ (maxFin : Int)) :
    (x +. f).hi.toInt = rnI (x.V + f.toInt) ∧ (x +. f).V = x.V + f.toInt ∧ (x +. f).Valid ∧ (x +. f).WF :=
  add_tf_hi_exact_of_dvd x f h1 h2 hw hf hwf hS hSm (hS.ulp_dvd_of_le hle) hov

/-- total cancellation of the high word: `x + (-x.hi) = (x.lo, 0)` exactly -/
theorem add_tf_hi_cancel (x : TwoFloat) (f : F64)
    (h1 : x.hi.is_finite = true) (h2 : x.lo.is_finite = true) (hw : x.WF)
    (hf : f.is_finite = true) (hwf : f.WF) (hc : x.hi.toInt + f.toInt = 0) :
    (x +. f).hi.toInt = x.lo.toInt ∧ (x +. f).V = x.lo.toInt ∧ (x +. f).Valid ∧ (x +. f).WF := by
  have e : x.V + f.toInt = x.lo.toInt := by unfold TwoFloat.V; omega
  have hr : rnI x.lo.toInt = x.lo.toInt := rnI_of_repI hw.2.repI
  have := add_tf_hi_exact_of_dvd x f h1 h2 hw hf hwf (by rw [hc]; exact repI_zero)
    (by rw [hc]; exact abs_zero_le_maxFin) (by rw [hc]; exact dvd_zero _)
    (by rw [e, hr]; exact hw.2.abs_toInt_le)
  rwa [e, hr] at this

/-- **Counterexample to the strong form of clause (c).**  "DWPlusFP returns the exact sum whenever the exact sum
is representable as a double-double" is FALSE in the model (and for the algorithm): take `x = (1, 2^-53)` (valid:
`1 + 2^-53` is a tie that rounds to the even `1`) and `f = 2^53`.  Then `2Sum(1, 2^53) = (2^53, 1)` (tie to even),
`v = RN(2^-53 + 1) = 1` loses the low word, and the result is `(2^53, 1)` with value `2^53 + 1`, whereas the exact
sum `2^53 + 1 + 2^-53` *is* the valid pair `(2^53 + 2, -(1 - 2^-53))`.  The hypothesis "`x.hi + f` representable"
of `add_tf_hi_exact` is what fails here. -/
theorem add_tf_not_exact_when_representable :
    let x : TwoFloat := ⟨fin false (2 ^ 1074), fin false (2 ^ 1021)⟩
    let f : F64 := fin false (2 ^ 1127)
    let e : TwoFloat := ⟨fin false (2 ^ 1127 + 2 ^ 1075), fin true (2 ^ 1074 - 2 ^ 1021)⟩
    x.Valid ∧ x.hi.WF ∧ x.lo.WF ∧ f.WF ∧
    e.Valid ∧ e.hi.WF ∧ e.lo.WF ∧ e.V = x.V + f.toInt ∧
    (x +. f) = ⟨fin false (2 ^ 1127), fin false (2 ^ 1074)⟩ ∧ (x +. f).Valid ∧
    (x +. f).V ≠ x.V + f.toInt ∧ x.V + f.toInt - (x +. f).V = 2 ^ 1021 := by
  decide +kernel

/-! ## (d) the algebraic skeleton of AccurateDWPlusDW -/

/-- **Skeleton of `TwoFloat + TwoFloat`.**  With every word below `2^1023` in magnitude the two 2Sums are exact:
`sh + sl = x.hi + y.hi`, `th + tl = x.lo + y.lo`, so `x.V + y.V = sh + sl + th + tl`, and the result *is* the final
Fast2Sum `fast_two_sum vh w`. -/
theorem add_tt_skeleton (x y : TwoFloat)
    (hx1 : x.hi.is_finite = true) (hx2 : x.lo.is_finite = true)
    (hy1 : y.hi.is_finite = true) (hy2 : y.lo.is_finite = true) (hwx : x.WF) (hwy : y.WF)
    (b1 : 2 * |x.hi.toInt| ≤ (maxFin : Int)) (b2 : 2 * |y.hi.toInt| ≤ (maxFin : Int))
    (b3 : 2 * |x.lo.toInt| ≤ (maxFin : Int)) (b4 : 2 * |y.lo.toInt| ≤ (maxFin : Int)) :
    let s := TwoFloat.new_add x.hi y.hi
    let t := TwoFloat.new_add x.lo y.lo
    let c := F64.add s.lo t.hi
    let v := arithmetic.fast_two_sum s.hi c
    let w := F64.add t.lo v.lo
    x +. y = arithmetic.fast_two_sum v.hi w ∧
    s.V = x.hi.toInt + y.hi.toInt ∧ t.V = x.lo.toInt + y.lo.toInt ∧
    s.hi.toInt = rnI (x.hi.toInt + y.hi.toInt) ∧ t.hi.toInt = rnI (x.lo.toInt + y.lo.toInt) ∧
    s.Valid ∧ t.Valid ∧
    x.V + y.V = s.hi.toInt + s.lo.toInt + t.hi.toInt + t.lo.toInt := by
  intro s t c v w
  obtain ⟨s1, s2, s3, _⟩ := new_add_spec hx1 hy1 hwx.1 hwy.1 b1 b2
  obtain ⟨t1, t2, t3, _⟩ := new_add_spec hx2 hy2 hwx.2 hwy.2 b3 b4
  refine ⟨rfl, s2, t2, s1, t1, s3, t3, ?_⟩
  have e1 : s.hi.toInt + s.lo.toInt = x.hi.toInt + y.hi.toInt := s2
  have e2 : t.hi.toInt + t.lo.toInt = x.lo.toInt + y.lo.toInt := t2
  unfold TwoFloat.V; omega

/-- **Error decomposition of `TwoFloat + TwoFloat`.**  If moreover the two Fast2Sum preconditions hold on the
computed words (`|c| ≤ |sh|`, `|w| ≤ |vh|`, nothing overflows), the result is valid, its value is `vh + w`, and
the total error is exactly the sum of the rounding errors of the two plain additions `c = sl ⊕ th` and
`w = tl ⊕ vl`. -/
theorem add_tt_error_decomposition (x y : TwoFloat)
    (hx1 : x.hi.is_finite = true) (hx2 : x.lo.is_finite = true)
    (hy1 : y.hi.is_finite = true) (hy2 : y.lo.is_finite = true) (hwx : x.WF) (hwy : y.WF)
    (b1 : 2 * |x.hi.toInt| ≤ (maxFin : Int)) (b2 : 2 * |y.hi.toInt| ≤ (maxFin : Int))
    (b3 : 2 * |x.lo.toInt| ≤ (maxFin : Int)) (b4 : 2 * |y.lo.toInt| ≤ (maxFin : Int)) :
    let s := TwoFloat.new_add x.hi y.hi
    let t := TwoFloat.new_add x.lo y.lo
    let c := F64.add s.lo t.hi
    let v := arithmetic.fast_two_sum s.hi c
    let w := F64.add t.lo v.lo
    c.is_finite = true → c.toInt.natAbs ≤ s.hi.toInt.natAbs → v.hi.is_finite = true →
    w.is_finite = true → w.toInt.natAbs ≤ v.hi.toInt.natAbs → (x +. y).hi.is_finite = true →
    c.toInt = rnI (s.lo.toInt + t.hi.toInt) ∧ w.toInt = rnI (t.lo.toInt + v.lo.toInt) ∧
    v.V = s.hi.toInt + c.toInt ∧ (x +. y).V = v.hi.toInt + w.toInt ∧
    (x +. y).V - (x.V + y.V)
      = (c.toInt - (s.lo.toInt + t.hi.toInt)) + (w.toInt - (t.lo.toInt + v.lo.toInt)) ∧
    (x +. y).Valid ∧ (x +. y).WF := by
  intro s t c v w hcf hcle hvf hwf hwle hrf
  obtain ⟨hres, s2, t2, _, _, s3, t3, hsum⟩ := add_tt_skeleton x y hx1 hx2 hy1 hy2 hwx hwy b1 b2 b3 b4
  have hv := fast_two_sum_of_finite s.hi c (new_add_WF _ _).1 (add_WF _ _) s3.1 hcf hcle hvf
  have hcv : c.toInt = rnI (s.lo.toInt + t.hi.toInt) :=
    (add_spec s3.2.1 t3.1 (rn53_le_maxFin_of_add_finite s3.2.1 t3.1 hcf)).2
  have hwv : w.toInt = rnI (t.lo.toInt + v.lo.toInt) :=
    (add_spec t3.2.1 hv.2.1.2.1 (rn53_le_maxFin_of_add_finite t3.2.1 hv.2.1.2.1 hwf)).2
  have hr := fast_two_sum_of_finite v.hi w (fast_two_sum_WF _ _).1 (add_WF _ _) hv.2.1.1 hwf hwle hrf
  have hrV : (x +. y).V = v.hi.toInt + w.toInt := hr.1
  refine ⟨hcv, hwv, hv.1, hrV, ?_, hr.2.1, hr.2.2⟩
  have e3 : v.hi.toInt + v.lo.toInt = s.hi.toInt + c.toInt := hv.1
  have key : ∀ (R X sh sl th tl cc vh vl ww : Int), R = vh + ww → vh + vl = sh + cc →
      X = sh + sl + th + tl → R - X = (cc - (sl + th)) + (ww - (tl + vl)) := by
    intros; omega
  exact key _ _ _ _ _ _ _ _ _ _ hrV e3 hsum

/-! ## the clause names of the property sheet -/

alias add_cancel_exact := add_tt_cancel
alias sub_self_exact := sub_tt_self
alias add_zero_exact := add_tt_zero_right
alias add_tf_f64_exact_when_representable := add_tf_hi_exact
alias add_tt_is_f2s := add_tt_skeleton

/-! ## instances on concrete values -/

section examples

local instance (t : TwoFloat) : Decidable t.WF := by unfold TwoFloat.WF; infer_instance

def px : TwoFloat := consts.PI
def npx : TwoFloat := arithmetic.impl_Neg_for_rTwoFloat.neg consts.PI
def zeroT : TwoFloat := ⟨F64.negZero, F64.zero⟩
/-- a pair near the top of the range: `f64::MAX + 2^969` (low word = half an ulp of the high word) -/
def big : TwoFloat := ⟨F64.MAX, fin false (2 ^ 2043)⟩

theorem px_ok : px.Valid ∧ px.WF := by decide +kernel
theorem npx_ok : npx.Valid ∧ npx.WF := by decide +kernel
theorem big_ok : big.Valid ∧ big.WF := by decide +kernel
theorem zeroT_ok : zeroT.Valid ∧ zeroT.V = 0 := by decide +kernel

example : (px +. npx).V = 0 :=
  (add_tt_cancel px npx px_ok.1 npx_ok.1 px_ok.2 npx_ok.2 (by decide +kernel)).2.2.1
example : (px -. px).V = 0 := (sub_tt_self px px_ok.1 px_ok.2).2.2.1
example : (big -. big).V = 0 := (sub_tt_self big big_ok.1 big_ok.2).2.2.1
example : (px -. consts.PI).V = 0 := (sub_tt_cancel px consts.PI px_ok.1 px_ok.1 px_ok.2 px_ok.2 rfl).2.2.1
example : (px +. npx).V = 0 := (add_tt_neg_self px px_ok.1 px_ok.2).2.2.1
example : (big +. zeroT).V = big.V := (add_tt_zero_right big zeroT big_ok.1 big_ok.2 zeroT_ok.1 zeroT_ok.2).2.2.1
example : (zeroT +. px).V = px.V := (add_tt_zero_left zeroT px zeroT_ok.1 zeroT_ok.2 px_ok.1 px_ok.2).2.2.1
example : (px -. zeroT).V = px.V := (sub_tt_zero_right px zeroT px_ok.1 px_ok.2 zeroT_ok.1 zeroT_ok.2).2.2.1
example : (zeroT -. px).V = -px.V := (sub_tt_zero_left zeroT px zeroT_ok.1 zeroT_ok.2 px_ok.1 px_ok.2).2.2.1
example : (px +. F64.negZero).V = px.V := (add_tf_zero px F64.negZero px_ok.1 px_ok.2 rfl rfl).2.2.1
example : (F64.zero +. big).V = big.V := (add_ft_zero F64.zero big big_ok.1 big_ok.2 rfl rfl).2.2.1
example : (px -. F64.zero).V = px.V := (sub_tf_zero px F64.zero px_ok.1 px_ok.2 rfl rfl).2.2.1

/-- `π + (-π.hi) = (π.lo, 0)` -/
example : (px +. F64.neg px.hi).V = px.lo.toInt :=
  (add_tf_hi_cancel px (F64.neg px.hi) rfl rfl px_ok.2 rfl (by decide +kernel) (by decide +kernel)).2.1
/-- `π + π.hi`: the high-word sum `2·π.hi` is representable, so DWPlusFP is exact -/
example : (px +. px.hi).V = px.V + px.hi.toInt :=
  (add_tf_hi_exact px px.hi rfl rfl px_ok.2 rfl px_ok.2.1 (by decide +kernel) (by decide +kernel)
    (by decide +kernel) (by decide +kernel)).2.1
example : px.V + consts.E.V =
    (TwoFloat.new_add px.hi consts.E.hi).hi.toInt + (TwoFloat.new_add px.hi consts.E.hi).lo.toInt
      + (TwoFloat.new_add px.lo consts.E.lo).hi.toInt + (TwoFloat.new_add px.lo consts.E.lo).lo.toInt :=
  (add_tt_skeleton px consts.E rfl rfl rfl rfl px_ok.2 (by decide +kernel) (by decide +kernel)
    (by decide +kernel) (by decide +kernel) (by decide +kernel)).2.2.2.2.2.2.2
example : (px +. consts.E).Valid :=
  (add_tt_error_decomposition px consts.E rfl rfl rfl rfl px_ok.2 (by decide +kernel) (by decide +kernel)
    (by decide +kernel) (by decide +kernel) (by decide +kernel) (by decide +kernel) (by decide +kernel)
    (by decide +kernel) (by decide +kernel) (by decide +kernel) (by decide +kernel)).2.2.2.2.2.1

end examples

end C03x
