/-
C15m (numerical layer, PARTIAL) — the accuracy of `TwoFloat::log2` as far as the available `exp2` bound reaches.

`log2` is two Newton steps `x ← x + (v·exp2(−x) − 1)·FRAC_1_LN_2` from the seed `libm::log2(hi)`.  `Log2Bound.log2_bound_of`
gives, for ANY relative accuracy `dE` of `exp2` and any seed accuracy `η₀ ≤ 2^-21`,

   |log2(x) − log₂ v| ≤ 0.7·(0.7·(η₀ + 2^-50)² + D)² + D,   D = 1.4431·dE + 11u² + 4u²·|log₂ v|.

Instantiated with what is proved today — `Log2Seed.libm_log2_coarse` (`η₀ = 2^-24`, every finite positive double) and
`Exp2Bound.exp2_bound_main` (`dE = 5633u² < 2^-93` on `[−900, 1000]`) — this is `2^-92·(1 + |log₂ v|)` for high words in
`[2^-999, 2^898]` (`log2_bound_partial`).  The limit is the `exp2` bound: with `dE ≤ 37u²` the same theorem yields
`≤ 65u² + 4u²·|log₂ v| < 2^-99.9·(1 + |log₂ v|)`; the range is that of the `exp2` theorem.
-/
import TFV.Lemmas.Log2Bound
import TFV.Lemmas.Log2Seed
import TFV.Lemmas.Exp2Bound

set_option exponentiation.threshold 4000

namespace C15m

open F64 TwoFloat ConstBounds ExpBound

/-- exact real value `hi + lo` of a pair -/
noncomputable abbrev val (t : TwoFloat) : ℝ := ExpBound.rv t

/-- exact real value of a double -/
noncomputable abbrev fval (f : F64) : ℝ := ExpBound.fv f

/-- **the libm port `Libm.log2` against `log₂`**: absolute error at most `2^-24` on every finite positive double -/
theorem libm_log2_coarse (n : ℕ) (hn : 0 < n) (hw : (F64.fin false n).WF) :
    (Libm.log2 (F64.fin false n)).is_finite = true ∧
    |fval (Libm.log2 (F64.fin false n)) - Real.log (fval (F64.fin false n)) / Real.log 2| ≤ 1 / 2 ^ 24 :=
  Log2Seed.libm_log2_coarse n hn hw

theorem seed_ok {h : F64} (hf : h.is_finite = true) (hw : h.WF) (hp : 0 < fval h) :
    (Libm.log2 h).is_finite = true ∧ |fval (Libm.log2 h) - Real.log (fval h) / Real.log 2| ≤ 1 / 2 ^ 24 := by
  obtain ⟨s, n, rfl⟩ := is_finite_iff.mp hf
  have := LnBound.fv_pos_iff.1 hp
  cases s
  · have hn : 0 < n := by simpa [toInt] using this
    exact Log2Seed.libm_log2_coarse n hn hw
  · exfalso; simp [toInt] at this; omega

/-- the accuracy of `exp2` proved in `Lemmas/Exp2Bound.lean` -/
theorem exp2_acc : Log2Bound.Exp2Acc (5633 / 2 ^ 106) :=
  fun y hv hw h1 h2 => Exp2Bound.exp2_bound_main y hv hw h1 h2

/-- one Newton step of `log2` on pairs, for any accuracy `dE` of `exp2` -/
theorem log2_step {dE : ℝ} (H : Log2Bound.Exp2Acc dE) (hdE0 : 0 ≤ dE) (hdE : dE ≤ 1 / 2 ^ 80)
    {v x : TwoFloat} (hv : v.Valid) (hwv : v.WF) (hx : x.Valid) (hwx : x.WF) (hpos : 0 < val v)
    (hL1 : -(9995 / 10) ≤ Real.log (val v) / Real.log 2) (hL2 : Real.log (val v) / Real.log 2 ≤ 899)
    (he : |val x - Real.log (val v) / Real.log 2| ≤ 1 / 2 ^ 20) :
    |val (arithmetic.impl_Add_TwoFloat_for_TwoFloat.add x (Log2Bound.corr2 v x)) - Real.log (val v) / Real.log 2|
      ≤ 7 / 10 * (val x - Real.log (val v) / Real.log 2) ^ 2 + 14431 / 10000 * dE + 11 / 2 ^ 106
        + 4 / 2 ^ 106 * |Real.log (val v) / Real.log 2| :=
  (Log2Bound.log2_step H hdE0 hdE ⟨hv, hwv⟩ ⟨hx, hwx⟩ hpos hL1 hL2 he).2

/-- **accuracy of `log2`, PARTIAL** (`2^-92` instead of a `2^-100`-type floor; limited by the `exp2` bound `5633u²`):
for every valid `x` with high word in `[2^-999, 2^898]`, `|log2(x) − log₂ v| ≤ 2^-92·(1 + |log₂ v|)` -/
theorem log2_bound_partial (x : TwoFloat) (hv : x.Valid) (hw : x.WF)
    (hlo : 1 / 2 ^ 999 ≤ fval x.hi) (hhi : fval x.hi ≤ 2 ^ 898) :
    (TwoFloat.log2 x).Valid ∧
    |val (TwoFloat.log2 x) - Real.log (val x) / Real.log 2|
      ≤ 1 / 2 ^ 92 * (1 + |Real.log (val x) / Real.log 2|) := by
  have hhpos : 0 < fval x.hi := lt_of_lt_of_le (by positivity) hlo
  obtain ⟨h1, h2⟩ := Log2Bound.log2_bound_of exp2_acc (by positivity) (by norm_num) (η0 := 1 / 2 ^ 24)
    (by positivity) (by norm_num) x hv hw hlo hhi (seed_ok hv.1 hw.1 hhpos)
  refine ⟨h1.1, le_trans h2 ?_⟩
  -- the size of ℓ = log₂ v
  obtain ⟨hpos, hnear, _⟩ := LnBound.log_rv_near_hi hv hhpos
  obtain ⟨hc1, hc2⟩ := Log2Bound.log_two_range
  have hc0 : 0 < Real.log 2 := by linarith
  obtain ⟨g1, g2⟩ := Log2Bound.log2_hi_range hlo (le_trans hhi (by norm_num))
  have hnear2 : |Real.log (val x) / Real.log 2 - Real.log (fval x.hi) / Real.log 2| ≤ 1 := by
    rw [← sub_div, abs_div, abs_of_pos hc0, div_le_iff₀ hc0]
    refine le_trans hnear ?_
    have : (1 : ℝ) / 2 ^ 52 ≤ 1 * (693 / 1000) := by norm_num
    linarith
  obtain ⟨n1, n2⟩ := abs_le.1 hnear2
  generalize Real.log (val x) / Real.log 2 = ℓ at *
  have hℓabs : |ℓ| ≤ 1001 := abs_le.2 ⟨by linarith, by linarith⟩
  have hLa := abs_nonneg ℓ
  set D := (14431 : ℝ) / 10000 * (5633 / 2 ^ 106) + 11 / 2 ^ 106 + 4 / 2 ^ 106 * |ℓ| with hD
  have hD0 : 0 ≤ D := by positivity
  have hDs : D ≤ 12200 / 2 ^ 106 := by
    have h2 : (4 : ℝ) / 2 ^ 106 * |ℓ| ≤ 4 / 2 ^ 106 * 1001 := mul_le_mul_of_nonneg_left hℓabs (by positivity)
    have : (14431 : ℝ) / 10000 * (5633 / 2 ^ 106) + 11 / 2 ^ 106 + 4 / 2 ^ 106 * 1001 ≤ 12200 / 2 ^ 106 := by norm_num
    linarith
  have hT : 7 / 10 * ((1 : ℝ) / 2 ^ 24 + 1 / 2 ^ 50) ^ 2 + D ≤ 1 / 2 ^ 48 := by
    have : 7 / 10 * ((1 : ℝ) / 2 ^ 24 + 1 / 2 ^ 50) ^ 2 + 12200 / 2 ^ 106 ≤ 1 / 2 ^ 48 := by norm_num
    linarith
  have hT0 : 0 ≤ 7 / 10 * ((1 : ℝ) / 2 ^ 24 + 1 / 2 ^ 50) ^ 2 + D := by positivity
  have hsq : (7 / 10 * ((1 : ℝ) / 2 ^ 24 + 1 / 2 ^ 50) ^ 2 + D) ^ 2 ≤ (1 / 2 ^ 48) ^ 2 :=
    pow_le_pow_left₀ hT0 hT 2
  have e1 : (7 : ℝ) / 10 * (1 / 2 ^ 48) ^ 2 ≤ 717 / 2 ^ 106 := by norm_num
  have e2 : (14431 : ℝ) / 10000 * (5633 / 2 ^ 106) + 11 / 2 ^ 106 + 717 / 2 ^ 106 ≤ 1 / 2 ^ 92 := by norm_num
  have e3 : (4 : ℝ) / 2 ^ 106 * |ℓ| ≤ 1 / 2 ^ 92 * |ℓ| := mul_le_mul_of_nonneg_right (by norm_num) hLa
  rw [hD] at hsq ⊢
  nlinarith

/-! ## examples -/

/-- the double-double `(c, 0)` -/
def ofF (c : F64) : TwoFloat := ⟨c, F64.zero⟩

/-- `log2(10)` -/
example :
    |val (TwoFloat.log2 (ofF (f64lit 0x4024000000000000))) - Real.log (val (ofF (f64lit 0x4024000000000000))) / Real.log 2|
      ≤ 1 / 2 ^ 92 * (1 + |Real.log (val (ofF (f64lit 0x4024000000000000))) / Real.log 2|) := by
  have f10 : fval (f64lit 0x4024000000000000) = 10 := by
    show ((f64lit 0x4024000000000000).toInt : ℝ) / 2 ^ 1074 = 10
    rw [show (f64lit 0x4024000000000000).toInt = 10 * 2 ^ 1074 by decide +kernel]
    simp only [Int.cast_mul, Int.cast_pow, Int.cast_ofNat]
    rw [mul_div_assoc, div_self (by positivity : ((2 : ℝ) ^ 1074) ≠ 0), mul_one]
  exact (log2_bound_partial (ofF (f64lit 0x4024000000000000)) (by decide +kernel)
    ⟨by decide +kernel, by decide +kernel⟩
    (by show 1 / 2 ^ 999 ≤ fval (f64lit 0x4024000000000000); rw [f10]; norm_num)
    (by show fval (f64lit 0x4024000000000000) ≤ 2 ^ 898; rw [f10]; norm_num)).2

end C15m
