/-
C13b (numerical layer) — the error bound of `TwoFloat::powi` (property C13):

  "powi(x, n) … returns 1 for n = 0, x for n = 1 [C13.powi_zero, C13.powi_one], and otherwise a value within
   (6·|n| + 16)·2^-106 relative of the exact x^n whenever 2^-900 ≤ |x|^|n| ≤ 2^900, with the correct sign for
   negative x …"

Values are rationals: `val t = (hi + lo) = t.V / 2^1074 : ℚ` (`PowiBound.val`).  PROVED IN FULL, on the property's range
and for every `i32` exponent other than 0 and 1 (including `-1` and `i32::MIN`):

* `powi_bound_pos`  : `2 ≤ n`            ⟹ result valid, `|powi x n − x^n| ≤ (6n + 16)·2^-106·|x^n|`;
* `powi_bound_neg`  : `n ≤ -1`           ⟹ result valid, `|powi x n − 1/x^|n|| ≤ (6|n| + 16)·2^-106·|1/x^|n||`;
* `powi_bound`      : both, with `x ^ n` an integer power (`zpow`) of the rational value;
* `powi_bound_pos_sharp` : what the analysis really gives for `n ≥ 2`: `(n − 1)·(5u² + 12u³)·(1 + 2^-69)`, `u = 2^-53`
                      (about `5(n−1)·2^-106`): `x^n` costs `n − 1` inexact multiplications' worth of error whatever the
                      bit pattern of `n`, because the first `result *= value` multiplies by an exact `1`;
* `powi_sign`, `powi_sign_of_neg` : the result has the sign of `x^n` (so `(−1)^n` for negative `x`).

How: `TFV/Lemmas/PowiBound.lean` — a relative-error calculus `Rel a r e :⟺ |r − e| ≤ ((1+c)^a − 1)|e|`,
`c = 5u² + 12u³` (the proved bound of `TwoFloat * TwoFloat`, re-derived there on the wide range
"both high words normal, product in [2^-901, 2^1021)" — `mul_tt_bound_5u2_12u3_wide`), the loop invariant
`result ≈ v^m  (Rel (m−1))`, `value ≈ v^j  (Rel (j−1))`, and `(1+c)^k − 1 ≤ k·c·(1 + 2^-69)` for `k ≤ 2^31`.
The last squaring of `value` (whose result is never used, and which may overflow) is not constrained.
-/
import TFV.Lemmas.PowiBound

set_option exponentiation.threshold 4000

namespace C13b

open F64 TwoFloat PowiBound

/-- `n ≥ 2`: the loop result, valid, in the relative-error calculus -/
theorem powi_pos_rel (x : TwoFloat) (hv : x.Valid) (hw : x.WF) (n : I32) (hn : 2 ≤ n.v) (hmax : n.v ≤ 2147483647)
    (hlo : 1 / 2 ^ 900 ≤ |val x| ^ n.v.natAbs) (hhi : |val x| ^ n.v.natAbs ≤ 2 ^ 900) :
    (TwoFloat.powi x n).Valid ∧ (TwoFloat.powi x n).WF ∧
    Rel (n.v.natAbs - 1) (val (TwoFloat.powi x n)) (val x ^ n.v.natAbs) := by
  rw [powi_loop_eq x n (Or.inl hn), if_pos (by omega)]
  exact loop_rel x hv hw n.v.natAbs (by omega) (by omega) hlo hhi

/-- **C13, positive exponents `2 ≤ n ≤ i32::MAX`**: for a valid `x` with `2^-900 ≤ |x|^n ≤ 2^900` the result is a valid
pair within `(6n + 16)·2^-106` (relative) of the exact power. -/
theorem powi_bound_pos (x : TwoFloat) (hv : x.Valid) (hw : x.WF) (n : I32) (hn : 2 ≤ n.v) (hmax : n.v ≤ 2147483647)
    (hlo : 1 / 2 ^ 900 ≤ |val x| ^ n.v.natAbs) (hhi : |val x| ^ n.v.natAbs ≤ 2 ^ 900) :
    (TwoFloat.powi x n).Valid ∧ (TwoFloat.powi x n).WF ∧
    |val (TwoFloat.powi x n) - val x ^ n.v.natAbs|
      ≤ (6 * (n.v.natAbs : ℚ) + 16) / 2 ^ 106 * |val x ^ n.v.natAbs| := by
  obtain ⟨h1, h2, h3⟩ := powi_pos_rel x hv hw n hn hmax hlo hhi
  exact ⟨h1, h2, (rel_linear (by omega) (by omega) h3).2⟩

/-- the same with the constant the analysis gives: `(n − 1)·(5u² + 12u³)·(1 + 2^-69)` -/
theorem powi_bound_pos_sharp (x : TwoFloat) (hv : x.Valid) (hw : x.WF) (n : I32) (hn : 2 ≤ n.v)
    (hmax : n.v ≤ 2147483647)
    (hlo : 1 / 2 ^ 900 ≤ |val x| ^ n.v.natAbs) (hhi : |val x| ^ n.v.natAbs ≤ 2 ^ 900) :
    |val (TwoFloat.powi x n) - val x ^ n.v.natAbs|
      ≤ ((n.v.natAbs : ℚ) - 1) * ((5 * 2 ^ 53 + 12) / 2 ^ 159) * (1 + 1 / 2 ^ 69) * |val x ^ n.v.natAbs| := by
  obtain ⟨_, _, h3⟩ := powi_pos_rel x hv hw n hn hmax hlo hhi
  exact (rel_linear (by omega) (by omega) h3).1

/-- **C13, negative exponents `i32::MIN ≤ n ≤ -1`**: `powi x n = recip (x^|n|)` is a valid pair within
`(6|n| + 16)·2^-106` (relative) of `1 / x^|n|`, whenever `2^-900 ≤ |x|^|n| ≤ 2^900`. -/
theorem powi_bound_neg (x : TwoFloat) (hv : x.Valid) (hw : x.WF) (n : I32) (hn : n.v ≤ -1)
    (hmin : -2147483648 ≤ n.v)
    (hlo : 1 / 2 ^ 900 ≤ |val x| ^ n.v.natAbs) (hhi : |val x| ^ n.v.natAbs ≤ 2 ^ 900) :
    (TwoFloat.powi x n).Valid ∧ (TwoFloat.powi x n).WF ∧
    |val (TwoFloat.powi x n) - (val x ^ n.v.natAbs)⁻¹|
      ≤ (6 * (n.v.natAbs : ℚ) + 16) / 2 ^ 106 * |(val x ^ n.v.natAbs)⁻¹| := by
  by_cases h1 : n.v = -1
  · have hn1 : n = (-1 : I32) := by
      cases n with
      | mk v => simp only at h1; subst h1; rfl
    subst hn1
    rw [C13.powi_neg_one]
    have e : (-1 : I32).v.natAbs = 1 := rfl
    rw [e] at hlo hhi ⊢
    have h0 : Rel (1 - 1) (val x) (val x ^ 1) := by rw [pow_one]; exact rel_zero _
    obtain ⟨a, b, _, d⟩ := recip_of_rel (le_refl 1) (by norm_num) hlo hhi hv h0
    exact ⟨a, b, d⟩
  · rw [powi_loop_eq x n (Or.inr (by omega)), if_neg (by omega)]
    obtain ⟨rv, _, rr⟩ := loop_rel x hv hw n.v.natAbs (by omega) (by omega) hlo hhi
    obtain ⟨a, b, _, d⟩ := recip_of_rel (by omega) (by omega) hlo hhi rv rr
    exact ⟨a, b, d⟩

/-- **C13, all exponents other than 0 and 1**, with the exact power written as an integer power of the rational value -/
theorem powi_bound (x : TwoFloat) (hv : x.Valid) (hw : x.WF) (n : I32) (hr : n.inRange = true)
    (h0 : n.v ≠ 0) (h1 : n.v ≠ 1)
    (hlo : 1 / 2 ^ 900 ≤ |val x| ^ n.v.natAbs) (hhi : |val x| ^ n.v.natAbs ≤ 2 ^ 900) :
    (TwoFloat.powi x n).Valid ∧ (TwoFloat.powi x n).WF ∧
    |val (TwoFloat.powi x n) - val x ^ n.v| ≤ (6 * (n.v.natAbs : ℚ) + 16) / 2 ^ 106 * |val x ^ n.v| := by
  have hr' : (-(2 ^ 31 : Nat) : Int) ≤ n.v ∧ n.v ≤ ((2 ^ 31 : Nat) : Int) - 1 := by
    simpa [IntN.inRange, IntN.fits, IntN.minV, IntN.maxV] using hr
  rcases le_or_gt 0 n.v with hp | hp
  · have e : val x ^ n.v = val x ^ n.v.natAbs := by
      conv_lhs => rw [← Int.natAbs_of_nonneg hp]
      exact zpow_natCast _ _
    rw [e]
    exact powi_bound_pos x hv hw n (by omega) (by omega) hlo hhi
  · have e : val x ^ n.v = (val x ^ n.v.natAbs)⁻¹ := by
      have : n.v = -((n.v.natAbs : ℕ) : ℤ) := by omega
      conv_lhs => rw [this]
      rw [zpow_neg, zpow_natCast]
    rw [e]
    exact powi_bound_neg x hv hw n (by omega) (by omega) hlo hhi

/-! ### sign -/

/-- the result has the sign of `x^|n|` (hence of `x^n`) -/
theorem powi_sign (x : TwoFloat) (hv : x.Valid) (hw : x.WF) (n : I32) (hr : n.inRange = true)
    (h0 : n.v ≠ 0) (h1 : n.v ≠ 1)
    (hlo : 1 / 2 ^ 900 ≤ |val x| ^ n.v.natAbs) (hhi : |val x| ^ n.v.natAbs ≤ 2 ^ 900) :
    0 < val (TwoFloat.powi x n) * val x ^ n.v.natAbs := by
  have hr' : (-(2 ^ 31 : Nat) : Int) ≤ n.v ∧ n.v ≤ ((2 ^ 31 : Nat) : Int) - 1 := by
    simpa [IntN.inRange, IntN.fits, IntN.minV, IntN.maxV] using hr
  have he : val x ^ n.v.natAbs ≠ 0 := by
    intro h
    rw [← abs_pow, h, abs_zero] at hlo
    have : (0 : ℚ) < 1 / 2 ^ 900 := by positivity
    linarith
  have hN : ((n.v.natAbs : ℕ) : ℚ) ≤ 2 ^ 31 := by
    have : n.v.natAbs ≤ 2 ^ 31 := by omega
    exact_mod_cast this
  have hκ : (6 * (n.v.natAbs : ℚ) + 16) / 2 ^ 106 ≤ 1 / 2 := by
    rw [div_le_div_iff₀ (by positivity) (by positivity)]
    have : (6 * (n.v.natAbs : ℚ) + 16) * 2 ≤ (6 * 2 ^ 31 + 16) * 2 := by linarith
    refine le_trans this ?_
    norm_num
  rcases le_or_gt 0 n.v with hp | hp
  · exact close_sign (powi_bound_pos x hv hw n (by omega) (by omega) hlo hhi).2.2 hκ he
  · have := close_sign (powi_bound_neg x hv hw n (by omega) (by omega) hlo hhi).2.2 hκ (inv_ne_zero he)
    have h2 : 0 < val x ^ n.v.natAbs * val x ^ n.v.natAbs := mul_self_pos.2 he
    have e : val (TwoFloat.powi x n) * val x ^ n.v.natAbs
        = val (TwoFloat.powi x n) * (val x ^ n.v.natAbs)⁻¹ * (val x ^ n.v.natAbs * val x ^ n.v.natAbs) := by
      field_simp
    rw [e]
    exact mul_pos this h2

theorem val_pos_iff (t : TwoFloat) : 0 < val t ↔ 0 < t.V := by
  unfold val
  rw [div_pos_iff_of_pos_right (by positivity)]
  exact Int.cast_pos

theorem val_neg_iff (t : TwoFloat) : val t < 0 ↔ t.V < 0 := by
  unfold val
  rw [div_neg_iff]
  constructor
  · rintro (⟨_, h⟩ | ⟨h, _⟩)
    · exact absurd h (not_lt.2 (by positivity))
    · exact Int.cast_lt_zero.1 h
  · intro h
    exact Or.inr ⟨Int.cast_lt_zero.2 h, by positivity⟩

/-- **C13, sign for negative `x`**: positive result for even `n`, negative for odd `n` -/
theorem powi_sign_of_neg (x : TwoFloat) (hv : x.Valid) (hw : x.WF) (hx : x.V < 0) (n : I32) (hr : n.inRange = true)
    (h0 : n.v ≠ 0) (h1 : n.v ≠ 1)
    (hlo : 1 / 2 ^ 900 ≤ |val x| ^ n.v.natAbs) (hhi : |val x| ^ n.v.natAbs ≤ 2 ^ 900) :
    (Even n.v → 0 < (TwoFloat.powi x n).V) ∧ (Odd n.v → (TwoFloat.powi x n).V < 0) := by
  have hs := powi_sign x hv hw n hr h0 h1 hlo hhi
  have hx' : val x < 0 := (val_neg_iff x).2 hx
  constructor
  · intro he
    have : Even n.v.natAbs := Int.natAbs_even.2 he
    have hp : 0 < val x ^ n.v.natAbs := this.pow_pos (ne_of_lt hx')
    exact (val_pos_iff _).1 (pos_of_mul_pos_left hs (le_of_lt hp))
  · intro ho
    have : Odd n.v.natAbs := Int.natAbs_odd.2 ho
    have hp : val x ^ n.v.natAbs < 0 := this.pow_neg hx'
    apply (val_neg_iff _).1
    by_contra hc
    have : val (TwoFloat.powi x n) * val x ^ n.v.natAbs ≤ 0 :=
      mul_nonpos_of_nonneg_of_nonpos (not_lt.1 hc) (le_of_lt hp)
    linarith

/-! ### closed instances -/

/-- exact small powers (every intermediate is exactly representable) -/
example :
    TwoFloat.powi ⟨f64lit 0x4000000000000000, F64.zero⟩ (10 : I32) = ⟨f64lit 0x4090000000000000, F64.zero⟩   -- 2^10 = 1024
    ∧ TwoFloat.powi ⟨f64lit 0x4008000000000000, F64.zero⟩ (5 : I32) = ⟨f64lit 0x406e600000000000, F64.zero⟩  -- 3^5 = 243
    ∧ TwoFloat.powi ⟨f64lit 0xc000000000000000, F64.zero⟩ (3 : I32) = ⟨f64lit 0xc020000000000000, F64.zero⟩  -- (-2)^3 = -8
    ∧ TwoFloat.powi ⟨f64lit 0x4000000000000000, F64.zero⟩ (-2 : I32) = ⟨f64lit 0x3fd0000000000000, F64.zero⟩ -- 2^-2 = 1/4
    ∧ TwoFloat.powi ⟨f64lit 0x4024000000000000, F64.zero⟩ (15 : I32) = ⟨f64lit 0x430c6bf526340000, F64.zero⟩ -- 10^15
    := by decide +kernel

theorem abs_val_bounds_of_int (t : TwoFloat) (a b : ℕ) (h1 : (a : Int) * 2 ^ 1074 ≤ |t.V|)
    (h2 : |t.V| ≤ (b : Int) * 2 ^ 1074) : (a : ℚ) ≤ |val t| ∧ |val t| ≤ (b : ℚ) := by
  rw [abs_val]
  have q1 : ((a : ℚ)) * 2 ^ 1074 ≤ ((|t.V| : Int) : ℚ) := by exact_mod_cast h1
  have q2 : ((|t.V| : Int) : ℚ) ≤ (b : ℚ) * 2 ^ 1074 := by exact_mod_cast h2
  exact ⟨(le_div_iff₀ (by positivity)).2 q1, (div_le_iff₀ (by positivity)).2 q2⟩

/-- `1 ≤ |v| ≤ 4`: every power up to the 450th is in the property's range -/
theorem range_of_abs {v : ℚ} (h1 : 1 ≤ |v|) (h2 : |v| ≤ 4) (N : ℕ) (hN : N ≤ 450) :
    1 / 2 ^ 900 ≤ |v| ^ N ∧ |v| ^ N ≤ 2 ^ 900 := by
  constructor
  · have : (1 : ℚ) ≤ |v| ^ N := one_le_pow₀ h1
    have h3 : (1 : ℚ) / 2 ^ 900 ≤ 1 := by
      rw [div_le_one (by positivity)]; exact one_le_pow₀ (by norm_num)
    linarith
  · calc |v| ^ N ≤ 4 ^ N := pow_le_pow_left₀ (abs_nonneg v) h2 N
      _ = 2 ^ (2 * N) := by rw [pow_mul]; norm_num
      _ ≤ 2 ^ 900 := pow_le_pow_right₀ (by norm_num) (by omega)

theorem pi_range (N : ℕ) (hN : N ≤ 450) : 1 / 2 ^ 900 ≤ |val consts.PI| ^ N ∧ |val consts.PI| ^ N ≤ 2 ^ 900 := by
  have h := abs_val_bounds_of_int consts.PI 1 4 (by decide +kernel) (by decide +kernel)
  exact range_of_abs (by simpa using h.1) (by simpa using h.2) N hN

/-- π^7 (the actual error is about `1.6·2^-106`; the bound is `58·2^-106`) -/
example :
    (TwoFloat.powi consts.PI (7 : I32)).Valid ∧
    |val (TwoFloat.powi consts.PI (7 : I32)) - val consts.PI ^ 7| ≤ 58 / 2 ^ 106 * |val consts.PI ^ 7| := by
  have h := powi_bound_pos consts.PI (by decide +kernel) ⟨by decide +kernel, by decide +kernel⟩ (7 : I32)
    (by decide) (by decide) (pi_range 7 (by norm_num)).1 (pi_range 7 (by norm_num)).2
  have e : (7 : I32).v.natAbs = 7 := rfl
  rw [e] at h
  refine ⟨h.1, le_trans h.2.2 (le_of_eq ?_)⟩
  norm_num

/-- π^-100 (actual error about `52·2^-106`; bound `616·2^-106`) -/
example :
    |val (TwoFloat.powi consts.PI (-100 : I32)) - (val consts.PI ^ 100)⁻¹|
      ≤ 616 / 2 ^ 106 * |(val consts.PI ^ 100)⁻¹| := by
  have e : (-100 : I32).v.natAbs = 100 := rfl
  have h := powi_bound_neg consts.PI (by decide +kernel) ⟨by decide +kernel, by decide +kernel⟩ (-100 : I32)
    (by decide) (by decide) (by rw [e]; exact (pi_range 100 (by norm_num)).1)
    (by rw [e]; exact (pi_range 100 (by norm_num)).2)
  rw [e] at h
  refine le_trans h.2.2 (le_of_eq ?_)
  norm_num

/-- `-π` -/
def negPi : TwoFloat := ⟨F64.neg consts.PI.hi, F64.neg consts.PI.lo⟩

/-- signs of the powers of `-π`: `(-π)^3 < 0 < (-π)^-4` -/
example : (TwoFloat.powi negPi (3 : I32)).V < 0 ∧ 0 < (TwoFloat.powi negPi (-4 : I32)).V := by
  have hv : negPi.Valid := by decide +kernel
  have hw : negPi.WF := ⟨by decide +kernel, by decide +kernel⟩
  have hx : negPi.V < 0 := by decide +kernel
  have hb := abs_val_bounds_of_int negPi 1 4 (by decide +kernel) (by decide +kernel)
  have hr := range_of_abs (v := val negPi) (by simpa using hb.1) (by simpa using hb.2)
  have e3 : (3 : I32).v.natAbs = 3 := rfl
  have e4 : (-4 : I32).v.natAbs = 4 := rfl
  constructor
  · exact (powi_sign_of_neg negPi hv hw hx (3 : I32) (by decide) (by decide) (by decide)
      (by rw [e3]; exact (hr 3 (by norm_num)).1) (by rw [e3]; exact (hr 3 (by norm_num)).2)).2 (by decide)
  · exact (powi_sign_of_neg negPi hv hw hx (-4 : I32) (by decide) (by decide) (by decide)
      (by rw [e4]; exact (hr 4 (by norm_num)).1) (by rw [e4]; exact (hr 4 (by norm_num)).2)).1 (by decide)

end C13b
