/-
C16p — panic-freedom of sin, cos, sin_cos, tan (and of the argument reduction `quadrant`).

The only operations of this family that can panic in a debug build are
* the `i16` subtraction inside `no_overlap` (reached through `is_valid` and through the `TwoFloat`/`TwoFloat`
  comparison `|x| < π/4`), which is in range for all bit patterns (C07), and
* the `i8` addition `4 + quadrant` in `quadrant`, guarded by `-4 ≤ quadrant < 0`.
Hence the family is panic-free for ALL well-formed arguments (valid or not, finite or not).
-/
import TFV.Lemmas.PanicFree

namespace C16p
open F64 TwoFloat PF

/-- `4 + q` fits `i8` when `-4 ≤ q` and `¬ 0 ≤ q` -/
theorem four_add_inRange (q : I8) (h0 : (q >=. (0 : I8)) = false) (h4 : (q >=. (-4 : I8)) = true) :
    IntN.inRange ((4 : I8) +. q) = true := by
  obtain ⟨v⟩ := q
  have e0 : ((⟨v⟩ : I8) >=. (0 : I8)) = decide ((0 : Int) ≤ v) := by
    show (match (some (if v < 0 then ROrdering.Less else if v = 0 then .Equal else .Greater)) with
      | some .Greater => true | some .Equal => true | _ => false) = _
    by_cases h1 : v < 0
    · simp [h1]
    · by_cases h2 : v = 0
      · simp [h2]
      · simp [h1, h2]; omega
  have e4 : ((⟨v⟩ : I8) >=. (-4 : I8)) = decide ((-4 : Int) ≤ v) := by
    show (match (some (if v < -4 then ROrdering.Less else if v = -4 then .Equal else .Greater)) with
      | some .Greater => true | some .Equal => true | _ => false) = _
    by_cases h1 : v < -4
    · simp [h1]
    · by_cases h2 : v = -4
      · simp [h2]
      · simp [h1, h2]; omega
  rw [e0] at h0; rw [e4] at h4
  have h0' : ¬ (0 : Int) ≤ v := by simpa using h0
  have h4' : (-4 : Int) ≤ v := by simpa using h4
  show IntN.fits true 8 ((4 : Int) + v) = true
  unfold IntN.fits IntN.minV IntN.maxV
  simp only [if_true]
  have : ((2 ^ (8 - 1) : Nat) : Int) = 128 := by norm_num
  rw [this]
  simp only [Bool.and_eq_true, decide_eq_true_eq]
  omega

/-- the argument reduction is panic-free on every well-formed argument -/
theorem quadrant_pf (x : TwoFloat) (hw : x.WF) : trigonometry.quadrant.pf x = true := by
  unfold trigonometry.quadrant.pf
  rw [tcmp_pf (abs_WF hw) FRAC_PI_4_WF, Bool.true_and]
  split_ifs
  · rfl
  · dsimp only
    generalize convert.impl_TryFrom_TwoFloat_for_i8.try_from
      (arithmetic.impl_Rem_f64_for_TwoFloat.rem
        (TwoFloat.round (arithmetic.impl_Div_TwoFloat_for_TwoFloat.div x consts.FRAC_PI_2))
        (f64lit 0x4010000000000000)) = r
    cases r with
    | error e => rfl
    | ok q =>
      dsimp only
      cases h0 : (q >=. (0 : I8))
      · simp only [Bool.false_eq_true, if_false]
        cases h4 : (q >=. (-4 : I8))
        · simp
        · simp only [if_true]; exact four_add_inRange q h0 h4
      · simp

/-- **C16p.** `sin` never panics on a well-formed argument -/
theorem sin_pf (x : TwoFloat) (hw : x.WF) : TwoFloat.sin.pf x = true := by
  unfold TwoFloat.sin.pf
  rw [is_valid_pf hw, quadrant_pf x hw]; simp

theorem cos_pf (x : TwoFloat) (hw : x.WF) : TwoFloat.cos.pf x = true := sin_pf x hw
theorem sin_cos_pf (x : TwoFloat) (hw : x.WF) : TwoFloat.sin_cos.pf x = true := sin_pf x hw
theorem tan_pf (x : TwoFloat) (hw : x.WF) : TwoFloat.tan.pf x = true := sin_pf x hw

/-- the trait entry points (`num_traits::Float`) -/
theorem Float_sin_pf (x : TwoFloat) (hw : x.WF) : num_integration.impl_Float_for_TwoFloat.sin.pf x = true :=
  sin_pf x hw
theorem Float_cos_pf (x : TwoFloat) (hw : x.WF) : num_integration.impl_Float_for_TwoFloat.cos.pf x = true :=
  sin_pf x hw
theorem Float_tan_pf (x : TwoFloat) (hw : x.WF) : num_integration.impl_Float_for_TwoFloat.tan.pf x = true :=
  sin_pf x hw
theorem Float_sin_cos_pf (x : TwoFloat) (hw : x.WF) :
    num_integration.impl_Float_for_TwoFloat.sin_cos.pf x = true := sin_pf x hw

/-! closed instances -/

/-- quadrant −1 ↦ 3: the `4 + quadrant` branch, on −π/2 -/
example : TwoFloat.sin.pf (arithmetic.impl_Neg_for_TwoFloat.neg consts.FRAC_PI_2) = true
    ∧ (trigonometry.quadrant (arithmetic.impl_Neg_for_TwoFloat.neg consts.FRAC_PI_2)).2 = (3 : I8) := by
  decide +kernel

/-- a huge argument: the quotient does not fit `i8` before `% 4.0`, after it does -/
example : TwoFloat.tan.pf ⟨f64lit 0x7fefffffffffffff, f64lit 0x0000000000000000⟩ = true := by decide +kernel

example : TwoFloat.cos.pf TwoFloat.NAN = true ∧ TwoFloat.sin_cos.pf TwoFloat.NEG_INFINITY = true := by
  decide +kernel

end C16p
