/-
C16 (structural layer) — sin, cos, sin_cos, tan: `sin_cos` is bit-for-bit `(sin, cos)` for every argument, the
behaviour on invalid arguments, the quadrant dispatch, and closed instances evaluated by the kernel.
-/
import TFV.Spec.Defs
import TFV.Lemmas.Ident

namespace C16

/-! ### `sin_cos x = (sin x, cos x)` for EVERY x (valid or not): all three run the same `quadrant` reduction
and dispatch on its result -/

theorem sin_cos_eq (x : TwoFloat) : TwoFloat.sin_cos x = (TwoFloat.sin x, TwoFloat.cos x) := by
  unfold TwoFloat.sin_cos TwoFloat.sin TwoFloat.cos
  cases TwoFloat.is_valid x
  · rfl
  · generalize trigonometry.quadrant x = p
    obtain ⟨y, q⟩ := p
    dsimp only
    cases (q ==. (0 : I8)) <;> cases (q ==. (1 : I8)) <;> cases (q ==. (2 : I8)) <;> rfl

theorem sin_cos_fst (x : TwoFloat) : (TwoFloat.sin_cos x).1 = TwoFloat.sin x := by rw [sin_cos_eq]
theorem sin_cos_snd (x : TwoFloat) : (TwoFloat.sin_cos x).2 = TwoFloat.cos x := by rw [sin_cos_eq]

/-- the panic-freedom predicates of the four functions are the same term -/
theorem pf_all_equal :
    TwoFloat.sin_cos.pf = TwoFloat.sin.pf ∧ TwoFloat.cos.pf = TwoFloat.sin.pf ∧ TwoFloat.tan.pf = TwoFloat.sin.pf :=
  ⟨rfl, rfl, rfl⟩

/-- the trait entry point inherits the identity -/
theorem Float_sin_cos_eq (x : TwoFloat) :
    num_integration.impl_Float_for_TwoFloat.sin_cos x
      = (num_integration.impl_Float_for_TwoFloat.sin x, num_integration.impl_Float_for_TwoFloat.cos x) :=
  sin_cos_eq x

/-! ### invalid arguments -/

theorem sin_invalid (x : TwoFloat) (h : TwoFloat.is_valid x = false) : TwoFloat.sin x = TwoFloat.NAN := by
  unfold TwoFloat.sin; simp [h]

theorem cos_invalid (x : TwoFloat) (h : TwoFloat.is_valid x = false) : TwoFloat.cos x = TwoFloat.NAN := by
  unfold TwoFloat.cos; simp [h]

theorem sin_cos_invalid (x : TwoFloat) (h : TwoFloat.is_valid x = false) :
    TwoFloat.sin_cos x = (TwoFloat.NAN, TwoFloat.NAN) := by
  unfold TwoFloat.sin_cos; simp [h]

/-- `tan` returns an invalid argument unchanged -/
theorem tan_invalid (x : TwoFloat) (h : TwoFloat.is_valid x = false) : TwoFloat.tan x = x := by
  unfold TwoFloat.tan; simp [h]

theorem NAN_invalid : TwoFloat.is_valid TwoFloat.NAN = false := by decide +kernel

/-- hence: an invalid argument gives an invalid result, for all four -/
theorem invalid_in_invalid_out (x : TwoFloat) (h : TwoFloat.is_valid x = false) :
    TwoFloat.is_valid (TwoFloat.sin x) = false ∧ TwoFloat.is_valid (TwoFloat.cos x) = false
    ∧ TwoFloat.is_valid (TwoFloat.tan x) = false
    ∧ TwoFloat.is_valid (TwoFloat.sin_cos x).1 = false ∧ TwoFloat.is_valid (TwoFloat.sin_cos x).2 = false := by
  rw [sin_invalid x h, cos_invalid x h, tan_invalid x h, sin_cos_invalid x h]
  exact ⟨NAN_invalid, NAN_invalid, h, NAN_invalid, NAN_invalid⟩

/-! ### valid arguments: the quadrant dispatch -/

theorem sin_valid (x : TwoFloat) (h : TwoFloat.is_valid x = true) :
    TwoFloat.sin x =
      (let p := trigonometry.quadrant x
       if (p.2 ==. (0 : I8)) = true then trigonometry.restricted_sin p.1
       else if (p.2 ==. (1 : I8)) = true then trigonometry.restricted_cos p.1
       else if (p.2 ==. (2 : I8)) = true then arithmetic.impl_Neg_for_TwoFloat.neg (trigonometry.restricted_sin p.1)
       else arithmetic.impl_Neg_for_TwoFloat.neg (trigonometry.restricted_cos p.1)) := by
  unfold TwoFloat.sin; simp only [h]; rfl

theorem cos_valid (x : TwoFloat) (h : TwoFloat.is_valid x = true) :
    TwoFloat.cos x =
      (let p := trigonometry.quadrant x
       if (p.2 ==. (0 : I8)) = true then trigonometry.restricted_cos p.1
       else if (p.2 ==. (1 : I8)) = true then arithmetic.impl_Neg_for_TwoFloat.neg (trigonometry.restricted_sin p.1)
       else if (p.2 ==. (2 : I8)) = true then arithmetic.impl_Neg_for_TwoFloat.neg (trigonometry.restricted_cos p.1)
       else trigonometry.restricted_sin p.1) := by
  unfold TwoFloat.cos; simp only [h]; rfl

theorem tan_valid (x : TwoFloat) (h : TwoFloat.is_valid x = true) :
    TwoFloat.tan x =
      (let p := trigonometry.quadrant x
       if ((p.2 ==. (0 : I8)) || (p.2 ==. (2 : I8))) = true then trigonometry.restricted_tan p.1
       else (F64.neg (f64lit 0x3ff0000000000000)) /. trigonometry.restricted_tan p.1) := by
  unfold TwoFloat.tan; simp only [h]; rfl

/-- small arguments are not reduced: |x| < π/4 is quadrant 0 with x itself -/
theorem quadrant_small (x : TwoFloat)
    (h : ROrd.isLt (base.impl_PartialOrd_TwoFloat_for_TwoFloat.partial_cmp (TwoFloat.abs x) consts.FRAC_PI_4) = true) :
    trigonometry.quadrant x = (x, (0 : I8)) := by
  unfold trigonometry.quadrant; simp only [h, if_true]

theorem sin_small (x : TwoFloat) (hv : TwoFloat.is_valid x = true)
    (h : ROrd.isLt (base.impl_PartialOrd_TwoFloat_for_TwoFloat.partial_cmp (TwoFloat.abs x) consts.FRAC_PI_4) = true) :
    TwoFloat.sin x = trigonometry.restricted_sin x := by
  rw [sin_valid x hv, quadrant_small x h]; rfl

theorem cos_small (x : TwoFloat) (hv : TwoFloat.is_valid x = true)
    (h : ROrd.isLt (base.impl_PartialOrd_TwoFloat_for_TwoFloat.partial_cmp (TwoFloat.abs x) consts.FRAC_PI_4) = true) :
    TwoFloat.cos x = trigonometry.restricted_cos x := by
  rw [cos_valid x hv, quadrant_small x h]; rfl

theorem tan_small (x : TwoFloat) (hv : TwoFloat.is_valid x = true)
    (h : ROrd.isLt (base.impl_PartialOrd_TwoFloat_for_TwoFloat.partial_cmp (TwoFloat.abs x) consts.FRAC_PI_4) = true) :
    TwoFloat.tan x = trigonometry.restricted_tan x := by
  rw [tan_valid x hv, quadrant_small x h]; rfl

/-! ### closed instances -/

theorem sin_zero : TwoFloat.sin ⟨F64.zero, F64.zero⟩ = ⟨F64.zero, F64.zero⟩ := by decide +kernel
theorem cos_zero : TwoFloat.cos ⟨F64.zero, F64.zero⟩ = ⟨F64.one, F64.zero⟩ := by decide +kernel
theorem tan_zero : TwoFloat.tan ⟨F64.zero, F64.zero⟩ = ⟨F64.zero, F64.zero⟩ := by decide +kernel
theorem sin_cos_zero :
    TwoFloat.sin_cos ⟨F64.zero, F64.zero⟩ = (⟨F64.zero, F64.zero⟩, ⟨F64.one, F64.zero⟩) := by decide +kernel

theorem sin_NAN : TwoFloat.sin TwoFloat.NAN = TwoFloat.NAN := by decide +kernel
theorem cos_INFINITY : TwoFloat.cos TwoFloat.INFINITY = TwoFloat.NAN := by decide +kernel
theorem tan_INFINITY : TwoFloat.tan TwoFloat.INFINITY = TwoFloat.INFINITY := by decide +kernel

/-- sin(π/2) = 1 exactly (quadrant 1: argument reduction with the double-double π/2 leaves remainder 0) -/
theorem sin_frac_pi_2 : TwoFloat.sin consts.FRAC_PI_2 = ⟨F64.one, F64.zero⟩ := by decide +kernel

/-- cos(π) = −1 (quadrant 2) -/
theorem cos_pi : TwoFloat.cos consts.PI = ⟨F64.neg F64.one, F64.negZero⟩ := by decide +kernel

/-- the reduction and the dispatch agree on a large argument too: sin_cos(1000) = (sin 1000, cos 1000) is an
instance of `sin_cos_eq`; here evaluated end-to-end in the kernel with the panic-freedom predicate -/
example :
    TwoFloat.sin_cos ⟨f64lit 0x408f400000000000, F64.zero⟩
      = (TwoFloat.sin ⟨f64lit 0x408f400000000000, F64.zero⟩, TwoFloat.cos ⟨f64lit 0x408f400000000000, F64.zero⟩)
    ∧ TwoFloat.sin_cos.pf ⟨f64lit 0x408f400000000000, F64.zero⟩ = true
    ∧ (trigonometry.quadrant ⟨f64lit 0x408f400000000000, F64.zero⟩).2 = (1 : I8) := by
  decide +kernel

end C16
