/-
C15q — the "search-only" slivers of property C15 (`ln`, `log10`, `ln_1p`), closing gaps left by `C15l.lean`
(`ln_bound`: high word in `[2^-1000, 2^960 − 2^944]`; `log10_bound`: in addition `|ln v| ≥ 2^-99`) and `C15n.lean`.

Values are real numbers, `val t = hi + lo = t.V / 2^1074`, `fval f = f.toInt / 2^1074`.

PROVED
 A. `ln_bound_full` (`ln_bound_full_int`) — the `ln` floor `2^-101·(1 + |ln v|)` for EVERY valid `x` with high word in
    `[2^-1000, 2^960]` (the property's range; `C15l.ln_bound` stops at `2^960 − 2^944`).
 B. `log10_bound_full` (`…_int`, `…_logb`) — the `log10` floor `2^-100·(1 + |log₁₀ v|)` on the same full range and with NO
    condition on the distance of `x` from `1` (`C15l.log10_bound` needs `|ln v| ≥ 2^-99`); `log10_of_ln_any` derives it
    from any `ln` bound; `log10_of_ln_tiny` is the new case (computed `|ln x| < 2^-960`, zero and subnormal included).
 C. `ln_1p_tiny_exact` — `ln_1p(x)` has EXACTLY the value of `x` for `0 < |x| ≤ 2^-600`; `ln_1p_bound_tiny`,
    `ln_1p_bound_small` (the clause `|x| ≤ 2^-8` in full, relative `2^-100`), `ln_1p_bound_main` (the whole clause for
    `x ≠ 0`, `−1 < x`, `1 + x ≥ 2^-1000`, high word `≤ 2^960`, no lower limit on `|x|`).
    `ln_1p_bound_main` is superseded by `ln_1p_bound_all` (D).
 D. (after the repair of `ln` below `2^-1000`) `ln_bound_tiny` (`…_int`) — the `ln` floor for every valid POSITIVE `x` with high
    word below `2^-1000`, subnormals included (the rescaling branch `(x·2^200).ln() − 200·LN_2`); `ln_bound_all_positive` —
    every valid positive `x` with high word `≤ 2^960`; `ln_1p_bound_low_all` (the whole interval `−1 < x ≤ −0.5`) and
    `ln_1p_bound_all` — the FULL `ln_1p` clause: every valid `x ≠ 0`, `−1 < x`, high word `≤ 2^960`, no hypothesis on `1 + x`.
HISTORY
    `ln_1p_nan_near_minus_one`, `ln_1p_floor_fails_at_pole`, `ln_nan_of_tiny_positive` (kernel-checked counterexamples on the
    model before the repair: `ln` of a positive argument below `≈ 2^-1022.87` was `NAN`) are deleted — they are false on the
    repaired model; the same inputs appear as `example`s at the end of section D.
-/
import TFV.Lemmas.Slivers2
import TFV.Properties.C15l
import TFV.Properties.C15n
import TFV.Properties.CPF

set_option exponentiation.threshold 4000
set_option maxRecDepth 100000

namespace C15q

open F64 TwoFloat ConstBounds ExpBound Slivers Slivers2

/-- exact real value `hi + lo` of a pair -/
noncomputable abbrev val (t : TwoFloat) : ℝ := ExpBound.rv t

/-- exact real value of a double -/
noncomputable abbrev fval (f : F64) : ℝ := ExpBound.fv f

/-! ## B. `log10` next to `1` -/

theorem log_ten_ge : (23 : ℝ) / 10 ≤ Real.log 10 := by
  have h := log_ten_encl.1
  have hq : (23 / 10 : ℚ) ≤ ln10Lo := by decide +kernel
  have := (Rat.cast_le (K := ℝ)).2 hq
  push_cast at this
  linarith

/-- **`log10 = ln / LN_10` when the COMPUTED `ln(x)` is tiny** (`|ln(x)| < 2^-960`; zero and subnormal values
included): the quotient is a valid pair of magnitude at most `2^-921` (`Slivers.div_tiny`), the true `log₁₀ v` is at most
`2^-102`, and the absolute part `2^-100` of the floor covers both -/
theorem log10_of_ln_tiny {v : TwoFloat} (hT : VW (TwoFloat.ln v))
    (hb : |rv (TwoFloat.ln v) - Real.log (rv v)| ≤ 1 / 2 ^ 101 * (1 + |Real.log (rv v)|))
    (hT1 : |rv (TwoFloat.ln v)| < 1 / 2 ^ 960) :
    VW (TwoFloat.log10 v) ∧
    |rv (TwoFloat.log10 v) - Real.log (rv v) / Real.log 10|
      ≤ 1 / 2 ^ 100 * (1 + |Real.log (rv v) / Real.log 10|) := by
  show VW (arithmetic.impl_Div_rTwoFloat_for_rTwoFloat.div (TwoFloat.ln v) consts.LN_10) ∧
    |rv (arithmetic.impl_Div_rTwoFloat_for_rTwoFloat.div (TwoFloat.ln v) consts.LN_10)
        - Real.log (rv v) / Real.log 10| ≤ 1 / 2 ^ 100 * (1 + |Real.log (rv v) / Real.log 10|)
  generalize TwoFloat.ln v = T at *
  obtain ⟨cv, cw, cb1, cb2⟩ := LnBound.LN_10_facts
  have hU : (0 : ℝ) < 2 ^ 1074 := by positivity
  have hV : |T.V| ≤ (2 : ℤ) ^ 114 := by
    have h1 := hT1.le
    rw [rv_abs, div_le_iff₀ hU] at h1
    have e : (1 : ℝ) / 2 ^ 960 * 2 ^ 1074 = 2 ^ 114 := by
      rw [one_div, inv_mul_eq_div, div_eq_iff (by positivity), ← pow_add]
    rw [e] at h1
    exact_mod_cast h1
  have hA : |T.hi.toInt| ≤ 2 ^ 127 := by
    rw [hT.1.hi_toInt]
    have := abs_rnI_le_two_mul T.V
    have e : (2 : ℤ) ^ 127 = 2 ^ 13 * 2 ^ 114 := by norm_num
    omega
  have hBabs : |consts.LN_10.hi.toInt| = consts.LN_10.hi.toInt := abs_of_pos (lt_of_lt_of_le (by positivity) cb1)
  obtain ⟨qv, qb⟩ := div_tiny hT.1 hT.2 cv cw hA
    (by rw [hBabs]; exact le_trans (by norm_num) cb1) (by rw [hBabs]; exact le_trans cb2 (by norm_num))
  refine ⟨⟨qv, TwoFloat.div_tt_WF _ _⟩, ?_⟩
  generalize arithmetic.impl_Div_rTwoFloat_for_rTwoFloat.div T consts.LN_10 = Q at *
  have hQ : |rv Q| ≤ 1 / 2 ^ 921 := by
    rw [rv_abs, div_le_iff₀ hU]
    have : ((|Q.V| : ℤ) : ℝ) ≤ ((2 : ℤ) ^ 153 : ℝ) := by exact_mod_cast qb
    refine le_trans this ?_
    norm_num
  have hc := log_ten_ge
  have hc0 : (0 : ℝ) < Real.log 10 := by linarith
  set L := Real.log (rv v) with hL
  -- `|L| ≤ 2^-100`
  have hLs : |L| ≤ 1 / 2 ^ 100 := by
    have h1 := abs_sub_abs_le_abs_sub L (rv T)
    rw [abs_sub_comm L (rv T)] at h1
    have h2 : (1 : ℝ) / 2 ^ 101 * |L| ≤ 1 / 4 * |L| :=
      mul_le_mul_of_nonneg_right (by norm_num) (abs_nonneg _)
    have e : (1 : ℝ) / 2 ^ 960 ≤ 1 / 2 ^ 103 := by norm_num
    have e2 : 4 / 3 * ((1 : ℝ) / 2 ^ 103 + 1 / 2 ^ 101) ≤ 1 / 2 ^ 100 := by norm_num
    have e3 : (1 : ℝ) / 2 ^ 101 * (1 + |L|) = 1 / 2 ^ 101 + 1 / 2 ^ 101 * |L| := by ring
    rw [e3] at hb
    linarith
  have hLc : |L / Real.log 10| ≤ 1 / 2 ^ 101 := by
    rw [abs_div, abs_of_pos hc0, div_le_iff₀ hc0]
    have : (1 : ℝ) / 2 ^ 100 ≤ 1 / 2 ^ 101 * Real.log 10 := by
      have : (1 : ℝ) / 2 ^ 101 * (23 / 10) ≤ 1 / 2 ^ 101 * Real.log 10 :=
        mul_le_mul_of_nonneg_left hc (by positivity)
      have e : (1 : ℝ) / 2 ^ 100 ≤ 1 / 2 ^ 101 * (23 / 10) := by norm_num
      linarith
    linarith
  have t := abs_sub (rv Q) (L / Real.log 10)
  have hnn := abs_nonneg (L / Real.log 10)
  have e : (1 : ℝ) / 2 ^ 921 + 1 / 2 ^ 101 ≤ 1 / 2 ^ 100 := by norm_num
  have e2 : (1 : ℝ) / 2 ^ 100 * (1 + |L / Real.log 10|) = 1 / 2 ^ 100 + 1 / 2 ^ 100 * |L / Real.log 10| := by ring
  have e3 : (0 : ℝ) ≤ 1 / 2 ^ 100 * |L / Real.log 10| := by positivity
  linarith

/-- **accuracy of `log10`, given only the `ln` bound** (no condition on the distance of `v` from `1`):
`|log10(x) − log₁₀ v| ≤ 2^-100·(1 + |log₁₀ v|)` -/
theorem log10_of_ln_any {v : TwoFloat} (hT : VW (TwoFloat.ln v)) (hL : |Real.log (rv v)| ≤ 700)
    (hb : |rv (TwoFloat.ln v) - Real.log (rv v)| ≤ 1 / 2 ^ 101 * (1 + |Real.log (rv v)|)) :
    VW (TwoFloat.log10 v) ∧
    |rv (TwoFloat.log10 v) - Real.log (rv v) / Real.log 10|
      ≤ 1 / 2 ^ 100 * (1 + |Real.log (rv v) / Real.log 10|) := by
  by_cases h : 1 / 2 ^ 960 ≤ |rv (TwoFloat.ln v)|
  · exact LnBound.log10_of_ln' hT hL hb h
  · exact log10_of_ln_tiny hT hb (not_le.1 h)

/-- **Property C15, accuracy of `log10`, no restriction next to `1`**: for every valid `x` with high word in
`[2^-1000, 2^960 − 2^944]` (including `x` within `2^-99` of `1`, where `C15l.log10_bound` does not apply), `log10(x)` is a
valid pair with `|log10(x) − log₁₀ v| ≤ 2^-100·(1 + |log₁₀ v|)` -/
theorem log10_bound_near_one_incl (x : TwoFloat) (hv : x.Valid) (hw : x.WF)
    (hlo : 1 / 2 ^ 1000 ≤ fval x.hi) (hhi : fval x.hi ≤ 2 ^ 960 - 2 ^ 944) :
    (TwoFloat.log10 x).Valid ∧
    |val (TwoFloat.log10 x) - Real.log (val x) / Real.log 10|
      ≤ 1 / 2 ^ 100 * (1 + |Real.log (val x) / Real.log 10|) := by
  obtain ⟨h1, h2⟩ := LnBound.ln_bound x hv hw hlo hhi
  obtain ⟨a, b⟩ := log10_of_ln_any h1 (LnBound.log_abs_le x hv hlo hhi) h2
  exact ⟨a.1, b⟩

/-! ## A. `ln` up to the top of the range, high word in `(2^960 − 2^944, 2^960]` -/

/-- **Property C15, accuracy of `ln`, FULL range**: for every valid `x` with high word in `[2^-1000, 2^960]`, `ln(x)` is a
valid pair with `|ln(x) − ln v| ≤ 2^-101·(1 + |ln v|)`.

What stopped `C15l.ln_bound` at `2^960 − 2^944`: the Newton steps evaluate `exp(−x)` at `x` up to `2^-19` above `ln v`,
so `exp(−x)` can be slightly below `2^-960`, and the last operation of `exp`, a `TwoFloat * TwoFloat` product, then has a
leading term below the lower limit `2^-960` of the proved `7u²` bound (`mul_tt_bound_7u2_partial`).  The limit is moved
to `2^-961` in `Slivers2.lean` §5 (`LnWide`), which is enough for arguments up to `2^960·(1 + 2^-52)`. -/
theorem ln_bound_full (x : TwoFloat) (hv : x.Valid) (hw : x.WF)
    (hlo : 1 / 2 ^ 1000 ≤ fval x.hi) (hhi : fval x.hi ≤ 2 ^ 960) :
    (TwoFloat.ln x).Valid ∧
    |val (TwoFloat.ln x) - Real.log (val x)| ≤ 1 / 2 ^ 101 * (1 + |Real.log (val x)|) :=
  ⟨(LnWide.ln_bound_w x hv hw hlo hhi).1.1, (LnWide.ln_bound_w x hv hw hlo hhi).2⟩

theorem fval_le_960 {f : F64} (h : f.toInt ≤ 2 ^ 2034) : fval f ≤ 2 ^ 960 := by
  show (f.toInt : ℝ) / 2 ^ 1074 ≤ _
  rw [div_le_iff₀ (by positivity), ← pow_add]
  exact_mod_cast h

/-- the same with the range of the high word stated on the scaled integer (`2^-1000 = 2^74` units, `2^960 = 2^2034`
units) -/
theorem ln_bound_full_int (x : TwoFloat) (hv : x.Valid) (hw : x.WF)
    (hlo : 2 ^ 74 ≤ x.hi.toInt) (hhi : x.hi.toInt ≤ 2 ^ 2034) :
    (TwoFloat.ln x).Valid ∧
    |val (TwoFloat.ln x) - Real.log (val x)| ≤ 1 / 2 ^ 101 * (1 + |Real.log (val x)|) :=
  ln_bound_full x hv hw ((C15l.le_fval_iff (k := 1000) (by norm_num)).2 hlo) (fval_le_960 hhi)

/-- `ln` never panics on the full range (`C01m`/`CPF` prove it for every argument; restated here for the range) -/
theorem ln_WF_full (x : TwoFloat) (hv : x.Valid) (hw : x.WF)
    (hlo : 1 / 2 ^ 1000 ≤ fval x.hi) (hhi : fval x.hi ≤ 2 ^ 960) : (TwoFloat.ln x).WF :=
  (LnWide.ln_bound_w x hv hw hlo hhi).1.2

/-- **Property C15, accuracy of `log10`, FULL range and no restriction next to `1`**: for every valid `x` with high word
in `[2^-1000, 2^960]`, `log10(x)` is a valid pair with `|log10(x) − log₁₀ v| ≤ 2^-100·(1 + |log₁₀ v|)` -/
theorem log10_bound_full (x : TwoFloat) (hv : x.Valid) (hw : x.WF)
    (hlo : 1 / 2 ^ 1000 ≤ fval x.hi) (hhi : fval x.hi ≤ 2 ^ 960) :
    (TwoFloat.log10 x).Valid ∧
    |val (TwoFloat.log10 x) - Real.log (val x) / Real.log 10|
      ≤ 1 / 2 ^ 100 * (1 + |Real.log (val x) / Real.log 10|) := by
  obtain ⟨h1, h2⟩ := LnWide.ln_bound_w x hv hw hlo hhi
  obtain ⟨a, b⟩ := log10_of_ln_any h1 (LnWide.log_abs_le_w x hv hlo hhi) h2
  exact ⟨a.1, b⟩

theorem log10_bound_full_int (x : TwoFloat) (hv : x.Valid) (hw : x.WF)
    (hlo : 2 ^ 74 ≤ x.hi.toInt) (hhi : x.hi.toInt ≤ 2 ^ 2034) :
    (TwoFloat.log10 x).Valid ∧
    |val (TwoFloat.log10 x) - Real.log (val x) / Real.log 10|
      ≤ 1 / 2 ^ 100 * (1 + |Real.log (val x) / Real.log 10|) :=
  log10_bound_full x hv hw ((C15l.le_fval_iff (k := 1000) (by norm_num)).2 hlo) (fval_le_960 hhi)

/-- … in terms of Mathlib's `Real.logb 10` -/
theorem log10_bound_full_logb (x : TwoFloat) (hv : x.Valid) (hw : x.WF)
    (hlo : 1 / 2 ^ 1000 ≤ fval x.hi) (hhi : fval x.hi ≤ 2 ^ 960) :
    |val (TwoFloat.log10 x) - Real.logb 10 (val x)| ≤ 1 / 2 ^ 100 * (1 + |Real.logb 10 (val x)|) := by
  have h := (log10_bound_full x hv hw hlo hhi).2
  have e : Real.logb 10 (val x) = Real.log (val x) / Real.log 10 := by
    unfold Real.logb; rfl
  rw [e]; exact h

/-! ### the theorems at arguments inside the newly covered slivers -/

/-- `2^960` exactly, its predecessor `2^960 − 2^907`, and the largest pair of the range `(2^960, 2^906)` -/
def xTop : TwoFloat := ⟨F64.fin false (2 ^ 2034), F64.fin false 0⟩
def xTopPred : TwoFloat := ⟨F64.fin false (2 ^ 2034 - 2 ^ 1981), F64.fin false 0⟩
def xTopLo : TwoFloat := ⟨F64.fin false (2 ^ 2034), F64.fin false (2 ^ 1980)⟩

example : |val (TwoFloat.ln xTop) - Real.log (val xTop)| ≤ 1 / 2 ^ 101 * (1 + |Real.log (val xTop)|) :=
  (ln_bound_full_int xTop (by decide +kernel) ⟨by decide +kernel, by decide +kernel⟩ (by decide +kernel)
    (by decide +kernel)).2

example : |val (TwoFloat.ln xTopPred) - Real.log (val xTopPred)| ≤ 1 / 2 ^ 101 * (1 + |Real.log (val xTopPred)|) :=
  (ln_bound_full_int xTopPred (by decide +kernel) ⟨by decide +kernel, by decide +kernel⟩ (by decide +kernel)
    (by decide +kernel)).2

example : |val (TwoFloat.ln xTopLo) - Real.log (val xTopLo)| ≤ 1 / 2 ^ 101 * (1 + |Real.log (val xTopLo)|) :=
  (ln_bound_full_int xTopLo (by decide +kernel) ⟨by decide +kernel, by decide +kernel⟩ (by decide +kernel)
    (by decide +kernel)).2

/-- `1 + 2^-1074` (computed `ln` = `2^-1074`, `log10` = `0`), `1 + 2^-200`, `1 − 2^-150` -/
def xOne1 : TwoFloat := ⟨F64.fin false (2 ^ 1074), F64.fin false 1⟩
def xOne200 : TwoFloat := ⟨F64.fin false (2 ^ 1074), F64.fin false (2 ^ 874)⟩
def xOneM150 : TwoFloat := ⟨F64.fin false (2 ^ 1074), F64.fin true (2 ^ 924)⟩

example : |val (TwoFloat.log10 xOne1) - Real.log (val xOne1) / Real.log 10|
    ≤ 1 / 2 ^ 100 * (1 + |Real.log (val xOne1) / Real.log 10|) :=
  (log10_bound_full_int xOne1 (by decide +kernel) ⟨by decide +kernel, by decide +kernel⟩ (by decide +kernel)
    (by decide +kernel)).2

example : |val (TwoFloat.log10 xOne200) - Real.log (val xOne200) / Real.log 10|
    ≤ 1 / 2 ^ 100 * (1 + |Real.log (val xOne200) / Real.log 10|) :=
  (log10_bound_full_int xOne200 (by decide +kernel) ⟨by decide +kernel, by decide +kernel⟩ (by decide +kernel)
    (by decide +kernel)).2

example : |val (TwoFloat.log10 xOneM150) - Real.log (val xOneM150) / Real.log 10|
    ≤ 1 / 2 ^ 100 * (1 + |Real.log (val xOneM150) / Real.log 10|) :=
  (log10_bound_full_int xOneM150 (by decide +kernel) ⟨by decide +kernel, by decide +kernel⟩ (by decide +kernel)
    (by decide +kernel)).2

example : |val (TwoFloat.log10 xTop) - Real.log (val xTop) / Real.log 10|
    ≤ 1 / 2 ^ 100 * (1 + |Real.log (val xTop) / Real.log 10|) :=
  (log10_bound_full_int xTop (by decide +kernel) ⟨by decide +kernel, by decide +kernel⟩ (by decide +kernel)
    (by decide +kernel)).2

/-! ## C. `ln_1p` of a tiny argument (`0 < |x| ≤ 2^-600`, in particular `2^-1000 ≤ |x| < 2^-850`) -/

theorem sub_tt_byval (a b : TwoFloat) : arithmetic.impl_Sub_TwoFloat_for_TwoFloat.sub a b
    = arithmetic.impl_Sub_rTwoFloat_for_rTwoFloat.sub a b := rfl
theorem div_tt_byval (a b : TwoFloat) : arithmetic.impl_Div_TwoFloat_for_TwoFloat.div a b
    = arithmetic.impl_Div_rTwoFloat_for_rTwoFloat.div a b := rfl
theorem add_tf_byval (a : TwoFloat) (c : F64) : arithmetic.impl_Add_f64_for_TwoFloat.add a c
    = arithmetic.impl_Add_rf64_for_rTwoFloat.add a c := rfl

/-- a valid pair is determined by its value: the words of a valid pair of value `H + L` with `H = RN(H + L)` -/
theorem isV_of_valid_V {t : TwoFloat} (ht : t.Valid) {H L : ℤ} (hV : t.V = H + L) (hfix : H = rnI (H + L)) :
    t.IsV H L := by
  have h1 : t.hi.toInt = H := by rw [ht.hi_toInt, hV, ← hfix]
  have h2 : t.lo.toInt = L := by
    have : t.V = t.hi.toInt + t.lo.toInt := rfl
    omega
  exact ⟨⟨ht.1, h1⟩, ⟨ht.2.1, h2⟩⟩

/-- **`ln_1p(x)` has exactly the value of `x` for `0 < |x| ≤ 2^-600`** (valid pair, subnormal words included):
the seed `libm::log1p(hi)` is `hi`, `exp_m1` returns its argument (`PowfTight.exp_m1_tiny`), the first Newton correction
`((hi, 0) − x)/((hi, 0) + 1) = (−lo, 0)/(1, hi)` is computed as exactly `(−lo, 0)`, so that `x₁ = (hi, lo) = x`, and the
second correction is exactly zero. -/
theorem ln_1p_tiny_exact (x : TwoFloat) (hv : x.Valid) (hw : x.WF) (hne : val x ≠ 0) (ht : |val x| ≤ 1 / 2 ^ 600) :
    (TwoFloat.ln_1p x).Valid ∧ (TwoFloat.ln_1p x).WF ∧ val (TwoFloat.ln_1p x) = val x := by
  have hUe := C01d.unit_int_eq
  have hVne : x.V ≠ 0 := by
    intro h; apply hne
    show (x.V : ℝ) / 2 ^ 1074 = 0
    rw [h]; simp
  obtain ⟨c1, c2, c3⟩ := C15n.ln_1p_conds hv hne (by
    have := (abs_le.1 ht).1
    have e : (1 : ℝ) / 2 ^ 600 < 1 / 2 := by norm_num
    show -(1 / 2) < rv x
    have : -(1 / 2 ^ 600) ≤ rv x := this
    linarith)
  -- the words of x
  set H := x.hi.toInt with hH
  set L := x.lo.toInt with hL
  have hx : x.IsV H L := IsV.of_valid hv
  have hfix : H = rnI (H + L) := hv.rnI_eq
  have hHb : |H| ≤ 2 ^ 475 := by
    have := PowfTight.hi_le_of_rv hv (p := 600) (by norm_num) ht
    simpa using this
  have hLb : |L| ≤ 2 ^ 475 := le_trans hv.abs_lo_le hHb
  have hH0 : H ≠ 0 := fun h => hVne (hv.V_zero_iff.2 h)
  have hm : (2 : ℤ) ^ 1090 ≤ (maxFin : ℤ) := two_pow_le_maxFin' (k := 1090) (by norm_num)
  have p1 : (2 : ℤ) ^ 476 ≤ 2 ^ 1090 := by norm_num
  have hH55 : 2 ^ 55 * |H| ≤ (unit : ℤ) := by
    rw [hUe]
    calc (2 : ℤ) ^ 55 * |H| ≤ 2 ^ 55 * 2 ^ 475 := mul_le_mul_of_nonneg_left hHb (by positivity)
      _ ≤ 2 ^ 1074 := by norm_num
  have hcross : ∀ c : ℤ, |c| ≤ 2 ^ 475 → 2 * |H * c| < (unit : ℤ) := by
    intro c hc
    rw [hUe, abs_mul]
    calc 2 * (|H| * |c|) ≤ 2 * (2 ^ 475 * 2 ^ 475) :=
          mul_le_mul_of_nonneg_left (mul_le_mul hHb hc (abs_nonneg _) (by positivity)) (by norm_num)
      _ < 2 ^ 1074 := by norm_num
  -- the seed
  obtain ⟨sg, n, hxn⟩ := is_finite_iff.1 hv.1
  have hn : n < 2 ^ 1021 := by
    have e : H = (fin sg n).toInt := by rw [hH, hxn]
    have : ((n : ℕ) : ℤ) ≤ 2 ^ 475 := by
      have := natAbs_toInt_fin sg n
      rw [← e] at this
      rw [← this, Int.natCast_natAbs]; exact hHb
    have : n ≤ 2 ^ 475 := by exact_mod_cast this
    exact lt_of_le_of_lt this (by norm_num)
  have hwn : (fin sg n).WF := by rw [← hxn]; exact hw.1
  have hseed : Libm.log1p x.hi = x.hi := by rw [hxn]; exact log1p_tiny_id hwn hn
  rw [C15n.ln_1p_eq_steps x c1 c2 c3]
  dsimp only
  rw [hseed, from_eq]
  unfold Log1pBound.corr1p
  simp only [sub_tt_byval, div_tt_byval, add_tf_byval]
  -- x0 = (hi, +0)
  obtain ⟨z1, z2, z3⟩ := pair_zero_spec hv.1 hw.1
  have hx0 : (TwoFloat.mk x.hi (fin false 0)).IsV H 0 := ⟨⟨hv.1, rfl⟩, ⟨rfl, rfl⟩⟩
  have hrv0 : |rv (TwoFloat.mk x.hi (fin false 0))| ≤ 1 / 2 ^ 600 := by
    rw [rv_abs, z1, div_le_iff₀ (by positivity)]
    have hV474 : |x.V| ≤ 2 ^ 474 := by
      have h9 := ht
      rw [show val x = rv x from rfl, rv_abs, div_le_iff₀ (by positivity)] at h9
      have h' : ((|x.V| : ℤ) : ℝ) ≤ ((2 : ℤ) ^ 474 : ℝ) := by
        refine le_trans h9 ?_
        norm_num
      exact_mod_cast h'
    have : |H| ≤ 2 ^ 474 := by
      rw [hH, hv.hi_toInt]; exact Slivers.abs_rnI_le_pow hV474
    have h' : ((|x.hi.toInt| : ℤ) : ℝ) ≤ ((2 : ℤ) ^ 474 : ℝ) := by exact_mod_cast this
    refine le_trans h' ?_
    norm_num
  generalize hX0 : TwoFloat.mk x.hi (fin false 0) = X0 at *
  -- first step
  obtain ⟨e0V, e0v, e0w⟩ := PowfTight.exp_m1_tiny X0 z2 z3 (by rw [z1]; exact hH0) hrv0
  have hE0 : (TwoFloat.exp_m1 X0).IsV H 0 :=
    isV_of_valid_V e0v (by rw [e0V, z1, add_zero]) (by rw [add_zero, rnI_of_repI (hx.1.repI hw.1)])
  generalize TwoFloat.exp_m1 X0 = E0 at *
  have hN0 : (arithmetic.impl_Sub_rTwoFloat_for_rTwoFloat.sub E0 x).IsV (-L) 0 := by
    have := sub_tt_isV_hi_cancel hE0 hx e0w hw (by rw [zero_sub]; exact (hx.2.repI hw.2).neg)
      (by rw [zero_sub, abs_neg]; exact hx.2.abs_le hw.2)
    rwa [zero_sub] at this
  have hD0 : (arithmetic.impl_Add_rf64_for_rTwoFloat.add E0 (f64lit 0x3ff0000000000000)).IsV (unit : ℤ) H :=
    add_tf_one_tiny hE0 e0w (by rw [add_zero, rnI_of_repI (hx.1.repI hw.1)]) hH55
  have hQ0 : (arithmetic.impl_Div_rTwoFloat_for_rTwoFloat.div
      (arithmetic.impl_Sub_rTwoFloat_for_rTwoFloat.sub E0 x)
      (arithmetic.impl_Add_rf64_for_rTwoFloat.add E0 (f64lit 0x3ff0000000000000))).IsV (-L) 0 :=
    div_tt_one_plus hN0 (TwoFloat.sub_tt_WF _ _) hD0 (hcross (-L) (by rw [abs_neg]; exact hLb))
  have hX1 : (arithmetic.impl_Sub_rTwoFloat_for_rTwoFloat.sub X0
      (arithmetic.impl_Div_rTwoFloat_for_rTwoFloat.div
        (arithmetic.impl_Sub_rTwoFloat_for_rTwoFloat.sub E0 x)
        (arithmetic.impl_Add_rf64_for_rTwoFloat.add E0 (f64lit 0x3ff0000000000000)))).IsV H L :=
    sub_tt_rebuild hx0 hQ0 z3 (TwoFloat.div_tt_WF _ _) hfix (by omega) (by omega) (hx.2.repI hw.2)
  have x1w : (arithmetic.impl_Sub_rTwoFloat_for_rTwoFloat.sub X0
      (arithmetic.impl_Div_rTwoFloat_for_rTwoFloat.div
        (arithmetic.impl_Sub_rTwoFloat_for_rTwoFloat.sub E0 x)
        (arithmetic.impl_Add_rf64_for_rTwoFloat.add E0 (f64lit 0x3ff0000000000000)))).WF := TwoFloat.sub_tt_WF _ _
  generalize arithmetic.impl_Sub_rTwoFloat_for_rTwoFloat.sub X0
      (arithmetic.impl_Div_rTwoFloat_for_rTwoFloat.div
        (arithmetic.impl_Sub_rTwoFloat_for_rTwoFloat.sub E0 x)
        (arithmetic.impl_Add_rf64_for_rTwoFloat.add E0 (f64lit 0x3ff0000000000000))) = X1 at *
  -- second step
  have x1v : X1.Valid := hX1.valid x1w hfix
  have x1V : X1.V = x.V := by rw [hX1.V_eq]; rfl
  have hrv1 : |rv X1| ≤ 1 / 2 ^ 600 := by
    have : rv X1 = rv x := by unfold rv; rw [x1V]
    rw [this]; exact ht
  obtain ⟨e1V, e1v, e1w⟩ := PowfTight.exp_m1_tiny X1 x1v x1w (by rw [x1V]; exact hVne) hrv1
  have hE1 : (TwoFloat.exp_m1 X1).IsV H L := isV_of_valid_V e1v (by rw [e1V, hX1.V_eq]) hfix
  generalize TwoFloat.exp_m1 X1 = E1 at *
  have hN1 : (arithmetic.impl_Sub_rTwoFloat_for_rTwoFloat.sub E1 x).IsV 0 0 := by
    have := sub_tt_isV_hi_cancel hE1 hx e1w hw (by rw [sub_self]; exact repI_zero)
      (by rw [sub_self]; exact abs_zero_le_maxFin)
    rwa [sub_self] at this
  have hD1 : (arithmetic.impl_Add_rf64_for_rTwoFloat.add E1 (f64lit 0x3ff0000000000000)).IsV (unit : ℤ) H :=
    add_tf_one_tiny hE1 e1w hfix hH55
  have hQ1 := div_tt_zero_isV hN1 hD1 unit_pos_int.ne'
  have hc : NormPair (H - 0) (L - 0) := by
    rw [sub_zero, sub_zero]
    exact ⟨hx.1.repI hw.1, hx.1.abs_le hw.1, hx.2.repI hw.2, hx.2.abs_le hw.2, hfix⟩
  have hR := sub_tt_isV_fixed hX1 hQ1 x1w (TwoFloat.div_tt_WF _ _) hc
  rw [sub_zero, sub_zero] at hR
  have rw' := TwoFloat.sub_tt_WF X1 (arithmetic.impl_Div_rTwoFloat_for_rTwoFloat.div
    (arithmetic.impl_Sub_rTwoFloat_for_rTwoFloat.sub E1 x)
    (arithmetic.impl_Add_rf64_for_rTwoFloat.add E1 (f64lit 0x3ff0000000000000)))
  refine ⟨hR.valid rw' hfix, rw', ?_⟩
  show rv _ = rv x
  unfold rv
  rw [hR.V_eq]
  rfl

/-- **Property C15, `ln_1p` for tiny arguments** (`0 < |x| ≤ 2^-600`, no lower limit — in particular the sliver
`2^-1000 ≤ |x| < 2^-850` missing in `C15n.ln_1p_bound_small_partial`): the result has the value of `x`, which is within
relative `2^-100` (indeed `2^-598`) of `ln(1 + v)` -/
theorem ln_1p_bound_tiny (x : TwoFloat) (hv : x.Valid) (hw : x.WF) (hne : val x ≠ 0) (ht : |val x| ≤ 1 / 2 ^ 600) :
    (TwoFloat.ln_1p x).Valid ∧
    |val (TwoFloat.ln_1p x) - Real.log (1 + val x)| ≤ |Real.log (1 + val x)| / 2 ^ 100 := by
  obtain ⟨a, -, e⟩ := ln_1p_tiny_exact x hv hw hne ht
  refine ⟨a, ?_⟩
  rw [e]
  set v := val x with hvdef
  have hlin := Log1pBound.log1p_lin (X := v) (le_trans ht (by norm_num))
  have hva := abs_nonneg v
  have hsq : v ^ 2 = |v| * |v| := by rw [← sq_abs]; ring
  have h600 : |v| * |v| ≤ 1 / 2 ^ 600 * |v| := mul_le_mul_of_nonneg_right ht hva
  -- |log(1+v)| ≥ |v|/2
  have hlow : |v| / 2 ≤ |Real.log (1 + v)| := by
    have t1 : |v| ≤ |Real.log (1 + v)| + |Real.log (1 + v) - v| := by
      have := abs_add_le (Real.log (1 + v)) (-(Real.log (1 + v) - v))
      rw [abs_neg, show Real.log (1 + v) + -(Real.log (1 + v) - v) = v by ring] at this
      exact this
    have e1 : (2 : ℝ) * (1 / 2 ^ 600 * |v|) ≤ |v| / 2 := by
      have : (2 : ℝ) * (1 / 2 ^ 600) ≤ 1 / 2 := by norm_num
      nlinarith
    rw [hsq] at hlin
    linarith
  rw [abs_sub_comm]
  refine le_trans hlin ?_
  rw [hsq]
  have e2 : (2 : ℝ) * (1 / 2 ^ 600 * |v|) ≤ |v| / 2 / 2 ^ 100 := by
    have : (2 : ℝ) * (1 / 2 ^ 600) ≤ 1 / 2 / 2 ^ 100 := by norm_num
    have e3 : |v| / 2 / 2 ^ 100 = (1 / 2 / 2 ^ 100) * |v| := by ring
    rw [e3]; nlinarith
  have e4 : |v| / 2 / 2 ^ 100 ≤ |Real.log (1 + v)| / 2 ^ 100 :=
    div_le_div_of_nonneg_right hlow (by positivity)
  linarith

/-- **Property C15, `ln_1p` for `|x| ≤ 2^-8`, IN FULL** (`x ≠ 0`; `x = 0` is exact, `C15.ln_1p_zero`): valid result within
relative `2^-100` of `ln(1 + v)` (`C15n.ln_1p_bound_small_partial` for `|x| ≥ 2^-850`, `ln_1p_bound_tiny` below) -/
theorem ln_1p_bound_small (x : TwoFloat) (hv : x.Valid) (hw : x.WF) (hne : val x ≠ 0) (hhi : |val x| ≤ 1 / 2 ^ 8) :
    (TwoFloat.ln_1p x).Valid ∧
    |val (TwoFloat.ln_1p x) - Real.log (1 + val x)| ≤ |Real.log (1 + val x)| / 2 ^ 100 := by
  by_cases h : 1 / 2 ^ 850 ≤ |val x|
  · exact C15n.ln_1p_bound_small_partial x hv hw h hhi
  · exact ln_1p_bound_tiny x hv hw hne (le_trans (not_le.1 h).le (by norm_num))

/-- **Property C15, accuracy and panic-freedom of `ln_1p`** for every valid `x ≠ 0` with `−1 < x`, high word at most
`2^960` and `1 + x ≥ 2^-1000` — NO lower limit on `|x|` any more (`C15n.ln_1p_bound_partial` needed `|x| ≥ 2^-850`):
valid result, no panic, relative `2^-100` when `|x| ≤ 2^-8` or `x ≥ 0.75`, relative `2^-45` in every case.
The hypothesis `1 + x ≥ 2^-1000` is removed in `ln_1p_bound_all` below (it could not be dropped before the repair of `ln`
for arguments below `2^-1000`). -/
theorem ln_1p_bound_main (x : TwoFloat) (hv : x.Valid) (hw : x.WF)
    (h1 : -1 < val x) (h1' : 1 / 2 ^ 1000 ≤ 1 + val x) (h2 : fval x.hi ≤ 2 ^ 960) (h0 : val x ≠ 0) :
    (TwoFloat.ln_1p x).Valid ∧ TwoFloat.ln_1p.pf x = true ∧
    ((|val x| ≤ 1 / 2 ^ 8 ∨ 3 / 4 ≤ val x) →
      |val (TwoFloat.ln_1p x) - Real.log (1 + val x)| ≤ |Real.log (1 + val x)| / 2 ^ 100) ∧
    |val (TwoFloat.ln_1p x) - Real.log (1 + val x)| ≤ |Real.log (1 + val x)| / 2 ^ 45 := by
  by_cases h : 1 / 2 ^ 850 ≤ |val x|
  · exact C15n.ln_1p_bound_partial x hv hw h1 h1' h2 h
  · have ht : |val x| ≤ 1 / 2 ^ 600 := le_trans (not_le.1 h).le (by norm_num)
    obtain ⟨a, b⟩ := ln_1p_bound_tiny x hv hw h0 ht
    exact ⟨a, CPF.ln_1p_pf_all x ⟨Or.inl hv, hw⟩, fun _ => b,
      C15n.rel_weaken (abs_nonneg _) (by norm_num) b⟩

/-- `2^-900`, `−2^-1000 − 2^-1060` and a subnormal pair, inside the newly covered sliver -/
def xTiny900 : TwoFloat := ⟨F64.fin false (2 ^ 174), F64.fin false 0⟩
def xTinyNeg : TwoFloat := ⟨F64.fin true (2 ^ 74), F64.fin true (2 ^ 14)⟩
def xTinySub : TwoFloat := ⟨F64.fin false (2 ^ 60 + 2 ^ 8), F64.fin true 3⟩

theorem val_of_V {t : TwoFloat} {m : ℤ} (h : t.V = m) : val t = (m : ℝ) / 2 ^ 1074 := by
  show (t.V : ℝ) / 2 ^ 1074 = _
  rw [h]

theorem val_ne_zero_of_V {t : TwoFloat} (h : t.V ≠ 0) : val t ≠ 0 := by
  show (t.V : ℝ) / 2 ^ 1074 ≠ 0
  exact div_ne_zero (by exact_mod_cast h) (by positivity)

theorem abs_val_le_600 {t : TwoFloat} (h : |t.V| ≤ 2 ^ 474) : |val t| ≤ 1 / 2 ^ 600 := by
  show |rv t| ≤ _
  rw [rv_abs, div_le_iff₀ (by positivity)]
  have : ((|t.V| : ℤ) : ℝ) ≤ ((2 : ℤ) ^ 474 : ℝ) := by exact_mod_cast h
  refine le_trans this ?_
  norm_num

example : |val (TwoFloat.ln_1p xTiny900) - Real.log (1 + val xTiny900)| ≤ |Real.log (1 + val xTiny900)| / 2 ^ 100 :=
  (ln_1p_bound_tiny xTiny900 (by decide +kernel) ⟨by decide +kernel, by decide +kernel⟩
    (val_ne_zero_of_V (by decide +kernel)) (abs_val_le_600 (by decide +kernel))).2

example : |val (TwoFloat.ln_1p xTinyNeg) - Real.log (1 + val xTinyNeg)| ≤ |Real.log (1 + val xTinyNeg)| / 2 ^ 100 :=
  (ln_1p_bound_tiny xTinyNeg (by decide +kernel) ⟨by decide +kernel, by decide +kernel⟩
    (val_ne_zero_of_V (by decide +kernel)) (abs_val_le_600 (by decide +kernel))).2

example : |val (TwoFloat.ln_1p xTinySub) - Real.log (1 + val xTinySub)| ≤ |Real.log (1 + val xTinySub)| / 2 ^ 100 :=
  (ln_1p_bound_tiny xTinySub (by decide +kernel) ⟨by decide +kernel, by decide +kernel⟩
    (val_ne_zero_of_V (by decide +kernel)) (abs_val_le_600 (by decide +kernel))).2

/-- the exact result, from the theorem: `ln_1p(2^-900)` has the value `2^-900` -/
example : val (TwoFloat.ln_1p xTiny900) = val xTiny900 :=
  (ln_1p_tiny_exact xTiny900 (by decide +kernel) ⟨by decide +kernel, by decide +kernel⟩
    (val_ne_zero_of_V (by decide +kernel)) (abs_val_le_600 (by decide +kernel))).2.2

/-! ## D. `ln` of positive arguments below `2^-1000`, and `ln_1p` next to the pole `−1`

Before the repair of the crate (`ln` without the branch `self.hi < 2^-1000 ↦ (self * 2^200).ln() − 200.0 * LN_2`) the Newton
steps evaluated `exp(−x₀)` with `−x₀ ≥ 709` for arguments below `e^-709 ≈ 1.09·2^-1023`: `exp` returned `(+∞, 0)`, the product
`s·(+∞, 0)` was `(NaN, NaN)`, and `ln` of a positive argument below `≈ 2^-1022.87` (all subnormal doubles) was `NAN`; so was
`ln_1p(x)` for `0 < 1 + x ≤ e^-709` (a valid pair can have `1 + x = 2^-1074`: `hi = −1`, `lo = 2^-1074`).  This was proved here
on the old model (`ln_1p_nan_near_minus_one`, `ln_1p_floor_fails_at_pole`, `ln_nan_of_tiny_positive`), confirmed on the crate
and repaired upstream.  On the repaired model the clause holds for EVERY positive argument:

* `x·2^200` is exact (`LnScale.scaled_spec`) and has high word in `[2^-874, 2^-800)`, so the recursion has depth one
  (`LnScale.ln_tiny_eq_of_valid`) and the inner call satisfies `ln_bound_full`;
* `200.0 * LN_2` is within `70u²` of `200·ln 2` (`shift_bound`: evaluation of the product and `C12x.LN_2_rel_err`);
* the final `TwoFloat − TwoFloat` has relative error `3u² + 13u³` on a result of magnitude at most `746`;
* the allowed error grows by `2^-101·200·ln 2 ≈ 4436u²` when passing from `ln(v·2^200)` to `ln v`, against `≈ 3700u²` spent. -/

theorem shift_facts : LnCore.shift.Valid ∧ LnCore.shift.WF ∧
    |LnCore.shift.V - 200 * consts.LN_2.V| * 2 ^ 108 ≤ 200 * consts.LN_2.V := by decide +kernel

/-- the correction `200.0 * LN_2` is within `700u²` of `200·ln 2` (indeed within `≈ 70u²`) -/
theorem shift_bound : VW LnCore.shift ∧ |rv LnCore.shift - 200 * Real.log 2| ≤ 700 / 2 ^ 106 := by
  obtain ⟨sv, sw, sb⟩ := shift_facts
  refine ⟨⟨sv, sw⟩, ?_⟩
  have hr := C12x.LN_2_rel_err
  have l1 := Real.log_two_lt_d9
  have l2 := Real.log_two_gt_d9
  have hU : (0 : ℝ) < 2 ^ 1074 := by positivity
  rw [abs_of_pos (by linarith : (0 : ℝ) < Real.log 2)] at hr
  set c : ℝ := (consts.LN_2.V : ℝ) / 2 ^ 1074 with hc
  have hb : |(LnCore.shift.V : ℝ) - 200 * (consts.LN_2.V : ℝ)| * 2 ^ 108 ≤ 200 * (consts.LN_2.V : ℝ) := by
    exact_mod_cast sb
  have e1 : rv LnCore.shift - 200 * c = ((LnCore.shift.V : ℝ) - 200 * (consts.LN_2.V : ℝ)) / 2 ^ 1074 := by
    unfold rv; rw [hc]; field_simp
  have h1 : |rv LnCore.shift - 200 * c| * 2 ^ 108 ≤ 200 * c := by
    rw [e1, abs_div, abs_of_pos hU, hc, div_mul_eq_mul_div, ← mul_div_assoc]
    exact div_le_div_of_nonneg_right hb hU.le
  obtain ⟨r1, r2⟩ := abs_le.1 hr
  have hc1 : c ≤ 7 / 10 := by
    have : Real.log 2 / 2 ^ 107 ≤ 1 / 1000 := by
      rw [div_le_iff₀ (by positivity)]; norm_num; linarith
    linarith
  have h2 : |rv LnCore.shift - 200 * c| ≤ 140 / 2 ^ 108 := by
    rw [le_div_iff₀ (by positivity)]; linarith
  have h3 : |200 * c - 200 * Real.log 2| ≤ 200 * (Real.log 2 / 2 ^ 107) := by
    rw [← mul_sub, abs_mul, abs_of_pos (by norm_num : (0 : ℝ) < 200), abs_sub_comm]
    exact mul_le_mul_of_nonneg_left hr (by norm_num)
  have h4 : 200 * (Real.log 2 / 2 ^ 107) ≤ 140 / 2 ^ 107 := by
    rw [← mul_div_assoc]; exact div_le_div_of_nonneg_right (by linarith) (by positivity)
  have t := abs_sub_le (rv LnCore.shift) (200 * c) (200 * Real.log 2)
  have e : (140 : ℝ) / 2 ^ 108 + 140 / 2 ^ 107 ≤ 700 / 2 ^ 106 := by norm_num
  linarith

/-- the real-number core of the rescaling branch: `T ≈ ln(v·2^200)` (the `ln` bound), `S ≈ 200·ln 2`, `R ≈ T − S`
(`TwoFloat − TwoFloat`, `3u² + 13u³ ≤ 4u²`) -/
theorem tiny_real {Lx T S R l2 : ℝ} (hl2lo : 6931471803 / 10 ^ 10 ≤ l2) (hl2hi : l2 ≤ 6931471808 / 10 ^ 10)
    (hLy0 : Lx + 200 * l2 ≤ 0) (hLy1 : -606 ≤ Lx + 200 * l2)
    (hT : |T - (Lx + 200 * l2)| ≤ 1 / 2 ^ 101 * (1 + |Lx + 200 * l2|))
    (hS : |S - 200 * l2| ≤ 700 / 2 ^ 106)
    (hR : |R - (T - S)| ≤ 4 / 2 ^ 106 * |T - S|) :
    |R - Lx| ≤ 1 / 2 ^ 101 * (1 + |Lx|) := by
  have hLx : Lx ≤ 0 := by linarith
  rw [abs_of_nonpos hLy0] at hT
  rw [abs_of_nonpos hLx]
  obtain ⟨t1, t2⟩ := abs_le.1 hT
  obtain ⟨s1, s2⟩ := abs_le.1 hS
  have e607 : (1 : ℝ) / 2 ^ 101 * (1 + -(Lx + 200 * l2)) ≤ 1 / 2 ^ 101 * 607 :=
    mul_le_mul_of_nonneg_left (by linarith) (by positivity)
  have k1 : (1 : ℝ) / 2 ^ 101 * 607 ≤ 1 / 10 := by norm_num
  have k2 : (700 : ℝ) / 2 ^ 106 ≤ 1 / 10 := by norm_num
  have hTS : |T - S| ≤ 746 := by
    rw [abs_le]; constructor <;> linarith
  have hR' : |R - (T - S)| ≤ 4 / 2 ^ 106 * 746 :=
    le_trans hR (mul_le_mul_of_nonneg_left hTS (by positivity))
  obtain ⟨r1, r2⟩ := abs_le.1 hR'
  have e : (1 : ℝ) / 2 ^ 101 * (1 + -Lx) = 1 / 2 ^ 101 * (1 + -(Lx + 200 * l2)) + 1 / 2 ^ 101 * (200 * l2) := by ring
  have e2 : (4 : ℝ) / 2 ^ 106 * 746 + 700 / 2 ^ 106 ≤ 1 / 2 ^ 101 * (200 * (6931471803 / 10 ^ 10)) := by norm_num
  have e3 : (1 : ℝ) / 2 ^ 101 * (200 * (6931471803 / 10 ^ 10)) ≤ 1 / 2 ^ 101 * (200 * l2) :=
    mul_le_mul_of_nonneg_left (by linarith) (by positivity)
  rw [e, abs_le]
  constructor <;> linarith

theorem cA_le : cA ≤ 4 / 2 ^ 106 := by
  unfold cA
  rw [div_le_div_iff₀ (by positivity) (by positivity)]
  norm_num

/-- `ln` on the full range, with well-formedness, high word stated on the scaled integer -/
theorem ln_bound_w_int (x : TwoFloat) (hv : x.Valid) (hw : x.WF)
    (hlo : 2 ^ 74 ≤ x.hi.toInt) (hhi : x.hi.toInt ≤ 2 ^ 2034) :
    VW (TwoFloat.ln x) ∧
    |rv (TwoFloat.ln x) - Real.log (rv x)| ≤ 1 / 2 ^ 101 * (1 + |Real.log (rv x)|) :=
  LnWide.ln_bound_w x hv hw ((C15l.le_fval_iff (k := 1000) (by norm_num)).2 hlo) (fval_le_960 hhi)

/-- `x ≤ 0.0` is false for a valid pair of positive value -/
theorem not_le_zero_of_pos {x : TwoFloat} (hv : x.Valid) (h : 0 < x.V) :
    ROrd.isLe (base.impl_PartialOrd_f64_for_TwoFloat.partial_cmp x (f64lit 0x0000000000000000)) = false := by
  rw [Bool.eq_false_iff]
  intro hc
  rw [F64.f64lit_zero] at hc
  have := (C06.le_f64_exact hv (WF_zero false) rfl).1 hc
  have e : (F64.fin false 0).toInt = 0 := rfl
  rw [e] at this
  omega

/-- **Property C15, accuracy of `ln` below `2^-1000`** (the rescaling branch, scaled-integer hypotheses): for every valid
`x` of positive value with high word below `2^-1000` — all subnormal arguments included — `ln(x)` is a valid pair with
`|ln(x) − ln v| ≤ 2^-101·(1 + |ln v|)` -/
theorem ln_bound_tiny_int (x : TwoFloat) (hv : x.Valid) (hw : x.WF) (hpos : 0 < x.V) (hhi : x.hi.toInt < 2 ^ 74) :
    VW (TwoFloat.ln x) ∧
    |rv (TwoFloat.ln x) - Real.log (rv x)| ≤ 1 / 2 ^ 101 * (1 + |Real.log (rv x)|) := by
  have h2 := not_le_zero_of_pos hv hpos
  have hhipos : 0 < x.hi.toInt := (hv.hi_pos_iff F64.roundFacts).2 hpos
  have h3 := LnScale.tiny_of_hi_lt hv.1 hhi
  obtain ⟨-, e, -, -⟩ := LnScale.ln_tiny_eq_of_valid hv hw h2 h3
  obtain ⟨p1, -, p3, p4, p5⟩ := LnScale.scaled_spec hv hw (by rw [abs_of_pos hhipos]; exact hhi)
  rw [e]
  -- the inner call
  have hP : (0 : ℤ) < 2 ^ 200 := by positivity
  obtain ⟨hT, hTb⟩ := ln_bound_w_int (LnCore.scaled x) p4 p5
    (by rw [p1]
        have : (2 : ℤ) ^ 74 ≤ 2 ^ 200 := pow_le_pow_right₀ (by norm_num) (by norm_num)
        nlinarith)
    (by rw [p1]
        have e : (2 : ℤ) ^ 2034 = 2 ^ 200 * 2 ^ 1834 := by rw [← pow_add]
        have : (2 : ℤ) ^ 74 ≤ 2 ^ 1834 := pow_le_pow_right₀ (by norm_num) (by norm_num)
        rw [e]
        exact mul_le_mul_of_nonneg_left (by omega) hP.le)
  -- the value of the rescaled argument
  have hU : (0 : ℝ) < 2 ^ 1074 := by positivity
  have hxpos : 0 < rv x := PowfBound.rv_pos_iff.2 hpos
  have hy : rv (LnCore.scaled x) = 2 ^ 200 * rv x := by
    unfold rv; rw [p3]; push_cast; ring
  have hLy : Real.log (rv (LnCore.scaled x)) = Real.log (rv x) + 200 * Real.log 2 := by
    rw [hy, Real.log_mul (by positivity) hxpos.ne', Real.log_pow]; push_cast; ring
  rw [hLy] at hTb
  have l1 := Real.log_two_lt_d9
  have l2 := Real.log_two_gt_d9
  -- the range of `ln v`: `2^-1074 ≤ v ≤ 2^-999`
  have hxlo : 1 / 2 ^ 1074 ≤ rv x := by
    unfold rv
    rw [div_le_div_iff_of_pos_right hU]
    exact_mod_cast hpos
  have hxhi : rv x ≤ 1 / 2 ^ 999 := by
    have hV : x.V ≤ 2 ^ 75 := by
      obtain ⟨-, b2⟩ := PowiBound.hi_bounds hv
      rw [abs_of_pos hpos, abs_of_pos hhipos] at b2
      have e : (2 : ℤ) ^ 75 = 2 * 2 ^ 74 := by norm_num
      rw [e]
      generalize (2 : ℤ) ^ 74 = K at *
      norm_num at b2 ⊢
      omega
    unfold rv
    rw [div_le_div_iff₀ hU (by positivity), one_mul]
    have e : (2 : ℝ) ^ 1074 = 2 ^ 75 * 2 ^ 999 := by rw [← pow_add]
    rw [e]
    apply mul_le_mul_of_nonneg_right _ (by positivity)
    exact_mod_cast hV
  have hL1 : -(1074 * Real.log 2) ≤ Real.log (rv x) := by
    have := Real.log_le_log (by positivity) hxlo
    rw [one_div, Real.log_inv, Real.log_pow] at this
    push_cast at this
    exact this
  have hL2 : Real.log (rv x) ≤ -(999 * Real.log 2) := by
    have := Real.log_le_log hxpos hxhi
    rw [one_div, Real.log_inv, Real.log_pow] at this
    push_cast at this
    exact this
  have hLy0 : Real.log (rv x) + 200 * Real.log 2 ≤ 0 := by nlinarith
  have hLy1 : -606 ≤ Real.log (rv x) + 200 * Real.log 2 := by nlinarith
  -- the subtraction
  obtain ⟨hS, hSb⟩ := shift_bound
  have hTabs : |rv (TwoFloat.ln (LnCore.scaled x))| ≤ 607 := by
    rw [abs_of_nonpos hLy0] at hTb
    obtain ⟨t1, t2⟩ := abs_le.1 hTb
    have e607 : (1 : ℝ) / 2 ^ 101 * (1 + -(Real.log (rv x) + 200 * Real.log 2)) ≤ 1 / 2 ^ 101 * 607 :=
      mul_le_mul_of_nonneg_left (by linarith) (by positivity)
    have k1 : (1 : ℝ) / 2 ^ 101 * 607 ≤ 1 / 10 := by norm_num
    rw [abs_le]; constructor <;> linarith
  have hSabs : |rv LnCore.shift| ≤ 139 := by
    obtain ⟨s1, s2⟩ := abs_le.1 hSb
    have k2 : (700 : ℝ) / 2 ^ 106 ≤ 1 / 10 := by norm_num
    rw [abs_le]; constructor <;> linarith
  obtain ⟨hR, hRb⟩ := Exp2Bound.sub_rv hT hS (le_trans hTabs (by norm_num)) (le_trans hSabs (by norm_num))
  refine ⟨hR, ?_⟩
  exact tiny_real (by linarith) (by linarith) hLy0 hLy1 hTb hSb
    (le_trans hRb (mul_le_mul_of_nonneg_right cA_le (abs_nonneg _)))

/-- `fval f < 2^-1000` on the scaled integer -/
theorem fval_lt_iff {f : F64} : fval f < 1 / 2 ^ 1000 ↔ f.toInt < 2 ^ 74 := by
  rw [← not_le, C15l.le_fval_iff (k := 1000) (by norm_num), not_le]

/-- **Property C15, accuracy of `ln` below `2^-1000`**: for every valid `x` of positive value with high word below
`2^-1000` (subnormal arguments included: the range in which `ln` returned `NAN` before the repair), `ln(x)` is a valid
pair with `|ln(x) − ln v| ≤ 2^-101·(1 + |ln v|)` -/
theorem ln_bound_tiny (x : TwoFloat) (hv : x.Valid) (hw : x.WF) (hpos : 0 < val x) (hhi : fval x.hi < 1 / 2 ^ 1000) :
    (TwoFloat.ln x).Valid ∧
    |val (TwoFloat.ln x) - Real.log (val x)| ≤ 1 / 2 ^ 101 * (1 + |Real.log (val x)|) :=
  ⟨(ln_bound_tiny_int x hv hw (PowfBound.rv_pos_iff.1 hpos) (fval_lt_iff.1 hhi)).1.1,
   (ln_bound_tiny_int x hv hw (PowfBound.rv_pos_iff.1 hpos) (fval_lt_iff.1 hhi)).2⟩

/-- `ln` of every valid positive argument with high word at most `2^960`, scaled-integer hypotheses, with
well-formedness of the result -/
theorem ln_bound_all_positive_int (x : TwoFloat) (hv : x.Valid) (hw : x.WF) (hpos : 0 < x.V)
    (hhi : x.hi.toInt ≤ 2 ^ 2034) :
    VW (TwoFloat.ln x) ∧
    |rv (TwoFloat.ln x) - Real.log (rv x)| ≤ 1 / 2 ^ 101 * (1 + |Real.log (rv x)|) := by
  rcases lt_or_ge x.hi.toInt (2 ^ 74) with h | h
  · exact ln_bound_tiny_int x hv hw hpos h
  · exact ln_bound_w_int x hv hw h hhi

/-- **Property C15, accuracy of `ln`, EVERY positive argument**: for every valid `x` of positive value with high word at
most `2^960` — no lower limit — `ln(x)` is a valid pair with `|ln(x) − ln v| ≤ 2^-101·(1 + |ln v|)` -/
theorem ln_bound_all_positive (x : TwoFloat) (hv : x.Valid) (hw : x.WF) (hpos : 0 < val x) (hhi : fval x.hi ≤ 2 ^ 960) :
    (TwoFloat.ln x).Valid ∧
    |val (TwoFloat.ln x) - Real.log (val x)| ≤ 1 / 2 ^ 101 * (1 + |Real.log (val x)|) := by
  rcases lt_or_ge (fval x.hi) (1 / 2 ^ 1000) with h | h
  · exact ln_bound_tiny x hv hw hpos h
  · exact ln_bound_full x hv hw h hhi

/-- **Property C15, `ln_1p` for `−1 < x ≤ −0.5`, the WHOLE interval** (`1 + x` down to `2^-1074`): `1.0 + x` is computed
exactly (`C15n.one_plus_exact`), so `ln_1p(x) = ln(1 + v)` inherits `ln_bound_all_positive`: valid result, no panic,
`|ln_1p(x) − ln(1+v)| ≤ 2^-101·(1 + |ln(1+v)|)`, hence relative `2^-45` -/
theorem ln_1p_bound_low_all (x : TwoFloat) (hv : x.Valid) (hw : x.WF)
    (h1 : -1 < val x) (h2 : val x ≤ -(1 / 2)) :
    (TwoFloat.ln_1p x).Valid ∧ TwoFloat.ln_1p.pf x = true ∧
    |val (TwoFloat.ln_1p x) - Real.log (1 + val x)| ≤ 1 / 2 ^ 101 * (1 + |Real.log (1 + val x)|) ∧
    |val (TwoFloat.ln_1p x) - Real.log (1 + val x)| ≤ |Real.log (1 + val x)| / 2 ^ 45 := by
  have hU : (0 : ℝ) < 2 ^ 1074 := by positivity
  have c1 := C15n.eq_zero_false hv (by linarith : val x ≠ 0)
  have c2 : ROrd.isLe (base.impl_PartialOrd_f64_for_TwoFloat.partial_cmp x (F64.neg (f64lit 0x3ff0000000000000))) = false := by
    rw [Bool.eq_false_iff, Ne, C15n.le_neg_one_iff hv]; intro h; linarith
  have c3 := (C15n.le_neg_half_iff hv).2 h2
  have hV1 : -(2 ^ 1074 : ℤ) < x.V := by
    have : (-(2 ^ 1074 : ℤ) : ℝ) < (x.V : ℝ) := by
      have h : -1 < rv x := h1
      unfold rv at h
      rw [lt_div_iff₀ hU] at h
      push_cast; linarith
    exact_mod_cast this
  have hV2 : x.V ≤ -(2 ^ 1073 : ℤ) := by
    have : (x.V : ℝ) ≤ (-(2 ^ 1073 : ℤ) : ℝ) := by
      have h : rv x ≤ -(1 / 2) := h2
      unfold rv at h
      rw [div_le_iff₀ hU, show (2 : ℝ) ^ 1074 = 2 * 2 ^ 1073 by rw [← pow_succ']] at h
      push_cast; linarith
    exact_mod_cast this
  have hh1 : -(2 ^ 1074 : ℤ) ≤ x.hi.toInt := by
    rw [hv.hi_toInt]
    have := rnI_mono (show -(2 ^ 1074 : ℤ) ≤ x.V by omega)
    rwa [rnI_of_repI (PF.repI_two_pow 1074).neg] at this
  have hh2 : x.hi.toInt ≤ -(2 ^ 1073 : ℤ) := by
    rw [hv.hi_toInt]
    have := rnI_mono hV2
    rwa [rnI_of_repI (PF.repI_two_pow 1073).neg] at this
  obtain ⟨sV, sv, sw⟩ := C15n.one_plus_exact hv hw hh1 hh2
  have hrw := C15n.ln_1p_eq_ln_one_plus x hv h1 h2
  have hpf : TwoFloat.ln_1p.pf x = true := by
    unfold TwoFloat.ln_1p.pf
    simp only [c1, c2, c3, if_true, Bool.false_eq_true, if_false]
    exact C15p.ln_pf_valid _ sv sw
  rw [hrw]
  generalize arithmetic.impl_Add_TwoFloat_for_f64.add (f64lit 0x3ff0000000000000) x = s at *
  have hsval : val s = 1 + val x := by
    show rv s = 1 + rv x
    unfold rv
    rw [sV, Int.cast_add, Int.cast_pow, Int.cast_ofNat, add_div, div_self hU.ne']
  have hspos : 0 < s.V := by rw [sV]; linarith
  have hshi2 : s.hi.toInt ≤ 2 ^ 1073 := by
    rw [sv.hi_toInt]
    have : s.V ≤ 2 ^ 1073 := by
      rw [sV, show (2 : ℤ) ^ 1074 = 2 * 2 ^ 1073 by rw [← pow_succ']]; linarith
    have := rnI_mono this
    rwa [rnI_of_repI (PF.repI_two_pow 1073)] at this
  obtain ⟨lv, lb⟩ := ln_bound_all_positive_int s sv sw hspos
    (le_trans hshi2 (pow_le_pow_right₀ (by norm_num) (by norm_num)))
  have lb' : |val (TwoFloat.ln s) - Real.log (1 + val x)| ≤ 1 / 2 ^ 101 * (1 + |Real.log (1 + val x)|) := by
    rw [← hsval]; exact lb
  refine ⟨lv.1, hpf, lb', le_trans lb' ?_⟩
  have hL : Real.log 2 ≤ |Real.log (1 + val x)| := by
    have hpos : 0 < 1 + val x := by linarith
    have : Real.log (1 + val x) ≤ Real.log (1 / 2) := Real.log_le_log hpos (by linarith)
    rw [one_div, Real.log_inv] at this
    have l1 := Real.log_two_gt_d9
    rw [abs_of_neg (by linarith)]; linarith
  have l1 := Real.log_two_gt_d9
  have hY := abs_nonneg (Real.log (1 + val x))
  have e : |Real.log (1 + val x)| / 2 ^ 45 = 1 / 2 ^ 101 * (2 ^ 56 * |Real.log (1 + val x)|) := by
    rw [show (101 : ℕ) = 45 + 56 from rfl, pow_add]; field_simp
  rw [e]
  apply mul_le_mul_of_nonneg_left _ (by positivity)
  nlinarith

/-- **Property C15, accuracy and panic-freedom of `ln_1p`, EVERY argument of the domain**: for every valid `x ≠ 0` with
`−1 < x` and high word at most `2^960` — no hypothesis `1 + x ≥ 2^-1000` any more (`1 + x` can be as small as `2^-1074`) —
`ln_1p(x)` is a valid pair, the call does not panic, the result is within relative `2^-100` of `ln(1 + v)` when
`|x| ≤ 2^-8` or `x ≥ 0.75`, and within `2^-45` in every case (`x = 0` is exact: `C15.ln_1p_zero`) -/
theorem ln_1p_bound_all (x : TwoFloat) (hv : x.Valid) (hw : x.WF)
    (h1 : -1 < val x) (h2 : fval x.hi ≤ 2 ^ 960) (h0 : val x ≠ 0) :
    (TwoFloat.ln_1p x).Valid ∧ TwoFloat.ln_1p.pf x = true ∧
    ((|val x| ≤ 1 / 2 ^ 8 ∨ 3 / 4 ≤ val x) →
      |val (TwoFloat.ln_1p x) - Real.log (1 + val x)| ≤ |Real.log (1 + val x)| / 2 ^ 100) ∧
    |val (TwoFloat.ln_1p x) - Real.log (1 + val x)| ≤ |Real.log (1 + val x)| / 2 ^ 45 := by
  rcases le_or_gt (1 / 2 ^ 1000) (1 + val x) with h | h
  · exact ln_1p_bound_main x hv hw h1 h h2 h0
  · have e : (1 : ℝ) / 2 ^ 1000 ≤ 1 / 4 := by norm_num
    have hm : val x ≤ -(1 / 2) := by linarith
    obtain ⟨a, b, -, d⟩ := ln_1p_bound_low_all x hv hw h1 hm
    refine ⟨a, b, ?_, d⟩
    rintro (h8 | h34)
    · exfalso
      have := (abs_le.1 h8).1
      have e8 : (1 : ℝ) / 2 ^ 8 ≤ 1 / 4 := by norm_num
      linarith
    · exfalso; linarith


/-! ### the former counterexamples

`−1 + 2^-1074` and `−1 + 2^-1023` (`ln_1p` returned `NAN`), the smallest positive double `2^-1074` and `2^-1023` (`ln` returned
`NAN`).  The statements follow from the theorems (the kernel evaluation of one of these calls — three `exp` near `−606` — takes
about `50 s` and is not included; `#eval` gives `ln_1p(−1 + 2^-1074) = (0xc0874385446d71c3, 0xbd28e569fa8ee780) ≈ −744.44`). -/

def xPole1 : TwoFloat := ⟨F64.fin true (2 ^ 1074), F64.fin false 1⟩
def xPole51 : TwoFloat := ⟨F64.fin true (2 ^ 1074), F64.fin false (2 ^ 51)⟩
def xMin : TwoFloat := ⟨F64.fin false 1, F64.fin false 0⟩
def xMin51 : TwoFloat := ⟨F64.fin false (2 ^ 51), F64.fin false 0⟩

theorem neg_one_lt_val {t : TwoFloat} (h : -(2 ^ 1074 : ℤ) < t.V) : -1 < val t := by
  show -1 < (t.V : ℝ) / 2 ^ 1074
  rw [lt_div_iff₀ (by positivity)]
  have : ((-(2 ^ 1074 : ℤ) : ℤ) : ℝ) < (t.V : ℝ) := by exact_mod_cast h
  push_cast at this
  linarith

theorem xPole_facts :
    (xPole1.Valid ∧ xPole1.WF ∧ xPole1.V = -(2 ^ 1074) + 1) ∧
    (xPole51.Valid ∧ xPole51.WF ∧ xPole51.V = -(2 ^ 1074) + 2 ^ 51) := by decide +kernel

/-- `−1 < x` and `1 + x = 2^-1074`, the smallest possible distance from the pole -/
theorem xPole1_val : -1 < val xPole1 ∧ 1 + val xPole1 = 1 / 2 ^ 1074 := by
  obtain ⟨⟨_, _, hV⟩, _⟩ := xPole_facts
  have e : val xPole1 = -1 + 1 / 2 ^ 1074 := by
    rw [val_of_V hV]
    simp only [Int.cast_add, Int.cast_neg, Int.cast_pow, Int.cast_ofNat, Int.cast_one]
    rw [add_div, neg_div, div_self (by positivity)]
  refine ⟨by rw [e]; have : (0 : ℝ) < 1 / 2 ^ 1074 := by positivity
             linarith, by rw [e]; ring⟩

/-- at the former counterexample `x = −1 + 2^-1074` the repaired `ln_1p` returns a valid pair (in particular not `NAN`),
does not panic, and is within `2^-101·(1 + |ln(1+x)|)` of `ln(1 + x) = −1074·ln 2` -/
example : (TwoFloat.ln_1p xPole1).Valid ∧ TwoFloat.ln_1p.pf xPole1 = true ∧
    |val (TwoFloat.ln_1p xPole1) - Real.log (1 / 2 ^ 1074)| ≤ 1 / 2 ^ 101 * (1 + |Real.log (1 / 2 ^ 1074)|) := by
  obtain ⟨⟨hv, hw, hV⟩, _⟩ := xPole_facts
  have hle : val xPole1 ≤ -(1 / 2) := by
    have := xPole1_val.2
    have e : (1 : ℝ) / 2 ^ 1074 ≤ 1 / 2 := by
      apply one_div_le_one_div_of_le (by norm_num)
      exact le_self_pow₀ (by norm_num) (by norm_num)
    linarith
  obtain ⟨a, b, c, -⟩ := ln_1p_bound_low_all xPole1 hv hw xPole1_val.1 hle
  rw [xPole1_val.2] at c
  exact ⟨a, b, c⟩

example : (TwoFloat.ln_1p xPole51).Valid ∧ TwoFloat.ln_1p.pf xPole51 = true ∧
    |val (TwoFloat.ln_1p xPole51) - Real.log (1 + val xPole51)| ≤ |Real.log (1 + val xPole51)| / 2 ^ 45 := by
  obtain ⟨_, ⟨hv, hw, hV⟩⟩ := xPole_facts
  obtain ⟨a, b, -, d⟩ := ln_1p_bound_all xPole51 hv hw (neg_one_lt_val (by rw [hV]; norm_num))
    (fval_le_960 (by decide +kernel)) (val_ne_zero_of_V (by rw [hV]; norm_num))
  exact ⟨a, b, d⟩

/-- `ln` of the smallest positive double and of `2^-1023`: valid (not `NAN`) and within the floor -/
example : (TwoFloat.ln xMin).Valid ∧
    |val (TwoFloat.ln xMin) - Real.log (val xMin)| ≤ 1 / 2 ^ 101 * (1 + |Real.log (val xMin)|) :=
  ⟨(ln_bound_tiny_int xMin (by decide +kernel) ⟨by decide +kernel, by decide +kernel⟩ (by decide +kernel)
    (by decide +kernel)).1.1,
   (ln_bound_tiny_int xMin (by decide +kernel) ⟨by decide +kernel, by decide +kernel⟩ (by decide +kernel)
    (by decide +kernel)).2⟩

example : (TwoFloat.ln xMin51).Valid ∧
    |val (TwoFloat.ln xMin51) - Real.log (val xMin51)| ≤ 1 / 2 ^ 101 * (1 + |Real.log (val xMin51)|) :=
  ⟨(ln_bound_tiny_int xMin51 (by decide +kernel) ⟨by decide +kernel, by decide +kernel⟩ (by decide +kernel)
    (by decide +kernel)).1.1,
   (ln_bound_tiny_int xMin51 (by decide +kernel) ⟨by decide +kernel, by decide +kernel⟩ (by decide +kernel)
    (by decide +kernel)).2⟩

end C15q
