/-
Property C19, exactness part — "When a and b are integers below 2^53 in magnitude all three (a % b, div_euclid,
rem_euclid) are exact" and "div_euclid returns exactly the integer floor(a/b) for b > 0 and ceil(a/b) for b < 0 as a
valid TwoFloat".

Operands: `a = (A, ±0)`, `b = (B, ±0)` with `A`, `B` finite doubles of integer value `m`, `n`
(`toInt A = m·2^1074`, `toInt B = n·2^1074`), `|m|, |n| < 2^53`, `n ≠ 0`.  In the vocabulary of `Lemmas.ArithExact`
this is `a.IsV (m * unit) 0`, `b.IsV (n * unit) 0` (`IsInt` below spells it out).

Main results (proofs in `TFV.Lemmas.RemExact`):
* `rem_exact_small_int`      : `(a % b).V = (Int.tmod m n)·2^1074` — the truncated remainder (sign of the dividend) —
                               and the result is the valid pair `(tmod m n, 0)`;
* `div_euclid_exact_small_int` : `(div_euclid a b).V = (m / n)·2^1074` with `ℤ`'s Euclidean quotient, a valid pair;
  `ediv_eq_floor`, `ediv_eq_ceil` : `m / n = ⌊m/n⌋` for `n > 0` and `⌈m/n⌉` for `n < 0` (rationals);
  `div_euclid_floor`, `div_euclid_ceil` : the property's wording;
* `rem_euclid_exact_small_int` : `(rem_euclid a b).V = (m % n)·2^1074 = (m − (m / n)·n)·2^1074`, `0 ≤ m % n < |n|`;
* `euclid_identity`          : `div_euclid(a,b)·b + rem_euclid(a,b) = a` exactly;
* `trunc_div_exact_small_int`: the quotient `trunc(a / b)` used by `%` is exactly `tdiv m n`;
* `rem_tolerance`, `rem_tolerance_c19` : the tolerance clause for general valid operands (`|a/b| ≤ 2^90`):
  `|(a % b) − (a − K·b)| ≤ 11·2^-106·max(|a|,|b|)` with `K = trunc(a/b)`, or `K = trunc(a/b) ± 1` when `a/b` is within
  relative `2^-102` of an integer.
-/
import TFV.Lemmas.RemExact
import Mathlib.Data.Rat.Floor

set_option exponentiation.threshold 3000

namespace C19x

open F64 TwoFloat

/-- `t` is the integer `m` stored in the high word with a zero low word -/
def IsInt (t : TwoFloat) (m : ℤ) : Prop :=
  (t.hi.is_finite = true ∧ t.hi.toInt = m * (unit : ℤ)) ∧ (t.lo.is_finite = true ∧ t.lo.toInt = 0)

theorem isInt_iff (t : TwoFloat) (m : ℤ) : IsInt t m ↔ t.IsV (m * (unit : ℤ)) 0 := Iff.rfl

/-- `TwoFloat::from(f)` of an integer-valued double -/
theorem isInt_from {f : F64} {m : ℤ} (hf : f.is_finite = true) (h : f.toInt = m * (unit : ℤ)) :
    IsInt (convert.impl_From_f64_for_TwoFloat.from f) m :=
  ⟨⟨hf, h⟩, ⟨rfl, rfl⟩⟩

/-- an integer below `2^53` is a valid, well-formed pair -/
theorem IsInt.valid {t : TwoFloat} {m : ℤ} (h : IsInt t m) (hm : |m| < 2 ^ 53) : t.Valid ∧ t.WF :=
  ⟨IsV.int_valid h hm.le, IsV.int_WF h hm.le⟩

/-! ## `%` -/

/-- the quotient `trunc(a / b)` computed inside `%` is the truncated integer quotient, exactly -/
theorem trunc_div_exact_small_int {a b : TwoFloat} {m n : ℤ} (ha : IsInt a m) (hb : IsInt b n)
    (hm : |m| < 2 ^ 53) (hn : |n| < 2 ^ 53) (hn0 : n ≠ 0) :
    IsInt (TwoFloat.trunc (a /. b)) (m.tdiv n) :=
  trunc_div_int_isV ha hb hm hn hn0

/-- **C19: `a % b` is exact for integers below `2^53`**: the truncated remainder `Int.tmod m n` (sign of the
dividend, `|r| < |n|`), returned as the valid pair `(r, 0)` -/
theorem rem_exact_small_int {a b : TwoFloat} {m n : ℤ} (ha : IsInt a m) (hb : IsInt b n)
    (hm : |m| < 2 ^ 53) (hn : |n| < 2 ^ 53) (hn0 : n ≠ 0) :
    (arithmetic.impl_Rem_rTwoFloat_for_rTwoFloat.rem a b).V = m.tmod n * (unit : ℤ) ∧
    IsInt (arithmetic.impl_Rem_rTwoFloat_for_rTwoFloat.rem a b) (m.tmod n) ∧
    (arithmetic.impl_Rem_rTwoFloat_for_rTwoFloat.rem a b).Valid ∧
    (arithmetic.impl_Rem_rTwoFloat_for_rTwoFloat.rem a b).WF := by
  have h := rem_int_isV ha hb hm hn hn0
  obtain ⟨-, f2, -, -⟩ := tdiv_tmod_facts m hn0
  have hr : |m.tmod n| ≤ 2 ^ 53 := by omega
  exact ⟨by rw [h.V_eq, add_zero], h, h.int_valid hr, h.int_WF hr⟩

/-- the same for the operator notation and for `%=` (all spellings are one function, `C19.rem_tt_val_val` …) -/
theorem rem_notation_exact_small_int {a b : TwoFloat} {m n : ℤ} (ha : IsInt a m) (hb : IsInt b n)
    (hm : |m| < 2 ^ 53) (hn : |n| < 2 ^ 53) (hn0 : n ≠ 0) :
    (a %. b).V = m.tmod n * (unit : ℤ) ∧ (a %. b).Valid ∧
    (arithmetic.impl_RemAssign_TwoFloat_for_TwoFloat.rem_assign a b).V = m.tmod n * (unit : ℤ) ∧
    (arithmetic.impl_RemAssign_rTwoFloat_for_TwoFloat.rem_assign a b).V = m.tmod n * (unit : ℤ) := by
  have h := rem_exact_small_int ha hb hm hn hn0
  exact ⟨h.1, h.2.2.1, h.1, h.1⟩

/-- the remainder satisfies `a = trunc(a/b)·b + (a % b)` exactly, `|a % b| < |b|`, sign of `a` -/
theorem rem_spec_small_int {a b : TwoFloat} {m n : ℤ} (ha : IsInt a m) (hb : IsInt b n)
    (hm : |m| < 2 ^ 53) (hn : |n| < 2 ^ 53) (hn0 : n ≠ 0) :
    (TwoFloat.trunc (a /. b)).V * b.V + (a %. b).V * (unit : ℤ) = a.V * (unit : ℤ) ∧
    |(a %. b).V| < |b.V| ∧ 0 ≤ (a %. b).V * a.V := by
  have hUi := unit_pos_int
  have h := (rem_exact_small_int ha hb hm hn hn0).1
  have ht : (TwoFloat.trunc (a /. b)).V = m.tdiv n * (unit : ℤ) := by
    rw [IsV.V_eq (trunc_div_exact_small_int ha hb hm hn hn0), add_zero]
  have hA : a.V = m * (unit : ℤ) := by rw [IsV.V_eq ha, add_zero]
  have hB : b.V = n * (unit : ℤ) := by rw [IsV.V_eq hb, add_zero]
  obtain ⟨f1, f2, f3, -⟩ := tdiv_tmod_facts m hn0
  have h' : (a %. b).V = m.tmod n * (unit : ℤ) := h
  rw [h', ht, hA, hB]
  refine ⟨?_, ?_, ?_⟩
  · have : m * (unit : ℤ) * (unit : ℤ) = (m.tdiv n * n + m.tmod n) * (unit : ℤ) * (unit : ℤ) := by rw [← f1]
    rw [this]; ring
  · rw [abs_mul_pos_right _ hUi, abs_mul_pos_right _ hUi]
    exact mul_lt_mul_of_pos_right f2 hUi
  · have : m.tmod n * (unit : ℤ) * (m * (unit : ℤ)) = (m.tmod n * m) * ((unit : ℤ) * (unit : ℤ)) := by ring
    rw [this]
    exact mul_nonneg f3 (mul_nonneg hUi.le hUi.le)

/-! ## `div_euclid` -/

/-- **C19: `div_euclid` is exact for integers below `2^53`**: the Euclidean quotient `m / n` of `ℤ`, a valid pair -/
theorem div_euclid_exact_small_int {a b : TwoFloat} {m n : ℤ} (ha : IsInt a m) (hb : IsInt b n)
    (hm : |m| < 2 ^ 53) (hn : |n| < 2 ^ 53) (hn0 : n ≠ 0) :
    (TwoFloat.div_euclid a b).V = m / n * (unit : ℤ) ∧ IsInt (TwoFloat.div_euclid a b) (m / n) ∧
    (TwoFloat.div_euclid a b).Valid ∧ (TwoFloat.div_euclid a b).WF := by
  have h := div_euclid_int_isV ha hb hm hn hn0
  have hq : |m / n| ≤ 2 ^ 53 := by
    obtain ⟨c1, c2, c3⟩ := ediv_emod_of_tdiv m hn0
    have hk : |m.tdiv n| ≤ |m| := by
      rw [Int.abs_eq_natAbs, Int.abs_eq_natAbs]; exact_mod_cast Int.natAbs_tdiv_le_natAbs m n
    rcases lt_or_ge (m.tmod n) 0 with hr | hr
    · rcases lt_or_gt_of_ne hn0 with h' | h'
      · rw [(c3 hr h').1]
        have := abs_add_le (m.tdiv n) 1
        rw [abs_one] at this; omega
      · rw [(c2 hr h').1]
        have := abs_sub_le_add (m.tdiv n) 1
        rw [abs_one] at this; omega
    · rw [(c1 hr).1]; omega
  exact ⟨by rw [h.V_eq, add_zero], h, h.int_valid hq, h.int_WF hq⟩

/-- `ℤ`'s Euclidean quotient is the floor of the rational quotient for a positive divisor … -/
theorem ediv_eq_floor (m : ℤ) {n : ℤ} (hn : 0 < n) : m / n = ⌊(m : ℚ) / (n : ℚ)⌋ := by
  rw [Int.floor_div_cast_of_nonneg hn.le, Int.floor_intCast]

/-- … and the ceiling for a negative divisor -/
theorem ediv_eq_ceil (m : ℤ) {n : ℤ} (hn : n < 0) : m / n = ⌈(m : ℚ) / (n : ℚ)⌉ := by
  have h1 : (m : ℚ) / (n : ℚ) = -((m : ℚ) / ((-n : ℤ) : ℚ)) := by
    push_cast; rw [div_neg, _root_.neg_neg]
  have h2 : m / n = -(m / (-n)) := by rw [Int.ediv_neg, _root_.neg_neg]
  rw [h1, Int.ceil_neg, h2, ediv_eq_floor m (by omega : 0 < -n)]

/-- **C19: `div_euclid` returns exactly the integer `floor(a/b)` for `b > 0` …** -/
theorem div_euclid_floor {a b : TwoFloat} {m n : ℤ} (ha : IsInt a m) (hb : IsInt b n)
    (hm : |m| < 2 ^ 53) (hn : |n| < 2 ^ 53) (hpos : 0 < n) :
    (TwoFloat.div_euclid a b).V = ⌊(m : ℚ) / (n : ℚ)⌋ * (unit : ℤ) ∧ (TwoFloat.div_euclid a b).Valid := by
  have h := div_euclid_exact_small_int ha hb hm hn (ne_of_gt hpos)
  rw [← ediv_eq_floor m hpos]; exact ⟨h.1, h.2.2.1⟩

/-- **… and `ceil(a/b)` for `b < 0`, as a valid TwoFloat** -/
theorem div_euclid_ceil {a b : TwoFloat} {m n : ℤ} (ha : IsInt a m) (hb : IsInt b n)
    (hm : |m| < 2 ^ 53) (hn : |n| < 2 ^ 53) (hneg : n < 0) :
    (TwoFloat.div_euclid a b).V = ⌈(m : ℚ) / (n : ℚ)⌉ * (unit : ℤ) ∧ (TwoFloat.div_euclid a b).Valid := by
  have h := div_euclid_exact_small_int ha hb hm hn (ne_of_lt hneg)
  rw [← ediv_eq_ceil m hneg]; exact ⟨h.1, h.2.2.1⟩

/-! ## `rem_euclid` -/

/-- **C19: `rem_euclid` is exact for integers below `2^53`**: the Euclidean remainder `m % n = m − (m / n)·n`,
`0 ≤ m % n < |n|`, a valid pair -/
theorem rem_euclid_exact_small_int {a b : TwoFloat} {m n : ℤ} (ha : IsInt a m) (hb : IsInt b n)
    (hm : |m| < 2 ^ 53) (hn : |n| < 2 ^ 53) (hn0 : n ≠ 0) :
    (TwoFloat.rem_euclid a b).V = m % n * (unit : ℤ) ∧
    (TwoFloat.rem_euclid a b).V = (m - m / n * n) * (unit : ℤ) ∧
    IsInt (TwoFloat.rem_euclid a b) (m % n) ∧
    (TwoFloat.rem_euclid a b).Valid ∧ (TwoFloat.rem_euclid a b).WF ∧
    0 ≤ (TwoFloat.rem_euclid a b).V ∧ (TwoFloat.rem_euclid a b).V < |b.V| := by
  have hUi := unit_pos_int
  have h := rem_euclid_int_isV ha hb hm hn hn0
  have h0 : 0 ≤ m % n := Int.emod_nonneg m hn0
  have h1 : m % n < |n| := Int.emod_lt_abs m hn0
  have hr : |m % n| ≤ 2 ^ 53 := by rw [abs_of_nonneg h0]; omega
  have hV : (TwoFloat.rem_euclid a b).V = m % n * (unit : ℤ) := by rw [h.V_eq, add_zero]
  have hB : b.V = n * (unit : ℤ) := by rw [IsV.V_eq hb, add_zero]
  refine ⟨hV, ?_, h, h.int_valid hr, h.int_WF hr, ?_, ?_⟩
  · rw [hV, Int.emod_def, mul_comm n]
  · rw [hV]; exact mul_nonneg h0 hUi.le
  · rw [hV, hB, abs_mul_pos_right _ hUi]; exact mul_lt_mul_of_pos_right h1 hUi

/-- **the Euclidean identity holds exactly**: `div_euclid(a, b)·b + rem_euclid(a, b) = a` -/
theorem euclid_identity {a b : TwoFloat} {m n : ℤ} (ha : IsInt a m) (hb : IsInt b n)
    (hm : |m| < 2 ^ 53) (hn : |n| < 2 ^ 53) (hn0 : n ≠ 0) :
    (TwoFloat.div_euclid a b).V * b.V + (TwoFloat.rem_euclid a b).V * (unit : ℤ) = a.V * (unit : ℤ) := by
  rw [(div_euclid_exact_small_int ha hb hm hn hn0).1, (rem_euclid_exact_small_int ha hb hm hn hn0).1,
    IsV.V_eq ha, IsV.V_eq hb, add_zero, add_zero]
  have := Int.emod_add_mul_ediv m n
  have e : m * (unit : ℤ) * (unit : ℤ) = (m % n + n * (m / n)) * (unit : ℤ) * (unit : ℤ) := by rw [this]
  rw [e]; ring

/-! ## the tolerance clause: general valid operands -/

/-- **C19, tolerance clause for `TwoFloat % TwoFloat`.**  Valid operands with high words of magnitude in
`[2^-450, 2^450]` and `|a / b| ≤ 2^90`.  The quotient used by `%` is an exact integer `K` (`trunc` is exact) with
`K = trunc(a/b)` (`Int.tdiv` of the exact values), or `K = trunc(a/b) ± 1` and then `a/b` is within relative `2^-102` of an
integer `j`; the result is a valid pair and
`|(a % b) − (a − K·b)| ≤ 11·2^-106·max(|a|, |b|)` (the property allows `16·2^-106`).
Budget: division `16u²` (only decides `K`), product `7u²·|K·b| ≤ 7u²(1 + 2^-102)|a|`, difference
`(3u² + 13u³)·|a − p|` with `|a − p| ≤ |b| + (2^-102 + 7u²)|a|`. -/
theorem rem_tolerance {a b : TwoFloat} (ha : a.Valid) (hwa : a.WF) (hb : b.Valid) (hwb : b.WF)
    (hA : 2 ^ 624 ≤ a.hi.toInt.natAbs ∧ a.hi.toInt.natAbs ≤ 2 ^ 1524)
    (hB : 2 ^ 624 ≤ b.hi.toInt.natAbs ∧ b.hi.toInt.natAbs ≤ 2 ^ 1524)
    (hR : |a.V| ≤ 2 ^ 90 * |b.V|) :
    ∃ K : ℤ, (TwoFloat.trunc (a /. b)).V = K * (unit : ℤ) ∧
      (K = a.V.tdiv b.V ∨
        ((K = a.V.tdiv b.V + 1 ∨ K = a.V.tdiv b.V - 1) ∧ ∃ j : ℤ, 2 ^ 102 * |a.V - j * b.V| ≤ |a.V|)) ∧
      (a %. b).Valid ∧
      2 ^ 106 * |(a %. b).V - (a.V - K * b.V)| ≤ 11 * max |a.V| |b.V| :=
  TwoFloat.rem_tt_tolerance ha hwa hb hwb hA hB hR

/-- the clause with the property's own range (`[2^-400, 2^400]`) and constants (`16·2^-106`, relative `2^-98`) -/
theorem rem_tolerance_c19 {a b : TwoFloat} (ha : a.Valid) (hwa : a.WF) (hb : b.Valid) (hwb : b.WF)
    (hA : 2 ^ 674 ≤ a.hi.toInt.natAbs ∧ a.hi.toInt.natAbs ≤ 2 ^ 1474)
    (hB : 2 ^ 674 ≤ b.hi.toInt.natAbs ∧ b.hi.toInt.natAbs ≤ 2 ^ 1474)
    (hR : |a.V| ≤ 2 ^ 90 * |b.V|) :
    ∃ K : ℤ,
      (K = a.V.tdiv b.V ∨
        ((K = a.V.tdiv b.V + 1 ∨ K = a.V.tdiv b.V - 1) ∧ ∃ j : ℤ, 2 ^ 98 * |a.V - j * b.V| ≤ |a.V|)) ∧
      (a %. b).Valid ∧
      2 ^ 106 * |(a %. b).V - (a.V - K * b.V)| ≤ 16 * max |a.V| |b.V| := by
  obtain ⟨K, -, h1, h2, h3⟩ := rem_tolerance ha hwa hb hwb
    ⟨le_trans (by norm_num) hA.1, le_trans hA.2 (by norm_num)⟩
    ⟨le_trans (by norm_num) hB.1, le_trans hB.2 (by norm_num)⟩ hR
  refine ⟨K, ?_, h2, ?_⟩
  · rcases h1 with h | ⟨h, j, hj⟩
    · exact Or.inl h
    · refine Or.inr ⟨h, j, ?_⟩
      have := abs_nonneg (a.V - j * b.V)
      linarith
  · have : 0 ≤ max |a.V| |b.V| := le_trans (abs_nonneg a.V) (le_max_left _ _)
    linarith

/-! ## closed instances (kernel evaluation of the Model) -/

/-- the double `k` for a small natural number -/
def natF (s : Bool) (k : ℕ) : F64 := F64.fin s (k * 2 ^ 1074)

/-- the integer `±k` as a TwoFloat -/
def natT (s : Bool) (k : ℕ) : TwoFloat := ⟨natF s k, F64.zero⟩

/-- 17 % 5 = 2, −17 % 5 = −2, 17 % −5 = 2, (2^53 − 1) % 3 = 1 -/
example :
    natT false 17 %. natT false 5 = natT false 2
    ∧ natT true 17 %. natT false 5 = natT true 2
    ∧ natT false 17 %. natT true 5 = natT false 2
    ∧ natT false (2 ^ 53 - 1) %. natT false 3 = natT false 1 := by
  decide +kernel

/-- div_euclid(−9, 5) = −2, div_euclid(−9, −5) = 2, div_euclid(9, −5) = −1, div_euclid(9, 5) = 1,
div_euclid(2^53 − 1, 3) = 3002399751580330 -/
example :
    TwoFloat.div_euclid (natT true 9) (natT false 5) = natT true 2
    ∧ TwoFloat.div_euclid (natT true 9) (natT true 5) = natT false 2
    ∧ TwoFloat.div_euclid (natT false 9) (natT true 5) = natT true 1
    ∧ TwoFloat.div_euclid (natT false 9) (natT false 5) = natT false 1
    ∧ TwoFloat.div_euclid (natT false (2 ^ 53 - 1)) (natT false 3) = natT false 3002399751580330 := by
  decide +kernel

/-- rem_euclid(−9, 5) = 1, rem_euclid(−9, −5) = 1, rem_euclid(9, −5) = 4, rem_euclid(−17, 5) = 3 -/
example :
    TwoFloat.rem_euclid (natT true 9) (natT false 5) = natT false 1
    ∧ TwoFloat.rem_euclid (natT true 9) (natT true 5) = natT false 1
    ∧ TwoFloat.rem_euclid (natT false 9) (natT true 5) = natT false 4
    ∧ TwoFloat.rem_euclid (natT true 17) (natT false 5) = natT false 3 := by
  decide +kernel

/-- the closed operands are instances of the theorems' hypotheses -/
example : IsInt (natT true 17) (-17) ∧ IsInt (natT false 5) 5 := by
  refine ⟨⟨⟨rfl, ?_⟩, ⟨rfl, rfl⟩⟩, ⟨⟨rfl, ?_⟩, ⟨rfl, rfl⟩⟩⟩ <;> decide +kernel

end C19x
