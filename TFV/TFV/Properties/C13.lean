/-
C13 (structural layer) — roots and integer powers: the special-case table of `powi`, `sqrt`, `cbrt`, panic
freedom of `powi` for every in-range `i32`, and closed instances.
-/
import TFV.Spec.Defs
import TFV.Lemmas.Ident

namespace C13

/-! ### `powi` special cases -/

/-- the value `1` -/
abbrev one : TwoFloat := convert.impl_From_f64_for_TwoFloat.from (f64lit 0x3ff0000000000000)

theorem one_words : one = ⟨F64.one, F64.zero⟩ := by decide +kernel

/-- `x^0 = 1` unless both words of x compare equal to zero -/
theorem powi_zero (x : TwoFloat) (h : ((x.hi ==. f64lit 0) && (x.lo ==. f64lit 0)) = false) :
    TwoFloat.powi x (0 : I32) = one := by
  have : TwoFloat.powi x (0 : I32)
      = if ((x.hi ==. f64lit 0) && (x.lo ==. f64lit 0)) = true then TwoFloat.NAN else one := rfl
  rw [this, h]; rfl

/-- `0^0 = NAN` (for any signs of the two zero words) -/
theorem powi_zero_zero (x : TwoFloat) (h : ((x.hi ==. f64lit 0) && (x.lo ==. f64lit 0)) = true) :
    TwoFloat.powi x (0 : I32) = TwoFloat.NAN := by
  have : TwoFloat.powi x (0 : I32)
      = if ((x.hi ==. f64lit 0) && (x.lo ==. f64lit 0)) = true then TwoFloat.NAN else one := rfl
  rw [this, h]; rfl

theorem powi_zero_zero_closed :
    TwoFloat.powi ⟨F64.zero, F64.zero⟩ (0 : I32) = TwoFloat.NAN
    ∧ TwoFloat.powi ⟨F64.negZero, F64.zero⟩ (0 : I32) = TwoFloat.NAN
    ∧ TwoFloat.powi ⟨F64.zero, F64.negZero⟩ (0 : I32) = TwoFloat.NAN := by decide +kernel

theorem powi_one (x : TwoFloat) : TwoFloat.powi x (1 : I32) = x := rfl

theorem powi_neg_one (x : TwoFloat) : TwoFloat.powi x (-1 : I32) = TwoFloat.recip x := rfl

theorem powi_neg_one_eq_div (x : TwoFloat) : TwoFloat.powi x (-1 : I32) = (f64lit 0x3ff0000000000000) /. x := rfl

/-- general exponents: square-and-multiply on `|n|` (as u32, so `i32::MIN` is fine), then an optional reciprocal -/
theorem powi_general (x : TwoFloat) (n : I32) (h0 : (n ==. (0 : I32)) = false) (h1 : (n ==. (1 : I32)) = false)
    (hm1 : (n ==. (-1 : I32)) = false) :
    TwoFloat.powi x n =
      (let r := (TwoFloat.powi.loop1 33 one x (IntN.unsigned_abs n)).1
       if n >. (0 : I32) then r else TwoFloat.recip r) := by
  unfold TwoFloat.powi
  simp only [h0, h1, hm1]
  rfl

/-- negative exponents are the reciprocal of the positive power — by construction, for every n outside {0, ±1}
(both sides run the same loop on the same `|n|`) -/
theorem powi_neg_eq_recip (x : TwoFloat) (n : I32) (hpos : 1 < n.v) :
    TwoFloat.powi x (IntN.neg n) = TwoFloat.recip (TwoFloat.powi x n) := by
  have e (m : I32) (c : Int) : (m ==. (⟨c⟩ : I32)) = decide (m.v = c) := rfl
  have h0 : (n ==. (0 : I32)) = false := by rw [show (0 : I32) = ⟨0⟩ from rfl, e, decide_eq_false_iff_not]; omega
  have h1 : (n ==. (1 : I32)) = false := by rw [show (1 : I32) = ⟨1⟩ from rfl, e, decide_eq_false_iff_not]; omega
  have hm1 : (n ==. (-1 : I32)) = false := by rw [show (-1 : I32) = ⟨-1⟩ from rfl, e, decide_eq_false_iff_not]; omega
  have g0 : (IntN.neg n ==. (0 : I32)) = false := by
    rw [show (0 : I32) = ⟨0⟩ from rfl, e, decide_eq_false_iff_not]; simp only [IntN.neg]; omega
  have g1 : (IntN.neg n ==. (1 : I32)) = false := by
    rw [show (1 : I32) = ⟨1⟩ from rfl, e, decide_eq_false_iff_not]; simp only [IntN.neg]; omega
  have gm1 : (IntN.neg n ==. (-1 : I32)) = false := by
    rw [show (-1 : I32) = ⟨-1⟩ from rfl, e, decide_eq_false_iff_not]; simp only [IntN.neg]; omega
  have gt (m : I32) : (m >. (0 : I32)) = decide (0 < m.v) := by
    show (match (some (if m.v < (0:Int) then ROrdering.Less else if m.v = 0 then .Equal else .Greater)) with
          | some .Greater => true | _ => false) = _
    by_cases a : m.v < 0
    · have : ¬ (0 < m.v) := by omega
      simp [a, this]
    · by_cases b : m.v = 0
      · simp [b]
      · have : 0 < m.v := by omega
        simp [a, b, this]
  have habs : IntN.unsigned_abs (IntN.neg n) = IntN.unsigned_abs n := by
    simp [IntN.unsigned_abs, IntN.neg]
  rw [powi_general x n h0 h1 hm1, powi_general x _ g0 g1 gm1, habs, gt, gt]
  have p : 0 < n.v := by omega
  have q : ¬ (0 < (IntN.neg n).v) := by simp [IntN.neg]; omega
  simp [p, q]

/-- `powi(x, −n) = powi(x, n).recip()` bit for bit, for every n ≥ 1 (in particular 0 < n ≤ i32::MAX) -/
theorem powi_neg_eq_recip' (x : TwoFloat) (n : I32) (hpos : 0 < n.v) :
    TwoFloat.powi x (IntN.neg n) = TwoFloat.recip (TwoFloat.powi x n) := by
  by_cases h1 : n.v = 1
  · have : n = (1 : I32) := by cases n; simp only at h1; subst h1; rfl
    subst this
    rfl
  · exact powi_neg_eq_recip x n (by omega)

/-! ### panic freedom of `powi` -/

/-- `powi` never panics, for every `i32` exponent including `i32::MIN` (the loop counter is `unsigned_abs`,
at most 2^31, so 32 halvings — the model's fuel of 33 is never exhausted) -/
theorem powi_pf (x : TwoFloat) (n : I32) (h : n.inRange = true) : TwoFloat.powi.pf x n = true := by
  unfold TwoFloat.powi.pf
  split
  · rfl
  · split
    · rfl
    · split
      · rfl
      · exact Ident.powi_loop_pf 32 _ _ _ (Ident.i32_unsigned_abs_lt n h)

/-- … and therefore neither does any `Pow<iN/uN>` impl -/
theorem Pow_i32_pf (x : TwoFloat) (n : I32) (h : n.inRange = true) :
    num_integration.impl_Pow_i32_for_TwoFloat.pow.pf x n = true := powi_pf x n h

/-! ### `sqrt` -/

/-- sqrt of (±0, ±0) is (+0, +0) -/
theorem sqrt_zero (x : TwoFloat) (hh : (x.hi ==. f64lit 0) = true) (hl : (x.lo ==. f64lit 0) = true) :
    TwoFloat.sqrt x = ⟨f64lit 0, f64lit 0⟩ := by
  unfold TwoFloat.sqrt
  simp [hh, hl, Ident.f64_eq_imp_not_lt _ _ hh, Ident.f64_eq_imp_not_lt _ _ hl]

/-- a negative high word gives NAN -/
theorem sqrt_neg_hi (x : TwoFloat) (h : (x.hi <. f64lit 0) = true) : TwoFloat.sqrt x = TwoFloat.NAN := by
  unfold TwoFloat.sqrt
  simp [h]

/-- … and so does a zero high word over a negative low word -/
theorem sqrt_zero_hi_neg_lo (x : TwoFloat) (hh : (x.hi ==. f64lit 0) = true) (hl : (x.lo <. f64lit 0) = true) :
    TwoFloat.sqrt x = TwoFloat.NAN := by
  unfold TwoFloat.sqrt
  simp [hh, hl]

theorem sqrt_NAN_invalid : TwoFloat.is_valid TwoFloat.NAN = false := by decide +kernel

/-- the generic branch: Karp–Markstein with one double-word correction -/
theorem sqrt_general (x : TwoFloat)
    (h1 : ((x.hi <. f64lit 0) || ((x.hi ==. f64lit 0) && (x.lo <. f64lit 0))) = false)
    (h2 : ((x.hi ==. f64lit 0) && (x.lo ==. f64lit 0)) = false) :
    TwoFloat.sqrt x =
      (let r := F64.recip (F64.sqrt x.hi)
       let y := F64.mul x.hi r
       TwoFloat.new_add y (F64.mul (x -. TwoFloat.new_mul y y).hi (F64.mul r (f64lit 0x3fe0000000000000)))) := by
  unfold TwoFloat.sqrt
  simp only [h1, h2]
  rfl

theorem hypot_def (x y : TwoFloat) : TwoFloat.hypot x y = TwoFloat.sqrt ((x *. x) +. (y *. y)) := rfl

/-! ### `cbrt` -/

/-- a zero high word is returned unchanged (so cbrt(±0) = ±0) -/
theorem cbrt_zero_hi (x : TwoFloat) (h : (x.hi ==. f64lit 0) = true) : TwoFloat.cbrt x = x := by
  unfold TwoFloat.cbrt
  simp [h]

theorem cbrt_zero : TwoFloat.cbrt ⟨F64.zero, F64.zero⟩ = ⟨F64.zero, F64.zero⟩
    ∧ TwoFloat.cbrt ⟨F64.negZero, F64.zero⟩ = ⟨F64.negZero, F64.zero⟩ := by decide +kernel

/-! ### closed instances -/

theorem sqrt_four : TwoFloat.sqrt ⟨f64lit 0x4010000000000000, F64.zero⟩ = ⟨f64lit 0x4000000000000000, F64.zero⟩ := by
  decide +kernel

theorem sqrt_one : TwoFloat.sqrt ⟨F64.one, F64.zero⟩ = ⟨F64.one, F64.zero⟩ := by decide +kernel

theorem sqrt_minus_one : TwoFloat.sqrt ⟨F64.neg F64.one, F64.zero⟩ = TwoFloat.NAN := by decide +kernel

theorem cbrt_eight : TwoFloat.cbrt ⟨f64lit 0x4020000000000000, F64.zero⟩ = ⟨f64lit 0x4000000000000000, F64.zero⟩ := by
  decide +kernel

theorem cbrt_minus_eight :
    TwoFloat.cbrt ⟨f64lit 0xc020000000000000, F64.zero⟩ = ⟨f64lit 0xc000000000000000, F64.zero⟩ := by
  decide +kernel

theorem hypot_3_4 :
    TwoFloat.hypot ⟨f64lit 0x4008000000000000, F64.zero⟩ ⟨f64lit 0x4010000000000000, F64.zero⟩
      = ⟨f64lit 0x4014000000000000, F64.zero⟩ := by decide +kernel

theorem powi_two_ten : TwoFloat.powi ⟨f64lit 0x4000000000000000, F64.zero⟩ (10 : I32) = ⟨f64lit 0x4090000000000000, F64.zero⟩ := by
  decide +kernel

theorem powi_two_neg_ten :
    TwoFloat.powi ⟨f64lit 0x4000000000000000, F64.zero⟩ (-10 : I32) = ⟨f64lit 0x3f50000000000000, F64.zero⟩ := by
  decide +kernel

theorem powi_neg_three_cubed :
    TwoFloat.powi ⟨f64lit 0xc008000000000000, F64.zero⟩ (3 : I32) = ⟨f64lit 0xc03b000000000000, F64.zero⟩ := by
  decide +kernel

/-- the extreme exponents: `powi(x, i32::MIN)` and `powi(x, i32::MAX)` run to completion (no overflow of `|n|`);
1^n = 1, and 2^(i32::MIN) underflows to zero through an infinite intermediate -/
example :
    TwoFloat.powi.pf ⟨f64lit 0x4000000000000000, F64.zero⟩ (-2147483648 : I32) = true
    ∧ TwoFloat.powi ⟨F64.one, F64.zero⟩ (-2147483648 : I32) = ⟨F64.one, F64.zero⟩
    ∧ TwoFloat.powi ⟨F64.one, F64.zero⟩ (2147483647 : I32) = ⟨F64.one, F64.zero⟩
    ∧ TwoFloat.powi ⟨F64.neg F64.one, F64.zero⟩ (2147483647 : I32) = ⟨F64.neg F64.one, F64.zero⟩ := by
  decide +kernel

end C13
