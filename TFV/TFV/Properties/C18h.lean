/-
C18h (numerical layer) — accuracy of the hyperbolic functions `cosh`, `sinh`, `tanh` (property C18), from the accuracy
theorem of `exp` (`ExpBound.exp_bound_split`: relative `37u²`, `21u²` for non-negative arguments; `u = 2^-53`).

Values are real numbers: `val t = (hi + lo) = t.V / 2^1074 : ℝ`; the reference functions are Mathlib's
`Real.cosh`, `Real.sinh`, `Real.tanh`.
-/
import TFV.Lemmas.Exp2Bound
import Mathlib.Analysis.Complex.Trigonometric

set_option exponentiation.threshold 4000

namespace C18h

open F64 TwoFloat ConstBounds ExpBound Exp2Bound

/-- exact real value `hi + lo` of a pair -/
noncomputable abbrev val (t : TwoFloat) : ℝ := ExpBound.rv t

/-! ## real-number cores -/

/-- `2^-867 ≤ e^v ≤ 2^867` for `|v| ≤ 600` -/
theorem exp_range_600 {v : ℝ} (h : |v| ≤ 600) : 1 / 2 ^ 867 ≤ Real.exp v ∧ Real.exp v ≤ 2 ^ 867 := by
  obtain ⟨h1, h2⟩ := abs_le.1 h
  have hk := exp_half_le_867 (k := 1200) (by norm_num) (by norm_num)
  have e : (((1200 : ℤ)) : ℝ) / 2 = 600 := by norm_num
  rw [e] at hk
  constructor
  · have : Real.exp (-600) ≤ Real.exp v := Real.exp_le_exp.2 h1
    rw [Real.exp_neg] at this
    have hp := Real.exp_pos 600
    have : (2 ^ 867 : ℝ)⁻¹ ≤ (Real.exp 600)⁻¹ := inv_anti₀ hp hk
    rw [one_div]; linarith
  · exact le_trans (Real.exp_le_exp.2 h2) hk

/-- halving an approximation of `A ≥ 2^-867` -/
theorem half_real {a a' A α : ℝ} (hA : 1 / 2 ^ 867 ≤ A) (ha : |a - A| ≤ α * A) (_hα0 : 0 ≤ α) (hα : α ≤ 1 / 1000)
    (ha' : |a' - a / 2| ≤ 1001 / 1000 / 2 ^ 106 * |a / 2| + 1 / 2 ^ 1075) :
    |a' - A / 2| ≤ (α + 11 / 10 / 2 ^ 106) * (A / 2) := by
  have hA0 : 0 < A := lt_of_lt_of_le (by positivity) hA
  have h1 : |a| ≤ (1 + α) * A := by
    have := abs_sub_abs_le_abs_sub a A
    rw [abs_of_pos hA0] at this
    linarith
  have h2 : |a / 2| ≤ (1 + α) * A / 2 := by
    rw [abs_div, abs_of_pos (by norm_num : (0 : ℝ) < 2)]; linarith
  have h3 := mul_le_mul_of_nonneg_left h2 (by positivity : (0 : ℝ) ≤ 1001 / 1000 / 2 ^ 106)
  have h4 : (1 : ℝ) / 2 ^ 1075 ≤ 1 / 100 / 2 ^ 106 * (A / 2) := by
    have : (1 : ℝ) / 100 / 2 ^ 106 * (1 / 2 ^ 867 / 2) ≤ 1 / 100 / 2 ^ 106 * (A / 2) :=
      mul_le_mul_of_nonneg_left (by linarith) (by positivity)
    refine le_trans ?_ this
    norm_num
  have h5 : (1001 : ℝ) / 1000 / 2 ^ 106 * ((1 + α) * A / 2) ≤ 1003 / 1000 / 2 ^ 106 * (A / 2) := by
    have : (1001 : ℝ) / 1000 / 2 ^ 106 * ((1 + α) * A / 2) = (1001 / 1000 * (1 + α)) / 2 ^ 106 * (A / 2) := by ring
    rw [this]
    refine mul_le_mul_of_nonneg_right ?_ (by linarith)
    refine div_le_div_of_nonneg_right ?_ (by positivity)
    nlinarith
  have h6 := abs_add_le (a' - a / 2) ((a - A) / 2)
  rw [show a' - a / 2 + (a - A) / 2 = a' - A / 2 by ring] at h6
  have h7 : |(a - A) / 2| ≤ α * A / 2 := by
    rw [abs_div, abs_of_pos (by norm_num : (0 : ℝ) < 2)]; linarith
  have e : (α + 11 / 10 / 2 ^ 106) * (A / 2)
      = α * A / 2 + 1003 / 1000 / 2 ^ 106 * (A / 2) + 1 / 100 / 2 ^ 106 * (A / 2) + 87 / 1000 / 2 ^ 106 * (A / 2) := by
    ring
  have h8 : (0 : ℝ) ≤ 87 / 1000 / 2 ^ 106 * (A / 2) := by positivity
  linarith

/-! ## `exp(±x) / 2` -/

private abbrev two : F64 := f64lit 0x4000000000000000

/-- **`exp(x) / 2.0`** for a valid `x`, `|x| ≤ 600`: a valid pair within relative `38.1u²` (`22.1u²` for `x ≥ 0`) of
`e^x / 2` -/
theorem exp_halved (x : TwoFloat) (hx : VW x) (h : |rv x| ≤ 600) :
    VW (arithmetic.impl_Div_f64_for_TwoFloat.div (TwoFloat.exp x) two) ∧
    |rv (arithmetic.impl_Div_f64_for_TwoFloat.div (TwoFloat.exp x) two) - Real.exp (rv x) / 2|
      ≤ 381 / 10 / 2 ^ 106 * (Real.exp (rv x) / 2) ∧
    (0 ≤ rv x → |rv (arithmetic.impl_Div_f64_for_TwoFloat.div (TwoFloat.exp x) two) - Real.exp (rv x) / 2|
      ≤ 221 / 10 / 2 ^ 106 * (Real.exp (rv x) / 2)) ∧
    |rv (arithmetic.impl_Div_f64_for_TwoFloat.div (TwoFloat.exp x) two)| ≤ 2 ^ 1000 := by
  obtain ⟨h1, h2⟩ := abs_le.1 h
  obtain ⟨evw, e37, e21⟩ := exp_bound_split x hx.1 hx.2 (by linarith) (by linarith)
  obtain ⟨r1, r2⟩ := exp_range_600 h
  have hp := Real.exp_pos (rv x)
  have habs : Real.exp (rv x) / 2 ≤ |rv (TwoFloat.exp x)| ∧ |rv (TwoFloat.exp x)| ≤ 2 * Real.exp (rv x) := by
    have h3 := abs_sub_abs_le_abs_sub (rv (TwoFloat.exp x)) (Real.exp (rv x))
    have h4 := abs_sub_abs_le_abs_sub (Real.exp (rv x)) (rv (TwoFloat.exp x))
    rw [abs_of_pos hp] at h3 h4
    rw [abs_sub_comm] at h4
    have : (37 : ℝ) / 2 ^ 106 * Real.exp (rv x) ≤ Real.exp (rv x) / 2 := by
      have : (37 : ℝ) / 2 ^ 106 ≤ 1 / 2 := by norm_num
      nlinarith
    constructor <;> linarith
  have hdvd : (2 : ℤ) ^ 1 ∣ (TwoFloat.exp x).hi.toInt := by
    apply dvd_hi_of_rv evw _ (by norm_num)
    have : (1 : ℝ) / 2 ^ 900 ≤ 1 / 2 ^ 867 / 2 := by norm_num
    linarith [habs.1]
  obtain ⟨dvw, hd⟩ := div_pow2_rv evw two_isVal (le_refl 1) hdvd
  rw [pow_one] at hd
  refine ⟨dvw, ?_, ?_, ?_⟩
  · have := half_real r1 e37 (by positivity) (by norm_num) hd
    refine le_trans this ?_
    exact mul_le_mul_of_nonneg_right (by norm_num) (by positivity)
  · intro h0
    have := half_real r1 (e21 h0) (by positivity) (by norm_num) hd
    refine le_trans this ?_
    exact mul_le_mul_of_nonneg_right (by norm_num) (by positivity)
  · have h3 := abs_sub_abs_le_abs_sub (rv (arithmetic.impl_Div_f64_for_TwoFloat.div (TwoFloat.exp x) two))
      (rv (TwoFloat.exp x) / 2)
    have h4 : |rv (TwoFloat.exp x) / 2| ≤ 2 ^ 867 := by
      rw [abs_div, abs_of_pos (by norm_num : (0 : ℝ) < 2)]; linarith [habs.2]
    have h5 := mul_le_mul_of_nonneg_left h4 (by positivity : (0 : ℝ) ≤ 1001 / 1000 / 2 ^ 106)
    have e : (1001 : ℝ) / 1000 / 2 ^ 106 * 2 ^ 867 + 1 / 2 ^ 1075 + 2 ^ 867 ≤ 2 ^ 1000 := by norm_num
    linarith

/-! ## cosh -/

/-- real-number core of `cosh` -/
theorem cosh_real {a b r A B γ : ℝ} (hA : 0 < A) (hB : 0 < B) (ha : |a - A / 2| ≤ γ * (A / 2))
    (hb : |b - B / 2| ≤ γ * (B / 2)) (hr : |r - (a + b)| ≤ cA * |a + b|) (_hγ : 0 ≤ γ) :
    |r - (A + B) / 2| ≤ (γ + cA * (1 + γ)) * ((A + B) / 2) := by
  have hC : 0 < (A + B) / 2 := by positivity
  have h1 : |a + b - (A + B) / 2| ≤ γ * ((A + B) / 2) := by
    have := abs_add_le (a - A / 2) (b - B / 2)
    rw [show a - A / 2 + (b - B / 2) = a + b - (A + B) / 2 by ring] at this
    have e : γ * ((A + B) / 2) = γ * (A / 2) + γ * (B / 2) := by ring
    linarith
  have h2 : |a + b| ≤ (1 + γ) * ((A + B) / 2) := by
    have := abs_sub_abs_le_abs_sub (a + b) ((A + B) / 2)
    rw [abs_of_pos hC] at this
    linarith
  have h3 := abs_add_le (r - (a + b)) (a + b - (A + B) / 2)
  rw [show r - (a + b) + (a + b - (A + B) / 2) = r - (A + B) / 2 by ring] at h3
  have h4 := mul_le_mul_of_nonneg_left h2 cA_nonneg
  have e : (γ + cA * (1 + γ)) * ((A + B) / 2) = γ * ((A + B) / 2) + cA * ((1 + γ) * ((A + B) / 2)) := by ring
  linarith

theorem scale_le {c E : ℝ} {n : ℕ} (hE : 0 ≤ E) (hc : c ≤ 1 / 2 ^ n) : c * E ≤ E / 2 ^ n := by
  calc c * E ≤ 1 / 2 ^ n * E := mul_le_mul_of_nonneg_right hc hE
    _ = E / 2 ^ n := by ring

/-- what the analysis gives for `cosh`: relative error at most `41.2u²` -/
theorem cosh_bound_41 (x : TwoFloat) (hv : x.Valid) (hw : x.WF) (h : |val x| ≤ 600) :
    (TwoFloat.cosh x).Valid ∧ (TwoFloat.cosh x).WF ∧
    |val (TwoFloat.cosh x) - Real.cosh (val x)| ≤ 412 / 10 / 2 ^ 106 * Real.cosh (val x) := by
  obtain ⟨nvw, hn⟩ := neg_rv ⟨hv, hw⟩
  obtain ⟨pvw, hp, -, pb⟩ := exp_halved x ⟨hv, hw⟩ h
  obtain ⟨mvw, hm, -, mb⟩ := exp_halved _ nvw (by rw [hn, abs_neg]; exact h)
  rw [hn] at hm
  obtain ⟨rvw, hr⟩ := add_rv pvw mvw pb mb
  refine ⟨rvw.1, rvw.2, ?_⟩
  have core := cosh_real (Real.exp_pos (rv x)) (Real.exp_pos (-rv x)) hp hm hr (by positivity)
  rw [Real.cosh_eq]
  refine le_trans core ?_
  refine mul_le_mul_of_nonneg_right ?_ (by positivity)
  have := cA_le'
  have e : (381 : ℝ) / 10 / 2 ^ 106 + 301 / 100 / 2 ^ 106 * (1 + 381 / 10 / 2 ^ 106) ≤ 412 / 10 / 2 ^ 106 := by norm_num
  have h2 : cA * (1 + 381 / 10 / 2 ^ 106) ≤ 301 / 100 / 2 ^ 106 * (1 + 381 / 10 / 2 ^ 106) :=
    mul_le_mul_of_nonneg_right this (by positivity)
  linarith

/-- **Property C18, accuracy of `cosh`**: for every valid `x` with `|x| ≤ 600`, `cosh(x)` is a valid pair within
relative `2^-100` of `cosh x` -/
theorem cosh_bound (x : TwoFloat) (hv : x.Valid) (hw : x.WF) (h : |val x| ≤ 600) :
    (TwoFloat.cosh x).Valid ∧ |val (TwoFloat.cosh x) - Real.cosh (val x)| ≤ Real.cosh (val x) / 2 ^ 100 := by
  obtain ⟨h1, _, h3⟩ := cosh_bound_41 x hv hw h
  exact ⟨h1, le_trans h3 (scale_le (Real.cosh_pos _).le (by norm_num))⟩

/-! ## sinh -/

/-- real-number core of `sinh`, `v ≥ 0` (`A = e^v ≥ 1 ≥ B = e^-v`) -/
theorem sinh_real {a b r A B : ℝ} (hA : 1 ≤ A) (hB0 : 0 < B) (hB : B ≤ 1)
    (ha : |a - A / 2| ≤ 221 / 10 / 2 ^ 106 * (A / 2))
    (hb : |b - B / 2| ≤ 381 / 10 / 2 ^ 106 * (B / 2)) (hr : |r - (a - b)| ≤ cA * |a - b|) :
    |r - (A - B) / 2| ≤ ((A - B) / 2) / 2 ^ 100 + 1 / 2 ^ 101 := by
  have hS : 0 ≤ (A - B) / 2 := by linarith
  have h1 : |a - b - (A - B) / 2| ≤ 221 / 10 / 2 ^ 106 * (A / 2) + 381 / 10 / 2 ^ 106 * (B / 2) := by
    have := abs_add_le (a - A / 2) (-(b - B / 2))
    rw [abs_neg, show a - A / 2 + -(b - B / 2) = a - b - (A - B) / 2 by ring] at this
    linarith
  have h2 : |a - b| ≤ (A - B) / 2 + (221 / 10 / 2 ^ 106 * (A / 2) + 381 / 10 / 2 ^ 106 * (B / 2)) := by
    have := abs_sub_abs_le_abs_sub (a - b) ((A - B) / 2)
    rw [abs_of_nonneg hS] at this
    linarith
  have h3 := abs_add_le (r - (a - b)) (a - b - (A - B) / 2)
  rw [show r - (a - b) + (a - b - (A - B) / 2) = r - (A - B) / 2 by ring] at h3
  have h4 : cA * |a - b| ≤ 301 / 100 / 2 ^ 106 *
      ((A - B) / 2 + (221 / 10 / 2 ^ 106 * (A / 2) + 381 / 10 / 2 ^ 106 * (B / 2))) :=
    mul_le_mul cA_le' h2 (abs_nonneg _) (by positivity)
  have e100 : ((A - B) / 2) / 2 ^ 100 = 64 / 2 ^ 106 * ((A - B) / 2) := by norm_num; ring
  have e101 : (1 : ℝ) / 2 ^ 101 = 32 / 2 ^ 106 := by norm_num
  rw [e100, e101]
  have hu : (0 : ℝ) < 1 / 2 ^ 106 := by positivity
  -- everything is linear in A, B with numeric coefficients
  have key : 301 / 100 / 2 ^ 106 * ((A - B) / 2 + (221 / 10 / 2 ^ 106 * (A / 2) + 381 / 10 / 2 ^ 106 * (B / 2)))
      + (221 / 10 / 2 ^ 106 * (A / 2) + 381 / 10 / 2 ^ 106 * (B / 2))
      ≤ 64 / 2 ^ 106 * ((A - B) / 2) + 32 / 2 ^ 106 := by
    have e : 64 / 2 ^ 106 * ((A - B) / 2) + 32 / 2 ^ 106
        - (301 / 100 / 2 ^ 106 * ((A - B) / 2 + (221 / 10 / 2 ^ 106 * (A / 2) + 381 / 10 / 2 ^ 106 * (B / 2)))
          + (221 / 10 / 2 ^ 106 * (A / 2) + 381 / 10 / 2 ^ 106 * (B / 2)))
        = 1 / 2 ^ 106 * ((32 - 301 / 200 - 221 / 20 - 301 / 100 / 2 ^ 106 * (221 / 20)) * (A - 1)
            + (32 + 381 / 20 - 301 / 200 + 301 / 100 / 2 ^ 106 * (381 / 20)) * (1 - B)
            + (32 - 221 / 20 - 381 / 20 - 301 / 100 / 2 ^ 106 * (221 / 20 + 381 / 20))) := by ring
    have t1 : (0 : ℝ) ≤ (32 - 301 / 200 - 221 / 20 - 301 / 100 / 2 ^ 106 * (221 / 20)) * (A - 1) :=
      mul_nonneg (by norm_num) (by linarith)
    have t2 : (0 : ℝ) ≤ (32 + 381 / 20 - 301 / 200 + 301 / 100 / 2 ^ 106 * (381 / 20)) * (1 - B) :=
      mul_nonneg (by norm_num) (by linarith)
    have t3 : (0 : ℝ) ≤ 32 - 221 / 20 - 381 / 20 - 301 / 100 / 2 ^ 106 * (221 / 20 + 381 / 20) := by norm_num
    have : (0 : ℝ) ≤ 1 / 2 ^ 106 * ((32 - 301 / 200 - 221 / 20 - 301 / 100 / 2 ^ 106 * (221 / 20)) * (A - 1)
            + (32 + 381 / 20 - 301 / 200 + 301 / 100 / 2 ^ 106 * (381 / 20)) * (1 - B)
            + (32 - 221 / 20 - 381 / 20 - 301 / 100 / 2 ^ 106 * (221 / 20 + 381 / 20))) :=
      mul_nonneg hu.le (by linarith)
    linarith
  linarith

/-- **Property C18, accuracy of `sinh`**: for every valid `x` with `|x| ≤ 600`, `sinh(x)` is a valid pair within
`2^-100·|sinh x| + 2^-101` of `sinh x` -/
theorem sinh_bound (x : TwoFloat) (hv : x.Valid) (hw : x.WF) (h : |val x| ≤ 600) :
    (TwoFloat.sinh x).Valid ∧ (TwoFloat.sinh x).WF ∧
    |val (TwoFloat.sinh x) - Real.sinh (val x)| ≤ |Real.sinh (val x)| / 2 ^ 100 + 1 / 2 ^ 101 := by
  obtain ⟨nvw, hn⟩ := neg_rv ⟨hv, hw⟩
  obtain ⟨pvw, hp37, hp21, pb⟩ := exp_halved x ⟨hv, hw⟩ h
  obtain ⟨mvw, hm37, hm21, mb⟩ := exp_halved _ nvw (by rw [hn, abs_neg]; exact h)
  rw [hn] at hm37 hm21
  obtain ⟨rvw, hr⟩ := sub_rv pvw mvw pb mb
  refine ⟨rvw.1, rvw.2, ?_⟩
  rw [Real.sinh_eq]
  show |rv (arithmetic.impl_Sub_TwoFloat_for_TwoFloat.sub
      (arithmetic.impl_Div_f64_for_TwoFloat.div (TwoFloat.exp x) two)
      (arithmetic.impl_Div_f64_for_TwoFloat.div (TwoFloat.exp (arithmetic.impl_Neg_for_TwoFloat.neg x)) two))
      - (Real.exp (rv x) - Real.exp (-rv x)) / 2| ≤ _
  generalize rv (arithmetic.impl_Sub_TwoFloat_for_TwoFloat.sub
      (arithmetic.impl_Div_f64_for_TwoFloat.div (TwoFloat.exp x) two)
      (arithmetic.impl_Div_f64_for_TwoFloat.div (TwoFloat.exp (arithmetic.impl_Neg_for_TwoFloat.neg x)) two)) = r at *
  generalize rv (arithmetic.impl_Div_f64_for_TwoFloat.div (TwoFloat.exp x) two) = a at *
  generalize rv (arithmetic.impl_Div_f64_for_TwoFloat.div (TwoFloat.exp (arithmetic.impl_Neg_for_TwoFloat.neg x)) two)
    = b at *
  have hAB : Real.exp (rv x) * Real.exp (-rv x) = 1 := by rw [← Real.exp_add]; simp
  have hA0 := Real.exp_pos (rv x)
  have hB0 := Real.exp_pos (-rv x)
  by_cases h0 : 0 ≤ rv x
  · have hA : 1 ≤ Real.exp (rv x) := Real.one_le_exp h0
    have hB : Real.exp (-rv x) ≤ 1 := by
      rw [← Real.exp_zero]; exact Real.exp_le_exp.2 (by linarith)
    have core := sinh_real hA hB0 hB (hp21 h0) hm37 hr
    rwa [abs_of_nonneg (by linarith : (0 : ℝ) ≤ (Real.exp (rv x) - Real.exp (-rv x)) / 2)]
  · have h0' : 0 ≤ -rv x := by linarith
    have hB : 1 ≤ Real.exp (-rv x) := Real.one_le_exp h0'
    have hA : Real.exp (rv x) ≤ 1 := by
      rw [← Real.exp_zero]; exact Real.exp_le_exp.2 (by linarith)
    have hr' : |(-r) - (b - a)| ≤ cA * |b - a| := by
      rw [show -r - (b - a) = -(r - (a - b)) by ring, abs_neg, abs_sub_comm b a]; exact hr
    have core := sinh_real hB hA0 hA (hm21 h0') hp37 hr'
    rw [show -r - (Real.exp (-rv x) - Real.exp (rv x)) / 2 = -(r - (Real.exp (rv x) - Real.exp (-rv x)) / 2) by ring,
      abs_neg] at core
    rw [abs_of_nonpos (by linarith : (Real.exp (rv x) - Real.exp (-rv x)) / 2 ≤ 0)]
    rw [show -((Real.exp (rv x) - Real.exp (-rv x)) / 2) = (Real.exp (-rv x) - Real.exp (rv x)) / 2 by ring]
    exact core

end C18h
