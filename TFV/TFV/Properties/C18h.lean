/-
C18h (numerical layer) — accuracy of the hyperbolic functions `cosh`, `sinh`, `tanh` (property C18), from the accuracy
theorem of `exp` (`ExpBound.exp_bound_split`: relative `37u²`, and `21u²` for non-negative arguments; `u = 2^-53`,
`2^-100 = 64u²`, `2^-101 = 32u²`).

Values are real numbers: `val t = (hi + lo) = t.V / 2^1074 : ℝ`; the reference functions are Mathlib's
`Real.cosh`, `Real.sinh`, `Real.tanh`.

  * `cosh_bound`  : `|x| ≤ 600`: relative `2^-100` — PROVED IN FULL (`41.2u²`: `37` for `exp`, `1.1` for the exact
    division by `2.0` — one rounding of the low word, `Exp2Bound.div_pow2_rv` —, `3.01` for the addition).
  * `sinh_bound`  : `|x| ≤ 600`: within `2^-100·|sinh x| + 2^-101` — PROVED IN FULL.  The absolute term carries the
    result near `0`, where the two halves `e^(±x)/2 ≈ 1/2` carry errors `22.1u²` and `38.1u²` of `1/2` each:
    `(22.1 + 38.1)/2 = 30.1 < 32` (the asymmetric `21u²/37u²` of `exp` is what makes this fit).
  * `tanh_bound_partial` : `2^-90 ≤ |x| ≤ 600`: within `2^-100·|tanh x| + 2^-101`.  PARTIAL in the range (TARGET: all
    `|x| ≤ 600`): for `|x| < 2^-90` the computed numerator `exp(x) − exp(−x)` is only known to `≈ 2^-100` absolute, so
    it may be tiny or zero and the long division leaves the range of the proved division theorem
    (`Exp2Bound.div_rv`, `16u²`).  The error analysis itself (`tanh_real`) gives `29u² + 43.1u²·|tanh x|`.
-/
import TFV.Lemmas.Exp2Bound
import Mathlib.Analysis.Complex.Trigonometric

set_option exponentiation.threshold 4000

namespace C18h

open F64 TwoFloat ConstBounds ExpBound Exp2Bound

/-- exact real value `hi + lo` of a pair -/
noncomputable abbrev val (t : TwoFloat) : ℝ := ExpBound.rv t

/-! ## real-number cores -/

/-- `2^-867 ≤ e^v ≤ 2^867` for `|v| ≤ 600` -/
theorem exp_range_600 {v : ℝ} (h : |v| ≤ 600) : 1 / 2 ^ 867 ≤ Real.exp v ∧ Real.exp v ≤ 2 ^ 867 := by
  obtain ⟨h1, h2⟩ := abs_le.1 h
  have hk := exp_half_le_867 (k := 1200) (by norm_num) (by norm_num)
  have e : (((1200 : ℤ)) : ℝ) / 2 = 600 := by norm_num
  rw [e] at hk
  constructor
  · have : Real.exp (-600) ≤ Real.exp v := Real.exp_le_exp.2 h1
    rw [Real.exp_neg] at this
    have hp := Real.exp_pos 600
    have : (2 ^ 867 : ℝ)⁻¹ ≤ (Real.exp 600)⁻¹ := inv_anti₀ hp hk
    rw [one_div]; linarith
  · exact le_trans (Real.exp_le_exp.2 h2) hk

/-- halving an approximation of `A ≥ 2^-867` -/
theorem half_real {a a' A α : ℝ} (hA : 1 / 2 ^ 867 ≤ A) (ha : |a - A| ≤ α * A) (_hα0 : 0 ≤ α) (hα : α ≤ 1 / 1000)
    (ha' : |a' - a / 2| ≤ 1001 / 1000 / 2 ^ 106 * |a / 2| + 1 / 2 ^ 1075) :
    |a' - A / 2| ≤ (α + 11 / 10 / 2 ^ 106) * (A / 2) := by
  have hA0 : 0 < A := lt_of_lt_of_le (by positivity) hA
  have h1 : |a| ≤ (1 + α) * A := by
    have := abs_sub_abs_le_abs_sub a A
    rw [abs_of_pos hA0] at this
    linarith
  have h2 : |a / 2| ≤ (1 + α) * A / 2 := by
    rw [abs_div, abs_of_pos (by norm_num : (0 : ℝ) < 2)]; linarith
  have h3 := mul_le_mul_of_nonneg_left h2 (by positivity : (0 : ℝ) ≤ 1001 / 1000 / 2 ^ 106)
  have h4 : (1 : ℝ) / 2 ^ 1075 ≤ 1 / 100 / 2 ^ 106 * (A / 2) := by
    have : (1 : ℝ) / 100 / 2 ^ 106 * (1 / 2 ^ 867 / 2) ≤ 1 / 100 / 2 ^ 106 * (A / 2) :=
      mul_le_mul_of_nonneg_left (by linarith) (by positivity)
    refine le_trans ?_ this
    norm_num
  have h5 : (1001 : ℝ) / 1000 / 2 ^ 106 * ((1 + α) * A / 2) ≤ 1003 / 1000 / 2 ^ 106 * (A / 2) := by
    have : (1001 : ℝ) / 1000 / 2 ^ 106 * ((1 + α) * A / 2) = (1001 / 1000 * (1 + α)) / 2 ^ 106 * (A / 2) := by ring
    rw [this]
    refine mul_le_mul_of_nonneg_right ?_ (by linarith)
    refine div_le_div_of_nonneg_right ?_ (by positivity)
    nlinarith
  have h6 := abs_add_le (a' - a / 2) ((a - A) / 2)
  rw [show a' - a / 2 + (a - A) / 2 = a' - A / 2 by ring] at h6
  have h7 : |(a - A) / 2| ≤ α * A / 2 := by
    rw [abs_div, abs_of_pos (by norm_num : (0 : ℝ) < 2)]; linarith
  have e : (α + 11 / 10 / 2 ^ 106) * (A / 2)
      = α * A / 2 + 1003 / 1000 / 2 ^ 106 * (A / 2) + 1 / 100 / 2 ^ 106 * (A / 2) + 87 / 1000 / 2 ^ 106 * (A / 2) := by
    ring
  have h8 : (0 : ℝ) ≤ 87 / 1000 / 2 ^ 106 * (A / 2) := by positivity
  linarith

/-! ## `exp(±x) / 2` -/

private abbrev two : F64 := f64lit 0x4000000000000000

/-- **`exp(x) / 2.0`** for a valid `x`, `|x| ≤ 600`: a valid pair within relative `38.1u²` (`22.1u²` for `x ≥ 0`) of
`e^x / 2` -/
theorem exp_halved (x : TwoFloat) (hx : VW x) (h : |rv x| ≤ 600) :
    VW (arithmetic.impl_Div_f64_for_TwoFloat.div (TwoFloat.exp x) two) ∧
    |rv (arithmetic.impl_Div_f64_for_TwoFloat.div (TwoFloat.exp x) two) - Real.exp (rv x) / 2|
      ≤ 381 / 10 / 2 ^ 106 * (Real.exp (rv x) / 2) ∧
    (0 ≤ rv x → |rv (arithmetic.impl_Div_f64_for_TwoFloat.div (TwoFloat.exp x) two) - Real.exp (rv x) / 2|
      ≤ 221 / 10 / 2 ^ 106 * (Real.exp (rv x) / 2)) ∧
    |rv (arithmetic.impl_Div_f64_for_TwoFloat.div (TwoFloat.exp x) two)| ≤ 2 ^ 1000 := by
  obtain ⟨h1, h2⟩ := abs_le.1 h
  obtain ⟨evw, e37, e21⟩ := exp_bound_split x hx.1 hx.2 (by linarith) (by linarith)
  obtain ⟨r1, r2⟩ := exp_range_600 h
  have hp := Real.exp_pos (rv x)
  have habs : Real.exp (rv x) / 2 ≤ |rv (TwoFloat.exp x)| ∧ |rv (TwoFloat.exp x)| ≤ 2 * Real.exp (rv x) := by
    have h3 := abs_sub_abs_le_abs_sub (rv (TwoFloat.exp x)) (Real.exp (rv x))
    have h4 := abs_sub_abs_le_abs_sub (Real.exp (rv x)) (rv (TwoFloat.exp x))
    rw [abs_of_pos hp] at h3 h4
    rw [abs_sub_comm] at h4
    have : (37 : ℝ) / 2 ^ 106 * Real.exp (rv x) ≤ Real.exp (rv x) / 2 := by
      have : (37 : ℝ) / 2 ^ 106 ≤ 1 / 2 := by norm_num
      nlinarith
    constructor <;> linarith
  have hdvd : (2 : ℤ) ^ 1 ∣ (TwoFloat.exp x).hi.toInt := by
    apply dvd_hi_of_rv evw _ (by norm_num)
    have : (1 : ℝ) / 2 ^ 900 ≤ 1 / 2 ^ 867 / 2 := by norm_num
    linarith [habs.1]
  obtain ⟨dvw, hd⟩ := div_pow2_rv evw two_isVal (le_refl 1) hdvd
  rw [pow_one] at hd
  refine ⟨dvw, ?_, ?_, ?_⟩
  · have := half_real r1 e37 (by positivity) (by norm_num) hd
    refine le_trans this ?_
    exact mul_le_mul_of_nonneg_right (by norm_num) (by positivity)
  · intro h0
    have := half_real r1 (e21 h0) (by positivity) (by norm_num) hd
    refine le_trans this ?_
    exact mul_le_mul_of_nonneg_right (by norm_num) (by positivity)
  · have h3 := abs_sub_abs_le_abs_sub (rv (arithmetic.impl_Div_f64_for_TwoFloat.div (TwoFloat.exp x) two))
      (rv (TwoFloat.exp x) / 2)
    have h4 : |rv (TwoFloat.exp x) / 2| ≤ 2 ^ 867 := by
      rw [abs_div, abs_of_pos (by norm_num : (0 : ℝ) < 2)]; linarith [habs.2]
    have h5 := mul_le_mul_of_nonneg_left h4 (by positivity : (0 : ℝ) ≤ 1001 / 1000 / 2 ^ 106)
    have e : (1001 : ℝ) / 1000 / 2 ^ 106 * 2 ^ 867 + 1 / 2 ^ 1075 + 2 ^ 867 ≤ 2 ^ 1000 := by norm_num
    linarith

/-! ## cosh -/

/-- real-number core of `cosh` -/
theorem cosh_real {a b r A B γ : ℝ} (hA : 0 < A) (hB : 0 < B) (ha : |a - A / 2| ≤ γ * (A / 2))
    (hb : |b - B / 2| ≤ γ * (B / 2)) (hr : |r - (a + b)| ≤ cA * |a + b|) (_hγ : 0 ≤ γ) :
    |r - (A + B) / 2| ≤ (γ + cA * (1 + γ)) * ((A + B) / 2) := by
  have hC : 0 < (A + B) / 2 := by positivity
  have h1 : |a + b - (A + B) / 2| ≤ γ * ((A + B) / 2) := by
    have := abs_add_le (a - A / 2) (b - B / 2)
    rw [show a - A / 2 + (b - B / 2) = a + b - (A + B) / 2 by ring] at this
    have e : γ * ((A + B) / 2) = γ * (A / 2) + γ * (B / 2) := by ring
    linarith
  have h2 : |a + b| ≤ (1 + γ) * ((A + B) / 2) := by
    have := abs_sub_abs_le_abs_sub (a + b) ((A + B) / 2)
    rw [abs_of_pos hC] at this
    linarith
  have h3 := abs_add_le (r - (a + b)) (a + b - (A + B) / 2)
  rw [show r - (a + b) + (a + b - (A + B) / 2) = r - (A + B) / 2 by ring] at h3
  have h4 := mul_le_mul_of_nonneg_left h2 cA_nonneg
  have e : (γ + cA * (1 + γ)) * ((A + B) / 2) = γ * ((A + B) / 2) + cA * ((1 + γ) * ((A + B) / 2)) := by ring
  linarith

theorem scale_le {c E : ℝ} {n : ℕ} (hE : 0 ≤ E) (hc : c ≤ 1 / 2 ^ n) : c * E ≤ E / 2 ^ n := by
  calc c * E ≤ 1 / 2 ^ n * E := mul_le_mul_of_nonneg_right hc hE
    _ = E / 2 ^ n := by ring

/-- what the analysis gives for `cosh`: relative error at most `41.2u²` -/
theorem cosh_bound_41 (x : TwoFloat) (hv : x.Valid) (hw : x.WF) (h : |val x| ≤ 600) :
    (TwoFloat.cosh x).Valid ∧ (TwoFloat.cosh x).WF ∧
    |val (TwoFloat.cosh x) - Real.cosh (val x)| ≤ 412 / 10 / 2 ^ 106 * Real.cosh (val x) := by
  obtain ⟨nvw, hn⟩ := neg_rv ⟨hv, hw⟩
  obtain ⟨pvw, hp, -, pb⟩ := exp_halved x ⟨hv, hw⟩ h
  obtain ⟨mvw, hm, -, mb⟩ := exp_halved _ nvw (by rw [hn, abs_neg]; exact h)
  rw [hn] at hm
  obtain ⟨rvw, hr⟩ := add_rv pvw mvw pb mb
  refine ⟨rvw.1, rvw.2, ?_⟩
  have core := cosh_real (Real.exp_pos (rv x)) (Real.exp_pos (-rv x)) hp hm hr (by positivity)
  rw [Real.cosh_eq]
  refine le_trans core ?_
  refine mul_le_mul_of_nonneg_right ?_ (by positivity)
  have := cA_le'
  have e : (381 : ℝ) / 10 / 2 ^ 106 + 301 / 100 / 2 ^ 106 * (1 + 381 / 10 / 2 ^ 106) ≤ 412 / 10 / 2 ^ 106 := by norm_num
  have h2 : cA * (1 + 381 / 10 / 2 ^ 106) ≤ 301 / 100 / 2 ^ 106 * (1 + 381 / 10 / 2 ^ 106) :=
    mul_le_mul_of_nonneg_right this (by positivity)
  linarith

/-- **Property C18, accuracy of `cosh`**: for every valid `x` with `|x| ≤ 600`, `cosh(x)` is a valid pair within
relative `2^-100` of `cosh x` -/
theorem cosh_bound (x : TwoFloat) (hv : x.Valid) (hw : x.WF) (h : |val x| ≤ 600) :
    (TwoFloat.cosh x).Valid ∧ |val (TwoFloat.cosh x) - Real.cosh (val x)| ≤ Real.cosh (val x) / 2 ^ 100 := by
  obtain ⟨h1, _, h3⟩ := cosh_bound_41 x hv hw h
  exact ⟨h1, le_trans h3 (scale_le (Real.cosh_pos _).le (by norm_num))⟩

/-! ## sinh -/

/-- real-number core of `sinh`, `v ≥ 0` (`A = e^v ≥ 1 ≥ B = e^-v`) -/
theorem sinh_real {a b r A B : ℝ} (hA : 1 ≤ A) (_hB0 : 0 < B) (hB : B ≤ 1)
    (ha : |a - A / 2| ≤ 221 / 10 / 2 ^ 106 * (A / 2))
    (hb : |b - B / 2| ≤ 381 / 10 / 2 ^ 106 * (B / 2)) (hr : |r - (a - b)| ≤ cA * |a - b|) :
    |r - (A - B) / 2| ≤ ((A - B) / 2) / 2 ^ 100 + 1 / 2 ^ 101 := by
  have hS : 0 ≤ (A - B) / 2 := by linarith
  have h1 : |a - b - (A - B) / 2| ≤ 221 / 10 / 2 ^ 106 * (A / 2) + 381 / 10 / 2 ^ 106 * (B / 2) := by
    have := abs_add_le (a - A / 2) (-(b - B / 2))
    rw [abs_neg, show a - A / 2 + -(b - B / 2) = a - b - (A - B) / 2 by ring] at this
    linarith
  have h2 : |a - b| ≤ (A - B) / 2 + (221 / 10 / 2 ^ 106 * (A / 2) + 381 / 10 / 2 ^ 106 * (B / 2)) := by
    have := abs_sub_abs_le_abs_sub (a - b) ((A - B) / 2)
    rw [abs_of_nonneg hS] at this
    linarith
  have h3 := abs_add_le (r - (a - b)) (a - b - (A - B) / 2)
  rw [show r - (a - b) + (a - b - (A - B) / 2) = r - (A - B) / 2 by ring] at h3
  have h4 : cA * |a - b| ≤ 301 / 100 / 2 ^ 106 *
      ((A - B) / 2 + (221 / 10 / 2 ^ 106 * (A / 2) + 381 / 10 / 2 ^ 106 * (B / 2))) :=
    mul_le_mul cA_le' h2 (abs_nonneg _) (by positivity)
  have e100 : ((A - B) / 2) / 2 ^ 100 = 64 / 2 ^ 106 * ((A - B) / 2) := by norm_num; ring
  have e101 : (1 : ℝ) / 2 ^ 101 = 32 / 2 ^ 106 := by norm_num
  rw [e100, e101]
  have hu : (0 : ℝ) < 1 / 2 ^ 106 := by positivity
  -- everything is linear in A, B with numeric coefficients
  have key : 301 / 100 / 2 ^ 106 * ((A - B) / 2 + (221 / 10 / 2 ^ 106 * (A / 2) + 381 / 10 / 2 ^ 106 * (B / 2)))
      + (221 / 10 / 2 ^ 106 * (A / 2) + 381 / 10 / 2 ^ 106 * (B / 2))
      ≤ 64 / 2 ^ 106 * ((A - B) / 2) + 32 / 2 ^ 106 := by
    have e : 64 / 2 ^ 106 * ((A - B) / 2) + 32 / 2 ^ 106
        - (301 / 100 / 2 ^ 106 * ((A - B) / 2 + (221 / 10 / 2 ^ 106 * (A / 2) + 381 / 10 / 2 ^ 106 * (B / 2)))
          + (221 / 10 / 2 ^ 106 * (A / 2) + 381 / 10 / 2 ^ 106 * (B / 2)))
        = 1 / 2 ^ 106 * ((32 - 301 / 200 - 221 / 20 - 301 / 100 / 2 ^ 106 * (221 / 20)) * (A - 1)
            + (32 + 381 / 20 - 301 / 200 + 301 / 100 / 2 ^ 106 * (381 / 20)) * (1 - B)
            + (32 - 221 / 20 - 381 / 20 - 301 / 100 / 2 ^ 106 * (221 / 20 + 381 / 20))) := by ring
    have t1 : (0 : ℝ) ≤ (32 - 301 / 200 - 221 / 20 - 301 / 100 / 2 ^ 106 * (221 / 20)) * (A - 1) :=
      mul_nonneg (by norm_num) (by linarith)
    have t2 : (0 : ℝ) ≤ (32 + 381 / 20 - 301 / 200 + 301 / 100 / 2 ^ 106 * (381 / 20)) * (1 - B) :=
      mul_nonneg (by norm_num) (by linarith)
    have t3 : (0 : ℝ) ≤ 32 - 221 / 20 - 381 / 20 - 301 / 100 / 2 ^ 106 * (221 / 20 + 381 / 20) := by norm_num
    have : (0 : ℝ) ≤ 1 / 2 ^ 106 * ((32 - 301 / 200 - 221 / 20 - 301 / 100 / 2 ^ 106 * (221 / 20)) * (A - 1)
            + (32 + 381 / 20 - 301 / 200 + 301 / 100 / 2 ^ 106 * (381 / 20)) * (1 - B)
            + (32 - 221 / 20 - 381 / 20 - 301 / 100 / 2 ^ 106 * (221 / 20 + 381 / 20))) :=
      mul_nonneg hu.le (by linarith)
    linarith
  linarith

/-- **Property C18, accuracy of `sinh`**: for every valid `x` with `|x| ≤ 600`, `sinh(x)` is a valid pair within
`2^-100·|sinh x| + 2^-101` of `sinh x` -/
theorem sinh_bound (x : TwoFloat) (hv : x.Valid) (hw : x.WF) (h : |val x| ≤ 600) :
    (TwoFloat.sinh x).Valid ∧ (TwoFloat.sinh x).WF ∧
    |val (TwoFloat.sinh x) - Real.sinh (val x)| ≤ |Real.sinh (val x)| / 2 ^ 100 + 1 / 2 ^ 101 := by
  obtain ⟨nvw, hn⟩ := neg_rv ⟨hv, hw⟩
  obtain ⟨pvw, hp37, hp21, pb⟩ := exp_halved x ⟨hv, hw⟩ h
  obtain ⟨mvw, hm37, hm21, mb⟩ := exp_halved _ nvw (by rw [hn, abs_neg]; exact h)
  rw [hn] at hm37 hm21
  obtain ⟨rvw, hr⟩ := sub_rv pvw mvw pb mb
  refine ⟨rvw.1, rvw.2, ?_⟩
  rw [Real.sinh_eq]
  show |rv (arithmetic.impl_Sub_TwoFloat_for_TwoFloat.sub
      (arithmetic.impl_Div_f64_for_TwoFloat.div (TwoFloat.exp x) two)
      (arithmetic.impl_Div_f64_for_TwoFloat.div (TwoFloat.exp (arithmetic.impl_Neg_for_TwoFloat.neg x)) two))
      - (Real.exp (rv x) - Real.exp (-rv x)) / 2| ≤ _
  generalize rv (arithmetic.impl_Sub_TwoFloat_for_TwoFloat.sub
      (arithmetic.impl_Div_f64_for_TwoFloat.div (TwoFloat.exp x) two)
      (arithmetic.impl_Div_f64_for_TwoFloat.div (TwoFloat.exp (arithmetic.impl_Neg_for_TwoFloat.neg x)) two)) = r at *
  generalize rv (arithmetic.impl_Div_f64_for_TwoFloat.div (TwoFloat.exp x) two) = a at *
  generalize rv (arithmetic.impl_Div_f64_for_TwoFloat.div (TwoFloat.exp (arithmetic.impl_Neg_for_TwoFloat.neg x)) two)
    = b at *
  have hA0 := Real.exp_pos (rv x)
  have hB0 := Real.exp_pos (-rv x)
  by_cases h0 : 0 ≤ rv x
  · have hA : 1 ≤ Real.exp (rv x) := Real.one_le_exp h0
    have hB : Real.exp (-rv x) ≤ 1 := by
      rw [← Real.exp_zero]; exact Real.exp_le_exp.2 (by linarith)
    have core := sinh_real hA hB0 hB (hp21 h0) hm37 hr
    rwa [abs_of_nonneg (by linarith : (0 : ℝ) ≤ (Real.exp (rv x) - Real.exp (-rv x)) / 2)]
  · have h0' : 0 ≤ -rv x := by linarith
    have hB : 1 ≤ Real.exp (-rv x) := Real.one_le_exp h0'
    have hA : Real.exp (rv x) ≤ 1 := by
      rw [← Real.exp_zero]; exact Real.exp_le_exp.2 (by linarith)
    have hr' : |(-r) - (b - a)| ≤ cA * |b - a| := by
      rw [show -r - (b - a) = -(r - (a - b)) by ring, abs_neg, abs_sub_comm b a]; exact hr
    have core := sinh_real hB hA0 hA (hm21 h0') hp37 hr'
    rw [show -r - (Real.exp (-rv x) - Real.exp (rv x)) / 2 = -(r - (Real.exp (rv x) - Real.exp (-rv x)) / 2) by ring,
      abs_neg] at core
    rw [abs_of_nonpos (by linarith : (Real.exp (rv x) - Real.exp (-rv x)) / 2 ≤ 0)]
    rw [show -((Real.exp (rv x) - Real.exp (-rv x)) / 2) = (Real.exp (-rv x) - Real.exp (rv x)) / 2 by ring]
    exact core

/-! ## tanh -/

/-- a quotient of two approximations, `n ≈ t ≥ 0`, `d ≈ 1`, followed by one relative rounding `θ` -/
theorem quot_real {t n d q δn δd θ : ℝ} (ht : 0 ≤ t) (hn : |n - t| ≤ δn) (hd : |d - 1| ≤ δd) (hδ : δd ≤ 1 / 2)
    (hq : |q - n / d| ≤ θ * |n / d|) (hθ : 0 ≤ θ) :
    |q - t| ≤ (1 + θ) * ((δn + t * δd) / (1 - δd)) + θ * t := by
  obtain ⟨d1, d2⟩ := abs_le.1 hd
  have hδn : 0 ≤ δn := le_trans (abs_nonneg _) hn
  have hδd : 0 ≤ δd := le_trans (abs_nonneg _) hd
  have hd0 : 0 < 1 - δd := by linarith
  have hdpos : 0 < d := by linarith
  have hnum : |n - t - t * (d - 1)| ≤ δn + t * δd := by
    have := abs_add_le (n - t) (-(t * (d - 1)))
    rw [abs_neg, abs_mul, abs_of_nonneg ht, show n - t + -(t * (d - 1)) = n - t - t * (d - 1) by ring] at this
    have h2 : t * |d - 1| ≤ t * δd := mul_le_mul_of_nonneg_left hd ht
    linarith
  have hX : |n / d - t| ≤ (δn + t * δd) / (1 - δd) := by
    have e : n / d - t = (n - t - t * (d - 1)) / d := by field_simp; ring
    rw [e, abs_div, abs_of_pos hdpos]
    calc |n - t - t * (d - 1)| / d ≤ (δn + t * δd) / d :=
          div_le_div_of_nonneg_right hnum hdpos.le
      _ ≤ (δn + t * δd) / (1 - δd) :=
          div_le_div_of_nonneg_left (by positivity) hd0 (by linarith)
  have hnd : |n / d| ≤ t + (δn + t * δd) / (1 - δd) := by
    have := abs_sub_abs_le_abs_sub (n / d) t
    rw [abs_of_nonneg ht] at this
    linarith
  have h1 := abs_add_le (q - n / d) (n / d - t)
  rw [show q - n / d + (n / d - t) = q - t by ring] at h1
  have h2 := mul_le_mul_of_nonneg_left hnd hθ
  have e : (1 + θ) * ((δn + t * δd) / (1 - δd)) + θ * t
      = θ * (t + (δn + t * δd) / (1 - δd)) + (δn + t * δd) / (1 - δd) := by ring
  linarith

/-- real-number core of `tanh`, `v ≥ 0` (`A = e^v ≥ B = e^-v > 0`; `u = 2^-106` stands for `u²`) -/
theorem tanh_real {a b n d q A B : ℝ} (hAB : B ≤ A) (hB0 : 0 < B)
    (ha : |a - A| ≤ 21 / 2 ^ 106 * A) (hb : |b - B| ≤ 37 / 2 ^ 106 * B)
    (hn : |n - (a - b)| ≤ cA * |a - b|) (hd : |d - (a + b)| ≤ cA * |a + b|)
    (hq : |q - n / d| ≤ 1 / 2 ^ 102 * |n / d|) :
    |q - (A - B) / (A + B)| ≤ ((A - B) / (A + B)) / 2 ^ 100 + 1 / 2 ^ 101 := by
  have hA0 : 0 < A := lt_of_lt_of_le hB0 hAB
  have hD : 0 < A + B := by linarith
  set D := A + B with hDdef
  set t := (A - B) / D with htdef
  set w := (21 / 2 ^ 106 * A + 37 / 2 ^ 106 * B) / D with hwdef
  have ht0 : 0 ≤ t := div_nonneg (by linarith) hD.le
  have ht1 : t ≤ 1 := by rw [htdef, div_le_one hD]; linarith
  have hw0 : 0 ≤ w := by positivity
  have hw37 : w ≤ 37 / 2 ^ 106 := by
    rw [hwdef, div_le_iff₀ hD, hDdef]
    nlinarith
  have hwt : w * (1 + t) ≤ 1 / 2 ^ 106 * (29 + 21 * t) := by
    have e1 : w * (1 + t) = (21 / 2 ^ 106 * A + 37 / 2 ^ 106 * B) * (2 * A) / (D * D) := by
      rw [hwdef, htdef]; field_simp; rw [hDdef]; ring
    have e2 : (1 : ℝ) / 2 ^ 106 * (29 + 21 * t) = 1 / 2 ^ 106 * ((50 * A + 8 * B) * D) / (D * D) := by
      rw [htdef]; field_simp; rw [hDdef]; ring
    rw [e1, e2, div_le_div_iff_of_pos_right (by positivity), hDdef]
    have : (0 : ℝ) ≤ 1 / 2 ^ 106 * (8 * (A - B) ^ 2) :=
      mul_nonneg (by norm_num) (mul_nonneg (by norm_num) (sq_nonneg _))
    nlinarith
  -- the sums and differences of the two exponentials
  have hW : |a - b - (A - B)| ≤ w * D ∧ |a + b - D| ≤ w * D := by
    have e : w * D = 21 / 2 ^ 106 * A + 37 / 2 ^ 106 * B := by rw [hwdef]; field_simp
    rw [e]
    constructor
    · have := abs_add_le (a - A) (-(b - B))
      rw [abs_neg, show a - A + -(b - B) = a - b - (A - B) by ring] at this
      linarith
    · have := abs_add_le (a - A) (b - B)
      rw [show a - A + (b - B) = a + b - D by rw [hDdef]; ring] at this
      linarith
  have hN : |a - b| ≤ (t + w) * D := by
    have := abs_sub_abs_le_abs_sub (a - b) (A - B)
    rw [abs_of_nonneg (by linarith : (0 : ℝ) ≤ A - B)] at this
    have e : (t + w) * D = (A - B) + w * D := by rw [htdef]; field_simp
    linarith [hW.1]
  have hDD : |a + b| ≤ (1 + w) * D := by
    have := abs_sub_abs_le_abs_sub (a + b) D
    rw [abs_of_pos hD] at this
    have e : (1 + w) * D = D + w * D := by ring
    linarith [hW.2]
  have hn' : |n / D - t| ≤ 301 / 100 / 2 ^ 106 * (t + w) + w := by
    have e : n / D - t = (n - (A - B)) / D := by rw [htdef]; field_simp
    rw [e, abs_div, abs_of_pos hD, div_le_iff₀ hD]
    have h1 := abs_add_le (n - (a - b)) (a - b - (A - B))
    rw [show n - (a - b) + (a - b - (A - B)) = n - (A - B) by ring] at h1
    have h2 : cA * |a - b| ≤ 301 / 100 / 2 ^ 106 * ((t + w) * D) :=
      mul_le_mul cA_le' hN (abs_nonneg _) (by positivity)
    have e2 : (301 / 100 / 2 ^ 106 * (t + w) + w) * D = 301 / 100 / 2 ^ 106 * ((t + w) * D) + w * D := by ring
    linarith [hW.1]
  have hd' : |d / D - 1| ≤ 301 / 100 / 2 ^ 106 * (1 + w) + w := by
    have e : d / D - 1 = (d - D) / D := by field_simp
    rw [e, abs_div, abs_of_pos hD, div_le_iff₀ hD]
    have h1 := abs_add_le (d - (a + b)) (a + b - D)
    rw [show d - (a + b) + (a + b - D) = d - D by ring] at h1
    have h2 : cA * |a + b| ≤ 301 / 100 / 2 ^ 106 * ((1 + w) * D) :=
      mul_le_mul cA_le' hDD (abs_nonneg _) (by positivity)
    have e2 : (301 / 100 / 2 ^ 106 * (1 + w) + w) * D = 301 / 100 / 2 ^ 106 * ((1 + w) * D) + w * D := by ring
    linarith [hW.2]
  have hq' : |q - (n / D) / (d / D)| ≤ 1 / 2 ^ 102 * |(n / D) / (d / D)| := by
    have e : (n / D) / (d / D) = n / d := by
      by_cases hd0 : d = 0
      · rw [hd0]; simp
      · field_simp
    rw [e]; exact hq
  have hδd : 301 / 100 / 2 ^ 106 * (1 + w) + w ≤ 41 / 2 ^ 106 := by
    have : 301 / 100 / 2 ^ 106 * (1 + w) ≤ 301 / 100 / 2 ^ 106 * (1 + 37 / 2 ^ 106) :=
      mul_le_mul_of_nonneg_left (by linarith) (by positivity)
    have e : (301 : ℝ) / 100 / 2 ^ 106 * (1 + 37 / 2 ^ 106) + 37 / 2 ^ 106 ≤ 41 / 2 ^ 106 := by norm_num
    linarith
  have core := quot_real ht0 hn' hd' (le_trans hδd (by norm_num)) hq' (by positivity)
  refine le_trans core ?_
  -- numerics
  set δd := 301 / 100 / 2 ^ 106 * (1 + w) + w with hδddef
  have hδd0 : 0 ≤ δd := by positivity
  have hden : 0 < 1 - δd := by
    have : (41 : ℝ) / 2 ^ 106 < 1 := by norm_num
    linarith
  have hnum : 301 / 100 / 2 ^ 106 * (t + w) + w + t * δd
      ≤ 1 / 2 ^ 106 * (29 + 2703 / 100 * t) + 1 / 2 ^ 106 * (1 / 2 ^ 90) := by
    have e : 301 / 100 / 2 ^ 106 * (t + w) + w + t * δd
        = w * (1 + t) + 301 / 100 / 2 ^ 106 * (2 * t) + 301 / 100 / 2 ^ 106 * (w + t * w) := by
      rw [hδddef]; ring
    rw [e]
    have h1 : w + t * w ≤ 2 * (37 / 2 ^ 106) := by nlinarith
    have h2 : 301 / 100 / 2 ^ 106 * (w + t * w) ≤ 301 / 100 / 2 ^ 106 * (2 * (37 / 2 ^ 106)) :=
      mul_le_mul_of_nonneg_left h1 (by positivity)
    have e3 : (301 : ℝ) / 100 / 2 ^ 106 * (2 * (37 / 2 ^ 106)) ≤ 1 / 2 ^ 106 * (1 / 2 ^ 90) := by norm_num
    have e4 : (1 : ℝ) / 2 ^ 106 * (29 + 2703 / 100 * t)
        = 1 / 2 ^ 106 * (29 + 21 * t) + 301 / 100 / 2 ^ 106 * (2 * t) + 1 / 2 ^ 106 * (1 / 100 * t) := by ring
    have h5 : (0 : ℝ) ≤ 1 / 2 ^ 106 * (1 / 100 * t) :=
      mul_nonneg (by norm_num) (mul_nonneg (by norm_num) ht0)
    linarith
  have hfrac : (301 / 100 / 2 ^ 106 * (t + w) + w + t * δd) / (1 - δd)
      ≤ 1 / 2 ^ 106 * (2901 / 100 + 2704 / 100 * t) := by
    rw [div_le_iff₀ hden]
    have h1 : 1 - 41 / 2 ^ 106 ≤ 1 - δd := by linarith
    have h2 : (0 : ℝ) ≤ 1 / 2 ^ 106 * (2901 / 100 + 2704 / 100 * t) := by positivity
    have h3 : 1 / 2 ^ 106 * (2901 / 100 + 2704 / 100 * t) * (1 - 41 / 2 ^ 106)
        ≤ 1 / 2 ^ 106 * (2901 / 100 + 2704 / 100 * t) * (1 - δd) := mul_le_mul_of_nonneg_left h1 h2
    refine le_trans hnum (le_trans ?_ h3)
    have e : 1 / 2 ^ 106 * (2901 / 100 + 2704 / 100 * t) * (1 - 41 / 2 ^ 106)
        - (1 / 2 ^ 106 * (29 + 2703 / 100 * t) + 1 / 2 ^ 106 * (1 / 2 ^ 90))
        = 1 / 2 ^ 106 * ((1 / 100 - 2901 / 100 * (41 / 2 ^ 106) - 1 / 2 ^ 90)
            + (1 / 100 - 2704 / 100 * (41 / 2 ^ 106)) * t) := by ring
    have t1 : (0 : ℝ) ≤ (1 / 100 - 2704 / 100 * (41 / 2 ^ 106)) * t := mul_nonneg (by norm_num) ht0
    have t2 : (0 : ℝ) ≤ 1 / 100 - 2901 / 100 * (41 / 2 ^ 106) - 1 / 2 ^ 90 := by norm_num
    have : (0 : ℝ) ≤ 1 / 2 ^ 106 * ((1 / 100 - 2901 / 100 * (41 / 2 ^ 106) - 1 / 2 ^ 90)
            + (1 / 100 - 2704 / 100 * (41 / 2 ^ 106)) * t) := mul_nonneg (by positivity) (by linarith)
    linarith
  have hfin : (1 + 1 / 2 ^ 102) * (1 / 2 ^ 106 * (2901 / 100 + 2704 / 100 * t)) + 1 / 2 ^ 102 * t
      ≤ t / 2 ^ 100 + 1 / 2 ^ 101 := by
    have e : t / 2 ^ 100 + 1 / 2 ^ 101
        - ((1 + 1 / 2 ^ 102) * (1 / 2 ^ 106 * (2901 / 100 + 2704 / 100 * t)) + 1 / 2 ^ 102 * t)
        = 1 / 2 ^ 106 * ((32 - (1 + 1 / 2 ^ 102) * (2901 / 100))
            + (64 - 16 - (1 + 1 / 2 ^ 102) * (2704 / 100)) * t) := by ring
    have t1 : (0 : ℝ) ≤ (64 - 16 - (1 + 1 / 2 ^ 102) * (2704 / 100)) * t := mul_nonneg (by norm_num) ht0
    have t2 : (0 : ℝ) ≤ 32 - (1 + 1 / 2 ^ 102) * (2901 / 100) := by norm_num
    have : (0 : ℝ) ≤ 1 / 2 ^ 106 * ((32 - (1 + 1 / 2 ^ 102) * (2901 / 100))
            + (64 - 16 - (1 + 1 / 2 ^ 102) * (2704 / 100)) * t) := mul_nonneg (by positivity) (by linarith)
    linarith
  have h6 := mul_le_mul_of_nonneg_left hfrac (by positivity : (0 : ℝ) ≤ 1 + 1 / 2 ^ 102)
  linarith

/-- crude bounds on the computed numerator and denominator of `tanh` -/
theorem nd_real {a b n d A B : ℝ} (hA : 0 < A) (hB : 0 < B)
    (ha : |a - A| ≤ 37 / 2 ^ 106 * A) (hb : |b - B| ≤ 37 / 2 ^ 106 * B)
    (hn : |n - (a - b)| ≤ cA * |a - b|) (hd : |d - (a + b)| ≤ cA * |a + b|) :
    |n - (A - B)| ≤ 41 / 2 ^ 106 * (A + B) ∧ |d - (A + B)| ≤ 41 / 2 ^ 106 * (A + B) := by
  have hD : 0 < A + B := by linarith
  have h1 : |a - b - (A - B)| ≤ 37 / 2 ^ 106 * (A + B) := by
    have := abs_add_le (a - A) (-(b - B))
    rw [abs_neg, show a - A + -(b - B) = a - b - (A - B) by ring] at this
    linarith
  have h2 : |a + b - (A + B)| ≤ 37 / 2 ^ 106 * (A + B) := by
    have := abs_add_le (a - A) (b - B)
    rw [show a - A + (b - B) = a + b - (A + B) by ring] at this
    linarith
  have hNle : |A - B| ≤ A + B := by rw [abs_le]; constructor <;> linarith
  have h3 : |a - b| ≤ (1 + 37 / 2 ^ 106) * (A + B) := by
    have := abs_sub_abs_le_abs_sub (a - b) (A - B)
    linarith
  have h4 : |a + b| ≤ (1 + 37 / 2 ^ 106) * (A + B) := by
    have := abs_sub_abs_le_abs_sub (a + b) (A + B)
    rw [abs_of_pos hD] at this
    linarith
  have hc : cA * ((1 + 37 / 2 ^ 106) * (A + B)) ≤ 4 / 2 ^ 106 * (A + B) := by
    have : cA * (1 + 37 / 2 ^ 106) ≤ 301 / 100 / 2 ^ 106 * (1 + 37 / 2 ^ 106) :=
      mul_le_mul_of_nonneg_right cA_le' (by positivity)
    have e : (301 : ℝ) / 100 / 2 ^ 106 * (1 + 37 / 2 ^ 106) ≤ 4 / 2 ^ 106 := by norm_num
    calc cA * ((1 + 37 / 2 ^ 106) * (A + B)) = cA * (1 + 37 / 2 ^ 106) * (A + B) := by ring
      _ ≤ 4 / 2 ^ 106 * (A + B) := mul_le_mul_of_nonneg_right (le_trans this e) hD.le
  constructor
  · have := abs_add_le (n - (a - b)) (a - b - (A - B))
    rw [show n - (a - b) + (a - b - (A - B)) = n - (A - B) by ring] at this
    have h5 := mul_le_mul_of_nonneg_left h3 cA_nonneg
    linarith
  · have := abs_add_le (d - (a + b)) (a + b - (A + B))
    rw [show d - (a + b) + (a + b - (A + B)) = d - (A + B) by ring] at this
    have h5 := mul_le_mul_of_nonneg_left h4 cA_nonneg
    linarith

/-- `e^v − e^-v ≥ 2^-91 (e^v + e^-v)` for `v ≥ 2^-90` -/
theorem exp_diff_ge {v : ℝ} (hv : 1 / 2 ^ 90 ≤ v) :
    1 / 2 ^ 91 * (Real.exp v + Real.exp (-v)) ≤ Real.exp v - Real.exp (-v) := by
  have hB := Real.exp_pos (-v)
  have h1 : Real.exp v = Real.exp (-v) * Real.exp (2 * v) := by rw [← Real.exp_add]; congr 1; ring
  have h2 : 2 * v + 1 ≤ Real.exp (2 * v) := Real.add_one_le_exp _
  have h3 : Real.exp (-v) * (1 + 1 / 2 ^ 89) ≤ Real.exp v := by
    rw [h1]
    exact mul_le_mul_of_nonneg_left (by linarith) hB.le
  have e : (1 : ℝ) / 2 ^ 89 = 4 / 2 ^ 91 := by norm_num
  rw [e] at h3
  nlinarith

/-- **Property C18, accuracy of `tanh`** — PARTIAL in the range: for every valid `x` with `2^-90 ≤ |x| ≤ 600`,
`tanh(x)` is a valid pair within `2^-100·|tanh x| + 2^-101` of `tanh x`.
(TARGET: all `|x| ≤ 600`.  For `|x| < 2^-90` the computed numerator `exp(x) − exp(−x)` is only known through the
relative bound of `exp`, i.e. to `≈ 2^-100` absolute, so that it may be tiny or zero and the long division leaves the
range of the proved division theorem.) -/
theorem tanh_bound_partial (x : TwoFloat) (hv : x.Valid) (hw : x.WF) (hlo : 1 / 2 ^ 90 ≤ |val x|)
    (h : |val x| ≤ 600) :
    (TwoFloat.tanh x).Valid ∧ (TwoFloat.tanh x).WF ∧
    |val (TwoFloat.tanh x) - Real.tanh (val x)| ≤ |Real.tanh (val x)| / 2 ^ 100 + 1 / 2 ^ 101 := by
  obtain ⟨nvw, hn⟩ := neg_rv ⟨hv, hw⟩
  obtain ⟨h1, h2⟩ := abs_le.1 h
  obtain ⟨avw, a37, a21⟩ := exp_bound_split x hv hw (by linarith) (by linarith)
  obtain ⟨bvw, b37, b21⟩ := exp_bound_split _ nvw.1 nvw.2 (by rw [hn]; linarith) (by rw [hn]; linarith)
  rw [hn] at b37 b21
  obtain ⟨rA1, rA2⟩ := exp_range_600 h
  obtain ⟨rB1, rB2⟩ := exp_range_600 (v := -rv x) (by rw [abs_neg]; exact h)
  have hA0 := Real.exp_pos (rv x)
  have hB0 := Real.exp_pos (-rv x)
  have hAB : Real.exp (rv x) * Real.exp (-rv x) = 1 := by rw [← Real.exp_add]; simp
  have haabs : |rv (TwoFloat.exp x)| ≤ 2 ^ 1000 := by
    have := abs_sub_abs_le_abs_sub (rv (TwoFloat.exp x)) (Real.exp (rv x))
    rw [abs_of_pos hA0] at this
    have h3 : (37 : ℝ) / 2 ^ 106 * Real.exp (rv x) ≤ Real.exp (rv x) := by
      have : (37 : ℝ) / 2 ^ 106 ≤ 1 := by norm_num
      nlinarith
    have e : (2 : ℝ) ^ 867 + 2 ^ 867 ≤ 2 ^ 1000 := by norm_num
    linarith
  have hbabs : |rv (TwoFloat.exp (arithmetic.impl_Neg_for_TwoFloat.neg x))| ≤ 2 ^ 1000 := by
    have := abs_sub_abs_le_abs_sub (rv (TwoFloat.exp (arithmetic.impl_Neg_for_TwoFloat.neg x))) (Real.exp (-rv x))
    rw [abs_of_pos hB0] at this
    have h3 : (37 : ℝ) / 2 ^ 106 * Real.exp (-rv x) ≤ Real.exp (-rv x) := by
      have : (37 : ℝ) / 2 ^ 106 ≤ 1 := by norm_num
      nlinarith
    have e : (2 : ℝ) ^ 867 + 2 ^ 867 ≤ 2 ^ 1000 := by norm_num
    linarith
  obtain ⟨numvw, hnum⟩ := sub_rv avw bvw haabs hbabs
  obtain ⟨denvw, hden⟩ := add_rv avw bvw haabs hbabs
  obtain ⟨nd1, nd2⟩ := nd_real hA0 hB0 a37 b37 hnum hden
  -- the size of the exact numerator and denominator
  have hD2 : 2 ≤ Real.exp (rv x) + Real.exp (-rv x) := by nlinarith [sq_nonneg (Real.exp (rv x) - Real.exp (-rv x))]
  have hDle : Real.exp (rv x) + Real.exp (-rv x) ≤ 2 ^ 868 := by
    have : (2 : ℝ) ^ 868 = 2 ^ 867 + 2 ^ 867 := by norm_num
    linarith
  have hNge : 1 / 2 ^ 91 * (Real.exp (rv x) + Real.exp (-rv x)) ≤ |Real.exp (rv x) - Real.exp (-rv x)| := by
    by_cases h0 : 0 ≤ rv x
    · rw [abs_of_nonneg h0] at hlo
      exact le_trans (exp_diff_ge hlo) (le_abs_self _)
    · have h0' : rv x < 0 := not_le.1 h0
      rw [abs_of_neg h0'] at hlo
      have := exp_diff_ge (v := -rv x) hlo
      rw [_root_.neg_neg] at this
      have h5 := neg_le_abs (Real.exp (rv x) - Real.exp (-rv x))
      linarith
  set D := Real.exp (rv x) + Real.exp (-rv x) with hDdef
  set N := Real.exp (rv x) - Real.exp (-rv x) with hNdef
  have hNle : |N| ≤ D := by rw [abs_le]; constructor <;> rw [hNdef, hDdef] <;> linarith
  -- ranges of the computed numerator and denominator
  generalize hnumr : rv (arithmetic.impl_Sub_TwoFloat_for_TwoFloat.sub (TwoFloat.exp x)
    (TwoFloat.exp (arithmetic.impl_Neg_for_TwoFloat.neg x))) = nr at *
  generalize hdenr : rv (arithmetic.impl_Add_TwoFloat_for_TwoFloat.add (TwoFloat.exp x)
    (TwoFloat.exp (arithmetic.impl_Neg_for_TwoFloat.neg x))) = dr at *
  have hD0 : 0 < D := by linarith
  have e41 : (41 : ℝ) / 2 ^ 106 * D ≤ 1 / 2 ^ 100 * D := mul_le_mul_of_nonneg_right (by norm_num) hD0.le
  have n_lo : 1 / 2 ^ 92 * D ≤ |nr| := by
    have := abs_sub_abs_le_abs_sub N nr
    rw [abs_sub_comm N nr] at this
    have e : (1 : ℝ) / 2 ^ 91 * D - 1 / 2 ^ 100 * D = (1 / 2 ^ 91 - 1 / 2 ^ 100) * D := by ring
    have e2 : (1 : ℝ) / 2 ^ 92 * D ≤ (1 / 2 ^ 91 - 1 / 2 ^ 100) * D :=
      mul_le_mul_of_nonneg_right (by norm_num) hD0.le
    linarith
  have n_hi : |nr| ≤ 2 * D := by
    have := abs_sub_abs_le_abs_sub nr N
    have : (1 : ℝ) / 2 ^ 100 * D ≤ D := by
      have : (1 : ℝ) / 2 ^ 100 ≤ 1 := by norm_num
      nlinarith
    linarith
  have d_lo : D / 2 ≤ |dr| := by
    have := abs_sub_abs_le_abs_sub D dr
    rw [abs_sub_comm D dr, abs_of_pos hD0] at this
    have : (1 : ℝ) / 2 ^ 100 * D ≤ D / 2 := by
      have : (1 : ℝ) / 2 ^ 100 ≤ 1 / 2 := by norm_num
      nlinarith
    linarith
  have d_hi : |dr| ≤ 2 * D := by
    have := abs_sub_abs_le_abs_sub dr D
    rw [abs_of_pos hD0] at this
    have : (1 : ℝ) / 2 ^ 100 * D ≤ D := by
      have : (1 : ℝ) / 2 ^ 100 ≤ 1 := by norm_num
      nlinarith
    linarith
  have hq := div_rv numvw denvw (by
      rw [hnumr]
      have : (1 : ℝ) / 2 ^ 950 ≤ 1 / 2 ^ 92 * 2 := by norm_num
      have : (1 : ℝ) / 2 ^ 92 * 2 ≤ 1 / 2 ^ 92 * D := mul_le_mul_of_nonneg_left hD2 (by positivity)
      linarith)
    (by rw [hnumr]; have : (2 : ℝ) * 2 ^ 868 ≤ 2 ^ 1000 := by norm_num
        linarith)
    (by rw [hdenr]; have : (1 : ℝ) / 2 ^ 950 ≤ 2 / 2 := by norm_num
        linarith)
    (by rw [hdenr]; have : (2 : ℝ) * 2 ^ 868 ≤ 2 ^ 1000 := by norm_num
        linarith)
    (by rw [hnumr, hdenr]
        have : (1 : ℝ) / 2 ^ 950 * |dr| ≤ 1 / 2 ^ 950 * (2 * D) := mul_le_mul_of_nonneg_left d_hi (by positivity)
        have e : (1 : ℝ) / 2 ^ 950 * (2 * D) ≤ 1 / 2 ^ 92 * D := by
          rw [← mul_assoc]; exact mul_le_mul_of_nonneg_right (by norm_num) hD0.le
        linarith)
    (by rw [hnumr, hdenr]
        have : (2 : ℝ) ^ 1000 * (D / 2) ≤ 2 ^ 1000 * |dr| := mul_le_mul_of_nonneg_left d_lo (by positivity)
        have e : 2 * D ≤ (2 : ℝ) ^ 1000 * (D / 2) := by
          rw [show (2 : ℝ) ^ 1000 * (D / 2) = 2 ^ 999 * D by ring]
          exact mul_le_mul_of_nonneg_right (by norm_num) hD0.le
        linarith)
  obtain ⟨qvw, hqe⟩ := hq
  rw [hnumr, hdenr] at hqe
  refine ⟨qvw.1, qvw.2, ?_⟩
  rw [Real.tanh_eq]
  show |rv (arithmetic.impl_Div_TwoFloat_for_TwoFloat.div
      (arithmetic.impl_Sub_TwoFloat_for_TwoFloat.sub (TwoFloat.exp x)
        (TwoFloat.exp (arithmetic.impl_Neg_for_TwoFloat.neg x)))
      (arithmetic.impl_Add_TwoFloat_for_TwoFloat.add (TwoFloat.exp x)
        (TwoFloat.exp (arithmetic.impl_Neg_for_TwoFloat.neg x)))) - N / D| ≤ |N / D| / 2 ^ 100 + 1 / 2 ^ 101
  generalize rv (arithmetic.impl_Div_TwoFloat_for_TwoFloat.div
      (arithmetic.impl_Sub_TwoFloat_for_TwoFloat.sub (TwoFloat.exp x)
        (TwoFloat.exp (arithmetic.impl_Neg_for_TwoFloat.neg x)))
      (arithmetic.impl_Add_TwoFloat_for_TwoFloat.add (TwoFloat.exp x)
        (TwoFloat.exp (arithmetic.impl_Neg_for_TwoFloat.neg x)))) = q at *
  generalize rv (TwoFloat.exp x) = a at *
  generalize rv (TwoFloat.exp (arithmetic.impl_Neg_for_TwoFloat.neg x)) = b at *
  by_cases h0 : 0 ≤ rv x
  · have hle : Real.exp (-rv x) ≤ Real.exp (rv x) := Real.exp_le_exp.2 (by linarith)
    have core := tanh_real hle hB0 (a21 h0) b37 hnum hden hqe
    rw [abs_of_nonneg (div_nonneg (by rw [hNdef]; linarith) hD0.le)]
    exact core
  · have h0' : 0 ≤ -rv x := by linarith [not_le.1 h0]
    have hle : Real.exp (rv x) ≤ Real.exp (-rv x) := Real.exp_le_exp.2 (by linarith)
    have hnum' : |(-nr) - (b - a)| ≤ cA * |b - a| := by
      rw [show -nr - (b - a) = -(nr - (a - b)) by ring, abs_neg, abs_sub_comm b a]; exact hnum
    have hden' : |dr - (b + a)| ≤ cA * |b + a| := by rw [add_comm b a]; exact hden
    have hqe' : |(-q) - (-nr) / dr| ≤ 1 / 2 ^ 102 * |(-nr) / dr| := by
      rw [neg_div, show -q - -(nr / dr) = -(q - nr / dr) by ring, abs_neg, abs_neg]; exact hqe
    have core := tanh_real hle hA0 (b21 h0') a37 hnum' hden' hqe'
    have e1 : (Real.exp (-rv x) - Real.exp (rv x)) / (Real.exp (-rv x) + Real.exp (rv x)) = -(N / D) := by
      rw [hNdef, hDdef, add_comm (Real.exp (-rv x)), ← neg_div]; congr 1; ring
    rw [e1, show -q - -(N / D) = -(q - N / D) by ring, abs_neg] at core
    have hneg : N / D ≤ 0 := div_nonpos_of_nonpos_of_nonneg (by rw [hNdef]; linarith) hD0.le
    rw [abs_of_nonpos hneg]
    exact core

/-! ## examples -/

/-- the double-double `(c, 0)` -/
def ofF (c : F64) : TwoFloat := ⟨c, F64.zero⟩

theorem val_of_V {t : TwoFloat} {n : ℤ} (h : t.V = n) : val t = (n : ℝ) / 2 ^ 1074 := by
  show ExpBound.rv t = _
  unfold ExpBound.rv; rw [h]

theorem val_one : val (ofF F64.one) = 1 := by
  rw [val_of_V (show (ofF F64.one).V = 2 ^ 1074 by decide +kernel)]
  simp only [Int.cast_pow, Int.cast_ofNat]
  exact div_self (by positivity : ((2 : ℝ) ^ 1074) ≠ 0)

/-- `cosh(1)`, `sinh(1)`, `tanh(1)` -/
example :
    |val (TwoFloat.cosh (ofF F64.one)) - Real.cosh 1| ≤ Real.cosh 1 / 2 ^ 100 ∧
    |val (TwoFloat.sinh (ofF F64.one)) - Real.sinh 1| ≤ |Real.sinh 1| / 2 ^ 100 + 1 / 2 ^ 101 ∧
    |val (TwoFloat.tanh (ofF F64.one)) - Real.tanh 1| ≤ |Real.tanh 1| / 2 ^ 100 + 1 / 2 ^ 101 := by
  have hv : (ofF F64.one).Valid := by decide +kernel
  have hw : (ofF F64.one).WF := ⟨by decide +kernel, by decide +kernel⟩
  have h1 := (cosh_bound (ofF F64.one) hv hw (by rw [val_one]; norm_num)).2
  have h2 := (sinh_bound (ofF F64.one) hv hw (by rw [val_one]; norm_num)).2.2
  have h3 := (tanh_bound_partial (ofF F64.one) hv hw (by rw [val_one]; norm_num) (by rw [val_one]; norm_num)).2.2
  rw [val_one] at h1 h2 h3
  exact ⟨h1, h2, h3⟩

end C18h
