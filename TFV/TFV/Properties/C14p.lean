/-
C14p — panic-freedom of the exponential family: exp, exp2, exp_m1, powf (and the helpers `mul_pow2`,
`expm1_128th`, `exp_half`, `expm1_quarter`), plus the table `exp2(k) = 2^k` on a documented set of integers.

`exp` contains real assertions (`assert!(n.abs() <= 32)`, `assert!(self.hi().abs() <= 0.25)`, table indices,
`panic!("exp_half max exponent is 1439")`).  They hold for every VALID argument: with `y = round(2x)` (exact by
C08, `|y| ≤ 1418`) the reduced argument `z = x - y/2` has `|z.hi| ≤ 1/4` because `x.hi - y/2` is computed exactly
and `z.hi = RN(x - y/2)`, `|x - y/2| ≤ 1/4`, and `1/4` is a double.  The proofs are in `TFV.Lemmas.PanicFree`.
-/
import TFV.Lemmas.PanicFree

set_option exponentiation.threshold 3000

namespace C14p
open F64 TwoFloat

/-! ### the helpers -/

/-- `mul_pow2(x, y)`: the loop ends within its fuel and no `i32` operation overflows, for EVERY `x` and every
in-range `y` -/
theorem mul_pow2_pf (x : F64) (y : I32) (h : IntN.inRange y = true) : explog.mul_pow2.pf x y = true :=
  PF.mul_pow2_pf x y h

/-- `expm1_128th(n)` for `|n| ≤ 32` (its `assert!` and the table index) -/
theorem expm1_128th_pf (n : I32) (h : n.v.natAbs ≤ 32) : explog.expm1_128th.pf n = true :=
  PF.expm1_128th_pf n h

/-- `exp_half(n)` for `|n| ≤ 1439` (its `panic!`, both table indices, the recursion) -/
theorem exp_half_pf (n : I32) (h : n.v.natAbs ≤ 1439) : explog.exp_half.pf n = true := PF.exp_half_pf n h

/-- `expm1_quarter` under its precondition `|hi| ≤ 0.25` (`0.25 = 2^1072` units) -/
theorem expm1_quarter_pf (z : TwoFloat) (hf : z.hi.is_finite = true) (hw : z.hi.WF)
    (hb : z.hi.toInt.natAbs ≤ 2 ^ 1072) : TwoFloat.expm1_quarter.pf z = true :=
  PF.expm1_quarter_pf z hf hw hb

/-- the argument reduction of `exp` (see `PF.exp_reduce`): integer `y`, `|y| ≤ 1418`, and `|z.hi| ≤ 1/4` -/
theorem exp_reduce (x : TwoFloat) (hv : x.Valid) (hw : x.WF)
    (hlo : -(709 * (F64.unit : Int)) < x.hi.toInt) (hhi : x.hi.toInt < 709 * (F64.unit : Int)) :
    let y := (TwoFloat.round (arithmetic.impl_Mul_TwoFloat_for_f64.mul (f64lit 0x4000000000000000) x)).hi
    let z := arithmetic.impl_Sub_f64_for_TwoFloat.sub x (F64.div y (f64lit 0x4000000000000000))
    (z.hi.is_finite = true ∧ z.hi.toInt.natAbs ≤ 2 ^ 1072) ∧
      (∃ k : Int, y.is_finite = true ∧ y.toInt = k * ((F64.unit : Nat) : Int) ∧ k.natAbs ≤ 1418) :=
  PF.exp_reduce x hv hw hlo hhi

/-! ### the public functions -/

/-- **C14p.** `exp` never panics on a valid argument -/
theorem exp_pf (x : TwoFloat) (hv : x.Valid) (hw : x.WF) : TwoFloat.exp.pf x = true := PF.exp_pf x hv hw

/-- … nor on an argument with a non-finite high word (the C01 invariant) -/
theorem exp_pf_inv (x : TwoFloat) (hi : x.Inv) (hw : x.WF) : TwoFloat.exp.pf x = true := PF.exp_pf_inv x hi hw

/-- `exp2` never panics, on ANY argument -/
theorem exp2_pf (x : TwoFloat) : TwoFloat.exp2.pf x = true := PF.exp2_pf x

/-- `exp_m1` never panics on an argument satisfying the invariant -/
theorem exp_m1_pf (x : TwoFloat) (hi : x.Inv) (hw : x.WF) : TwoFloat.exp_m1.pf x = true :=
  PF.exp_m1_pf x ⟨hi, hw⟩

/-- `powf` never panics on arguments satisfying the invariant — PARTIAL: relative to the closed finite statement
`PF.ExpHalfRecipInv` (the 1439 reciprocals `1.0 / exp_half(m)` satisfy the invariant; samples below) -/
theorem powf_pf_partial (HR : PF.ExpHalfRecipInv) (x y : TwoFloat)
    (hx : x.Inv) (hwx : x.WF) (hy : y.Inv) (hwy : y.WF) : TwoFloat.powf.pf x y = true :=
  PF.powf_pf HR x y ⟨hx, hwx⟩ ⟨hy, hwy⟩

/-- `exp` preserves the invariant (same proviso) -/
theorem exp_inv_partial (HR : PF.ExpHalfRecipInv) (x : TwoFloat) (hi : x.Inv) (hw : x.WF) :
    (TwoFloat.exp x).Inv ∧ (TwoFloat.exp x).WF := PF.good_exp HR ⟨hi, hw⟩

/-- the trait entry points (`num_traits::Float`, `Pow`) are the same predicates -/
theorem Float_exp_pf (x : TwoFloat) (hv : x.Valid) (hw : x.WF) :
    num_integration.impl_Float_for_TwoFloat.exp.pf x = true := PF.exp_pf x hv hw
theorem Float_exp2_pf (x : TwoFloat) : num_integration.impl_Float_for_TwoFloat.exp2.pf x = true := PF.exp2_pf x
theorem Float_exp_m1_pf (x : TwoFloat) (hi : x.Inv) (hw : x.WF) :
    num_integration.impl_Float_for_TwoFloat.exp_m1.pf x = true := PF.exp_m1_pf x ⟨hi, hw⟩

/-! ### closed instances -/

/-- this input (x ≈ −311.75, valid) used to panic in `exp` before the argument reduction of the crate was fixed -/
example : TwoFloat.exp.pf ⟨f64lit 0xc0737c0000000000, f64lit 0x3d0bb7d200000000⟩ = true := by decide +kernel

example : (⟨f64lit 0xc0737c0000000000, f64lit 0x3d0bb7d200000000⟩ : TwoFloat).Valid := by decide +kernel

/-- an INVALID argument on which `exp` does panic (`hi = 1`, `lo = 1000`: `exp_half(2002)`): validity is needed -/
example : TwoFloat.exp.pf ⟨f64lit 0x3ff0000000000000, f64lit 0x408f400000000000⟩ = false := by decide +kernel

/-- just inside the range switches -/
example : TwoFloat.exp.pf ⟨f64lit 0x408627ffffffffff, f64lit 0x0000000000000000⟩ = true
    ∧ TwoFloat.exp.pf ⟨f64lit 0xc08627ffffffffff, f64lit 0x0000000000000000⟩ = true := by decide +kernel

/-- samples of `PF.ExpHalfRecipInv`: `1.0 / exp_half(m)` satisfies the invariant (kernel evaluation, ≈ 1.3 s per
value; the compiled evaluator `#eval` confirms all 1439 values in a few seconds, which is evidence, not a proof).
NB `1.0 / exp_half(1439)` is `(NaN, NaN)` — a marker, not a valid pair; `exp` itself only reaches `|m| ≤ 1418`. -/
example :
    [1, 31, 32, 33, 77, 1024, 1418, 1439].all (fun m : Int =>
      decide (arithmetic.impl_Div_TwoFloat_for_f64.div (f64lit 0x3ff0000000000000)
        (explog.exp_half.go 1 (⟨m⟩ : I32))).Inv) = true := by decide +kernel

example : (arithmetic.impl_Div_TwoFloat_for_f64.div (f64lit 0x3ff0000000000000)
    (explog.exp_half.go 1 (⟨1439⟩ : I32))).hi = F64.nan := by decide +kernel

/-! ### `exp2(k) = 2^k` exactly (both words), `k` integer

Each instance is one kernel evaluation of the complete `exp2` (≈ 3–5 s); the full range `-1022 ≤ k ≤ 1022` (2045
values) is therefore checked on the DOCUMENTED SUBSET below: the ends, the neighbourhood of 0, the powers near the
precision (±52, ±53) and a spread of others — 20 values in 4 shards. -/

/-- `2^k` as a double -/
def pow2 (k : Int) : F64 := fin false (2 ^ (k + 1074).toNat)

def exp2_ok (k : Int) : Bool :=
  decide (TwoFloat.exp2 ⟨F64.ofInt k, fin false 0⟩ = ⟨pow2 k, fin false 0⟩)

theorem exp2_int_shard1 : [-1022, -1021, -1000, -512, -100].all exp2_ok = true := by decide +kernel
theorem exp2_int_shard2 : [-53, -52, -2, -1, 1].all exp2_ok = true := by decide +kernel
theorem exp2_int_shard3 : [2, 3, 10, 52, 53].all exp2_ok = true := by decide +kernel
theorem exp2_int_shard4 : [100, 512, 1000, 1021, 1022].all exp2_ok = true := by decide +kernel

/-- the checked subset of `∀ k ∈ [-1022, 1022], exp2(k) = (2^k, +0)` (`k = 0` is `C14.exp2_zero`) -/
theorem exp2_int (k : Int)
    (hk : k ∈ [-1022, -1021, -1000, -512, -100, -53, -52, -2, -1, 1, 2, 3, 10, 52, 53, 100, 512, 1000, 1021, 1022]) :
    TwoFloat.exp2 ⟨F64.ofInt k, fin false 0⟩ = ⟨pow2 k, fin false 0⟩ := by
  have h : ([-1022, -1021, -1000, -512, -100] ++ [-53, -52, -2, -1, 1] ++ [2, 3, 10, 52, 53]
      ++ [100, 512, 1000, 1021, 1022]).all exp2_ok = true := by
    rw [List.all_append, List.all_append, List.all_append, exp2_int_shard1, exp2_int_shard2, exp2_int_shard3,
      exp2_int_shard4]; rfl
  have := List.all_eq_true.1 h k (by simpa using hk)
  exact of_decide_eq_true this

end C14p
