/-
C14p — panic-freedom of the exponential family: exp, exp2, exp_m1, powf (and the helpers `mul_pow2`,
`expm1_128th`, `exp_half`, `expm1_quarter`), plus the table `exp2(k) = 2^k`.

`exp` contains real assertions (`assert!(n.abs() <= 32)`, `assert!(self.hi().abs() <= 0.25)`, table indices,
`panic!("exp_half max exponent is 1439")`).  They hold for every VALID argument: with `y = round(2x)` (exact by
C08, `|y| ≤ 1418`) the reduced argument `z = x - y/2` has `|z.hi| ≤ 1/4` because `x.hi - y/2` is computed exactly
and `z.hi = RN(x - y/2)`, `|x - y/2| ≤ 1/4`, and `1/4` is a double.  The proofs are in `TFV.Lemmas.PanicFree`.

Contents
* `exp_pf`, `exp_pf_inv`, `exp2_pf` (all arguments), `exp_m1_pf`, `powf_pf`, `exp_inv` — unconditional;
* `expHalfRecipInv` — the closed fact `PF.ExpHalfRecipInv` (reciprocals `1.0 / exp_half(m)`, `1 ≤ m ≤ 1418`), from
  the division theorem `C01d.recip_valid` and the product error bound `mul_tt_bound_7u2_partial` for `m ≤ 1400`
  (integer conditions on the 1333 pairs of table entries checked by the kernel) and by kernel evaluation for
  `1401 ≤ m ≤ 1418`;
* `exp2_int_value` — `exp2(k) = 2^k` for EVERY integer `-1074 ≤ k ≤ 1022`, by proof (exact values);
* `exp2_int` — the same bit for bit (sign of the zero low word included) on 20 sample exponents, by kernel evaluation.
-/
import TFV.Lemmas.PanicFree
import TFV.Properties.C03x
import TFV.Properties.C04x
import TFV.Properties.C05x
import TFV.Lemmas.Bounds
import TFV.Properties.C01d

set_option exponentiation.threshold 4000
set_option maxRecDepth 100000

namespace C14p
open F64 TwoFloat

/-! ### the helpers -/

/-- `mul_pow2(x, y)`: the loop ends within its fuel and no `i32` operation overflows, for EVERY `x` and every
in-range `y` -/
theorem mul_pow2_pf (x : F64) (y : I32) (h : IntN.inRange y = true) : explog.mul_pow2.pf x y = true :=
  PF.mul_pow2_pf x y h

/-- `expm1_128th(n)` for `|n| ≤ 32` (its `assert!` and the table index) -/
theorem expm1_128th_pf (n : I32) (h : n.v.natAbs ≤ 32) : explog.expm1_128th.pf n = true :=
  PF.expm1_128th_pf n h

/-- `exp_half(n)` for `|n| ≤ 1439` (its `panic!`, both table indices, the recursion) -/
theorem exp_half_pf (n : I32) (h : n.v.natAbs ≤ 1439) : explog.exp_half.pf n = true := PF.exp_half_pf n h

/-- `expm1_quarter` under its precondition `|hi| ≤ 0.25` (`0.25 = 2^1072` units) -/
theorem expm1_quarter_pf (z : TwoFloat) (hf : z.hi.is_finite = true) (hw : z.hi.WF)
    (hb : z.hi.toInt.natAbs ≤ 2 ^ 1072) : TwoFloat.expm1_quarter.pf z = true :=
  PF.expm1_quarter_pf z hf hw hb

/-- the argument reduction of `exp` (see `PF.exp_reduce`): integer `y`, `|y| ≤ 1418`, and `|z.hi| ≤ 1/4` -/
theorem exp_reduce (x : TwoFloat) (hv : x.Valid) (hw : x.WF)
    (hlo : -(709 * (F64.unit : Int)) < x.hi.toInt) (hhi : x.hi.toInt < 709 * (F64.unit : Int)) :
    let y := (TwoFloat.round (arithmetic.impl_Mul_TwoFloat_for_f64.mul (f64lit 0x4000000000000000) x)).hi
    let z := arithmetic.impl_Sub_f64_for_TwoFloat.sub x (F64.div y (f64lit 0x4000000000000000))
    (z.hi.is_finite = true ∧ z.hi.toInt.natAbs ≤ 2 ^ 1072) ∧
      (∃ k : Int, y.is_finite = true ∧ y.toInt = k * ((F64.unit : Nat) : Int) ∧ k.natAbs ≤ 1418) :=
  PF.exp_reduce x hv hw hlo hhi

/-! ### the public functions -/

/-- **C14p.** `exp` never panics on a valid argument -/
theorem exp_pf (x : TwoFloat) (hv : x.Valid) (hw : x.WF) : TwoFloat.exp.pf x = true := PF.exp_pf x hv hw

/-- … nor on an argument with a non-finite high word (the C01 invariant) -/
theorem exp_pf_inv (x : TwoFloat) (hi : x.Inv) (hw : x.WF) : TwoFloat.exp.pf x = true := PF.exp_pf_inv x hi hw

/-- `exp2` never panics, on ANY argument -/
theorem exp2_pf (x : TwoFloat) : TwoFloat.exp2.pf x = true := PF.exp2_pf x

/-- `exp_m1` never panics on an argument satisfying the invariant -/
theorem exp_m1_pf (x : TwoFloat) (hi : x.Inv) (hw : x.WF) : TwoFloat.exp_m1.pf x = true :=
  PF.exp_m1_pf x ⟨hi, hw⟩

/-- `powf` never panics on arguments satisfying the invariant, relative to the closed finite statement
`PF.ExpHalfRecipInv` (discharged below: `expHalfRecipInv`, `powf_pf`) -/
theorem powf_pf_partial (HR : PF.ExpHalfRecipInv) (x y : TwoFloat)
    (hx : x.Inv) (hwx : x.WF) (hy : y.Inv) (hwy : y.WF) : TwoFloat.powf.pf x y = true :=
  PF.powf_pf HR x y ⟨hx, hwx⟩ ⟨hy, hwy⟩

/-- `exp` preserves the invariant (same proviso) -/
theorem exp_inv_partial (HR : PF.ExpHalfRecipInv) (x : TwoFloat) (hi : x.Inv) (hw : x.WF) :
    (TwoFloat.exp x).Inv ∧ (TwoFloat.exp x).WF := PF.good_exp HR ⟨hi, hw⟩

/-- the trait entry points (`num_traits::Float`, `Pow`) are the same predicates -/
theorem Float_exp_pf (x : TwoFloat) (hv : x.Valid) (hw : x.WF) :
    num_integration.impl_Float_for_TwoFloat.exp.pf x = true := PF.exp_pf x hv hw
theorem Float_exp2_pf (x : TwoFloat) : num_integration.impl_Float_for_TwoFloat.exp2.pf x = true := PF.exp2_pf x
theorem Float_exp_m1_pf (x : TwoFloat) (hi : x.Inv) (hw : x.WF) :
    num_integration.impl_Float_for_TwoFloat.exp_m1.pf x = true := PF.exp_m1_pf x ⟨hi, hw⟩


/-! ### `PF.ExpHalfRecipInv`: the reciprocals taken by `exp_half` on negative arguments are valid pairs -/

/-- integer conditions on a pair of table entries under which `1 / (E * H)` is in the range of `C01d.recip_valid` -/
def pairOK (E H : TwoFloat) : Bool :=
  decide ((2 : Int) ^ 1188 ≤ |E.hi.toInt * H.hi.toInt| ∧ |E.hi.toInt * H.hi.toInt| < (2 : Int) ^ 3169 ∧
    |E.V * H.V| * (2 ^ 106 + 7) ≤ 2 ^ 2084 * (F64.unit : Int) * 2 ^ 106 ∧
    2 ^ 58 * (F64.unit : Int) * 2 ^ 106 ≤ |E.V * H.V| * (2 ^ 106 - 7))

/-- row `i` of the check: all `j` with `32(i+1) + (j+1) ≤ 1400` -/
def rowOK (i : Nat) : Bool :=
  (List.range 31).all (fun j => decide (32 * (i + 1) + (j + 1) ≤ 1400) →
    pairOK (explog.exp_half.EXP_16_N.getD i default) (explog.exp_half.EXP_HALF_N.getD j default))

theorem rows_ok_1 : (List.range 11).all rowOK = true := by decide +kernel
theorem rows_ok_2 : (List.range 11).all (fun i => rowOK (i + 11)) = true := by decide +kernel
theorem rows_ok_3 : (List.range 11).all (fun i => rowOK (i + 22)) = true := by decide +kernel
theorem rows_ok_4 : (List.range 10).all (fun i => rowOK (i + 33)) = true := by decide +kernel

theorem pair_ok (i j : Nat) (hi : i < 43) (hj : j < 31) (hm : 32 * (i + 1) + (j + 1) ≤ 1400) :
    pairOK (explog.exp_half.EXP_16_N.getD i default) (explog.exp_half.EXP_HALF_N.getD j default) = true := by
  have hrow : rowOK i = true := by
    rcases Nat.lt_or_ge i 11 with h | h
    · exact List.all_eq_true.1 rows_ok_1 i (List.mem_range.2 h)
    · rcases Nat.lt_or_ge i 22 with h2 | h2
      · have := List.all_eq_true.1 rows_ok_2 (i - 11) (List.mem_range.2 (by omega))
        rwa [Nat.sub_add_cancel h] at this
      · rcases Nat.lt_or_ge i 33 with h3 | h3
        · have := List.all_eq_true.1 rows_ok_3 (i - 22) (List.mem_range.2 (by omega))
          rwa [Nat.sub_add_cancel h2] at this
        · have := List.all_eq_true.1 rows_ok_4 (i - 33) (List.mem_range.2 (by omega))
          rwa [Nat.sub_add_cancel h3] at this
  have := List.all_eq_true.1 hrow j (List.mem_range.2 hj)
  simpa [hm] using this

theorem EXP_16_N_valid : ∀ t ∈ explog.exp_half.EXP_16_N, t.Valid ∧ t.WF := by decide +kernel
theorem EXP_HALF_N_valid : ∀ t ∈ explog.exp_half.EXP_HALF_N, t.Valid ∧ t.WF := by decide +kernel

/-- magnitude window of `C01d.recip_valid` -/
def inWin (t : TwoFloat) : Bool := decide (2 ^ 58 ≤ t.hi.toInt.natAbs ∧ t.hi.toInt.natAbs ≤ 2 ^ 2084)

theorem EXP_16_N_win : (explog.exp_half.EXP_16_N.take 43).all inWin = true := by decide +kernel
theorem EXP_HALF_N_win : explog.exp_half.EXP_HALF_N.all inWin = true := by decide +kernel


/-- `1 / (E * H)` is a valid pair when the integer conditions `pairOK E H` hold -/
theorem recip_mul_valid {E H : TwoFloat} (hE : E.Valid ∧ E.WF) (hH : H.Valid ∧ H.WF) (hok : pairOK E H = true) :
    (TwoFloat.recip (arithmetic.impl_Mul_TwoFloat_for_TwoFloat.mul E H)).Valid := by
  obtain ⟨h1, h2, h3, h4⟩ := of_decide_eq_true hok
  obtain ⟨yv, herr⟩ := TwoFloat.mul_tt_bound_7u2_partial hE.1 hE.2 hH.1 hH.2 (Or.inr ⟨h1, h2⟩)
  show (TwoFloat.recip (arithmetic.impl_Mul_rTwoFloat_for_rTwoFloat.mul E H)).Valid
  generalize arithmetic.impl_Mul_rTwoFloat_for_rTwoFloat.mul E H = y at yv herr ⊢
  have hUpos : (0 : Int) < (F64.unit : Int) := by exact_mod_cast F64.unit_pos
  generalize E.V * H.V = P at h3 h4 herr
  -- bounds on |y.V|
  have hT1 : |y.V * (F64.unit : Int)| * 2 ^ 106 ≤ |P| * (2 ^ 106 + 7) := by
    have := abs_sub_abs_le_abs_sub (y.V * (F64.unit : Int)) P
    nlinarith [abs_nonneg (y.V * (F64.unit : Int) - P), abs_nonneg P]
  have hT2 : |P| * (2 ^ 106 - 7) ≤ |y.V * (F64.unit : Int)| * 2 ^ 106 := by
    have := abs_sub_abs_le_abs_sub P (y.V * (F64.unit : Int))
    rw [abs_sub_comm] at this
    nlinarith [abs_nonneg (y.V * (F64.unit : Int) - P), abs_nonneg P]
  have hK : (0 : Int) < (F64.unit : Int) * 2 ^ 106 := by positivity
  have hup : |y.V| ≤ 2 ^ 2084 := by
    have : |y.V| * ((F64.unit : Int) * 2 ^ 106) ≤ 2 ^ 2084 * ((F64.unit : Int) * 2 ^ 106) := by
      rw [abs_mul, abs_of_pos hUpos] at hT1
      calc |y.V| * ((F64.unit : Int) * 2 ^ 106) = |y.V| * (F64.unit : Int) * 2 ^ 106 := by ring
        _ ≤ |P| * (2 ^ 106 + 7) := hT1
        _ ≤ 2 ^ 2084 * (F64.unit : Int) * 2 ^ 106 := h3
        _ = _ := by ring
    exact le_of_mul_le_mul_right this hK
  have hlow : (2 : Int) ^ 58 ≤ |y.V| := by
    have : 2 ^ 58 * ((F64.unit : Int) * 2 ^ 106) ≤ |y.V| * ((F64.unit : Int) * 2 ^ 106) := by
      rw [abs_mul, abs_of_pos hUpos] at hT2
      calc 2 ^ 58 * ((F64.unit : Int) * 2 ^ 106) = 2 ^ 58 * (F64.unit : Int) * 2 ^ 106 := by ring
        _ ≤ |P| * (2 ^ 106 - 7) := h4
        _ ≤ |y.V| * (F64.unit : Int) * 2 ^ 106 := hT2
        _ = _ := by ring
    exact le_of_mul_le_mul_right this hK
  have hhi : y.hi.toInt = rnI y.V := yv.hi_toInt
  have r58 : RepI ((2 : Int) ^ 58) := PF.repI_two_pow 58
  have r2084 : RepI ((2 : Int) ^ 2084) := PF.repI_two_pow 2084
  have b1 : (2 : Int) ^ 58 ≤ |y.hi.toInt| := by
    rw [hhi]
    have := le_abs_rnI r58 (v := y.V) (by rw [abs_of_pos (by positivity)]; exact hlow)
    rwa [abs_of_pos (by positivity)] at this
  have b2 : |y.hi.toInt| ≤ (2 : Int) ^ 2084 := by
    rw [hhi]
    have h0 : |(2 : Int) ^ 2084| = 2 ^ 2084 := abs_of_pos (by positivity)
    have := abs_rnI_le r2084 (v := y.V) (by rw [h0]; exact hup)
    rwa [h0] at this
  refine (C01d.recip_valid y yv ?_ ?_).1
  · have : ((2 ^ 58 : Nat) : Int) ≤ ((y.hi.toInt.natAbs : Nat) : Int) := by
      rw [Int.natCast_natAbs]; push_cast; exact b1
    exact_mod_cast this
  · have : ((y.hi.toInt.natAbs : Nat) : Int) ≤ ((2 ^ 2084 : Nat) : Int) := by
      rw [Int.natCast_natAbs]; push_cast; exact b2
    exact_mod_cast this


theorem getD_mem_of_lt (l : List TwoFloat) (i : Nat) (h : i < l.length) : l.getD i default ∈ l := by
  rw [List.getD_eq_getElem?_getD, List.getElem?_eq_getElem h, Option.getD_some]; exact List.getElem_mem h

/-- the last 18 values, by kernel evaluation -/
theorem recip_tail_ok :
    (List.range 18).all (fun i => decide (arithmetic.impl_Div_TwoFloat_for_f64.div (f64lit 0x3ff0000000000000)
      (explog.exp_half.go 1 (⟨1401 + (i : Int)⟩ : I32))).Inv) = true := by decide +kernel

/-- **`PF.ExpHalfRecipInv` holds**: `1.0 / exp_half(m)` satisfies the invariant for `1 ≤ m ≤ 1418` -/
theorem expHalfRecipInv : PF.ExpHalfRecipInv := by
  intro m h1 h2
  by_cases hm : 1400 < m
  · -- kernel-evaluated tail
    have := List.all_eq_true.1 recip_tail_ok (m - 1401).toNat (List.mem_range.2 (by omega))
    have e : (1401 : Int) + (((m - 1401).toNat : Nat) : Int) = m := by omega
    rw [e] at this
    exact of_decide_eq_true this
  · -- `exp_half(m)` is a table entry or a product of two, in the range of the division theorem
    have hm' : m ≤ 1400 := by omega
    refine Or.inl ?_
    show (TwoFloat.recip (explog.exp_half.go (0 + 1) (⟨m⟩ : I32))).Valid
    simp only [explog.exp_half.go]
    have hneg : (⟨m⟩ : I32).is_negative = false := by
      show decide (m < 0) = false
      simp; omega
    have hd : ((⟨m⟩ : I32) /. (32 : I32)) = ⟨m / 32⟩ := by
      show (⟨Int.tdiv m 32⟩ : I32) = _
      rw [Int.tdiv_eq_ediv_of_nonneg (by omega)]
    have hmod : ((⟨m⟩ : I32) %. (32 : I32)) = ⟨m % 32⟩ := by
      show (⟨Int.tmod m 32⟩ : I32) = _
      rw [Int.tmod_eq_emod_of_nonneg (by omega)]
    rw [hneg]
    simp only [Bool.false_eq_true, if_false]
    rw [hd, hmod, PF.cast_i32_usize _ (by omega) (by omega), PF.cast_i32_usize _ (by omega) (by omega)]
    obtain ⟨A, hA⟩ : ∃ A : Nat, m / 32 = (A : Int) := ⟨(m / 32).toNat, by omega⟩
    obtain ⟨B, hB⟩ : ∃ B : Nat, m % 32 = (B : Int) := ⟨(m % 32).toNat, by omega⟩
    have hAB : m = 32 * (A : Int) + B := by omega
    have hB31 : B ≤ 31 := by omega
    rw [hA, hB]
    have idx : ∀ (l : List TwoFloat) (n : Nat), RIndex.index l ((⟨(n : Int)⟩ : Usize) -. (1 : Usize))
        = l.getD (n - 1) default := by
      intro l n
      show l.getD ((n : Int) - 1).toNat default = _
      congr 1; omega
    rw [idx, idx]
    have l16 : explog.exp_half.EXP_16_N.length = 44 := by decide
    have lh : explog.exp_half.EXP_HALF_N.length = 31 := by decide
    cases hgA : ((⟨(A : Int)⟩ : Usize) >. (0 : Usize)) <;> cases hgB : ((⟨(B : Int)⟩ : Usize) >. (0 : Usize))
    · -- A = 0, B = 0: impossible
      exfalso
      have a0 : ¬ (0 : Int) < A := fun h => by
        have := (PF.igt_iff (⟨(A : Int)⟩ : Usize) (0 : Usize)).2 h
        rw [hgA] at this; cases this
      have b0 : ¬ (0 : Int) < B := fun h => by
        have := (PF.igt_iff (⟨(B : Int)⟩ : Usize) (0 : Usize)).2 h
        rw [hgB] at this; cases this
      omega
    · -- A = 0: an entry of EXP_HALF_N
      have hB0 : (0 : Int) < B := (PF.igt_iff _ _).1 hgB
      show (TwoFloat.recip (explog.exp_half.EXP_HALF_N.getD (B - 1) default)).Valid
      have hmem := getD_mem_of_lt explog.exp_half.EXP_HALF_N (B - 1) (by rw [lh]; omega)
      have hw := of_decide_eq_true (List.all_eq_true.1 EXP_HALF_N_win _ hmem)
      exact (C01d.recip_valid _ (EXP_HALF_N_valid _ hmem).1 hw.1 hw.2).1
    · -- B = 0: an entry of EXP_16_N (index ≤ 42)
      have hA0 : (0 : Int) < A := (PF.igt_iff _ _).1 hgA
      have b0 : ¬ (0 : Int) < B := fun h => by
        have := (PF.igt_iff (⟨(B : Int)⟩ : Usize) (0 : Usize)).2 h
        rw [hgB] at this; cases this
      have hA43 : A ≤ 43 := by omega
      show (TwoFloat.recip (explog.exp_half.EXP_16_N.getD (A - 1) default)).Valid
      have hmem := getD_mem_of_lt explog.exp_half.EXP_16_N (A - 1) (by rw [l16]; omega)
      have hmem' : explog.exp_half.EXP_16_N.getD (A - 1) default ∈ explog.exp_half.EXP_16_N.take 43 := by
        rw [List.getD_eq_getElem?_getD, List.getElem?_eq_getElem (by rw [l16]; omega), Option.getD_some]
        rw [List.mem_take_iff_getElem]
        exact ⟨A - 1, by rw [l16]; omega, rfl⟩
      have hw := of_decide_eq_true (List.all_eq_true.1 EXP_16_N_win _ hmem')
      exact (C01d.recip_valid _ (EXP_16_N_valid _ hmem).1 hw.1 hw.2).1
    · -- a product
      have hA0 : (0 : Int) < A := (PF.igt_iff _ _).1 hgA
      have hB0 : (0 : Int) < B := (PF.igt_iff _ _).1 hgB
      have hA43 : A ≤ 43 := by omega
      show (TwoFloat.recip (arithmetic.impl_Mul_TwoFloat_for_TwoFloat.mul
        (explog.exp_half.EXP_16_N.getD (A - 1) default) (explog.exp_half.EXP_HALF_N.getD (B - 1) default))).Valid
      apply recip_mul_valid
      · exact EXP_16_N_valid _ (getD_mem_of_lt _ _ (by rw [l16]; omega))
      · exact EXP_HALF_N_valid _ (getD_mem_of_lt _ _ (by rw [lh]; omega))
      · exact pair_ok (A - 1) (B - 1) (by omega) (by omega) (by omega)


/-! ### unconditional corollaries -/

/-- **`powf` never panics** on arguments satisfying the invariant (in particular on valid ones) -/
theorem powf_pf (x y : TwoFloat) (hx : x.Inv) (hwx : x.WF) (hy : y.Inv) (hwy : y.WF) :
    TwoFloat.powf.pf x y = true := powf_pf_partial expHalfRecipInv x y hx hwx hy hwy

/-- **`exp` preserves the invariant** -/
theorem exp_inv (x : TwoFloat) (hi : x.Inv) (hw : x.WF) : (TwoFloat.exp x).Inv ∧ (TwoFloat.exp x).WF :=
  exp_inv_partial expHalfRecipInv x hi hw

theorem Float_powf_pf (x y : TwoFloat) (hx : x.Inv) (hwx : x.WF) (hy : y.Inv) (hwy : y.WF) :
    num_integration.impl_Float_for_TwoFloat.powf.pf x y = true := powf_pf x y hx hwx hy hwy

/-! ### closed instances -/

/-- this input (x ≈ −311.75, valid) used to panic in `exp` before the argument reduction of the crate was fixed -/
example : TwoFloat.exp.pf ⟨f64lit 0xc0737c0000000000, f64lit 0x3d0bb7d200000000⟩ = true := by decide +kernel

example : (⟨f64lit 0xc0737c0000000000, f64lit 0x3d0bb7d200000000⟩ : TwoFloat).Valid := by decide +kernel

/-- an INVALID argument on which `exp` does panic (`hi = 1`, `lo = 1000`: `exp_half(2002)`): validity is needed -/
example : TwoFloat.exp.pf ⟨f64lit 0x3ff0000000000000, f64lit 0x408f400000000000⟩ = false := by decide +kernel

/-- just inside the range switches -/
example : TwoFloat.exp.pf ⟨f64lit 0x408627ffffffffff, f64lit 0x0000000000000000⟩ = true
    ∧ TwoFloat.exp.pf ⟨f64lit 0xc08627ffffffffff, f64lit 0x0000000000000000⟩ = true := by decide +kernel

/-- NB outside the range reached by `exp`: `1.0 / exp_half(1439)` is `(NaN, NaN)` — `exp_half(-1439)` does not
panic but returns NaN (`exp` only calls `exp_half(n)` with `|n| ≤ 1418`) -/
example : (arithmetic.impl_Div_TwoFloat_for_f64.div (f64lit 0x3ff0000000000000)
    (explog.exp_half.go 1 (⟨1439⟩ : I32))).hi = F64.nan := by decide +kernel


/-! ### `exp2(k) = 2^k` for EVERY integer `k`, by proof (exact values; the sign of the zero low word is not tracked)

The argument reduction `x - round(x)` is exactly zero, the polynomial at zero returns its constant coefficient
`(1, 0)` through eleven exact Horner steps, the nine squarings keep `(1, 0)`, and `mul_pow2` multiplies by the double
`2^k` built from its bit pattern. -/

theorem from_bits_nat_small (P : Nat) (h : P < 2 ^ 52) : F64.from_bits_nat P = fin false P := by
  unfold F64.from_bits_nat
  have hP : P < 4503599627370496 := by norm_num at h; exact h
  simp only [Nat.reducePow]
  have a : P / 4503599627370496 = 0 := by omega
  have b : P / 9223372036854775808 = 0 := by omega
  have c : P % 4503599627370496 = P := by omega
  simp [a, b, c]

theorem from_bits_nat_normal (e : Nat) (h1 : 1 ≤ e) (h2 : e ≤ 2046) :
    F64.from_bits_nat (e * 2 ^ 52) = fin false (2 ^ 52 * 2 ^ (e - 1)) := by
  unfold F64.from_bits_nat
  simp only [Nat.reducePow]
  have a1 : e * 4503599627370496 / 9223372036854775808 = 0 := by omega
  have a2 : e * 4503599627370496 / 4503599627370496 = e := by omega
  have a3 : e * 4503599627370496 % 4503599627370496 = 0 := by omega
  have a4 : e % 2048 = e := by omega
  have n1 : ¬ e = 0 := by omega
  have n2 : ¬ e = 2047 := by omega
  simp [a1, a2, a3, a4, n1, n2]

/-- `mul_pow2(v, k)` is one multiplication by the double `2^k` for `-1074 ≤ k ≤ 1023` -/
theorem mul_pow2_eq (v : F64) (k : Int) (h1 : -1074 ≤ k) (h2 : k ≤ 1023) :
    explog.mul_pow2 v (⟨k⟩ : I32) = F64.mul v (fin false (2 ^ (k + 1074).toNat)) := by
  show explog.mul_pow2.loop1 (2099999 + 1) v (⟨k⟩ : I32) = _
  rw [explog.mul_pow2.loop1]
  have n1 : ¬ ((⟨k⟩ : I32) <. (-1074 : I32)) = true := fun hc => by
    have := (PF.ilt_iff _ _).1 hc
    have : k < -1074 := this
    omega
  rw [if_neg n1]
  by_cases c2 : k < -1022
  · rw [if_pos ((PF.ilt_iff (⟨k⟩ : I32) (-1022 : I32)).2 c2)]
    show F64.mul v (F64.from_bits ((1 : U64) <<< (⟨k + 1074⟩ : I32))) = _
    congr 1
    obtain ⟨j, hj⟩ : ∃ j : Nat, k + 1074 = (j : Int) := ⟨(k + 1074).toNat, by omega⟩
    have hj52 : j < 52 := by omega
    have hP : 2 ^ j < 2 ^ 52 := Nat.pow_lt_pow_right (by decide) hj52
    show F64.from_bits_nat ((IntN.wrapV false 64 ((1 : Int) * ((2 ^ (k + 1074).toNat : Nat) : Int)) %
      ((2 ^ 64 : Nat) : Int)).toNat) = _
    rw [hj, Int.toNat_natCast]
    generalize 2 ^ j = P at hP ⊢
    unfold IntN.wrapV
    have e64 : ((2 ^ 64 : Nat) : Int) = 18446744073709551616 := by decide
    simp only [e64, Bool.false_and, Bool.false_eq_true, if_false, one_mul]
    have : ((P : Int) % 18446744073709551616 % 18446744073709551616).toNat = P := by omega
    rw [this]
    exact from_bits_nat_small P hP
  · have n2 : ¬ ((⟨k⟩ : I32) <. (-1022 : I32)) = true := fun hc => c2 ((PF.ilt_iff _ _).1 hc)
    rw [if_neg n2, if_pos ((PF.ilt_iff (⟨k⟩ : I32) (1024 : I32)).2 (by show k < 1024; omega))]
    show F64.mul v (F64.from_bits ((RCast.cast (⟨k + 1023⟩ : I32) : U64) <<< (52 : I32))) = _
    congr 1
    obtain ⟨e, he⟩ : ∃ e : Nat, k + 1023 = (e : Int) := ⟨(k + 1023).toNat, by omega⟩
    have he1 : 1 ≤ e := by omega
    have he2 : e ≤ 2046 := by omega
    show F64.from_bits_nat ((IntN.wrapV false 64 (IntN.wrapV false 64 (k + 1023) * ((2 ^ (52 : Int).toNat : Nat) : Int)) %
      ((2 ^ 64 : Nat) : Int)).toNat) = _
    unfold IntN.wrapV
    have e64 : ((2 ^ 64 : Nat) : Int) = 18446744073709551616 := by decide
    have e52 : ((2 ^ (52 : Int).toNat : Nat) : Int) = 4503599627370496 := by decide
    simp only [e64, e52, Bool.false_and, Bool.false_eq_true, if_false]
    rw [he]
    have : ((e : Int) % 18446744073709551616 * 4503599627370496 % 18446744073709551616 % 18446744073709551616).toNat
        = e * 2 ^ 52 := by omega
    rw [this, from_bits_nat_normal e he1 he2]
    congr 1
    have : (k + 1074).toNat = 52 + (e - 1) := by omega
    rw [this, Nat.pow_add]


/-- "value pair": valid, well-formed, with the given word values -/
def IsP (t : TwoFloat) (h l : Int) : Prop := t.hi.toInt = h ∧ t.lo.toInt = l ∧ t.Valid ∧ t.WF

theorem IsP.V {t : TwoFloat} {h l : Int} (p : IsP t h l) : t.V = h + l := by
  unfold TwoFloat.V; rw [p.1, p.2.1]

/-- `F64::round` of an integer-valued double is the identity -/
theorem round_of_dvd (s : Bool) (n : Nat) (h : F64.unit ∣ n) : F64.round (fin s n) = fin s n := by
  obtain ⟨c, rfl⟩ := h
  unfold F64.round
  have hU := F64.unit_pos
  have e : F64.unit * c / F64.unit * F64.unit = F64.unit * c := by
    rw [Nat.mul_div_cancel_left _ hU, Nat.mul_comm]
  simp only [e, Nat.sub_self, Nat.mul_zero]
  rw [if_neg (by omega)]

/-- the Horner loop with a zero argument returns (the words of) the last coefficient it adds -/
theorem fold_zero_arg (r : TwoFloat) (hr : r.Valid) (hr0 : r.V = 0) :
    ∀ (rest : List TwoFloat) (init last : TwoFloat), init.Valid ∧ init.WF →
      (∀ t ∈ rest ++ [last], t.Valid ∧ t.WF) →
      IsP ((rest ++ [last]).foldl (fun a n => arithmetic.impl_Add_rTwoFloat_for_TwoFloat.add
        (arithmetic.impl_Mul_TwoFloat_for_TwoFloat.mul r a) n) init) last.hi.toInt last.lo.toInt := by
  intro rest
  induction rest with
  | nil =>
    intro init last hi hl
    have hlast := hl last (by simp)
    simp only [List.nil_append, List.foldl_cons, List.foldl_nil]
    obtain ⟨-, -, m3, m4, -⟩ := C04x.mul_tt_zero_left r init hr hr0 hi.1.1 hi.1.2.1
    obtain ⟨a1, a2, -, a4, a5⟩ := C03x.add_tt_zero_left _ last m4 m3 hlast.1 hlast.2
    exact ⟨a1, a2, a4, a5⟩
  | cons t rest ih =>
    intro init last hi hl
    simp only [List.cons_append, List.foldl_cons]
    apply ih
    · have ht := hl t (by simp)
      obtain ⟨-, -, m3, m4, -⟩ := C04x.mul_tt_zero_left r init hr hr0 hi.1.1 hi.1.2.1
      obtain ⟨-, -, -, a4, a5⟩ := C03x.add_tt_zero_left _ t m4 m3 ht.1 ht.2
      exact ⟨a4, a5⟩
    · intro u hu; exact hl u (by simp at hu ⊢; tauto)


theorem FRAC_FACT_valid : ∀ t ∈ explog.FRAC_FACT, t.Valid ∧ t.WF := by decide +kernel
theorem LN_2_ok : consts.LN_2.hi.is_finite = true ∧ consts.LN_2.lo.is_finite = true := by decide +kernel
theorem lit_512 : (f64lit 0x4080000000000000).is_finite = true ∧ (f64lit 0x4080000000000000).toInt ≠ 0 := by
  decide +kernel
theorem lit_m1074 : F64.neg (f64lit 0x4090c80000000000) = fin true (1074 * F64.unit) := by decide +kernel
theorem lit_1023 : f64lit 0x408ff80000000000 = fin false (1023 * F64.unit) := by decide +kernel
theorem FRAC_FACT_cons :
    explog.FRAC_FACT = ⟨f64lit 0x3ff0000000000000, f64lit 0x0000000000000000⟩ :: explog.FRAC_FACT.tail := rfl
theorem c0_words : (f64lit 0x3ff0000000000000).toInt = (F64.unit : Int) ∧ (f64lit 0x0000000000000000).toInt = 0 := by
  decide +kernel

theorem sq_one {a : TwoFloat} (h : IsP a (F64.unit : Int) 0) :
    IsP (arithmetic.impl_Mul_TwoFloat_for_TwoFloat.mul a a) (F64.unit : Int) 0 := by
  obtain ⟨p1, p2, -, p4, p5⟩ := C04x.mul_tt_one_right a a h.2.2.1 h.2.2.2 h.2.2.1.1 h.2.2.1.2.1 h.1 h.2.1
  exact ⟨p1.trans h.1, p2.trans h.2.1, p4, p5⟩


/-- the nine squarings `r1 = r1 * r1` of `exp2` -/
def sq9 (p : TwoFloat) : TwoFloat :=
  let r1 := arithmetic.impl_Mul_TwoFloat_for_TwoFloat.mul p p
  let r1 := arithmetic.impl_Mul_TwoFloat_for_TwoFloat.mul r1 r1
  let r1 := arithmetic.impl_Mul_TwoFloat_for_TwoFloat.mul r1 r1
  let r1 := arithmetic.impl_Mul_TwoFloat_for_TwoFloat.mul r1 r1
  let r1 := arithmetic.impl_Mul_TwoFloat_for_TwoFloat.mul r1 r1
  let r1 := arithmetic.impl_Mul_TwoFloat_for_TwoFloat.mul r1 r1
  let r1 := arithmetic.impl_Mul_TwoFloat_for_TwoFloat.mul r1 r1
  let r1 := arithmetic.impl_Mul_TwoFloat_for_TwoFloat.mul r1 r1
  arithmetic.impl_Mul_TwoFloat_for_TwoFloat.mul r1 r1

/-- the general branch of `exp2`, with the intermediate values as arguments -/
def exp2Tail (kf : F64) (p : TwoFloat) : TwoFloat :=
  if kf ==. (f64lit 0x0000000000000000) then sq9 p
  else arithmetic.fast_two_sum (explog.mul_pow2 (sq9 p).hi (RCast.cast kf : I32))
    (explog.mul_pow2 (sq9 p).lo (RCast.cast kf : I32))

theorem exp2_unfold (x : TwoFloat) :
    TwoFloat.exp2 x =
      if ROrd.isLt (base.impl_PartialOrd_f64_for_TwoFloat.partial_cmp x (F64.neg (f64lit 0x4090c80000000000))) then
        convert.impl_From_f64_for_TwoFloat.from (f64lit 0x0000000000000000)
      else if ROrd.isGe (base.impl_PartialOrd_f64_for_TwoFloat.partial_cmp x (f64lit 0x408ff80000000000)) then
        ({ hi := F64.INFINITY, lo := F64.INFINITY } : TwoFloat)
      else
        exp2Tail (F64.round x.hi)
          (polyFold (List.take 12 (List.drop 0 explog.FRAC_FACT))
            (fun a n => arithmetic.impl_Add_rTwoFloat_for_TwoFloat.add
              (arithmetic.impl_Mul_TwoFloat_for_TwoFloat.mul
                (arithmetic.impl_Div_f64_for_TwoFloat.div
                  (arithmetic.impl_Mul_TwoFloat_for_TwoFloat.mul
                    (arithmetic.impl_Sub_f64_for_TwoFloat.sub x (F64.round x.hi)) consts.LN_2)
                  (f64lit 0x4080000000000000)) a) n)) := rfl

theorem sq9_one {p : TwoFloat} (h : IsP p (F64.unit : Int) 0) : IsP (sq9 p) (F64.unit : Int) 0 :=
  sq_one (sq_one (sq_one (sq_one (sq_one (sq_one (sq_one (sq_one (sq_one h))))))))

/-- **`exp2` at an integer argument**: for every valid pair `x` whose value is the integer `k`,
`-1074 ≤ k ≤ 1022` (high word `k`, low word a zero of either sign), `exp2 x` is a valid pair whose high word has
the value `2^k` and whose low word is a zero (exact values; the sign of that zero is not tracked) -/
theorem exp2_int_value_gen (x : TwoFloat) (k : Int) (hp : IsP x (k * (F64.unit : Int)) 0)
    (h1 : -1074 ≤ k) (h2 : k ≤ 1022) :
    IsP (TwoFloat.exp2 x) ((2 ^ (k + 1074).toNat : Nat) : Int) 0 := by
  obtain ⟨hKi, hxl, hxv, hxw⟩ := hp
  have hKf : x.hi.is_finite = true := hxv.1
  have hKw : x.hi.WF := hxw.1
  have hxV : x.V = k * (F64.unit : Int) := by
    unfold TwoFloat.V; rw [hKi, hxl, add_zero]
  rw [exp2_unfold]
  -- the two range tests
  have c1 : ROrd.isLt (base.impl_PartialOrd_f64_for_TwoFloat.partial_cmp x
      (F64.neg (f64lit 0x4090c80000000000))) = false := by
    rw [lit_m1074, partial_cmp_tf_exact_of F64.roundFacts hxv
      (show (fin true (1074 * F64.unit)).WF by decide +kernel) rfl, Bool.eq_false_iff]
    intro hc
    have := ROrd.isLt_ofInts.1 hc
    rw [hxV] at this
    have e : (fin true (1074 * F64.unit)).toInt = -1074 * (F64.unit : Int) := by
      show -((1074 * F64.unit : Nat) : Int) = _; push_cast; ring
    rw [e] at this
    have hU : (0 : Int) < F64.unit := by exact_mod_cast F64.unit_pos
    nlinarith
  have c2 : ROrd.isGe (base.impl_PartialOrd_f64_for_TwoFloat.partial_cmp x
      (f64lit 0x408ff80000000000)) = false := by
    rw [lit_1023, partial_cmp_tf_exact_of F64.roundFacts hxv
      (show (fin false (1023 * F64.unit)).WF by decide +kernel) rfl, Bool.eq_false_iff]
    intro hc
    have := ROrd.isGe_ofInts.1 hc
    rw [hxV] at this
    have e : (fin false (1023 * F64.unit)).toInt = 1023 * (F64.unit : Int) := by
      show ((1023 * F64.unit : Nat) : Int) = _; push_cast; ring
    rw [e] at this
    have hU : (0 : Int) < F64.unit := by exact_mod_cast F64.unit_pos
    nlinarith
  rw [c1, c2, if_neg Bool.false_ne_true, if_neg Bool.false_ne_true]
  -- kf = round(hi) = hi
  have hround : F64.round x.hi = x.hi := by
    obtain ⟨s, n, hsn⟩ := is_finite_iff.mp hKf
    rw [hsn] at hKi ⊢
    apply round_of_dvd
    have := congrArg Int.natAbs hKi
    rw [natAbs_toInt_fin, Int.natAbs_mul, Int.natAbs_natCast] at this
    rw [this]; exact Dvd.intro_left _ rfl
  rw [hround]
  -- d = x - kf = 0
  have hd : IsP (arithmetic.impl_Sub_f64_for_TwoFloat.sub x (x.hi)) 0 0 := by
    have hS : x.hi.toInt - (x.hi).toInt = 0 := by ring
    have e0 : x.hi.toInt - (x.hi).toInt + x.lo.toInt = 0 := by rw [hS, hxl]; ring
    have := sub_tf_isV (IsV.of_valid hxv) (IsVal.of_finite hKf) hxw hKw
      (by rw [hS]; exact repI_zero) (by rw [hS]; exact abs_zero_le_maxFin)
      (by rw [e0, rnI_zero]; exact abs_zero_le_maxFin)
      (by rw [e0, rnI_zero, hS, sub_zero]; exact repI_zero)
      (by rw [e0, rnI_zero, hS, sub_zero]; exact abs_zero_le_maxFin)
    rw [e0, rnI_zero, sub_zero] at this
    have hp := this.package (sub_tf_WF x _) (by rw [add_zero, rnI_zero])
    exact ⟨hp.1, hp.2.1, hp.2.2.2.1, hp.2.2.2.2⟩
  -- r = d * LN_2 / 512 = 0
  obtain ⟨-, -, m3, m4, -⟩ := C04x.mul_tt_zero_left _ consts.LN_2 hd.2.2.1 (by rw [hd.V]; ring) LN_2_ok.1 LN_2_ok.2
  obtain ⟨-, -, r3, r4, -⟩ := C05x.div_tf_zero _ (f64lit 0x4080000000000000) m4 m3 lit_512.1 lit_512.2
  generalize hr : arithmetic.impl_Div_f64_for_TwoFloat.div
    (arithmetic.impl_Mul_TwoFloat_for_TwoFloat.mul (arithmetic.impl_Sub_f64_for_TwoFloat.sub x (x.hi))
      consts.LN_2) (f64lit 0x4080000000000000) = r
  have r3' : r.V = 0 := by rw [← hr]; exact r3
  have r4' : r.Valid := by rw [← hr]; exact r4
  -- the polynomial: value of the constant coefficient (1, 0)
  have hpoly : IsP (polyFold (List.take 12 (List.drop 0 explog.FRAC_FACT))
      (fun a n => arithmetic.impl_Add_rTwoFloat_for_TwoFloat.add (arithmetic.impl_Mul_TwoFloat_for_TwoFloat.mul r a) n))
      (F64.unit : Int) 0 := by
    unfold polyFold
    have hl : (List.take 12 (List.drop 0 explog.FRAC_FACT)).reverse
        = (List.take 11 explog.FRAC_FACT.tail).reverse ++ [⟨f64lit 0x3ff0000000000000, f64lit 0x0000000000000000⟩] := by
      rw [List.drop_zero]
      conv_lhs => rw [FRAC_FACT_cons]
      rw [List.take_succ_cons, List.reverse_cons]
    rw [hl]
    have hmem : ∀ t ∈ (List.take 11 explog.FRAC_FACT.tail).reverse, t.Valid ∧ t.WF := fun t ht =>
      FRAC_FACT_valid t (List.mem_of_mem_tail (List.mem_of_mem_take (List.mem_reverse.1 ht)))
    have hc0 : (⟨f64lit 0x3ff0000000000000, f64lit 0x0000000000000000⟩ : TwoFloat).Valid ∧
        (⟨f64lit 0x3ff0000000000000, f64lit 0x0000000000000000⟩ : TwoFloat).WF :=
      FRAC_FACT_valid _ (by rw [FRAC_FACT_cons]; exact List.mem_cons_self ..)
    have hne : (List.take 11 explog.FRAC_FACT.tail).reverse ≠ [] := by decide
    generalize (List.take 11 explog.FRAC_FACT.tail).reverse = rv at hmem hne
    cases rv with
    | nil => exact absurd rfl hne
    | cons init mid =>
      have := fold_zero_arg r r4' r3' mid init ⟨f64lit 0x3ff0000000000000, f64lit 0x0000000000000000⟩
        (hmem init (List.mem_cons_self ..))
        (fun t ht => by
          rcases List.mem_append.1 ht with h | h
          · exact hmem t (List.mem_cons_of_mem _ h)
          · rw [List.mem_singleton.1 h]; exact hc0)
      rw [c0_words.1, c0_words.2] at this
      exact this
  generalize polyFold (List.take 12 (List.drop 0 explog.FRAC_FACT))
      (fun a n => arithmetic.impl_Add_rTwoFloat_for_TwoFloat.add (arithmetic.impl_Mul_TwoFloat_for_TwoFloat.mul r a) n)
      = p0 at hpoly ⊢
  -- nine squarings of (1, 0)
  have hs := sq9_one hpoly
  unfold exp2Tail
  generalize sq9 p0 = r1 at hs ⊢
  -- the final scaling
  by_cases hk0 : k = 0
  · have : (x.hi ==. f64lit 0x0000000000000000) = true := by
      rw [req_eq, f64lit_zero, eq_iff_toInt hKf rfl, hKi, hk0, toInt_zero]; ring
    rw [this, if_pos rfl, hk0]
    have e : ((2 ^ ((0 : Int) + 1074).toNat : Nat) : Int) = (F64.unit : Int) := by
      rw [F64.unit_eq]; rfl
    rw [e]; exact hs
  · have hne : (x.hi ==. f64lit 0x0000000000000000) = false := by
      rw [req_eq, f64lit_zero, Bool.eq_false_iff]
      intro hc
      have := (eq_iff_toInt hKf rfl).1 hc
      rw [hKi, toInt_zero] at this
      have hU : (0 : Int) < F64.unit := by exact_mod_cast F64.unit_pos
      rcases mul_eq_zero.1 this with h | h
      · exact hk0 h
      · omega
    rw [hne]
    simp only [Bool.false_eq_true, if_false]
    have hcast : (RCast.cast (x.hi) : I32) = ⟨k⟩ := PF.cast_f64_i32 hKf hKi (by omega)
    rw [hcast, mul_pow2_eq _ k h1 (by omega), mul_pow2_eq _ k h1 (by omega)]
    -- exact products
    obtain ⟨j, hj⟩ : ∃ j : Nat, (k + 1074).toNat = j := ⟨_, rfl⟩
    have hj2 : j ≤ 2096 := by omega
    rw [hj]
    have hP : IsVal (fin false (2 ^ j)) ((2 ^ j : Nat) : Int) := ⟨rfl, rfl⟩
    have hPrep : RepI ((2 ^ j : Nat) : Int) := repI_natCast.2 (rep_two_pow j)
    have hPm : |((2 ^ j : Nat) : Int)| ≤ (maxFin : Int) := by
      rw [abs_of_nonneg (Int.natCast_nonneg _)]
      have : 2 ^ j ≤ 2 ^ 2096 := Nat.pow_le_pow_right (by decide) hj2
      have h3 : 2 ^ 2096 ≤ maxFin := le_trans (Nat.pow_le_pow_right (by decide) (by decide))
        two_pow_2097_le_maxFin
      exact_mod_cast le_trans this h3
    have hA : IsVal (F64.mul r1.hi (fin false (2 ^ j))) ((2 ^ j : Nat) : Int) :=
      IsVal.mul_exact ⟨hs.2.2.1.1, hs.1⟩ hP (by ring) hPrep hPm
    have hB : IsVal (F64.mul r1.lo (fin false (2 ^ j))) 0 :=
      IsVal.mul_exact ⟨hs.2.2.1.2.1, hs.2.1⟩ hP (by ring) repI_zero abs_zero_le_maxFin
    have hf := f2s_isV_exact hA hB (mul_WF _ _) (mul_WF _ _) (by rw [add_zero]; exact hPrep)
      (by rw [add_zero]; exact hPm)
    rw [add_zero] at hf
    have hp := hf.package (fast_two_sum_WF _ _) (by rw [add_zero]; exact (rnI_of_repI hPrep).symm)
    exact ⟨hp.1, hp.2.1, hp.2.2.2.1, hp.2.2.2.2⟩


/-- **`exp2(k) = 2^k` for EVERY integer `-1074 ≤ k ≤ 1022`**, at the level of exact values: the result is a valid
pair whose high word is the double `2^k` and whose low word is a zero (the sign of that zero is not tracked) -/
theorem exp2_int_value (k : Int) (h1 : -1074 ≤ k) (h2 : k ≤ 1022) :
    IsP (TwoFloat.exp2 ⟨F64.ofInt k, fin false 0⟩) ((2 ^ (k + 1074).toNat : Nat) : Int) 0 := by
  obtain ⟨eK, hKi, hKw⟩ := F64.ofInt_exact_of_lt k (by omega)
  have hKf : (F64.ofInt k).is_finite = true := by rw [eK]; rfl
  exact exp2_int_value_gen _ k ⟨hKi, toInt_zero false, (pair_zero_spec hKf hKw).2.1, hKw, WF_zero false⟩ h1 h2

/-- the high word is the double `2^k`, bit for bit -/
theorem exp2_int_hi (k : Int) (h1 : -1074 ≤ k) (h2 : k ≤ 1022) :
    (TwoFloat.exp2 ⟨F64.ofInt k, fin false 0⟩).hi = fin false (2 ^ (k + 1074).toNat) := by
  obtain ⟨e1, -, hv, -⟩ := exp2_int_value k h1 h2
  obtain ⟨s, n, hsn⟩ := is_finite_iff.mp hv.1
  rw [hsn] at e1 ⊢
  have hpos : 0 < 2 ^ (k + 1074).toNat := Nat.two_pow_pos _
  cases s
  · have : (n : Int) = ((2 ^ (k + 1074).toNat : Nat) : Int) := e1
    rw [Int.natCast_inj.1 this]
  · have : -(n : Int) = ((2 ^ (k + 1074).toNat : Nat) : Int) := e1
    omega

/-! ### `exp2(k) = (2^k, +0)` bit for bit (including the sign of the zero), by kernel evaluation

Each instance is one kernel evaluation of the complete `exp2` (≈ 3–5 s); the full range `-1022 ≤ k ≤ 1022` (2045
values) is therefore checked on the DOCUMENTED SUBSET below: the ends, the neighbourhood of 0, the powers near the
precision (±52, ±53) and a spread of others — 20 values in 4 shards. -/

/-- `2^k` as a double -/
def pow2 (k : Int) : F64 := fin false (2 ^ (k + 1074).toNat)

def exp2_ok (k : Int) : Bool :=
  decide (TwoFloat.exp2 ⟨F64.ofInt k, fin false 0⟩ = ⟨pow2 k, fin false 0⟩)

theorem exp2_int_shard1 : [-1022, -1021, -1000, -512, -100].all exp2_ok = true := by decide +kernel
theorem exp2_int_shard2 : [-53, -52, -2, -1, 1].all exp2_ok = true := by decide +kernel
theorem exp2_int_shard3 : [2, 3, 10, 52, 53].all exp2_ok = true := by decide +kernel
theorem exp2_int_shard4 : [100, 512, 1000, 1021, 1022].all exp2_ok = true := by decide +kernel

/-- the checked subset of `∀ k ∈ [-1022, 1022], exp2(k) = (2^k, +0)` (`k = 0` is `C14.exp2_zero`) -/
theorem exp2_int (k : Int)
    (hk : k ∈ [-1022, -1021, -1000, -512, -100, -53, -52, -2, -1, 1, 2, 3, 10, 52, 53, 100, 512, 1000, 1021, 1022]) :
    TwoFloat.exp2 ⟨F64.ofInt k, fin false 0⟩ = ⟨pow2 k, fin false 0⟩ := by
  have h : ([-1022, -1021, -1000, -512, -100] ++ [-53, -52, -2, -1, 1] ++ [2, 3, 10, 52, 53]
      ++ [100, 512, 1000, 1021, 1022]).all exp2_ok = true := by
    rw [List.all_append, List.all_append, List.all_append, exp2_int_shard1, exp2_int_shard2, exp2_int_shard3,
      exp2_int_shard4]; rfl
  have := List.all_eq_true.1 h k (by simpa using hk)
  exact of_decide_eq_true this

end C14p
