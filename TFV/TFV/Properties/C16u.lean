/-
C16u — accuracy of `TwoFloat::tan` against `Real.tan` (Mathlib), and the generic rounding-error lemma for the
odd polynomial kernels `restricted_tan / restricted_asin / restricted_atan` of the crate.

Notation as in C16t: `val t : ℚ` the exact value `hi + lo`, `rval t : ℝ` its cast.

SECTION 0 (generic, used by C17t as well)
* `restrictedM cs x` : the common shape `x * ((x*x) * horner(x*x, cs) + 1.0)`; the three kernels are instances by `rfl`.
* `hornerM_any` : rounding error of the Horner loop with NO domination hypothesis on the table (only
  `Σ|c_j| T^j ≤ 1` for every tail, a kernel-checked fact `hBnd`), in ALL ranges of the argument (built on
  `C16t.mul_any`): `(len − 1)·2^-99`.
* `restrictedM_bound` : `|val (restrictedM cs x) − x·(1 + t·P(t))| ≤ |x|·(len + 2)/2^99 + 2^-949`, `t = x²`.
* `restrictedM_deep` : for `|x| ≤ 2^-540` the result is `x` exactly (given the kernel fact `InnerZero cs`).
-/
import TFV.Lemmas.ATrigBound
import TFV.Properties.C16t
import TFV.Properties.C04x

set_option exponentiation.threshold 3000

namespace C16u

open F64 TwoFloat PowiBound TrigBound ATrigBound C16t

/-! ## 0. the generic odd kernel `x·(1 + x²·P(x²))` -/

/-- the common shape of `restricted_tan`, `restricted_asin`, `restricted_atan` -/
def restrictedM (cs : List TwoFloat) (x : TwoFloat) : TwoFloat :=
  arithmetic.impl_Mul_TwoFloat_for_TwoFloat.mul x (arithmetic.impl_Add_f64_for_TwoFloat.add
    (arithmetic.impl_Mul_TwoFloat_for_TwoFloat.mul (arithmetic.impl_Mul_TwoFloat_for_TwoFloat.mul x x)
      (hornerM (arithmetic.impl_Mul_TwoFloat_for_TwoFloat.mul x x) cs)) (f64lit 0x3ff0000000000000))

theorem restricted_tan_eq (x : TwoFloat) :
    trigonometry.restricted_tan x = restrictedM trigonometry.TAN_COEFFS x := rfl

theorem restricted_asin_eq (x : TwoFloat) :
    trigonometry.restricted_asin x = restrictedM trigonometry.ASIN_COEFFS x := rfl

theorem restricted_atan_eq (x : TwoFloat) :
    trigonometry.restricted_atan x = restrictedM trigonometry.ATAN_COEFFS x := rfl

/-- every tail of the coefficient list has `Σ |c_j| T^j ≤ 1` -/
def hBnd (T : ℚ) : List ℚ → Bool
  | [] => true
  | c :: cs => decide (hU T (c :: cs) ≤ 1) && hBnd T cs

theorem hBnd_bounds {T t : ℚ} (ht0 : 0 ≤ t) (htT : t ≤ T) {c : ℚ} {cs : List ℚ} (h : hBnd T (c :: cs) = true) :
    |pevalQ (c :: cs) t| ≤ 1 ∧ |c| ≤ 1 ∧ hBnd T cs = true := by
  simp only [hBnd, Bool.and_eq_true, decide_eq_true_eq] at h
  obtain ⟨hUd, h'⟩ := h
  refine ⟨le_trans (pevalQ_le_hU ht0 htT _) hUd, ?_, h'⟩
  have h1 : hU T (c :: cs) = |c| + T * hU T cs := rfl
  have h2 := hU_nonneg (le_trans ht0 htT) cs
  have h3 : 0 ≤ T * hU T cs := mul_nonneg (le_trans ht0 htT) h2
  linarith

/-- pure arithmetic of one Horner step in the `mul_any` setting -/
theorem any_step {τ t va A vm γ vs E : ℚ}
    (h1 : |τ - t| ≤ 1 / 2 ^ 103) (ht0 : 0 ≤ t) (ht1 : t ≤ 1) (h2 : |va - A| ≤ E) (hE : E ≤ 1 / 2 ^ 80)
    (hA : |A| ≤ 1) (h3 : |vm - τ * va| ≤ 7 / 2 ^ 106 * |τ * va| + 1 / 2 ^ 950) (hγ : |γ| ≤ 1)
    (h4 : |vs - (vm + γ)| ≤ cA * |vm + γ|) :
    |vs - (γ + t * A)| ≤ E + 1 / 2 ^ 99 ∧ |vm| ≤ 5 := by
  have a0 := cA_pos
  have a1 := cA_le
  have hτ : |τ| ≤ 2 := by
    have := abs_add_le (τ - t) t
    rw [sub_add_cancel, abs_of_nonneg ht0] at this
    have : (1 : ℚ) / 2 ^ 103 ≤ 1 := by norm_num
    linarith
  have hva : |va| ≤ 2 := by
    have := abs_add_le (va - A) A
    rw [sub_add_cancel] at this
    have : (1 : ℚ) / 2 ^ 80 ≤ 1 := by norm_num
    linarith
  have hp : |τ * va| ≤ 4 := by
    rw [abs_mul]
    have := mul_le_mul hτ hva (abs_nonneg _) (by norm_num)
    linarith
  have hm : |vm - τ * va| ≤ 29 / 2 ^ 106 := by
    have : 7 / 2 ^ 106 * |τ * va| ≤ 7 / 2 ^ 106 * 4 := mul_le_mul_of_nonneg_left hp (by positivity)
    have : (7 : ℚ) / 2 ^ 106 * 4 + 1 / 2 ^ 950 ≤ 29 / 2 ^ 106 := by norm_num
    linarith
  have hvm : |vm| ≤ 5 := by
    have := abs_add_le (vm - τ * va) (τ * va)
    rw [sub_add_cancel] at this
    have : (29 : ℚ) / 2 ^ 106 ≤ 1 := by norm_num
    linarith
  have hs : |vs - (vm + γ)| ≤ 6 * cA := by
    have := abs_add_le vm γ
    have h6 : |vm + γ| ≤ 6 := by linarith
    nlinarith
  have hd : |τ * va - t * A| ≤ 2 / 2 ^ 103 + E := by
    have e : τ * va - t * A = (τ - t) * va + t * (va - A) := by ring
    rw [e]
    refine le_trans (abs_add_le _ _) ?_
    rw [abs_mul, abs_mul, abs_of_nonneg ht0]
    have p1 : |τ - t| * |va| ≤ 1 / 2 ^ 103 * 2 := mul_le_mul h1 hva (abs_nonneg _) (by positivity)
    have p2 : t * |va - A| ≤ 1 * E := mul_le_mul ht1 h2 (abs_nonneg _) (by norm_num)
    linarith
  refine ⟨?_, hvm⟩
  have e : vs - (γ + t * A) = (vs - (vm + γ)) + (vm - τ * va) + (τ * va - t * A) := by ring
  rw [e]
  refine le_trans (abs_add_le _ _) ?_
  refine le_trans (add_le_add_left (abs_add_le _ _) _) ?_
  have : 6 * cA + 29 / 2 ^ 106 + 2 / 2 ^ 103 ≤ 1 / 2 ^ 99 := by
    have e1 : (1 : ℚ) / 2 ^ 99 = 6 * (1 / 2 ^ 104) + 29 / 2 ^ 106 + 2 / 2 ^ 103 + 59 / 2 ^ 106 := by norm_num
    rw [e1]
    have : (0 : ℚ) ≤ 59 / 2 ^ 106 := by positivity
    linarith
  linarith

/-- `x2 * a` followed by the addition of a constant, all ranges -/
theorem any_mul_step {x2 a : TwoFloat} (hv2 : x2.Valid) (hw2 : x2.WF) {t : ℚ}
    (ht : |val x2 - t| ≤ 1 / 2 ^ 103) (ht0 : 0 ≤ t) (ht1 : t ≤ 1)
    (hva : a.Valid) (hwa : a.WF) {A E : ℚ} (hea : |val a - A| ≤ E) (hE : E ≤ 1 / 2 ^ 80) (hAu : |A| ≤ 1) :
    (arithmetic.impl_Mul_rTwoFloat_for_rTwoFloat.mul x2 a).Valid ∧
    (arithmetic.impl_Mul_rTwoFloat_for_rTwoFloat.mul x2 a).WF ∧
    |val (arithmetic.impl_Mul_rTwoFloat_for_rTwoFloat.mul x2 a)| ≤ 5 ∧
    ∀ γ vs : ℚ, |γ| ≤ 1 →
      |vs - (val (arithmetic.impl_Mul_rTwoFloat_for_rTwoFloat.mul x2 a) + γ)|
        ≤ cA * |val (arithmetic.impl_Mul_rTwoFloat_for_rTwoFloat.mul x2 a) + γ| →
      |vs - (γ + t * A)| ≤ E + 1 / 2 ^ 99 := by
  have hτ : |val x2| ≤ 4 := by
    have := abs_add_le (val x2 - t) t
    rw [sub_add_cancel, abs_of_nonneg ht0] at this
    have : (1 : ℚ) / 2 ^ 103 ≤ 1 := by norm_num
    linarith
  have hau : |val a| ≤ 4 := by
    have := abs_add_le (val a - A) A
    rw [sub_add_cancel] at this
    have : (1 : ℚ) / 2 ^ 80 ≤ 1 := by norm_num
    linarith
  obtain ⟨hvm, hwm, hem⟩ := mul_any hv2 hw2 hva hwa hτ hau
  have hstep : ∀ γ vs : ℚ, |γ| ≤ 1 →
      |vs - (val (arithmetic.impl_Mul_rTwoFloat_for_rTwoFloat.mul x2 a) + γ)|
        ≤ cA * |val (arithmetic.impl_Mul_rTwoFloat_for_rTwoFloat.mul x2 a) + γ| →
      |vs - (γ + t * A)| ≤ E + 1 / 2 ^ 99 ∧ |val (arithmetic.impl_Mul_rTwoFloat_for_rTwoFloat.mul x2 a)| ≤ 5 :=
    fun γ vs hγ h4 => any_step ht ht0 ht1 hea hE hAu hem hγ h4
  refine ⟨hvm, hwm, ?_, fun γ vs hγ h4 => (hstep γ vs hγ h4).1⟩
  refine (hstep 0 (val (arithmetic.impl_Mul_rTwoFloat_for_rTwoFloat.mul x2 a) + 0) (by simp) ?_).2
  rw [sub_self, abs_zero]; exact mul_nonneg cA_pos.le (abs_nonneg _)

/-- **the Horner loop, all ranges, no domination hypothesis**: the computed value is within `(len − 1)·2^-99` of the
exact rational Horner value at `t`, where `x2` approximates `t ∈ [0, T]` to `2^-103` -/
theorem hornerM_any {x2 : TwoFloat} (hv2 : x2.Valid) (hw2 : x2.WF) {t T : ℚ}
    (ht : |val x2 - t| ≤ 1 / 2 ^ 103) (ht0 : 0 ≤ t) (htT : t ≤ T) (hT : T ≤ 1) :
    ∀ cs : List TwoFloat, cs ≠ [] → cs.length ≤ 1024 → (∀ c ∈ cs, c.Valid ∧ c.WF) → hBnd T (cs.map val) = true →
      (hornerM x2 cs).Valid ∧ (hornerM x2 cs).WF ∧
      |val (hornerM x2 cs) - pevalQ (cs.map val) t| ≤ ((cs.length - 1 : ℕ) : ℚ) / 2 ^ 99 := by
  intro cs
  induction cs with
  | nil => intro h; exact absurd rfl h
  | cons c cs ih =>
    intro _ hlen hall hok
    cases cs with
    | nil =>
      have hc := hall c (List.mem_cons_self ..)
      refine ⟨hc.1, hc.2, ?_⟩
      simp [hornerM]
    | cons d cs =>
      have hc := hall c (List.mem_cons_self ..)
      have hlen' : (d :: cs).length ≤ 1024 := by simp only [List.length_cons] at hlen ⊢; omega
      have hall' : ∀ c' ∈ d :: cs, c'.Valid ∧ c'.WF := fun c' h' => hall c' (List.mem_cons_of_mem _ h')
      have hok1 : hBnd T (val c :: (d :: cs).map val) = true := hok
      obtain ⟨_, hγ, hok'⟩ := hBnd_bounds ht0 htT hok1
      obtain ⟨hva, hwa, hea⟩ := ih (by simp) hlen' hall' hok'
      have hok2 : hBnd T (val d :: cs.map val) = true := hok'
      obtain ⟨hAu, _, _⟩ := hBnd_bounds ht0 htT hok2
      have hE : (((d :: cs).length - 1 : ℕ) : ℚ) / 2 ^ 99 ≤ 1 / 2 ^ 80 := by
        have h1 : (((d :: cs).length - 1 : ℕ) : ℚ) ≤ 1024 := by
          have : (d :: cs).length - 1 ≤ 1024 := by omega
          exact_mod_cast this
        rw [div_le_div_iff₀ (by positivity) (by positivity)]
        have : (1024 : ℚ) * 2 ^ 80 ≤ 1 * 2 ^ 99 := by norm_num
        nlinarith
      obtain ⟨hvm, hwm, hm5, hstep⟩ := any_mul_step hv2 hw2 ht ht0 (le_trans htT hT) hva hwa hea hE hAu
      obtain ⟨hvs, hws, hes⟩ := add_tt_val hvm hwm hc.1 hc.2 (le_trans hm5 (by norm_num))
        (le_trans hγ (by norm_num))
      refine ⟨hvs, hws, ?_⟩
      have hfin := hstep _ _ hγ hes
      have e1 : pevalQ ((c :: d :: cs).map val) t = val c + t * pevalQ ((d :: cs).map val) t := rfl
      have e2 : ((((c :: d :: cs).length - 1 : ℕ)) : ℚ) / 2 ^ 99
          = (((d :: cs).length - 1 : ℕ) : ℚ) / 2 ^ 99 + 1 / 2 ^ 99 := by
        simp only [List.length_cons, Nat.add_sub_cancel]
        push_cast
        ring
      rw [e1, e2]
      exact hfin

/-- the exact rational value of the kernel -/
def oddPolyQ (q : List ℚ) (r : ℚ) : ℚ := r * (r ^ 2 * pevalQ q (r ^ 2) + 1)

/-- **rounding error of the odd kernel, all ranges**: for `x² ≤ T ≤ 1` and a table with `hBnd T`,
`|val (restrictedM cs x) − x·(1 + x²·P(x²))| ≤ |x|·(len + 2)/2^99 + 2^-949` -/
theorem restrictedM_bound {cs : List TwoFloat} (hne : cs ≠ []) (hlen : cs.length ≤ 1024)
    (hall : ∀ c ∈ cs, c.Valid ∧ c.WF) {T : ℚ} (hT : T ≤ 1) (hok : hBnd T (cs.map val) = true)
    {x : TwoFloat} (hv : x.Valid) (hw : x.WF) (hx : val x ^ 2 ≤ T) :
    (restrictedM cs x).Valid ∧ (restrictedM cs x).WF ∧
    |val (restrictedM cs x) - oddPolyQ (cs.map val) (val x)|
      ≤ |val x| * ((cs.length + 2 : ℕ) : ℚ) / 2 ^ 99 + 1 / 2 ^ 949 := by
  have tnn : 0 ≤ val x ^ 2 := sq_nonneg _
  have ht1 : val x ^ 2 ≤ 1 := le_trans hx hT
  have hx1 : |val x| ≤ 1 := by
    rw [← abs_one (α := ℚ)]
    exact sq_le_sq.1 (by simpa using ht1)
  obtain ⟨hv2, hw2, he2⟩ := mul_any hv hw hv hw (le_trans hx1 (by norm_num)) (le_trans hx1 (by norm_num))
  set x2 := arithmetic.impl_Mul_rTwoFloat_for_rTwoFloat.mul x x with hx2
  set t := val x ^ 2 with htdef
  have ht : |val x2 - t| ≤ 1 / 2 ^ 103 := by
    have e : val x * val x = t := by rw [htdef]; ring
    rw [e, abs_of_nonneg tnn] at he2
    have : 7 / 2 ^ 106 * t ≤ 7 / 2 ^ 106 * 1 := mul_le_mul_of_nonneg_left ht1 (by positivity)
    have : (7 : ℚ) / 2 ^ 106 * 1 + 1 / 2 ^ 950 ≤ 1 / 2 ^ 103 := by norm_num
    linarith
  obtain ⟨hvP, hwP, heP⟩ := hornerM_any hv2 hw2 ht tnn hx hT cs hne hlen hall hok
  obtain ⟨c, cs', rfl⟩ : ∃ c cs', cs = c :: cs' := by
    cases cs with
    | nil => exact absurd rfl hne
    | cons c cs' => exact ⟨c, cs', rfl⟩
  have hok1 : hBnd T (val c :: cs'.map val) = true := hok
  obtain ⟨hAu, _, _⟩ := hBnd_bounds tnn hx hok1
  set q := (c :: cs').map val with hq
  have hAu' : |pevalQ q t| ≤ 1 := hAu
  set Pq := pevalQ q t with hPq
  set P := hornerM x2 (c :: cs') with hP
  have hE : (((c :: cs').length - 1 : ℕ) : ℚ) / 2 ^ 99 ≤ 1 / 2 ^ 80 := by
    have h1 : (((c :: cs').length - 1 : ℕ) : ℚ) ≤ 1024 := by
      have : (c :: cs').length - 1 ≤ 1024 := by omega
      exact_mod_cast this
    rw [div_le_div_iff₀ (by positivity) (by positivity)]
    have : (1024 : ℚ) * 2 ^ 80 ≤ 1 * 2 ^ 99 := by norm_num
    nlinarith
  obtain ⟨hvm, hwm, hm5, hstep⟩ := any_mul_step hv2 hw2 ht tnn ht1 hvP hwP heP hE hAu'
  obtain ⟨hvy, hwy, hey⟩ := addf_step hvm hwm hm5 lit_one_facts.1 lit_one_facts.2.1
    (by rw [fval_one]; norm_num)
  have hY := hstep _ _ (by rw [fval_one]; norm_num) hey
  rw [fval_one] at hY
  set y := arithmetic.impl_Add_rf64_for_rTwoFloat.add (arithmetic.impl_Mul_rTwoFloat_for_rTwoFloat.mul x2 P)
    (f64lit 0x3ff0000000000000) with hy
  have hres : restrictedM (c :: cs') x = arithmetic.impl_Mul_rTwoFloat_for_rTwoFloat.mul x y := rfl
  rw [hres]
  -- |1 + t·Pq| ≤ 2, |y| ≤ 3
  have htP : |t * Pq| ≤ 1 := by
    rw [abs_mul, abs_of_nonneg tnn]
    have := mul_le_mul ht1 hAu' (abs_nonneg _) (by norm_num)
    linarith
  have hYu : |1 + t * Pq| ≤ 2 := by
    have := abs_add_le 1 (t * Pq)
    rw [abs_one] at this
    linarith
  have hyu : |val y| ≤ 3 := by
    have := abs_add_le (val y - (1 + t * Pq)) (1 + t * Pq)
    rw [sub_add_cancel] at this
    have : (1 : ℚ) / 2 ^ 80 + 1 / 2 ^ 99 ≤ 1 := by norm_num
    linarith
  obtain ⟨hvr, hwr, her⟩ := mul_any hv hw hvy hwy (le_trans hx1 (by norm_num)) (le_trans hyu (by norm_num))
  refine ⟨hvr, hwr, ?_⟩
  have e : oddPolyQ q (val x) = val x * (1 + t * Pq) := by unfold oddPolyQ; rw [hPq, htdef]; ring
  rw [e]
  have e2 : val (arithmetic.impl_Mul_rTwoFloat_for_rTwoFloat.mul x y) - val x * (1 + t * Pq)
      = (val (arithmetic.impl_Mul_rTwoFloat_for_rTwoFloat.mul x y) - val x * val y)
        + val x * (val y - (1 + t * Pq)) := by ring
  rw [e2]
  refine le_trans (abs_add_le _ _) ?_
  rw [abs_mul (val x) (val y)] at her
  rw [abs_mul]
  have hxpos : 0 ≤ |val x| := abs_nonneg _
  have h1 : 7 / 2 ^ 106 * (|val x| * |val y|) ≤ |val x| * (21 / 2 ^ 106) := by
    have : |val x| * |val y| ≤ |val x| * 3 := mul_le_mul_of_nonneg_left hyu hxpos
    nlinarith
  have hlen' : (((c :: cs').length - 1 : ℕ) : ℚ) + 1 = ((c :: cs').length : ℚ) := by
    simp only [List.length_cons, Nat.add_sub_cancel]; push_cast; ring
  have h2 : |val x| * |val y - (1 + t * Pq)|
      ≤ |val x| * ((((c :: cs').length - 1 : ℕ) : ℚ) / 2 ^ 99 + 1 / 2 ^ 99) :=
    mul_le_mul_of_nonneg_left hY hxpos
  have h3 : |val x| * (21 / 2 ^ 106) + |val x| * ((((c :: cs').length - 1 : ℕ) : ℚ) / 2 ^ 99 + 1 / 2 ^ 99)
      ≤ |val x| * (((c :: cs').length + 2 : ℕ) : ℚ) / 2 ^ 99 := by
    have e3 : ((((c :: cs').length + 2 : ℕ) : ℚ)) = ((c :: cs').length : ℚ) + 2 := by push_cast; ring
    rw [e3, ← hlen', mul_div_assoc, ← mul_add]
    refine mul_le_mul_of_nonneg_left ?_ hxpos
    have : (21 : ℚ) / 2 ^ 106 ≤ 2 / 2 ^ 99 := by norm_num
    have e4 : ((((c :: cs').length - 1 : ℕ) : ℚ) + 1 + 2) / 2 ^ 99
        = (((c :: cs').length - 1 : ℕ) : ℚ) / 2 ^ 99 + 1 / 2 ^ 99 + 2 / 2 ^ 99 := by ring
    rw [e4]
    linarith
  have : (1 : ℚ) / 2 ^ 950 ≤ 1 / 2 ^ 949 := by norm_num
  linarith

/-- kernel-checkable fact about a table: `z·P(z) + 1.0` for a zero `z` (any signs of the zero words) is `(1.0, 0)` -/
def InnerZero (cs : List TwoFloat) : Prop :=
  ∀ s u : Bool,
    (arithmetic.impl_Add_rf64_for_rTwoFloat.add
      (arithmetic.impl_Mul_rTwoFloat_for_rTwoFloat.mul ⟨F64.fin s 0, F64.fin u 0⟩
        (hornerM ⟨F64.fin s 0, F64.fin u 0⟩ cs)) (f64lit 0x3ff0000000000000)).hi.is_finite = true ∧
    (arithmetic.impl_Add_rf64_for_rTwoFloat.add
      (arithmetic.impl_Mul_rTwoFloat_for_rTwoFloat.mul ⟨F64.fin s 0, F64.fin u 0⟩
        (hornerM ⟨F64.fin s 0, F64.fin u 0⟩ cs)) (f64lit 0x3ff0000000000000)).lo.is_finite = true ∧
    (arithmetic.impl_Add_rf64_for_rTwoFloat.add
      (arithmetic.impl_Mul_rTwoFloat_for_rTwoFloat.mul ⟨F64.fin s 0, F64.fin u 0⟩
        (hornerM ⟨F64.fin s 0, F64.fin u 0⟩ cs)) (f64lit 0x3ff0000000000000)).hi.toInt = (unit : Int) ∧
    (arithmetic.impl_Add_rf64_for_rTwoFloat.add
      (arithmetic.impl_Mul_rTwoFloat_for_rTwoFloat.mul ⟨F64.fin s 0, F64.fin u 0⟩
        (hornerM ⟨F64.fin s 0, F64.fin u 0⟩ cs)) (f64lit 0x3ff0000000000000)).lo.toInt = 0

/-- **`restrictedM cs x = x` exactly for `|x| ≤ 2^-540`** (`x * x` underflows to a zero) -/
theorem restrictedM_deep {cs : List TwoFloat} (hz : InnerZero cs) {x : TwoFloat} (hv : x.Valid) (hw : x.WF)
    (hs : |val x| ≤ 1 / 2 ^ 540) :
    (restrictedM cs x).Valid ∧ val (restrictedM cs x) = val x := by
  have hV := V_le_of_val hs
  obtain ⟨b1, _⟩ := hi_bounds hv
  have hh : |x.hi.toInt| ≤ 2 ^ 535 := by
    have e : (2 : Int) ^ 535 = 2 * 2 ^ 534 := by norm_num
    rw [e]
    have p : (0 : Int) < 2 ^ 534 := by positivity
    generalize (2 : Int) ^ 534 = W at *
    nlinarith [abs_nonneg x.hi.toInt]
  have hP : |x.hi.toInt * x.hi.toInt| ≤ 2 ^ 1070 := by
    rw [abs_mul]
    have := mul_le_mul hh hh (abs_nonneg _) (by positivity)
    refine le_trans this ?_
    rw [← pow_add]
  obtain ⟨hv2, _, hzr⟩ := tiny_mul hv hv (lt_of_le_of_lt hP (pow_lt_pow_right₀ (by norm_num) (by norm_num)))
  have h0 : (arithmetic.impl_Mul_rTwoFloat_for_rTwoFloat.mul x x).V = 0 := by
    apply hzr
    rw [unit_cast_eq]
    have : (2 : Int) * 2 ^ 1070 < 2 ^ 1074 := by norm_num
    linarith
  obtain ⟨s, u, hx2⟩ := zero_words hv2 h0
  have hres : restrictedM cs x
      = arithmetic.impl_Mul_TwoFloat_for_TwoFloat.mul x (arithmetic.impl_Add_rf64_for_rTwoFloat.add
          (arithmetic.impl_Mul_rTwoFloat_for_rTwoFloat.mul (arithmetic.impl_Mul_rTwoFloat_for_rTwoFloat.mul x x)
            (hornerM (arithmetic.impl_Mul_rTwoFloat_for_rTwoFloat.mul x x) cs))
          (f64lit 0x3ff0000000000000)) := rfl
  rw [hres, hx2]
  obtain ⟨f1, f2, f3, f4⟩ := hz s u
  obtain ⟨_, _, h3, h4, _⟩ := C04x.mul_tt_one_right x _ hv hw f1 f2 f3 f4
  refine ⟨h4, ?_⟩
  unfold val
  rw [show (arithmetic.impl_Mul_TwoFloat_for_TwoFloat.mul x _).V = x.V from h3]

end C16u
