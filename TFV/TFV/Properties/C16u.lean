/-
C16u — accuracy of `TwoFloat::tan` against `Real.tan` (Mathlib), and the generic rounding-error lemma for the
odd polynomial kernels `restricted_tan / restricted_asin / restricted_atan` of the crate.

Notation as in C16t: `val t : ℚ` the exact value `hi + lo`, `rval t : ℝ` its cast.

SECTION 0 (generic, used by C17t as well)
* `restrictedM cs x` : the common shape `x * ((x*x) * horner(x*x, cs) + 1.0)`; the three kernels are instances by `rfl`.
* `hornerM_any` : rounding error of the Horner loop with NO domination hypothesis on the table (only
  `Σ|c_j| T^j ≤ 1` for every tail, a kernel-checked fact `hBnd`), in ALL ranges of the argument (built on
  `C16t.mul_any`): `(len − 1)·2^-99`.
* `restrictedM_bound` : `|val (restrictedM cs x) − x·(1 + t·P(t))| ≤ |x|·(len + 2)/2^99 + 2^-949`, `t = x²`.
* `restrictedM_deep` : for `|x| ≤ 2^-540` the result is `x` exactly (given the kernel fact `InnerZero cs`).

MAIN RESULTS (tan)
* `restricted_tan_real` : valid `|r| ≤ 0.786` ⇒ `|restricted_tan r − tan r| ≤ 5·2^-53·|tan r| + 2^-949`.
* `tan_bound` : valid `x`, `|x| ≤ 2^20`, `|cos x| ≥ 2^-69` ⇒ the result is a valid pair and
      `|tan(x) − tan x| ≤ 2^-50·|tan x| + 2^-80·(1 + tan² x)`
  (even quadrants `restricted_tan r`; odd quadrants `−1.0 / restricted_tan r` with the `16u²` division;
  the second term is the propagated reduction error `2^-81·(1 + tan²)`).
  `C16_tan` (the property's form with `max(|tan x|, 2^-30)`), `tan_bound_of_model_cos` (the pole hypothesis checked on
  the model's own cosine), `tan_small_bound` (`|x| < FRAC_PI_4`: no hypothesis).
* FINDING `tan_pole_counterexample`: `tan(consts::FRAC_PI_2) = (NaN, NaN)` in the model (reduced argument exactly 0,
  then `−1.0 / 0`); the pole hypothesis of `tan_bound` cannot be dropped and the property as stated
  ("for valid x with |x| ≤ 2^20") fails there.
-/
import TFV.Lemmas.ATrigBound
import TFV.Properties.C16t
import TFV.Properties.C04x

set_option exponentiation.threshold 3000

namespace C16u

open F64 TwoFloat PowiBound TrigBound ATrigBound C16t

/-! ## 0. the generic odd kernel `x·(1 + x²·P(x²))` -/

/-- the common shape of `restricted_tan`, `restricted_asin`, `restricted_atan` -/
def restrictedM (cs : List TwoFloat) (x : TwoFloat) : TwoFloat :=
  arithmetic.impl_Mul_TwoFloat_for_TwoFloat.mul x (arithmetic.impl_Add_f64_for_TwoFloat.add
    (arithmetic.impl_Mul_TwoFloat_for_TwoFloat.mul (arithmetic.impl_Mul_TwoFloat_for_TwoFloat.mul x x)
      (hornerM (arithmetic.impl_Mul_TwoFloat_for_TwoFloat.mul x x) cs)) (f64lit 0x3ff0000000000000))

theorem restricted_tan_eq (x : TwoFloat) :
    trigonometry.restricted_tan x = restrictedM trigonometry.TAN_COEFFS x := rfl

theorem restricted_asin_eq (x : TwoFloat) :
    trigonometry.restricted_asin x = restrictedM trigonometry.ASIN_COEFFS x := rfl

theorem restricted_atan_eq (x : TwoFloat) :
    trigonometry.restricted_atan x = restrictedM trigonometry.ATAN_COEFFS x := rfl

/-- every tail of the coefficient list has `Σ |c_j| T^j ≤ 1` -/
def hBnd (T : ℚ) : List ℚ → Bool
  | [] => true
  | c :: cs => decide (hU T (c :: cs) ≤ 1) && hBnd T cs

theorem hBnd_bounds {T t : ℚ} (ht0 : 0 ≤ t) (htT : t ≤ T) {c : ℚ} {cs : List ℚ} (h : hBnd T (c :: cs) = true) :
    |pevalQ (c :: cs) t| ≤ 1 ∧ |c| ≤ 1 ∧ hBnd T cs = true := by
  simp only [hBnd, Bool.and_eq_true, decide_eq_true_eq] at h
  obtain ⟨hUd, h'⟩ := h
  refine ⟨le_trans (pevalQ_le_hU ht0 htT _) hUd, ?_, h'⟩
  have h1 : hU T (c :: cs) = |c| + T * hU T cs := rfl
  have h2 := hU_nonneg (le_trans ht0 htT) cs
  have h3 : 0 ≤ T * hU T cs := mul_nonneg (le_trans ht0 htT) h2
  linarith

/-- pure arithmetic of one Horner step in the `mul_any` setting -/
theorem any_step {τ t va A vm γ vs E : ℚ}
    (h1 : |τ - t| ≤ 1 / 2 ^ 103) (ht0 : 0 ≤ t) (ht1 : t ≤ 1) (h2 : |va - A| ≤ E) (hE : E ≤ 1 / 2 ^ 80)
    (hA : |A| ≤ 1) (h3 : |vm - τ * va| ≤ 7 / 2 ^ 106 * |τ * va| + 1 / 2 ^ 950) (hγ : |γ| ≤ 1)
    (h4 : |vs - (vm + γ)| ≤ cA * |vm + γ|) :
    |vs - (γ + t * A)| ≤ E + 1 / 2 ^ 99 ∧ |vm| ≤ 5 := by
  have a0 := cA_pos
  have a1 := cA_le
  have hτ : |τ| ≤ 2 := by
    have := abs_add_le (τ - t) t
    rw [sub_add_cancel, abs_of_nonneg ht0] at this
    have : (1 : ℚ) / 2 ^ 103 ≤ 1 := by norm_num
    linarith
  have hva : |va| ≤ 2 := by
    have := abs_add_le (va - A) A
    rw [sub_add_cancel] at this
    have : (1 : ℚ) / 2 ^ 80 ≤ 1 := by norm_num
    linarith
  have hp : |τ * va| ≤ 4 := by
    rw [abs_mul]
    have := mul_le_mul hτ hva (abs_nonneg _) (by norm_num)
    linarith
  have hm : |vm - τ * va| ≤ 29 / 2 ^ 106 := by
    have : 7 / 2 ^ 106 * |τ * va| ≤ 7 / 2 ^ 106 * 4 := mul_le_mul_of_nonneg_left hp (by positivity)
    have : (7 : ℚ) / 2 ^ 106 * 4 + 1 / 2 ^ 950 ≤ 29 / 2 ^ 106 := by norm_num
    linarith
  have hvm : |vm| ≤ 5 := by
    have := abs_add_le (vm - τ * va) (τ * va)
    rw [sub_add_cancel] at this
    have : (29 : ℚ) / 2 ^ 106 ≤ 1 := by norm_num
    linarith
  have hs : |vs - (vm + γ)| ≤ 6 * cA := by
    have := abs_add_le vm γ
    have h6 : |vm + γ| ≤ 6 := by linarith
    nlinarith
  have hd : |τ * va - t * A| ≤ 2 / 2 ^ 103 + E := by
    have e : τ * va - t * A = (τ - t) * va + t * (va - A) := by ring
    rw [e]
    refine le_trans (abs_add_le _ _) ?_
    rw [abs_mul, abs_mul, abs_of_nonneg ht0]
    have p1 : |τ - t| * |va| ≤ 1 / 2 ^ 103 * 2 := mul_le_mul h1 hva (abs_nonneg _) (by positivity)
    have p2 : t * |va - A| ≤ 1 * E := mul_le_mul ht1 h2 (abs_nonneg _) (by norm_num)
    linarith
  refine ⟨?_, hvm⟩
  have e : vs - (γ + t * A) = (vs - (vm + γ)) + (vm - τ * va) + (τ * va - t * A) := by ring
  rw [e]
  refine le_trans (abs_add_le _ _) ?_
  refine le_trans (add_le_add_left (abs_add_le _ _) _) ?_
  have : 6 * cA + 29 / 2 ^ 106 + 2 / 2 ^ 103 ≤ 1 / 2 ^ 99 := by
    have e1 : (1 : ℚ) / 2 ^ 99 = 6 * (1 / 2 ^ 104) + 29 / 2 ^ 106 + 2 / 2 ^ 103 + 59 / 2 ^ 106 := by norm_num
    rw [e1]
    have : (0 : ℚ) ≤ 59 / 2 ^ 106 := by positivity
    linarith
  linarith

/-- `x2 * a` followed by the addition of a constant, all ranges -/
theorem any_mul_step {x2 a : TwoFloat} (hv2 : x2.Valid) (hw2 : x2.WF) {t : ℚ}
    (ht : |val x2 - t| ≤ 1 / 2 ^ 103) (ht0 : 0 ≤ t) (ht1 : t ≤ 1)
    (hva : a.Valid) (hwa : a.WF) {A E : ℚ} (hea : |val a - A| ≤ E) (hE : E ≤ 1 / 2 ^ 80) (hAu : |A| ≤ 1) :
    (arithmetic.impl_Mul_rTwoFloat_for_rTwoFloat.mul x2 a).Valid ∧
    (arithmetic.impl_Mul_rTwoFloat_for_rTwoFloat.mul x2 a).WF ∧
    |val (arithmetic.impl_Mul_rTwoFloat_for_rTwoFloat.mul x2 a)| ≤ 5 ∧
    ∀ γ vs : ℚ, |γ| ≤ 1 →
      |vs - (val (arithmetic.impl_Mul_rTwoFloat_for_rTwoFloat.mul x2 a) + γ)|
        ≤ cA * |val (arithmetic.impl_Mul_rTwoFloat_for_rTwoFloat.mul x2 a) + γ| →
      |vs - (γ + t * A)| ≤ E + 1 / 2 ^ 99 := by
  have hτ : |val x2| ≤ 4 := by
    have := abs_add_le (val x2 - t) t
    rw [sub_add_cancel, abs_of_nonneg ht0] at this
    have : (1 : ℚ) / 2 ^ 103 ≤ 1 := by norm_num
    linarith
  have hau : |val a| ≤ 4 := by
    have := abs_add_le (val a - A) A
    rw [sub_add_cancel] at this
    have : (1 : ℚ) / 2 ^ 80 ≤ 1 := by norm_num
    linarith
  obtain ⟨hvm, hwm, hem⟩ := mul_any hv2 hw2 hva hwa hτ hau
  have hstep : ∀ γ vs : ℚ, |γ| ≤ 1 →
      |vs - (val (arithmetic.impl_Mul_rTwoFloat_for_rTwoFloat.mul x2 a) + γ)|
        ≤ cA * |val (arithmetic.impl_Mul_rTwoFloat_for_rTwoFloat.mul x2 a) + γ| →
      |vs - (γ + t * A)| ≤ E + 1 / 2 ^ 99 ∧ |val (arithmetic.impl_Mul_rTwoFloat_for_rTwoFloat.mul x2 a)| ≤ 5 :=
    fun γ vs hγ h4 => any_step ht ht0 ht1 hea hE hAu hem hγ h4
  refine ⟨hvm, hwm, ?_, fun γ vs hγ h4 => (hstep γ vs hγ h4).1⟩
  refine (hstep 0 (val (arithmetic.impl_Mul_rTwoFloat_for_rTwoFloat.mul x2 a) + 0) (by simp) ?_).2
  rw [sub_self, abs_zero]; exact mul_nonneg cA_pos.le (abs_nonneg _)

/-- **the Horner loop, all ranges, no domination hypothesis**: the computed value is within `(len − 1)·2^-99` of the
exact rational Horner value at `t`, where `x2` approximates `t ∈ [0, T]` to `2^-103` -/
theorem hornerM_any {x2 : TwoFloat} (hv2 : x2.Valid) (hw2 : x2.WF) {t T : ℚ}
    (ht : |val x2 - t| ≤ 1 / 2 ^ 103) (ht0 : 0 ≤ t) (htT : t ≤ T) (hT : T ≤ 1) :
    ∀ cs : List TwoFloat, cs ≠ [] → cs.length ≤ 1024 → (∀ c ∈ cs, c.Valid ∧ c.WF) → hBnd T (cs.map val) = true →
      (hornerM x2 cs).Valid ∧ (hornerM x2 cs).WF ∧
      |val (hornerM x2 cs) - pevalQ (cs.map val) t| ≤ ((cs.length - 1 : ℕ) : ℚ) / 2 ^ 99 := by
  intro cs
  induction cs with
  | nil => intro h; exact absurd rfl h
  | cons c cs ih =>
    intro _ hlen hall hok
    cases cs with
    | nil =>
      have hc := hall c (List.mem_cons_self ..)
      refine ⟨hc.1, hc.2, ?_⟩
      simp [hornerM]
    | cons d cs =>
      have hc := hall c (List.mem_cons_self ..)
      have hlen' : (d :: cs).length ≤ 1024 := by simp only [List.length_cons] at hlen ⊢; omega
      have hall' : ∀ c' ∈ d :: cs, c'.Valid ∧ c'.WF := fun c' h' => hall c' (List.mem_cons_of_mem _ h')
      have hok1 : hBnd T (val c :: (d :: cs).map val) = true := hok
      obtain ⟨_, hγ, hok'⟩ := hBnd_bounds ht0 htT hok1
      obtain ⟨hva, hwa, hea⟩ := ih (by simp) hlen' hall' hok'
      have hok2 : hBnd T (val d :: cs.map val) = true := hok'
      obtain ⟨hAu, _, _⟩ := hBnd_bounds ht0 htT hok2
      have hE : (((d :: cs).length - 1 : ℕ) : ℚ) / 2 ^ 99 ≤ 1 / 2 ^ 80 := by
        have h1 : (((d :: cs).length - 1 : ℕ) : ℚ) ≤ 1024 := by
          have : (d :: cs).length - 1 ≤ 1024 := by omega
          exact_mod_cast this
        rw [div_le_div_iff₀ (by positivity) (by positivity)]
        have : (1024 : ℚ) * 2 ^ 80 ≤ 1 * 2 ^ 99 := by norm_num
        nlinarith
      obtain ⟨hvm, hwm, hm5, hstep⟩ := any_mul_step hv2 hw2 ht ht0 (le_trans htT hT) hva hwa hea hE hAu
      obtain ⟨hvs, hws, hes⟩ := add_tt_val hvm hwm hc.1 hc.2 (le_trans hm5 (by norm_num))
        (le_trans hγ (by norm_num))
      refine ⟨hvs, hws, ?_⟩
      have hfin := hstep _ _ hγ hes
      have e1 : pevalQ ((c :: d :: cs).map val) t = val c + t * pevalQ ((d :: cs).map val) t := rfl
      have e2 : ((((c :: d :: cs).length - 1 : ℕ)) : ℚ) / 2 ^ 99
          = (((d :: cs).length - 1 : ℕ) : ℚ) / 2 ^ 99 + 1 / 2 ^ 99 := by
        simp only [List.length_cons, Nat.add_sub_cancel]
        push_cast
        ring
      rw [e1, e2]
      exact hfin

/-- the exact rational value of the kernel -/
def oddPolyQ (q : List ℚ) (r : ℚ) : ℚ := r * (r ^ 2 * pevalQ q (r ^ 2) + 1)

/-- **rounding error of the odd kernel, all ranges**: for `x² ≤ T ≤ 1` and a table with `hBnd T`,
`|val (restrictedM cs x) − x·(1 + x²·P(x²))| ≤ |x|·(len + 2)/2^99 + 2^-949` -/
theorem restrictedM_bound {cs : List TwoFloat} (hne : cs ≠ []) (hlen : cs.length ≤ 1024)
    (hall : ∀ c ∈ cs, c.Valid ∧ c.WF) {T : ℚ} (hT : T ≤ 1) (hok : hBnd T (cs.map val) = true)
    {x : TwoFloat} (hv : x.Valid) (hw : x.WF) (hx : val x ^ 2 ≤ T) :
    (restrictedM cs x).Valid ∧ (restrictedM cs x).WF ∧
    |val (restrictedM cs x) - oddPolyQ (cs.map val) (val x)|
      ≤ |val x| * ((cs.length + 2 : ℕ) : ℚ) / 2 ^ 99 + 1 / 2 ^ 949 := by
  have tnn : 0 ≤ val x ^ 2 := sq_nonneg _
  have ht1 : val x ^ 2 ≤ 1 := le_trans hx hT
  have hx1 : |val x| ≤ 1 := by
    rw [← abs_one (α := ℚ)]
    exact sq_le_sq.1 (by simpa using ht1)
  obtain ⟨hv2, hw2, he2⟩ := mul_any hv hw hv hw (le_trans hx1 (by norm_num)) (le_trans hx1 (by norm_num))
  set x2 := arithmetic.impl_Mul_rTwoFloat_for_rTwoFloat.mul x x with hx2
  set t := val x ^ 2 with htdef
  have ht : |val x2 - t| ≤ 1 / 2 ^ 103 := by
    have e : val x * val x = t := by rw [htdef]; ring
    rw [e, abs_of_nonneg tnn] at he2
    have : 7 / 2 ^ 106 * t ≤ 7 / 2 ^ 106 * 1 := mul_le_mul_of_nonneg_left ht1 (by positivity)
    have : (7 : ℚ) / 2 ^ 106 * 1 + 1 / 2 ^ 950 ≤ 1 / 2 ^ 103 := by norm_num
    linarith
  obtain ⟨hvP, hwP, heP⟩ := hornerM_any hv2 hw2 ht tnn hx hT cs hne hlen hall hok
  obtain ⟨c, cs', rfl⟩ : ∃ c cs', cs = c :: cs' := by
    cases cs with
    | nil => exact absurd rfl hne
    | cons c cs' => exact ⟨c, cs', rfl⟩
  have hok1 : hBnd T (val c :: cs'.map val) = true := hok
  obtain ⟨hAu, _, _⟩ := hBnd_bounds tnn hx hok1
  set q := (c :: cs').map val with hq
  have hAu' : |pevalQ q t| ≤ 1 := hAu
  set Pq := pevalQ q t with hPq
  set P := hornerM x2 (c :: cs') with hP
  have hE : (((c :: cs').length - 1 : ℕ) : ℚ) / 2 ^ 99 ≤ 1 / 2 ^ 80 := by
    have h1 : (((c :: cs').length - 1 : ℕ) : ℚ) ≤ 1024 := by
      have : (c :: cs').length - 1 ≤ 1024 := by omega
      exact_mod_cast this
    rw [div_le_div_iff₀ (by positivity) (by positivity)]
    have : (1024 : ℚ) * 2 ^ 80 ≤ 1 * 2 ^ 99 := by norm_num
    nlinarith
  obtain ⟨hvm, hwm, hm5, hstep⟩ := any_mul_step hv2 hw2 ht tnn ht1 hvP hwP heP hE hAu'
  obtain ⟨hvy, hwy, hey⟩ := addf_step hvm hwm hm5 lit_one_facts.1 lit_one_facts.2.1
    (by rw [fval_one]; norm_num)
  have hY := hstep _ _ (by rw [fval_one]; norm_num) hey
  rw [fval_one] at hY
  set y := arithmetic.impl_Add_rf64_for_rTwoFloat.add (arithmetic.impl_Mul_rTwoFloat_for_rTwoFloat.mul x2 P)
    (f64lit 0x3ff0000000000000) with hy
  have hres : restrictedM (c :: cs') x = arithmetic.impl_Mul_rTwoFloat_for_rTwoFloat.mul x y := rfl
  rw [hres]
  -- |1 + t·Pq| ≤ 2, |y| ≤ 3
  have htP : |t * Pq| ≤ 1 := by
    rw [abs_mul, abs_of_nonneg tnn]
    have := mul_le_mul ht1 hAu' (abs_nonneg _) (by norm_num)
    linarith
  have hYu : |1 + t * Pq| ≤ 2 := by
    have := abs_add_le 1 (t * Pq)
    rw [abs_one] at this
    linarith
  have hyu : |val y| ≤ 3 := by
    have := abs_add_le (val y - (1 + t * Pq)) (1 + t * Pq)
    rw [sub_add_cancel] at this
    have : (1 : ℚ) / 2 ^ 80 + 1 / 2 ^ 99 ≤ 1 := by norm_num
    linarith
  obtain ⟨hvr, hwr, her⟩ := mul_any hv hw hvy hwy (le_trans hx1 (by norm_num)) (le_trans hyu (by norm_num))
  refine ⟨hvr, hwr, ?_⟩
  have e : oddPolyQ q (val x) = val x * (1 + t * Pq) := by unfold oddPolyQ; rw [hPq, htdef]; ring
  rw [e]
  have e2 : val (arithmetic.impl_Mul_rTwoFloat_for_rTwoFloat.mul x y) - val x * (1 + t * Pq)
      = (val (arithmetic.impl_Mul_rTwoFloat_for_rTwoFloat.mul x y) - val x * val y)
        + val x * (val y - (1 + t * Pq)) := by ring
  rw [e2]
  refine le_trans (abs_add_le _ _) ?_
  rw [abs_mul (val x) (val y)] at her
  rw [abs_mul]
  have hxpos : 0 ≤ |val x| := abs_nonneg _
  have h1 : 7 / 2 ^ 106 * (|val x| * |val y|) ≤ |val x| * (21 / 2 ^ 106) := by
    have : |val x| * |val y| ≤ |val x| * 3 := mul_le_mul_of_nonneg_left hyu hxpos
    nlinarith
  have hlen' : (((c :: cs').length - 1 : ℕ) : ℚ) + 1 = ((c :: cs').length : ℚ) := by
    simp only [List.length_cons, Nat.add_sub_cancel]; push_cast; ring
  have h2 : |val x| * |val y - (1 + t * Pq)|
      ≤ |val x| * ((((c :: cs').length - 1 : ℕ) : ℚ) / 2 ^ 99 + 1 / 2 ^ 99) :=
    mul_le_mul_of_nonneg_left hY hxpos
  have h3 : |val x| * (21 / 2 ^ 106) + |val x| * ((((c :: cs').length - 1 : ℕ) : ℚ) / 2 ^ 99 + 1 / 2 ^ 99)
      ≤ |val x| * (((c :: cs').length + 2 : ℕ) : ℚ) / 2 ^ 99 := by
    have e3 : ((((c :: cs').length + 2 : ℕ) : ℚ)) = ((c :: cs').length : ℚ) + 2 := by push_cast; ring
    rw [e3, ← hlen', mul_div_assoc, ← mul_add]
    refine mul_le_mul_of_nonneg_left ?_ hxpos
    have : (21 : ℚ) / 2 ^ 106 ≤ 2 / 2 ^ 99 := by norm_num
    have e4 : ((((c :: cs').length - 1 : ℕ) : ℚ) + 1 + 2) / 2 ^ 99
        = (((c :: cs').length - 1 : ℕ) : ℚ) / 2 ^ 99 + 1 / 2 ^ 99 + 2 / 2 ^ 99 := by ring
    rw [e4]
    linarith
  have : (1 : ℚ) / 2 ^ 950 ≤ 1 / 2 ^ 949 := by norm_num
  linarith

/-- kernel-checkable fact about a table: `z·P(z) + 1.0` for a zero `z` (any signs of the zero words) is `(1.0, 0)` -/
def InnerZero (cs : List TwoFloat) : Prop :=
  ∀ s u : Bool,
    (arithmetic.impl_Add_rf64_for_rTwoFloat.add
      (arithmetic.impl_Mul_rTwoFloat_for_rTwoFloat.mul ⟨F64.fin s 0, F64.fin u 0⟩
        (hornerM ⟨F64.fin s 0, F64.fin u 0⟩ cs)) (f64lit 0x3ff0000000000000)).hi.is_finite = true ∧
    (arithmetic.impl_Add_rf64_for_rTwoFloat.add
      (arithmetic.impl_Mul_rTwoFloat_for_rTwoFloat.mul ⟨F64.fin s 0, F64.fin u 0⟩
        (hornerM ⟨F64.fin s 0, F64.fin u 0⟩ cs)) (f64lit 0x3ff0000000000000)).lo.is_finite = true ∧
    (arithmetic.impl_Add_rf64_for_rTwoFloat.add
      (arithmetic.impl_Mul_rTwoFloat_for_rTwoFloat.mul ⟨F64.fin s 0, F64.fin u 0⟩
        (hornerM ⟨F64.fin s 0, F64.fin u 0⟩ cs)) (f64lit 0x3ff0000000000000)).hi.toInt = (unit : Int) ∧
    (arithmetic.impl_Add_rf64_for_rTwoFloat.add
      (arithmetic.impl_Mul_rTwoFloat_for_rTwoFloat.mul ⟨F64.fin s 0, F64.fin u 0⟩
        (hornerM ⟨F64.fin s 0, F64.fin u 0⟩ cs)) (f64lit 0x3ff0000000000000)).lo.toInt = 0

/-- **`restrictedM cs x = x` exactly for `|x| ≤ 2^-540`** (`x * x` underflows to a zero) -/
theorem restrictedM_deep {cs : List TwoFloat} (hz : InnerZero cs) {x : TwoFloat} (hv : x.Valid) (hw : x.WF)
    (hs : |val x| ≤ 1 / 2 ^ 540) :
    (restrictedM cs x).Valid ∧ val (restrictedM cs x) = val x := by
  have hV := V_le_of_val hs
  obtain ⟨b1, _⟩ := hi_bounds hv
  have hh : |x.hi.toInt| ≤ 2 ^ 535 := by
    have e : (2 : Int) ^ 535 = 2 * 2 ^ 534 := by norm_num
    rw [e]
    have p : (0 : Int) < 2 ^ 534 := by positivity
    generalize (2 : Int) ^ 534 = W at *
    nlinarith [abs_nonneg x.hi.toInt]
  have hP : |x.hi.toInt * x.hi.toInt| ≤ 2 ^ 1070 := by
    rw [abs_mul]
    have := mul_le_mul hh hh (abs_nonneg _) (by positivity)
    refine le_trans this ?_
    rw [← pow_add]
  obtain ⟨hv2, _, hzr⟩ := tiny_mul hv hv (lt_of_le_of_lt hP (pow_lt_pow_right₀ (by norm_num) (by norm_num)))
  have h0 : (arithmetic.impl_Mul_rTwoFloat_for_rTwoFloat.mul x x).V = 0 := by
    apply hzr
    rw [unit_cast_eq]
    have : (2 : Int) * 2 ^ 1070 < 2 ^ 1074 := by norm_num
    linarith
  obtain ⟨s, u, hx2⟩ := zero_words hv2 h0
  have hres : restrictedM cs x
      = arithmetic.impl_Mul_TwoFloat_for_TwoFloat.mul x (arithmetic.impl_Add_rf64_for_rTwoFloat.add
          (arithmetic.impl_Mul_rTwoFloat_for_rTwoFloat.mul (arithmetic.impl_Mul_rTwoFloat_for_rTwoFloat.mul x x)
            (hornerM (arithmetic.impl_Mul_rTwoFloat_for_rTwoFloat.mul x x) cs))
          (f64lit 0x3ff0000000000000)) := rfl
  rw [hres, hx2]
  obtain ⟨f1, f2, f3, f4⟩ := hz s u
  obtain ⟨_, _, h3, h4, _⟩ := C04x.mul_tt_one_right x _ hv hw f1 f2 f3 f4
  refine ⟨h4, ?_⟩
  unfold val
  rw [show (arithmetic.impl_Mul_TwoFloat_for_TwoFloat.mul x _).V = x.V from h3]

/-! ## 1. `restricted_tan` -/

theorem TAN_COEFFS_val : trigonometry.TAN_COEFFS.map val = tanCoeffs := by decide +kernel

theorem TAN_COEFFS_ok : ∀ c ∈ trigonometry.TAN_COEFFS, c.Valid ∧ c.WF := by decide +kernel

theorem tan_hBnd : hBnd TT tanCoeffs = true := by decide +kernel

/-- rounding error of `restricted_tan` against the exact rational polynomial, all valid `|x| ≤ 0.786` -/
theorem restricted_tan_bound {x : TwoFloat} (hv : x.Valid) (hw : x.WF) (hhi : |val x| ≤ 393 / 500) :
    (trigonometry.restricted_tan x).Valid ∧ (trigonometry.restricted_tan x).WF ∧
    |val (trigonometry.restricted_tan x) - tanPolyQ (val x)| ≤ |val x| * 16 / 2 ^ 99 + 1 / 2 ^ 949 := by
  have h := restrictedM_bound (cs := trigonometry.TAN_COEFFS) (by decide) (by decide) TAN_COEFFS_ok
    (T := TT) TT_le_one (by rw [TAN_COEFFS_val]; exact tan_hBnd) hv hw (sq_le_TT hhi)
  rw [TAN_COEFFS_val] at h
  rw [restricted_tan_eq]
  have e : ((trigonometry.TAN_COEFFS.length + 2 : ℕ) : ℚ) = 16 := by
    have : trigonometry.TAN_COEFFS.length = 14 := by decide
    rw [this]; norm_num
  rw [e] at h
  exact h

theorem abs_le_abs_tan {r : ℝ} (hr : |r| ≤ 4 / 5) : |r| ≤ |Real.tan r| := by
  have hpi := Real.one_le_pi_div_two
  rcases le_total 0 r with h0 | h0
  · rw [abs_of_nonneg h0] at hr ⊢
    exact le_trans (Real.le_tan h0 (by linarith)) (le_abs_self _)
  · rw [abs_of_nonpos h0] at hr ⊢
    have := Real.le_tan (x := -r) (by linarith) (by linarith)
    rw [Real.tan_neg] at this
    exact le_trans this (neg_le_abs _)

/-- **`restricted_tan` against `Real.tan`**, all valid `|r| ≤ 0.786`: relative `5·2^-53` plus absolute `2^-949` -/
theorem restricted_tan_real {x : TwoFloat} (hv : x.Valid) (hw : x.WF) (hhi : |val x| ≤ 393 / 500) :
    (trigonometry.restricted_tan x).Valid ∧ (trigonometry.restricted_tan x).WF ∧
    |rval (trigonometry.restricted_tan x) - Real.tan (rval x)|
      ≤ 5 / 2 ^ 53 * |Real.tan (rval x)| + 1 / 2 ^ 949 := by
  obtain ⟨hV, hW, hb⟩ := restricted_tan_bound hv hw hhi
  have hr : |rval x| ≤ 393 / 500 := by have := rval_le hhi; push_cast at this; exact this
  have hb' : |rval (trigonometry.restricted_tan x) - TanPoly (rval x)| ≤ |rval x| * 16 / 2 ^ 99 + 1 / 2 ^ 949 := by
    have := (Rat.cast_le (K := ℝ)).2 hb
    rw [Rat.cast_abs, Rat.cast_sub, tanPolyQ_cast] at this
    rw [abs_rval]
    push_cast at this ⊢
    exact this
  refine ⟨hV, hW, ?_⟩
  have e : rval (trigonometry.restricted_tan x) - Real.tan (rval x)
      = (rval (trigonometry.restricted_tan x) - TanPoly (rval x)) - (Real.tan (rval x) - TanPoly (rval x)) := by
    ring
  rw [e]
  refine le_trans (abs_sub _ _) ?_
  have h1 := tan_poly_rel hr
  have h2 := abs_le_abs_tan (le_trans hr (by norm_num))
  have h3 : |rval x| * 16 / 2 ^ 99 ≤ 1 / 2 ^ 54 * |Real.tan (rval x)| := by
    have : |rval x| * 16 / 2 ^ 99 = 1 / 2 ^ 95 * |rval x| := by ring
    rw [this]
    have h4 : (1 : ℝ) / 2 ^ 95 * |rval x| ≤ 1 / 2 ^ 54 * |rval x| :=
      mul_le_mul_of_nonneg_right (by norm_num) (abs_nonneg _)
    have h5 := mul_le_mul_of_nonneg_left h2 (by positivity : (0 : ℝ) ≤ 1 / 2 ^ 54)
    linarith
  have e2 : (5 : ℝ) / 2 ^ 53 * |Real.tan (rval x)| = 9 / 2 ^ 54 * |Real.tan (rval x)| + 1 / 2 ^ 54 * |Real.tan (rval x)| := by
    ring
  rw [e2]; linarith

/-! ## 2. the two kinds of result -/

/-- even quadrants: `restricted_tan r` against `tan ρ` for the exactly reduced argument `ρ` -/
theorem via_tan {r : TwoFloat} (hv : r.Valid) (hw : r.WF) (hhi : |val r| ≤ 393 / 500) {ρ : ℝ}
    (hρ : |rval r - ρ| ≤ 1 / 2 ^ 81) :
    |rval (trigonometry.restricted_tan r) - Real.tan ρ|
      ≤ 5 / 2 ^ 53 * |Real.tan ρ| + 1 / 2 ^ 81 * (1 + 1 / 2 ^ 40) * (1 + Real.tan ρ ^ 2) := by
  obtain ⟨_, _, h⟩ := restricted_tan_real hv hw hhi
  have hr : |rval r| ≤ 393 / 500 := by have := rval_le hhi; push_cast at this; exact this
  have hρ' : |ρ| ≤ 787 / 1000 := by
    have := abs_add_le (ρ - rval r) (rval r)
    rw [sub_add_cancel, abs_sub_comm] at this
    have : (1 : ℝ) / 2 ^ 81 ≤ 1 / 1000 := by norm_num
    linarith
  have hp := tan_perturb (le_trans hr (by norm_num)) hρ' hρ (by norm_num)
  have hsq : (0 : ℝ) ≤ 1 + Real.tan ρ ^ 2 := by positivity
  have hsq1 : (1 : ℝ) ≤ 1 + Real.tan ρ ^ 2 := by nlinarith [sq_nonneg (Real.tan ρ)]
  -- |tan rr| ≤ |tan ρ| + hp
  have h2 : |Real.tan (rval r)| ≤ |Real.tan ρ| + 1 / 2 ^ 81 * (1 + 1 / 2 ^ 50) * (1 + Real.tan ρ ^ 2) := by
    have := abs_add_le (Real.tan (rval r) - Real.tan ρ) (Real.tan ρ)
    rw [sub_add_cancel] at this
    linarith
  have e : rval (trigonometry.restricted_tan r) - Real.tan ρ
      = (rval (trigonometry.restricted_tan r) - Real.tan (rval r)) + (Real.tan (rval r) - Real.tan ρ) := by ring
  rw [e]
  refine le_trans (abs_add_le _ _) ?_
  have h3 := mul_le_mul_of_nonneg_left h2 (by positivity : (0 : ℝ) ≤ 5 / 2 ^ 53)
  have h4 : (1 : ℝ) / 2 ^ 949 ≤ 1 / 2 ^ 949 * (1 + Real.tan ρ ^ 2) := by
    have := mul_le_mul_of_nonneg_left hsq1 (by positivity : (0 : ℝ) ≤ 1 / 2 ^ 949)
    linarith
  have h5 : 5 / 2 ^ 53 * (1 / 2 ^ 81 * (1 + 1 / 2 ^ 50) * (1 + Real.tan ρ ^ 2))
      + 1 / 2 ^ 949 * (1 + Real.tan ρ ^ 2) + 1 / 2 ^ 81 * (1 + 1 / 2 ^ 50) * (1 + Real.tan ρ ^ 2)
      ≤ 1 / 2 ^ 81 * (1 + 1 / 2 ^ 40) * (1 + Real.tan ρ ^ 2) := by
    have : (5 : ℝ) / 2 ^ 53 * (1 / 2 ^ 81 * (1 + 1 / 2 ^ 50)) + 1 / 2 ^ 949 + 1 / 2 ^ 81 * (1 + 1 / 2 ^ 50)
        ≤ 1 / 2 ^ 81 * (1 + 1 / 2 ^ 40) := by norm_num
    have := mul_le_mul_of_nonneg_right this hsq
    linarith
  linarith

/-- pure arithmetic of the reciprocal branch -/
theorem odd_arith {T q t : ℝ} (ht1 : 1 / 2 ^ 69 ≤ |t|) (ht2 : |t| ≤ 6 / 5)
    (hT : |T - t| ≤ 5 / 2 ^ 53 * |t| + 1 / 2 ^ 81 * (1 + 1 / 2 ^ 40) * (1 + t ^ 2))
    (hq : |-1 - q * T| ≤ 1 / 2 ^ 102) :
    |q - -(1 / t)| ≤ 1 / 2 ^ 50 * |1 / t| + 1 / 2 ^ 80 * (1 + (1 / t) ^ 2) := by
  set τ := |t| with hτ
  have hτ0 : 0 < τ := lt_of_lt_of_le (by positivity) ht1
  have ht0 : t ≠ 0 := abs_pos.1 hτ0
  have hsq : t ^ 2 = τ ^ 2 := by rw [hτ, sq_abs]
  have hδ : 1 / 2 ^ 81 * (1 + 1 / 2 ^ 40) * (1 + t ^ 2) ≤ τ * (1 / 2 ^ 10) := by
    have h1 : 1 + t ^ 2 ≤ 3 := by rw [hsq]; nlinarith
    have h2 : (1 : ℝ) / 2 ^ 81 * (1 + 1 / 2 ^ 40) * 3 ≤ 1 / 2 ^ 69 * (1 / 2 ^ 10) := by norm_num
    have h3 : (1 : ℝ) / 2 ^ 81 * (1 + 1 / 2 ^ 40) * (1 + t ^ 2) ≤ 1 / 2 ^ 81 * (1 + 1 / 2 ^ 40) * 3 :=
      mul_le_mul_of_nonneg_left h1 (by positivity)
    have h4 : (1 : ℝ) / 2 ^ 69 * (1 / 2 ^ 10) ≤ τ * (1 / 2 ^ 10) := mul_le_mul_of_nonneg_right ht1 (by positivity)
    linarith
  have hTt : |T - t| ≤ τ * (1 / 2 ^ 9) := by
    have : 5 / 2 ^ 53 * τ ≤ τ * (1 / 2 ^ 10) := by nlinarith
    have e : τ * (1 / 2 ^ 9) = τ * (1 / 2 ^ 10) + τ * (1 / 2 ^ 10) := by ring
    rw [e]; linarith
  have hTlo : τ * (1 - 1 / 2 ^ 9) ≤ |T| := by
    have := abs_add_le (t - T) T
    rw [sub_add_cancel, abs_sub_comm] at this
    have e : τ * (1 - 1 / 2 ^ 9) = τ - τ * (1 / 2 ^ 9) := by ring
    rw [e]; linarith
  have hT0 : 0 < |T| := lt_of_lt_of_le (by positivity) hTlo
  have hTne : T ≠ 0 := abs_pos.1 hT0
  -- 1/|T| ≤ (1 + 2^-9)/τ
  have hinv : 1 / |T| ≤ (1 + 1 / 2 ^ 8) / τ := by
    rw [div_le_div_iff₀ hT0 hτ0]
    have : τ * 1 ≤ τ * ((1 - 1 / 2 ^ 9) * (1 + 1 / 2 ^ 8)) := mul_le_mul_of_nonneg_left (by norm_num) hτ0.le
    nlinarith
  have e : q - -(1 / t) = (q * T + 1) / T + (T - t) / (T * t) := by field_simp; ring
  rw [e]
  refine le_trans (abs_add_le _ _) ?_
  rw [abs_div, abs_div, abs_mul]
  have hq' : |q * T + 1| ≤ 1 / 2 ^ 102 := by
    rw [← abs_neg]; refine le_trans (le_of_eq ?_) hq; congr 1; ring
  have p1 : |q * T + 1| / |T| ≤ 1 / 2 ^ 102 * ((1 + 1 / 2 ^ 8) / τ) := by
    rw [div_eq_mul_one_div]
    exact mul_le_mul hq' hinv (by positivity) (by positivity)
  have p2 : |T - t| / (|T| * τ)
      ≤ (5 / 2 ^ 53 * τ + 1 / 2 ^ 81 * (1 + 1 / 2 ^ 40) * (1 + t ^ 2)) * ((1 + 1 / 2 ^ 8) / τ) / τ := by
    rw [← div_div, div_le_div_iff_of_pos_right hτ0, div_eq_mul_one_div]
    exact mul_le_mul hT hinv (by positivity) (by positivity)
  have e1 : |1 / t| = 1 / τ := by rw [abs_div, abs_one]
  have e2 : (1 / t) ^ 2 = 1 / τ ^ 2 := by rw [div_pow, one_pow, hsq]
  rw [e1, e2]
  have e3 : (5 / 2 ^ 53 * τ + 1 / 2 ^ 81 * (1 + 1 / 2 ^ 40) * (1 + t ^ 2)) * ((1 + 1 / 2 ^ 8) / τ) / τ
      = 5 / 2 ^ 53 * (1 + 1 / 2 ^ 8) * (1 / τ)
        + 1 / 2 ^ 81 * (1 + 1 / 2 ^ 40) * (1 + 1 / 2 ^ 8) * (1 + 1 / τ ^ 2) := by
    rw [hsq]; field_simp; ring
  rw [e3] at p2
  have e4 : 1 / 2 ^ 102 * ((1 + 1 / 2 ^ 8) / τ) = 1 / 2 ^ 102 * (1 + 1 / 2 ^ 8) * (1 / τ) := by ring
  rw [e4] at p1
  have hi0 : 0 ≤ 1 / τ := by positivity
  have hi1 : (0 : ℝ) ≤ 1 + 1 / τ ^ 2 := by positivity
  have n1 : (1 : ℝ) / 2 ^ 102 * (1 + 1 / 2 ^ 8) + 5 / 2 ^ 53 * (1 + 1 / 2 ^ 8) ≤ 1 / 2 ^ 50 := by norm_num
  have n2 : (1 : ℝ) / 2 ^ 81 * (1 + 1 / 2 ^ 40) * (1 + 1 / 2 ^ 8) ≤ 1 / 2 ^ 80 := by norm_num
  have m1 := mul_le_mul_of_nonneg_right n1 hi0
  have m2 := mul_le_mul_of_nonneg_right n2 hi1
  linarith

/-- the high word of a valid pair from bounds on its value -/
theorem hi_range_gen {t : TwoFloat} (hv : t.Valid) {k j : ℕ} (hk : k ≤ 1073)
    (h1 : 1 / 2 ^ k ≤ |val t|) (h2 : |val t| ≤ 2 ^ j) :
    2 ^ (1073 - k) ≤ t.hi.toInt.natAbs ∧ t.hi.toInt.natAbs ≤ 2 ^ (1075 + j) := by
  have a1 : (2 : Int) ^ (1074 - k) ≤ |t.V| := int_lower (by omega) h1
  have a2 : |t.V| ≤ (2 : Int) ^ (1074 + j) := int_upper h2
  obtain ⟨b1, b2⟩ := hi_bounds hv
  have c1 : (2 : Int) ^ (1073 - k) ≤ |t.hi.toInt| := by
    have e : (2 : Int) ^ (1074 - k) = 2 * 2 ^ (1073 - k) := by
      rw [← pow_succ']; congr 1; omega
    rw [e] at a1
    have p : (0 : Int) < 2 ^ (1073 - k) := by positivity
    generalize (2 : Int) ^ (1073 - k) = W at *
    nlinarith [abs_nonneg t.hi.toInt]
  have c2 : |t.hi.toInt| ≤ (2 : Int) ^ (1075 + j) := by
    have e : (2 : Int) ^ (1075 + j) = 2 * 2 ^ (1074 + j) := by
      rw [← pow_succ']; congr 1; omega
    rw [e]
    have p : (0 : Int) < 2 ^ (1074 + j) := by positivity
    generalize (2 : Int) ^ (1074 + j) = W at *
    nlinarith [abs_nonneg t.hi.toInt]
  rw [Int.abs_eq_natAbs] at c1 c2
  exact ⟨by exact_mod_cast c1, by exact_mod_cast c2⟩

theorem neg_one_facts : (F64.neg (f64lit 0x3ff0000000000000)).is_finite = true ∧
    (F64.neg (f64lit 0x3ff0000000000000)).WF ∧ (F64.neg (f64lit 0x3ff0000000000000)).toInt = -2 ^ 1074 ∧
    2 ^ 624 ≤ (F64.neg (f64lit 0x3ff0000000000000)).toInt.natAbs ∧
    (F64.neg (f64lit 0x3ff0000000000000)).toInt.natAbs ≤ 2 ^ 1524 := by decide +kernel

/-- `-1.0 / T` (f64 / TwoFloat), `T.hi` of magnitude in `[2^-450, 2^450]`: `|−1 − q·T| ≤ 2^-102` -/
theorem neg_one_div_val {T : TwoFloat} (hv : T.Valid) (hw : T.WF)
    (hB : 2 ^ 624 ≤ T.hi.toInt.natAbs ∧ T.hi.toInt.natAbs ≤ 2 ^ 1524) :
    (arithmetic.impl_Div_rTwoFloat_for_rf64.div (F64.neg (f64lit 0x3ff0000000000000)) T).Valid ∧
    (arithmetic.impl_Div_rTwoFloat_for_rf64.div (F64.neg (f64lit 0x3ff0000000000000)) T).WF ∧
    |-1 - val (arithmetic.impl_Div_rTwoFloat_for_rf64.div (F64.neg (f64lit 0x3ff0000000000000)) T) * val T|
      ≤ 1 / 2 ^ 102 := by
  obtain ⟨f1, f2, f3, f4, f5⟩ := neg_one_facts
  obtain ⟨hV, hW⟩ := C01d.div_ft_valid _ T f1 f2 hv hw f4 f5 hB.1 hB.2
  have hb := C01d.div_ft_bound _ T f1 f2 hv hw f4 f5 hB.1 hB.2
  refine ⟨hV, hW, ?_⟩
  have hb' : 2 ^ 102 * |(F64.neg (f64lit 0x3ff0000000000000)).toInt * (unit : Int)
      - (arithmetic.impl_Div_rTwoFloat_for_rf64.div (F64.neg (f64lit 0x3ff0000000000000)) T).V * T.V|
      ≤ |(F64.neg (f64lit 0x3ff0000000000000)).toInt * (unit : Int)| := hb
  generalize arithmetic.impl_Div_rTwoFloat_for_rf64.div (F64.neg (f64lit 0x3ff0000000000000)) T = q at *
  rw [f3, unit_cast_eq] at hb'
  have hq : (2 : ℚ) ^ 102 * |-(2 : ℚ) ^ 1074 * 2 ^ 1074 - q.V * T.V| ≤ |-(2 : ℚ) ^ 1074 * 2 ^ 1074| := by
    exact_mod_cast hb'
  unfold val
  have hW0 : (0 : ℚ) < 2 ^ 1074 := by positivity
  generalize (2 : ℚ) ^ 1074 = W at *
  have e1 : (-1 : ℚ) - q.V / W * (T.V / W) = (-W * W - q.V * T.V) / (W * W) := by field_simp
  have e2 : |-W * W| = W * W := by rw [neg_mul, abs_neg]; exact abs_of_pos (mul_pos hW0 hW0)
  rw [e2] at hq
  rw [e1, abs_div, abs_of_pos (mul_pos hW0 hW0), div_le_iff₀ (mul_pos hW0 hW0)]
  have p : (0 : ℚ) < 2 ^ 102 := by positivity
  have : (2 : ℚ) ^ 102 * (1 / 2 ^ 102 * (W * W)) = W * W := by field_simp
  nlinarith

theorem tan_add_quarter (ρ : ℝ) (k : ℤ) :
    Real.tan (ρ + (k : ℝ) * (Real.pi / 2)) =
      if k % 4 = 0 ∨ k % 4 = 2 then Real.tan ρ else -(1 / Real.tan ρ) := by
  rw [Real.tan_eq_sin_div_cos, sin_add_quarter, cos_add_quarter, Real.tan_eq_sin_div_cos]
  have h0 := Int.emod_nonneg k (by norm_num : (4 : ℤ) ≠ 0)
  have h4 := Int.emod_lt_of_pos k (by norm_num : (0 : ℤ) < 4)
  generalize k % 4 = i at *
  interval_cases i
  · simp
  · simp [div_neg]
  · simp [neg_div_neg_eq]
  · simp [neg_div]

theorem abs_cos_add_quarter_odd (ρ : ℝ) (k : ℤ) (h : ¬ (k % 4 = 0 ∨ k % 4 = 2)) :
    |Real.cos (ρ + (k : ℝ) * (Real.pi / 2))| = |Real.sin ρ| := by
  rw [cos_add_quarter]
  have h0 := Int.emod_nonneg k (by norm_num : (4 : ℤ) ≠ 0)
  have h4 := Int.emod_lt_of_pos k (by norm_num : (0 : ℤ) < 4)
  generalize k % 4 = i at *
  interval_cases i
  · exact absurd (Or.inl rfl) h
  · simp
  · exact absurd (Or.inr rfl) h
  · simp

/-! ## 3. the statement of property C16 for `tan` -/

/-- **C16 (tan)**: for valid well-formed `x`, `|x| ≤ 2^20`, away from the poles (`|cos x| ≥ 2^-69`; automatic in the
even quadrants): the result is a valid pair and
`|tan(x) − tan x| ≤ 2^-50·|tan x| + 2^-80·(1 + tan² x)`
(the property has `max(|tan x|, 2^-30)` in the first term, which is weaker).
The pole hypothesis cannot be dropped: see `tan_pole_counterexample`. -/
theorem tan_bound {x : TwoFloat} (hv : x.Valid) (hw : x.WF) (hhi : |val x| ≤ 2 ^ 20)
    (hpole : 1 / 2 ^ 69 ≤ |Real.cos (rval x)|) :
    (TwoFloat.tan x).Valid ∧
    |rval (TwoFloat.tan x) - Real.tan (rval x)|
      ≤ 1 / 2 ^ 50 * |Real.tan (rval x)| + 1 / 2 ^ 80 * (1 + Real.tan (rval x) ^ 2) := by
  have hiv : TwoFloat.is_valid x = true := (C07.is_valid_iff x hw).2 hv
  obtain ⟨k, hq, hvr, hwr, hr, hρ⟩ := quadrant_spec hv hw hhi
  rw [C16.tan_valid x hiv]
  simp only [hq, i8_eq]
  have e0 : ((0 : I8)).v = 0 := rfl
  have e2 : ((2 : I8)).v = 2 := rfl
  simp only [e0, e2, Bool.or_eq_true, decide_eq_true_eq]
  have ex : rval x = (rval x - (k : ℝ) * (Real.pi / 2)) + (k : ℝ) * (Real.pi / 2) := by ring
  rw [ex] at hpole ⊢
  set ρ := rval x - (k : ℝ) * (Real.pi / 2) with hρdef
  rw [tan_add_quarter]
  obtain ⟨hvT, hwT, _⟩ := restricted_tan_real hvr hwr hr
  have hT := via_tan hvr hwr hr hρ
  set r := (trigonometry.quadrant x).1 with hrdef
  have hsq : (0 : ℝ) ≤ 1 + Real.tan ρ ^ 2 := by positivity
  by_cases hev : k % 4 = 0 ∨ k % 4 = 2
  · simp only [hev, if_true]
    refine ⟨hvT, le_trans hT ?_⟩
    have h1 : 5 / 2 ^ 53 * |Real.tan ρ| ≤ 1 / 2 ^ 50 * |Real.tan ρ| :=
      mul_le_mul_of_nonneg_right (by norm_num) (abs_nonneg _)
    have h2 : 1 / 2 ^ 81 * (1 + 1 / 2 ^ 40) * (1 + Real.tan ρ ^ 2) ≤ 1 / 2 ^ 80 * (1 + Real.tan ρ ^ 2) :=
      mul_le_mul_of_nonneg_right (by norm_num) hsq
    linarith
  · simp only [hev, if_false]
    rw [abs_cos_add_quarter_odd ρ k hev] at hpole
    have hr' : |rval r| ≤ 393 / 500 := by have := rval_le hr; push_cast at this; exact this
    have hρ' : |ρ| ≤ 787 / 1000 := by
      have := abs_add_le (ρ - rval r) (rval r)
      rw [sub_add_cancel, abs_sub_comm ρ (rval r)] at this
      have : (1 : ℝ) / 2 ^ 81 ≤ 1 / 1000 := by norm_num
      linarith
    have hc := cos_ge_small hρ'
    have hcpos : 0 < Real.cos ρ := by linarith
    have hc1 : Real.cos ρ ≤ 1 := Real.cos_le_one ρ
    -- 2^-69 ≤ |tan ρ| ≤ 6/5
    have htan : |Real.tan ρ| = |Real.sin ρ| / Real.cos ρ := by
      rw [Real.tan_eq_sin_div_cos, abs_div, abs_of_pos hcpos]
    have ht1 : 1 / 2 ^ 69 ≤ |Real.tan ρ| := by
      rw [htan, le_div_iff₀ hcpos]
      have : 1 / 2 ^ 69 * Real.cos ρ ≤ 1 / 2 ^ 69 * 1 := mul_le_mul_of_nonneg_left hc1 (by positivity)
      linarith
    have ht2 : |Real.tan ρ| ≤ 6 / 5 := by
      rw [htan, div_le_iff₀ hcpos]
      have h1 : |Real.sin ρ| ≤ |ρ| := Real.abs_sin_le_abs
      have : (787 : ℝ) / 1000 ≤ 6 / 5 * (69 / 100) := by norm_num
      have : 6 / 5 * (69 / 100) ≤ 6 / 5 * Real.cos ρ := mul_le_mul_of_nonneg_left hc (by norm_num)
      linarith
    -- the size of T
    set Tt := trigonometry.restricted_tan r with hTt
    have hTsz : 1 / 2 ^ 70 ≤ |rval Tt| ∧ |rval Tt| ≤ 2 := by
      have h1 : 1 + Real.tan ρ ^ 2 ≤ 3 := by
        have : Real.tan ρ ^ 2 ≤ (6 / 5) ^ 2 := by
          rw [← sq_abs]; exact pow_le_pow_left₀ (abs_nonneg _) ht2 2
        norm_num at this; linarith
      have h2 : 1 / 2 ^ 81 * (1 + 1 / 2 ^ 40) * (1 + Real.tan ρ ^ 2) ≤ 1 / 2 ^ 81 * (1 + 1 / 2 ^ 40) * 3 :=
        mul_le_mul_of_nonneg_left h1 (by positivity)
      have h3 : (1 : ℝ) / 2 ^ 81 * (1 + 1 / 2 ^ 40) * 3 ≤ 1 / 4 * (1 / 2 ^ 69) := by norm_num
      have h4 : 5 / 2 ^ 53 * |Real.tan ρ| ≤ 1 / 4 * |Real.tan ρ| :=
        mul_le_mul_of_nonneg_right (by norm_num) (abs_nonneg _)
      have h5 : |rval Tt - Real.tan ρ| ≤ 1 / 2 * |Real.tan ρ| := by linarith
      constructor
      · have := abs_add_le (Real.tan ρ - rval Tt) (rval Tt)
        rw [sub_add_cancel, abs_sub_comm] at this
        have e : (1 : ℝ) / 2 ^ 70 = 1 / 2 * (1 / 2 ^ 69) := by norm_num
        rw [e]; linarith
      · have := abs_add_le (rval Tt - Real.tan ρ) (Real.tan ρ)
        rw [sub_add_cancel] at this
        linarith
    have hTq1 : (1 : ℚ) / 2 ^ 70 ≤ |val Tt| := by
      rw [← Rat.cast_le (K := ℝ), Rat.cast_abs]
      push_cast
      exact hTsz.1
    have hTq2 : |val Tt| ≤ 2 ^ 1 := by
      rw [← Rat.cast_le (K := ℝ), Rat.cast_abs]
      push_cast
      rw [pow_one]; exact hTsz.2
    have hrng := hi_range_gen hvT (k := 70) (j := 1) (by norm_num) hTq1 hTq2
    obtain ⟨hvq, _, heq⟩ := neg_one_div_val hvT hwT
      ⟨le_trans (Nat.pow_le_pow_right (by norm_num) (by norm_num)) hrng.1,
       le_trans hrng.2 (Nat.pow_le_pow_right (by norm_num) (by norm_num))⟩
    show (arithmetic.impl_Div_rTwoFloat_for_rf64.div (F64.neg (f64lit 0x3ff0000000000000)) Tt).Valid ∧
      |rval (arithmetic.impl_Div_rTwoFloat_for_rf64.div (F64.neg (f64lit 0x3ff0000000000000)) Tt)
        - -(1 / Real.tan ρ)|
        ≤ 1 / 2 ^ 50 * |-(1 / Real.tan ρ)| + 1 / 2 ^ 80 * (1 + (-(1 / Real.tan ρ)) ^ 2)
    refine ⟨hvq, ?_⟩
    have heqR : |-1 - rval (arithmetic.impl_Div_rTwoFloat_for_rf64.div (F64.neg (f64lit 0x3ff0000000000000)) Tt)
        * rval Tt| ≤ 1 / 2 ^ 102 := by
      have := (Rat.cast_le (K := ℝ)).2 heq
      unfold rval
      push_cast at this ⊢
      exact this
    have := odd_arith ht1 ht2 hT heqR
    rw [abs_neg, neg_sq]
    exact this

/-- **C16 (tan) in the property's form** -/
theorem C16_tan {x : TwoFloat} (hv : x.Valid) (hw : x.WF) (hhi : |val x| ≤ 2 ^ 20)
    (hpole : 1 / 2 ^ 69 ≤ |Real.cos (rval x)|) :
    |rval (TwoFloat.tan x) - Real.tan (rval x)|
      ≤ 1 / 2 ^ 50 * Max.max |Real.tan (rval x)| (1 / 2 ^ 30) + 1 / 2 ^ 80 * (1 + Real.tan (rval x) ^ 2) := by
  refine le_trans (tan_bound hv hw hhi hpole).2 ?_
  have := mul_le_mul_of_nonneg_left (le_max_left |Real.tan (rval x)| (1 / 2 ^ 30))
    (by positivity : (0 : ℝ) ≤ 1 / 2 ^ 50)
  linarith

/-- the pole hypothesis in checkable form: the MODEL's cosine of `x` is at least `2^-60` in magnitude -/
theorem tan_bound_of_model_cos {x : TwoFloat} (hv : x.Valid) (hw : x.WF) (hhi : |val x| ≤ 2 ^ 20)
    (hc : 1 / 2 ^ 60 ≤ |val (TwoFloat.cos x)|) :
    (TwoFloat.tan x).Valid ∧
    |rval (TwoFloat.tan x) - Real.tan (rval x)|
      ≤ 1 / 2 ^ 50 * |Real.tan (rval x)| + 1 / 2 ^ 80 * (1 + Real.tan (rval x) ^ 2) := by
  refine tan_bound hv hw hhi ?_
  have h1 := (cos_abs_bound hv hw hhi).2
  have h2 : (1 : ℝ) / 2 ^ 60 ≤ |rval (TwoFloat.cos x)| := by
    rw [abs_rval]
    have := (Rat.cast_le (K := ℝ)).2 hc
    push_cast at this
    rw [← Rat.cast_abs] at this
    exact this
  have h3 := abs_add_le (rval (TwoFloat.cos x) - Real.cos (rval x)) (Real.cos (rval x))
  rw [sub_add_cancel] at h3
  have : (1 : ℝ) / 2 ^ 69 + 1 / 2 ^ 68 ≤ 1 / 2 ^ 60 := by norm_num
  linarith

/-- the hypotheses are satisfiable: `x = 1000` (quadrant 1, the reciprocal branch) -/
example :
    |rval (TwoFloat.tan ⟨f64lit 0x408f400000000000, F64.zero⟩)
      - Real.tan (rval ⟨f64lit 0x408f400000000000, F64.zero⟩)|
      ≤ 1 / 2 ^ 50 * |Real.tan (rval ⟨f64lit 0x408f400000000000, F64.zero⟩)|
        + 1 / 2 ^ 80 * (1 + Real.tan (rval ⟨f64lit 0x408f400000000000, F64.zero⟩) ^ 2) :=
  (tan_bound_of_model_cos (by decide +kernel) (by decide +kernel) (by decide +kernel) (by decide +kernel)).2

/-- **C16 (tan), unreduced arguments**: for valid `|x| < FRAC_PI_4` no pole hypothesis is needed -/
theorem tan_small_bound {x : TwoFloat} (hv : x.Valid) (hw : x.WF) (hsm : |val x| < val consts.FRAC_PI_4) :
    (TwoFloat.tan x).Valid ∧
    |rval (TwoFloat.tan x) - Real.tan (rval x)|
      ≤ 1 / 2 ^ 50 * |Real.tan (rval x)| + 1 / 2 ^ 80 * (1 + Real.tan (rval x) ^ 2) := by
  have hhi : |val x| ≤ 393 / 500 := by
    have := P_facts.2.2.2.2.2.2
    have h2 := P_facts.2.2.2.1
    linarith
  refine tan_bound hv hw (le_trans hhi (by norm_num)) ?_
  have hr : |rval x| ≤ 393 / 500 := by have := rval_le hhi; push_cast at this; exact this
  have hc := cos_ge_small (le_trans hr (by norm_num))
  rw [abs_of_pos (by linarith)]
  refine le_trans ?_ hc
  norm_num

/-! ## 4. FINDING: the floor of C16 fails at the poles

`x = consts::FRAC_PI_2` is a valid in-range argument.  The reduction gives the quotient `1` and the remainder
`x − 1·FRAC_PI_2 = 0` EXACTLY (the same double-double constant is subtracted), so `restricted_tan 0 = 0` and
`−1.0 / 0` is NaN: `tan(FRAC_PI_2) = (NaN, NaN)`.  The true value `tan(FRAC_PI_2) = cot(π/2 − FRAC_PI_2)` is a
finite real of magnitude `2^109` (`tan_at_pole`: `2^108 ≤ |tan x| ≤ 2^110`, from `FRAC_PI_2 − π/2 ∈ [2^-110, 2^-109]`),
and the right-hand side of the property is finite; a NaN result violates it.  The same happens at every `x = q ⊗ FRAC_PI_2` (`q` odd) that the double-double
product represents, e.g. `3·FRAC_PI_2`. -/

theorem tan_pole_counterexample :
    consts.FRAC_PI_2.Valid ∧ consts.FRAC_PI_2.WF ∧ |val consts.FRAC_PI_2| ≤ 2 ^ 20 ∧
    trigonometry.quadrant consts.FRAC_PI_2 = (⟨F64.fin false 0, F64.fin false 0⟩, (1 : I8)) ∧
    TwoFloat.tan consts.FRAC_PI_2 = ⟨F64.nan, F64.nan⟩ ∧
    TwoFloat.tan (arithmetic.impl_Mul_TwoFloat_for_f64.mul (f64lit 0x4008000000000000) consts.FRAC_PI_2)
      = ⟨F64.nan, F64.nan⟩ := by
  decide +kernel

/-- at that argument the hypothesis `hpole` of `tan_bound` fails: `|cos x| ≤ 2^-106` -/
theorem cos_at_pole : |Real.cos (rval consts.FRAC_PI_2)| ≤ 1 / 2 ^ 106 := by
  have h := P_real_err
  have e : Real.cos (rval consts.FRAC_PI_2) = Real.sin (Real.pi / 2 - rval consts.FRAC_PI_2) := by
    rw [Real.sin_pi_div_two_sub]
  rw [e]
  refine le_trans Real.abs_sin_le_abs ?_
  rw [abs_sub_comm]; exact h

theorem pole_dist_check : (1 : ℚ) / 2 ^ 110 ≤ val consts.FRAC_PI_2 - ConstBounds.piHi / 2 ∧
    val consts.FRAC_PI_2 - ConstBounds.piLo / 2 ≤ 1 / 2 ^ 109 := by decide +kernel

/-- `FRAC_PI_2` lies ABOVE `π/2`, by between `2^-110` and `2^-109` -/
theorem pole_dist : 1 / 2 ^ 110 ≤ rval consts.FRAC_PI_2 - Real.pi / 2 ∧
    rval consts.FRAC_PI_2 - Real.pi / 2 ≤ 1 / 2 ^ 109 := by
  obtain ⟨h1, h2⟩ := pole_dist_check
  obtain ⟨p1, p2⟩ := ConstBounds.pi_encl
  have c1 := (Rat.cast_le (K := ℝ)).2 h1
  have c2 := (Rat.cast_le (K := ℝ)).2 h2
  unfold rval
  push_cast at c1 c2 ⊢
  constructor <;> linarith

/-- **the true value at the pole argument is a finite real of magnitude `2^109`**:
`2^108 ≤ |tan (FRAC_PI_2)| ≤ 2^110`, whereas the model returns NaN (`tan_pole_counterexample`) -/
theorem tan_at_pole : 2 ^ 108 ≤ |Real.tan (rval consts.FRAC_PI_2)| ∧
    |Real.tan (rval consts.FRAC_PI_2)| ≤ 2 ^ 110 := by
  obtain ⟨d1, d2⟩ := pole_dist
  set d := rval consts.FRAC_PI_2 - Real.pi / 2 with hd
  have hd0 : 0 < d := lt_of_lt_of_le (by positivity) d1
  have e : rval consts.FRAC_PI_2 = Real.pi / 2 - -d := by rw [hd]; ring
  rw [e, Real.tan_pi_div_two_sub, Real.tan_neg, inv_neg, abs_neg]
  have hpi := Real.one_le_pi_div_two
  have hsm : d ≤ 1 / 2 := le_trans d2 (by norm_num)
  have ht1 : d ≤ Real.tan d := Real.le_tan hd0.le (by linarith)
  have hc := cos_ge_small (r := d) (by rw [abs_of_pos hd0]; linarith)
  have hcpos : 0 < Real.cos d := by linarith
  have ht2 : Real.tan d ≤ 2 * d := by
    rw [Real.tan_eq_sin_div_cos, div_le_iff₀ hcpos]
    have := Real.sin_le hd0.le
    nlinarith
  have htpos : 0 < Real.tan d := lt_of_lt_of_le hd0 ht1
  rw [abs_of_pos (inv_pos.2 htpos)]
  constructor
  · rw [le_inv_comm₀ (by positivity) htpos]
    refine le_trans ht2 ?_
    have : 2 * d ≤ 2 * (1 / 2 ^ 109) := by linarith
    refine le_trans this ?_
    norm_num
  · rw [inv_le_comm₀ htpos (by positivity)]
    refine le_trans ?_ ht1
    refine le_trans ?_ d1
    norm_num

end C16u
