/-
Property C08 — `floor`, `ceil`, `trunc`, `round`, `fract` of a valid `TwoFloat` are exact.

Units: every value is a scaled integer (units of 2^-1074); `x.V = x.hi.toInt + x.lo.toInt` is the exact value
of the pair, and `U = 2^1074` (`C08.U_eq`) is the integer 1.  "Integer value" therefore means "multiple of `U`".
The specification functions (defined in `TFV/Lemmas/Fraction.lean`) are

* `floorV z = z / U * U`            (`Int` division rounds toward −∞),
* `ceilV  z = -((-z) / U * U)`,
* `truncV z = z.tdiv U * U`          (T-division rounds toward zero),
* `roundV z = if 0 ≤ z then (2z + U) / (2U) * U else -((2(-z) + U) / (2U) * U)`   (halves away from zero),
* `fractV z = z - truncV z`.

Their characterisations (`floorV_spec`, `ceilV_spec`, `truncV_spec`, `roundV_spec` below) state that these are
the mathematical ⌊v⌋, ⌈v⌉, trunc v and round-half-away-from-zero of v = z·2^-1074.

Main results, for every `x` with `x.Valid` (both words finite, `hi = RN(hi + lo)`) and `x.WF`
(both words are bit patterns of doubles):

  (TwoFloat.floor x).V = floorV x.V ∧ (TwoFloat.floor x).Valid      -- `floor_exact`
  (TwoFloat.ceil  x).V = ceilV  x.V ∧ (TwoFloat.ceil  x).Valid      -- `ceil_exact`
  (TwoFloat.trunc x).V = truncV x.V ∧ (TwoFloat.trunc x).Valid      -- `trunc_exact`
  (TwoFloat.round x).V = roundV x.V ∧ (TwoFloat.round x).Valid      -- `round_exact`
  (TwoFloat.fract x).V = fractV x.V ∧ (TwoFloat.fract x).Valid      -- `fract_exact`
  (TwoFloat.trunc x).V + (TwoFloat.fract x).V = x.V                 -- `trunc_add_fract`

There is no magnitude restriction: the statements hold up to `f64::MAX`.
-/
import TFV.Lemmas.Fraction
import TFV.Lemmas.EFT

set_option exponentiation.threshold 3000

namespace C08

/-! ## the specification functions are the mathematical ones -/

/-- `floorV z` is the unique integer value `f` with `f ≤ z < f + 1` -/
theorem floorV_spec (z : ℤ) : U ∣ floorV z ∧ floorV z ≤ z ∧ z < floorV z + U :=
  ⟨floorV_dvd z, floorV_le z, lt_floorV_add z⟩

/-- `ceilV z` is the unique integer value `c` with `c - 1 < z ≤ c` -/
theorem ceilV_spec (z : ℤ) : U ∣ ceilV z ∧ z ≤ ceilV z ∧ ceilV z < z + U :=
  ⟨ceilV_dvd z, le_ceilV z, ceilV_lt_add z⟩

/-- truncation is `floor` on non-negative and `ceil` on non-positive values -/
theorem truncV_spec (z : ℤ) : (0 ≤ z → truncV z = floorV z) ∧ (z ≤ 0 → truncV z = ceilV z) :=
  ⟨truncV_of_nonneg, truncV_of_nonpos⟩

/-- `roundV z` is an integer value within 1/2 of `z`; an exact half is rounded away from zero -/
theorem roundV_spec (z : ℤ) :
    U ∣ roundV z ∧
      (0 ≤ z → 2 * roundV z ≤ 2 * z + U ∧ 2 * z < 2 * roundV z + U) ∧
      (z ≤ 0 → 2 * z ≤ 2 * roundV z + U ∧ 2 * roundV z < 2 * z + U) := by
  have h1 := floorV_le z; have h2 := lt_floorV_add z; have hd := floorV_dvd z
  have hU := U_pos
  refine ⟨?_, ?_, ?_⟩
  · rw [roundV_nf]; split_ifs <;> first | exact hd | exact dvd_add hd dvd_rfl
  · intro hz; rw [roundV_nf, if_pos hz]; split_ifs <;> omega
  · intro hz
    rcases eq_or_lt_of_le hz with rfl | hz'
    · rw [roundV_of_dvd (dvd_zero U)]; omega
    · rw [roundV_nf, if_neg (by omega)]; split_ifs <;> omega

/-! ## Fast2Sum (from `TFV.Lemmas.EFT`) discharges the hypothesis of the branch analysis -/

theorem f2sSpec : F2SSpec := fun _ _ ha hb hwa hwb hab hov =>
  have h := F64.fast_two_sum_spec ha hb hwa hwb hab hov
  ⟨h.2.1, h.2.2.1⟩

/-! ## Property C08 -/

/-- `floor` is exact and returns a valid pair -/
theorem floor_exact {x : TwoFloat} (hv : x.Valid) (hw : x.WF) :
    (TwoFloat.floor x).V = floorV x.V ∧ (TwoFloat.floor x).Valid :=
  floor_exact_modF2S f2sSpec hv hw

/-- `ceil` is exact and returns a valid pair -/
theorem ceil_exact {x : TwoFloat} (hv : x.Valid) (hw : x.WF) :
    (TwoFloat.ceil x).V = ceilV x.V ∧ (TwoFloat.ceil x).Valid :=
  ceil_exact_modF2S f2sSpec hv hw

/-- `trunc` is exact (toward zero) and returns a valid pair -/
theorem trunc_exact {x : TwoFloat} (hv : x.Valid) (hw : x.WF) :
    (TwoFloat.trunc x).V = truncV x.V ∧ (TwoFloat.trunc x).Valid :=
  trunc_exact_modF2S f2sSpec hv hw

/-- `round` is exact (nearest integer value, halves away from zero) and returns a valid pair -/
theorem round_exact {x : TwoFloat} (hv : x.Valid) (hw : x.WF) :
    (TwoFloat.round x).V = roundV x.V ∧ (TwoFloat.round x).Valid :=
  round_exact_modF2S f2sSpec hv hw

/-- `fract` is exact (`v − trunc v`) and returns a valid pair -/
theorem fract_exact {x : TwoFloat} (hv : x.Valid) (hw : x.WF) :
    (TwoFloat.fract x).V = fractV x.V ∧ (TwoFloat.fract x).Valid :=
  fract_exact_modF2S f2sSpec hv hw

/-- the exact values of `trunc x` and `fract x` sum to the exact value of `x` -/
theorem trunc_add_fract {x : TwoFloat} (hv : x.Valid) (hw : x.WF) :
    (TwoFloat.trunc x).V + (TwoFloat.fract x).V = x.V := by
  rw [(trunc_exact hv hw).1, (fract_exact hv hw).1]; exact truncV_add_fractV x.V

/-- Property C08, all parts -/
theorem all_parts {x : TwoFloat} (hv : x.Valid) (hw : x.WF) :
    ((TwoFloat.floor x).V = floorV x.V ∧ (TwoFloat.floor x).Valid) ∧
    ((TwoFloat.ceil x).V = ceilV x.V ∧ (TwoFloat.ceil x).Valid) ∧
    ((TwoFloat.trunc x).V = truncV x.V ∧ (TwoFloat.trunc x).Valid) ∧
    ((TwoFloat.round x).V = roundV x.V ∧ (TwoFloat.round x).Valid) ∧
    ((TwoFloat.fract x).V = fractV x.V ∧ (TwoFloat.fract x).Valid) ∧
    (TwoFloat.trunc x).V + (TwoFloat.fract x).V = x.V :=
  ⟨floor_exact hv hw, ceil_exact hv hw, trunc_exact hv hw, round_exact hv hw, fract_exact hv hw,
    trunc_add_fract hv hw⟩


/-! ## well-formedness of the results (bit patterns of doubles), for composition with other properties -/

theorem from_WF {c : F64} (h : c.WF) : (convert.impl_From_f64_for_TwoFloat.from c).WF := by
  unfold convert.impl_From_f64_for_TwoFloat.from
  rw [F64.f64lit_zero]; exact ⟨h, (by decide : (F64.fin false 0).WF)⟩

theorem floor_WF {x : TwoFloat} (hw : x.WF) : (TwoFloat.floor x).WF := by
  unfold TwoFloat.floor
  split_ifs
  · exact ⟨WF_floor hw.1, hw.2⟩
  · exact F64.fast_two_sum_WF _ _
  · exact from_WF (WF_floor hw.1)

theorem ceil_WF {x : TwoFloat} (hw : x.WF) : (TwoFloat.ceil x).WF := by
  unfold TwoFloat.ceil
  split_ifs
  · exact ⟨WF_ceil hw.1, hw.2⟩
  · exact F64.fast_two_sum_WF _ _
  · exact from_WF (WF_ceil hw.1)

theorem trunc_WF {x : TwoFloat} (hw : x.WF) : (TwoFloat.trunc x).WF := by
  unfold TwoFloat.trunc
  split_ifs
  · exact floor_WF hw
  · exact ceil_WF hw

theorem round_WF {x : TwoFloat} (hw : x.WF) : (TwoFloat.round x).WF := by
  unfold TwoFloat.round TwoFloat.lo_m
  split_ifs
  · exact ⟨WF_round hw.1, hw.2⟩
  all_goals first
    | exact F64.fast_two_sum_WF _ _
    | exact from_WF (WF_round hw.1)
    | exact from_WF (WF_trunc hw.1)

theorem fract_WF {x : TwoFloat} (hw : x.WF) : (TwoFloat.fract x).WF := by
  unfold TwoFloat.fract
  simp only []
  split_ifs
  · exact from_WF (WF_modf_fst hw.1)
  · generalize (x.hi >=. f64lit 0x0000000000000000) = b1
    generalize (x.lo >=. f64lit 0x0000000000000000) = b2
    cases b1 <;> cases b2 <;> simp only [] <;> first
      | exact F64.fast_two_sum_WF _ _
      | exact from_WF (WF_modf_fst hw.2)
  · exact F64.fast_two_sum_WF _ _

/-! ## non-vacuity: concrete valid well-formed inputs exercising every branch, evaluated by the kernel -/

section examples
open F64

instance (t : TwoFloat) : Decidable t.WF := by unfold TwoFloat.WF; infer_instance

/-- 2.5 + 2^-74 : both words have a fractional part (third branch; `round` sees a tie in the high word) -/
def xA : TwoFloat := ⟨fin false (5 * 2 ^ 1073), fin false (2 ^ 1000)⟩
/-- 2^60 − 1/2 : the high word is an integer value, the low word is a tie (second branch, Fast2Sum) -/
def xB : TwoFloat := ⟨fin false (2 ^ 60 * 2 ^ 1074), fin true (2 ^ 1073)⟩
/-- 2^80 + 3 : both words are integer values (first branch) -/
def xC : TwoFloat := ⟨fin false (2 ^ 80 * 2 ^ 1074), fin false (3 * 2 ^ 1074)⟩
/-- −2.5 − 2^-74 -/
def xD : TwoFloat := ⟨fin true (5 * 2 ^ 1073), fin true (2 ^ 1000)⟩
/-- `f64::MAX` + 1/2 : no magnitude restriction -/
def xE : TwoFloat := ⟨fin false maxFin, fin false (2 ^ 1073)⟩
/-- −(2^60 + 1/4) : negative integer high word, negative fractional low word -/
def xF : TwoFloat := ⟨fin true (2 ^ 60 * 2 ^ 1074), fin true (2 ^ 1072)⟩

example : xA.Valid ∧ xA.WF := by decide +kernel
example : xB.Valid ∧ xB.WF := by decide +kernel
example : xC.Valid ∧ xC.WF := by decide +kernel
example : xD.Valid ∧ xD.WF := by decide +kernel
example : xE.Valid ∧ xE.WF := by decide +kernel
example : xF.Valid ∧ xF.WF := by decide +kernel

/-- the hypotheses of the property are satisfiable -/
example : ∃ x : TwoFloat, x.Valid ∧ x.WF := ⟨xA, by decide +kernel⟩

example : (TwoFloat.floor xA).V = 2 * U ∧ (TwoFloat.ceil xA).V = 3 * U ∧ (TwoFloat.trunc xA).V = 2 * U ∧
    (TwoFloat.round xA).V = 3 * U ∧ (TwoFloat.fract xA).V = U / 2 + 2 ^ 1000 := by decide +kernel
example : (TwoFloat.floor xB).V = (2 ^ 60 - 1) * U ∧ (TwoFloat.ceil xB).V = 2 ^ 60 * U ∧
    (TwoFloat.trunc xB).V = (2 ^ 60 - 1) * U ∧ (TwoFloat.round xB).V = 2 ^ 60 * U ∧
    (TwoFloat.fract xB).V = U / 2 := by decide +kernel
example : (TwoFloat.floor xC).V = xC.V ∧ (TwoFloat.ceil xC).V = xC.V ∧ (TwoFloat.trunc xC).V = xC.V ∧
    (TwoFloat.round xC).V = xC.V ∧ (TwoFloat.fract xC).V = 0 := by decide +kernel
example : (TwoFloat.floor xD).V = -3 * U ∧ (TwoFloat.ceil xD).V = -2 * U ∧ (TwoFloat.trunc xD).V = -2 * U ∧
    (TwoFloat.round xD).V = -3 * U ∧ (TwoFloat.fract xD).V = -(U / 2) - 2 ^ 1000 := by decide +kernel
example : (TwoFloat.floor xE).V = maxFin ∧ (TwoFloat.ceil xE).V = maxFin + U ∧
    (TwoFloat.trunc xE).V = maxFin ∧ (TwoFloat.round xE).V = maxFin + U ∧
    (TwoFloat.fract xE).V = U / 2 := by decide +kernel
example : (TwoFloat.floor xF).V = -(2 ^ 60 + 1) * U ∧ (TwoFloat.ceil xF).V = -(2 ^ 60) * U ∧
    (TwoFloat.trunc xF).V = -(2 ^ 60) * U ∧ (TwoFloat.round xF).V = -(2 ^ 60) * U ∧
    (TwoFloat.fract xF).V = -(U / 4) := by decide +kernel

/-- the theorems apply to the concrete inputs (here: `ceil (f64::MAX + 1/2)` is the valid pair `MAX + 1`) -/
example : (TwoFloat.ceil xE).V = ceilV xE.V ∧ (TwoFloat.ceil xE).Valid :=
  ceil_exact (by decide +kernel) (by decide +kernel)
example : (TwoFloat.round xB).V = roundV xB.V ∧ (TwoFloat.round xB).Valid :=
  round_exact (by decide +kernel) (by decide +kernel)
example : (TwoFloat.trunc xD).V + (TwoFloat.fract xD).V = xD.V :=
  trunc_add_fract (by decide +kernel) (by decide +kernel)

end examples

end C08
