/-
Property C09 — conversions between `TwoFloat` and the primitive numeric types.

  "TwoFloat::from(n) for every value n of i8..i128, u8..u128 yields a valid TwoFloat whose exact value is
   n for all types up to 64 bits and for 128-bit values with at most 106 significant bits, and is within
   2^-106·|n| otherwise.  T::try_from(x) for each integer type T returns Ok(t) with t = trunc(hi+lo)
   exactly when t lies in T's range and an error otherwise (including NaN/infinite x), so
   T::try_from(TwoFloat::from(n)) == Ok(n) whenever n is exactly representable.  f64::from(x) is the high
   word, f32::from(x) is the high word rounded to f32, and From<f32>/From<f64> are exact."

Conventions
* `U = 2^1074` is the integer 1 in the scaled units of `F64.toInt` / `TwoFloat.V`; "the exact value of
  `t` is the integer `n`" reads `t.V = n * U`.
* Machine integers `IntN s b` carry an unbounded `Int`; an actual Rust value satisfies `n.inRange = true`.
* `Conv.ExactInt t z` : `t = (fin (z<0) (|z|·U), +0)`, `t.V = z·U`, `t.Valid`, `TwoFloat.is_valid t`, `t.WF`.
* The generic bodies `Conv.fromSmall / fromBig / tryFromSmall / tryFromBig` are definitionally equal to the
  generated per-type functions (`Conv.from_i8_eq`, … all by `rfl`).

External facts used (one line each, see `fastTwoSumSpec` and `truncSpec` below):
* Fast2Sum theorem `F64.fast_two_sum_of_finite` (Lemmas/EFT.lean) — only for 128-bit inputs with more
  than 106 significant bits;
* exactness of `TwoFloat::trunc` `C08.trunc_exact_modF2S` (Lemmas/Fraction.lean) — for `try_from` on
  general valid inputs (NOT needed for the round trips of the small types, nor for non-finite inputs).
-/
import TFV.Lemmas.Conv
import TFV.Lemmas.EFT
import TFV.Lemmas.Fraction

set_option exponentiation.threshold 4096

namespace C09
open Conv F64

/-! ## the two imported facts -/

/-- Fast2Sum (Dekker), proved in `TFV.Lemmas.EFT` -/
theorem fastTwoSumSpec : Conv.FastTwoSumSpec :=
  fun a b hwa hwb ha hb hab hf => F64.fast_two_sum_of_finite a b hwa hwb ha hb hab hf

/-- `trunc` maps well-formed pairs to well-formed pairs -/
theorem trunc_WF (x : TwoFloat) (hw : x.WF) : (TwoFloat.trunc x).WF := by
  have hz : (f64lit 0x0000000000000000).WF := by rw [f64lit_zero]; exact ⟨rep_zero, Nat.zero_le _⟩
  unfold TwoFloat.trunc TwoFloat.floor TwoFloat.ceil
  split_ifs
  · exact ⟨C08.WF_floor hw.1, hw.2⟩
  · exact F64.fast_two_sum_WF _ _
  · exact ⟨C08.WF_floor hw.1, hz⟩
  · exact ⟨C08.WF_ceil hw.1, hw.2⟩
  · exact F64.fast_two_sum_WF _ _
  · exact ⟨C08.WF_ceil hw.1, hz⟩

/-- Fast2Sum in the form used by `TFV.Lemmas.Fraction` -/
theorem f2sSpec : C08.F2SSpec := fun _ _ ha hb hwa hwb hab hov =>
  let h := F64.fast_two_sum_spec ha hb hwa hwb hab hov; ⟨h.2.1, h.2.2.1⟩

/-- exactness of `TwoFloat::trunc`, proved in `TFV.Lemmas.Fraction` (property C08) -/
theorem truncSpec : Conv.TruncSpec where
  valid _ hx hw := (C08.trunc_exact_modF2S f2sSpec hx hw).2
  wf x _ hw := trunc_WF x hw
  value _ hx hw := (C08.trunc_exact_modF2S f2sSpec hx hw).1

/-! ## 1. `From<i8 | i16 | i32 | u8 | u16 | u32>`: exact, valid, low word `+0` -/

theorem from_i8 (n : I8) (h : n.inRange = true) : ExactInt (convert.impl_From_i8_for_TwoFloat.from n) n.v :=
  fromSmall_exact _ (natAbs_lt_of_fits_small (by decide) h)
theorem from_i16 (n : I16) (h : n.inRange = true) : ExactInt (convert.impl_From_i16_for_TwoFloat.from n) n.v :=
  fromSmall_exact _ (natAbs_lt_of_fits_small (by decide) h)
theorem from_i32 (n : I32) (h : n.inRange = true) : ExactInt (convert.impl_From_i32_for_TwoFloat.from n) n.v :=
  fromSmall_exact _ (natAbs_lt_of_fits_small (by decide) h)
theorem from_u8 (n : U8) (h : n.inRange = true) : ExactInt (convert.impl_From_u8_for_TwoFloat.from n) n.v :=
  fromSmall_exact _ (natAbs_lt_of_fits_small (by decide) h)
theorem from_u16 (n : U16) (h : n.inRange = true) : ExactInt (convert.impl_From_u16_for_TwoFloat.from n) n.v :=
  fromSmall_exact _ (natAbs_lt_of_fits_small (by decide) h)
theorem from_u32 (n : U32) (h : n.inRange = true) : ExactInt (convert.impl_From_u32_for_TwoFloat.from n) n.v :=
  fromSmall_exact _ (natAbs_lt_of_fits_small (by decide) h)

/-! ## 2. `From<i64 | u64 | i128 | u128>` -/

/-- `TwoFloat::from(n: i64)` is exact and valid, for every `n` -/
theorem from_i64 (n : I64) (h : n.inRange = true) : ExactBig (convert.impl_From_i64_for_TwoFloat.from n) n.v :=
  exactBig_of (by decide) (by decide) n h (rep_err_of_K_le (by decide) h)

/-- `TwoFloat::from(n: u64)` is exact and valid, for every `n` -/
theorem from_u64 (n : U64) (h : n.inRange = true) : ExactBig (convert.impl_From_u64_for_TwoFloat.from n) n.v :=
  exactBig_of (by decide) (by decide) n h (rep_err_of_K_le (by decide) h)

/-- `TwoFloat::from(n: i128)` is exact and valid when `n` has at most 106 significant bits -/
theorem from_i128_exact (n : I128) (h : n.inRange = true) (h106 : SigBits106 n.v) :
    ExactBig (convert.impl_From_i128_for_TwoFloat.from n) n.v :=
  exactBig_of (by decide) (by decide) n h (rep_err_of_sig106 h106)

/-- `TwoFloat::from(n: u128)` is exact and valid when `n` has at most 106 significant bits -/
theorem from_u128_exact (n : U128) (h : n.inRange = true) (h106 : SigBits106 n.v) :
    ExactBig (convert.impl_From_u128_for_TwoFloat.from n) n.v :=
  exactBig_of (by decide) (by decide) n h (rep_err_of_sig106 h106)

/-- `TwoFloat::from(n: i128)` is valid and within `2^-106 |n|` of `n`, for every `n` -/
theorem from_i128_approx (n : I128) (h : n.inRange = true) :
    ApproxBig (convert.impl_From_i128_for_TwoFloat.from n) n.v :=
  approxBig_of fastTwoSumSpec (by decide) (by decide) n h

/-- `TwoFloat::from(n: u128)` is valid and within `2^-106 |n|` of `n`, for every `n` -/
theorem from_u128_approx (n : U128) (h : n.inRange = true) :
    ApproxBig (convert.impl_From_u128_for_TwoFloat.from n) n.v :=
  approxBig_of fastTwoSumSpec (by decide) (by decide) n h

/-- the same bound also holds (trivially sharper) for the 64-bit types -/
theorem from_i64_approx (n : I64) (h : n.inRange = true) :
    ApproxBig (convert.impl_From_i64_for_TwoFloat.from n) n.v :=
  approxBig_of fastTwoSumSpec (by decide) (by decide) n h

/-! ### panic freedom: no intermediate integer operation of the wide `From` impls overflows -/

theorem from_i64_pf (n : I64) (h : n.inRange = true) : convert.impl_From_i64_for_TwoFloat.from.pf n = true :=
  fromBigPf_true (by decide) (by decide) n h
theorem from_u64_pf (n : U64) (h : n.inRange = true) : convert.impl_From_u64_for_TwoFloat.from.pf n = true :=
  fromBigPf_true (by decide) (by decide) n h
theorem from_i128_pf (n : I128) (h : n.inRange = true) : convert.impl_From_i128_for_TwoFloat.from.pf n = true :=
  fromBigPf_true (by decide) (by decide) n h
theorem from_u128_pf (n : U128) (h : n.inRange = true) : convert.impl_From_u128_for_TwoFloat.from.pf n = true :=
  fromBigPf_true (by decide) (by decide) n h

/-! ## 3. `TryFrom<TwoFloat>` for the small integer types

`Int.tdiv x.V U` is the truncation toward zero of the exact value `hi + lo` to an integer. -/

theorem try_from_i8 (x : TwoFloat) (hx : x.Valid) (hw : x.WF) :
    convert.impl_TryFrom_TwoFloat_for_i8.try_from x = tryFromSpec true 8 x :=
  tryFromSmall_valid truncSpec (by decide) x hx hw
theorem try_from_i16 (x : TwoFloat) (hx : x.Valid) (hw : x.WF) :
    convert.impl_TryFrom_TwoFloat_for_i16.try_from x = tryFromSpec true 16 x :=
  tryFromSmall_valid truncSpec (by decide) x hx hw
theorem try_from_i32 (x : TwoFloat) (hx : x.Valid) (hw : x.WF) :
    convert.impl_TryFrom_TwoFloat_for_i32.try_from x = tryFromSpec true 32 x :=
  tryFromSmall_valid truncSpec (by decide) x hx hw
theorem try_from_u8 (x : TwoFloat) (hx : x.Valid) (hw : x.WF) :
    convert.impl_TryFrom_TwoFloat_for_u8.try_from x = tryFromSpec false 8 x :=
  tryFromSmall_valid truncSpec (by decide) x hx hw
theorem try_from_u16 (x : TwoFloat) (hx : x.Valid) (hw : x.WF) :
    convert.impl_TryFrom_TwoFloat_for_u16.try_from x = tryFromSpec false 16 x :=
  tryFromSmall_valid truncSpec (by decide) x hx hw
theorem try_from_u32 (x : TwoFloat) (hx : x.Valid) (hw : x.WF) :
    convert.impl_TryFrom_TwoFloat_for_u32.try_from x = tryFromSpec false 32 x :=
  tryFromSmall_valid truncSpec (by decide) x hx hw

/-- NaN / ±∞ in the high word: conversion error, whatever the low word -/
theorem try_from_small_not_finite (x : TwoFloat) (h : x.hi.is_finite = false) :
    convert.impl_TryFrom_TwoFloat_for_i8.try_from x = Except.error TwoFloatError.ConversionError ∧
    convert.impl_TryFrom_TwoFloat_for_i16.try_from x = Except.error TwoFloatError.ConversionError ∧
    convert.impl_TryFrom_TwoFloat_for_i32.try_from x = Except.error TwoFloatError.ConversionError ∧
    convert.impl_TryFrom_TwoFloat_for_u8.try_from x = Except.error TwoFloatError.ConversionError ∧
    convert.impl_TryFrom_TwoFloat_for_u16.try_from x = Except.error TwoFloatError.ConversionError ∧
    convert.impl_TryFrom_TwoFloat_for_u32.try_from x = Except.error TwoFloatError.ConversionError :=
  ⟨tryFromSmall_not_finite (by decide) x h, tryFromSmall_not_finite (by decide) x h,
   tryFromSmall_not_finite (by decide) x h, tryFromSmall_not_finite (by decide) x h,
   tryFromSmall_not_finite (by decide) x h, tryFromSmall_not_finite (by decide) x h⟩

/-- round trips `T::try_from(TwoFloat::from(n)) == Ok(n)` (do not depend on `truncSpec`) -/
theorem round_trip_i8 (n : I8) (h : n.inRange = true) :
    convert.impl_TryFrom_TwoFloat_for_i8.try_from (convert.impl_From_i8_for_TwoFloat.from n) = Except.ok n :=
  tryFromSmall_fromSmall (by decide) n h
theorem round_trip_i16 (n : I16) (h : n.inRange = true) :
    convert.impl_TryFrom_TwoFloat_for_i16.try_from (convert.impl_From_i16_for_TwoFloat.from n) = Except.ok n :=
  tryFromSmall_fromSmall (by decide) n h
theorem round_trip_i32 (n : I32) (h : n.inRange = true) :
    convert.impl_TryFrom_TwoFloat_for_i32.try_from (convert.impl_From_i32_for_TwoFloat.from n) = Except.ok n :=
  tryFromSmall_fromSmall (by decide) n h
theorem round_trip_u8 (n : U8) (h : n.inRange = true) :
    convert.impl_TryFrom_TwoFloat_for_u8.try_from (convert.impl_From_u8_for_TwoFloat.from n) = Except.ok n :=
  tryFromSmall_fromSmall (by decide) n h
theorem round_trip_u16 (n : U16) (h : n.inRange = true) :
    convert.impl_TryFrom_TwoFloat_for_u16.try_from (convert.impl_From_u16_for_TwoFloat.from n) = Except.ok n :=
  tryFromSmall_fromSmall (by decide) n h
theorem round_trip_u32 (n : U32) (h : n.inRange = true) :
    convert.impl_TryFrom_TwoFloat_for_u32.try_from (convert.impl_From_u32_for_TwoFloat.from n) = Except.ok n :=
  tryFromSmall_fromSmall (by decide) n h

/-! ## 4. `TryFrom<TwoFloat>` for the wide integer types -/

/-- the constants `UPPER_BOUND = (T::MAX as f64, -1.0)` are valid pairs (by evaluation) -/
theorem upperB_i64 : TwoFloat.is_valid (upperB true 64) = true ∧ (upperB true 64).Valid := by decide +kernel
theorem upperB_u64 : TwoFloat.is_valid (upperB false 64) = true ∧ (upperB false 64).Valid := by decide +kernel
theorem upperB_i128 : TwoFloat.is_valid (upperB true 128) = true ∧ (upperB true 128).Valid := by decide +kernel
theorem upperB_u128 : TwoFloat.is_valid (upperB false 128) = true ∧ (upperB false 128).Valid := by decide +kernel

theorem try_from_i64 (x : TwoFloat) (hx : x.Valid) (hw : x.WF) :
    convert.impl_TryFrom_TwoFloat_for_i64.try_from x = tryFromSpec true 64 x ∧
      convert.impl_TryFrom_TwoFloat_for_i64.try_from.pf x = true :=
  tryFromBig_valid truncSpec (by decide) (by decide) upperB_i64.1 upperB_i64.2 x hx hw
theorem try_from_u64 (x : TwoFloat) (hx : x.Valid) (hw : x.WF) :
    convert.impl_TryFrom_TwoFloat_for_u64.try_from x = tryFromSpec false 64 x ∧
      convert.impl_TryFrom_TwoFloat_for_u64.try_from.pf x = true :=
  tryFromBig_valid truncSpec (by decide) (by decide) upperB_u64.1 upperB_u64.2 x hx hw
theorem try_from_i128 (x : TwoFloat) (hx : x.Valid) (hw : x.WF) :
    convert.impl_TryFrom_TwoFloat_for_i128.try_from x = tryFromSpec true 128 x ∧
      convert.impl_TryFrom_TwoFloat_for_i128.try_from.pf x = true :=
  tryFromBig_valid truncSpec (by decide) (by decide) upperB_i128.1 upperB_i128.2 x hx hw
theorem try_from_u128 (x : TwoFloat) (hx : x.Valid) (hw : x.WF) :
    convert.impl_TryFrom_TwoFloat_for_u128.try_from x = tryFromSpec false 128 x ∧
      convert.impl_TryFrom_TwoFloat_for_u128.try_from.pf x = true :=
  tryFromBig_valid truncSpec (by decide) (by decide) upperB_u128.1 upperB_u128.2 x hx hw

/-- NaN / ±∞ in the high word: conversion error (and no integer overflow), whatever the low word -/
theorem try_from_big_not_finite (x : TwoFloat) (h : x.hi.is_finite = false) :
    (convert.impl_TryFrom_TwoFloat_for_i64.try_from x = Except.error TwoFloatError.ConversionError ∧
      convert.impl_TryFrom_TwoFloat_for_i64.try_from.pf x = true) ∧
    (convert.impl_TryFrom_TwoFloat_for_u64.try_from x = Except.error TwoFloatError.ConversionError ∧
      convert.impl_TryFrom_TwoFloat_for_u64.try_from.pf x = true) ∧
    (convert.impl_TryFrom_TwoFloat_for_i128.try_from x = Except.error TwoFloatError.ConversionError ∧
      convert.impl_TryFrom_TwoFloat_for_i128.try_from.pf x = true) ∧
    (convert.impl_TryFrom_TwoFloat_for_u128.try_from x = Except.error TwoFloatError.ConversionError ∧
      convert.impl_TryFrom_TwoFloat_for_u128.try_from.pf x = true) :=
  ⟨tryFromBig_not_finite (by decide) upperB_i64.1 x h, tryFromBig_not_finite (by decide) upperB_u64.1 x h,
   tryFromBig_not_finite (by decide) upperB_i128.1 x h, tryFromBig_not_finite (by decide) upperB_u128.1 x h⟩

theorem round_trip_i64 (n : I64) (h : n.inRange = true) :
    convert.impl_TryFrom_TwoFloat_for_i64.try_from (convert.impl_From_i64_for_TwoFloat.from n) = Except.ok n :=
  tryFromBig_fromBig truncSpec (by decide) (by decide) upperB_i64.1 upperB_i64.2 n h
    (rep_err_of_K_le (by decide) h)
theorem round_trip_u64 (n : U64) (h : n.inRange = true) :
    convert.impl_TryFrom_TwoFloat_for_u64.try_from (convert.impl_From_u64_for_TwoFloat.from n) = Except.ok n :=
  tryFromBig_fromBig truncSpec (by decide) (by decide) upperB_u64.1 upperB_u64.2 n h
    (rep_err_of_K_le (by decide) h)
theorem round_trip_i128 (n : I128) (h : n.inRange = true) (h106 : SigBits106 n.v) :
    convert.impl_TryFrom_TwoFloat_for_i128.try_from (convert.impl_From_i128_for_TwoFloat.from n) = Except.ok n :=
  tryFromBig_fromBig truncSpec (by decide) (by decide) upperB_i128.1 upperB_i128.2 n h
    (rep_err_of_sig106 h106)
theorem round_trip_u128 (n : U128) (h : n.inRange = true) (h106 : SigBits106 n.v) :
    convert.impl_TryFrom_TwoFloat_for_u128.try_from (convert.impl_From_u128_for_TwoFloat.from n) = Except.ok n :=
  tryFromBig_fromBig truncSpec (by decide) (by decide) upperB_u128.1 upperB_u128.2 n h
    (rep_err_of_sig106 h106)


/-! ### the same as equivalences: `Ok(t)` iff `t = trunc(hi + lo)` and `t` in range; `Err` iff out of range -/

theorem try_from_i8_ok_iff (x : TwoFloat) (hx : x.Valid) (hw : x.WF) (t : I8) :
    convert.impl_TryFrom_TwoFloat_for_i8.try_from x = Except.ok t ↔ t.v = Int.tdiv x.V U ∧ t.inRange = true := by
  rw [try_from_i8 x hx hw]; exact tryFromSpec_ok_iff t
theorem try_from_i16_ok_iff (x : TwoFloat) (hx : x.Valid) (hw : x.WF) (t : I16) :
    convert.impl_TryFrom_TwoFloat_for_i16.try_from x = Except.ok t ↔ t.v = Int.tdiv x.V U ∧ t.inRange = true := by
  rw [try_from_i16 x hx hw]; exact tryFromSpec_ok_iff t
theorem try_from_i32_ok_iff (x : TwoFloat) (hx : x.Valid) (hw : x.WF) (t : I32) :
    convert.impl_TryFrom_TwoFloat_for_i32.try_from x = Except.ok t ↔ t.v = Int.tdiv x.V U ∧ t.inRange = true := by
  rw [try_from_i32 x hx hw]; exact tryFromSpec_ok_iff t
theorem try_from_u8_ok_iff (x : TwoFloat) (hx : x.Valid) (hw : x.WF) (t : U8) :
    convert.impl_TryFrom_TwoFloat_for_u8.try_from x = Except.ok t ↔ t.v = Int.tdiv x.V U ∧ t.inRange = true := by
  rw [try_from_u8 x hx hw]; exact tryFromSpec_ok_iff t
theorem try_from_u16_ok_iff (x : TwoFloat) (hx : x.Valid) (hw : x.WF) (t : U16) :
    convert.impl_TryFrom_TwoFloat_for_u16.try_from x = Except.ok t ↔ t.v = Int.tdiv x.V U ∧ t.inRange = true := by
  rw [try_from_u16 x hx hw]; exact tryFromSpec_ok_iff t
theorem try_from_u32_ok_iff (x : TwoFloat) (hx : x.Valid) (hw : x.WF) (t : U32) :
    convert.impl_TryFrom_TwoFloat_for_u32.try_from x = Except.ok t ↔ t.v = Int.tdiv x.V U ∧ t.inRange = true := by
  rw [try_from_u32 x hx hw]; exact tryFromSpec_ok_iff t
theorem try_from_i64_ok_iff (x : TwoFloat) (hx : x.Valid) (hw : x.WF) (t : I64) :
    convert.impl_TryFrom_TwoFloat_for_i64.try_from x = Except.ok t ↔ t.v = Int.tdiv x.V U ∧ t.inRange = true := by
  rw [(try_from_i64 x hx hw).1]; exact tryFromSpec_ok_iff t
theorem try_from_u64_ok_iff (x : TwoFloat) (hx : x.Valid) (hw : x.WF) (t : U64) :
    convert.impl_TryFrom_TwoFloat_for_u64.try_from x = Except.ok t ↔ t.v = Int.tdiv x.V U ∧ t.inRange = true := by
  rw [(try_from_u64 x hx hw).1]; exact tryFromSpec_ok_iff t
theorem try_from_i128_ok_iff (x : TwoFloat) (hx : x.Valid) (hw : x.WF) (t : I128) :
    convert.impl_TryFrom_TwoFloat_for_i128.try_from x = Except.ok t ↔ t.v = Int.tdiv x.V U ∧ t.inRange = true := by
  rw [(try_from_i128 x hx hw).1]; exact tryFromSpec_ok_iff t
theorem try_from_u128_ok_iff (x : TwoFloat) (hx : x.Valid) (hw : x.WF) (t : U128) :
    convert.impl_TryFrom_TwoFloat_for_u128.try_from x = Except.ok t ↔ t.v = Int.tdiv x.V U ∧ t.inRange = true := by
  rw [(try_from_u128 x hx hw).1]; exact tryFromSpec_ok_iff t

/-! ## 5. floating-point conversions and the `num_traits` routes -/

/-- `f64::from(x)` is the high word -/
theorem to_f64 (x : TwoFloat) : convert.impl_From_TwoFloat_for_f64.from x = x.hi := rfl
theorem to_f64_ref (x : TwoFloat) : convert.impl_From_rTwoFloat_for_f64.from x = x.hi := rfl

/-- `f32::from(x)` is the high word rounded to binary32 -/
theorem to_f32 (x : TwoFloat) : convert.impl_From_TwoFloat_for_f32.from x = F64.toF32 x.hi := rfl
theorem to_f32_ref (x : TwoFloat) : convert.impl_From_rTwoFloat_for_f32.from x = F64.toF32 x.hi := rfl

/-- `TwoFloat::from(v: f64)` is the pair `(v, +0)` … -/
theorem from_f64 (v : F64) : convert.impl_From_f64_for_TwoFloat.from v = ⟨v, fin false 0⟩ := by
  unfold convert.impl_From_f64_for_TwoFloat.from; rw [f64lit_zero]; rfl

/-- … hence exact, and valid for every finite double -/
theorem from_f64_exact (v : F64) (hf : v.is_finite = true) (hw : v.WF) :
    (convert.impl_From_f64_for_TwoFloat.from v).V = v.toInt ∧
      (convert.impl_From_f64_for_TwoFloat.from v).Valid ∧
      TwoFloat.is_valid (convert.impl_From_f64_for_TwoFloat.from v) = true := by
  rw [from_f64]
  exact ⟨TwoFloat.V_pzero v, TwoFloat.valid_pzero hf hw, TwoFloat.is_valid_pzero hf⟩

/-- `TwoFloat::from(v: f32)` is the pair `(v as f64, +0)` (the widening `f32 → f64` is the identity on
the denoted value in this model) … -/
theorem from_f32 (v : F32) : convert.impl_From_f32_for_TwoFloat.from v = ⟨v.v, fin false 0⟩ := by
  unfold convert.impl_From_f32_for_TwoFloat.from; rw [f64lit_zero]; rfl

/-- … hence exact, and valid for every finite single -/
theorem from_f32_exact (v : F32) (hf : v.v.is_finite = true) (hw : v.v.WF) :
    (convert.impl_From_f32_for_TwoFloat.from v).V = v.v.toInt ∧
      (convert.impl_From_f32_for_TwoFloat.from v).Valid ∧
      TwoFloat.is_valid (convert.impl_From_f32_for_TwoFloat.from v) = true := by
  rw [from_f32]
  exact ⟨TwoFloat.V_pzero v.v, TwoFloat.valid_pzero hf hw, TwoFloat.is_valid_pzero hf⟩

/-- `f64::from(TwoFloat::from(v)) == v` bit for bit -/
theorem f64_round_trip (v : F64) :
    convert.impl_From_TwoFloat_for_f64.from (convert.impl_From_f64_for_TwoFloat.from v) = v := rfl

/-- the `TryFrom<&TwoFloat>` impls are the same functions -/
theorem try_from_ref_i8 (x : TwoFloat) : convert.impl_TryFrom_rTwoFloat_for_i8.try_from x =
    convert.impl_TryFrom_TwoFloat_for_i8.try_from x := rfl
theorem try_from_ref_i16 (x : TwoFloat) : convert.impl_TryFrom_rTwoFloat_for_i16.try_from x =
    convert.impl_TryFrom_TwoFloat_for_i16.try_from x := rfl
theorem try_from_ref_i32 (x : TwoFloat) : convert.impl_TryFrom_rTwoFloat_for_i32.try_from x =
    convert.impl_TryFrom_TwoFloat_for_i32.try_from x := rfl
theorem try_from_ref_i64 (x : TwoFloat) : convert.impl_TryFrom_rTwoFloat_for_i64.try_from x =
    convert.impl_TryFrom_TwoFloat_for_i64.try_from x := rfl
theorem try_from_ref_i128 (x : TwoFloat) : convert.impl_TryFrom_rTwoFloat_for_i128.try_from x =
    convert.impl_TryFrom_TwoFloat_for_i128.try_from x := rfl
theorem try_from_ref_u8 (x : TwoFloat) : convert.impl_TryFrom_rTwoFloat_for_u8.try_from x =
    convert.impl_TryFrom_TwoFloat_for_u8.try_from x := rfl
theorem try_from_ref_u16 (x : TwoFloat) : convert.impl_TryFrom_rTwoFloat_for_u16.try_from x =
    convert.impl_TryFrom_TwoFloat_for_u16.try_from x := rfl
theorem try_from_ref_u32 (x : TwoFloat) : convert.impl_TryFrom_rTwoFloat_for_u32.try_from x =
    convert.impl_TryFrom_TwoFloat_for_u32.try_from x := rfl
theorem try_from_ref_u64 (x : TwoFloat) : convert.impl_TryFrom_rTwoFloat_for_u64.try_from x =
    convert.impl_TryFrom_TwoFloat_for_u64.try_from x := rfl
theorem try_from_ref_u128 (x : TwoFloat) : convert.impl_TryFrom_rTwoFloat_for_u128.try_from x =
    convert.impl_TryFrom_TwoFloat_for_u128.try_from x := rfl
theorem try_from_ref_i64_pf (x : TwoFloat) : convert.impl_TryFrom_rTwoFloat_for_i64.try_from.pf x =
    convert.impl_TryFrom_TwoFloat_for_i64.try_from.pf x := rfl
theorem try_from_ref_i128_pf (x : TwoFloat) : convert.impl_TryFrom_rTwoFloat_for_i128.try_from.pf x =
    convert.impl_TryFrom_TwoFloat_for_i128.try_from.pf x := rfl
theorem try_from_ref_u64_pf (x : TwoFloat) : convert.impl_TryFrom_rTwoFloat_for_u64.try_from.pf x =
    convert.impl_TryFrom_TwoFloat_for_u64.try_from.pf x := rfl
theorem try_from_ref_u128_pf (x : TwoFloat) : convert.impl_TryFrom_rTwoFloat_for_u128.try_from.pf x =
    convert.impl_TryFrom_TwoFloat_for_u128.try_from.pf x := rfl

/-- the `ToPrimitive` / `FromPrimitive` impls are the same conversions -/
theorem to_i8_eq (x : TwoFloat) : num_integration.impl_ToPrimitive_for_TwoFloat.to_i8 x =
    (convert.impl_TryFrom_TwoFloat_for_i8.try_from x).toOption := rfl
theorem to_i16_eq (x : TwoFloat) : num_integration.impl_ToPrimitive_for_TwoFloat.to_i16 x =
    (convert.impl_TryFrom_TwoFloat_for_i16.try_from x).toOption := rfl
theorem to_i32_eq (x : TwoFloat) : num_integration.impl_ToPrimitive_for_TwoFloat.to_i32 x =
    (convert.impl_TryFrom_TwoFloat_for_i32.try_from x).toOption := rfl
theorem to_i64_eq (x : TwoFloat) : num_integration.impl_ToPrimitive_for_TwoFloat.to_i64 x =
    (convert.impl_TryFrom_TwoFloat_for_i64.try_from x).toOption := rfl
theorem to_i128_eq (x : TwoFloat) : num_integration.impl_ToPrimitive_for_TwoFloat.to_i128 x =
    (convert.impl_TryFrom_TwoFloat_for_i128.try_from x).toOption := rfl
theorem to_u8_eq (x : TwoFloat) : num_integration.impl_ToPrimitive_for_TwoFloat.to_u8 x =
    (convert.impl_TryFrom_TwoFloat_for_u8.try_from x).toOption := rfl
theorem to_u16_eq (x : TwoFloat) : num_integration.impl_ToPrimitive_for_TwoFloat.to_u16 x =
    (convert.impl_TryFrom_TwoFloat_for_u16.try_from x).toOption := rfl
theorem to_u32_eq (x : TwoFloat) : num_integration.impl_ToPrimitive_for_TwoFloat.to_u32 x =
    (convert.impl_TryFrom_TwoFloat_for_u32.try_from x).toOption := rfl
theorem to_u64_eq (x : TwoFloat) : num_integration.impl_ToPrimitive_for_TwoFloat.to_u64 x =
    (convert.impl_TryFrom_TwoFloat_for_u64.try_from x).toOption := rfl
theorem to_u128_eq (x : TwoFloat) : num_integration.impl_ToPrimitive_for_TwoFloat.to_u128 x =
    (convert.impl_TryFrom_TwoFloat_for_u128.try_from x).toOption := rfl
theorem to_isize_eq (x : TwoFloat) : num_integration.impl_ToPrimitive_for_TwoFloat.to_isize x =
    (convert.impl_TryFrom_TwoFloat_for_i64.try_from x).toOption.map (fun i => (RCast.cast i : Isize)) := rfl
theorem to_usize_eq (x : TwoFloat) : num_integration.impl_ToPrimitive_for_TwoFloat.to_usize x =
    (convert.impl_TryFrom_TwoFloat_for_u64.try_from x).toOption.map (fun i => (RCast.cast i : Usize)) := rfl
theorem to_f64_eq (x : TwoFloat) : num_integration.impl_ToPrimitive_for_TwoFloat.to_f64 x = some x.hi := rfl

theorem from_i8_eq' (n : I8) : num_integration.impl_FromPrimitive_for_TwoFloat.from_i8 n =
    some (convert.impl_From_i8_for_TwoFloat.from n) := rfl
theorem from_i16_eq' (n : I16) : num_integration.impl_FromPrimitive_for_TwoFloat.from_i16 n =
    some (convert.impl_From_i16_for_TwoFloat.from n) := rfl
theorem from_i32_eq' (n : I32) : num_integration.impl_FromPrimitive_for_TwoFloat.from_i32 n =
    some (convert.impl_From_i32_for_TwoFloat.from n) := rfl
theorem from_i64_eq' (n : I64) : num_integration.impl_FromPrimitive_for_TwoFloat.from_i64 n =
    some (convert.impl_From_i64_for_TwoFloat.from n) := rfl
theorem from_i128_eq' (n : I128) : num_integration.impl_FromPrimitive_for_TwoFloat.from_i128 n =
    some (convert.impl_From_i128_for_TwoFloat.from n) := rfl
theorem from_u8_eq' (n : U8) : num_integration.impl_FromPrimitive_for_TwoFloat.from_u8 n =
    some (convert.impl_From_u8_for_TwoFloat.from n) := rfl
theorem from_u16_eq' (n : U16) : num_integration.impl_FromPrimitive_for_TwoFloat.from_u16 n =
    some (convert.impl_From_u16_for_TwoFloat.from n) := rfl
theorem from_u32_eq' (n : U32) : num_integration.impl_FromPrimitive_for_TwoFloat.from_u32 n =
    some (convert.impl_From_u32_for_TwoFloat.from n) := rfl
theorem from_u64_eq' (n : U64) : num_integration.impl_FromPrimitive_for_TwoFloat.from_u64 n =
    some (convert.impl_From_u64_for_TwoFloat.from n) := rfl
theorem from_u128_eq' (n : U128) : num_integration.impl_FromPrimitive_for_TwoFloat.from_u128 n =
    some (convert.impl_From_u128_for_TwoFloat.from n) := rfl

/-! ## 6. the 8-bit types once more, by exhaustive kernel evaluation of the generated code

Independent of the general theorems above: the model is *evaluated* on all 256 values of each type. -/

set_option maxRecDepth 100000 in
theorem i8_table : (List.range 256).all (fun k =>
    TwoFloat.is_valid (convert.impl_From_i8_for_TwoFloat.from ⟨(k : Int) - 128⟩) &&
    decide ((convert.impl_From_i8_for_TwoFloat.from ⟨(k : Int) - 128⟩).V = ((k : Int) - 128) * U) &&
    decide (convert.impl_TryFrom_TwoFloat_for_i8.try_from
      (convert.impl_From_i8_for_TwoFloat.from ⟨(k : Int) - 128⟩) = Except.ok ⟨(k : Int) - 128⟩)) = true := by
  decide +kernel

set_option maxRecDepth 100000 in
theorem u8_table : (List.range 256).all (fun k =>
    TwoFloat.is_valid (convert.impl_From_u8_for_TwoFloat.from ⟨(k : Int)⟩) &&
    decide ((convert.impl_From_u8_for_TwoFloat.from ⟨(k : Int)⟩).V = (k : Int) * U) &&
    decide (convert.impl_TryFrom_TwoFloat_for_u8.try_from
      (convert.impl_From_u8_for_TwoFloat.from ⟨(k : Int)⟩) = Except.ok ⟨(k : Int)⟩)) = true := by
  decide +kernel

/-- every `i8`: valid, exact, round trip — from the table -/
theorem i8_all (n : I8) (h : n.inRange = true) :
    TwoFloat.is_valid (convert.impl_From_i8_for_TwoFloat.from n) = true ∧
    (convert.impl_From_i8_for_TwoFloat.from n).V = n.v * U ∧
    convert.impl_TryFrom_TwoFloat_for_i8.try_from (convert.impl_From_i8_for_TwoFloat.from n) = Except.ok n := by
  obtain ⟨h1, h2⟩ := IntN.fits_iff.1 h
  have e1 : IntN.minV true 8 = -128 := by decide
  have e2 : IntN.maxV true 8 = 127 := by decide
  rw [e1] at h1; rw [e2] at h2
  have hk : (n.v + 128).toNat ∈ List.range 256 := List.mem_range.2 (by omega)
  have := List.all_eq_true.1 i8_table _ hk
  have e : (((n.v + 128).toNat : Nat) : Int) - 128 = n.v := by omega
  rcases n with ⟨v⟩
  simp only at e
  rw [e] at this
  simpa [and_assoc] using this

/-- every `u8`: valid, exact, round trip — from the table -/
theorem u8_all (n : U8) (h : n.inRange = true) :
    TwoFloat.is_valid (convert.impl_From_u8_for_TwoFloat.from n) = true ∧
    (convert.impl_From_u8_for_TwoFloat.from n).V = n.v * U ∧
    convert.impl_TryFrom_TwoFloat_for_u8.try_from (convert.impl_From_u8_for_TwoFloat.from n) = Except.ok n := by
  obtain ⟨h1, h2⟩ := IntN.fits_iff.1 h
  have e1 : IntN.minV false 8 = 0 := by decide
  have e2 : IntN.maxV false 8 = 255 := by decide
  rw [e1] at h1; rw [e2] at h2
  have hk : (n.v).toNat ∈ List.range 256 := List.mem_range.2 (by omega)
  have := List.all_eq_true.1 u8_table _ hk
  have e : (((n.v).toNat : Nat) : Int) = n.v := by omega
  rcases n with ⟨v⟩
  simp only at e
  rw [e] at this
  simpa [and_assoc] using this

/-! ## non-vacuity: the hypotheses are satisfiable and the statements bite on concrete values -/

section Examples

local instance (t : TwoFloat) : Decidable t.WF := by unfold TwoFloat.WF; infer_instance

/-- small types: extreme values are in range, the conversion is literally `(n, +0)` -/
example : ExactInt (convert.impl_From_i32_for_TwoFloat.from ⟨-2147483648⟩) (-2147483648) :=
  from_i32 _ (by decide)
example : convert.impl_From_i32_for_TwoFloat.from ⟨-2147483648⟩ = ⟨fin true (2 ^ 31 * F64.unit), fin false 0⟩ := by
  decide +kernel
example : ExactInt (convert.impl_From_u8_for_TwoFloat.from ⟨255⟩) 255 := from_u8 _ (by decide)
example : convert.impl_TryFrom_TwoFloat_for_i8.try_from (convert.impl_From_i8_for_TwoFloat.from ⟨-128⟩) =
    Except.ok ⟨-128⟩ := round_trip_i8 _ (by decide)

/-- `i64::MAX = 2^63 - 1` needs both words: `(2^63, -1)` -/
example : ExactBig (convert.impl_From_i64_for_TwoFloat.from ⟨2 ^ 63 - 1⟩) (2 ^ 63 - 1) := from_i64 _ (by decide)
example : convert.impl_From_i64_for_TwoFloat.from ⟨2 ^ 63 - 1⟩ = ⟨fin false (2 ^ 63 * F64.unit), fin true F64.unit⟩ ∧
    convert.impl_From_i64_for_TwoFloat.from.pf ⟨2 ^ 63 - 1⟩ = true := by decide +kernel
example : convert.impl_From_i64_for_TwoFloat.from ⟨-2 ^ 63⟩ = ⟨fin true (2 ^ 63 * F64.unit), fin false 0⟩ ∧
    convert.impl_From_i64_for_TwoFloat.from.pf ⟨-2 ^ 63⟩ = true := by decide +kernel
example : ExactBig (convert.impl_From_u64_for_TwoFloat.from ⟨2 ^ 64 - 1⟩) (2 ^ 64 - 1) := from_u64 _ (by decide)
example : convert.impl_TryFrom_TwoFloat_for_i64.try_from (convert.impl_From_i64_for_TwoFloat.from ⟨2 ^ 63 - 1⟩) =
    Except.ok ⟨2 ^ 63 - 1⟩ := round_trip_i64 _ (by decide)
example : convert.impl_TryFrom_TwoFloat_for_u64.try_from (convert.impl_From_u64_for_TwoFloat.from ⟨2 ^ 64 - 1⟩) =
    Except.ok ⟨2 ^ 64 - 1⟩ := by decide +kernel

/-- a 128-bit value with exactly 106 significant bits: `(2^106 - 1)·2^21 = 2^127 - 2^21` -/
example : SigBits106 ((2 ^ 106 - 1) * 2 ^ 21) := ⟨2 ^ 106 - 1, 21, by decide, by decide⟩
example : ExactBig (convert.impl_From_i128_for_TwoFloat.from ⟨(2 ^ 106 - 1) * 2 ^ 21⟩) ((2 ^ 106 - 1) * 2 ^ 21) :=
  from_i128_exact _ (by decide) ⟨2 ^ 106 - 1, 21, by decide, by decide⟩
example : convert.impl_TryFrom_TwoFloat_for_i128.try_from
    (convert.impl_From_i128_for_TwoFloat.from ⟨(2 ^ 106 - 1) * 2 ^ 21⟩) = Except.ok ⟨(2 ^ 106 - 1) * 2 ^ 21⟩ :=
  round_trip_i128 _ (by decide) ⟨2 ^ 106 - 1, 21, by decide, by decide⟩

/-- the former defect input (remainder tie; 126 significant bits): now a valid pair, inexact by `2^-126` -/
example : TwoFloat.is_valid (convert.impl_From_i128_for_TwoFloat.from ⟨85070591730234601698744203249006411777⟩) = true := by
  decide +kernel
example : ApproxBig (convert.impl_From_i128_for_TwoFloat.from ⟨85070591730234601698744203249006411777⟩)
    85070591730234601698744203249006411777 := from_i128_approx _ (by decide)
example : (convert.impl_From_i128_for_TwoFloat.from ⟨85070591730234601698744203249006411777⟩).V =
    (85070591730234601698744203249006411777 - 1) * U ∧
    convert.impl_From_i128_for_TwoFloat.from.pf ⟨85070591730234601698744203249006411777⟩ = true := by decide +kernel
/-- `i128::MAX` and `u128::MAX` (127 / 128 significant bits) -/
example : TwoFloat.is_valid (convert.impl_From_i128_for_TwoFloat.from ⟨2 ^ 127 - 1⟩) = true ∧
    convert.impl_From_i128_for_TwoFloat.from.pf ⟨2 ^ 127 - 1⟩ = true ∧
    TwoFloat.is_valid (convert.impl_From_u128_for_TwoFloat.from ⟨2 ^ 128 - 1⟩) = true ∧
    convert.impl_From_u128_for_TwoFloat.from.pf ⟨2 ^ 128 - 1⟩ = true := by decide +kernel

/-- `2^53 - 1/2 = (2^53, -1/2)`: a valid pair whose truncation `2^53 - 1` needs the low word -/
private def x1 : TwoFloat := ⟨fin false (2 ^ 53 * F64.unit), fin true (2 ^ 1073)⟩
example : x1.Valid ∧ x1.WF ∧ Int.tdiv x1.V U = 2 ^ 53 - 1 := by decide +kernel
example : convert.impl_TryFrom_TwoFloat_for_i64.try_from x1 = Except.ok ⟨2 ^ 53 - 1⟩ := by
  rw [(try_from_i64 x1 (by decide +kernel) (by decide +kernel)).1]; decide +kernel
example : convert.impl_TryFrom_TwoFloat_for_i32.try_from x1 = Except.error TwoFloatError.ConversionError := by
  rw [try_from_i32 x1 (by decide +kernel) (by decide +kernel)]; decide +kernel

/-- `-0.5` truncates to `0`, in range even for unsigned types; `-1.5` to `-1`, out of range for `u8` -/
private def x2 : TwoFloat := ⟨fin true (2 ^ 1073), fin false 0⟩
private def x3 : TwoFloat := ⟨fin true (3 * 2 ^ 1073), fin false 0⟩
example : x2.Valid ∧ x2.WF ∧ x3.Valid ∧ x3.WF := by decide +kernel
example : convert.impl_TryFrom_TwoFloat_for_u8.try_from x2 = Except.ok ⟨0⟩ ∧
    convert.impl_TryFrom_TwoFloat_for_u8.try_from x3 = Except.error TwoFloatError.ConversionError ∧
    convert.impl_TryFrom_TwoFloat_for_i8.try_from x3 = Except.ok ⟨-1⟩ ∧
    convert.impl_TryFrom_TwoFloat_for_u64.try_from x3 = Except.error TwoFloatError.ConversionError ∧
    convert.impl_TryFrom_TwoFloat_for_i128.try_from x3 = Except.ok ⟨-1⟩ := by decide +kernel

/-- non-finite inputs -/
example : convert.impl_TryFrom_TwoFloat_for_i32.try_from TwoFloat.NAN = Except.error TwoFloatError.ConversionError :=
  (try_from_small_not_finite TwoFloat.NAN rfl).2.2.1
example : convert.impl_TryFrom_TwoFloat_for_u128.try_from TwoFloat.INFINITY =
    Except.error TwoFloatError.ConversionError :=
  (try_from_big_not_finite TwoFloat.INFINITY rfl).2.2.2.1
example : convert.impl_TryFrom_TwoFloat_for_i64.try_from ⟨F64.inf true, F64.fin false 12345⟩ =
    Except.error TwoFloatError.ConversionError :=
  (try_from_big_not_finite _ rfl).1.1

/-- floats -/
example : convert.impl_From_TwoFloat_for_f32.from consts.PI = ⟨fin false (13176795 * 2 ^ 1052)⟩ := by
  decide +kernel
example : (convert.impl_From_f64_for_TwoFloat.from F64.MAX).Valid :=
  (from_f64_exact F64.MAX rfl (by decide +kernel)).2.1

end Examples

end C09
