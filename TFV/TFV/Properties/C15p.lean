/-
C15p — panic-freedom of the logarithms: ln, log, log10 (Newton iterations on `exp`), log2 (Newton on `exp2`), ln_1p
(Newton on `exp_m1`), plus the table `log2(2^k) = k` on a documented set of exponents.

`log2` is panic-free on EVERY argument.  `ln` calls `exp` three times on `-x₀, -x₁, -x₂` where
`x₀ = libm::log(hi)` and `xᵢ₊₁ = xᵢ + (self·exp(-xᵢ) - 1)`; these arguments are accumulated double-doubles, and `exp`
is panic-free on every argument satisfying the C01 invariant (valid, or non-finite high word).  That the iterates
satisfy the invariant follows from C01 for `+ - ×`, and for `exp` itself from C01 plus ONE closed finite fact,
`PF.ExpHalfRecipInv` (the reciprocals `1.0 / exp_half(m)`, `1 ≤ m ≤ 1439`, satisfy the invariant — `f64 / TwoFloat`
is the operator whose invariant is open in C01 in general).  Results relative to it are named `_partial`; the fact
itself is proved in `C14p.expHalfRecipInv`, so `ln_pf`, `log_pf`, `log10_pf` below are unconditional.
-/
import TFV.Lemmas.PanicFree
import TFV.Properties.C14p

set_option exponentiation.threshold 3000
set_option maxRecDepth 100000

namespace C15p
open F64 TwoFloat

/-- **`log2` never panics, on ANY argument** -/
theorem log2_pf (x : TwoFloat) : TwoFloat.log2.pf x = true := PF.log2_pf x

/-- `ln` never panics on an argument satisfying the invariant (in particular on every valid one) -/
theorem ln_pf_partial (HR : PF.ExpHalfRecipInv) (x : TwoFloat) (hi : x.Inv) (hw : x.WF) :
    TwoFloat.ln.pf x = true := PF.ln_pf HR x ⟨hi, hw⟩

/-- the first of the three `exp` calls of `ln` is unconditionally panic-free: its argument is `(-libm::log(hi), -0)` -/
theorem ln_pf_first_call (x : TwoFloat) (hw : x.WF) :
    TwoFloat.exp.pf (arithmetic.impl_Neg_for_TwoFloat.neg
      (convert.impl_From_f64_for_TwoFloat.from (Libm.log x.hi))) = true :=
  PF.exp_pf_good (PF.good_neg (PF.good_from (PF.libm_log_WF hw.1)))

/-- `ln` preserves the invariant -/
theorem ln_inv_partial (HR : PF.ExpHalfRecipInv) (x : TwoFloat) (hi : x.Inv) (hw : x.WF) :
    (TwoFloat.ln x).Inv ∧ (TwoFloat.ln x).WF := PF.good_ln HR ⟨hi, hw⟩

theorem log_pf_partial (HR : PF.ExpHalfRecipInv) (x b : TwoFloat) (hx : x.Inv) (hwx : x.WF)
    (hb : b.Inv) (hwb : b.WF) : TwoFloat.log.pf x b = true := PF.log_pf HR x b ⟨hx, hwx⟩ ⟨hb, hwb⟩

theorem log10_pf_partial (HR : PF.ExpHalfRecipInv) (x : TwoFloat) (hi : x.Inv) (hw : x.WF) :
    TwoFloat.log10.pf x = true := PF.log10_pf HR x ⟨hi, hw⟩

/-- `ln_1p`: for `−1 < x ≤ −0.5` the call `(1.0 + x).ln()` (panic-free on every argument satisfying the invariant:
`f64 + TwoFloat` preserves it, C01); otherwise two calls of `exp_m1`, the second on `x₀ - (e - self)/(e + 1)`.
PARTIAL: the quotient (`TwoFloat / TwoFloat`, invariant open in C01) is assumed to satisfy the invariant. -/
theorem ln_1p_pf_partial (x : TwoFloat) (hi : x.Inv) (hw : x.WF)
    (hq : let x0 := convert.impl_From_f64_for_TwoFloat.from (Libm.log1p x.hi)
          let e := TwoFloat.exp_m1 x0
          (arithmetic.impl_Div_TwoFloat_for_TwoFloat.div (arithmetic.impl_Sub_TwoFloat_for_TwoFloat.sub e x)
            (arithmetic.impl_Add_f64_for_TwoFloat.add e (f64lit 0x3ff0000000000000))).Inv) :
    TwoFloat.ln_1p.pf x = true := by
  unfold TwoFloat.ln_1p.pf
  split_ifs
  · rfl
  · rfl
  · exact PF.ln_pf C14p.expHalfRecipInv _ (C01.add_f64_tf_inv (f64lit 0x3ff0000000000000) hw PF.lit_one_WF hi)
  · dsimp only at hq ⊢
    have h0 : PF.Good (convert.impl_From_f64_for_TwoFloat.from (Libm.log1p x.hi)) :=
      PF.good_from (PF.libm_log1p_WF hw.1)
    rw [PF.exp_m1_pf _ h0, PF.exp_m1_pf _ (PF.good_sub_assign_tt h0 ⟨hq, PF.div_tt_WF _ _⟩)]
    rfl

/-- the trait entry points -/
theorem Float_log2_pf (x : TwoFloat) : num_integration.impl_Float_for_TwoFloat.log2.pf x = true := PF.log2_pf x
theorem Float_ln_pf_partial (HR : PF.ExpHalfRecipInv) (x : TwoFloat) (hi : x.Inv) (hw : x.WF) :
    num_integration.impl_Float_for_TwoFloat.ln.pf x = true := PF.ln_pf HR x ⟨hi, hw⟩


/-! ### unconditional statements (`PF.ExpHalfRecipInv` is proved in `C14p.expHalfRecipInv`) -/

/-- **`ln` never panics** on an argument satisfying the invariant — in particular on every valid argument -/
theorem ln_pf (x : TwoFloat) (hi : x.Inv) (hw : x.WF) : TwoFloat.ln.pf x = true :=
  ln_pf_partial C14p.expHalfRecipInv x hi hw

theorem ln_pf_valid (x : TwoFloat) (hv : x.Valid) (hw : x.WF) : TwoFloat.ln.pf x = true :=
  ln_pf x (Or.inl hv) hw

/-- **`ln` preserves the invariant** -/
theorem ln_inv (x : TwoFloat) (hi : x.Inv) (hw : x.WF) : (TwoFloat.ln x).Inv ∧ (TwoFloat.ln x).WF :=
  ln_inv_partial C14p.expHalfRecipInv x hi hw

/-- **`log` never panics** -/
theorem log_pf (x b : TwoFloat) (hx : x.Inv) (hwx : x.WF) (hb : b.Inv) (hwb : b.WF) :
    TwoFloat.log.pf x b = true := log_pf_partial C14p.expHalfRecipInv x b hx hwx hb hwb

/-- **`log10` never panics** -/
theorem log10_pf (x : TwoFloat) (hi : x.Inv) (hw : x.WF) : TwoFloat.log10.pf x = true :=
  log10_pf_partial C14p.expHalfRecipInv x hi hw

theorem Float_ln_pf (x : TwoFloat) (hi : x.Inv) (hw : x.WF) :
    num_integration.impl_Float_for_TwoFloat.ln.pf x = true := ln_pf x hi hw
theorem Float_log_pf (x b : TwoFloat) (hx : x.Inv) (hwx : x.WF) (hb : b.Inv) (hwb : b.WF) :
    num_integration.impl_Float_for_TwoFloat.log.pf x b = true := log_pf x b hx hwx hb hwb
theorem Float_log10_pf (x : TwoFloat) (hi : x.Inv) (hw : x.WF) :
    num_integration.impl_Float_for_TwoFloat.log10.pf x = true := log10_pf x hi hw

/-! ### closed instances -/

example : TwoFloat.ln.pf ⟨f64lit 0x4024000000000000, f64lit 0x0000000000000000⟩ = true := by decide +kernel
example : TwoFloat.ln_1p.pf ⟨f64lit 0x3fe0000000000000, f64lit 0x0000000000000000⟩ = true := by decide +kernel


/-! ### `log2(2^k) = k` for EVERY normal power of two, by proof (exact values; zero signs not tracked)

`libm::log2` returns exactly `k` on `2^k` (the reduced argument is `1.0`, every correction term is `+0`), the Newton
correction `(self·exp2(-x) - 1)/ln 2` is exactly zero by `C14p.exp2_int_value_gen`, so both iterations return `x`. -/

/-- bit pattern of the normal double `2^(s-1022)`, `s ≥ 0`: exponent field `s + 1`, zero mantissa -/
theorem to_bits_pow2 (s : Nat) : (fin false (2 ^ 52 * 2 ^ s)).to_bits_nat = (s + 1) * 2 ^ 52 := by
  rw [F64.Bits.to_bits_nat_normal false (le_refl _) (by decide)]
  simp

theorem reduce_pow2 (e : Nat) :
    Libm.reduce (e * 2 ^ 52) = ((e : Int) - 1023, f64lit 0x3ff0000000000000) := by
  unfold Libm.reduce
  simp only [Nat.reducePow, Nat.reduceSub]
  have h52 : e * 4503599627370496 = e * 1048576 * 4294967296 := by rw [Nat.mul_assoc]
  have a1 : e * 4503599627370496 / 4294967296 = e * 1048576 := by
    rw [h52]; exact Nat.mul_div_cancel _ (by decide)
  have a2 : (e * 1048576 + 614242) / 1048576 = e := by
    rw [Nat.add_comm, Nat.add_mul_div_right _ _ (by decide)]; simp
  have a3 : (e * 1048576 + 614242) % 1048576 = 614242 := by
    rw [Nat.add_comm, Nat.add_mul_mod_self_right]
  have a4 : e * 4503599627370496 % 4294967296 = 0 := by
    rw [h52]; exact Nat.mul_mod_left _ _
  simp only [a1, a2, a3, a4]
  rfl


/-- the part of `libm::log2` that depends only on the reduced argument `x ∈ [√2/2, √2]` -/
def lg2parts (x : F64) : F64 × F64 :=
  let f := F64.sub x Libm.c1
  let (hfsq, s, r) := Libm.kernel f
  let hi0 := F64.sub f hfsq
  let hi := F64.from_bits_nat (hi0.to_bits_nat / 2^32 * 2^32)
  let lo := F64.add (F64.sub (F64.sub f hi) hfsq) (F64.mul s (F64.add hfsq r))
  let val_hi := F64.mul hi Libm.IVLN2HI
  let val_lo := F64.add (F64.mul (F64.add lo hi) Libm.IVLN2LO) (F64.mul lo Libm.IVLN2HI)
  (val_hi, val_lo)

theorem log2_go_eq (k0 : Int) (ui : Nat) :
    Libm.log2.go k0 ui =
      (let y := F64.ofInt (k0 + (Libm.reduce ui).1)
       let w := F64.add y (lg2parts (Libm.reduce ui).2).1
       F64.add (F64.add (lg2parts (Libm.reduce ui).2).2 (F64.add (F64.sub y w) (lg2parts (Libm.reduce ui).2).1)) w) := rfl

theorem lg2parts_one : lg2parts (f64lit 0x3ff0000000000000) = (fin false 0, fin false 0) := by decide +kernel

/-- `libm::log2(2^k) = k` exactly (value), for the normal powers of two other than 1 -/
theorem libm_log2_pow2 (s : Nat) (h2 : s ≤ 2045) :
    IsVal (Libm.log2 (fin false (2 ^ 52 * 2 ^ s))) (((s : Int) - 1022) * (F64.unit : Int)) := by
  unfold Libm.log2
  dsimp only
  rw [to_bits_pow2 s]
  simp only [Nat.reducePow]
  have h52 : (s + 1) * 4503599627370496 = (s + 1) * 1048576 * 4294967296 := by rw [Nat.mul_assoc]
  have a1 : (s + 1) * 4503599627370496 / 4294967296 = (s + 1) * 1048576 := by
    rw [h52]; exact Nat.mul_div_cancel _ (by decide)
  have a4 : (s + 1) * 4503599627370496 % 4294967296 = 0 := by
    rw [h52]; exact Nat.mul_mod_left _ _
  rw [a1, a4]
  have n1 : ¬ ((s + 1) * 1048576 < 1048576 ∨ (s + 1) * 1048576 / 2147483648 > 0) := by omega
  have n2 : ¬ ((s + 1) * 1048576 ≥ 2146435072) := by omega
  rw [if_neg n1, if_neg n2]
  by_cases hs : s = 1022
  · subst hs
    rw [if_pos ⟨by decide, rfl⟩]
    exact ⟨rfl, by decide +kernel⟩
  · rw [if_neg (by omega)]
    have hr := reduce_pow2 (s + 1)
    simp only [Nat.reducePow] at hr
    rw [log2_go_eq, hr, lg2parts_one]
    dsimp only
    have hk : (0 : Int) + (((s + 1 : Nat) : Int) - 1023) = (s : Int) - 1022 := by push_cast; ring
    rw [hk]
    obtain ⟨eK, hKi, hKw⟩ := F64.ofInt_exact_of_lt ((s : Int) - 1022) (by omega)
    have hKf : (F64.ofInt ((s : Int) - 1022)).is_finite = true := by rw [eK]; rfl
    generalize F64.ofInt ((s : Int) - 1022) = y at hKi hKw hKf ⊢
    have hy : IsVal y (((s : Int) - 1022) * (F64.unit : Int)) := ⟨hKf, hKi⟩
    generalize ((s : Int) - 1022) * (F64.unit : Int) = v at hy ⊢
    have hz : IsVal (fin false 0) 0 := IsVal.zero false
    have hvr : RepI v := hy.repI hKw
    have hvm : |v| ≤ (maxFin : Int) := hy.abs_le hKw
    have hw : IsVal (F64.add y (fin false 0)) v := by
      have := hy.add_exact hz (by rw [add_zero]; exact hvr) (by rw [add_zero]; exact hvm)
      rwa [add_zero] at this
    have hd : IsVal (F64.sub y (F64.add y (fin false 0))) 0 := by
      have := hy.sub_exact hw (by rw [sub_self]; exact repI_zero) (by rw [sub_self]; exact abs_zero_le_maxFin)
      rwa [sub_self] at this
    have h3 : IsVal (F64.add (F64.sub y (F64.add y (fin false 0))) (fin false 0)) 0 := by
      have := hd.add_exact hz (by rw [add_zero]; exact repI_zero) (by rw [add_zero]; exact abs_zero_le_maxFin)
      rwa [add_zero] at this
    have h4 : IsVal (F64.add (fin false 0) (F64.add (F64.sub y (F64.add y (fin false 0))) (fin false 0))) 0 := by
      have := hz.add_exact h3 (by rw [add_zero]; exact repI_zero) (by rw [add_zero]; exact abs_zero_le_maxFin)
      rwa [add_zero] at this
    have := h4.add_exact hw (by rw [zero_add]; exact hvr) (by rw [zero_add]; exact hvm)
    rwa [zero_add] at this

open C14p in
/-- one Newton step of `log2` at an exact power of two: `x + (self·exp2(-x) - 1)·(1/ln 2) = x` -/
theorem log2_step_pow2 (self x : TwoFloat) (s : Nat) (hs : s ≤ 2045)
    (hself : IsP self ((2 ^ (s + 52) : Nat) : Int) 0)
    (hx : IsP x (((s : Int) - 1022) * (F64.unit : Int)) 0) :
    IsP (arithmetic.impl_Add_TwoFloat_for_TwoFloat.add x
      (arithmetic.impl_Mul_TwoFloat_for_TwoFloat.mul
        (arithmetic.impl_Sub_f64_for_TwoFloat.sub
          (arithmetic.impl_Mul_TwoFloat_for_TwoFloat.mul self
            (TwoFloat.exp2 (arithmetic.impl_Neg_for_TwoFloat.neg x)))
          (f64lit 0x3ff0000000000000))
        explog.FRAC_1_LN_2)) (((s : Int) - 1022) * (F64.unit : Int)) 0 := by
  obtain ⟨x1, x2, xv, xw⟩ := hx
  -- -x
  have hnx : IsP (arithmetic.impl_Neg_for_TwoFloat.neg x) ((-((s : Int) - 1022)) * (F64.unit : Int)) 0 := by
    refine ⟨?_, ?_, xv.neg xw.1, TwoFloat.neg_WF' xw⟩
    · show (F64.neg x.hi).toInt = _; rw [toInt_neg, x1]; ring
    · show (F64.neg x.lo).toInt = _; rw [toInt_neg, x2]; ring
  -- exp2(-x) = 2^-k
  have he := exp2_int_value_gen _ _ hnx (by omega) (by omega)
  have hexp : (-((s : Int) - 1022) + 1074).toNat = 2096 - s := by omega
  rw [hexp] at he
  generalize TwoFloat.exp2 (arithmetic.impl_Neg_for_TwoFloat.neg x) = e at he
  -- self * e = 1
  have hm : IsP (arithmetic.impl_Mul_TwoFloat_for_TwoFloat.mul self e) (F64.unit : Int) 0 := by
    have hH : (((2 ^ (s + 52) : Nat) : Int)) * ((2 ^ (2096 - s) : Nat) : Int) = (F64.unit : Int) * (F64.unit : Int) := by
      have hN : 2 ^ (s + 52) * 2 ^ (2096 - s) = F64.unit * F64.unit := by
        rw [F64.unit_eq, ← Nat.pow_add, ← Nat.pow_add]; congr 1; omega
      exact_mod_cast hN
    have hc : NormPair (F64.unit : Int) 0 :=
      ⟨repI_unit, abs_unit_le_maxFin, repI_zero, abs_zero_le_maxFin, by rw [add_zero, rnI_of_repI repI_unit]⟩
    have h := mul_tt_isV_right_fixed (x := self) (y := e) ⟨⟨hself.2.2.1.1, hself.1⟩, ⟨hself.2.2.1.2.1, hself.2.1⟩⟩
      ⟨⟨he.2.2.1.1, he.1⟩, ⟨he.2.2.1.2.1, he.2.1⟩⟩ hH (by rw [zero_mul, zero_mul]) hc
    have hp := h.package (mul_tt_WF self e) hc.2.2.2.2
    exact ⟨hp.1, hp.2.1, hp.2.2.2.1, hp.2.2.2.2⟩
  generalize arithmetic.impl_Mul_TwoFloat_for_TwoFloat.mul self e = m at hm
  -- m - 1 = 0
  have hone : IsVal (f64lit 0x3ff0000000000000) (F64.unit : Int) := ⟨by decide +kernel, c0_words.1⟩
  have hd : IsP (arithmetic.impl_Sub_f64_for_TwoFloat.sub m (f64lit 0x3ff0000000000000)) 0 0 := by
    have hS : m.hi.toInt - (F64.unit : Int) = 0 := by rw [hm.1]; ring
    have e0 : m.hi.toInt - (F64.unit : Int) + m.lo.toInt = 0 := by rw [hS, hm.2.1]; ring
    have := sub_tf_isV (IsV.of_valid hm.2.2.1) hone hm.2.2.2 PF.lit_one_WF
      (by rw [hS]; exact repI_zero) (by rw [hS]; exact abs_zero_le_maxFin)
      (by rw [e0, rnI_zero]; exact abs_zero_le_maxFin)
      (by rw [e0, rnI_zero, hS, sub_zero]; exact repI_zero)
      (by rw [e0, rnI_zero, hS, sub_zero]; exact abs_zero_le_maxFin)
    rw [e0, rnI_zero, sub_zero] at this
    have hp := this.package (sub_tf_WF m _) (by rw [add_zero, rnI_zero])
    exact ⟨hp.1, hp.2.1, hp.2.2.2.1, hp.2.2.2.2⟩
  -- times 1/ln 2: still 0; x + 0 = x
  obtain ⟨-, -, t3, t4, -⟩ := C04x.mul_tt_zero_left _ explog.FRAC_1_LN_2 hd.2.2.1 (by rw [hd.V]; ring)
    (by decide +kernel) (by decide +kernel)
  obtain ⟨a1, a2, -, a4, a5⟩ := C03x.add_tt_zero_right x _ xv xw t4 t3
  exact ⟨a1.trans x1, a2.trans x2, a4, a5⟩


open C14p in
/-- **`log2(2^k) = k` for EVERY normal power of two** (`-1022 ≤ k ≤ 1023`, written `k = s - 1022`), at the level
of exact values: the result is a valid pair with high word `k` and a zero low word -/
theorem log2_pow2_value (s : Nat) (hs : s ≤ 2045) :
    IsP (TwoFloat.log2 ⟨fin false (2 ^ 52 * 2 ^ s), fin false 0⟩) (((s : Int) - 1022) * (F64.unit : Int)) 0 := by
  have hPw : (fin false (2 ^ 52 * 2 ^ s)).WF := by
    refine ⟨rep_mul_pow2 s (rep_two_pow 52), ?_⟩
    rw [← Nat.pow_add]
    exact le_trans (Nat.pow_le_pow_right (by decide) (by omega : 52 + s ≤ 2097)) two_pow_2097_le_maxFin
  have hPv : (fin false (2 ^ 52 * 2 ^ s)).toInt = ((2 ^ (s + 52) : Nat) : Int) := by
    show ((2 ^ 52 * 2 ^ s : Nat) : Int) = _
    rw [← Nat.pow_add, Nat.add_comm]
  have hself : IsP (⟨fin false (2 ^ 52 * 2 ^ s), fin false 0⟩ : TwoFloat) ((2 ^ (s + 52) : Nat) : Int) 0 :=
    ⟨hPv, toInt_zero false, (pair_zero_spec rfl hPw).2.1, hPw, WF_zero false⟩
  generalize hx : (⟨fin false (2 ^ 52 * 2 ^ s), fin false 0⟩ : TwoFloat) = self at hself ⊢
  have hhi : self.hi = fin false (2 ^ 52 * 2 ^ s) := by rw [← hx]
  have hlo : self.lo = fin false 0 := by rw [← hx]
  have hone : IsVal (f64lit 0x3ff0000000000000) (F64.unit : Int) := ⟨by decide +kernel, c0_words.1⟩
  have hUpos : 0 < F64.unit := F64.unit_pos
  unfold TwoFloat.log2
  by_cases hs0 : s = 1022
  · -- self = 1: the shortcut
    have he : base.impl_PartialEq_f64_for_TwoFloat.eq self (f64lit 0x3ff0000000000000) = true := by
      unfold base.impl_PartialEq_f64_for_TwoFloat.eq
      rw [hlo, hhi, hs0]; decide +kernel
    rw [he, if_pos rfl, hs0]
    have : (((1022 : Nat) : Int) - 1022) * (F64.unit : Int) = 0 := by push_cast; ring
    rw [this]
    exact ⟨by decide +kernel, by decide +kernel, by decide +kernel, by decide +kernel⟩
  · have he : base.impl_PartialEq_f64_for_TwoFloat.eq self (f64lit 0x3ff0000000000000) = false := by
      unfold base.impl_PartialEq_f64_for_TwoFloat.eq
      rw [Bool.and_eq_false_iff]; left
      rw [req_eq, Bool.eq_false_iff]
      intro hc
      have := (eq_iff_toInt hself.2.2.1.1 hone.1).1 hc
      rw [hself.1, hone.2, F64.unit_eq] at this
      have h2 : 2 ^ (s + 52) = 2 ^ 1074 := by exact_mod_cast this
      have := Nat.pow_right_injective (le_refl 2) h2
      omega
    have hle : ROrd.isLe (base.impl_PartialOrd_f64_for_TwoFloat.partial_cmp self (f64lit 0x0000000000000000)) = false := by
      rw [f64lit_zero, partial_cmp_tf_exact_of F64.roundFacts hself.2.2.1 (WF_zero false) rfl, Bool.eq_false_iff]
      intro hc
      have := ROrd.isLe_ofInts.1 hc
      rw [hself.V, toInt_zero, add_zero] at this
      have hp : 0 < 2 ^ (s + 52) := Nat.two_pow_pos _
      have : ((2 ^ (s + 52) : Nat) : Int) ≤ 0 := this
      omega
    rw [he, hle, if_neg Bool.false_ne_true, if_neg Bool.false_ne_true]
    -- the seed
    have hL := libm_log2_pow2 s hs
    have hLw : (Libm.log2 self.hi).WF := PF.libm_log2_WF hself.2.2.2.1
    rw [← hhi] at hL
    have hx0 : IsP (convert.impl_From_f64_for_TwoFloat.from (Libm.log2 self.hi))
        (((s : Int) - 1022) * (F64.unit : Int)) 0 := by
      rw [from_eq]
      exact ⟨hL.2, toInt_zero false, (pair_zero_spec hL.1 hLw).2.1, hLw, WF_zero false⟩
    exact log2_step_pow2 self _ s hs hself (log2_step_pow2 self _ s hs hself hx0)


/-- the same, indexed by the exponent `k` -/
theorem log2_pow2_value' (k : Int) (h1 : -1022 ≤ k) (h2 : k ≤ 1023) :
    C14p.IsP (TwoFloat.log2 ⟨fin false (2 ^ (k + 1074).toNat), fin false 0⟩) (k * (F64.unit : Int)) 0 := by
  obtain ⟨s, hs⟩ : ∃ s : Nat, k + 1022 = (s : Int) := ⟨(k + 1022).toNat, by omega⟩
  have e1 : (k + 1074).toNat = 52 + s := by omega
  have e2 : k = (s : Int) - 1022 := by omega
  rw [e1, Nat.pow_add, e2]
  exact log2_pow2_value s (by omega)

/-! ### `log2(2^k) = (k, +0)` bit for bit (including the sign of the zero), by kernel evaluation

One instance is one kernel evaluation of `libm::log2` and of two complete `exp2` (≈ 7–11 s); the range
`-1000 ≤ k ≤ 960` is checked on the DOCUMENTED SUBSET `k ∈ {-1000, -512, -1, 1, 10, 512, 960}` (`k = 0` is the
`self == 1.0` shortcut, `C15.log2_one`). -/

/-- `2^k` as a double -/
def pow2 (k : Int) : F64 := fin false (2 ^ (k + 1074).toNat)

def log2_ok (k : Int) : Bool :=
  decide (TwoFloat.log2 ⟨pow2 k, fin false 0⟩ = ⟨F64.ofInt k, fin false 0⟩)

theorem log2_pow2_shard1 : [-1000, -512, -1].all log2_ok = true := by decide +kernel
theorem log2_pow2_shard2 : [1, 10, 512, 960].all log2_ok = true := by decide +kernel

theorem log2_pow2 (k : Int) (hk : k ∈ [-1000, -512, -1, 1, 10, 512, 960]) :
    TwoFloat.log2 ⟨pow2 k, fin false 0⟩ = ⟨F64.ofInt k, fin false 0⟩ := by
  have h : ([-1000, -512, -1] ++ [1, 10, 512, 960]).all log2_ok = true := by
    rw [List.all_append, log2_pow2_shard1, log2_pow2_shard2]; rfl
  have := List.all_eq_true.1 h k (by simpa using hk)
  exact of_decide_eq_true this

end C15p
