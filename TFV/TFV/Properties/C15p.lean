/-
C15p — panic-freedom of the logarithms: ln, log, log10 (Newton iterations on `exp`), log2 (Newton on `exp2`), ln_1p
(Newton on `exp_m1`), plus the table `log2(2^k) = k` on a documented set of exponents.

`log2` is panic-free on EVERY argument.  `ln` calls `exp` three times on `-x₀, -x₁, -x₂` where
`x₀ = libm::log(hi)` and `xᵢ₊₁ = xᵢ + (self·exp(-xᵢ) - 1)`; these arguments are accumulated double-doubles, and `exp`
is panic-free on every argument satisfying the C01 invariant (valid, or non-finite high word).  That the iterates
satisfy the invariant follows from C01 for `+ - ×`, and for `exp` itself from C01 plus ONE closed finite fact,
`PF.ExpHalfRecipInv` (the reciprocals `1.0 / exp_half(m)`, `1 ≤ m ≤ 1439`, satisfy the invariant — `f64 / TwoFloat`
is the operator whose invariant is open in C01).  Results depending on it are named `_partial`.
-/
import TFV.Lemmas.PanicFree

set_option exponentiation.threshold 3000

namespace C15p
open F64 TwoFloat

/-- **`log2` never panics, on ANY argument** -/
theorem log2_pf (x : TwoFloat) : TwoFloat.log2.pf x = true := PF.log2_pf x

/-- `ln` never panics on an argument satisfying the invariant (in particular on every valid one) -/
theorem ln_pf_partial (HR : PF.ExpHalfRecipInv) (x : TwoFloat) (hi : x.Inv) (hw : x.WF) :
    TwoFloat.ln.pf x = true := PF.ln_pf HR x ⟨hi, hw⟩

/-- the first of the three `exp` calls of `ln` is unconditionally panic-free: its argument is `(-libm::log(hi), -0)` -/
theorem ln_pf_first_call (x : TwoFloat) (hw : x.WF) :
    TwoFloat.exp.pf (arithmetic.impl_Neg_for_TwoFloat.neg
      (convert.impl_From_f64_for_TwoFloat.from (Libm.log x.hi))) = true :=
  PF.exp_pf_good (PF.good_neg (PF.good_from (PF.libm_log_WF hw.1)))

/-- `ln` preserves the invariant -/
theorem ln_inv_partial (HR : PF.ExpHalfRecipInv) (x : TwoFloat) (hi : x.Inv) (hw : x.WF) :
    (TwoFloat.ln x).Inv ∧ (TwoFloat.ln x).WF := PF.good_ln HR ⟨hi, hw⟩

theorem log_pf_partial (HR : PF.ExpHalfRecipInv) (x b : TwoFloat) (hx : x.Inv) (hwx : x.WF)
    (hb : b.Inv) (hwb : b.WF) : TwoFloat.log.pf x b = true := PF.log_pf HR x b ⟨hx, hwx⟩ ⟨hb, hwb⟩

theorem log10_pf_partial (HR : PF.ExpHalfRecipInv) (x : TwoFloat) (hi : x.Inv) (hw : x.WF) :
    TwoFloat.log10.pf x = true := PF.log10_pf HR x ⟨hi, hw⟩

/-- `ln_1p`: two calls of `exp_m1`, the second on `x₀ - (e - self)/(e + 1)`.  PARTIAL: the quotient
(`TwoFloat / TwoFloat`, invariant open in C01) is assumed to satisfy the invariant. -/
theorem ln_1p_pf_partial (x : TwoFloat) (hw : x.WF)
    (hq : let x0 := convert.impl_From_f64_for_TwoFloat.from (Libm.log1p x.hi)
          let e := TwoFloat.exp_m1 x0
          (arithmetic.impl_Div_TwoFloat_for_TwoFloat.div (arithmetic.impl_Sub_TwoFloat_for_TwoFloat.sub e x)
            (arithmetic.impl_Add_f64_for_TwoFloat.add e (f64lit 0x3ff0000000000000))).Inv) :
    TwoFloat.ln_1p.pf x = true := by
  unfold TwoFloat.ln_1p.pf
  split_ifs
  · rfl
  · rfl
  · dsimp only at hq ⊢
    have h0 : PF.Good (convert.impl_From_f64_for_TwoFloat.from (Libm.log1p x.hi)) :=
      PF.good_from (PF.libm_log1p_WF hw.1)
    rw [PF.exp_m1_pf _ h0, PF.exp_m1_pf _ (PF.good_sub_assign_tt h0 ⟨hq, PF.div_tt_WF _ _⟩)]
    rfl

/-- the trait entry points -/
theorem Float_log2_pf (x : TwoFloat) : num_integration.impl_Float_for_TwoFloat.log2.pf x = true := PF.log2_pf x
theorem Float_ln_pf_partial (HR : PF.ExpHalfRecipInv) (x : TwoFloat) (hi : x.Inv) (hw : x.WF) :
    num_integration.impl_Float_for_TwoFloat.ln.pf x = true := PF.ln_pf HR x ⟨hi, hw⟩

/-! ### closed instances -/

example : TwoFloat.ln.pf ⟨f64lit 0x4024000000000000, f64lit 0x0000000000000000⟩ = true := by decide +kernel
example : TwoFloat.ln_1p.pf ⟨f64lit 0x3fe0000000000000, f64lit 0x0000000000000000⟩ = true := by decide +kernel

/-! ### `log2(2^k) = k` exactly (both words)

One instance is one kernel evaluation of `libm::log2` and of two complete `exp2` (≈ 7–11 s); the range
`-1000 ≤ k ≤ 960` is checked on the DOCUMENTED SUBSET `k ∈ {-1000, -512, -1, 1, 10, 512, 960}` (`k = 0` is the
`self == 1.0` shortcut, `C15.log2_one`). -/

/-- `2^k` as a double -/
def pow2 (k : Int) : F64 := fin false (2 ^ (k + 1074).toNat)

def log2_ok (k : Int) : Bool :=
  decide (TwoFloat.log2 ⟨pow2 k, fin false 0⟩ = ⟨F64.ofInt k, fin false 0⟩)

theorem log2_pow2_shard1 : [-1000, -512, -1].all log2_ok = true := by decide +kernel
theorem log2_pow2_shard2 : [1, 10, 512, 960].all log2_ok = true := by decide +kernel

theorem log2_pow2 (k : Int) (hk : k ∈ [-1000, -512, -1, 1, 10, 512, 960]) :
    TwoFloat.log2 ⟨pow2 k, fin false 0⟩ = ⟨F64.ofInt k, fin false 0⟩ := by
  have h : ([-1000, -512, -1] ++ [1, 10, 512, 960]).all log2_ok = true := by
    rw [List.all_append, log2_pow2_shard1, log2_pow2_shard2]; rfl
  have := List.all_eq_true.1 h k (by simpa using hk)
  exact of_decide_eq_true this

end C15p
