/-
C13c (numerical layer of C13, cube root) — the model's `F64.cbrt` is correctly rounded, and `TwoFloat::cbrt`
(`x0 = cbrt(hi)` as an `f64`, then two Newton steps `x ← x − (x²·x − a)/(3·x²)` in double-double arithmetic) is accurate
to `7u² = 7·2^-106` relative to the exact real cube root (the property asks for `16u²`), for every valid well-formed
argument with `|x.hi| ∈ [2^-900, 2^900]`, both signs.  No side conditions.

Units: `x.V` is the value of `x` in units of `2^-1074`; if `R` is the (scaled) value of the result then
`(R/2^1074)³ ≈ x.V/2^1074 ⇔ R³ ≈ x.V·2^2148`, so the exact scaled cube root is the real `C` with `C³ = x.V·(2^1074)²`
(unique, since cubing is injective on `ℝ`).  Every bound is given with that `C` and as a root-free integer inequality
on cubes `(2^106 − 7)³·|x.V|·unit² ≤ (2^106·|R|)³ ≤ (2^106 + 7)³·|x.V|·unit²` plus the sign of `R`.

What is proved (proofs in `TFV/Lemmas/Rest.lean`, §2b–§6):
* `f64_cbrt_correctly_rounded`, `icbrt_floor` — `F64.cbrt` returns the nearest double (ties to even) to the real cube
  root.
* `cbrt_bound` (`7u²`), `cbrt_bound_16u2` (the property's constant), `cbrt_bound_int` (root-free form).
* `cbrt_newton_step` — one Newton step: relative error `E ≤ 2^-50` in, `1.001·E² + 6.5u²` out.
* `div_tt_valid_any_numerator` — by-product needed for the Newton correction, whose numerator `x²·x ⊖ a` can be
  arbitrarily small (even a few units of `2^-1074`) or exactly zero: `TwoFloat / TwoFloat` returns a normalised pair for
  EVERY valid numerator and every divisor (only the overflow-side bounds are assumed), with
  `|a·2^1074 − q·b| ≤ 2^-37|a·2^1074| + 2^55|b.hi| + 2^11·2^1074` (scaled integers).  Four regimes: numerator zero
  (all digits zero); `F64.DivRange` (the existing analysis, here with the absolute error terms kept:
  `TwoFloat.div_tt_acc_abs`); numerator at least `2^9` absolute-error levels (`TwoFloat.div_tt_alpha`: the first
  quotient digit dominates, `renorm3_crude`); otherwise either the divisor is at least `2^-41` (`TwoFloat.div_tt_crude`:
  all digits are small integers and `renorm3` is exact, or the first dominates) or the numerator is at most `2^10`
  units and the divisor below `2^-41` (`CbrtBound.div_tt_tiny`: the partial product is exact and the remainder
  vanishes).

Error budget of one Newton step from relative error `E` (`CbrtReal.newton_norm`): `1.001·E²` (Newton) `+ 3.34u²`
(the two products in `x²·x`, `5u²` each, divided by 3) `+ 3.01u²` (the final subtraction) `+ O(u³)` `≤ 1.001E² + 6.5u²`.
`E₀ ≤ 1.51·2^-53` (correct rounding of `cbrt(hi)` plus `|lo| ≤ 2^-53|hi|`), `E₁ ≤ 9u²`, `E₂ ≤ 6.6u² ≤ 7u²`.
-/
import TFV.Lemmas.Rest

set_option exponentiation.threshold 5000

namespace C13c

open F64 TwoFloat CbrtBound

/-! ### `F64.cbrt` is correctly rounded -/

/-- integer statement: on a non-zero finite input `±n·2^-1074` the result is `±r`, `r = q'·2^(e+1)` (`2^52 ≤ q' ≤ 2^53`,
so `2^e` is half an ulp of `r`) with `(r − 2^e)³ ≤ n·2^2148 ≤ (r + 2^e)³`, i.e. `|r − ∛(n·2^2148)| ≤ ulp/2`; moreover
`2^53·2^e ≤ ∛(n·2^2148)`. -/
theorem f64_cbrt_correctly_rounded (s : Bool) (n : Nat) (hn : 0 < n) :
    ∃ q' e : Nat, F64.cbrt (fin s n) = fin s (q' * 2 ^ (e + 1)) ∧
      2 ^ 52 ≤ q' ∧ q' ≤ 2 ^ 53 ∧ (2 ^ 53 * 2 ^ e) ^ 3 ≤ n * 2 ^ 2148 ∧
      ((2 * q' - 1) * 2 ^ e) ^ 3 ≤ n * 2 ^ 2148 ∧ n * 2 ^ 2148 ≤ ((2 * q' + 1) * 2 ^ e) ^ 3 :=
  F64.cbrt_spec s n hn

/-- the integer cube root used by the model is the floor of the real cube root -/
theorem icbrt_floor (m : Nat) : (F64.icbrt m) ^ 3 ≤ m ∧ m < (F64.icbrt m + 1) ^ 3 := F64.icbrt_spec m

/-! ### `TwoFloat::cbrt` -/

/-- **C13, `cbrt`: `|x.hi| ∈ [2^-900, 2^900]`** (scaled `[2^174, 2^1974]`), both signs: valid well-formed result within
`7·2^-106` of the real cube root `C` (`C³ = x.V·2^2148`). -/
theorem cbrt_bound {x : TwoFloat} (hv : x.Valid) (hw : x.WF)
    (hlo : 2 ^ 174 ≤ |x.hi.toInt|) (hhi : |x.hi.toInt| ≤ 2 ^ 1974) :
    (TwoFloat.cbrt x).Valid ∧ (TwoFloat.cbrt x).WF ∧
    ∃ C : ℝ, C ^ 3 = (x.V : ℝ) * (2 ^ 1074) ^ 2 ∧
      2 ^ 106 * |((TwoFloat.cbrt x).V : ℝ) - C| ≤ 7 * |C| :=
  cbrt_val hv hw hlo hhi

/-- the property's constant `16u²` -/
theorem cbrt_bound_16u2 {x : TwoFloat} (hv : x.Valid) (hw : x.WF)
    (hlo : 2 ^ 174 ≤ |x.hi.toInt|) (hhi : |x.hi.toInt| ≤ 2 ^ 1974) :
    (TwoFloat.cbrt x).Valid ∧
    ∃ C : ℝ, C ^ 3 = (x.V : ℝ) * (2 ^ 1074) ^ 2 ∧
      2 ^ 106 * |((TwoFloat.cbrt x).V : ℝ) - C| ≤ 16 * |C| := by
  obtain ⟨h1, -, C, hC, hb⟩ := cbrt_val hv hw hlo hhi
  exact ⟨h1, C, hC, by have := abs_nonneg C; linarith⟩

/-- root-free form: `(1 − 7u²)³·|x| ≤ |r|³ ≤ (1 + 7u²)³·|x|` on scaled integers, and `r` has the sign of `x` -/
theorem cbrt_bound_int {x : TwoFloat} (hv : x.Valid) (hw : x.WF)
    (hlo : 2 ^ 174 ≤ |x.hi.toInt|) (hhi : |x.hi.toInt| ≤ 2 ^ 1974) :
    (2 ^ 106 - 7) ^ 3 * (|x.V| * (unit : Int) ^ 2) ≤ (2 ^ 106 * |(TwoFloat.cbrt x).V|) ^ 3 ∧
    (2 ^ 106 * |(TwoFloat.cbrt x).V|) ^ 3 ≤ (2 ^ 106 + 7) ^ 3 * (|x.V| * (unit : Int) ^ 2) ∧
    (0 < x.V → 0 < (TwoFloat.cbrt x).V) ∧ (x.V < 0 → (TwoFloat.cbrt x).V < 0) := by
  obtain ⟨-, -, C, hC, hb⟩ := cbrt_val hv hw hlo hhi
  exact cubes_of_real hC hb

/-- one Newton step, as used twice above: relative error `E ≤ 2^-50` in, `1.001·E² + 6.5·2^-106` out -/
theorem cbrt_newton_step {x a : TwoFloat} {C E : ℝ} (hvx : x.Valid) (hwx : x.WF) (hva : a.Valid) (hwa : a.WF)
    (ha1 : 2 ^ 174 ≤ |a.hi.toInt|) (ha2 : |a.hi.toInt| ≤ 2 ^ 1974)
    (hCa : C ^ 3 = (a.V : ℝ) * (2 ^ 1074) ^ 2) (hE0 : 0 ≤ E) (hE : E ≤ 1 / 2 ^ 50)
    (hx : |(x.V : ℝ) - C| ≤ E * |C|) :
    (cbrtStep x a).Valid ∧ (cbrtStep x a).WF ∧
    |((cbrtStep x a).V : ℝ) - C| ≤ ((1001 / 1000) * E ^ 2 + (13 / 2) * (1 / 2 ^ 106)) * |C| :=
  cbrt_step hvx hwx hva hwa ha1 ha2 hCa hE0 hE hx

/-- `TwoFloat::cbrt` on a non-zero high word is two Newton steps from the correctly rounded `f64` cube root -/
theorem cbrt_unfold (x : TwoFloat) (hf : x.hi.is_finite = true) (h0 : x.hi.toInt ≠ 0) :
    TwoFloat.cbrt x = cbrtStep (cbrtStep (convert.impl_From_f64_for_TwoFloat.from (F64.cbrt x.hi)) x) x :=
  cbrt_eq x hf h0

/-- by-product: **`TwoFloat / TwoFloat` returns a normalised pair for every valid numerator and every non-zero
divisor** — only the overflow-side bounds `|n.hi|, |m.hi| ≤ 2^1016`, `|n.hi / m.hi| ≤ 2^1016` are assumed — with a crude
but sufficient accuracy statement -/
theorem div_tt_valid_any_numerator {n m : TwoFloat} (nv : n.Valid) (nw : n.WF) (mv : m.Valid) (mw : m.WF)
    (hy0 : m.hi.toInt ≠ 0)
    (A_hi : |n.hi.toInt| ≤ 2 ^ 2090) (B_hi : |m.hi.toInt| ≤ 2 ^ 2090)
    (Q_hi : |n.hi.toInt * (unit : Int)| ≤ 2 ^ 2090 * |m.hi.toInt|) :
    (n /. m).Valid ∧ (n /. m).WF ∧
    2 ^ 37 * |n.V * (unit : Int) - (n /. m).V * m.V|
      ≤ |n.V * (unit : Int)| + 2 ^ 92 * |m.hi.toInt| + 2 ^ 48 * (unit : Int) := by
  have hU : (unit : Int) = 2 ^ 1074 := by rw [unit_eq]; norm_cast
  have h1 : 1 ≤ |m.hi.toInt| := by
    have := abs_pos.2 hy0; omega
  exact div_tt_any nv nw mv mw hy0 (by rw [hU]; omega) (by rw [hU]; omega) A_hi B_hi Q_hi

/-! ### instances on concrete operands (hypotheses discharged by kernel evaluation) -/

/-- `cbrt π` -/
example :
    (TwoFloat.cbrt consts.PI).Valid ∧
    ∃ C : ℝ, C ^ 3 = (consts.PI.V : ℝ) * (2 ^ 1074) ^ 2 ∧
      2 ^ 106 * |((TwoFloat.cbrt consts.PI).V : ℝ) - C| ≤ 16 * |C| :=
  cbrt_bound_16u2 (by decide +kernel) ⟨by decide +kernel, by decide +kernel⟩ (by decide +kernel) (by decide +kernel)

/-- `cbrt(−10)`, root-free form -/
example :
    let x : TwoFloat := ⟨f64lit 0xc024000000000000, F64.zero⟩
    (2 ^ 106 - 7) ^ 3 * (|x.V| * (unit : Int) ^ 2) ≤ (2 ^ 106 * |(TwoFloat.cbrt x).V|) ^ 3 ∧
    (2 ^ 106 * |(TwoFloat.cbrt x).V|) ^ 3 ≤ (2 ^ 106 + 7) ^ 3 * (|x.V| * (unit : Int) ^ 2) ∧
    (0 < x.V → 0 < (TwoFloat.cbrt x).V) ∧ (x.V < 0 → (TwoFloat.cbrt x).V < 0) :=
  cbrt_bound_int (x := ⟨f64lit 0xc024000000000000, F64.zero⟩)
    (by decide +kernel) ⟨by decide +kernel, by decide +kernel⟩ (by decide +kernel) (by decide +kernel)

/-- the same inequality checked directly by kernel evaluation of the model (independent of the theorem) -/
example :
    let x : TwoFloat := ⟨f64lit 0xc024000000000000, F64.zero⟩
    (2 ^ 106 - 7) ^ 3 * (|x.V| * (unit : Int) ^ 2) ≤ (2 ^ 106 * |(TwoFloat.cbrt x).V|) ^ 3 ∧
    (2 ^ 106 * |(TwoFloat.cbrt x).V|) ^ 3 ≤ (2 ^ 106 + 7) ^ 3 * (|x.V| * (unit : Int) ^ 2) := by
  decide +kernel

/-- the bottom of the range: `2^-900·(1 + 2^-52)` with a low word of `2^-955` -/
example :
    let x : TwoFloat := ⟨f64lit 0x07b0000000000001, f64lit 0x0440000000000000⟩
    (TwoFloat.cbrt x).Valid ∧ (TwoFloat.cbrt x).WF ∧
    ∃ C : ℝ, C ^ 3 = (x.V : ℝ) * (2 ^ 1074) ^ 2 ∧ 2 ^ 106 * |((TwoFloat.cbrt x).V : ℝ) - C| ≤ 7 * |C| :=
  cbrt_bound (x := ⟨f64lit 0x07b0000000000001, f64lit 0x0440000000000000⟩)
    (by decide +kernel) ⟨by decide +kernel, by decide +kernel⟩ (by decide +kernel) (by decide +kernel)

/-- the top of the range, negative: `−2^900` -/
example :
    let x : TwoFloat := ⟨f64lit 0xf830000000000000, F64.zero⟩
    (2 ^ 106 - 7) ^ 3 * (|x.V| * (unit : Int) ^ 2) ≤ (2 ^ 106 * |(TwoFloat.cbrt x).V|) ^ 3 ∧
    (2 ^ 106 * |(TwoFloat.cbrt x).V|) ^ 3 ≤ (2 ^ 106 + 7) ^ 3 * (|x.V| * (unit : Int) ^ 2) ∧
    (0 < x.V → 0 < (TwoFloat.cbrt x).V) ∧ (x.V < 0 → (TwoFloat.cbrt x).V < 0) :=
  cbrt_bound_int (x := ⟨f64lit 0xf830000000000000, F64.zero⟩)
    (by decide +kernel) ⟨by decide +kernel, by decide +kernel⟩ (by decide +kernel) (by decide +kernel)

/-- a perfect cube: the Newton numerator vanishes and `0 / (3x²)` is the zero pair -/
example :
    let x : TwoFloat := ⟨f64lit 0x4020000000000000, F64.zero⟩
    let x0 := convert.impl_From_f64_for_TwoFloat.from (F64.cbrt x.hi)
    (arithmetic.impl_Sub_rTwoFloat_for_rTwoFloat.sub
      (arithmetic.impl_Mul_rTwoFloat_for_rTwoFloat.mul (arithmetic.impl_Mul_rTwoFloat_for_rTwoFloat.mul x0 x0) x0) x).V
      = 0 ∧ TwoFloat.cbrt x = ⟨f64lit 0x4000000000000000, F64.zero⟩ := by
  decide +kernel

/-- division of a tiny numerator (5 units of `2^-1074`) by a small divisor (`≈ 3·2^-600`): a normalised pair -/
example :
    let n : TwoFloat := ⟨F64.fin false 5, F64.zero⟩
    let m : TwoFloat := ⟨f64lit 0x1a78000000000000, F64.zero⟩
    (n /. m).Valid ∧ (n /. m).WF :=
  ⟨(div_tt_valid_any_numerator (n := ⟨F64.fin false 5, F64.zero⟩) (m := ⟨f64lit 0x1a78000000000000, F64.zero⟩)
      (by decide +kernel) ⟨by decide +kernel, by decide +kernel⟩ (by decide +kernel)
      ⟨by decide +kernel, by decide +kernel⟩ (by decide +kernel) (by decide +kernel) (by decide +kernel)
      (by decide +kernel)).1,
   (div_tt_valid_any_numerator (n := ⟨F64.fin false 5, F64.zero⟩) (m := ⟨f64lit 0x1a78000000000000, F64.zero⟩)
      (by decide +kernel) ⟨by decide +kernel, by decide +kernel⟩ (by decide +kernel)
      ⟨by decide +kernel, by decide +kernel⟩ (by decide +kernel) (by decide +kernel) (by decide +kernel)
      (by decide +kernel)).2.1⟩

end C13c
