/-
C13c (numerical layer of C13, cube root) — the model's `F64.cbrt` is correctly rounded, and `TwoFloat::cbrt`
(`x0 = cbrt(hi)` as an `f64`, then two Newton steps `x ← x − (x²·x − a)/(3·x²)` in double-double arithmetic) is accurate
to `7u² = 7·2^-106` relative to the exact real cube root (the property asks for `16u²`), both signs.

Units: `x.V` is the value of `x` in units of `2^-1074`; if `R` is the (scaled) value of the result then
`(R/2^1074)³ ≈ x.V/2^1074 ⇔ R³ ≈ x.V·2^2148`, so the exact scaled cube root is the real `C` with `C³ = x.V·(2^1074)²`
(unique, since cubing is injective on `ℝ`).  Every bound is given with that `C` and as a root-free integer inequality
on cubes `(2^106 − 7)³·|x.V|·unit² ≤ (2^106·|R|)³ ≤ (2^106 + 7)³·|x.V|·unit²` plus the sign of `R`.

What is proved (proofs in `TFV/Lemmas/Rest.lean`, §3–§6):
* `f64_cbrt_correctly_rounded` — `F64.cbrt` returns the nearest double (ties to even) to the real cube root.
* `cbrt_bound` / `cbrt_bound_16u2` / `cbrt_bound_int` — UNCONDITIONAL for every valid, well-formed `x` with
  `|x.hi| ∈ [2^-59, 2^900]`: the result is a valid well-formed pair within `7u²` of `∛x`.
* `cbrt_bound_of_numOK` — the same on the property's full range `|x.hi| ∈ [2^-900, 2^900]` under the side conditions
  `CbrtBound.NumOK` on the two Newton numerators `n = x²·x ⊖ a` (each is exactly zero, or `|n.hi| ≥ 2^-1010` and
  `|n.hi / (3x²).hi| ≥ 2^-1010`): these make the long division `n / (3x²)` fall in the range `F64.DivRange` in which
  it is known to return a normalised pair.
  OPEN: `|x.hi| ∈ [2^-900, 2^-59)` without the side conditions.  There the Newton numerator of the second step is
  about `2^-102·|x|`, so for `|x| < 2^-908` it is ALWAYS below `2^-1010`, and a non-zero numerator of a few units of
  `2^-1074` divided by a denominator `3x² ≈ 2^-600` produces three quotient digits of comparable size; the validity of
  `renorm3` on such digits is not covered by the lemmas available (no counterexample was found: 21000 random divisions
  with tiny numerators all returned normalised pairs).
* `div_tt_valid_any_numerator` — by-product: `TwoFloat / TwoFloat` returns a normalised pair for EVERY valid
  numerator (down to zero) when the divisor is at least `2^-41` in magnitude.

Error budget of one Newton step from relative error `E` (`CbrtReal.newton_norm`): `1.001·E²` (Newton) `+ 3.34u²`
(the two products in `x²·x`, `5u²` each, divided by 3) `+ 3.01u²` (the final subtraction) `+ O(u³)` `≤ 1.001E² + 6.5u²`.
`E₀ ≤ 1.51·2^-53` (correct rounding of `cbrt(hi)` plus `|lo| ≤ 2^-53|hi|`), `E₁ ≤ 9u²`, `E₂ ≤ 6.6u² ≤ 7u²`.
-/
import TFV.Lemmas.Rest

set_option exponentiation.threshold 5000

namespace C13c

open F64 TwoFloat CbrtBound

/-! ### `F64.cbrt` is correctly rounded -/

/-- integer statement: on a non-zero finite input `±n·2^-1074` the result is `±r`, `r = q'·2^(e+1)` (`2^52 ≤ q' ≤ 2^53`,
so `2^e` is half an ulp of `r`) with `(r − 2^e)³ ≤ n·2^2148 ≤ (r + 2^e)³`, i.e. `|r − ∛(n·2^2148)| ≤ ulp/2`; moreover
`2^53·2^e ≤ ∛(n·2^2148)`. -/
theorem f64_cbrt_correctly_rounded (s : Bool) (n : Nat) (hn : 0 < n) :
    ∃ q' e : Nat, F64.cbrt (fin s n) = fin s (q' * 2 ^ (e + 1)) ∧
      2 ^ 52 ≤ q' ∧ q' ≤ 2 ^ 53 ∧ (2 ^ 53 * 2 ^ e) ^ 3 ≤ n * 2 ^ 2148 ∧
      ((2 * q' - 1) * 2 ^ e) ^ 3 ≤ n * 2 ^ 2148 ∧ n * 2 ^ 2148 ≤ ((2 * q' + 1) * 2 ^ e) ^ 3 :=
  F64.cbrt_spec s n hn

/-- the integer cube root used by the model is the floor of the real cube root -/
theorem icbrt_floor (m : Nat) : (F64.icbrt m) ^ 3 ≤ m ∧ m < (F64.icbrt m + 1) ^ 3 := F64.icbrt_spec m

/-! ### `TwoFloat::cbrt` -/

/-- **C13, `cbrt`, unconditional on `|x.hi| ∈ [2^-59, 2^900]`** (scaled `[2^1015, 2^1974]`): valid well-formed result
within `7·2^-106` of the real cube root `C` (`C³ = x.V·2^2148`). -/
theorem cbrt_bound {x : TwoFloat} (hv : x.Valid) (hw : x.WF)
    (hlo : 2 ^ 1015 ≤ |x.hi.toInt|) (hhi : |x.hi.toInt| ≤ 2 ^ 1974) :
    (TwoFloat.cbrt x).Valid ∧ (TwoFloat.cbrt x).WF ∧
    ∃ C : ℝ, C ^ 3 = (x.V : ℝ) * (2 ^ 1074) ^ 2 ∧
      2 ^ 106 * |((TwoFloat.cbrt x).V : ℝ) - C| ≤ 7 * |C| :=
  cbrt_val_mid hv hw hlo hhi

/-- the property's constant `16u²` -/
theorem cbrt_bound_16u2 {x : TwoFloat} (hv : x.Valid) (hw : x.WF)
    (hlo : 2 ^ 1015 ≤ |x.hi.toInt|) (hhi : |x.hi.toInt| ≤ 2 ^ 1974) :
    (TwoFloat.cbrt x).Valid ∧
    ∃ C : ℝ, C ^ 3 = (x.V : ℝ) * (2 ^ 1074) ^ 2 ∧
      2 ^ 106 * |((TwoFloat.cbrt x).V : ℝ) - C| ≤ 16 * |C| := by
  obtain ⟨h1, -, C, hC, hb⟩ := cbrt_val_mid hv hw hlo hhi
  exact ⟨h1, C, hC, by have := abs_nonneg C; linarith⟩

/-- root-free form: `(1 − 7u²)³·|x| ≤ |r|³ ≤ (1 + 7u²)³·|x|` on scaled integers, and `r` has the sign of `x` -/
theorem cbrt_bound_int {x : TwoFloat} (hv : x.Valid) (hw : x.WF)
    (hlo : 2 ^ 1015 ≤ |x.hi.toInt|) (hhi : |x.hi.toInt| ≤ 2 ^ 1974) :
    (2 ^ 106 - 7) ^ 3 * (|x.V| * (unit : Int) ^ 2) ≤ (2 ^ 106 * |(TwoFloat.cbrt x).V|) ^ 3 ∧
    (2 ^ 106 * |(TwoFloat.cbrt x).V|) ^ 3 ≤ (2 ^ 106 + 7) ^ 3 * (|x.V| * (unit : Int) ^ 2) ∧
    (0 < x.V → 0 < (TwoFloat.cbrt x).V) ∧ (x.V < 0 → (TwoFloat.cbrt x).V < 0) := by
  obtain ⟨-, -, C, hC, hb⟩ := cbrt_val_mid hv hw hlo hhi
  exact cubes_of_real hC hb

/-- **C13, `cbrt`, the property's full range `|x.hi| ∈ [2^-900, 2^900]`, PARTIAL**: under the side conditions `NumOK` on
the two Newton numerators (zero, or in the range of the long division). -/
theorem cbrt_bound_of_numOK {x : TwoFloat} (hv : x.Valid) (hw : x.WF)
    (hlo : 2 ^ 174 ≤ |x.hi.toInt|) (hhi : |x.hi.toInt| ≤ 2 ^ 1974)
    (H1 : NumOK (cbrtNum (convert.impl_From_f64_for_TwoFloat.from (F64.cbrt x.hi)) x)
      (cbrtDen (convert.impl_From_f64_for_TwoFloat.from (F64.cbrt x.hi))))
    (H2 : NumOK (cbrtNum (cbrtStep (convert.impl_From_f64_for_TwoFloat.from (F64.cbrt x.hi)) x) x)
      (cbrtDen (cbrtStep (convert.impl_From_f64_for_TwoFloat.from (F64.cbrt x.hi)) x))) :
    (TwoFloat.cbrt x).Valid ∧ (TwoFloat.cbrt x).WF ∧
    ∃ C : ℝ, C ^ 3 = (x.V : ℝ) * (2 ^ 1074) ^ 2 ∧
      2 ^ 106 * |((TwoFloat.cbrt x).V : ℝ) - C| ≤ 7 * |C| :=
  cbrt_val_of_numOK hv hw hlo hhi H1 H2

/-- one Newton step, as used twice above: relative error `E ≤ 2^-50` in, `1.001·E² + 6.5·2^-106` out -/
theorem cbrt_newton_step {x a : TwoFloat} {C E : ℝ} (hvx : x.Valid) (hwx : x.WF) (hva : a.Valid) (hwa : a.WF)
    (ha1 : 2 ^ 174 ≤ |a.hi.toInt|) (ha2 : |a.hi.toInt| ≤ 2 ^ 1974)
    (hCa : C ^ 3 = (a.V : ℝ) * (2 ^ 1074) ^ 2) (hE0 : 0 ≤ E) (hE : E ≤ 1 / 2 ^ 50)
    (hx : |(x.V : ℝ) - C| ≤ E * |C|)
    (H : NumOK (cbrtNum x a) (cbrtDen x) ∨ 2 ^ 1054 ≤ |C|) :
    (cbrtStep x a).Valid ∧ (cbrtStep x a).WF ∧
    |((cbrtStep x a).V : ℝ) - C| ≤ ((1001 / 1000) * E ^ 2 + (13 / 2) * (1 / 2 ^ 106)) * |C| :=
  cbrt_step hvx hwx hva hwa ha1 ha2 hCa hE0 hE hx H

/-- by-product: **`TwoFloat / TwoFloat` returns a normalised pair for every valid numerator** (no lower bound) as soon
as the divisor is at least `2^-41` in magnitude -/
theorem div_tt_valid_any_numerator {a b : TwoFloat} (ha : a.Valid) (hwa : a.WF) (hb : b.Valid)
    (A_hi : |a.hi.toInt| ≤ 2 ^ 2090) (B_hi : |b.hi.toInt| ≤ 2 ^ 2090)
    (Q_hi : |a.hi.toInt * (unit : Int)| ≤ 2 ^ 2090 * |b.hi.toInt|)
    (hβ : (unit : Int) ≤ 2 ^ 41 * |b.hi.toInt|) :
    (a /. b).Valid ∧ (a /. b).WF :=
  ⟨(TwoFloat.div_tt_crude ha hwa hb A_hi B_hi Q_hi hβ).1, (TwoFloat.div_tt_crude ha hwa hb A_hi B_hi Q_hi hβ).2.1⟩

/-! ### instances on concrete operands (hypotheses discharged by kernel evaluation) -/

/-- `cbrt π` -/
example :
    (TwoFloat.cbrt consts.PI).Valid ∧
    ∃ C : ℝ, C ^ 3 = (consts.PI.V : ℝ) * (2 ^ 1074) ^ 2 ∧
      2 ^ 106 * |((TwoFloat.cbrt consts.PI).V : ℝ) - C| ≤ 16 * |C| :=
  cbrt_bound_16u2 (by decide +kernel) ⟨by decide +kernel, by decide +kernel⟩ (by decide +kernel) (by decide +kernel)

/-- `cbrt(−10)`, root-free form -/
example :
    let x : TwoFloat := ⟨f64lit 0xc024000000000000, F64.zero⟩
    (2 ^ 106 - 7) ^ 3 * (|x.V| * (unit : Int) ^ 2) ≤ (2 ^ 106 * |(TwoFloat.cbrt x).V|) ^ 3 ∧
    (2 ^ 106 * |(TwoFloat.cbrt x).V|) ^ 3 ≤ (2 ^ 106 + 7) ^ 3 * (|x.V| * (unit : Int) ^ 2) ∧
    (0 < x.V → 0 < (TwoFloat.cbrt x).V) ∧ (x.V < 0 → (TwoFloat.cbrt x).V < 0) :=
  cbrt_bound_int (x := ⟨f64lit 0xc024000000000000, F64.zero⟩)
    (by decide +kernel) ⟨by decide +kernel, by decide +kernel⟩ (by decide +kernel) (by decide +kernel)

/-- the same inequality checked directly by kernel evaluation of the model (independent of the theorem) -/
example :
    let x : TwoFloat := ⟨f64lit 0xc024000000000000, F64.zero⟩
    (2 ^ 106 - 7) ^ 3 * (|x.V| * (unit : Int) ^ 2) ≤ (2 ^ 106 * |(TwoFloat.cbrt x).V|) ^ 3 ∧
    (2 ^ 106 * |(TwoFloat.cbrt x).V|) ^ 3 ≤ (2 ^ 106 + 7) ^ 3 * (|x.V| * (unit : Int) ^ 2) := by
  decide +kernel

/-- a small argument, `2^-800·(1 + 2^-52)` with a low word: outside the unconditional range; the side conditions are
checked by kernel evaluation -/
example :
    let x : TwoFloat := ⟨f64lit 0x0df0000000000001, f64lit 0x0a80000000000000⟩
    (TwoFloat.cbrt x).Valid ∧ (TwoFloat.cbrt x).WF ∧
    ∃ C : ℝ, C ^ 3 = (x.V : ℝ) * (2 ^ 1074) ^ 2 ∧ 2 ^ 106 * |((TwoFloat.cbrt x).V : ℝ) - C| ≤ 7 * |C| :=
  cbrt_bound_of_numOK (x := ⟨f64lit 0x0df0000000000001, f64lit 0x0a80000000000000⟩)
    (by decide +kernel) ⟨by decide +kernel, by decide +kernel⟩ (by decide +kernel) (by decide +kernel)
    (by decide +kernel) (by decide +kernel)

/-- a perfect cube: both Newton numerators vanish (`NumOK` holds by its first alternative) -/
example :
    let x : TwoFloat := ⟨f64lit 0x4020000000000000, F64.zero⟩
    NumOK (cbrtNum (convert.impl_From_f64_for_TwoFloat.from (F64.cbrt x.hi)) x)
      (cbrtDen (convert.impl_From_f64_for_TwoFloat.from (F64.cbrt x.hi))) ∧
    (cbrtNum (convert.impl_From_f64_for_TwoFloat.from (F64.cbrt x.hi)) x).V = 0 := by
  decide +kernel

end C13c
